import FpVerif.Model.IterM
/-!
# Iterator pipelines as data

`Pipe` describes how an iterator was built from library calls (sources and combinators, with the
user callbacks already resolved to `Val → GoM _` functions).  Its state type `Pipe.St p` is the
nesting of the captured variables of all closures involved; `Pipe.machine p` is the composition of
the machines of `Model/IterM.lean`; `Pipe.build p` runs the constructors (some of which already pull:
`Drop`, `MakePullIterator`).  Nothing is bundled existentially: the oracle runs exactly the
definitions the theorems are about.
-/
namespace FpVerif.It

/-- loops that are unbounded in Go get this much fuel in the oracle -/
def FUEL : Nat := 200000

/-- `fp.IteratorOfSeq` whose slice is supplied at construction time (part of the state). -/
def ofSeqS {α : Type} : Machine (List α × Nat) α where
  hasNext := do
    let (r, idx) ← IM.get
    pure (decide (idx < r.length))
  next := do
    let (r, idx) ← IM.get
    match r[idx]? with
    | some ret => IM.set (r, idx + 1); pure ret
    | none => IM.panic nextOnEmpty

/-- an instrumented `iter.Seq` over a slice, as `MakePullIterator` sees it: the coroutine hands out
    the elements one by one, logging each. -/
def srcTag (id : Nat) (v : Val) : Event := s!"s{id}:{v}"

inductive Pipe where
  | src (id : Nat) (xs : List Val)            -- the harness's instrumented slice iterator
  | seq (xs : List Val)                        -- fp.IteratorOfSeq / iterator.Of / FromSeq / FromSlice
  | arg (n : Nat)                              -- iterator.Of(x, x+1, …) (n elements) for the FlatMap argument x
  | gen (id : Nat) (start step : Int)          -- iterator.Generate over an instrumented generator
  | range (closed : Bool) (a b : Int)
  | opt (o : Option Val)                       -- fp.IteratorOfOption
  | empty
  | zero                                       -- fp.Iterator[T]{}
  | rev (xs : List Val)                        -- iterator.ReverseSeq
  | pullseq (id : Nat) (xs : List Val)         -- fp.MakePullIterator over an instrumented iter.Seq
  | map (p : Pipe) (f : Val → GoM Val)
  | tap (p : Pipe) (f : Val → GoM Unit)
  | take (p : Pipe) (n : Int)
  | drop (p : Pipe) (n : Int)
  | takew (p : Pipe) (f : Val → GoM Bool)
  | dropw (p : Pipe) (f : Val → GoM Bool)
  | filter (p : Pipe) (f : Val → GoM Bool)
  | filternot (p : Pipe) (f : Val → GoM Bool)
  | concat (p q : Pipe)
  | flatmap (p : Pipe) (pre : Val → GoM Val) (k : Pipe)   -- fn x = { pre x; build k with argument x }
  | filtermap (p : Pipe) (f : Val → GoM (Option Val))
  | scan (p : Pipe) (z : Val) (f : Val → Val → GoM Val)
  | zip (p q : Pipe)
  | zip3 (p q r : Pipe)
  | zipidx (p : Pipe)

namespace Pipe

def St : Pipe → Type
  | src _ _ => Nat
  | seq _ => Nat
  | arg _ => List Val × Nat
  | gen _ _ _ => Nat
  | range _ _ _ => Int
  | opt _ => Bool
  | empty => Unit
  | zero => Unit
  | rev _ => Nat
  | pullseq _ _ => Nat × Option Val
  | map p _ => p.St
  | tap p _ => p.St
  | take p _ => p.St × Nat
  | drop p _ => p.St
  | takew p _ => p.St × TakeWhileSt Val
  | dropw p _ => p.St × DropWhileSt Val
  | filter p _ => p.St × FilterSt Val
  | filternot p _ => p.St × FilterSt Val
  | concat p q => (p.St × q.St) × ConcatSt
  | flatmap p _ k => p.St × Option k.St
  | filtermap p _ => p.St × Option (Option Val × Bool)
  | scan p _ _ => p.St × ScanSt Val
  | zip p q => p.St × q.St
  | zip3 p q r => p.St × q.St × r.St
  | zipidx p => Nat × p.St

def tupV (a b : Val) : Val := .tup [a, b]

mutual
/-- the iterator's `hasNext`/`next` closures; `fuel` is what the loops that are unbounded in Go
    (`DropWhile`, `Filter`, `FilterNot`, `FlatMap`, `FilterMap`) get -/
def machineF (fuel : Nat) : (p : Pipe) → Machine p.St Val
  | src id xs => ofSeq (some (srcTag id)) xs
  | seq xs => ofSeq none xs
  | arg _ => ofSeqS
  | gen id start step => generate (fun n => do
      let v := Val.int (start + step * n)
      emit (srcTag id v)
      pure v)
  | range closed _ b => It.map (fun i => pure (Val.int i)) (It.range closed b)
  | opt o => ofOption o
  | empty => It.empty
  | zero => It.zero
  | rev xs => reverseSeq xs
  | pullseq id xs => pull (ofSeq (some (srcTag id)) xs)
  | map p f => It.map f (machineF fuel p)
  | tap p f => tapEach f (machineF fuel p)
  | take p n => It.take n (machineF fuel p)
  | drop p _ => machineF fuel p
  | takew p f => takeWhile f (machineF fuel p)
  | dropw p f => dropWhile fuel f (machineF fuel p)
  | filter p f => It.filter fuel f (machineF fuel p)
  | filternot p f => filterNot fuel f (machineF fuel p)
  | concat p q => It.concat ((partsF fuel p).join (partsF fuel q))
  | flatmap p pre k => flatMap fuel (fun x => do let _ ← pre x; buildF fuel k x) (machineF fuel k) (machineF fuel p)
  | filtermap p f => filterMap fuel f (machineF fuel p)
  | scan p _ f => It.scan f (machineF fuel p)
  | zip p q => It.map (fun ab => pure (tupV ab.1 ab.2)) (It.zip (machineF fuel p) (machineF fuel q))
  | zip3 p q r => It.map (fun abc => pure (Val.tup [abc.1, abc.2.1, abc.2.2]))
      (It.zip3 (machineF fuel p) (machineF fuel q) (machineF fuel r))
  | zipidx p => It.map (fun ia => pure (tupV (.int ia.1) ia.2)) (zipWithIndex (machineF fuel p))

/-- the field `concat` of the Go struct: the iterators a later `Concat` will iterate over -/
def partsF (fuel : Nat) : (p : Pipe) → MMachine p.St Val
  | concat p q => concatParts ((partsF fuel p).join (partsF fuel q))
  | drop p _ => partsF fuel p
  | p => MMachine.single (machineF fuel p)

/-- run the constructors, innermost first; `x` is the argument of the enclosing `FlatMap` callback -/
def buildF (fuel : Nat) : (p : Pipe) → Val → GoM p.St
  | src _ _, _ => pure (0 : Nat)
  | seq _, _ => pure (0 : Nat)
  | arg n, x => pure ((List.range n).map (fun (i : Nat) => Val.int (x.asInt + (i : Int))), (0 : Nat))
  | gen _ _ _, _ => pure (0 : Nat)
  | range _ a _, _ => pure a
  | opt _, _ => pure true
  | empty, _ => pure ()
  | zero, _ => pure ()
  | rev xs, _ => pure xs.length
  | pullseq id xs, _ => runInit (pullInit (ofSeq (some (srcTag id)) xs)) ((0 : Nat), none)
  | map p _, x => buildF fuel p x
  | tap p _, x => buildF fuel p x
  | take p _, x => do let s ← buildF fuel p x; pure (s, (0 : Nat))
  | drop p n, x => do let s ← buildF fuel p x; runInit (It.drop n (machineF fuel p)) s
  | takew p _, x => do let s ← buildF fuel p x; pure (s, {})
  | dropw p _, x => do let s ← buildF fuel p x; pure (s, {})
  | filter p _, x => do let s ← buildF fuel p x; pure (s, {})
  | filternot p _, x => do let s ← buildF fuel p x; pure (s, {})
  | concat p q, x => do let s ← buildF fuel p x; let t ← buildF fuel q x; pure ((s, t), {})
  | flatmap p _ _, x => do let s ← buildF fuel p x; pure (s, none)
  | filtermap p _, x => do let s ← buildF fuel p x; pure (s, none)
  | scan p z _, x => do let s ← buildF fuel p x; pure (s, { sum := z })
  | zip p q, x => do let s ← buildF fuel p x; let t ← buildF fuel q x; pure (s, t)
  | zip3 p q r, x => do let s ← buildF fuel p x; let t ← buildF fuel q x; let u ← buildF fuel r x; pure (s, t, u)
  | zipidx p, x => do let s ← buildF fuel p x; pure ((0 : Nat), s)
where
  /-- run a construction-time computation on a state -/
  runInit {σ : Type} (m : IM σ Unit) (s : σ) : GoM σ := fun lg =>
    match m s lg with
    | (.ok (), s', lg') => (.ok s', lg')
    | (.error p, _, lg') => (.error p, lg')
end

/-- what the oracle runs: the machines with the fuel constant `FUEL`.  (Go has no fuel; the theorems
    of `Spec/C12.lean` are about `machineF fuel` for EVERY `fuel` above the explicit bound
    `Pipe.need`.) -/
def machine (p : Pipe) : Machine p.St Val := machineF FUEL p
def parts (p : Pipe) : MMachine p.St Val := partsF FUEL p
def build (p : Pipe) (x : Val) : GoM p.St := buildF FUEL p x

/-- total number of elements handed out by the instrumented sources of the pipeline -/
def pulls : (p : Pipe) → p.St → Nat
  | src _ _, s => s
  | gen _ _ _, s => s
  | pullseq _ _, s => s.1
  | map p _, s => pulls p s
  | tap p _, s => pulls p s
  | take p _, s => pulls p s.1
  | drop p _, s => pulls p s
  | takew p _, s => pulls p s.1
  | dropw p _, s => pulls p s.1
  | filter p _, s => pulls p s.1
  | filternot p _, s => pulls p s.1
  | concat p q, s => pulls p s.1.1 + pulls q s.1.2
  | flatmap p _ _, s => pulls p s.1
  | filtermap p _, s => pulls p s.1
  | scan p _ _, s => pulls p s.1
  | zip p q, s => pulls p s.1 + pulls q s.2
  | zip3 p q r, s => pulls p s.1 + pulls q s.2.1 + pulls r s.2.2
  | zipidx p, s => pulls p s.2
  | _, _ => 0

end Pipe
end FpVerif.It
