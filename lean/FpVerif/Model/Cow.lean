import FpVerif.Model.Sched
/-!
# Model of `mutable.CopyOnWriteMap` (mutable/copyonwrite.go).

```go
type CopyOnWriteMap[K, V any] struct { value atomic.Value; lock sync.Mutex }

func (r *CopyOnWriteMap[K, V]) load() fp.UnsafeGoMap[K, V] {
	m := r.value.Load()                                   // yield "cow.load"
	if m == nil {
		r.lock.Lock(); defer r.lock.Unlock()              // yield "cow.load.lock"
		m = r.value.Load()
		if m == nil { m = fp.UnsafeGoMap[K, V]{}; r.value.Store(m) }
	}
	return m.(fp.UnsafeGoMap[K, V])
}
func (r *CopyOnWriteMap[K, V]) copyOnWrite(f func(om) nm) nm {
	r.lock.Lock(); defer r.lock.Unlock()                  // yield "cow.enter"
	m := r.value.Load(); if m == nil { m = {} }
	nm := f(m)
	r.value.Store(nm)                                     // yield "cow.store"
	return nm
}
Get(k) = load().Get(k); Size() = load().Size(); Iterator() = load().Iterator()
Updated / Removed / UpdatedWith = copyOnWrite(<pure function of the old map>)
func (r *CopyOnWriteMap[K, V]) ComputeIf(k K, pred func(V) bool, f func() V) V {
	ret := r.Get(k).FilterNot(pred)                       // load()
	if ret.IsDefined() { return ret.Get() }
	nv := f()
	r.copyOnWrite(func(om) { nm := copy(om); nm[k] = nv; return nm })
	return r.Get(k).Get()                                 // load(); Option.Get panics on None
}
```

`Variant.asIs` is ComputeIf as written above (check, then act, then re-read: three separate
atomic sections).  `Variant.recheck` is the minimal repair: the check is repeated on the map
loaded under the write lock and the result is taken from there (no re-read).

Ghost state: `hist` records call / linearization-point / return events.  It is never read by the
program; the theorems of Spec/C19 are about it.
-/
namespace FpVerif.Cow
open FpVerif.Sched

abbrev K := Nat
abbrev V := Int

/-- an immutable Go map, as an association list with unique keys (newest binding first) -/
abbrev AMap := List (K × V)

def AMap.get (m : AMap) (k : K) : Option V := List.lookup k m
def AMap.del (m : AMap) (k : K) : AMap := m.filter (fun p => p.1 != k)
def AMap.put (m : AMap) (k : K) (v : V) : AMap := (k, v) :: AMap.del m k
def AMap.delAll (m : AMap) (ks : List K) : AMap := m.filter (fun p => !ks.contains p.1)

inductive Variant where
  | asIs
  | recheck
  deriving DecidableEq, Repr, Inhabited

/-- One call on the map.  User callbacks are pure functions plus an identifier under which each
    invocation is logged (`pid = none`: the constant-false predicate of `ComputeIfAbsent`). -/
inductive Op where
  | get (k : K)
  | size
  | iter
  | updated (k : K) (v : V)
  | removed (ks : List K)
  | updatedWith (k : K) (rid : Nat) (remap : Option V → Option V)
  | computeIf (k : K) (pid : Option Nat) (pred : V → Bool) (fid : Nat) (nv : V)

inductive Ret where
  | opt (o : Option V)
  | nat (n : Nat)
  | kvs (m : AMap)
  | unit
  | val (v : V)
  | panic
  deriving DecidableEq, Repr, Inhabited

/-- an invocation of a user callback: identifier and argument -/
structure Call where
  id : Nat
  arg : Option V
  deriving DecidableEq, Repr

/-! ### the sequential specification: an atomic map -/

def updatedWithMap (m : AMap) (k : K) (remap : Option V → Option V) : AMap :=
  match remap (AMap.get m k) with
  | some nv => AMap.put m k nv
  | none => if (AMap.get m k).isSome then AMap.del m k else m

/-- `ComputeIf` on an atomic map: keep a present value that does not satisfy `pred`, otherwise
    store and return the new value -/
def computeIfMap (m : AMap) (k : K) (pred : V → Bool) (nv : V) : AMap × V :=
  match AMap.get m k with
  | some v => if pred v then (AMap.put m k nv, nv) else (m, v)
  | none => (AMap.put m k nv, nv)

def Op.apply (m : AMap) : Op → AMap × Ret
  | .get k => (m, .opt (AMap.get m k))
  | .size => (m, .nat m.length)
  | .iter => (m, .kvs m)
  | .updated k v => (AMap.put m k v, .unit)
  | .removed ks => (AMap.delAll m ks, .unit)
  | .updatedWith k _ remap => (updatedWithMap m k remap, .unit)
  | .computeIf k _ pred _ nv => let r := computeIfMap m k pred nv; (r.1, .val r.2)

/-! ### the concurrent object -/

inductive HEv where
  | call (t i : Nat) (op : Op)
  /-- linearization point of operation `i` of thread `t`, with the result the atomic map gives -/
  | lin (t i : Nat) (op : Op) (r : Ret)
  | ret (t i : Nat) (r : Ret)

structure Shared where
  /-- `value`: nil or the current immutable snapshot -/
  snap : Option AMap
  lock : Bool
  /-- invocations of user callbacks, in order -/
  calls : List Call
  hist : List HEv

def Shared.map (sh : Shared) : AMap := sh.snap.getD []

inductive Pc where
  | load                         -- at "cow.load" of the operation's first `load()`
  | loadLock                     -- at "cow.load.lock"
  | hold (m : AMap)              -- Iterator obtained, not yet consumed
  | enter                        -- at "cow.enter"
  | store (nm : AMap) (out : Ret)  -- at "cow.store", lock held
  | load2                        -- ComputeIf as written: the final `r.Get(k)`
  | load2Lock
  deriving Repr

inductive Phase where
  | running (op : Op) (pc : Pc)
  | finished

structure Local where
  tid : Nat
  done : List (Op × Ret)
  phase : Phase
  todo : List Op

/-- begin the next operation of the program (the thread runs on to its first yield point) -/
def startNext (sh : Shared) (l : Local) : Shared × Local :=
  match l.todo with
  | [] => (sh, { l with phase := .finished })
  | op :: rest =>
    ({ sh with hist := sh.hist ++ [.call l.tid l.done.length op] },
     { l with phase := .running op (match op with
                                    | .updated .. | .removed _ | .updatedWith .. => .enter
                                    | _ => .load),
              todo := rest })

/-- the operation returns `r` -/
def complete (sh : Shared) (l : Local) (op : Op) (r : Ret) : Shared × Local :=
  let sh' := { sh with hist := sh.hist ++ [.ret l.tid l.done.length r] }
  let l' := { l with done := l.done ++ [(op, r)] }
  match r with
  | .panic => (sh', { l' with phase := .finished, todo := [] })   -- the goroutine dies
  | _ => startNext sh' l'

def linEv (sh : Shared) (l : Local) (op : Op) (r : Ret) : Shared :=
  { sh with hist := sh.hist ++ [.lin l.tid l.done.length op r] }

/-- what the operation does with the map returned by its first `load()` -/
def afterLoad (sh : Shared) (l : Local) (op : Op) (m : AMap) : Option (Shared × Local) :=
  match op with
  | .get k => some (complete (linEv sh l op (.opt (AMap.get m k))) l op (.opt (AMap.get m k)))
  | .size => some (complete (linEv sh l op (.nat m.length)) l op (.nat m.length))
  | .iter => some (linEv sh l op (.kvs m), { l with phase := .running op (.hold m) })
  | .computeIf k pid pred fid _ =>
    -- ret := Get(k).FilterNot(pred); if defined return; nv := f()
    let predCalls : List Call := match AMap.get m k, pid with
      | some v, some p => [⟨p, some v⟩]
      | _, _ => []
    match AMap.get m k with
    | some v =>
      if pred v then
        some ({ sh with calls := sh.calls ++ predCalls ++ [⟨fid, none⟩] },
              { l with phase := .running op .enter })
      else
        let sh1 := { sh with calls := sh.calls ++ predCalls }
        some (complete (linEv sh1 l op (.val v)) l op (.val v))
    | none =>
      some ({ sh with calls := sh.calls ++ [⟨fid, none⟩] },
            { l with phase := .running op .enter })
  | _ => none

/-- the function passed to `copyOnWrite`, applied to the map loaded under the lock:
    new map, return value, callback invocations -/
def writeBody (v : Variant) (op : Op) (m : AMap) : Option (AMap × Ret × List Call) :=
  match op with
  | .updated k x => some (AMap.put m k x, .unit, [])
  | .removed ks => some (AMap.delAll m ks, .unit, [])
  | .updatedWith k rid remap => some (updatedWithMap m k remap, .unit, [⟨rid, AMap.get m k⟩])
  | .computeIf k pid pred _ nv =>
    match v with
    | .asIs => some (AMap.put m k nv, .val nv, [])
    | .recheck =>
      let predCalls : List Call := match AMap.get m k, pid with
        | some x, some p => [⟨p, some x⟩]
        | _, _ => []
      match AMap.get m k with
      | some x => if pred x then some (AMap.put m k nv, .val nv, predCalls) else some (m, .val x, predCalls)
      | none => some (AMap.put m k nv, .val nv, [])
  | _ => none

def isAsIsComputeIf (v : Variant) : Op → Bool
  | .computeIf .. => v == .asIs
  | _ => false

/-- one atomic block -/
def stepT (v : Variant) (sh : Shared) (l : Local) : Option (Shared × Local) :=
  match l.phase with
  | .finished => none
  | .running op pc =>
    match pc with
    | .load =>
      match sh.snap with
      | none => some (sh, { l with phase := .running op .loadLock })
      | some m => afterLoad sh l op m
    | .loadLock =>
      if sh.lock then none
      else afterLoad { sh with snap := some sh.map } l op sh.map
    | .hold m => some (complete sh l op (.kvs m))
    | .enter =>
      if sh.lock then none
      else
        match writeBody v op sh.map with
        | none => none
        | some (nm, out, cs) =>
          some ({ sh with lock := true, calls := sh.calls ++ cs },
                { l with phase := .running op (.store nm out) })
    | .store nm out =>
      let sh1 := { sh with snap := some nm, lock := false }
      if isAsIsComputeIf v op then
        some (sh1, { l with phase := .running op .load2 })
      else
        some (complete (linEv sh1 l op out) l op out)
    | .load2 =>
      match sh.snap with
      | none => some (sh, { l with phase := .running op .load2Lock })
      | some m =>
        match op with
        | .computeIf k .. =>
          match AMap.get m k with
          | some x => some (complete sh l op (.val x))
          | none => some (complete sh l op .panic)
        | _ => none
    | .load2Lock =>
      if sh.lock then none
      else
        match op with
        | .computeIf k .. =>
          match AMap.get sh.map k with
          | some x => some (complete { sh with snap := some sh.map } l op (.val x))
          | none => some (complete { sh with snap := some sh.map } l op .panic)
        | _ => none

abbrev CSys := Sys Shared Local

def emptyShared : Shared := ⟨none, false, [], []⟩

/-- start all threads: thread `t` runs `progs[t]` -/
def initFrom (sh : Shared) (t : Nat) : List (List Op) → Shared × List Local
  | [] => (sh, [])
  | p :: ps =>
    let r := startNext sh ⟨t, [], .finished, p⟩
    let rest := initFrom r.1 (t + 1) ps
    (rest.1, r.2 :: rest.2)

def init (progs : List (List Op)) : CSys :=
  let r := initFrom emptyShared 0 progs
  ⟨r.1, r.2⟩

abbrev crun (v : Variant) (s : CSys) (sched : List Tid) : CSys := run (stepT v) s sched

/-! ### observables -/

def Local.isFinished (l : Local) : Bool :=
  match l.phase with
  | .finished => true
  | _ => false

def allFinished (s : CSys) : Bool := s.threads.all Local.isFinished

def Local.rets (l : Local) : List Ret := l.done.map (·.2)

def Local.point (l : Local) : String :=
  match l.phase with
  | .finished => if l.rets.contains .panic then "panic" else "ret"
  | .running _ pc =>
    match pc with
    | .load | .load2 => "cow.load"
    | .loadLock | .load2Lock => "cow.load.lock"
    | .hold _ => "iter.hold"
    | .enter => "cow.enter"
    | .store .. => "cow.store"

/-- a generous bound on the number of atomic blocks a thread still has to run -/
def Local.fuel (l : Local) : Nat := 6 * (l.todo.length + 1)

def finishSched (s : CSys) : List Tid :=
  roundRobin s.threads.length (s.threads.foldl (fun a l => a + l.fuel) 0)

end FpVerif.Cow
