import FpVerif.Model.TryOpt
import FpVerif.Model.TypeClasses
import FpVerif.Model.Eval
/-!
# Extension of `Model/TryOpt.lean`: the remaining transformer functions of package `try`
(try_seqt.go, try_optiont.go) and the remaining hand-written functions of `try`, `option`, `either`
and of the types `fp.Option` / `fp.Try` (option.go, try.go).

One definition per Go function, mirroring the Go body: which library function it is defined through,
the order in which user callbacks are invoked, and where it panics (`throw`).

Representation notes (what is a parameter, what is not modelled):

* `fp.Seq[A]` is `List A` (a nil and an empty Seq are the same value) — EXCEPT in `option.NonEmptySlice`,
  whose only branch is `t == nil`: there a slice is `Option (List E)` (`none` = nil slice).
* `*T` is `Option T` (`none` = nil pointer, `some v` = a pointer whose target holds `v`); pointer identity
  is not modelled (`Option.Ptr` returns the address of a COPY of the value, so no aliasing is observable).
* the zero value of a type parameter (`fp.Zero[T]()`, `var zero T`) is a parameter `zero : A`.
* `option.Of` decides by two Go-level facts about its argument that a first-order value cannot carry:
  "the interface is nil" (`i == nil`) and "the dynamic value is a nil chan/func/map/pointer/unsafe pointer/
  interface/slice" (`reflect` + `isNil`).  Both are PARAMETER PREDICATES of the model (`ifaceNil`, `kindNil`);
  the oracle instantiates them on a small sum type of argument shapes.
* `fmt.Sprint(v)` inside `Seq.MakeString` is a parameter `sprint : A → String`.
* `sort.Sort` is the parameter `TC.SortImpl` of `Model/TypeClasses.lean` (hypothesis `SortSpec` in C10).
* `fp.Ord[A]` is the pure dictionary `TC.OrdD A` (instances do not log or panic).
* `lazy.Eval[B]` is `EvalM.Eval B` of `Model/Eval.lean` (thunks may log, they do not panic).
-/
namespace FpVerif

-- ------------------------------------------------------------------------------------------ fp.Seq methods (seq.go)
/-! The methods of `fp.Seq` / functions of package `seq` that the `Transform` list of the `SeqT` directive
    names and that `Oracle/TryOpt.lean` had left to ad-hoc lambdas. -/
namespace SeqM
variable {A B : Type}

/-- `r.Append(items...)`: `if len(items) > 0 { copy r, then items } else r` -/
def append (r : List A) (items : List A) : List A :=
  if items.length > 0 then r ++ items else r

/-- `r.Add(item) = r.Append(item)` -/
def add (r : List A) (item : A) : List A := append r [item]

/-- `r.Concat(tail)` -/
def concat (r : List A) (tail : List A) : List A :=
  if tail.length > 0 then r ++ tail else r

def size (r : List A) : Nat := r.length
def isEmpty (r : List A) : Bool := size r == 0
def nonEmpty (r : List A) : Bool := decide (size r > 0)

/-- `r.Get(idx)`: `if r.Size() > idx { return Some(r[idx]) } else { return None }`.  `idx` is a Go `int`:
    a NEGATIVE index passes the guard and `r[idx]` panics with Go's index error. -/
def get (r : List A) (idx : Int) : GoM (Option A) :=
  if (size r : Int) > idx then
    if idx < 0 then throw s!"runtime:runtime error: index out of range [{idx}]"
    else pure r[idx.toNat]?
  else pure none

/-- the loop of `r.MakeString(sep)`: `for i, v := range r { if i != 0 { buf += sep }; buf += fmt.Sprint(v) }` -/
def makeStringLoop (sprint : A → String) (sep : String) : List A → Bool → String → String
  | [], _, buf => buf
  | v :: vs, first, buf => makeStringLoop sprint sep vs false ((if first then buf else buf ++ sep) ++ sprint v)

def makeString (sprint : A → String) (r : List A) (sep : String) : String :=
  makeStringLoop sprint sep r true ""

/-- the loop of `seq.Scan`: `for i, v := range s { sum = f(sum, v); ret[i+1] = sum }` -/
def scanLoop (f : B → A → GoM B) : List A → B → List B → GoM (List B)
  | [], _, ret => pure ret
  | v :: vs, sum, ret => do
    let sum' ← f sum v
    scanLoop f vs sum' (ret ++ [sum'])

/-- `seq.Scan(s, zero, f)`: `if s.IsEmpty() { return Of(zero) }; ret[0] = zero; loop` -/
def scan (s : List A) (zero : B) (f : B → A → GoM B) : GoM (List B) :=
  if isEmpty s then pure [zero] else scanLoop f s zero [zero]

/-- `seq.Sort`, `seq.Min`, `seq.Max`: the definitions of `Model/TypeClasses.lean` (C10 is about them). -/
abbrev sort (impl : TC.SortImpl A) (r : List A) (ord : TC.OrdD A) : List A := TC.seqSort impl r ord
abbrev min (r : List A) (ord : TC.OrdD A) : Option A := TC.foldMin r ord
abbrev max (r : List A) (ord : TC.OrdD A) : Option A := TC.foldMax r ord

end SeqM

-- ------------------------------------------------------------------------------------------ fp.Option (option.go) and package option
namespace OptM
variable {A B R T E : Type}

-- methods of fp.Option (option.go) ---------------------------------------------------------------

/-- `r.All()`: the returned iterator function `func(yield func(T) bool)`; `yield`'s result is dropped
    (there is no second element it could suppress). -/
def all (r : Option A) (yield : A → GoM Bool) : GoM Unit :=
  match r with
  | some v => do let _ ← yield v; pure ()
  | none => pure ()

/-- `r.Foreach(f)` -/
def foreach (r : Option A) (f : A → GoM Unit) : GoM Unit :=
  match r with
  | some v => f v
  | none => pure ()

/-- `r.Unapply()`: `(r.Get(), true)` or `(zero, false)` -/
def unapply (zero : A) (r : Option A) : A × Bool :=
  match r with
  | some v => (v, true)
  | none => (zero, false)

/-- `r.OrZero() = r.OrElseGet(Zero[T])` -/
def orZero (zero : A) (r : Option A) : GoM A := orElseGet r (fun _ => pure zero)

/-- `r.OrPtr(v)`: `if r.IsDefined() { r } else if v == nil { None } else { Some(*v) }` -/
def orPtr (r : Option A) (v : Option A) : Option A :=
  match r with
  | some x => some x
  | none =>
    match v with
    | none => none
    | some x => some x

/-- `r.Ptr()`: `&r.v` (address of the receiver's copy) or nil -/
def mPtr (r : Option A) : Option A :=
  match r with
  | some v => some v
  | none => none

-- package option (option/option_op.go) ------------------------------------------------------------

/-- `option.Some(v) = fp.None[T]().Recover(func() T { return v })` -/
def some' (v : A) : GoM (Option A) := recover none (fun _ => pure v)

/-- `option.ConstNone(a)` -/
def constNone (_ : A) : Option B := none

/-- `option.Of(v)`: `if i == nil { None }; if isNil(reflect.ValueOf(i)) { None }; Some(v)`.
    `ifaceNil`, `kindNil` : see the header. -/
def of (ifaceNil kindNil : A → Bool) (v : A) : Option A :=
  if ifaceNil v then none
  else if kindNil v then none
  else some v

/-- `option.Ptr(v)`: `if v == nil { None } else { Some(*v) }` -/
def ptr (v : Option A) : Option A :=
  match v with
  | none => none
  | some x => some x

/-- `option.NonZero(t)`: `if t == Zero[T]() { None } else { Some(t) }` -/
def nonZero [BEq A] (zero : A) (t : A) : Option A :=
  if t == zero then none else some t

/-- `option.String(v) = NonZero(v)` -/
def string (v : String) : Option String := nonZero "" v

/-- `option.NonEmptySlice(t)`: the ONLY test is `t == nil` (an empty non-nil slice is `Some`). -/
def nonEmptySlice (t : Option (List E)) : Option (Option (List E)) :=
  match t with
  | none => none
  | some l => some (some l)

/-- `option.ComposePure(fab) = fp.Compose(fab, Some)` -/
def composePure (fab : A → GoM B) : A → GoM (Option B) :=
  fun a => do let b ← fab a; pure (some b)

/-- `option.FlatPtr(opt) = FlatMap(opt, v => Ptr(v))` -/
def flatPtr (opt : Option (Option A)) : GoM (Option A) :=
  flatMap opt (fun v => pure (ptr v))

/-- `option.FoldRight(s, zero, f)`: `if s.IsEmpty() { lazy.Done(zero) } else { f(s.Get(), lazy.Done(zero)) }`.
    `f` is CALLED eagerly; what is lazy is the accumulator it is handed. -/
def foldRight (s : Option A) (zero : B) (f : A → EvalM.Eval B → GoM (EvalM.Eval B)) : GoM (EvalM.Eval B) :=
  match s with
  | none => pure (EvalM.done zero)
  | some a => f a (EvalM.done zero)

/-- `option.Deref(opt) = Map(opt, T.Deref)` with the generated `option.Map` (`FlatMap(m, Compose2(f, Pure))`);
    the method `T.Deref` is a callback (it is user code and may panic, e.g. on a nil receiver). -/
def deref (opt : Option T) (derefM : T → GoM R) : GoM (Option R) :=
  MonadFamily.map ops (pure opt) derefM

/-- `option.Pure0(f)` -/
def pure0 (f : Unit → GoM R) : Unit → GoM (Option R) :=
  fun _ => do let r ← f (); pure (some r)

/-- `option.Pure1(f)` -/
def pure1 (f : A → GoM R) : A → GoM (Option R) :=
  fun a => do let r ← f a; pure (some r)

end OptM

-- ------------------------------------------------------------------------------------------ fp.Try (try.go) and package try
namespace TryM
variable {A B R : Type}

/-- `r.All()` of fp.Try -/
def all (r : Try A) (yield : A → GoM Bool) : GoM Unit :=
  match r with
  | .success v => do let _ ← yield v; pure ()
  | .failure _ => pure ()

/-- `r.OrZero() = r.OrElseGet(Zero[T])` -/
def orZero (zero : A) (r : Try A) : GoM A := orElseGet r (fun _ => pure zero)

/-- `fp.Iterator.NextOption` on the iterator `Traverse` returns (`iterator.FromSeq(l)`) -/
def nextOption (l : List R) : Option R := l.head?

/-- `try.TraverseOption(opta, fa) = Map(Traverse(fp.IteratorOfOption(opta), fa), fp.Iterator[R].NextOption)`:
    the generated `Traverse` (`MonadFamily.traverse`, over the package's own `FoldM`) on the 0/1-element
    iterator of the option. -/
def traverseOption (opta : Option A) (fa : A → GoM (Try R)) : GoM (Try (Option R)) :=
  MonadFamily.map ops
    (MonadFamily.traverse ops TryM.foldM opta.toList fa)
    (fun l => pure (nextOption l))

/-- `try.FoldRight(ta, bzero, fab)`: `if ta.IsFailure() { lazy.Done(bzero) } else { fab(ta.Get(), lazy.Done(bzero)) }` -/
def foldRight (ta : Try A) (bzero : B) (fab : A → EvalM.Eval B → GoM (EvalM.Eval B)) : GoM (EvalM.Eval B) :=
  match ta with
  | .failure _ => pure (EvalM.done bzero)
  | .success a => fab a (EvalM.done bzero)

end TryM

-- ------------------------------------------------------------------------------------------ package either
namespace EitM
variable {L A : Type}

/-- `either.NotRight[R, L](l) = fp.Left[L, R](l)` -/
def notRight (l : L) : Either L A := .left l

/-- `either.Foreach(e, f)` -/
def foreach (e : Either L A) (f : A → GoM Unit) : GoM Unit :=
  match e with
  | .right r => f r
  | .left _ => pure ()

end EitM

-- ------------------------------------------------------------------------------------------ transformers (try_seqt.go, try_optiont.go)
/-! The `Transform` entries that `Model/TryOpt.lean` did not name.  Every one is
    `XSeqT(t, args) = Map(t, insideValue => X(insideValue, args))` with the package's `Map`, i.e. `transformT`. -/
namespace TryT
variable {A B : Type}

def appendSeqT (t : GoM (Try (List A))) (items : A) : GoM (Try (List A)) :=
  transformT t (fun l => pure (SeqM.append l [items]))

def concatSeqT (t : GoM (Try (List A))) (tail : List A) : GoM (Try (List A)) :=
  transformT t (fun l => pure (SeqM.concat l tail))

def getSeqT (t : GoM (Try (List A))) (idx : Int) : GoM (Try (Option A)) :=
  transformT t (fun l => SeqM.get l idx)

def isEmptySeqT (t : GoM (Try (List A))) : GoM (Try Bool) :=
  transformT t (fun l => pure (SeqM.isEmpty l))

def nonEmptySeqT (t : GoM (Try (List A))) : GoM (Try Bool) :=
  transformT t (fun l => pure (SeqM.nonEmpty l))

def makeStringSeqT (sprint : A → String) (t : GoM (Try (List A))) (sep : String) : GoM (Try String) :=
  transformT t (fun l => pure (SeqM.makeString sprint l sep))

def scanSeqT (t : GoM (Try (List A))) (zero : B) (f : B → A → GoM B) : GoM (Try (List B)) :=
  transformT t (fun l => SeqM.scan l zero f)

def sortSeqT (impl : TC.SortImpl A) (t : GoM (Try (List A))) (ord : TC.OrdD A) : GoM (Try (List A)) :=
  transformT t (fun l => pure (SeqM.sort impl l ord))

def minSeqT (t : GoM (Try (List A))) (ord : TC.OrdD A) : GoM (Try (Option A)) :=
  transformT t (fun l => pure (SeqM.min l ord))

def maxSeqT (t : GoM (Try (List A))) (ord : TC.OrdD A) : GoM (Try (Option A)) :=
  transformT t (fun l => pure (SeqM.max l ord))

def orZeroOptionT (zero : A) (t : GoM (Try (Option A))) : GoM (Try A) :=
  transformT t (fun o => OptM.orZero zero o)

def orPtrOptionT (t : GoM (Try (Option A))) (v : Option A) : GoM (Try (Option A)) :=
  transformT t (fun o => pure (OptM.orPtr o v))

end TryT

end FpVerif
