import FpVerif.Model.TypeClasses
/-!
# The Go constructs the translator `harness/cmd/tc2lean` maps the hand-written type-class combinators onto

`FpVerif/Gen/TCGen.lean` (regenerated from the working tree on every check) is written in terms of the
dictionaries of `Model/TypeClasses.lean` plus the few definitions below.  They are the *semantics of the Go
fragment* the translator accepts (work package TCTIE, Tie A for hand-written code), committed and fixed:

* `GoZero`  : every Go type has a zero value (`var zero T`, `fp.Zero[T]`); also the value a PANICKING read
  (`x.Get()` on `None`, `*p` on nil, `a[i]` out of range) yields in this pure setting.  Every theorem of
  `Spec/C09Gen … C18Gen` is quantified over ALL `GoZero` instances while the model side never mentions `GoZero`,
  so no result can depend on such a read.
* `forRange` : the two loop schemas
      L1  `for i := range a { S }`                      (Go 1.22 integer index over a slice)
      L2  `for i := 0; i < n; i++ { S }`                (`n` loop-invariant)
  where `S` is a sequence of `if c { return e }` : `body i = some e` when iteration `i` returns `e`, `none` when it
  falls through to `i+1`; after the last iteration the statements following the loop (`rest`) run.
* `forAcc`   : schema L3 `acc := init; for i := 0; i < n; i++ { acc = f(acc, i) }` (and the `for _, v := range s`
  form, where the translator passes `idx s i` for `v`).
* `optGet`, `deref`, `idx` : `x.Get()`, `*p`, `a[i]`.
* `optionMap2`, `orElse` : `option.Map2`, `Option.OrElse` (library callees; their own tie is C01/C02).
-/
namespace FpVerif.GoSem
open FpVerif.TC

/-- the zero value of a Go type -/
class GoZero (α : Type) where
  zero : α

instance : GoZero Bool := ⟨false⟩
instance : GoZero Int := ⟨0⟩
instance : GoZero Nat := ⟨0⟩
instance : GoZero Int64 := ⟨0⟩
instance : GoZero UInt8 := ⟨0⟩
instance : GoZero UInt32 := ⟨0⟩
instance : GoZero UInt64 := ⟨0⟩
instance : GoZero String := ⟨""⟩
instance : GoZero Unit := ⟨()⟩
instance {α : Type} : GoZero (Option α) := ⟨none⟩
instance {α : Type} : GoZero (List α) := ⟨[]⟩
instance {α β : Type} [GoZero α] [GoZero β] : GoZero (α × β) := ⟨(GoZero.zero, GoZero.zero)⟩
instance {α : Type} [GoZero α] : GoZero (T1 α) := ⟨⟨GoZero.zero⟩⟩
instance {α : Type} [GoZero α] : GoZero (Dual α) := ⟨⟨GoZero.zero⟩⟩
/-- the zero `fp.Try` is not a `TryV` (C11 assumes properly initialised Try values); any inhabitant serves, no theorem can depend on it -/
instance {α : Type} [GoZero α] : GoZero (TryV α) := ⟨.success GoZero.zero⟩
instance {α β : Type} [GoZero β] : GoZero (α → β) := ⟨fun _ => GoZero.zero⟩
/-- a numeric Go type: its zero value is the `0` of its arithmetic -/
instance (priority := low) {α : Type} [GoNum α] : GoZero α := ⟨GoNum.zero⟩

variable {α β γ ρ : Type}

/-- `fp.Clone[T]` as a dictionary: the clone function (pure view: which instance is applied to which component;
    the heap behaviour of package clone is `Model/CloneHeap.lean`) -/
abbrev CloneD (α : Type) := α → α

/-- the bytes of a Go string (`len(s)`, `s[i]`) -/
def strBytes (s : String) : List UInt8 := s.toUTF8.toList

/-- `uint64(key)` for the integer carriers the model of `hash.Number` is stated at -/
class GoInt (α : Type) where
  toUInt64 : α → UInt64

instance : GoInt Int := ⟨fun k => UInt64.ofInt k⟩
instance : GoInt Int64 := ⟨fun k => k.toUInt64⟩

/-- `x.Get()` on an `fp.Option` (panics on `None`) -/
def optGet [GoZero α] : Option α → α
  | some v => v
  | none => GoZero.zero

/-- `*p` on a pointer of packages eq / hash / ord (`Ptr α`; panics on nil) -/
def deref [GoZero α] : Ptr α → α
  | some r => r.val
  | none => GoZero.zero

/-- `*p` where pointers are modelled up to their target (packages monoid / semigroup: `*T` is `Option T`) -/
def derefV [GoZero α] : Option α → α := optGet

/-- `a[i]` on a slice (panics when out of range) -/
def idx [GoZero α] (a : List α) (i : Nat) : α :=
  match a[i]? with
  | some v => v
  | none => GoZero.zero

/-- `option.Map2(first, second, f)` -/
def optionMap2 (a : Option α) (b : Option β) (f : α → β → γ) : Option γ :=
  match a with
  | some x => (match b with | some y => some (f x y) | none => none)
  | none => none

/-- `o.OrElse(d)` -/
def orElse (o : Option α) (d : α) : α :=
  match o with
  | some v => v
  | none => d

/-- iterations `i, i+1, …` (`fuel` of them) of a loop whose body either returns (`some`) or falls through -/
def loopFrom (body : Nat → Option ρ) (rest : ρ) : (fuel i : Nat) → ρ
  | 0, _ => rest
  | fuel + 1, i =>
    match body i with
    | some r => r
    | none => loopFrom body rest fuel (i + 1)

/-- schemas L1 / L2 : `for i := 0; i < n; i++ { body }; rest` -/
def forRange (n : Nat) (body : Nat → Option ρ) (rest : ρ) : ρ := loopFrom body rest n 0

/-- iterations `i, i+1, …` of an accumulating loop -/
def accFrom (step : β → Nat → β) : (fuel i : Nat) → β → β
  | 0, _, acc => acc
  | fuel + 1, i, acc => accFrom step fuel (i + 1) (step acc i)

/-- schema L3 : `acc := init; for i := 0; i < n; i++ { acc = step(acc, i) }` -/
def forAcc (n : Nat) (init : β) (step : β → Nat → β) : β := accFrom step n 0 init

end FpVerif.GoSem
