import FpVerif.Base
/-!
# Model of `lazy.Eval` (lazy/lazy.go): trampolined evaluation

`type Eval[T] struct { firstFunc func() T; getNextFunc func(T) Eval[T] }`.
* `leaf first`        : `getNextFunc == nil`
* `cont first next`   : `getNextFunc != nil`
* `logged evs e`      : not a Go value — it records that *producing* the value `e` (a user function
  `func(T) Eval[T]` or `func() Eval[T]` returning it) emitted the events `evs`; this keeps the
  inductive type free of nested occurrences while still letting user code log when it is called.
Thunks are writer computations `Unit → T × List Event` (they may log; panics are not modelled here).
`first = none` is the nil `firstFunc` of the zero value.
The inductive type contains exactly the *terminating* programs; the property compares with strict
evaluation, which diverges on the others too.
-/
namespace FpVerif.EvalM

abbrev W (α : Type) := α × List Event

inductive Eval (T : Type) where
  | leaf (first : Option (Unit → W T))
  | cont (first : Option (Unit → W T)) (next : T → Eval T)
  | logged (evs : List Event) (e : Eval T)

variable {T : Type} [Inhabited T]

/-- `firstFunc()` with the nil case of `Resume` (zero value of `T`). -/
def callFirst (first : Option (Unit → W T)) : W T :=
  match first with
  | some f => f ()
  | none => (default, [])

/-- `r.FlatMap(f)` -/
def flatMap (r : Eval T) (f : T → Eval T) : Eval T :=
  match r with
  | .leaf first => .cont first f
  | .cont first next => .cont first (fun v => flatMap (next v) f)
  | .logged evs e => .logged evs (flatMap e f)

def done (t : T) : Eval T := .leaf (some (fun _ => (t, [])))

/-- `r.Map(f)`: `f` is a writer function -/
def map (r : Eval T) (f : T → W T) : Eval T :=
  flatMap r (fun v => let (w, l) := f v; .logged l (done w))

/-- `lazy.Map2` -/
def map2 (a b : Eval T) (f : T → T → W T) : Eval T :=
  flatMap a (fun v1 => map b (fun v2 => f v1 v2))

/-- `lazy.Call(f)` (memoisation: see `Model/Memo.lean`; an `Eval` is run once here) -/
def call (f : Unit → W T) : Eval T := .leaf (some f)

/-- `lazy.TailCall(f)`: `firstFunc` returns zero, `getNextFunc` ignores it and calls `f` -/
def tailCall (f : Unit → Eval T) : Eval T := .cont (some (fun _ => (default, []))) (fun _ => f ())

/-- Denotation of `Run`: structural recursion (accepted by Lean: every Eval built here terminates). -/
def run : Eval T → W T
  | .leaf first => callFirst first
  | .cont first next =>
    let (v, l1) := callFirst first
    let (r, l2) := run (next v)
    (r, l1 ++ l2)
  | .logged evs e =>
    let (r, l) := run e
    (r, evs ++ l)

/-- One `Resume()`: either the final result, or the next `Eval` to continue with (the Go code returns
    a closure that computes it; calling that closure is what `Run`'s loop does next).  The log is
    what this one step emitted. -/
def resume : Eval T → W (T ⊕ Eval T)
  | .leaf first => let (v, l) := callFirst first; (.inl v, l)
  | .cont first next => let (v, l) := callFirst first; (.inr (next v), l)
  | .logged evs e => (.inr e, evs)

/-- The loop of `Run` with an iteration budget: `for { result, k := t.Resume(); if k != nil { t = k(); continue }; return result }`. -/
def runLoop : Nat → Eval T → List Event → Option (W T)
  | 0, _, _ => none
  | n + 1, t, log =>
    match resume t with
    | (.inl v, l) => some (v, log ++ l)
    | (.inr t', l) => runLoop n t' (log ++ l)

/-- number of loop iterations `Run` performs -/
def steps : Eval T → Nat
  | .leaf _ => 1
  | .cont first next => 1 + steps (next (callFirst first).1)
  | .logged _ e => 1 + steps e

end FpVerif.EvalM
