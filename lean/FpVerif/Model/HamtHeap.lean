import FpVerif.Model.Hamt
/-!
# Heap (pointer-level) model of `immutable/map.go` — who shares what, who writes where (C04)

`Model/Hamt.lean` is a VALUE model: a trie is a Lean tree, so every version is persistent by
construction and nothing can be said about Go pointer sharing.  This file models the same code one
level lower:

* an ADDRESS is a `Nat`; the HEAP is an array of cells; allocation appends a cell (the new address
  is the old size, so "fresh" = `≥ size`), `store` overwrites a cell in place;
* a CELL is a Go object: the `*hamt` header `{size, root}`, one of the five node structs, or the
  backing array of a slice (`[]mapEntry` of an array / collision node, `[]mapNode` of a bitmap
  node).  A node struct holds a `Slice = {arr, len}` (pointer to the backing-array cell + length;
  the capacity is the size of that array; the code never re-slices with an offset), so two nodes
  CAN alias one backing array and a write through one is seen through the other.  `[32]mapNode` of
  a hash-array node is part of the struct (Go array, copied by `clone()`).
* `set` / `delete` / `mergeIntoNode` / `(*hamt).set` / `(*hamt).delete` / `Removed` / the builders are
  heap transformers in the monad `HM` that mirror map.go branch by branch INCLUDING `mutable`:
  the in-place branches `store` into existing cells (`n.nodes[idx] = newNode`, `n.value = value`,
  `append`, `copy` inside the backing array, `n.bitmap |= bit`, `other := n` …), the copying
  branches only `alloc`.
* `absF` / `absHamt` map (heap, pointer) back to the value-level `Node` / `Hamt` of `Model/Hamt.lean`
  and also return the FOOTPRINT (the addresses read), which is what ownership is about.

Modelling decisions:
* Object construction (`&T{…}`, `make` + `copy` + element assignments into the fresh slice,
  `n.clone()` followed by assignments to the clone) is ONE allocation of the finished object: the
  object is unreachable for everybody else until the function returns it, so the initialising
  stores are not observable.  Stores into objects that existed before the call are all explicit.
* recursion depth: Go recurses along the trie; the model recurses structurally on a fuel argument
  (`trieFuel` levels; a well-formed trie has at most 8) and reports exhaustion as the stack
  overflow Go would produce on a cyclic heap.  The refinement theorem shows it is unreachable.
* as in the value model the array-node expansion is stratified (`hsetCoreN` is parameterised by the
  expansion function; the loop uses `hsetTrieN`).
* `append` grows by doubling (Go's policy for these element sizes below 256 elements); the theorems
  do not depend on the policy.
* reads (`Get`, iterators) do not write; the wrappers' reads are expressed through the abstraction.
-/
namespace FpVerif.HamtHeap
open FpVerif.Hamt

/-- an address (plain `Nat`, so that arithmetic on addresses needs no unfolding) -/
scoped macro "Addr" : term => `(Nat)

/-- a Go slice header: pointer to the backing array cell, length (capacity = size of that array) -/
structure Slice where
  arr : Addr
  len : Nat
  deriving DecidableEq, Repr, Inhabited

/-- an element of a backing array: a `mapEntry{key,value}` or a non-nil `mapNode` (pointer) -/
inductive Slot (K V : Type) where
  | ent (key : K) (value : V)
  | ptr (a : Addr)

/-- heap cells -/
inductive Cell (K V : Type) where
  /-- `hamt{size, root}` (the hasher never changes and is passed separately) -/
  | hamt (size : Nat) (root : Option Addr)
  /-- `mapArrayNode{entries}` -/
  | array (entries : Slice)
  /-- `mapBitmapIndexedNode{bitmap, nodes}` -/
  | bitmap (bitmap : Nat) (nodes : Slice)
  /-- `mapHashArrayNode{count, nodes [32]mapNode}`; `none` = nil slot -/
  | hashArray (count : Nat) (nodes : List (Option Addr))
  /-- `mapValueNode{keyHash, key, value}` -/
  | value (keyHash : UInt32) (key : K) (value : V)
  /-- `mapHashCollisionNode{keyHash, entries}` -/
  | collision (keyHash : UInt32) (entries : Slice)
  /-- backing array of a slice; `none` = zero value (`mapEntry{}` / nil `mapNode`) -/
  | arr (slots : List (Option (Slot K V)))

variable {K V : Type}

instance : Inhabited (Cell K V) := ⟨.arr []⟩

abbrev Heap (K V : Type) := Array (Cell K V)

/-- heap-transformer monad: state = heap, `.error` = Go panic / fatal error -/
abbrev HM (K V : Type) (α : Type) : Type := Heap K V → Except String (α × Heap K V)

instance : Monad (HM K V) where
  pure a := fun H => .ok (a, H)
  bind x f := fun H =>
    match x H with
    | .ok (a, H1) => f a H1
    | .error e => .error e

def fail {α : Type} (msg : String) : HM K V α := fun _ => .error msg

/-- `new(T)` / `&T{…}`: the new object gets the next address -/
def alloc (c : Cell K V) : HM K V Addr := fun H => .ok (H.size, H.push c)

/-- read through a pointer -/
def load (a : Addr) : HM K V (Cell K V) := fun H =>
  match H[a]? with
  | some c => .ok (c, H)
  | none => .error "invalid memory address or nil pointer dereference"

/-- write through a pointer: IN PLACE -/
def store (a : Addr) (c : Cell K V) : HM K V Unit := fun H =>
  if a < H.size then .ok ((), H.setIfInBounds a c)
  else .error "invalid memory address or nil pointer dereference"

/-- lift a pure (value-level) computation -/
def liftE {α : Type} (x : GoE α) : HM K V α := fun H =>
  match x with
  | .ok a => .ok (a, H)
  | .error e => .error e

-- slices -----------------------------------------------------------------------------------------

/-- `mapM` in `Option`, structurally recursive -/
def mapOpt {α β : Type} (g : α → Option β) : List α → Option (List β)
  | [] => some []
  | x :: xs =>
    match g x, mapOpt g xs with
    | some y, some ys => some (y :: ys)
    | _, _ => none

def Slot.ent? : Slot K V → Option (K × V)
  | .ent k v => some (k, v)
  | .ptr _ => none

def Slot.ptr? : Slot K V → Option Addr
  | .ptr a => some a
  | .ent _ _ => none

/-- the elements a slice shows, each read through `g` -/
def viewWith {β : Type} (g : Slot K V → Option β) (H : Heap K V) (s : Slice) : Option (List β) :=
  match H[s.arr]? with
  | some (.arr slots) =>
    if s.len ≤ slots.length then mapOpt (fun o => o.bind g) (slots.take s.len) else none
  | _ => none

/-- a `[]mapEntry` -/
def viewEnts (H : Heap K V) (s : Slice) : Option (List (K × V)) := viewWith Slot.ent? H s
/-- a `[]mapNode` without nil elements -/
def viewPtrs (H : Heap K V) (s : Slice) : Option (List Addr) := viewWith Slot.ptr? H s

def loadEnts (s : Slice) : HM K V (List (K × V)) := fun H =>
  match viewEnts H s with
  | some es => .ok (es, H)
  | none => .error "model: ill-formed []mapEntry"

def loadPtrs (s : Slice) : HM K V (List Addr) := fun H =>
  match viewPtrs H s with
  | some ps => .ok (ps, H)
  | none => .error "model: ill-formed []mapNode"

/-- `make([]T, len(xs), cap)` + initialisation with `xs` (a slice literal, or `make` + `copy` +
    element assignments on the fresh slice) -/
def allocSlots (xs : List (Slot K V)) (cap : Nat) : HM K V Slice := do
  let a ← alloc (.arr (xs.map some ++ List.replicate (cap - xs.length) none))
  pure ⟨a, xs.length⟩

def entSlots (es : List (K × V)) : List (Slot K V) := es.map (fun e => .ent e.1 e.2)
def ptrSlots (ps : List Addr) : List (Slot K V) := ps.map .ptr

/-- growth of `append` on a full slice -/
def growCap (cap : Nat) : Nat := if cap == 0 then 1 else 2 * cap

/-- `s[i] = x` -/
def storeSlot (s : Slice) (i : Nat) (x : Slot K V) : HM K V Unit := do
  match ← load s.arr with
  | .arr slots =>
    if i < s.len ∧ s.len ≤ slots.length then store s.arr (.arr (slots.set i (some x)))
    else fail "index out of range"
  | _ => fail "model: not a backing array"

/-- `append(s, x)`: in place when there is spare capacity, else a new backing array (the old one is
    left untouched) -/
def appendSlot (s : Slice) (x : Option (Slot K V)) : HM K V Slice := do
  match ← load s.arr with
  | .arr slots =>
    if s.len < slots.length then do
      store s.arr (.arr (slots.set s.len x))
      pure ⟨s.arr, s.len + 1⟩
    else if s.len = slots.length then do
      let a ← alloc (.arr (slots ++ x :: List.replicate (growCap slots.length - slots.length - 1) none))
      pure ⟨a, s.len + 1⟩
    else fail "model: slice longer than its backing array"
  | _ => fail "model: not a backing array"

/-- `copy(s[idx:], s[idx+1:]); s[len(s)-1] = zero; s = s[:len(s)-1]` -/
def removeSlot (s : Slice) (idx : Nat) : HM K V Slice := do
  match ← load s.arr with
  | .arr slots =>
    if idx < s.len ∧ s.len ≤ slots.length then do
      store s.arr (.arr (slots.take idx ++ (slots.take s.len).drop (idx + 1) ++ none :: slots.drop s.len))
      pure ⟨s.arr, s.len - 1⟩
    else fail "slice bounds out of range"
  | _ => fail "model: not a backing array"

/-- `s = append(s, nil); copy(s[idx+1:], s[idx:]); s[idx] = x` -/
def insertSlot (s : Slice) (idx : Nat) (x : Slot K V) : HM K V Slice := do
  let s' ← appendSlot s none
  match ← load s'.arr with
  | .arr slots =>
    if idx < s'.len ∧ s'.len ≤ slots.length then do
      store s'.arr (.arr (slots.take idx ++ some x :: (slots.take s.len).drop idx ++ slots.drop s'.len))
      pure s'
    else fail "slice bounds out of range"
  | _ => fail "model: not a backing array"

-- mergeIntoNode ------------------------------------------------------------------------------------

/-- `node.keyHashValue()` through the pointer -/
def keyHashValueAt (node : Addr) : HM K V UInt32 := do
  match ← load node with
  | .value kh _ _ => pure kh
  | .collision kh _ => pure kh
  | _ => pure 0

/-- `mergeIntoNode`: the existing leaf `node` is SHARED (it becomes a child of the new branch) -/
def hmergeN : Nat → Addr → Nat → UInt32 → K → V → HM K V Addr
  | 0, _, _, _, _, _ => fail "stack overflow (mergeIntoNode)"
  | F + 1, node, shift, keyHash, key, val => do
    let idx1 := frag (← keyHashValueAt node) shift
    let idx2 := frag keyHash shift
    -- other := &mapBitmapIndexedNode{bitmap: (1 << idx1) | (1 << idx2)}
    let bitmap := (1 <<< idx1) ||| (1 <<< idx2)
    if idx1 == idx2 then
      if shift ≥ 32 then fail "stack overflow (mergeIntoNode on equal hashes)"
      else do
        let child ← hmergeN F node (shift + mapNodeBits) keyHash key val
        let sl ← allocSlots [.ptr child] 1
        alloc (.bitmap bitmap sl)
    else do
      let newNode ← alloc (.value keyHash key val)
      let sl ← if idx1 < idx2 then allocSlots [.ptr node, .ptr newNode] 2
               else allocSlots [.ptr newNode, .ptr node] 2
      alloc (.bitmap bitmap sl)

-- set ------------------------------------------------------------------------------------------------

/-- the conversion loop of `mapBitmapIndexedNode.set`, on any element type -/
def bitmapToHashArrayG {α : Type} (bm : Nat) (nodes : List α) : GoE (List (Option α) × Nat) :=
  (List.range mapNodeSize).foldlM (fun (acc : List (Option α) × Nat) i =>
    if bm &&& (1 <<< i) != 0 then
      match nodes[acc.2]? with
      | some c => pure (acc.1.set i (some c), acc.2 + 1)
      | none => throw "index out of range"
    else pure acc) (List.replicate mapNodeSize none, 0)

/-- recursion budget of the model (levels of the trie) -/
def trieFuel : Nat := 16

/-- `set` of the five node kinds through the pointer `n`.  Returns the pointer to the resulting
    node.  `mutable = false`: only `alloc`; `mutable = true`: the branches marked IN PLACE `store`. -/
def hsetCoreN (h : Hasher K) (expand : List (K × V) → K → V → Bool → HM K V (Addr × Bool)) :
    Nat → Addr → K → V → Nat → UInt32 → Bool → Bool → HM K V (Addr × Bool)
  | 0, _, _, _, _, _, _, _ => fail "stack overflow (set)"
  | F + 1, n, key, val, shift, keyHash, mutable, resized => do
    match ← load n with
    | .array sl => do
      let entries ← loadEnts sl
      let idx := indexOf h entries key
      -- Mark as resized if the key doesn't exist.
      let resized := if idx == none then true else resized
      -- If we are adding and it crosses the max size threshold, expand the node.
      if idx == none && entries.length ≥ maxArrayMapSize then
        expand entries key val resized
      else if mutable then
        -- Update in-place if mutable.
        match idx with
        | some i => do
          storeSlot sl i (.ent key val)                      -- IN PLACE n.entries[idx] = …
          pure (n, resized)
        | none => do
          let sl' ← appendSlot sl (some (.ent key val))      -- IN PLACE (or regrown) append
          store n (.array sl')                               -- IN PLACE n.entries = …
          pure (n, resized)
      else
        match idx with
        | some i => do
          let sl' ← allocSlots (entSlots (entries.set i (key, val))) entries.length
          pure (← alloc (.array sl'), resized)
        | none => do
          let sl' ← allocSlots (entSlots (entries ++ [(key, val)])) (entries.length + 1)
          pure (← alloc (.array sl'), resized)
    | .bitmap bm sl => do
      let nodes ← loadPtrs sl
      let keyHashFrag := frag keyHash shift
      let bit := 1 <<< keyHashFrag
      let exists_ := (bm &&& bit) != 0
      let resized := if !exists_ then true else resized
      let idx := popCount (bm &&& (bit - 1))
      -- If the node already exists, delegate set operation to it, else create a value leaf node.
      let (newNode, resized) ←
        if exists_ then
          match nodes[idx]? with
          | some child => hsetCoreN h expand F child key val (shift + mapNodeBits) keyHash mutable resized
          | none => fail "index out of range"
        else do pure (← alloc (.value keyHash key val), resized)
      -- Convert to a hash-array node once we exceed the max bitmap size.
      if !exists_ && nodes.length > maxBitmapIndexedSize then do
        let (slots, count) ← liftE (bitmapToHashArrayG bm nodes)
        pure (← alloc (.hashArray (count + 1) (slots.set keyHashFrag (some newNode))), resized)
      else if mutable then
        -- Update in-place if mutable.
        if exists_ then do
          storeSlot sl idx (.ptr newNode)                    -- IN PLACE n.nodes[idx] = newNode
          pure (n, resized)
        else do
          let sl' ← insertSlot sl idx (.ptr newNode)         -- IN PLACE append + copy + assign
          store n (.bitmap (bm ||| bit) sl')                 -- IN PLACE n.bitmap |= bit; n.nodes = …
          pure (n, resized)
      else if exists_ then do
        let sl' ← allocSlots (ptrSlots (nodes.set idx newNode)) nodes.length
        pure (← alloc (.bitmap (bm ||| bit) sl'), resized)
      else do
        let sl' ← allocSlots (ptrSlots (nodes.take idx ++ newNode :: nodes.drop idx)) (nodes.length + 1)
        pure (← alloc (.bitmap (bm ||| bit) sl'), resized)
    | .hashArray count nodes => do
      let idx := frag keyHash shift
      match nodes[idx]? with
      | none => fail "model: hash array node without 32 slots"
      | some node =>
        let (newNode, resized) ←
          match node with
          | none => do pure (← alloc (.value keyHash key val), true)
          | some child => hsetCoreN h expand F child key val (shift + mapNodeBits) keyHash mutable resized
        let count' := if node.isNone then count + 1 else count
        if mutable then do
          store n (.hashArray count' (nodes.set idx (some newNode)))   -- IN PLACE other := n
          pure (n, resized)
        else
          -- other = n.clone(); other.count++; other.nodes[idx] = newNode
          pure (← alloc (.hashArray count' (nodes.set idx (some newNode))), resized)
    | .value nKeyHash nKey nValue => do
      if h.eqv nKey key then
        if mutable then do
          store n (.value nKeyHash nKey val)                 -- IN PLACE n.value = value
          pure (n, resized)
        else pure (← alloc (.value nKeyHash key val), resized)
      else if nKeyHash != keyHash then
        pure (← hmergeN F n shift keyHash key val, true)
      else do
        let sl ← allocSlots [.ent nKey nValue, .ent key val] 2
        pure (← alloc (.collision keyHash sl), true)
    | .collision nKeyHash sl => do
      if nKeyHash != keyHash then
        pure (← hmergeN F n shift keyHash key val, true)
      else do
        let entries ← loadEnts sl
        if mutable then
          match indexOf h entries key with
          | none => do
            let sl' ← appendSlot sl (some (.ent key val))    -- IN PLACE (or regrown) append
            store n (.collision nKeyHash sl')                -- IN PLACE n.entries = …
            pure (n, true)
          | some i => do
            storeSlot sl i (.ent key val)                    -- IN PLACE n.entries[idx] = …
            pure (n, resized)
        else
          match indexOf h entries key with
          | none => do
            let sl' ← allocSlots (entSlots (entries ++ [(key, val)])) (entries.length + 1)
            pure (← alloc (.collision nKeyHash sl'), true)
          | some i => do
            let sl' ← allocSlots (entSlots (entries.set i (key, val))) entries.length
            pure (← alloc (.collision nKeyHash sl'), resized)
    | _ => fail "model: not a map node"

/-- `set` on the nodes built while an array node is expanded (cf. `Node.setTrie`) -/
def hsetTrieN (h : Hasher K) : Nat → Addr → K → V → Nat → UInt32 → Bool → Bool → HM K V (Addr × Bool) :=
  hsetCoreN h (fun _ _ _ _ => fail "model: array node below the root")

/-- the expansion loop of a full `mapArrayNode` (cf. `expandArray`): every `set` has `mutable = false` -/
def hexpandArray (h : Hasher K) (entries : List (K × V)) (key : K) (val : V) (resized : Bool) :
    HM K V (Addr × Bool) := do
  let node ← alloc (.value (h.hash key) key val)
  entries.foldlM (fun (acc : Addr × Bool) entry =>
    hsetTrieN h trieFuel acc.1 entry.1 entry.2 0 (h.hash entry.1) false acc.2) (node, resized)

/-- `mapNode.set` with `fuel` levels of recursion -/
def hsetN (h : Hasher K) : Nat → Addr → K → V → Nat → UInt32 → Bool → Bool → HM K V (Addr × Bool) :=
  hsetCoreN h (hexpandArray h)

-- delete ---------------------------------------------------------------------------------------------

/-- the conversion loop of `mapHashArrayNode.delete`, on any element type -/
def hashArrayToBitmapG {α : Type} (nodes : List (Option α)) (idx : Nat) : Nat × List α :=
  (List.range mapNodeSize).foldl (fun (acc : Nat × List α) i =>
    match nodes[i]? with
    | some (some child) => if i != idx then (acc.1 ||| (1 <<< i), acc.2 ++ [child]) else acc
    | _ => acc) (0, [])

/-- `delete` of the five node kinds through the pointer `n`; result pointer `none` = nil -/
def hdeleteN (h : Hasher K) :
    Nat → Addr → K → Nat → UInt32 → Bool → Bool → HM K V (Option Addr × Bool)
  | 0, _, _, _, _, _, _ => fail "stack overflow (delete)"
  | F + 1, n, key, shift, keyHash, mutable, resized => do
    match ← load n with
    | .array sl => do
      let entries ← loadEnts sl
      match indexOf h entries key with
      | none => pure (some n, resized)
      | some idx =>
        if entries.length == 1 then pure (none, true)
        else if mutable then do
          let sl' ← removeSlot sl idx                        -- IN PLACE copy + zero + reslice
          store n (.array sl')                               -- IN PLACE n.entries = …
          pure (some n, true)
        else do
          let sl' ← allocSlots (entSlots (entries.take idx ++ entries.drop (idx + 1))) (entries.length - 1)
          pure (some (← alloc (.array sl')), true)
    | .bitmap bm sl => do
      let nodes ← loadPtrs sl
      let bit := 1 <<< frag keyHash shift
      if bm &&& bit == 0 then pure (some n, resized)
      else
        let idx := popCount (bm &&& (bit - 1))
        match nodes[idx]? with
        | none => fail "index out of range"
        | some child => do
          let (newChild, resized) ← hdeleteN h F child key (shift + mapNodeBits) keyHash mutable resized
          if !resized then pure (some n, resized)
          else
            match newChild with
            | none =>
              if nodes.length == 1 then pure (none, resized)
              else if mutable then do
                let sl' ← removeSlot sl idx                  -- IN PLACE copy + nil + reslice
                store n (.bitmap (bm ^^^ bit) sl')           -- IN PLACE n.bitmap ^= bit; n.nodes = …
                pure (some n, resized)
              else do
                let sl' ← allocSlots (ptrSlots (nodes.take idx ++ nodes.drop (idx + 1))) (nodes.length - 1)
                pure (some (← alloc (.bitmap (bm ^^^ bit) sl')), resized)
            | some newChild =>
              if mutable then do
                storeSlot sl idx (.ptr newChild)             -- IN PLACE other := n; other.nodes[idx] = …
                pure (some n, resized)
              else do
                let sl' ← allocSlots (ptrSlots (nodes.set idx newChild)) nodes.length
                pure (some (← alloc (.bitmap bm sl')), resized)
    | .hashArray count nodes => do
      let idx := frag keyHash shift
      match nodes[idx]? with
      | none => fail "model: hash array node without 32 slots"
      | some none => pure (some n, resized)
      | some (some node) => do
        let (newNode, resized) ← hdeleteN h F node key (shift + mapNodeBits) keyHash mutable resized
        if !resized then pure (some n, resized)
        else if newNode.isNone && count ≤ maxBitmapIndexedSize then do
          -- convert back to a bitmap indexed node: always a NEW node, `n` untouched
          let (bm, ns) := hashArrayToBitmapG nodes idx
          let sl' ← allocSlots (ptrSlots ns) (count - 1)
          pure (some (← alloc (.bitmap bm sl')), resized)
        else
          let count' := if newNode.isNone then count - 1 else count
          if mutable then do
            store n (.hashArray count' (nodes.set idx newNode))   -- IN PLACE other := n
            pure (some n, resized)
          else
            pure (some (← alloc (.hashArray count' (nodes.set idx newNode))), resized)
    | .value _ nKey _ => do
      if !h.eqv nKey key then pure (some n, resized) else pure (none, true)
    | .collision nKeyHash sl => do
      let entries ← loadEnts sl
      match indexOf h entries key with
      | none => pure (some n, resized)
      | some idx =>
        if entries.length == 2 then
          match entries[idx ^^^ 1]? with
          | some e => pure (some (← alloc (.value nKeyHash e.1 e.2)), true)
          | none => fail "index out of range"
        else if mutable then do
          let sl' ← removeSlot sl idx                        -- IN PLACE copy + zero + reslice
          store n (.collision nKeyHash sl')                  -- IN PLACE n.entries = …
          pure (some n, true)
        else do
          let sl' ← allocSlots (entSlots (entries.take idx ++ entries.drop (idx + 1))) (entries.length - 1)
          pure (some (← alloc (.collision nKeyHash sl')), true)
    | _ => fail "model: not a map node"

-- hamt -------------------------------------------------------------------------------------------------

/-- `&hamt{hasher: hasher}` -/
def hamtNew : HM K V Addr := alloc (.hamt 0 none)

/-- `(*hamt).set(key, value, mutable)`; `m` is the `*hamt`.  Non-mutable: the header is cloned
    (a NEW header cell), mutable: `other := m`, the header is written IN PLACE. -/
def hamtSet (h : Hasher K) (m : Addr) (key : K) (val : V) (mutable : Bool) : HM K V Addr := do
  match ← load m with
  | .hamt size root =>
    let (size', root') ←
      match root with
      | none => do
        -- other.size = 1; other.root = &mapArrayNode{entries: []mapEntry{{key, value}}}
        let sl ← allocSlots [.ent key val] 1
        pure (1, ← alloc (.array sl))
      | some root => do
        let (newRoot, resized) ← hsetN h trieFuel root key val 0 (h.hash key) mutable false
        pure (if resized then size + 1 else size, newRoot)
    if mutable then do
      store m (.hamt size' (some root'))                     -- IN PLACE other := m
      pure m
    else alloc (.hamt size' (some root'))                    -- other = m.clone()
  | _ => fail "model: not a *hamt"

/-- `(*hamt).Updated` -/
def hamtUpdated (h : Hasher K) (m : Addr) (key : K) (val : V) : HM K V Addr := hamtSet h m key val false

/-- `(*hamt).delete(key, mutable)` -/
def hamtDelete (h : Hasher K) (m : Addr) (key : K) (mutable : Bool) : HM K V Addr := do
  match ← load m with
  | .hamt size root =>
    match root with
    | none => pure m
    | some root => do
      let (newRoot, resized) ← hdeleteN h trieFuel root key 0 (h.hash key) mutable false
      if !resized then pure m
      else if mutable then do
        store m (.hamt (size - 1) newRoot)                   -- IN PLACE other := m
        pure m
      else alloc (.hamt (size - 1) newRoot)                  -- other = m.clone()
  | _ => fail "model: not a *hamt"

/-- `(*hamt).Removed(key...)`: every step with `mutable = false` -/
def hamtRemoved (h : Hasher K) (m : Addr) (keys : List K) : HM K V Addr :=
  keys.foldlM (fun ret k => hamtDelete h ret k false) m

-- abstraction ----------------------------------------------------------------------------------------

/-- The value-level node that pointer `p` represents in heap `H` (at shift `s`; array nodes only at
    shift 0 and branch nodes only at shifts below 32, as in every trie the library builds), together
    with its FOOTPRINT: every address read on the way (node cells and backing
    arrays, children in slot order).  `none`: dangling pointer, wrong cell kind, nil child in a
    bitmap node, zero entry inside a slice, or deeper than the fuel (cyclic). -/
def absF : Nat → Nat → Heap K V → Addr → Option (Node K V × List Addr)
  | 0, _, _, _ => none
  | f + 1, s, H, p =>
    match H[p]? with
    | some (.array sl) =>
      if s = 0 then (viewEnts H sl).map (fun es => (.array es, [p, sl.arr])) else none
    | some (.bitmap bm sl) =>
      if s < 32 then
        (viewPtrs H sl).bind fun ps =>
          (mapOpt (absF f (s + mapNodeBits) H) ps).map fun rs =>
            (.bitmap bm (rs.map (·.1)), p :: sl.arr :: (rs.map (·.2)).flatten)
      else none
    | some (.hashArray cnt slots) =>
      if s < 32 then
        (mapOpt (fun o =>
            match o with
            | none => some (none, [])
            | some c => (absF f (s + mapNodeBits) H c).map (fun r => (some r.1, r.2))) slots).map fun rs =>
          (.hashArray cnt (rs.map (·.1)), p :: (rs.map (·.2)).flatten)
      else none
    | some (.value kh k v) => some (.value kh k v, [p])
    | some (.collision kh sl) => (viewEnts H sl).map (fun es => (.collision kh es, [p, sl.arr]))
    | _ => none

/-- The value-level `Hamt` a `*hamt` represents, with its footprint (header first). -/
def absHamt (H : Heap K V) (m : Addr) : Option (Hamt K V × List Addr) :=
  match H[m]? with
  | some (.hamt size none) => some (⟨size, none⟩, [m])
  | some (.hamt size (some r)) => (absF trieFuel 0 H r).map fun x => (⟨size, some x.1⟩, m :: x.2)
  | _ => none

/-- read-only access to a `*hamt` (`Get`, `Size`, `Iterator` do not write) -/
def readHamt (m : Addr) : HM K V (Hamt K V) := fun H =>
  match absHamt H m with
  | some x => .ok (x.1, H)
  | none => .error "model: ill-formed *hamt"

-- builders -------------------------------------------------------------------------------------------

/-- `mapBuilder{m *hamt}` (`none` after `build()`) -/
structure HMapBuilder where
  m : Option Addr
  deriving Repr, Inhabited

/-- `MapBuilder(hasher)` -/
def HMapBuilder.new : HM K V HMapBuilder := do pure ⟨some (← hamtNew)⟩

/-- `(*mapBuilder).Add`: `b.m = b.m.set(key, value, true)` -/
def HMapBuilder.add (h : Hasher K) (b : HMapBuilder) (key : K) (val : V) : HM K V HMapBuilder :=
  match b.m with
  | none => fail "immutable.MapBuilder: builder invalid after Build() invocation"
  | some m => do pure ⟨some (← hamtSet h m key val true)⟩

/-- `(*mapBuilder).build`: hands the `*hamt` over and forgets it -/
def HMapBuilder.build (b : HMapBuilder) : HM K V (Addr × HMapBuilder) :=
  match b.m with
  | none => fail "immutable.SortedMapBuilder.Build(): duplicate call to fetch map"
  | some m => pure (m, ⟨none⟩)

/-- `immutable.MapBase(hasher, t...)` -/
def hamtOfList (h : Hasher K) (t : List (K × V)) : HM K V Addr :=
  if t.length > 0 then do
    let b ← t.foldlM (fun (b : HMapBuilder) kv => b.add h kv.1 kv.2) (← HMapBuilder.new)
    pure (← b.build).1
  else hamtNew

/-- `setBuilder{m, shared}` -/
structure HSetBuilder where
  m : Addr
  shared : Bool
  deriving Repr, Inhabited

def HSetBuilder.new : HM K V HSetBuilder := do pure ⟨← hamtNew, false⟩

/-- `(*setBuilder).Add`: `r.m = r.m.set(v, true, !r.shared)` -/
def HSetBuilder.add (h : Hasher K) (b : HSetBuilder) (v : K) (tt : V) : HM K V HSetBuilder := do
  pure { b with m := ← hamtSet h b.m v tt (!b.shared) }

/-- `(*setBuilder).Build`: `r.shared = true`; the Set handed out holds the SAME `*hamt` -/
def HSetBuilder.build (b : HSetBuilder) : Addr × HSetBuilder := (b.m, { b with shared := true })

/-- `(*setBuilder).Add` as it was BEFORE commit 5a0c6c4: `r.m.set(v, true, true)` on the `*hamt`
    that `Build` may already have handed out. -/
def HSetBuilder.addOld (h : Hasher K) (b : HSetBuilder) (v : K) (tt : V) : HM K V HSetBuilder := do
  pure { b with m := ← hamtSet h b.m v tt true }

-- fp.Map / fp.Set wrappers (map.go, set.go) over the heap ---------------------------------------------
-- Same functions as `FMap` / `FSet` of Model/Hamt.lean; a trie-backed value holds the `*hamt`.
-- The Go-map fallbacks of the zero values stay values (they are copied by every update).

/-- the implementations of `fp.MapBase` in play -/
inductive HMapBase (K V : Type) where
  | hamt (m : Addr)
  | goMap (m : GoMap K V)

/-- `fp.Map[K,V]{Base}` -/
structure HFMap (K V : Type) where
  base : Option (HMapBase K V)

namespace HFMap
variable [BEq K]

def get (h : Hasher K) (r : HFMap K V) (k : K) : HM K V (Option V) :=
  match r.base with
  | none => pure none
  | some (.hamt m) => do liftE ((← readHamt m).get h k)
  | some (.goMap m) => pure (GoMap.get m k)

def removed (h : Hasher K) (r : HFMap K V) (ks : List K) : HM K V (HFMap K V) :=
  match r.base with
  | none => pure r
  | some (.hamt m) => do pure ⟨some (.hamt (← hamtRemoved h m ks))⟩
  | some (.goMap m) => pure ⟨some (.goMap (GoMap.removed m ks))⟩

def updated (h : Hasher K) (r : HFMap K V) (k : K) (v : V) : HM K V (HFMap K V) :=
  match r.base with
  | none => pure ⟨some (.goMap [(k, v)])⟩
  | some (.hamt m) => do pure ⟨some (.hamt (← hamtUpdated h m k v))⟩
  | some (.goMap m) => pure ⟨some (.goMap (GoMap.updated m k v))⟩

def updatedWith (h : Hasher K) (r : HFMap K V) (k : K) (remap : Option V → Option V) : HM K V (HFMap K V) := do
  let v ← r.get h k
  let nv := remap v
  match nv with
  | some x => r.updated h k x
  | none => if v.isSome then r.removed h [k] else pure r

def concat (h : Hasher K) (r : HFMap K V) (other : List (K × V)) : HM K V (HFMap K V) :=
  other.foldlM (fun ret next => ret.updated h next.1 next.2) r

/-- `immutable.Map(hasher, t...)` -/
def ofList (h : Hasher K) (t : List (K × V)) : HM K V (HFMap K V) := do
  pure ⟨some (.hamt (← hamtOfList h t))⟩

end HFMap

/-- `immutable.set{m}` and `UnsafeGoSet` -/
inductive HSetMin (K : Type) where
  | hamt (m : Addr)
  | goSet (m : GoSet K)

/-- `fp.Set[V]{getEmpty, set}` -/
structure HFSet (K : Type) where
  getEmpty : EmptyFn
  set : Option (HSetMin K)

namespace HSetMin
variable [BEq K]
def contains (h : Hasher K) : HSetMin K → K → HM K Bool Bool
  | .hamt m, v => do pure (← liftE ((← readHamt m).get h v)).isSome
  | .goSet m, v => pure (m.any (· == v))
def iterList : HSetMin K → HM K Bool (List K)
  | .hamt m => do pure ((← liftE (← readHamt m).iterList).map (·.1))
  | .goSet m => pure m
def incl (h : Hasher K) : HSetMin K → K → HM K Bool (HSetMin K)
  | .hamt m, v => do pure (.hamt (← hamtUpdated h m v true))
  | .goSet m, v => pure (.goSet (if m.any (· == v) then m else m ++ [v]))
def excl (h : Hasher K) : HSetMin K → K → HM K Bool (HSetMin K)
  | .hamt m, v => do pure (.hamt (← hamtRemoved h m [v]))
  | .goSet m, v => pure (.goSet (m.filter (fun x => !(x == v))))
end HSetMin

namespace HFSet
variable [BEq K]

/-- `r.empty()`: `SetMinimal(hasher)` allocates a new empty `*hamt` on every call -/
def callGetEmpty (r : HFSet K) : HM K Bool (HSetMin K) :=
  match r.getEmpty with
  | .hamt => do pure (.hamt (← hamtNew))
  | .goSet => pure (.goSet [])
  | .nil => pure (.goSet [])

def contains (h : Hasher K) (r : HFSet K) (v : K) : HM K Bool Bool :=
  match r.set with
  | none => pure false
  | some s => s.contains h v

def iterList (r : HFSet K) : HM K Bool (List K) :=
  match r.set with
  | none => pure []
  | some s => s.iterList

def incl (h : Hasher K) (r : HFSet K) (v : K) : HM K Bool (HFSet K) :=
  match r.set, r.getEmpty with
  | none, .nil => pure ⟨.goSet, some (.goSet [v])⟩
  | none, _ => do pure ⟨r.getEmpty, some (← (← r.callGetEmpty).incl h v)⟩
  | some s, _ => do pure ⟨r.getEmpty, some (← s.incl h v)⟩

def excl (h : Hasher K) (r : HFSet K) (v : K) : HM K Bool (HFSet K) :=
  match r.set with
  | none => pure r
  | some s => do pure ⟨r.getEmpty, some (← s.excl h v)⟩

def concat (h : Hasher K) (r : HFSet K) (other : List K) : HM K Bool (HFSet K) :=
  other.foldlM (fun ret v => ret.incl h v) r

def diff (h : Hasher K) (r other : HFSet K) : HM K Bool (HFSet K) := do
  let ret ← (← r.iterList).foldlM (fun (ret : HSetMin K) e => do
    if !(← other.contains h e) then ret.incl h e else pure ret) (← r.callGetEmpty)
  pure ⟨r.getEmpty, some ret⟩

def intersect (h : Hasher K) (r other : HFSet K) : HM K Bool (HFSet K) := do
  let ret ← (← r.iterList).foldlM (fun (ret : HSetMin K) e => do
    if ← other.contains h e then ret.incl h e else pure ret) (← r.callGetEmpty)
  pure ⟨r.getEmpty, some ret⟩

/-- `immutable.Set(hasher, v...)` -/
def ofList (h : Hasher K) (v : List K) : HM K Bool (HFSet K) := do
  pure ⟨.hamt, some (.hamt (← hamtOfList h (v.map (fun x => (x, true)))))⟩

end HFSet

-- abstraction of the wrappers ----------------------------------------------------------------------

def absFMap (H : Heap K V) (r : HFMap K V) : Option (FMap K V) :=
  match r.base with
  | none => some ⟨none⟩
  | some (.hamt m) => (absHamt H m).map fun x => ⟨some (.hamt x.1)⟩
  | some (.goMap m) => some ⟨some (.goMap m)⟩

def absFSet (H : Heap K Bool) (r : HFSet K) : Option (FSet K) :=
  match r.set with
  | none => some ⟨r.getEmpty, none⟩
  | some (.hamt m) => (absHamt H m).map fun x => ⟨r.getEmpty, some (.hamt x.1)⟩
  | some (.goSet m) => some ⟨r.getEmpty, some (.goSet m)⟩

end FpVerif.HamtHeap
