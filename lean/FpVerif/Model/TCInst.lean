import FpVerif.Model.TypeClasses
/-!
# Typed instance expressions

Every way of building an instance with the combinators of the packages eq, hash, ord, monoid and
semigroup, as a syntax tree indexed by the Go type it is an instance for, and its meaning (`denote`)
in terms of the model combinators of `Model/TypeClasses.lean`.  Nesting depth is unbounded and so is
the tuple arity: `TupleN(i₁,…,iₙ)` is `tupleN i₁ (tupleN i₂ (… (tuple1 iₙ)))`, exactly the recursion of
the generated code.  The oracle builds these trees from the wire format and runs `denote`; the
Spec files prove `∀ i, Lawful (denote i)`.
-/
namespace FpVerif.TC

/-- Typed instance expressions of package eq. -/
inductive EInst : Type → Type 1 where
  | given (α : Type) [DecidableEq α] : EInst α          -- Given, String, HNil's carrier …
  | bytes : EInst (List UInt8)
  | time : EInst TimeV
  | hnil : EInst Unit
  | tuple1 {α : Type} (i : EInst α) : EInst (T1 α)
  | tupleN {α τ : Type} (i : EInst α) (rest : EInst τ) : EInst (α × τ)
  | option {α : Type} (i : EInst α) : EInst (Option α)
  | seq {α : Type} (i : EInst α) : EInst (List α)
  | slice {α : Type} (i : EInst α) : EInst (List α)
  | hcons {α τ : Type} (h : EInst α) (t : EInst τ) : EInst (α × τ)
  | ptr {α : Type} (i : EInst α) : EInst (Ptr α)
  | ptrGiven (α : Type) [DecidableEq α] : EInst (Ptr α)
  | contraMap {α β : Type} (i : EInst β) (fn : α → β) : EInst α
  | goMap (κ : Type) [DecidableEq κ] {ν : Type} (i : EInst ν) : EInst (GoMap κ ν)
  | fpMap (κ : Type) [DecidableEq κ] {ν : Type} (i : EInst ν) : EInst (GoMap κ ν)

def EInst.denote : {α : Type} → EInst α → EqD α
  | _, @EInst.given _ inst => @EqD.given _ inst
  | _, .bytes => EqD.bytes
  | _, .time => EqD.time
  | _, .hnil => EqD.hnil
  | _, .tuple1 i => EqD.tuple1 i.denote
  | _, .tupleN i rest => EqD.tupleN i.denote rest.denote
  | _, .option i => EqD.option i.denote
  | _, .seq i => EqD.seq i.denote
  | _, .slice i => EqD.slice i.denote
  | _, .hcons h t => EqD.hcons h.denote t.denote
  | _, .ptr i => EqD.ptr fun _ => i.denote
  | _, @EInst.ptrGiven _ inst => @EqD.ptrGiven _ inst
  | _, .contraMap i fn => EqD.contraMap i.denote fn
  | _, @EInst.goMap _ inst _ i => @EqD.goMap _ _ inst i.denote
  | _, @EInst.fpMap _ inst _ i => @EqD.fpMap _ _ inst i.denote


/-- Typed instance expressions of package hash. -/
inductive HInst : Type → Type 1 where
  | numberInt : HInst Int
  | numberInt64 : HInst Int64
  | string : HInst String
  | bytes : HInst (List UInt8)
  | hnil : HInst Unit
  | tuple1 {α : Type} (i : HInst α) : HInst (T1 α)
  | tupleN {α τ : Type} (i : HInst α) (rest : HInst τ) : HInst (α × τ)
  | hcons {α τ : Type} [HListT τ] (h : HInst α) (t : HInst τ) : HInst (α × τ)
  | seq {α : Type} (i : HInst α) : HInst (List α)
  | slice {α : Type} (i : HInst α) : HInst (List α)
  | ptr {α : Type} (i : HInst α) : HInst (Ptr α)
  | option {α : Type} (i : HInst α) : HInst (Option α)
  | contraMap {α β : Type} (i : HInst β) (fn : α → β) : HInst α

def HInst.denote : {α : Type} → HInst α → HashD α
  | _, .numberInt => HashD.numberInt
  | _, .numberInt64 => HashD.numberInt64
  | _, .string => HashD.string
  | _, .bytes => HashD.bytes
  | _, .hnil => HashD.hnil
  | _, .tuple1 i => HashD.tuple1 i.denote
  | _, .tupleN i rest => HashD.tupleN i.denote rest.denote
  | _, @HInst.hcons _ _ inst h t => @HashD.hcons _ _ inst h.denote t.denote
  | _, .seq i => HashD.seq i.denote
  | _, .slice i => HashD.slice i.denote
  | _, .ptr i => HashD.ptr fun _ => i.denote
  | _, .option i => HashD.option i.denote
  | _, .contraMap i fn => HashD.contraMap i.denote fn


/-- Typed instance expressions: every way of building a `fp.Monoid` from the monoid package
    (except the map monoids, whose laws hold up to map content, above). Nesting depth and tuple
    arity are unbounded: `TupleN` is `tupleN i₁ (tupleN i₂ (… (tuple1 iₙ)))`. -/
inductive MInst : Type → Type 1 where
  | string : MInst String
  | sumInt : MInst Int
  | sumInt64 : MInst Int64
  | sumString : MInst String
  | productInt : MInst Int
  | productInt64 : MInst Int64
  | any : MInst Bool
  | all : MInst Bool
  | unit : MInst Unit
  | hnil : MInst Unit
  | mergeSeq (α : Type) : MInst (List α)
  | mergeSlice (α : Type) : MInst (List α)
  | endo (α : Type) : MInst (Endo α)
  | option {α : Type} (i : MInst α) : MInst (Option α)
  | try_ {α : Type} (i : MInst α) : MInst (TryV α)
  | dual {α : Type} (i : MInst α) : MInst (Dual α)
  | eval {α : Type} (i : MInst α) : MInst (Eval α)
  | ptr {α : Type} (i : MInst α) : MInst (Option α)
  | hcons {α τ : Type} (h : MInst α) (t : MInst τ) : MInst (α × τ)
  | tuple1 {α : Type} (i : MInst α) : MInst (T1 α)
  | tupleN {α τ : Type} (i : MInst α) (rest : MInst τ) : MInst (α × τ)
  | imap {α β : Type} (i : MInst α) (fab : α → β) (fba : β → α)
      (h1 : ∀ b, fab (fba b) = b) (h2 : ∀ a, fba (fab a) = a) : MInst β

def MInst.denote : {α : Type} → MInst α → MonoidD α
  | _, .string => MonoidD.string
  | _, .sumInt => MonoidD.sum
  | _, .sumInt64 => MonoidD.sum
  | _, .sumString => MonoidD.sumString
  | _, .productInt => MonoidD.product
  | _, .productInt64 => MonoidD.product
  | _, .any => MonoidD.any
  | _, .all => MonoidD.all
  | _, .unit => MonoidD.unit
  | _, .hnil => MonoidD.hnil
  | _, .mergeSeq _ => MonoidD.mergeSeq
  | _, .mergeSlice _ => MonoidD.mergeSlice
  | _, .endo _ => MonoidD.endo
  | _, .option i => MonoidD.option i.denote
  | _, .try_ i => MonoidD.try_ i.denote
  | _, .dual i => MonoidD.dual i.denote
  | _, .eval i => MonoidD.eval i.denote
  | _, .ptr i => MonoidD.ptr fun _ => i.denote
  | _, .hcons h t => MonoidD.hcons h.denote t.denote
  | _, .tuple1 i => MonoidD.tuple1 i.denote
  | _, .tupleN i rest => MonoidD.tupleN i.denote rest.denote
  | _, .imap i fab fba _ _ => MonoidD.imap i.denote fab fba


/-- Typed semigroup instance expressions (package semigroup; any monoid is one too). -/
inductive SInst : Type → Type 1 where
  | ofMonoid {α : Type} (i : MInst α) : SInst α
  | sumInt : SInst Int
  | sumInt64 : SInst Int64
  | productInt : SInst Int
  | productInt64 : SInst Int64
  | endo (α : Type) : SInst (Endo α)
  | any : SInst Bool
  | all : SInst Bool
  | dual {α : Type} (i : SInst α) : SInst (Dual α)
  | eval {α : Type} (i : SInst α) : SInst (Eval α)
  | ptr {α : Type} (i : SInst α) : SInst (Option α)
  | option {α : Type} (i : SInst α) : SInst (Option α)
  | imap {α β : Type} (i : SInst α) (fab : α → β) (fba : β → α) (h2 : ∀ a, fba (fab a) = a) : SInst β

def SInst.denote : {α : Type} → SInst α → SemigroupD α
  | _, .ofMonoid i => i.denote.toSemigroup
  | _, .sumInt => SemigroupD.sum
  | _, .sumInt64 => SemigroupD.sum
  | _, .productInt => SemigroupD.product
  | _, .productInt64 => SemigroupD.product
  | _, .endo _ => SemigroupD.endo
  | _, .any => SemigroupD.any
  | _, .all => SemigroupD.all
  | _, .dual i => SemigroupD.dual i.denote
  | _, .eval i => SemigroupD.eval i.denote
  | _, .ptr i => SemigroupD.ptr fun _ => i.denote
  | _, .option i => SemigroupD.option i.denote
  | _, .imap i fab fba _ => SemigroupD.imap i.denote fab fba


end FpVerif.TC
