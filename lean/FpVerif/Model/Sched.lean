/-!
# A small interleaving framework.

A concurrent system is a shared state plus a list of thread-local states.  One `step` of thread
`t` executes one ATOMIC BLOCK of that thread: the code between two consecutive yield points of
the Go code (a yield point sits before every atomic Load / Store / CompareAndSwap and before
every other access to shared memory).  A schedule is a list of thread ids; `run` executes it,
skipping the entries that name a thread which does not exist, has finished, or is blocked.
"For every interleaving" is therefore `∀ sched : List Tid`.
-/
namespace FpVerif.Sched

abbrev Tid := Nat

structure Sys (Sh L : Type) where
  shared : Sh
  threads : List L
  deriving DecidableEq, Repr

variable {Sh L : Type}

/-- `stepT sh l = none`: thread `l` is finished or blocked in shared state `sh`. -/
abbrev StepT (Sh L : Type) := Sh → L → Option (Sh × L)

def step (stepT : StepT Sh L) (s : Sys Sh L) (t : Tid) : Option (Sys Sh L) :=
  match s.threads[t]? with
  | none => none
  | some l =>
    match stepT s.shared l with
    | none => none
    | some (sh, l') => some ⟨sh, s.threads.set t l'⟩

/-- a schedule entry that cannot be executed is skipped -/
def stepOr (stepT : StepT Sh L) (s : Sys Sh L) (t : Tid) : Sys Sh L :=
  (step stepT s t).getD s

def run (stepT : StepT Sh L) (s : Sys Sh L) : List Tid → Sys Sh L
  | [] => s
  | t :: ts => run stepT (stepOr stepT s t) ts

/-- number of schedule entries that were really executed -/
def effSteps (stepT : StepT Sh L) (s : Sys Sh L) : List Tid → Nat
  | [] => 0
  | t :: ts =>
    match step stepT s t with
    | none => effSteps stepT s ts
    | some s' => effSteps stepT s' ts + 1

/-- no thread can move: every thread has finished (or the system is deadlocked) -/
def Quiescent (stepT : StepT Sh L) (s : Sys Sh L) : Prop :=
  ∀ t, step stepT s t = none

variable {stepT : StepT Sh L}

theorem step_eq_some {s s' : Sys Sh L} {t : Tid} (h : step stepT s t = some s') :
    ∃ l sh l', s.threads[t]? = some l ∧ stepT s.shared l = some (sh, l') ∧
      s' = ⟨sh, s.threads.set t l'⟩ := by
  unfold step at h
  cases hl : s.threads[t]? with
  | none => simp [hl] at h
  | some l =>
    cases hs : stepT s.shared l with
    | none => simp [hl, hs] at h
    | some p =>
      obtain ⟨sh, l'⟩ := p
      simp [hl, hs] at h
      exact ⟨l, sh, l', rfl, hs, h.symm⟩

theorem step_of {s : Sys Sh L} {t : Tid} {l : L} {sh : Sh} {l' : L}
    (hl : s.threads[t]? = some l) (hs : stepT s.shared l = some (sh, l')) :
    step stepT s t = some ⟨sh, s.threads.set t l'⟩ := by
  simp [step, hl, hs]

theorem step_length {s s' : Sys Sh L} {t : Tid} (h : step stepT s t = some s') :
    s'.threads.length = s.threads.length := by
  obtain ⟨l, sh, l', _, _, rfl⟩ := step_eq_some h
  simp

theorem run_nil (s : Sys Sh L) : run stepT s [] = s := rfl

theorem run_cons (s : Sys Sh L) (t : Tid) (ts : List Tid) :
    run stepT s (t :: ts) = run stepT (stepOr stepT s t) ts := rfl

theorem run_append (s : Sys Sh L) (a b : List Tid) :
    run stepT s (a ++ b) = run stepT (run stepT s a) b := by
  induction a generalizing s with
  | nil => rfl
  | cons t ts ih => simp [run, ih]

/-- An invariant preserved by every step holds after every schedule. -/
theorem inv_run {Inv : Sys Sh L → Prop}
    (hstep : ∀ s t s', Inv s → step stepT s t = some s' → Inv s')
    {s : Sys Sh L} (h0 : Inv s) (sched : List Tid) : Inv (run stepT s sched) := by
  induction sched generalizing s with
  | nil => exact h0
  | cons t ts ih =>
    apply ih
    unfold stepOr
    cases h : step stepT s t with
    | none => exact h0
    | some s' => exact hstep s t s' h0 h

/-- A relation between the start and the current state that is reflexive, and extended by every
    step taken from a state satisfying `Inv`, holds between `s` and `run s sched`. -/
theorem rel_run {Inv : Sys Sh L → Prop} {Rel : Sys Sh L → Sys Sh L → Prop}
    (hinv : ∀ s t s', Inv s → step stepT s t = some s' → Inv s')
    (hrefl : ∀ s, Rel s s)
    (hstep : ∀ s0 s t s', Inv s → Rel s0 s → step stepT s t = some s' → Rel s0 s')
    {s : Sys Sh L} (h0 : Inv s) (sched : List Tid) : Rel s (run stepT s sched) := by
  suffices h : ∀ (s0 s : Sys Sh L), Inv s → Rel s0 s → Rel s0 (run stepT s sched) from
    h s s h0 (hrefl s)
  intro s0
  induction sched with
  | nil => intro s _ hr; exact hr
  | cons t ts ih =>
    intro s hi hr
    unfold run stepOr
    cases h : step stepT s t with
    | none => exact ih s hi hr
    | some s' => exact ih s' (hinv s t s' hi h) (hstep s0 s t s' hi hr h)

/-- A measure that strictly decreases with every executed step bounds the number of executed
    steps of every schedule: no schedule can keep the threads busy for ever. -/
theorem effSteps_le_measure {μ : Sys Sh L → Nat}
    (hdec : ∀ s t s', step stepT s t = some s' → μ s' < μ s)
    (s : Sys Sh L) (sched : List Tid) :
    effSteps stepT s sched + μ (run stepT s sched) ≤ μ s := by
  induction sched generalizing s with
  | nil => simp [effSteps, run]
  | cons t ts ih =>
    unfold effSteps run stepOr
    cases h : step stepT s t with
    | none => simpa using ih s
    | some s' =>
      have := ih s'
      have := hdec s t s' h
      simp only [Option.getD_some]
      omega

/-- the same, under an invariant -/
theorem effSteps_le_measure_inv {Inv : Sys Sh L → Prop} {μ : Sys Sh L → Nat}
    (hinv : ∀ s t s', Inv s → step stepT s t = some s' → Inv s')
    (hdec : ∀ s t s', Inv s → step stepT s t = some s' → μ s' < μ s)
    (s : Sys Sh L) (h0 : Inv s) (sched : List Tid) :
    effSteps stepT s sched + μ (run stepT s sched) ≤ μ s := by
  induction sched generalizing s with
  | nil => simp [effSteps, run]
  | cons t ts ih =>
    unfold effSteps run stepOr
    cases h : step stepT s t with
    | none => simpa using ih s h0
    | some s' =>
      have := ih s' (hinv s t s' h0 h)
      have := hdec s t s' h0 h
      simp only [Option.getD_some]
      omega

/-- Round-robin driver used by the oracles (and mirrored by the harnesses) after the explicit
    schedule is exhausted: repeatedly give every thread one turn, `fuel` rounds. -/
def roundRobin (nThreads : Nat) : Nat → List Tid
  | 0 => []
  | fuel + 1 => List.range nThreads ++ roundRobin nThreads fuel

/-- `run` that also reports, per schedule entry, the new local state of the thread that moved
    (`none` = the entry was skipped).  This is what the oracles print. -/
def runTrace (stepT : StepT Sh L) (s : Sys Sh L) : List Tid → Sys Sh L × List (Tid × Option L)
  | [] => (s, [])
  | t :: ts =>
    match step stepT s t with
    | none => let r := runTrace stepT s ts; (r.1, (t, none) :: r.2)
    | some s' => let r := runTrace stepT s' ts; (r.1, (t, s'.threads[t]?) :: r.2)

theorem runTrace_fst (stepT : StepT Sh L) (s : Sys Sh L) (sched : List Tid) :
    (runTrace stepT s sched).1 = run stepT s sched := by
  induction sched generalizing s with
  | nil => rfl
  | cons t ts ih =>
    unfold runTrace run stepOr
    cases h : step stepT s t <;> simp [ih]

/-! ### sums over the thread list -/

def sumBy (f : L → Nat) : List L → Nat
  | [] => 0
  | l :: ls => f l + sumBy f ls

theorem sumBy_le {f g : L → Nat} {ls : List L} (h : ∀ l ∈ ls, f l ≤ g l) :
    sumBy f ls ≤ sumBy g ls := by
  induction ls with
  | nil => simp [sumBy]
  | cons a as ih =>
    simp only [sumBy]
    have := h a (by simp)
    have := ih (fun l hl => h l (by simp [hl]))
    omega

/-- replacing thread `t`: the sum changes by exactly that thread's contribution -/
theorem sumBy_set (f : L → Nat) {ls : List L} {t : Nat} {l l' : L} (h : ls[t]? = some l) :
    sumBy f (ls.set t l') + f l = sumBy f ls + f l' := by
  induction ls generalizing t with
  | nil => simp at h
  | cons a as ih =>
    cases t with
    | zero =>
      simp at h
      subst h
      simp [sumBy]; omega
    | succ n =>
      simp at h
      have := ih h
      simp [sumBy]; omega

/-- Strict decrease of a sum: the moved thread strictly decreases, no other thread increases. -/
theorem sumBy_set_lt {f g : L → Nat} {ls : List L} {t : Nat} {l l' : L} (h : ls[t]? = some l)
    (hothers : ∀ x ∈ ls, g x ≤ f x) (hmoved : g l' < f l) :
    sumBy g (ls.set t l') < sumBy f ls := by
  induction ls generalizing t with
  | nil => simp at h
  | cons a as ih =>
    cases t with
    | zero =>
      simp at h
      subst h
      simp only [List.set_cons_zero, sumBy]
      have : sumBy g as ≤ sumBy f as := sumBy_le (fun x hx => hothers x (by simp [hx]))
      omega
    | succ n =>
      simp at h
      simp only [List.set_cons_succ, sumBy]
      have ha : g a ≤ f a := hothers a (by simp)
      have := ih h (fun x hx => hothers x (by simp [hx]))
      omega

theorem sumBy_eq_zero {f : L → Nat} {ts : List L} (h : ∀ x ∈ ts, f x = 0) : sumBy f ts = 0 := by
  induction ts with
  | nil => rfl
  | cons a as ih => simp [sumBy, h a (by simp), ih (fun x hx => h x (by simp [hx]))]

/-- replacing a thread by one with the same `f`-image leaves `map f` unchanged -/
theorem map_set_of_eq {α β : Type} {f : α → β} {ts : List α} {t : Nat} {l l' : α}
    (hl : ts[t]? = some l) (h : f l' = f l) : (ts.set t l').map f = ts.map f := by
  induction ts generalizing t with
  | nil => rfl
  | cons a as ih =>
    cases t with
    | zero => simp at hl; subst hl; simp [h]
    | succ n => simp at hl; simp [ih hl]

end FpVerif.Sched
