import FpVerif.Base
/-!
# The generated monad function family (`genfp/generator/gen_monad.go`, `gen_traverse.go`)

`option_monad.go`, `try_monad.go`, `either_monad.go`, `state_monad.go` (and the `*_traverse.go`
files) are produced from ONE template and are written purely in terms of the package's own
`FlatMap` and `Pure`.  This file mirrors that template once, over an abstract signature.

Encoding.  Every Go expression of monadic type `M[X]` is a computation `C X`:
* `Try`    : `C X = GoM (Try X)`      (calling `try.FlatMap` runs the callback at once),
* `Option` : `C X = GoM (Option X)`, `Either` likewise,
* `StateT` : `C X = S → GoM (Try X × S)` (the effects of a callback happen when the state
  function is run).
`seq g k` runs the effectful Go code `g` (a user callback: it may log and panic) and continues with
`k`; `pure'` is the package's `Pure`; `flatMap` its `FlatMap`.  A Go callback `func(A) M[B]` is
`A → C B`, a plain callback `func(A) B` is `A → GoM B`.
-/
namespace FpVerif

structure MonadOps (C : Type → Type) where
  pure' : {α : Type} → α → C α
  seq : {α β : Type} → GoM α → (α → C β) → C β
  flatMap : {α β : Type} → C α → (α → C β) → C β

/-- The laws the family's theorems need.  `right_id` is deliberately absent: it fails for the
    zero-value `Try` (see `Spec/C01.lean`), and none of the derived equations needs it. -/
structure MonadOps.Lawful {C : Type → Type} (o : MonadOps C) : Prop where
  seq_pure : ∀ {α β : Type} (a : α) (k : α → C β), o.seq (Pure.pure a) k = k a
  seq_bind : ∀ {α β γ : Type} (g : GoM α) (h : α → GoM β) (k : β → C γ),
      o.seq (g >>= h) k = o.seq g (fun a => o.seq (h a) k)
  flatMap_seq : ∀ {α β γ : Type} (g : GoM α) (k : α → C β) (h : β → C γ),
      o.flatMap (o.seq g k) h = o.seq g (fun a => o.flatMap (k a) h)
  left_id : ∀ {α β : Type} (a : α) (k : α → C β), o.flatMap (o.pure' a) k = k a
  assoc : ∀ {α β γ : Type} (m : C α) (k : α → C β) (h : β → C γ),
      o.flatMap (o.flatMap m k) h = o.flatMap m (fun a => o.flatMap (k a) h)

namespace MonadFamily
variable {C : Type → Type} (o : MonadOps C)
variable {A B D R S : Type}

/-- run a plain callback and wrap its result with `Pure` (`fp.Compose2(f, Pure)`) -/
def lift (g : GoM A) : C A := o.seq g o.pure'

-- X_monad.go -----------------------------------------------------------------------------------

def flatten (tta : C (C A)) : C A := o.flatMap tta (fun v => v)

def map (m : C A) (f : A → GoM R) : C R := o.flatMap m (fun a => lift o (f a))

def replace (s : C A) (b : R) : C R := map o s (fun _ => Pure.pure b)

def map2 (first : C A) (second : C B) (fab : A → B → GoM R) : C R :=
  o.flatMap first (fun a => map o second (fun b => fab a b))

def zip (first : C A) (second : C B) : C (A × B) :=
  map2 o first second (fun a b => Pure.pure (a, b))

def ap (tfab : C (A → GoM B)) (ta : C A) : C B :=
  o.flatMap tfab (fun fab => map o ta fab)

def compose (f1 : A → C B) (f2 : B → C D) : A → C D := fun a => o.flatMap (f1 a) f2

/-- `ApFunc(tfab, ta func() M[A])`: the supplier is only called inside the continuation. -/
def apFunc (tfab : C (A → GoM B)) (ta : Unit → C A) : C B :=
  o.flatMap tfab (fun fab => map o (ta ()) fab)

def mapSeqLift (ta : C (List A)) (f : A → GoM B) : C (List B) :=
  map o ta (fun as => as.mapM f)

def liftA2 (fab : A → B → GoM R) : C A → C B → C R := fun a b => map2 o a b fab

/-- `LiftM(fa)(ta) = Flatten(Map(ta, fa))`: `fa` returns a monadic value, `Map` wraps it with
    `Pure`, `Flatten` unwraps it again.  (Encoding note: the effects of calling `fa` are carried by
    the computation `fa a`; they run when `Flatten` unwraps it, which in the Go code is the very next
    thing that happens after `Map`'s callback returned.) -/
def liftM (fa : A → C R) : C A → C R :=
  fun ta => flatten o (o.flatMap ta (fun a => o.pure' (fa a)))

/-- `LiftM2(fab)(a, b) = Flatten(Map2(a, b, fab))` -/
def liftM2 (fab : A → B → C R) : C A → C B → C R :=
  fun a b => flatten o (o.flatMap a (fun x => o.flatMap b (fun y => o.pure' (fab x y))))

def flatMap2 (first : C A) (second : C B) (fab : A → B → C R) : C R := liftM2 o fab first second

def flap (tfa : C (A → GoM R)) : A → C R := fun a => ap o tfa (o.pure' a)

def flap2 (tfab : C (A → GoM (B → GoM R))) : A → B → C R :=
  fun a => flap o (ap o tfab (o.pure' a))

/-- `FlapMap(tfab, a) = Flap(Map(a, curried.Func2(tfab)))` -/
def flapMap (tfab : A → B → GoM R) (a : C A) : B → C R :=
  flap o (map o a (fun x => Pure.pure (fun y => tfab x y)))

def flatFlapMap (fab : A → B → C R) (ta : C A) : B → C R :=
  fun b => flatten o (o.flatMap (o.flatMap ta (fun x => o.pure' (fun y => fab x y)))
    (fun g => o.flatMap (o.pure' b) (fun y => o.pure' (g y))))

def flatMethod1 (ta : C A) (fab : A → B → C R) : B → C R := flatFlapMap o fab ta

/-- `FlatMethod2 = Revert2(Compose2(Flap2(Map(ta, Func3(fabc))), Flatten))` -/
def flatMethod2 (ta : C A) (fabc : A → B → D → C R) : B → D → C R :=
  fun b c => flatten o (o.flatMap (o.flatMap (o.flatMap ta
      (fun a => o.pure' (fun b => o.pure' (fun c => fabc a b c))))
      (fun g => o.flatMap (o.pure' b) (fun y => g y)))
      (fun h => o.flatMap (o.pure' c) (fun z => o.pure' (h z))))

def method1 (ta : C A) (fab : A → B → GoM R) : B → C R := flapMap o fab ta

def method2 (ta : C A) (fabc : A → B → D → GoM R) : B → D → C R :=
  fun b c => flap2 o (map o ta (fun a => Pure.pure (fun b => Pure.pure (fun c => fabc a b c)))) b c

def unzip (t : C (A × B)) : C A × C B :=
  (map o t (fun p => Pure.pure p.1), map o t (fun p => Pure.pure p.2))

def with_ (withf : A → B → GoM A) (v : C B) : A → C A :=
  flap o (map o v (fun b => Pure.pure (fun a => withf a b)))

/-- `LiftA3 … LiftA9`, `Map3 … Map9`, `Zip3` (arity-generic, operands as a list):
    `LiftAN(f)(ins1, …, insN) = FlatMap(ins1, a1 => LiftA(N-1)(f a1)(ins2, …, insN))`,
    bottoming out in `LiftA2 = Map2` and `Map`. -/
def liftAList : List (C A) → (List A → GoM R) → C R
  | [], f => lift o (f [])
  | m :: ms, f => o.flatMap m (fun a => liftAList ms (fun rest => f (a :: rest)))

/-- `LiftM3 … LiftM9`, `FlatMap3 … FlatMap9`. -/
def liftMList : List (C A) → (List A → C R) → C R
  | [], f => f []
  | m :: ms, f => o.flatMap m (fun a => liftMList ms (fun rest => f (a :: rest)))

/-- `Method3 … Method9`: `MethodN(ta1, f)(a2, …, aN) = Map(ta1, a1 => f(a1, a2, …, aN))`. -/
def methodN (ta : C A) (f : List A → GoM R) (rest : List A) : C R :=
  map o ta (fun a1 => f (a1 :: rest))

def flatMethodN (ta : C A) (f : List A → C R) (rest : List A) : C R :=
  o.flatMap ta (fun a1 => f (a1 :: rest))

/-- Curried Go functions `fp.Func1[A, fp.Func1[A, … R]]` of depth `n`. -/
def Cur (α ρ : Type) : Nat → Type
  | 0 => ρ
  | n + 1 => α → GoM (Cur α ρ n)

/-- `Flap(N+1)(tf)(a1)…(aN+1)`: `FlapN(tf) = a1 => Flap(N-1)(Ap(tf, Pure(a1)))`. -/
def flapN : (n : Nat) → C (A → GoM (Cur A R n)) → List A → C (Option R)
  | 0, tf, [a] => map o (ap o tf (o.pure' a)) (fun r => Pure.pure (some r))
  | n + 1, tf, a :: as => flapN n (ap o tf (o.pure' a)) as
  | _, _, _ => o.pure' none

/-- `Compose3 … Compose5` (and `Compose`, `Compose2`): `ComposeN(f1, …, fN) = Compose2(f1, Compose(N-1)(f2, …, fN))`,
    `Compose2(f1, f2)(a) = FlatMap(f1(a), f2)`. -/
def composeList : List (A → C A) → A → C A
  | [] => o.pure'
  | [f] => f
  | f :: g :: fs => fun a => o.flatMap (f a) (composeList (g :: fs))

-- X_traverse.go --------------------------------------------------------------------------------

/-- `FoldM` of the Try/Option/Either packages: the loop stops at the first failure; for `StateT`
    the chain is built first (model in `Model/StateT.lean`, proved equal to this in `Spec/C01`). -/
def foldM (xs : List A) (zero : B) (f : B → A → C B) : C B :=
  xs.foldl (fun acc a => o.flatMap acc (fun b => f b a)) (o.pure' zero)

/-- The package's own `FoldM`, as the traverse family sees it. -/
abbrev FoldMFn (C : Type → Type) := {A B : Type} → List A → B → (B → A → C B) → C B

/-- `TraverseSeq(sa, fa) = FoldM(sa, [], (acc, a) => Map(fa(a), acc.Add))` -/
def traverseSeq (fm : FoldMFn C) (sa : List A) (fa : A → C R) : C (List R) :=
  fm sa [] (fun acc a => map o (fa a) (fun r => Pure.pure (acc ++ [r])))

/-- the `FoldM` part of `Sequence` / `SequenceIterator` -/
def sequenceSeq (fm : FoldMFn C) (tsa : List (C A)) : C (List A) :=
  fm tsa [] (fun acc t => map o t (fun r => Pure.pure (acc ++ [r])))

/-- `Sequence(tsa) = Map(FoldM(…), Widen)`; `SequenceIterator` ends in `Map(…, iterator.FromSeq)`. -/
def sequence (fm : FoldMFn C) (tsa : List (C A)) : C (List A) :=
  map o (sequenceSeq o fm tsa) (fun l => Pure.pure l)

/-- `Traverse(ia, fn) = Map(FoldM(…), iterator.FromSeq)`, `TraverseSlice = Map(TraverseSeq(…), Widen)` -/
def traverse (fm : FoldMFn C) (sa : List A) (fa : A → C R) : C (List R) :=
  map o (traverseSeq o fm sa fa) (fun l => Pure.pure l)

def flatMapTraverseSeq (fm : FoldMFn C) (ta : C (List A)) (f : A → C B) : C (List B) :=
  o.flatMap ta (fun sa => traverseSeq o fm sa f)

/-- the canonical left-to-right nest: run the operands in order, collect their values -/
def bindAll : List (C A) → (List A → C R) → C R
  | [], k => k []
  | m :: ms, k => o.flatMap m (fun a => bindAll ms (fun rest => k (a :: rest)))

end MonadFamily
end FpVerif
