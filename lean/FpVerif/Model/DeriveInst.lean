import FpVerif.Model.Derive
import FpVerif.Model.TypeClasses
/-!
# The component instances gombok resolves for the fields of a derived struct (C08)

`Model/Derive.lean` says what `EqT()`, `OrdT()`, `HashableT()`, `MonoidT()`, `CloneT()` compute *given*
the component dictionaries `d1..dn`.  This file supplies concrete components: a typed universe of
field values `DV`, the primitive instances of the packages `eq`, `ord`, `hash`, `monoid`, `clone`
for the field kinds of the grammar, their combinators (`Option`, `Seq`/`Slice`, `Ptr`, `GoMap`,
`Tuple2`), the derived instance of a nested struct (which is `derivedEq` & co. again), the instance
of the struct itself behind a pointer (`lazy.Call`, recursive types) and the dictionary passed for a
type parameter — as an instance *expression* `Inst` with one denotation per type class.

The oracle (`Oracle/Derive.lean`) parses the expression the harness computed from the struct
declaration by the documented resolution rules, and runs `derivedEqG` … `derivedClone` on it.
`Spec/C08Inst.lean` proves that these denotations satisfy the law bundles the theorems of
`Spec/C08.lean` assume.

Primitive arithmetic follows the Go code: `hash.Number` = `hashUint64(uint64(key))`,
`hash.String` / `hash.Bytes` = FNV-1 (both re-used from `Model/TypeClasses.lean`, the model of C10),
`monoid.Product` = wrap-around multiplication of the integer kind.
-/
namespace FpVerif.Derive
open FpVerif.Rec

/-! ## Field values -/

/-- A field value as far as the type-class instances look at it.  Integers of every kind carry
    their numeric value; `string`, named strings and `[]byte` their bytes; `time.Time` is an `int`
    (Unix seconds, the grammar has no sub-second instants); a nil slice is an empty list, a nil
    map an empty map.  `opaque` = a value no instance inspects (non-applicable fields). -/
inductive DV where
  | int (i : Int)
  | str (bs : List UInt8)
  | bool (b : Bool)
  | none
  | some (v : DV)
  | nil
  | ptr (v : DV)
  | list (vs : List DV)
  | map (keys : List (List UInt8)) (vals : List DV)
  | tup (vs : List DV)
  | record (vs : List DV)
  | opaque (s : String)
  deriving Inhabited

namespace DV

def asInt : DV → Int
  | .int i => i
  | _ => 0

def asStr : DV → List UInt8
  | .str bs => bs
  | _ => []

def asBool : DV → Bool
  | .bool b => b
  | _ => false

/-- `fp.Option[T]`: anything but `Some(v)` is `None` -/
def asOpt : DV → Option DV
  | .some v => Option.some v
  | _ => Option.none

/-- `*T`: anything but a non-nil pointer is nil -/
def asPtr : DV → Option DV
  | .ptr v => Option.some v
  | _ => Option.none

def asList : DV → List DV
  | .list vs => vs
  | _ => []

def asMap : DV → List (List UInt8 × DV)
  | .map ks vs => ks.zip vs
  | _ => []

/-- the components of an `n`-tuple / the fields of a struct with `n` fields -/
def asN (n : Nat) : DV → List DV
  | .tup vs => if vs.length = n then vs else List.replicate n default
  | .record vs => if vs.length = n then vs else List.replicate n default
  | _ => List.replicate n default

theorem asN_length (n : Nat) (v : DV) : (asN n v).length = n := by
  cases v <;> simp [asN] <;> split <;> simp_all

end DV

/-- the integer kinds of the grammar: `int`, `int64`, named ints (`MyInt`, `dep.Money`) are 64-bit
    signed, `int8`, `uint64` -/
inductive IntKind where
  | i64 | i8 | u64
  deriving DecidableEq, Repr

/-- conversion of a mathematical integer to the kind (what Go's arithmetic on that type yields) -/
def IntKind.wrap : IntKind → Int → Int
  | .i64, x => Int.bmod x (2 ^ 64)
  | .i8, x => Int.bmod x (2 ^ 8)
  | .u64, x => x % (2 ^ 64 : Int)

/-- Go's `<` on strings: lexicographic on bytes, a proper prefix first (the sequence order
    `TC.OrdD.seqLess` over the order of bytes) -/
def bytesLt (a b : List UInt8) : Bool :=
  TC.OrdD.seqLess (TC.OrdD.lessFunc fun x y : UInt8 => decide (x.toNat < y.toNat)) a b

/-! ## `eq` -/

/-- dictionary read through a projection (how every instance below looks at a `DV`) -/
def EqD.comap {α β : Type} (d : EqD α) (f : β → α) : EqD β := ⟨fun a b => d.eqv (f a) (f b)⟩

/-- `eq.Given[T]()` for the integer kinds (`a == b`), `eq.Time` (`time.Time.Equal`) -/
def eqInt : EqD DV := ⟨fun a b => a.asInt == b.asInt⟩
/-- `eq.String`, `eq.Given[MyStr]()` (`a == b`), `eq.Bytes` (`bytes.Equal`) -/
def eqStr : EqD DV := ⟨fun a b => a.asStr == b.asStr⟩
/-- `eq.Given[bool]()` -/
def eqBool : EqD DV := ⟨fun a b => a.asBool == b.asBool⟩
/-- the local overriding instance the grammar emits: `EqMyInt = eq.New(zzMod10(a) == zzMod10(b))`,
    `zzMod10(a) = ((a % 10) + 10) % 10` -/
def eqMod10 : EqD DV := ⟨fun a b => a.asInt % 10 == b.asInt % 10⟩
/-- the instance in the type's own package: `dep.EqMoney = eq.New(a/100 == b/100)` (Go's `/` truncates) -/
def eqMoney100 : EqD DV := ⟨fun a b => Int.tdiv a.asInt 100 == Int.tdiv b.asInt 100⟩
/-- the local instance overriding `dep.EqMoney`: `eq.New(a%7 == b%7)` (Go's `%` truncates) -/
def eqMoney7 : EqD DV := ⟨fun a b => Int.tmod a.asInt 7 == Int.tmod b.asInt 7⟩

/-- `eq.Option(eq)` on `Option DV` -/
def optEqv (e : EqD DV) : Option DV → Option DV → Bool
  | .none, .none => true
  | .some a, .some b => e.eqv a b
  | _, _ => false

/-- `eq.Option` -/
def eqOption (e : EqD DV) : EqD DV := ⟨fun a b => optEqv e a.asOpt b.asOpt⟩

/-- `eq.Seq(eq)`: `if a.Size() != b.Size() { return false }`, then the `for i := range a` loop
    returns `false` at the first pair that is not `Eqv` (`TC.EqD.seq`: the model of C09) -/
def seqEqv (e : EqD DV) (a b : List DV) : Bool := (TC.EqD.seq ⟨e.eqv⟩).eqv a b

def eqSeq (e : EqD DV) : EqD DV := ⟨fun a b => seqEqv e a.asList b.asList⟩

/-- `eq.Slice(eq) = ContraMap(Seq(eq), as.Seq)` -/
def eqSlice (e : EqD DV) : EqD DV := EqD.contraMap (eqSeq e).eqv id

/-- `eq.Ptr(lazy eq)`: both nil, or both non-nil with `Eqv` targets -/
def eqPtr (e : EqD DV) : EqD DV := ⟨fun a b => optEqv e a.asPtr b.asPtr⟩

/-- the Go map a value denotes (keys are distinct in a Go map) -/
def DV.goMap (v : DV) : TC.GoMap (List UInt8) DV := TC.GoMap.ofList v.asMap

/-- `eq.GoMap(eqV)`: same `len`, every entry of `a` is in `b` with an `Eqv` value
    (`TC.EqD.goMap`: the model of C09) -/
def eqGoMap (e : EqD DV) : EqD DV :=
  ⟨fun a b => (TC.EqD.goMap (κ := List UInt8) ⟨e.eqv⟩).eqv a.goMap b.goMap⟩

/-- `eq.Tuple2(a, b)` -/
def eqTuple2 (a b : EqD DV) : EqD DV := (⟨tupleEq [a, b]⟩ : EqD (List DV)).comap (DV.asN 2)

/-- the derived `EqS()` of a nested struct `S`, as a component -/
def eqRec (s : StructSpec) (ds : List (EqD DV)) : EqD DV :=
  (derivedEq s ds).comap (DV.asN s.fields.length)

/-! ## `ord` -/

def OrdD.comap {α β : Type} (d : OrdD α) (f : β → α) : OrdD β :=
  ⟨fun a b => d.eqv (f a) (f b), fun a b => d.less (f a) (f b)⟩

/-- `fp.LessFunc(less)`: `Eqv` = `Compare == 0` = neither is less -/
def OrdD.ofLess {α : Type} (less : α → α → Bool) : OrdD α :=
  ⟨fun a b => !less a b && !less b a, less⟩

/-- `ord.Given[T]()` = `fp.LessGiven` for the integer kinds (a `CompareFunc` built from `<`, `>`),
    `ord.Time` (`time.Time.Compare`) -/
def ordInt : OrdD DV := OrdD.ofLess fun a b => decide (a.asInt < b.asInt)
/-- `ord.Given[string]()`, `ord.Given[MyStr]()` -/
def ordStr : OrdD DV := OrdD.ofLess fun a b => bytesLt a.asStr b.asStr
/-- `OrdMyInt = ord.New(EqMyInt, zzMod10(a) < zzMod10(b))` -/
def ordMod10 : OrdD DV := OrdD.new eqMod10.eqv fun a b => decide (a.asInt % 10 < b.asInt % 10)
/-- `dep.OrdMoney = ord.New(EqMoney, a/100 < b/100)` -/
def ordMoney100 : OrdD DV :=
  OrdD.new eqMoney100.eqv fun a b => decide (Int.tdiv a.asInt 100 < Int.tdiv b.asInt 100)

/-- the `LessFunc` of `ord.Option(m)`: `if !t1.IsDefined() && !t2.IsDefined() { return false };
    return option.Map2(t1, t2, m.Less).OrElse(t1.IsEmpty())` -/
def optLess (m : OrdD DV) : Option DV → Option DV → Bool
  | .none, .none => false
  | .some a, .some b => m.less a b
  | t1, _ => t1.isNone

/-- `ord.Option` (None first) -/
def ordOption (m : OrdD DV) : OrdD DV := OrdD.ofLess fun a b => optLess m a.asOpt b.asOpt

/-- the loop of `ord.Seq` over the common prefix (`if ord.Less(a[i], b[i]) { return true };
    if ord.Less(b[i], a[i]) { return false }`), then the sizes (`TC.OrdD.seqLess`: the model of C10) -/
def seqLess (o : OrdD DV) (a b : List DV) : Bool := TC.OrdD.seqLess (TC.OrdD.lessFunc o.less) a b

/-- `ord.Seq(ord) = New(eq.Seq(ord), less)` -/
def ordSeq (o : OrdD DV) : OrdD DV :=
  OrdD.new (eqSeq o.toEq).eqv fun a b => seqLess o a.asList b.asList

/-- `ord.Slice(ord) = ContraMap(Seq(ord), as.Seq)` -/
def ordSlice (o : OrdD DV) : OrdD DV := OrdD.contraMap (ordSeq o) id

/-- the `less` of `ord.Ptr`: nil first -/
def ptrLess (o : OrdD DV) : Option DV → Option DV → Bool
  | .some a, .some b => o.less a b
  | .none, .none => false
  | a, _ => a.isNone

/-- `ord.Ptr(lazy ord) = New(eq.Ptr(ord as Eq), less)` -/
def ordPtr (o : OrdD DV) : OrdD DV :=
  OrdD.new (eqPtr o.toEq).eqv fun a b => ptrLess o a.asPtr b.asPtr

/-- `ord.Tuple2(a, b)` -/
def ordTuple2 (a b : OrdD DV) : OrdD DV := (tupleOrd [a, b]).comap (DV.asN 2)

/-- the derived `OrdS()` of a nested struct -/
def ordRec (s : StructSpec) (ds : List (OrdD DV)) : OrdD DV :=
  (derivedOrd s ds).comap (DV.asN s.fields.length)

/-! ## `hash` -/

def HashD.comap {α β : Type} (d : HashD α) (f : β → α) : HashD β :=
  ⟨fun a b => d.eqv (f a) (f b), fun a => d.hash (f a)⟩

/-- `hash.Number[T]()`: `New(eq.Given[T](), hashUint64(uint64(key)))`; the conversion to `uint64`
    sign-extends, i.e. is the residue mod 2^64 -/
def hashNumber : HashD DV :=
  ⟨eqInt.eqv, fun a => TC.HashD.hashUint64 (UInt64.ofInt a.asInt)⟩
/-- `hash.String`, `hash.Bytes` (`fnv.New32`): FNV-1 over the bytes -/
def hashStr : HashD DV := ⟨eqStr.eqv, fun a => TC.HashD.fnv1 a.asStr⟩
/-- `HashableMyInt = hash.New(EqMyInt, uint32(zzMod10(a)))` -/
def hashMod10 : HashD DV := ⟨eqMod10.eqv, fun a => UInt32.ofInt (a.asInt % 10)⟩
/-- `dep.HashableMoney = hash.New(EqMoney, uint32(a / 100))` -/
def hashMoney100 : HashD DV := ⟨eqMoney100.eqv, fun a => UInt32.ofInt (Int.tdiv a.asInt 100)⟩

/-- `hash.Option(h)`: `0` for `None` -/
def hashOption (h : HashD DV) : HashD DV :=
  ⟨(eqOption h.toEq).eqv, fun a =>
    match a.asOpt with
    | .none => 0
    | .some v => h.hash v⟩

/-- `hash.Seq(h)`: `seq.Fold(a, 0, h*31 + hashT.Hash(t))` -/
def hashSeq (h : HashD DV) : HashD DV :=
  ⟨(eqSeq h.toEq).eqv, fun a => a.asList.foldl (fun acc t => acc * 31 + h.hash t) 0⟩

/-- `hash.Slice(h) = ContraMap(Seq(h), as.Seq)` -/
def hashSlice (h : HashD DV) : HashD DV := HashD.contraMap (hashSeq h).eqv (hashSeq h).hash id

/-- `hash.Ptr(lazy h)`: `0` for nil -/
def hashPtr (h : HashD DV) : HashD DV :=
  ⟨(eqPtr h.toEq).eqv, fun a =>
    match a.asPtr with
    | .none => 0
    | .some v => h.hash v⟩

/-- `hash.Tuple2(a, b)` -/
def hashTuple2 (a b : HashD DV) : HashD DV :=
  (⟨tupleEq [a.toEq, b.toEq], tupleHash [a, b]⟩ : HashD (List DV)).comap (DV.asN 2)

/-- the derived `HashableS()` of a nested struct -/
def hashRec (s : StructSpec) (ds : List (HashD DV)) : HashD DV :=
  (derivedHash s ds).comap (DV.asN s.fields.length)

/-! ## `monoid` -/

/-- `monoid.Product[T]()`: `New(1, a * b)` in the arithmetic of the kind -/
def monoidProduct (k : IntKind) : MonoidD DV :=
  ⟨.int 1, fun a b => .int (k.wrap (a.asInt * b.asInt))⟩
/-- `MonoidMyInt`, `dep.MonoidMoney` = `monoid.New(0, a + b)` -/
def monoidSum (k : IntKind) : MonoidD DV :=
  ⟨.int 0, fun a b => .int (k.wrap (a.asInt + b.asInt))⟩
/-- `monoid.String`, `monoid.Sum[MyStr]()` (`a + b` on strings; `Empty` is the zero value) -/
def monoidStr : MonoidD DV := ⟨.str [], fun a b => .str (a.asStr ++ b.asStr)⟩

/-- `monoid.Option(m) = New(Some(m.Empty()), option.Map2(a, b, m.Combine))` -/
def monoidOption (m : MonoidD DV) : MonoidD DV :=
  ⟨.some m.empty, fun a b =>
    match a.asOpt, b.asOpt with
    | .some x, .some y => .some (m.combine x y)
    | _, _ => .none⟩

/-- `monoid.MergeSeq[T]()` (`a.Concat(b)`), `monoid.MergeSlice[T]()` (its `IMap` along `as.Seq`) -/
def monoidMerge : MonoidD DV := ⟨.list [], fun a b => .list (a.asList ++ b.asList)⟩

/-- `ret[k] = v` on a map kept sorted by key -/
def mapPut (k : List UInt8) (v : DV) : List (List UInt8 × DV) → List (List UInt8 × DV)
  | [] => [(k, v)]
  | (k', v') :: rest =>
    if k == k' then (k, v) :: rest
    else if bytesLt k k' then (k, v) :: (k', v') :: rest
    else (k', v') :: mapPut k v rest

def DV.ofMap (m : List (List UInt8 × DV)) : DV := .map (m.map (·.1)) (m.map (·.2))

/-- `monoid.MergeGoMap[K, V]()`: `ret := map[K]V{}; for k, v := range a { ret[k] = v };
    for k, v := range b { ret[k] = v }` -/
def monoidMergeGoMap : MonoidD DV :=
  ⟨.map [] [], fun a b =>
    DV.ofMap (b.asMap.foldl (fun m kv => mapPut kv.1 kv.2 m)
      (a.asMap.foldl (fun m kv => mapPut kv.1 kv.2 m) []))⟩

/-- `monoid.Tuple2(a, b)` -/
def monoidTuple2 (a b : MonoidD DV) : MonoidD DV :=
  ⟨.tup (tupleEmpty [a, b]), fun x y => .tup (tupleCombine [a, b] (x.asN 2) (y.asN 2))⟩

/-- the derived `MonoidS()` of a nested struct (`zero` = `SBuilder{}`) -/
def monoidRec (s : StructSpec) (zero : List DV) (ds : List (MonoidD DV)) : MonoidD DV :=
  ⟨.record (derivedMonoid s zero ds).empty, fun x y =>
    .record ((derivedMonoid s zero ds).combine (x.asN s.fields.length) (y.asN s.fields.length))⟩

/-! ## `clone` (over heap values `HV`)

Encoding of Go values: scalars, `nil`, empty slices and empty maps are leaves; a pointer is
`ref a pointee`; a non-empty slice is `ref a elems`, a non-empty map `ref a entries`, with the
elements (entries `pair key value`, sorted by key) as the spine `pair e1 (pair e2 … (leaf "end"))`;
`Some(v)` is `pair (leaf "Some") v`; a tuple / struct value is the spine of its components. -/

def spine : List HV → HV
  | [] => .leaf "end"
  | v :: vs => .pair v (spine vs)

def unspine : HV → List HV
  | .pair v rest => v :: unspine rest
  | _ => []

/-- `seq.Map(s, tclone.Clone)` on the elements -/
def spineClone (c : CloneD HV) : HV → Alloc HV
  | .pair v rest => do
    let v' ← c.clone v
    let rest' ← spineClone c rest
    pure (.pair v' rest')
  | v => pure v

/-- `clone.Slice(c)` / `clone.Seq(c)`: a new backing array holding the cloned elements -/
def cloneSlice (c : CloneD HV) : CloneD HV := sliceClone ⟨spineClone c⟩

/-- `clone.Option(c) = option.Map(s, c.Clone)` -/
def cloneOption (c : CloneD HV) : CloneD HV :=
  ⟨fun v =>
    match v with
    | .pair (.leaf "Some") w => do
      let w' ← c.clone w
      pure (.pair (.leaf "Some") w')
    | v => pure v⟩

/-- one entry of `clone.GoMap(clonek, clonev)`: `ret[clonek.Clone(k)] = clonev.Clone(v)` -/
def cloneEntry (ck cv : CloneD HV) : CloneD HV :=
  ⟨fun e =>
    match e with
    | .pair k v => do
      let k' ← ck.clone k
      let v' ← cv.clone v
      pure (.pair k' v')
    | e => pure e⟩

/-- `clone.GoMap(clonek, clonev)`: a new map holding the cloned entries -/
def cloneGoMap (ck cv : CloneD HV) : CloneD HV := sliceClone ⟨spineClone (cloneEntry ck cv)⟩

/-- `clone.Tuple2(a, b)` -/
def cloneTuple2 (a b : CloneD HV) : CloneD HV :=
  ⟨fun v => do
    let r ← tupleClone [a, b] (unspine v)
    pure (spine r)⟩

/-- the derived `CloneS()` of a nested struct -/
def cloneRec (s : StructSpec) (ds : List (CloneD HV)) : CloneD HV :=
  ⟨fun v => do
    let r ← (derivedClone s ds).clone (unspine v)
    pure (spine r)⟩

/-! ## Instance expressions -/

/-- what instance resolution produced for a field type -/
inductive Inst where
  /-- a primitive instance, named after what it is in the Go source -/
  | prim (name : String)
  | option (i : Inst)
  | seq (i : Inst)
  | slice (i : Inst)
  | ptr (i : Inst)
  | gomap (i : Inst)
  | tuple2 (a b : Inst)
  /-- the derived instance of another struct: its declaration and its components -/
  | struct (s : StructSpec) (is : List Inst)
  /-- the instance being defined (recursive type: `lazy.Call(func() … { return EqT() })`) -/
  | self
  /-- the dictionary the generic instance function receives for type parameter `n` -/
  | tparam (n : String)
  deriving Inhabited

/-- what an expression may refer to: the instance under construction and the parameter dictionaries -/
structure Env (D : Type) where
  self : D
  param : String → D

/-- `eq.Given[int]()` & co. by name (`none`: not an instance of package eq the grammar produces) -/
def primEq? : String → Option (EqD DV)
  | "eq.Given[int]" => some eqInt
  | "eq.Time" => some eqInt
  | "eq.Given[string]" => some eqStr
  | "eq.String" => some eqStr
  | "eq.Bytes" => some eqStr
  | "eq.Given[bool]" => some eqBool
  | "EqMyInt" => some eqMod10
  | "dep.EqMoney" => some eqMoney100
  | "EqMoney" => some eqMoney7
  | _ => none

def primOrd? : String → Option (OrdD DV)
  | "ord.Given[int]" => some ordInt
  | "ord.Time" => some ordInt
  | "ord.Given[string]" => some ordStr
  | "OrdMyInt" => some ordMod10
  | "dep.OrdMoney" => some ordMoney100
  | _ => none

def primHash? : String → Option (HashD DV)
  | "hash.Number" => some hashNumber
  | "hash.String" => some hashStr
  | "hash.Bytes" => some hashStr
  | "HashableMyInt" => some hashMod10
  | "dep.HashableMoney" => some hashMoney100
  | _ => none

/-- the values of an integer kind -/
def IntKind.InRange (k : IntKind) (v : DV) : Prop := ∃ n, v = .int n ∧ k.wrap n = n

def DV.IsStr (v : DV) : Prop := ∃ b, v = .str b
def DV.IsList (v : DV) : Prop := ∃ vs, v = .list vs

/-- the primitive monoids by name, each with its carrier (the values of its Go type, on which it is
    a lawful monoid; `monoid.MergeGoMap` is lawful up to map content only — property C11 — and gets
    the empty carrier here) -/
def primMonoidTable : String → Option (MonoidD DV × (DV → Prop))
  | "monoid.Product[int64]" => some (monoidProduct .i64, IntKind.i64.InRange)
  | "monoid.Product[int8]" => some (monoidProduct .i8, IntKind.i8.InRange)
  | "monoid.Product[uint64]" => some (monoidProduct .u64, IntKind.u64.InRange)
  | "monoid.String" => some (monoidStr, DV.IsStr)
  | "monoid.Sum[string]" => some (monoidStr, DV.IsStr)
  | "MonoidMyInt" => some (monoidSum .i64, IntKind.i64.InRange)
  | "dep.MonoidMoney" => some (monoidSum .i64, IntKind.i64.InRange)
  | "monoid.Merge" => some (monoidMerge, DV.IsList)
  | "monoid.MergeGoMap" => some (monoidMergeGoMap, fun _ => False)
  | _ => none

def primMonoid? (n : String) : Option (MonoidD DV) := (primMonoidTable n).map (·.1)

def primClone? : String → Option (CloneD HV)
  | "clone.Given" => some CloneD.given
  | _ => none

/-- the fallbacks for names outside the tables (never reached by the oracle: it checks
    `Inst.known` first) -/
def EqD.trivial : EqD DV := ⟨fun _ _ => true⟩
def OrdD.trivial : OrdD DV := ⟨fun _ _ => true, fun _ _ => false⟩
def HashD.trivial : HashD DV := ⟨fun _ _ => true, fun _ => 0⟩
def MonoidD.trivial : MonoidD DV := ⟨.opaque "?", fun a _ => a⟩

/-- the zero value of a nested struct used as a component: such structs have no non-applicable
    field (the grammar guarantees it, the `Builder{}` detour would reset them), so the zero value
    is never observable -/
def nestedZero (s : StructSpec) : List DV := s.fields.map fun _ => DV.opaque "zero"

mutual
  def Inst.eq (env : Env (EqD DV)) : Inst → EqD DV
    | .prim n => (primEq? n).getD EqD.trivial
    | .option i => eqOption (i.eq env)
    | .seq i => eqSeq (i.eq env)
    | .slice i => eqSlice (i.eq env)
    | .ptr i => eqPtr (i.eq env)
    | .gomap i => eqGoMap (i.eq env)
    | .tuple2 a b => eqTuple2 (a.eq env) (b.eq env)
    | .struct s is => eqRec s (Inst.eqs env is)
    | .self => env.self
    | .tparam n => env.param n
  def Inst.eqs (env : Env (EqD DV)) : List Inst → List (EqD DV)
    | [] => []
    | i :: is => i.eq env :: Inst.eqs env is
end

mutual
  def Inst.ord (env : Env (OrdD DV)) : Inst → OrdD DV
    | .prim n => (primOrd? n).getD OrdD.trivial
    | .option i => ordOption (i.ord env)
    | .seq i => ordSeq (i.ord env)
    | .slice i => ordSlice (i.ord env)
    | .ptr i => ordPtr (i.ord env)
    | .gomap _ => OrdD.trivial
    | .tuple2 a b => ordTuple2 (a.ord env) (b.ord env)
    | .struct s is => ordRec s (Inst.ords env is)
    | .self => env.self
    | .tparam n => env.param n
  def Inst.ords (env : Env (OrdD DV)) : List Inst → List (OrdD DV)
    | [] => []
    | i :: is => i.ord env :: Inst.ords env is
end

mutual
  def Inst.hash (env : Env (HashD DV)) : Inst → HashD DV
    | .prim n => (primHash? n).getD HashD.trivial
    | .option i => hashOption (i.hash env)
    | .seq i => hashSeq (i.hash env)
    | .slice i => hashSlice (i.hash env)
    | .ptr i => hashPtr (i.hash env)
    | .gomap _ => HashD.trivial
    | .tuple2 a b => hashTuple2 (a.hash env) (b.hash env)
    | .struct s is => hashRec s (Inst.hashes env is)
    | .self => env.self
    | .tparam n => env.param n
  def Inst.hashes (env : Env (HashD DV)) : List Inst → List (HashD DV)
    | [] => []
    | i :: is => i.hash env :: Inst.hashes env is
end

mutual
  def Inst.monoid (env : Env (MonoidD DV)) : Inst → MonoidD DV
    | .prim n => (primMonoid? n).getD MonoidD.trivial
    | .option i => monoidOption (i.monoid env)
    | .seq _ => monoidMerge
    | .slice _ => monoidMerge
    | .ptr _ => MonoidD.trivial
    | .gomap _ => monoidMergeGoMap
    | .tuple2 a b => monoidTuple2 (a.monoid env) (b.monoid env)
    | .struct s is => monoidRec s (nestedZero s) (Inst.monoids env is)
    | .self => env.self
    | .tparam n => env.param n
  def Inst.monoids (env : Env (MonoidD DV)) : List Inst → List (MonoidD DV)
    | [] => []
    | i :: is => i.monoid env :: Inst.monoids env is
end

mutual
  def Inst.clone (env : Env (CloneD HV)) : Inst → CloneD HV
    | .prim n => (primClone? n).getD CloneD.given
    | .option i => cloneOption (i.clone env)
    | .seq i => cloneSlice (i.clone env)
    | .slice i => cloneSlice (i.clone env)
    | .ptr i => ptrCloneDeep (i.clone env)
    | .gomap i => cloneGoMap CloneD.given (i.clone env)
    | .tuple2 a b => cloneTuple2 (a.clone env) (b.clone env)
    | .struct s is => cloneRec s (Inst.clones env is)
    | .self => env.self
    | .tparam n => env.param n
  def Inst.clones (env : Env (CloneD HV)) : List Inst → List (CloneD HV)
    | [] => []
    | i :: is => i.clone env :: Inst.clones env is
end

/- every primitive name of the expression is in the table of the class -/
mutual
  def Inst.known (ok : String → Bool) : Inst → Bool
    | .prim n => ok n
    | .option i | .seq i | .slice i | .ptr i | .gomap i => i.known ok
    | .tuple2 a b => a.known ok && b.known ok
    | .struct _ is => Inst.knowns ok is
    | .self => true
    | .tparam _ => true
  def Inst.knowns (ok : String → Bool) : List Inst → Bool
    | [] => true
    | i :: is => i.known ok && Inst.knowns ok is
end

/- a well-formed expression: the derived instance of a struct has one component per applicable field -/
mutual
  def Inst.WF : Inst → Prop
    | .prim _ => True
    | .option i | .seq i | .slice i | .ptr i | .gomap i => i.WF
    | .tuple2 a b => a.WF ∧ b.WF
    | .struct s is => is.length = s.nApp ∧ Inst.WFs is
    | .self => True
    | .tparam _ => True
  def Inst.WFs : List Inst → Prop
    | [] => True
    | i :: is => i.WF ∧ Inst.WFs is
end

/-! ## Carriers of the monoid instances

A `fp.Monoid[T]` is lawful on the values of `T`; in the untyped universe `DV` that is the carrier of
the instance expression (`LawfulMonoidOn` of `Model/Derive.lean`).  `monoid.MergeGoMap` is left out
(its laws hold up to map content: property C11), and so are `monoid.Ptr` and the recursive
reference, for which the grammar derives no `Monoid`: their carrier is empty. -/

def primCarrier (n : String) : DV → Prop :=
  match primMonoidTable n with
  | some p => p.2
  | none => fun _ => False

mutual
  def Inst.carrier (penv : String → DV → Prop) : Inst → DV → Prop
    | .prim n => primCarrier n
    | .option i => fun v => v = .none ∨ ∃ w, v = .some w ∧ i.carrier penv w
    | .seq _ => DV.IsList
    | .slice _ => DV.IsList
    | .ptr _ => fun _ => False
    | .gomap _ => fun _ => False
    | .tuple2 a b => fun v => ∃ x y, v = .tup [x, y] ∧ a.carrier penv x ∧ b.carrier penv y
    | .struct s is => fun v => ∃ vs, v = .record vs ∧ vs.length = s.fields.length ∧
        InCarriers (Inst.carriers penv is) (unapplyG s vs)
    | .self => fun _ => False
    | .tparam n => penv n
  def Inst.carriers (penv : String → DV → Prop) : List Inst → List (DV → Prop)
    | [] => []
    | i :: is => i.carrier penv :: Inst.carriers penv is
end

/- well-formed for `Monoid`: a nested struct has one component per field and only applicable fields
   (the `Builder{}` detour of `IMap` would reset the others: the grammar never nests such structs) -/
mutual
  def Inst.WFm : Inst → Prop
    | .prim _ => True
    | .option i | .seq i | .slice i | .ptr i | .gomap i => i.WFm
    | .tuple2 a b => a.WFm ∧ b.WFm
    | .struct s is => is.length = s.nApp ∧ (∀ f ∈ s.fields, f.applicable = true) ∧ Inst.WFms is
    | .self => True
    | .tparam _ => True
  def Inst.WFms : List Inst → Prop
    | [] => True
    | i :: is => i.WFm ∧ Inst.WFms is
end

/-! ## Shapes of heap values

`CloneOK d v` ("an equal copy sharing no storage") is a statement about a clone AT a value: the
values of the field type, in the encoding above, are the *shape* of the instance expression. -/

/-- a spine `pair e1 (pair e2 … (leaf "end"))` whose elements satisfy `P` -/
inductive SpineOf (P : HV → Prop) : HV → Prop where
  | nil : SpineOf P (.leaf "end")
  | cons {v rest : HV} : P v → SpineOf P rest → SpineOf P (.pair v rest)

/-- one entry of a map: an immutable key and a value -/
def EntryOf (P : HV → Prop) (e : HV) : Prop := ∃ k w, e = .pair k w ∧ k.addrs = [] ∧ P w

mutual
  def Inst.shape (senv : String → HV → Prop) (self : HV → Prop) : Inst → HV → Prop
    /- `clone.Given[T]()` is resolved for types without mutable storage -/
    | .prim _ => fun v => v.addrs = []
    | .option i => fun v => (∃ t, v = .leaf t) ∨ ∃ w, v = .pair (.leaf "Some") w ∧ i.shape senv self w
    | .seq i => fun v => (∃ t, v = .leaf t) ∨ ∃ a sp, v = .ref a sp ∧ SpineOf (i.shape senv self) sp
    | .slice i => fun v => (∃ t, v = .leaf t) ∨ ∃ a sp, v = .ref a sp ∧ SpineOf (i.shape senv self) sp
    | .ptr i => fun v => (∃ t, v = .leaf t) ∨ ∃ a w, v = .ref a w ∧ i.shape senv self w
    | .gomap i => fun v =>
        (∃ t, v = .leaf t) ∨ ∃ a sp, v = .ref a sp ∧ SpineOf (EntryOf (i.shape senv self)) sp
    | .tuple2 a b => fun v => ∃ x y, v = spine [x, y] ∧ a.shape senv self x ∧ b.shape senv self y
    | .struct s is => fun v => ∃ vs, v = spine vs ∧ vs.length = s.fields.length ∧
        InCarriers (Inst.shapes senv self is) (projectG s.fields vs)
    | .self => self
    | .tparam n => senv n
  def Inst.shapes (senv : String → HV → Prop) (self : HV → Prop) : List Inst → List (HV → Prop)
    | [] => []
    | i :: is => i.shape senv self :: Inst.shapes senv self is
end

/-! ## The instance of a whole declaration

`fields` / `insts`: per applicable field the expression resolution produced; `pinsts`: the
expressions passed for the type parameters.  The instance is the generic-struct function
`derivedXG` of `Model/Derive.lean` applied to the parameter dictionaries: the component of a
field of type-parameter type is looked up by the parameter's NAME, every other by the field's TYPE
(so two fields of the same type necessarily share one instance, as in gombok's resolution).
A recursive type refers to itself through `Inst.self`; the knot is tied by unfolding `fuel` times
(a value of nesting depth `d` needs `d + 1` unfoldings; below that the all-equal instance). -/

structure Decl where
  spec : StructSpec
  params : List String
  /-- one expression per applicable field, in declaration order -/
  insts : List Inst
  /-- the expression passed for each type parameter the instance function takes -/
  pinsts : List (String × Inst)

/-- what the oracle's parser guarantees: one well-formed expression per applicable field -/
structure Decl.WF (d : Decl) : Prop where
  arity : d.insts.length = d.spec.nApp
  insts : Inst.WFs d.insts
  pinsts : Inst.WFs (d.pinsts.map (·.2))

/-- instance lookup by field type: the expression of the first applicable field of that type -/
def Decl.givenInst (d : Decl) (t : Ty) : Inst :=
  match (d.spec.applicableFields.zip d.insts).find? (fun p => p.1.ty == t) with
  | some p => p.2
  | none => .prim "?"

def Decl.paramInst (d : Decl) (n : String) : Inst :=
  match d.pinsts.find? (fun p => p.1 == n) with
  | some p => p.2
  | none => .prim "?"

def Decl.eqInst (d : Decl) : Nat → EqD (List DV)
  | 0 => ⟨fun _ _ => true⟩
  | fuel + 1 =>
    let self : EqD DV := (d.eqInst fuel).comap (DV.asN d.spec.fields.length)
    let pd : String → EqD DV := fun n => (d.paramInst n).eq ⟨self, fun _ => EqD.trivial⟩
    derivedEqG d.spec d.params (fun t => (d.givenInst t).eq ⟨self, pd⟩) pd

def Decl.ordInst (d : Decl) : Nat → OrdD (List DV)
  | 0 => ⟨fun _ _ => true, fun _ _ => false⟩
  | fuel + 1 =>
    let self : OrdD DV := (d.ordInst fuel).comap (DV.asN d.spec.fields.length)
    let pd : String → OrdD DV := fun n => (d.paramInst n).ord ⟨self, fun _ => OrdD.trivial⟩
    derivedOrdG d.spec d.params (fun t => (d.givenInst t).ord ⟨self, pd⟩) pd

def Decl.hashInst (d : Decl) : Nat → HashD (List DV)
  | 0 => ⟨fun _ _ => true, fun _ => 0⟩
  | fuel + 1 =>
    let self : HashD DV := (d.hashInst fuel).comap (DV.asN d.spec.fields.length)
    let pd : String → HashD DV := fun n => (d.paramInst n).hash ⟨self, fun _ => HashD.trivial⟩
    derivedHashG d.spec d.params (fun t => (d.givenInst t).hash ⟨self, pd⟩) pd

/-- (the grammar derives no Monoid for recursive types: `self` is never reached) -/
def Decl.monoidInst (d : Decl) (zero : List DV) : MonoidD (List DV) :=
  let pd : String → MonoidD DV :=
    fun n => (d.paramInst n).monoid ⟨MonoidD.trivial, fun _ => MonoidD.trivial⟩
  derivedMonoidG d.spec zero d.params (fun t => (d.givenInst t).monoid ⟨MonoidD.trivial, pd⟩) pd

/-- `CloneT[…](…)`: `derivedClone` on the component list of the generic struct (`components` of
    `Model/Derive.lean`) -/
def Decl.cloneInst (d : Decl) : Nat → CloneD HRec
  | 0 => ⟨fun x => pure x⟩
  | fuel + 1 =>
    let self : CloneD HV := ⟨fun v => do
      let r ← (d.cloneInst fuel).clone (unspine v)
      pure (spine r)⟩
    let pd : String → CloneD HV := fun n => (d.paramInst n).clone ⟨self, fun _ => CloneD.given⟩
    derivedClone d.spec (components d.spec d.params (fun t => (d.givenInst t).clone ⟨self, pd⟩) pd)

end FpVerif.Derive
