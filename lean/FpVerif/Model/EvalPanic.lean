import FpVerif.Model.MemoPanic
/-!
# `lazy.Eval` with memo cells in a heap and thunks that panic (lazy/lazy.go)

`Model/Eval.lean` evaluates an `Eval` once and its thunks are total writer functions.  Here

* `lazy.Call(f)` / `lazy.TailCall(f)` allocate their `Memoize` cell (`once`, `ret`) in a heap when the Go expression
  is evaluated; an `Eval` VALUE (`EvalV`) refers to cells by index, so the same value can be evaluated several
  times (`Get` twice), can be shared (`Map2(c, c, …)`, a variable used twice: `Prog.ref`) and its cells keep what
  the first evaluation left there;
* thunks are `Nat → GoM T` (`Call`; `f k` = the `k`-th execution: effects, panic) and `Nat → Prog T` (`TailCall`: the
  closure evaluates a Go expression of type `Eval[T]`, which may log (`Prog.logged`), panic (`Prog.panic`) and
  allocates the cells of the `Call`/`TailCall` expressions it contains);
* `forceCall` IS `MemoPanic.get` on the cell; `forceTail` is the same code at type `Eval[T]`
  (zero value of `Eval[T]`: `leaf nil`, which `Resume` evaluates to the zero value of `T`).

```go
func (r Eval[T]) Resume() (T, func() Eval[T]) {
	firstFunc := r.firstFunc; if firstFunc == nil { firstFunc = func() T { var zero T; return zero } }
	if r.getNextFunc == nil { return firstFunc(), nil }
	var zero T
	return zero, func() Eval[T] { return r.getNextFunc(firstFunc()) }
}
func Run[T any](t Eval[T]) T { for { result, k := t.Resume(); if k != nil { t = k(); continue }; return result } }
func (r Eval[T]) FlatMap(f func(T) Eval[T]) Eval[T] {
	if r.getNextFunc == nil { return Eval[T]{firstFunc: r.firstFunc, getNextFunc: f} }
	getNextFunc := r.getNextFunc
	return Eval[T]{firstFunc: r.firstFunc, getNextFunc: func(value T) Eval[T] { return getNextFunc(value).FlatMap(f) }}
}
func (r Eval[T]) Map(f func(T) T) Eval[T] { return r.FlatMap(func(value T) Eval[T] { return Done(f(value)) }) }
func Map2[T any](a, b Eval[T], f func(T, T) T) Eval[T] {
	return a.FlatMap(func(v1 T) Eval[T] { return b.Map(func(v2 T) T { return f(v1, v2) }) })
}
func Done[T any](t T) Eval[T] { return Eval[T]{firstFunc: func() T { return t }} }
func TailCall[T any](f func() Eval[T]) Eval[T] {
	mf := Memoize(f)
	return Eval[T]{firstFunc: func() T { var zero T; return zero }, getNextFunc: func(T) Eval[T] { return mf() }}
}
func Call[T any](f func() T) Eval[T] { mf := Memoize(f); return Eval[T]{firstFunc: mf} }
```
-/
namespace FpVerif.EvalP
open FpVerif FpVerif.It FpVerif.MemoPanic

/-- Go expressions of type `Eval[T]`, as user code writes them. -/
inductive Prog (T : Type) where
  | done (t : T)                                      -- lazy.Done(t)
  | zero                                              -- Eval[T]{}
  | call (f : Nat → GoM T)                            -- lazy.Call(f)
  | tailCall (f : Nat → Prog T)                       -- lazy.TailCall(f), lazy.TailCallN(f, a1 … aN)
  | flatMap (p : Prog T) (k : T → Prog T)             -- p.FlatMap(k), lazy.FlatMap(p, k)
  | map (p : Prog T) (f : T → GoM T)                  -- p.Map(f), lazy.Map(p, f)
  | map2 (p q : Prog T) (f : T → T → GoM T)           -- lazy.Map2(p, q, f)
  | logged (evs : List Event) (p : Prog T)            -- user code logs `evs`, then evaluates `p`
  | panic (pv : PanicVal)                             -- user code panics instead of producing an Eval
  | ref (j : Nat)                                     -- a variable holding an Eval built earlier (`Heap.roots[j]`)

/-- `firstFunc` -/
inductive First (T : Type) where
  | nil                          -- the zero value's nil func
  | const (t : T)                -- Done's `func() T { return t }`; TailCall's `func() T { return zero }`
  | memo (c : Nat)               -- Call's `mf`: the memoised closure over call cell `c`

/-- `getNextFunc`: the closures the library and the user create, with their captured variables -/
inductive Kont (T : Type) where
  | user (k : T → Prog T)                                             -- a user closure `func(T) Eval[T]`
  | mapF (f : T → GoM T)                                              -- Map: `func(value) { return Done(f(value)) }`
  | map2L (bFirst : First T) (f : T → T → GoM T)                      -- Map2: `func(v1) { return b.Map(…) }`, captured `b` without getNextFunc
  | map2C (bFirst : First T) (bNext : Kont T) (f : T → T → GoM T)     --   … captured `b` with getNextFunc
  | tail (c : Nat)                                                    -- TailCall: `func(T) { return mf() }` over tail cell `c`
  | comp (g f : Kont T)                                               -- FlatMap: `func(value) { return getNextFunc(value).FlatMap(f) }`

/-- an `Eval[T]` value -/
inductive EvalV (T : Type) where
  | leaf (first : First T)                      -- getNextFunc == nil
  | cont (first : First T) (next : Kont T)

/-- Map2's closure capturing the Eval value `b` -/
def Kont.map2F {T : Type} (b : EvalV T) (f : T → T → GoM T) : Kont T :=
  match b with
  | .leaf fi => .map2L fi f
  | .cont fi n => .map2C fi n f

/-- the `Memoize` of a `lazy.Call`: the thunk and the closure variables `once` / `ret` -/
structure CallCell (T : Type) where
  f : Nat → GoM T
  cell : Cell T

/-- the `Memoize` of a `lazy.TailCall` (`ret` is an `Eval[T]`) -/
structure TailCell (T : Type) where
  f : Nat → Prog T
  cell : Cell (EvalV T)

structure Heap (T : Type) where
  calls : List (CallCell T) := []
  tails : List (TailCell T) := []
  roots : List (EvalV T) := []          -- variables of the client program holding Evals

abbrev HM (T : Type) := IM (Heap T)

variable {T : Type}

def badCell : PanicVal := "<<bad-cell>>"

def emitAll (evs : List Event) : HM T Unit := fun hp lg => (.ok (), hp, lg ++ evs)

/-- `mf := Memoize(f)` inside `lazy.Call` -/
def allocCall (zero : T) (f : Nat → GoM T) : HM T Nat := fun hp lg =>
  (.ok hp.calls.length, { hp with calls := hp.calls ++ [{ f := f, cell := Cell.fresh zero }] }, lg)

/-- `mf := Memoize(f)` inside `lazy.TailCall`; the zero value of `Eval[T]` is `Eval[T]{}` -/
def allocTail (f : Nat → Prog T) : HM T Nat := fun hp lg =>
  (.ok hp.tails.length, { hp with tails := hp.tails ++ [{ f := f, cell := Cell.fresh (.leaf .nil) }] }, lg)

/-- `r.FlatMap(f)` -/
def flatMapV : EvalV T → Kont T → EvalV T
  | .leaf first, k => .cont first k
  | .cont first g, k => .cont first (.comp g k)

/-- evaluating a Go expression of type `Eval[T]`: allocates the cells of its `Call`/`TailCall`s, left to right;
    runs no thunk -/
def build (zero : T) : Prog T → HM T (EvalV T)
  | .done t => pure (.leaf (.const t))
  | .zero => pure (.leaf .nil)
  | .call f => do let c ← allocCall zero f; pure (.leaf (.memo c))
  | .tailCall f => do let c ← allocTail f; pure (.cont (.const zero) (.tail c))
  | .flatMap p k => do let e ← build zero p; pure (flatMapV e (.user k))
  | .map p f => do let e ← build zero p; pure (flatMapV e (.mapF f))
  | .map2 p q f => do
    let a ← build zero p
    let b ← build zero q
    pure (flatMapV a (Kont.map2F b f))
  | .logged evs p => do emitAll evs; build zero p
  | .panic pv => IM.panic pv
  | .ref j => fun hp lg =>
    match hp.roots[j]? with
    | some e => (.ok e, hp, lg)
    | none => (.error "<<bad-ref>>", hp, lg)

/-- `mf()` of a `Call`: `MemoPanic.get` on call cell `c` -/
def forceCall (c : Nat) : HM T T := fun hp lg =>
  match hp.calls[c]? with
  | none => (.error badCell, hp, lg)
  | some cc =>
    match get cc.f cc.cell lg with
    | (r, cell', lg') => (r, { hp with calls := hp.calls.set c { cc with cell := cell' } }, lg')

/-- `mf()` of a `TailCall`: `once.Do(func() { ret = f() }); return ret` where running `f` evaluates a Go
    expression (allocating); `done` is set on the panic path too, `ret` then stays `Eval[T]{}` -/
def forceTail (zero : T) (c : Nat) : HM T (EvalV T) := fun hp lg =>
  match hp.tails[c]? with
  | none => (.error badCell, hp, lg)
  | some tc =>
    if tc.cell.done then (.ok tc.cell.ret, hp, lg)
    else
      match build zero (tc.f tc.cell.runs) hp lg with
      | (.ok e, hp', lg') =>
        (.ok e, { hp' with tails := hp'.tails.set c { tc with cell := { done := true, ret := e, runs := tc.cell.runs + 1 } } }, lg')
      | (.error p, hp', lg') =>
        (.error p, { hp' with tails := hp'.tails.set c { tc with cell := { tc.cell with done := true, runs := tc.cell.runs + 1 } } }, lg')

/-- `firstFunc()`, with `Resume`'s substitute for a nil `firstFunc` -/
def callFirst (zero : T) : First T → HM T T
  | .nil => pure zero
  | .const t => pure t
  | .memo c => forceCall c

/-- `getNextFunc(v)` -/
def applyK (zero : T) : Kont T → T → HM T (EvalV T)
  | .user k, v => build zero (k v)
  | .mapF f, v => do let w ← IM.liftG (f v); pure (.leaf (.const w))
  | .map2L bFirst f, v1 => pure (.cont bFirst (.mapF (f v1)))
  | .map2C bFirst bNext f, v1 => pure (.cont bFirst (.comp bNext (.mapF (f v1))))
  | .tail c, _ => forceTail zero c
  | .comp g f, v => do let e ← applyK zero g v; pure (flatMapV e f)

/-- `t.Resume()` followed, when it returned a continuation, by calling it (what one iteration of `Run` does) -/
def resume (zero : T) : EvalV T → HM T (T ⊕ EvalV T)
  | .leaf first => do let v ← callFirst zero first; pure (.inl v)
  | .cont first next => do
    let v ← callFirst zero first
    let e ← applyK zero next v
    pure (.inr e)

/-- `Run` with an iteration budget (running out of it is the panic `outOfFuel`, which no Go execution produces) -/
def runLoop (zero : T) : Nat → EvalV T → HM T T
  | 0, _ => IM.panic outOfFuel
  | n + 1, t => do
    match ← resume zero t with
    | .inl v => pure v
    | .inr t' => runLoop zero n t'

-- client programs -------------------------------------------------------------------------------------------------

/-- a statement of the client program -/
inductive Cmd (T : Type) where
  | define (p : Prog T)          -- `x_j := <p>` (under recover; `x_j` stays `Eval[T]{}` if the expression panics)
  | get (j : Nat)                -- `x_j.Get()` under recover

def root (j : Nat) : HM T (EvalV T) := fun hp lg =>
  match hp.roots[j]? with
  | some e => (.ok e, hp, lg)
  | none => (.error "<<bad-ref>>", hp, lg)

def pushRoot (e : EvalV T) : HM T Unit := fun hp lg => (.ok (), { hp with roots := hp.roots ++ [e] }, lg)

/-- run one statement; the answer is what the client observes: nothing / the value / the panic -/
def exec (zero : T) (fuel : Nat) : Cmd T → HM T (Except PanicVal (Option T))
  | .define p => do
    match ← attempt (build zero p) with
    | .ok e => pushRoot e; pure (.ok none)
    | .error pv => pushRoot (.leaf .nil); pure (.error pv)
  | .get j => do
    match ← attempt (do let e ← root j; runLoop zero fuel e) with
    | .ok v => pure (.ok (some v))
    | .error pv => pure (.error pv)

def execAll (zero : T) (fuel : Nat) : List (Cmd T) → HM T (List (Except PanicVal (Option T)))
  | [] => pure []
  | c :: cs => do
    let r ← exec zero fuel c
    let rs ← execAll zero fuel cs
    pure (r :: rs)

end FpVerif.EvalP
