import FpVerif.Sexp
import FpVerif.Model.TypeClasses
/-!
# Wire values of the type-class oracles (`oracle_tc`)

An untyped first-order value `V` that the harness and the oracle exchange, its parser from
S-expressions and its canonical rendering (must equal `tcbox.Show` on the Go side).
Pointers carry an address id, so "different pointer, equal target" is a real case; a nil slice
and an empty slice are the same `V` (`nilseq` and `(seq)` both parse to `seq []`).
-/
namespace FpVerif.TC
open FpVerif

inductive V where
  | int (n : Int)
  | bool (b : Bool)
  | str (s : String)
  | unit
  | none
  | some (v : V)
  | seq (xs : List V)
  | nil
  | ptr (addr : Nat) (v : V)
  | tup (xs : List V)
  | hl (xs : List V)
  | map (kvs : List (V × V))
  | succ (v : V)
  | fail (e : Int)
  | dual (v : V)
  | fn (cs : List (Int × Int))     -- composition of x ↦ a*x+b (head outermost), on wrap-around ints
  | fnTab (ys : List Int)          -- a function shown by its values on the test domain
  | eval (v : V)
  | time (instant zone : Int)
  | bytes (bs : List Nat)
  deriving Inhabited

namespace V

def sortStrings (xs : List String) : List String := xs.mergeSort (fun a b => decide (a ≤ b))

partial def toStr : V → String
  | .int n => toString n
  | .bool b => if b then "true" else "false"
  | .str s => "\"" ++ s ++ "\""
  | .unit => "unit"
  | .none => "None"
  | .some v => "Some(" ++ v.toStr ++ ")"
  | .seq xs => "[" ++ ",".intercalate (xs.map toStr) ++ "]"
  | .nil => "nil"
  | .ptr _ v => "&" ++ v.toStr
  | .tup xs => "(" ++ ",".intercalate (xs.map toStr) ++ ")"
  | .hl xs => "::".intercalate (xs.map toStr ++ ["HNil"])
  | .map kvs => "{" ++ ",".intercalate (sortStrings (kvs.map fun kv => kv.1.toStr ++ ":" ++ kv.2.toStr)) ++ "}"
  | .succ v => "Success(" ++ v.toStr ++ ")"
  | .fail e => s!"Failure(e{e})"
  | .dual v => "Dual(" ++ v.toStr ++ ")"
  | .fn _ => "fn"
  | .fnTab ys => "fn[" ++ ",".intercalate (ys.map toString) ++ "]"
  | .eval v => "Eval(" ++ v.toStr ++ ")"
  | .time i _ => s!"T({i})"
  | .bytes bs => "b[" ++ ",".intercalate (bs.map toString) ++ "]"

instance : ToString V := ⟨toStr⟩

partial def parse : Sexp → Option V
  | .atom "true" => pure (.bool true)
  | .atom "false" => pure (.bool false)
  | .atom "unit" => pure .unit
  | .atom "none" => pure .none
  | .atom "nil" => pure .nil
  | .atom "nilseq" => pure (.seq [])
  | .atom "nilbytes" => pure (.bytes [])
  | .atom "nilmap" => pure (.map [])
  | .atom a => do pure (.int (← a.toInt?))
  | .list [.atom "s"] => pure (.str "")
  | .list [.atom "s", .atom t] => pure (.str t)
  | .list [.atom "some", v] => do pure (.some (← parse v))
  | .list (.atom "seq" :: xs) => do pure (.seq (← xs.mapM parse))
  | .list [.atom "ptr", a, v] => do pure (.ptr (← a.asNat?) (← parse v))
  | .list (.atom "tup" :: xs) => do pure (.tup (← xs.mapM parse))
  | .list (.atom "hl" :: xs) => do pure (.hl (← xs.mapM parse))
  | .list (.atom "map" :: kvs) => do
      let kvs ← kvs.mapM fun kv => match kv with
        | .list [k, v] => do pure (← parse k, ← parse v)
        | _ => Option.none
      pure (.map kvs)
  | .list (.atom "set" :: ks) => do
      let ks ← ks.mapM parse
      pure (.map (ks.map fun k => (k, .unit)))
  | .list [.atom "succ", v] => do pure (.succ (← parse v))
  | .list [.atom "fail", e] => do pure (.fail (← e.asInt?))
  | .list [.atom "dual", v] => do pure (.dual (← parse v))
  | .list (.atom "fn" :: cs) => do
      let cs ← cs.mapM fun c => match c with
        | .list [a, b] => do pure (← a.asInt?, ← b.asInt?)
        | _ => Option.none
      pure (.fn cs)
  | .list [.atom "eval", v] => do pure (.eval (← parse v))
  | .list [.atom "time", i, z] => do pure (.time (← i.asInt?) (← z.asInt?))
  | .list (.atom "bytes" :: bs) => do pure (.bytes (← bs.mapM Sexp.asNat?))
  | _ => Option.none

-- projections (total; a value of the wrong shape projects to a default) ---------------------------

def asInt64 : V → Int64
  | .int n => Int64.ofInt n
  | _ => 0
def ofInt64 (n : Int64) : V := .int n.toInt
def asBool : V → Bool
  | .bool b => b
  | _ => false
def asStr : V → String
  | .str s => s
  | _ => ""
def asOption : V → Option V
  | .some v => Option.some v
  | _ => Option.none
def ofOption : Option V → V
  | Option.some v => .some v
  | Option.none => .none
def asSeq : V → List V
  | .seq xs => xs
  | _ => []
def asPtr : V → Ptr V
  | .ptr a v => Option.some ⟨a, v⟩
  | _ => Option.none
def ofPtr : Ptr V → V
  | Option.some r => .ptr r.addr r.val
  | Option.none => .nil
def asTup : V → List V
  | .tup xs => xs
  | _ => []
def asHl : V → List V
  | .hl xs => xs
  | _ => []
def asMap : V → List (V × V)
  | .map kvs => kvs
  | _ => []
def asDual : V → V
  | .dual v => v
  | v => v
def asEval : V → V
  | .eval v => v
  | v => v
def asTime : V → TimeV
  | .time i z => ⟨i, z⟩
  | _ => ⟨0, 0⟩
def asBytes : V → List UInt8
  | .bytes bs => bs.map UInt8.ofNat
  | _ => []

/-- the test domain on which functions (Endo) are compared -/
def fnDomain : List Int64 := [-2, -1, 0, 1, 2, 3]

def asEndo : V → Endo Int64
  | .fn cs => cs.foldr (fun c g => fun x => Int64.ofInt c.1 * g x + Int64.ofInt c.2) id
  | _ => id

def ofEndo (f : Endo Int64) : V := .fnTab (fnDomain.map fun x => (f x).toInt)

end V
end FpVerif.TC
