import FpVerif.Model.HamtHeap
/-!
# Branching histories over the heap model (C04)

A `World` is one heap together with EVERY trie-backed collection ever handed out (`vers`: the `*hamt`
of each `fp.Map` / `fp.Set`, never forgotten) and the builders in use.  An `Op` is one call of the
library on any of those versions (a branching history: every step may pick any older version), or one
call on a builder.  The composite operations are what the `fp.Map` / `fp.Set` wrapper methods do on a
trie-backed receiver (`hamtConcat` = `Map.Concat` / `Set.Concat`, `hamtUpdatedWith` = `Map.UpdatedWith`,
`hamtFilterInto` = `Set.Diff` / `Set.Intersect`; `Incl` = `Updated(v, true)`, `Excl` = `Removed(v)`).
For sets `V = Bool` and the value stored is `true` (`tt`).
-/
namespace FpVerif.HamtHeap
open FpVerif.Hamt
variable {K V : Type}

/-- `Map.Concat(other)` / `Set.Concat(other)` on a trie-backed receiver: `ret = ret.Updated(k, v)` per element -/
def hamtConcat (h : Hasher K) (m : Addr) (kvs : List (K × V)) : HM K V Addr :=
  kvs.foldlM (fun ret kv => hamtUpdated h ret kv.1 kv.2) m

/-- `Map.UpdatedWith(k, remap)` on a trie-backed receiver -/
def hamtUpdatedWith (h : Hasher K) (m : Addr) (k : K) (remap : Option V → Option V) : HM K V Addr := do
  let v ← liftE ((← readHamt m).get h k)
  match remap v with
  | some x => hamtUpdated h m k x
  | none => if v.isSome then hamtRemoved h m [k] else pure m

/-- the loop of `Set.Diff` (`neg = true`) / `Set.Intersect` (`neg = false`): starting from a NEW empty
    trie (`r.empty()`), `Incl` every element of `mi` that is not / is contained in `mj` -/
def hamtFilterInto (h : Hasher K) (mi mj : Addr) (neg : Bool) (tt : V) : HM K V Addr := do
  let es ← liftE (← readHamt mi).iterList
  let m0 ← hamtNew
  es.foldlM (fun ret e => do
    let c ← liftE ((← readHamt mj).get h e.1)
    if c.isSome != neg then hamtUpdated h ret e.1 tt else pure ret) m0

/-- one heap, every collection ever handed out, the builders in use (+ ghost: the cells each builder
    allocated itself) -/
structure World (K V : Type) where
  heap : Heap K V := #[]
  vers : List Addr := []
  mb : Option HMapBuilder := none
  sb : Option HSetBuilder := none
  mbOwned : List Addr := []
  sbOwned : List Addr := []

/-- the addresses allocated between two heaps -/
def freshOf (H H' : Heap K V) : List Addr := List.range' H.size (H'.size - H.size)

inductive Op (K V : Type) where
  /-- `immutable.Map(hasher)` / `SetMinimal(hasher)`: a new empty collection -/
  | empty
  /-- `immutable.Map(hasher, t...)` / `immutable.Set(hasher, v...)` -/
  | ofList (t : List (K × V))
  /-- `vers[i].Updated(k, v)` / `Incl(k)` -/
  | updated (i : Nat) (k : K) (v : V)
  /-- `vers[i].Removed(k...)` / `Excl(k)` -/
  | removed (i : Nat) (ks : List K)
  | updatedWith (i : Nat) (k : K) (remap : Option V → Option V)
  | concat (i : Nat) (kvs : List (K × V))
  /-- `vers[i].Diff(vers[j])` -/
  | diff (i j : Nat) (tt : V)
  /-- `vers[i].Intersect(vers[j])` -/
  | intersect (i j : Nat) (tt : V)
  | mbNew
  | mbAdd (k : K) (v : V)
  | mbBuild
  | sbNew
  | sbAdd (k : K) (tt : V)
  | sbBuild

/-- run a library call that returns a new collection and record that collection -/
def World.call (W : World K V) (x : HM K V Addr) : Except String (World K V) :=
  match x W.heap with
  | .ok (m, H) => .ok { W with heap := H, vers := W.vers ++ [m] }
  | .error e => .error e

def World.ver (W : World K V) (i : Nat) : Except String Addr :=
  match W.vers[i]? with
  | some m => .ok m
  | none => .error "model: no such version"

/-- one step of a history; `.error` = the call panicked (the world is then left as it was, see `run`) -/
def World.step (h : Hasher K) (W : World K V) : Op K V → Except String (World K V)
  | .empty => W.call hamtNew
  | .ofList t => W.call (hamtOfList h t)
  | .updated i k v => do W.call (hamtUpdated h (← W.ver i) k v)
  | .removed i ks => do W.call (hamtRemoved h (← W.ver i) ks)
  | .updatedWith i k remap => do W.call (hamtUpdatedWith h (← W.ver i) k remap)
  | .concat i kvs => do W.call (hamtConcat h (← W.ver i) kvs)
  | .diff i j tt => do W.call (hamtFilterInto h (← W.ver i) (← W.ver j) true tt)
  | .intersect i j tt => do W.call (hamtFilterInto h (← W.ver i) (← W.ver j) false tt)
  | .mbNew =>
    match (HMapBuilder.new : HM K V HMapBuilder) W.heap with
    | .ok (b, H) => .ok { W with heap := H, mb := some b, mbOwned := freshOf W.heap H }
    | .error e => .error e
  | .mbAdd k v =>
    match W.mb with
    | none => .error "model: no builder"
    | some b =>
      match b.add h k v W.heap with
      | .ok (b', H) => .ok { W with heap := H, mb := some b', mbOwned := W.mbOwned ++ freshOf W.heap H }
      | .error e => .error e
  | .mbBuild =>
    match W.mb with
    | none => .error "model: no builder"
    | some b =>
      match b.build W.heap with
      | .ok ((m, b'), H) => .ok { W with heap := H, mb := some b', vers := W.vers ++ [m] }
      | .error e => .error e
  | .sbNew =>
    match (HSetBuilder.new : HM K V HSetBuilder) W.heap with
    | .ok (b, H) => .ok { W with heap := H, sb := some b, sbOwned := freshOf W.heap H }
    | .error e => .error e
  | .sbAdd k tt =>
    match W.sb with
    | none => .error "model: no builder"
    | some b =>
      match b.add h k tt W.heap with
      | .ok (b', H) => .ok { W with heap := H, sb := some b', sbOwned := W.sbOwned ++ freshOf W.heap H }
      | .error e => .error e
  | .sbBuild =>
    match W.sb with
    | none => .error "model: no builder"
    | some b => .ok { W with sb := some b.build.2, vers := W.vers ++ [b.build.1] }

/-- a step whose call panics (use of an invalidated MapBuilder, a version that does not exist) leaves
    the world unchanged, as a recovered panic does -/
def World.stepSkip (h : Hasher K) (W : World K V) (op : Op K V) : World K V :=
  match W.step h op with
  | .ok W' => W'
  | .error _ => W

/-- a whole history -/
def World.run (h : Hasher K) (ops : List (Op K V)) (W : World K V) : World K V :=
  ops.foldl (World.stepSkip h) W

/-- what version `i` shows in the current heap -/
def World.absV (W : World K V) (i : Nat) : Option (Hamt K V) :=
  match W.vers[i]? with
  | some m => (absHamt W.heap m).map (·.1)
  | none => none

/-- `(*setBuilder).Add` as it was before commit 5a0c6c4, as a history step (for the negative result) -/
def World.sbAddOld (h : Hasher K) (W : World K V) (k : K) (tt : V) : Except String (World K V) :=
  match W.sb with
  | none => .error "model: no builder"
  | some b =>
    match b.addOld h k tt W.heap with
    | .ok (b', H) => .ok { W with heap := H, sb := some b' }
    | .error e => .error e

-- concrete worlds used as witnesses in Spec/C04Hamt.lean -----------------------------------------------

/-- identity hasher on `Nat` (lawful, see below) -/
def natHasher : Hasher Nat := ⟨fun k => UInt32.ofNat k, fun a b => a == b⟩

/-- `b := SetBuilder(h); s := b.Build()` -/
def builtEmpty : World Nat Bool := World.run natHasher [.sbNew, .sbBuild] {}

/-- `b := SetBuilder(h); b.Add(1); b.Add(2); s := b.Build(); t := s.Incl(3)` -/
def builtTwo : World Nat Bool :=
  World.run natHasher [.sbNew, .sbAdd 1 true, .sbAdd 2 true, .sbBuild, .updated 0 3 true] {}

/-- a branching history with real sharing: 20 insertions (array node expanded into a trie), two
    branches from version 19, deletions, a Diff; every intermediate version is kept -/
def sampleHistory : List (Op Nat Bool) :=
  (List.range 20).map (fun i => if i = 0 then Op.ofList [(0, true)] else Op.updated (i - 1) (i * 37 % 101) true) ++
  [.updated 19 500 true, .removed 19 [37, 74], .diff 20 21 true, .mbNew, .mbAdd 1 true, .mbAdd 33 true, .mbBuild,
   .mbAdd 2 true, .updated 23 65 true]


end FpVerif.HamtHeap
