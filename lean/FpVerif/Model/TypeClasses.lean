/-!
# Model of the type-class dictionaries of csgura/fp

* `typeclass.go`   : `fp.Eq`, `fp.Hashable`, `fp.Ord` (with its two implementations `CompareFunc`
                     and `LessFunc`), `fp.Monoid`, `fp.Semigroup`
* `eq/eq_op.go`, `eq/tuple_gen.go`
* `hash/hash_op.go`, `hash/tuple_gen.go`
* `ord/ord_op.go`, `ord/tuple_gen.go`
* `monoid.go`, `monoid/monoid_op.go`, `monoid/tuple_gen.go`, `semigroup/semigroup.go`
* `Reduce`/`FoldMap`/`Sort`/`Min`/`Max` of `seq/seq_op.go`, `iterator/iterator_op.go`, `list/list_op.go`

A Go interface value `fp.Eq[T]` is a dictionary `EqD α`; every combinator is the function on
dictionaries of the same name and has the same comparison order and the same short-circuits as
the Go code.  All instance code is pure (no callbacks that log or panic), hence no `GoM`.

Representation of Go types:

| Go                         | Lean                                                        |
|----------------------------|-------------------------------------------------------------|
| `fp.Seq[T]`, `[]T`         | `List α` (a nil slice and an empty slice are the same value) |
| `*T`                       | `Ptr α = Option (Ref α)`, `Ref` = address id + target        |
| `fp.Option[T]`             | `Option α`                                                  |
| `fp.Tuple1[A]`             | `T1 α`                                                      |
| `fp.TupleN[A1..AN]`        | `α₁ × TupleN-1` (the generated code recurses on `Tail()`)    |
| `hlist.Cons[H,T]`/`Nil`    | `α × τ` / `Unit`                                            |
| `map[K]V`, `fp.Map[K,V]`   | `GoMap κ ν` : association list with distinct keys            |
| `lazy.Eval[T]`             | `Unit → α` (what `Get` returns; faithfulness of the trampoline is C16) |
| `fp.Try[T]`                | `TryV α` (success / failure with a non-nil error)            |
| Go `int`                   | the carrier is a parameter: `Int` or `Int64` (wrap-around)   |

Where the library has a defect w.r.t. the property (rule 5) the model follows the PROPERTY and the
code as it stands is kept next to it under the name `…AsIs`, with a refutation in the Spec file.
-/
namespace FpVerif.TC

variable {α β γ τ κ ν : Type}

/-- `fp.Tuple1[A]` -/
structure T1 (α : Type) where
  i1 : α
  deriving DecidableEq, Repr

/-- the target of a non-nil pointer together with an identity for the pointer itself -/
structure Ref (α : Type) where
  addr : Nat
  val : α
  deriving DecidableEq, Repr

/-- `*T` : `none` is the nil pointer -/
abbrev Ptr (α : Type) := Option (Ref α)

/-- `fp.Try[T]` restricted to properly initialised values (`Success(v)` / `Failure(err)`, err ≠ nil) -/
inductive TryV (α : Type) where
  | success (v : α)
  | failure (e : Int)
  deriving DecidableEq, Repr

/-- `time.Time` : an instant (nanoseconds) and a location; `Equal`/`Compare` look at the instant only -/
structure TimeV where
  instant : Int
  zone : Int
  deriving DecidableEq, Repr

/-- `lazy.Eval[T]`, observed through `Get` -/
abbrev Eval (α : Type) := Unit → α

def Eval.done (a : α) : Eval α := fun _ => a
def Eval.get (e : Eval α) : α := e ()
/-- `Eval.Map(f)` -/
def Eval.map (e : Eval α) (f : α → α) : Eval α := fun _ => f (e ())
/-- `lazy.Map2(a,b,f)` -/
def Eval.map2 (a b : Eval α) (f : α → α → α) : Eval α := fun _ => f (a ()) (b ())
/-- `lazy.TailCall(f)` -/
def Eval.tailCall (f : Unit → Eval α) : Eval α := fun _ => (f ()) ()

-- ================================================================================ Go maps

/-- `m[k]` as a lookup in an association list -/
def lookup [DecidableEq κ] (k : κ) : List (κ × ν) → Option ν
  | [] => none
  | (k', v) :: rest => if k = k' then some v else lookup k rest

/-- A Go `map[K]V` (and the abstract content of an `fp.Map[K,V]`, see C03): distinct keys, listed in
    some iteration order. -/
structure GoMap (κ ν : Type) where
  entries : List (κ × ν)
  nodup : (entries.map Prod.fst).Nodup

namespace GoMap
variable [DecidableEq κ]

def empty : GoMap κ ν := ⟨[], by simp⟩

def get (m : GoMap κ ν) (k : κ) : Option ν := lookup k m.entries

def size (m : GoMap κ ν) : Nat := m.entries.length

def eraseKey (k : κ) : List (κ × ν) → List (κ × ν)
  | [] => []
  | (k', v) :: rest => if k = k' then rest else (k', v) :: eraseKey k rest

theorem mem_eraseKey_keys {k x : κ} {l : List (κ × ν)} (h : x ∈ (eraseKey k l).map Prod.fst) :
    x ∈ l.map Prod.fst := by
  induction l with
  | nil => simp [eraseKey] at h
  | cons p rest ih =>
    obtain ⟨k', v⟩ := p
    simp only [eraseKey] at h
    split at h
    · simp only [List.map_cons, List.mem_cons]; right; exact h
    · simp only [List.map_cons, List.mem_cons] at h ⊢
      rcases h with h | h
      · left; exact h
      · right; exact ih h

theorem nodup_eraseKey {k : κ} {l : List (κ × ν)} (h : (l.map Prod.fst).Nodup) :
    ((eraseKey k l).map Prod.fst).Nodup := by
  induction l with
  | nil => simp [eraseKey]
  | cons p rest ih =>
    obtain ⟨k', v⟩ := p
    simp only [List.map_cons, List.nodup_cons] at h
    simp only [eraseKey]
    split
    · exact h.2
    · simp only [List.map_cons, List.nodup_cons]
      exact ⟨fun hm => h.1 (mem_eraseKey_keys hm), ih h.2⟩

theorem not_mem_eraseKey {k : κ} {l : List (κ × ν)} (h : (l.map Prod.fst).Nodup) :
    k ∉ (eraseKey k l).map Prod.fst := by
  induction l with
  | nil => simp [eraseKey]
  | cons p rest ih =>
    obtain ⟨k', v⟩ := p
    simp only [List.map_cons, List.nodup_cons] at h
    simp only [eraseKey]
    split
    · rename_i heq; subst heq; exact h.1
    · rename_i hne
      simp only [List.map_cons, List.mem_cons, not_or]
      exact ⟨hne, ih h.2⟩

/-- `m[k] = v` : an existing key keeps its place in the iteration order, a new one goes somewhere
    (here: to the front; no result depends on the order). -/
def insert (m : GoMap κ ν) (k : κ) (v : ν) : GoMap κ ν :=
  ⟨(k, v) :: eraseKey k m.entries, by
    simp only [List.map_cons, List.nodup_cons]
    exact ⟨not_mem_eraseKey m.nodup, nodup_eraseKey m.nodup⟩⟩

def ofList (l : List (κ × ν)) : GoMap κ ν :=
  l.foldl (fun m kv => m.insert kv.1 kv.2) empty

end GoMap

-- ================================================================================ fp.Eq

/-- `fp.Eq[T]` -/
structure EqD (α : Type) where
  eqv : α → α → Bool

namespace EqD

/-- `eq.New` -/
def new (f : α → α → Bool) : EqD α := ⟨f⟩

/-- `fp.EqGiven` / `eq.Given` : Go's `==` on a comparable type -/
def given [DecidableEq α] : EqD α := ⟨fun a b => decide (a = b)⟩

/-- `eq.Tuple1` -/
def tuple1 (a : EqD α) : EqD (T1 α) :=
  new fun t1 t2 => a.eqv t1.i1 t2.i1

/-- `eq.Option` -/
def option (eq : EqD α) : EqD (Option α) :=
  ⟨fun t1 t2 =>
    match t1, t2 with
    | none, none => true
    | some a, some b => eq.eqv a b
    | _, _ => false⟩

/-- the `for i := range a` loop of `eq.Seq` (sizes already known to be equal) -/
def seqLoop (eq : EqD α) : List α → List α → Bool
  | a :: as, b :: bs => if !eq.eqv a b then false else seqLoop eq as bs
  | _, _ => true

/-- `eq.Seq` -/
def seq (eq : EqD α) : EqD (List α) :=
  new fun a b => if a.length != b.length then false else seqLoop eq a b

/-- `eq.ContraMap` -/
def contraMap (inst : EqD β) (fn : α → β) : EqD α :=
  new fun a b => inst.eqv (fn a) (fn b)

/-- `eq.Slice` = `ContraMap(Seq(eq), as.Seq)` -/
def slice (eq : EqD α) : EqD (List α) := contraMap (seq eq) id

/-- `eq.HNil` -/
def hnil : EqD Unit := given

/-- `eq.HCons` -/
def hcons (heq : EqD α) (teq : EqD τ) : EqD (α × τ) :=
  new fun a b => heq.eqv a.1 b.1 && teq.eqv a.2 b.2

/-- `eq.Ptr` : the element instance is lazy -/
def ptr (eq : Unit → EqD α) : EqD (Ptr α) :=
  new fun a b =>
    match a, b with
    | none, none => true
    | some ra, some rb => (eq ()).eqv ra.val rb.val
    | _, _ => false

/-- `eq.PtrGiven` -/
def ptrGiven [DecidableEq α] : EqD (Ptr α) := ptr (fun _ => given)

/-- `eq.TupleN` for N ≥ 2 : `ins1.Eqv(t1.I1, t2.I1) && pt.Eqv(as.TupleN-1(t1.Tail()), …)` -/
def tupleN (ins1 : EqD α) (pt : EqD τ) : EqD (α × τ) :=
  new fun t1 t2 => ins1.eqv t1.1 t2.1 && pt.eqv t1.2 t2.2

/-- `eq.GoMap` : equal sizes and every entry of `a` present in `b` with an equivalent value.
    `for k, av := range a` visits the entries in the (arbitrary) iteration order. -/
def goMap [DecidableEq κ] (eqV : EqD ν) : EqD (GoMap κ ν) :=
  new fun a b =>
    if a.size != b.size then false
    else a.entries.all fun kv =>
      match b.get kv.1 with
      | none => false
      | some bv => eqV.eqv kv.2 bv

/-- `eq.FpMap` : the same algorithm over `Size`, `Iterator().ForAll`, `Get`. -/
def fpMap [DecidableEq κ] (eqV : EqD ν) : EqD (GoMap κ ν) :=
  new fun a b =>
    if a.size != b.size then false
    else a.entries.all fun v =>
      match b.get v.1 with
      | none => false
      | some bv => eqV.eqv v.2 bv

/-- `eq.Bytes` = `bytes.Equal` -/
def bytes : EqD (List UInt8) := new fun a b => decide (a = b)

/-- `eq.Time` = `time.Time.Equal` : same instant, whatever the location -/
def time : EqD TimeV := new fun a b => decide (a.instant = b.instant)

end EqD

-- ================================================================================ fp.Hashable

/-- `hash.hasher[T]{Eq, f}` -/
structure HashD (α : Type) where
  toEq : EqD α
  f : α → UInt32

/-- `class`-free rendering of `hlist.IsNil[T]` : decided by the static tail type. -/
class HListT (τ : Type) where
  isNil : Bool

instance : HListT Unit := ⟨true⟩
instance {α τ : Type} : HListT (α × τ) := ⟨false⟩

namespace HashD

def eqv (h : HashD α) : α → α → Bool := h.toEq.eqv
def hash (h : HashD α) : α → UInt32 := h.f

/-- `hash.New` -/
def new (eq : EqD α) (f : α → UInt32) : HashD α := ⟨eq, f⟩

/-- the loop of `hashUint64` -/
def hashUint64Loop (value hash : UInt64) : UInt64 :=
  if value > 0xffffffff then
    let value' := value / 0xffffffff
    hashUint64Loop value' (hash ^^^ value')
  else hash
termination_by value.toNat
decreasing_by
  rename_i h
  have h1 : (0xffffffff : UInt64).toNat < value.toNat := UInt64.lt_iff_toNat_lt.mp h
  rw [UInt64.toNat_div]
  have h2 : (0xffffffff : UInt64).toNat = 4294967295 := by decide
  rw [h2] at h1 ⊢
  exact Nat.div_lt_self (by omega) (by omega)

/-- `hashUint64` -/
def hashUint64 (value : UInt64) : UInt32 :=
  (hashUint64Loop value value).toUInt32

/-- `hash.Number[int]` : `hashUint64(uint64(key))` -/
def numberInt : HashD Int :=
  new EqD.given fun key => hashUint64 (UInt64.ofInt key)

/-- `hash.Number[int]` over wrap-around machine integers -/
def numberInt64 : HashD Int64 :=
  new EqD.given fun key => hashUint64 key.toUInt64

def prime32 : UInt32 := 16777619
def offset32 : UInt32 := 2166136261

/-- FNV-1 over a byte sequence: `hash *= prime32; hash ^= b` from `offset32` (both `hash.String`
    and `fnv.New32`, which `hash.Bytes` uses). -/
def fnv1 (bs : List UInt8) : UInt32 :=
  bs.foldl (fun h b => (h * prime32) ^^^ b.toUInt32) offset32

/-- `hash.String` -/
def string : HashD String :=
  new EqD.given fun value => fnv1 value.toUTF8.toList

/-- `hash.Bytes` -/
def bytes : HashD (List UInt8) := new EqD.bytes fnv1

/-- `hash.Tuple1` -/
def tuple1 (ins1 : HashD α) : HashD (T1 α) :=
  new (EqD.tuple1 ins1.toEq) fun t => ins1.hash t.i1

/-- `hash.HNil` -/
def hnil : HashD Unit := new EqD.hnil fun _ => 0

/-- `hash.HCons` -/
def hcons [HListT τ] (heq : HashD α) (teq : HashD τ) : HashD (α × τ) :=
  new (EqD.hcons heq.toEq teq.toEq) fun a =>
    if HListT.isNil τ then heq.hash a.1
    else heq.hash a.1 * 31 + teq.hash a.2

/-- `hash.Seq` -/
def seq (hashT : HashD α) : HashD (List α) :=
  new (EqD.seq hashT.toEq) fun a =>
    a.foldl (fun h t => h * 31 + hashT.hash t) 0

/-- `hash.ContraMap` -/
def contraMap (teq : HashD β) (fn : α → β) : HashD α :=
  new (EqD.contraMap teq.toEq fn) fun a => teq.hash (fn a)

/-- `hash.Slice` -/
def slice (hashT : HashD α) : HashD (List α) := contraMap (seq hashT) id

/-- `hash.Ptr` -/
def ptr (hashT : Unit → HashD α) : HashD (Ptr α) :=
  new (EqD.ptr fun _ => (hashT ()).toEq) fun a =>
    match a with
    | none => 0
    | some r => (hashT ()).hash r.val

/-- `hash.Option` -/
def option (hashT : HashD α) : HashD (Option α) :=
  new (EqD.option hashT.toEq) fun a =>
    match a with
    | none => 0
    | some v => hashT.hash v

/-- `hash.TupleN` for N ≥ 2 -/
def tupleN (ins1 : HashD α) (pt : HashD τ) : HashD (α × τ) :=
  new (EqD.new fun a b => ins1.eqv a.1 b.1 && pt.eqv a.2 b.2) fun t =>
    ins1.hash t.1 * 31 + pt.hash t.2

end HashD

-- ================================================================================ fp.Ord

/-- `fp.Ord[T]` has exactly two implementations in the library: `CompareFunc` and `LessFunc`
    (typeclass.go); every constructor of the ord package returns one of them. -/
inductive OrdD (α : Type) where
  | compareFunc (r : α → α → Int)
  | lessFunc (r : α → α → Bool)

namespace OrdD

def compare : OrdD α → α → α → Int
  | compareFunc r, a, b => r a b
  | lessFunc r, a, b => if r a b then -1 else if r b a then 1 else 0

def eqv (o : OrdD α) (a b : α) : Bool := o.compare a b == 0

def less : OrdD α → α → α → Bool
  | compareFunc r, a, b => decide (r a b < 0)
  | lessFunc r, a, b => r a b

def lessEq (o : OrdD α) (a b : α) : Bool := decide (o.compare a b ≤ 0)

def max : OrdD α → α → α → α
  | compareFunc r, a, b => if r a b < 0 then b else a
  | lessFunc r, a, b => if r a b then b else a

def min : OrdD α → α → α → α
  | compareFunc r, a, b => if r a b < 0 then a else b
  | lessFunc r, a, b => if r a b then a else b

/-- both implementations return the same `CompareFunc` -/
def thenComparing (r other : OrdD α) : OrdD α :=
  compareFunc fun a b =>
    let res := r.compare a b
    if res == 0 then other.compare a b else res

/-- `CompareFunc.Reversed` after fix (session 6): `r.Compare(b, a)` - not the negation of `r.Compare(a, b)`, which overflows at
    `math.MinInt` in Go (the model's `Int` is unbounded, so the two agree HERE for every antisymmetric compare function:
    `Spec/C10.reversed_compare_neg`).  `LessFunc.Reversed` still negates (its `Compare` is -1 / 0 / 1). -/
def reversed : OrdD α → OrdD α
  | compareFunc r => compareFunc fun a b => r b a
  | lessFunc r => compareFunc fun a b => - (lessFunc r).compare a b

/-- an `fp.Ord` used where an `fp.Eq` is expected -/
def toEq (o : OrdD α) : EqD α := ⟨o.eqv⟩

/-- `ord.FromCompare` -/
def fromCompare (cmp : α → α → Int) : OrdD α := compareFunc cmp

/-- `as.Ord` -/
def asOrd (less : α → α → Bool) : OrdD α := lessFunc less

/-- `ord.New(eqv, less)` : `less` is an `fp.LessFunc`, its `Compare` is used. -/
def new (eqv : EqD α) (less : α → α → Bool) : OrdD α :=
  compareFunc fun a b =>
    if eqv.eqv a b then 0 else (lessFunc less).compare a b

/-- `fp.LessGiven` / `ord.Given` -/
def given [LT α] [DecidableRel (α := α) (· < ·)] : OrdD α :=
  compareFunc fun a b => if a < b then -1 else if b < a then 1 else 0

/-- `ord.Time` = `FromCompare(time.Time.Compare)` -/
def time : OrdD TimeV :=
  fromCompare fun a b => if a.instant < b.instant then -1 else if b.instant < a.instant then 1 else 0

/-- `ord.Tuple1` -/
def tuple1 (a : OrdD α) : OrdD (T1 α) :=
  new ⟨fun t1 t2 => a.eqv t1.i1 t2.i1⟩ fun t1 t2 => a.less t1.i1 t2.i1

/-- `option.Map2(t1, t2, f).OrElse(d)` -/
def map2OrElse (t1 t2 : Option α) (f : α → α → Bool) (d : Bool) : Bool :=
  match t1, t2 with
  | some a, some b => f a b
  | _, _ => d

/-- `ord.Option` : `None` first -/
def option (m : OrdD α) : OrdD (Option α) :=
  lessFunc fun t1 t2 =>
    if !t1.isSome && !t2.isSome then false
    else map2OrElse t1 t2 m.less t1.isNone

/-- The less-function of `ord.Seq` as the property demands (lexicographic): the loop over the common
    prefix decides at the first position where the elements are not equivalent, then the sizes. -/
def seqLess (ord : OrdD α) : List α → List α → Bool
  | a :: as, b :: bs =>
    if ord.less a b then true
    else if ord.less b a then false
    else seqLess ord as bs
  | as, bs => decide (as.length < bs.length)

/-- The less-function of `ord.Seq` AS IT STANDS in ord_op.go: the loop has no
    `if ord.Less(b[i], a[i]) { return false }`. -/
def seqLessAsIs (ord : OrdD α) : List α → List α → Bool
  | a :: as, b :: bs =>
    if ord.less a b then true
    else seqLessAsIs ord as bs
  | as, bs => decide (as.length < bs.length)

/-- `ord.Seq` -/
def seq (ord : OrdD α) : OrdD (List α) :=
  new (EqD.seq ord.toEq) (seqLess ord)

def seqAsIs (ord : OrdD α) : OrdD (List α) :=
  new (EqD.seq ord.toEq) (seqLessAsIs ord)

/-- `ord.ContraMap` -/
def contraMap (inst : OrdD β) (fn : α → β) : OrdD α :=
  new (EqD.contraMap inst.toEq fn) fun a b => inst.less (fn a) (fn b)

/-- `ord.Slice` -/
def slice (ord : OrdD α) : OrdD (List α) := contraMap (seq ord) id

/-- `ord.GivenField` -/
def givenField [LT β] [DecidableRel (α := β) (· < ·)] (getter : α → β) : OrdD α :=
  contraMap given getter

/-- `ord.HNil` -/
def hnil : OrdD Unit := new EqD.given fun _ _ => false

/-- `ord.HCons` -/
def hcons (heq : OrdD α) (teq : OrdD τ) : OrdD (α × τ) :=
  new (EqD.hcons heq.toEq teq.toEq) fun a b =>
    if heq.less a.1 b.1 then true
    else if heq.less b.1 a.1 then false
    else teq.less a.2 b.2

/-- `ord.Ptr` : nil first -/
def ptr (ordT : Unit → OrdD α) : OrdD (Ptr α) :=
  new (EqD.ptr fun _ => (ordT ()).toEq) fun a b =>
    match a, b with
    | some ra, some rb => (ordT ()).less ra.val rb.val
    | none, none => false
    | a, _ => a.isNone

/-- `ord.TupleN` for N ≥ 2 -/
def tupleN (ins1 : OrdD α) (pt : OrdD τ) : OrdD (α × τ) :=
  new (EqD.new fun a b => ins1.eqv a.1 b.1 && pt.eqv a.2 b.2) fun t1 t2 =>
    if ins1.less t1.1 t2.1 then true
    else if ins1.less t2.1 t1.1 then false
    else pt.less t1.2 t2.2

end OrdD

-- -------------------------------------------------------------------------------- Sort / Min / Max

/-- `sort.Sort(&seqSorter{s, ord})` : the standard library's sort is a parameter (trusted to return
    a sorted permutation when handed a strict weak order; see `SortSpec` in Spec/C10). It only sees the
    `Less` of the instance, as `seqSorter.Less` does. -/
abbrev SortImpl (α : Type) := (α → α → Bool) → List α → List α

/-- `seq.Sort` : sorts a copy (`r.Concat(nil)` is meant to copy; that it does not is C04's D2) -/
def seqSort (sortImpl : SortImpl α) (r : List α) (ord : OrdD α) : List α :=
  let ns := r
  sortImpl ord.less ns

/-- `iterator.Sort` : `r.ToSeq()` then sort; the iterator is seen as the list it yields -/
def iteratorSort (sortImpl : SortImpl α) (r : List α) (ord : OrdD α) : List α :=
  let s := r
  sortImpl ord.less s

/-- `list.Sort` -/
def listSort (sortImpl : SortImpl α) (r : List α) (ord : OrdD α) : List α :=
  let s := r
  sortImpl ord.less s

/-- the folding step of `Min` (seq, iterator and list have the same text) -/
def minStep (ord : OrdD α) (min : Option α) (v : α) : Option α :=
  match min with
  | some m => if ord.less m v then some m else some v
  | none => some v

def maxStep (ord : OrdD α) (max : Option α) (v : α) : Option α :=
  match max with
  | some m => if ord.less v m then some m else some v
  | none => some v

/-- `seq.Min`, `iterator.Min`, `list.Min` : `Fold(r, None, step)` -/
def foldMin (r : List α) (ord : OrdD α) : Option α := r.foldl (minStep ord) none
def foldMax (r : List α) (ord : OrdD α) : Option α := r.foldl (maxStep ord) none

-- ================================================================================ Semigroup / Monoid

/-- `fp.Semigroup[T]` -/
structure SemigroupD (α : Type) where
  combine : α → α → α

/-- `fp.Monoid[T]` -/
structure MonoidD (α : Type) where
  empty : α
  combine : α → α → α

def MonoidD.toSemigroup (m : MonoidD α) : SemigroupD α := ⟨m.combine⟩

/-- `fp.Endo[T]` -/
abbrev Endo (α : Type) := α → α

/-- `fp.Dual[T]` -/
structure Dual (α : Type) where
  getDual : α
  deriving DecidableEq, Repr

/-- The arithmetic of a Go numeric type as far as the instances use it: zero value, `1`, `+`, `*`. -/
class GoNum (α : Type) where
  zero : α
  one : α
  add : α → α → α
  mul : α → α → α

instance : GoNum Int := ⟨0, 1, (· + ·), (· * ·)⟩
/-- Go `int`/`int64` : two's complement wrap-around -/
instance : GoNum Int64 := ⟨0, 1, (· + ·), (· * ·)⟩

namespace SemigroupD

/-- `semigroup.New` -/
def new (fn : α → α → α) : SemigroupD α := ⟨fn⟩

/-- `semigroup.Sum` -/
def sum [GoNum α] : SemigroupD α := new fun a b => GoNum.add a b

/-- `semigroup.Product` -/
def product [GoNum α] : SemigroupD α := new fun a b => GoNum.mul a b

/-- `semigroup.Endo` : `fp.Compose(b, a)` = first `b`, then `a` -/
def endo : SemigroupD (Endo α) := new fun a b => fun x => a (b x)

/-- `semigroup.Dual` -/
def dual (sg : SemigroupD α) : SemigroupD (Dual α) :=
  new fun a b => ⟨sg.combine b.getDual a.getDual⟩

/-- `semigroup.Eval` -/
def eval (sg : SemigroupD α) : SemigroupD (Eval α) :=
  new fun a b => Eval.map2 a b sg.combine

/-- `semigroup.Any` -/
def any : SemigroupD Bool := ⟨fun a b => a || b⟩

/-- `semigroup.All` as the property demands: conjunction -/
def all : SemigroupD Bool := ⟨fun a b => a && b⟩

/-- `semigroup.All` AS IT STANDS in semigroup.go: `a || b` -/
def allAsIs : SemigroupD Bool := ⟨fun a b => a || b⟩

/-- `semigroup.IMap` -/
def imap (inst : SemigroupD α) (fab : α → β) (fba : β → α) : SemigroupD β :=
  new fun a b => fab (inst.combine (fba a) (fba b))

/-- `semigroup.Ptr` (pointers up to their target: the result of combining two non-nil pointers is
    a fresh pointer) -/
def ptr (sgT : Unit → SemigroupD α) : SemigroupD (Option α) :=
  new fun a b =>
    match a, b with
    | some x, some y => some ((sgT ()).combine x y)
    | none, b => b
    | a, _ => a

/-- `semigroup.Option` -/
def option (sg : SemigroupD α) : SemigroupD (Option α) :=
  new fun a b =>
    match a, b with
    | some x, some y => some (sg.combine x y)
    | none, b => b
    | a, _ => a

end SemigroupD

namespace MonoidD

/-- `monoid.New` -/
def new (zero : Unit → α) (combine : α → α → α) : MonoidD α := ⟨zero (), combine⟩

/-- `fp.SemigroupFunc[T]` used as a monoid: `Empty()` is the zero value of `T` -/
def ofSemigroupFunc (zero : α) (r : α → α → α) : MonoidD α := ⟨zero, r⟩

/-- `monoid.String` -/
def string : MonoidD String := new (fun _ => "") fun a b => a ++ b

/-- `monoid.Sum` and `fp.Sum` (same text) -/
def sum [GoNum α] : MonoidD α := ofSemigroupFunc GoNum.zero fun a b => GoNum.add a b

/-- `monoid.Sum[string]` (`ImplicitOrd` admits strings) -/
def sumString : MonoidD String := ofSemigroupFunc "" fun a b => a ++ b

/-- `monoid.Product` and `fp.Product` -/
def product [GoNum α] : MonoidD α := new (fun _ => GoNum.one) fun a b => GoNum.mul a b

/-- `option.Map2` -/
def optionMap2 (a b : Option α) (f : α → α → α) : Option α :=
  match a with
  | some x => (match b with | some y => some (f x y) | none => none)
  | none => none

/-- `monoid.Option` -/
def option (m : MonoidD α) : MonoidD (Option α) :=
  new (fun _ => some m.empty) fun a b => optionMap2 a b m.combine

/-- `try.Map2` = `FlatMap(first, a => Map(second, b => f(a,b)))` -/
def tryMap2 (a b : TryV α) (f : α → α → α) : TryV α :=
  match a with
  | .success x => (match b with | .success y => .success (f x y) | .failure e => .failure e)
  | .failure e => .failure e

/-- `monoid.Try` -/
def try_ (m : MonoidD α) : MonoidD (TryV α) :=
  new (fun _ => .success m.empty) fun a b => tryMap2 a b m.combine

/-- `monoid.MergeSeq` : `a.Concat(b)` -/
def mergeSeq : MonoidD (List α) := new (fun _ => []) fun a b => a ++ b

/-- `monoid.IMap` -/
def imap (inst : MonoidD α) (fab : α → β) (fba : β → α) : MonoidD β :=
  new (fun _ => fab inst.empty) fun a b => fab (inst.combine (fba a) (fba b))

/-- `monoid.MergeSlice` -/
def mergeSlice : MonoidD (List α) := imap mergeSeq id id

/-- `monoid.HNil` -/
def hnil : MonoidD Unit := ofSemigroupFunc () fun _ _ => ()

/-- `monoid.HCons` -/
def hcons (hm : MonoidD α) (tm : MonoidD τ) : MonoidD (α × τ) :=
  new (fun _ => (hm.empty, tm.empty)) fun a b => (hm.combine a.1 b.1, tm.combine a.2 b.2)

/-- `monoid.Endo` -/
def endo : MonoidD (Endo α) := new (fun _ => id) SemigroupD.endo.combine

/-- `monoid.Dual` -/
def dual (m : MonoidD α) : MonoidD (Dual α) :=
  new (fun _ => ⟨m.empty⟩) (SemigroupD.dual m.toSemigroup).combine

/-- `monoid.Eval` -/
def eval (m : MonoidD α) : MonoidD (Eval α) :=
  new (fun _ => Eval.done m.empty) (SemigroupD.eval m.toSemigroup).combine

/-- `monoid.Any` -/
def any : MonoidD Bool := new (fun _ => false) SemigroupD.any.combine

/-- `monoid.All` as the property demands -/
def all : MonoidD Bool := new (fun _ => true) SemigroupD.all.combine

/-- `monoid.All` AS IT STANDS (through `semigroup.All.Combine`) -/
def allAsIs : MonoidD Bool := new (fun _ => true) SemigroupD.allAsIs.combine

/-- `for k, v := range a { ret[k] = v }` -/
def putAll [DecidableEq κ] (ret : GoMap κ ν) (a : GoMap κ ν) : GoMap κ ν :=
  a.entries.foldl (fun m kv => m.insert kv.1 kv.2) ret

/-- `monoid.MergeGoMap`; also the content of `monoid.MergeMap` (`fp.Map.Concat`, see C03) -/
def mergeGoMap [DecidableEq κ] : MonoidD (GoMap κ ν) :=
  new (fun _ => GoMap.empty) fun a b => putAll (putAll GoMap.empty a) b

/-- `monoid.MergeMap` -/
def mergeMap [DecidableEq κ] : MonoidD (GoMap κ ν) :=
  new (fun _ => GoMap.empty) fun a b => putAll a b

/-- `monoid.MergeSet` : a set is a map to unit -/
def mergeSet [DecidableEq κ] : MonoidD (GoMap κ Unit) :=
  new (fun _ => GoMap.empty) fun a b => putAll a b

/-- `monoid.Ptr` (pointers up to their target) -/
def ptr (monoidT : Unit → MonoidD α) : MonoidD (Option α) :=
  new (fun _ => none) fun a b =>
    match a, b with
    | some x, some y => some ((monoidT ()).combine x y)
    | none, b => b
    | a, _ => a

/-- `monoid.Unit` -/
def unit : MonoidD Unit := new (fun _ => ()) fun _ _ => ()

/-- `monoid.TupleN` for N ≥ 2 written as head × rest (the generated code lists all components; the
    component-wise result is the same nested pair) -/
def tupleN (ins1 : MonoidD α) (rest : MonoidD τ) : MonoidD (α × τ) :=
  new (fun _ => (ins1.empty, rest.empty)) fun t1 t2 => (ins1.combine t1.1 t2.1, rest.combine t1.2 t2.2)

/-- the last component of a `monoid.TupleN` -/
def tuple1 (ins1 : MonoidD α) : MonoidD (T1 α) :=
  new (fun _ => ⟨ins1.empty⟩) fun t1 t2 => ⟨ins1.combine t1.i1 t2.i1⟩

end MonoidD

-- -------------------------------------------------------------------------------- Reduce / FoldMap

/-- `seq.Reduce` -/
def seqReduce (r : List α) (m : MonoidD α) : α :=
  if r.length == 0 then m.empty
  else
    let reduce := m.empty
    r.foldl (fun reduce x => m.combine reduce x) reduce

/-- `seq.Fold` / `iterator.Fold` / `list.Fold` -/
def fold (s : List α) (zero : β) (f : β → α → β) : β := s.foldl f zero

/-- `seq.FoldMap` -/
def seqFoldMap (s : List α) (m : MonoidD β) (f : α → β) : β :=
  fold s m.empty fun b a => m.combine b (f a)

/-- `iterator.Reduce` as the property demands: `ret = m.Combine(ret, v)` -/
def iteratorReduce (r : List α) (m : MonoidD α) : α :=
  let ret := m.empty
  r.foldl (fun ret v => m.combine ret v) ret

/-- `iterator.Reduce` AS IT STANDS: the result of `m.Combine(ret, v)` is dropped -/
def iteratorReduceAsIs (r : List α) (m : MonoidD α) : α :=
  let ret := m.empty
  r.foldl (fun ret v => let _ := m.combine ret v; ret) ret

/-- `list.FoldRight` -/
def listFoldRight (s : List α) (zero : β) (f : α → Eval β → Eval β) : Eval β :=
  match s with
  | [] => Eval.done zero
  | head :: tail =>
    let v := Eval.tailCall fun _ => listFoldRight tail zero f
    f head v

/-- `list.Reduce` -/
def listReduce (s : List α) (m : MonoidD α) : α :=
  (listFoldRight s m.empty fun a b => b.map fun v => m.combine a v).get

/-- `list.FoldMap` -/
def listFoldMap (s : List α) (m : MonoidD β) (f : α → β) : β :=
  let ret := listFoldRight s m.empty fun a b =>
    let ab := f a
    b.map fun t => m.combine ab t
  ret.get

end FpVerif.TC
