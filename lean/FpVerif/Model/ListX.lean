import FpVerif.Model.LazyList
/-!
# Conversion and access functions of `fp.Seq`, the lazy `fp.List` and package `xtr` (C12, work package LISTX)

Everything here mirrors a Go function of the same name that `Model/LazyList.lean` / `Model/IterM.lean` do not
cover:

* list side (values `LL.LV`, memo cells in `LL.Heap`, monad `LL.HM`):
  `Unapply` (Nil / Cons / Seq / ListAdaptor), `NonEmpty`, `Foreach` (by representation: recursion for `Cons`,
  `range` for `Seq`, cursor loop for `ListAdaptor`), the method `ToSeq` by representation,
  `list.ToGoMap / ToMap / ToSet / ToGoSet` (one cursor loop each), `list.FromPtr`, `list.ReverseSlice`,
  `list.FromMap / FromMapKey / FromMapValue` (`Collect` over the enumeration of a Go map),
  `list.FoldFuture`.
* `list.Recurrence1 / Recurrence2`: their own pair of memo cells (`Rec.RHeap`), including what `sync.Once`
  does when the relation panics (the cell is done and holds the nil interface).
* `fp.Seq`: `Size, IsEmpty, NonEmpty, Get, Head, Init, Last, Tail, Foreach` and the package-level wrappers
  `seq.Size/Head/Init/Tail/Last`, `xtr.Head/Init/Last/Tail`, `fp.SliceCasting`, `seq.FilterNil`,
  `seq.FromMap/FromMapKeys/FromMapValues`, `seq.FoldRight` (`lazy.Eval` by name), `seq.FoldFuture`.

Go maps and `fp.Map` / `fp.Set` values are association lists in insertion order of the keys, last write
wins (`kvInsert`).  The iteration order of a Go map is unspecified: the functions that enumerate a map take
the enumeration as an argument, and the theorems hold for every enumeration.
-/
namespace FpVerif.LX
open FpVerif FpVerif.It FpVerif.LL

/-! ## keys: Go's `==` on the dynamic values the harness uses -/

mutual
def vbeq : Val → Val → Bool
  | .int a, .int b => a == b
  | .str a, .str b => a == b
  | .unit, .unit => true
  | .nil, .nil => true
  | .tup a, .tup b => vbeqL a b
  | .seq a, .seq b => vbeqL a b
  | .none, .none => true
  | .some a, .some b => vbeq a b
  | .succ a, .succ b => vbeq a b
  | .fail a, .fail b => a == b
  | .left a, .left b => vbeq a b
  | .right a, .right b => vbeq a b
  | _, _ => false
def vbeqL : List Val → List Val → Bool
  | [], [] => true
  | a :: as, b :: bs => vbeq a b && vbeqL as bs
  | _, _ => false
end

/-- `m[k] = v` / `builder.Add(k, v)` on an association list: an existing key keeps its position and
    gets the new value, a new key goes to the end. -/
def kvInsertBy {κ ν : Type} (eq : κ → κ → Bool) (k : κ) (v : ν) : List (κ × ν) → List (κ × ν)
  | [] => [(k, v)]
  | (k', v') :: rest => if eq k' k then (k', v) :: rest else (k', v') :: kvInsertBy eq k v rest

def kvLookupBy {κ ν : Type} (eq : κ → κ → Bool) (k : κ) : List (κ × ν) → Option ν
  | [] => none
  | (k', v') :: rest => if eq k' k then some v' else kvLookupBy eq k rest

abbrev KV := List (Val × Val)

def kvInsert (k v : Val) (m : KV) : KV := kvInsertBy vbeq k v m

/-- `set.Add(v)` / `ret[v] = true` -/
def setInsert (v : Val) : List Val → List Val
  | [] => [v]
  | w :: rest => if vbeq w v then w :: rest else w :: setInsert v rest

/-- `Tuple2.Unapply()` of a list element (elements of a `List[Tuple2[K,V]]` are always pairs) -/
def kvOf : Val → Val × Val
  | .tup [k, v] => (k, v)
  | v => (v, .unit)

/-- the Go map literal the harness builds from a list of pairs -/
def mapOfPairs (ps : List (Val × Val)) : KV := ps.foldl (fun m kv => kvInsert kv.1 kv.2 m) []

/-! ## `fp.List` methods not in `Model/LazyList` -/

/-- `l.NonEmpty()` -/
def nonEmpty (fuel : Nat) (l : LV) : HM Bool := do
  let b ← LL.isEmpty fuel l
  pure (!b)

/-- `l.Unapply()`: `Nil` — `return r.Head(), r` (panics); `Cons`, `Seq`, `ListAdaptor` —
    `return r.Head(), r.Tail()` -/
def unapply : Nat → LV → HM (Val × LV)
  | 0, _ => IM.panic outOfFuel
  | fuel + 1, .nil => do
    let h ← LL.head fuel .nil
    pure (h, .nil)
  | fuel + 1, l => do
    let h ← LL.head fuel l
    let t ← LL.tail fuel l
    pure (h, t)

/-- `for _, v := range r { f(v) }` -/
def seqForeach {σ : Type} (f : Val → GoM Unit) : List Val → IM σ Unit
  | [] => pure ()
  | v :: vs => do
    IM.liftG (f v)
    seqForeach f vs

/-- `ListAdaptor.Foreach`: `for cursor.NonEmpty() { f(cursor.Head()); cursor = cursor.Tail() }` -/
def foreachCursor (f : Val → GoM Unit) : Nat → LV → HM Unit
  | 0, _ => IM.panic outOfFuel
  | fuel + 1, cursor => do
    if !(← LL.isEmpty fuel cursor) then
      let v ← LL.head fuel cursor
      IM.liftG (f v)
      let t ← LL.tail fuel cursor
      foreachCursor f fuel t
    else pure ()

/-- `l.Foreach(f)` by representation: `Nil` nothing; `Cons`: `f(r.head); r.tail.Foreach(f)`;
    `Seq`: range loop; `ListAdaptor`: cursor loop. -/
def foreachL (f : Val → GoM Unit) : Nat → LV → HM Unit
  | 0, _ => IM.panic outOfFuel
  | _, .nil => pure ()
  | fuel + 1, .cons h t => do
    IM.liftG (f h)
    foreachL f fuel t
  | _, .seq xs => seqForeach f xs
  | _, .nilIface => IM.panic LL.nilDeref
  | fuel + 1, .adaptor hc tc => foreachCursor f fuel (.adaptor hc tc)

/-- the method `l.ToSeq()` by representation (`Cons` and `ListAdaptor` append inside `Foreach`) -/
def toSeqM : Nat → LV → List Val → HM (List Val)
  | 0, _, _ => IM.panic outOfFuel
  | _, .nil, ret => pure ret
  | fuel + 1, .cons h t, ret => toSeqM fuel t (ret ++ [h])
  | _, .seq xs, ret => pure (ret ++ xs)
  | _, .nilIface, _ => IM.panic LL.nilDeref
  | fuel + 1, .adaptor hc tc, ret => LL.toSeq fuel (.adaptor hc tc) ret

/-! ## the cursor loops `ToGoMap`, `ToMap`, `ToSet`, `ToGoSet` -/

/-- `cursor := list; for !cursor.IsEmpty() { x := cursor.Head(); ret = upd(ret, x); cursor = cursor.Tail() }` -/
def accLoop {α : Type} (upd : α → Val → α) : Nat → LV → α → HM α
  | 0, _, _ => IM.panic outOfFuel
  | fuel + 1, cursor, ret => do
    if !(← LL.isEmpty fuel cursor) then
      let x ← LL.head fuel cursor
      let ret := upd ret x
      let t ← LL.tail fuel cursor
      accLoop upd fuel t ret
    else pure ret

def kvStep (m : KV) (e : Val) : KV := kvInsert (kvOf e).1 (kvOf e).2 m
def setStep (s : List Val) (v : Val) : List Val := setInsert v s

/-- `list.ToGoMap(list)`: `ret[k] = v` -/
def toGoMap (fuel : Nat) (l : LV) : HM KV := accLoop kvStep fuel l []
/-- `list.ToMap(list, hasher)`: `ret = ret.Add(k, v)` on `immutable.MapBuilder` (the HAMT behind it is the
    subject of C04; here it is the map it represents, with the hasher's `Eqv` being `==`) -/
def toMap (fuel : Nat) (l : LV) : HM KV := accLoop kvStep fuel l []
/-- `list.ToSet(list, hasher)` -/
def toSet (fuel : Nat) (l : LV) : HM (List Val) := accLoop setStep fuel l []
/-- `list.ToGoSet(list)` -/
def toGoSet (fuel : Nat) (l : LV) : HM (List Val) := accLoop setStep fuel l []

/-! ## sources -/

/-- `list.FromPtr(ptr)`: `nil` ↦ `Empty()`, otherwise `Of(*ptr)` -/
def fromPtr : Option Val → LV
  | none => .nil
  | some v => .seq [v]

/-- `list.ReverseSlice(seq) = ReverseSeq(seq)` -/
def reverseSlice (fuel : Nat) (xs : List Val) : HM LV := LL.eval fuel (.reverse xs) .unit

def pairVal (kv : Val × Val) : Val := .tup [kv.1, kv.2]

/-- `list.FromMap(m) = Collect(fp.IteratorOfGoMap(m))`, `enum` being the order in which this run of
    the Go runtime enumerates `m` (the events `s<id>:…` of `LExpr.collect` are the harness's
    instrumentation of a slice source; a map iterator has none, the oracle drops them). -/
def fromMap (fuel : Nat) (enum : KV) : HM LV := LL.eval fuel (.collect 0 (enum.map pairVal)) .unit
/-- `list.FromMapKey(m) = Collect(mutable.MapOf(m).Keys())` -/
def fromMapKey (fuel : Nat) (enum : KV) : HM LV := LL.eval fuel (.collect 0 (enum.map (·.1))) .unit
/-- `list.FromMapValue(m) = Collect(mutable.MapOf(m).Values())` -/
def fromMapValue (fuel : Nat) (enum : KV) : HM LV := LL.eval fuel (.collect 0 (enum.map (·.2))) .unit

/-! ## `FoldFuture` (list and seq), at the level of the results of completed futures

`Fold(s, Successful(zero), (acc, v) ↦ acc.FlatMap(a ↦ fn(a, v), ctx...))`.  The fold itself only chains
callbacks: it traverses the whole list (forcing every cell) before any `fn` runs; the executor then runs
the continuations one after the other — continuation `i+1` is registered on the promise continuation `i`
completes — so `fn` is called left to right, and not at all after the first failure. -/

/-- one link `acc.FlatMap(a ↦ fn(a, v))`: `np.Failure(t.Failed().Get())` on a failed `acc` -/
def futStep (fn : Val → Val → GoM (Try Val)) (acc : Try Val) (v : Val) : GoM (Try Val) :=
  match acc with
  | .success a => fn a v
  | .failure e => do
    let e' ← Try.failedGet (.failure e : Try Val)
    pure (.failure e')

def futChain (fn : Val → Val → GoM (Try Val)) : List Val → Try Val → GoM (Try Val)
  | [], acc => pure acc
  | v :: vs, acc => do
    let acc' ← futStep fn acc v
    futChain fn vs acc'

/-- `seq.FoldFuture(s, zero, fn, ctx...)` awaited -/
def seqFoldFuture (fn : Val → Val → GoM (Try Val)) (xs : List Val) (zero : Val) : GoM (Try Val) :=
  futChain fn xs (.success zero)

/-- `list.FoldFuture(s, zero, fn, ctx...)` awaited: first the traversal by `list.Fold`, then the chain -/
def foldFuture (fn : Val → Val → GoM (Try Val)) (fuel : Nat) (l : LV) (zero : Val) : HM (Try Val) := do
  let xs ← LL.toSeq fuel l []
  IM.liftG (futChain fn xs (.success zero))

/-! ## `list.Recurrence1`, `list.Recurrence2` -/

namespace Rec

/-- a recurrence list: `ListAdaptor{getHead, getTail}` (two cell ids) or the nil interface that a
    `sync.Once` whose function panicked hands out -/
inductive RV where
  | adaptor (hc tc : Nat)
  | nilIface
  deriving Inhabited, Repr, DecidableEq

/-- captured variables of the `getTail` closure: `a1` (and `a2` for `Recurrence2`) -/
structure RThunk where
  a1 : Val
  a2 : Val

structure RHeap where
  hs : Array (Cell Val (Option Val) × Nat) := #[]      -- getHead cells: `Some(a1)`
  ts : Array (Cell RThunk RV × Nat) := #[]             -- getTail cells

abbrev RM := IM RHeap

def nilDeref : PanicVal := "nil-deref"

/-- `fp.MakeList(func() { return Some(a1) }, func() { return RecurrenceN(…) })` -/
def mk (a1 a2 : Val) : RM RV := fun hp lg =>
  (.ok (.adaptor hp.hs.size hp.ts.size),
   { hs := hp.hs.push (.pending a1, 0), ts := hp.ts.push (.pending ⟨a1, a2⟩, 0) }, lg)

/-- memoised `getHead` -/
def forceH (c : Nat) : RM (Option Val) := do
  let hp ← IM.get
  match hp.hs[c]? with
  | some (.done v, _) => pure v
  | some (.running, _) => IM.panic deadlock
  | some (.pending a, n) =>
    IM.modify fun hp => { hp with hs := hp.hs.set! c (.done (some a), n + 1) }
    pure (some a)
  | none => IM.panic "bad-cell"

/-- `l.IsEmpty()` -/
def isEmpty : RV → RM Bool
  | .nilIface => IM.panic nilDeref
  | .adaptor hc _ => do let o ← forceH hc; pure o.isNone

/-- `l.Head()` -/
def head : RV → RM Val
  | .nilIface => IM.panic nilDeref
  | .adaptor hc _ => do
    match ← forceH hc with
    | some v => pure v
    | none => IM.panic listEmpty

/-- the relation as the two constructors use it: `Recurrence1`: `relation(a1)`, next pair `(r, _)`;
    `Recurrence2`: `relation(a1, a2)`, next pair `(a2, r)` -/
inductive Rel where
  | r1 (f : Val → GoM Val)
  | r2 (f : Val → Val → GoM Val)

/-- body of the `getTail` closure -/
def runT (rel : Rel) (t : RThunk) : RM RV :=
  match rel with
  | .r1 f => do
    let r ← IM.liftG (f t.a1)
    mk r .unit
  | .r2 f => do
    let r ← IM.liftG (f t.a1 t.a2)
    mk t.a2 r

/-- memoised `getTail` (`sync.Once`): the closure is started at most once; if it panics the `Once` is
    done all the same and the memoised result stays the zero value — the nil interface. -/
def forceT (rel : Rel) (c : Nat) : RM RV := fun hp lg =>
  match hp.ts[c]? with
  | some (.done v, _) => (.ok v, hp, lg)
  | some (.running, _) => (.error deadlock, hp, lg)
  | some (.pending t, n) =>
    match runT rel t { hp with ts := hp.ts.set! c (.running, n + 1) } lg with
    | (.ok v, hp', lg') => (.ok v, { hp' with ts := hp'.ts.set! c (.done v, n + 1) }, lg')
    | (.error p, hp', lg') => (.error p, { hp' with ts := hp'.ts.set! c (.done .nilIface, n + 1) }, lg')
  | none => (.error "bad-cell", hp, lg)

/-- `l.Tail()` -/
def tail (rel : Rel) : RV → RM RV
  | .nilIface => IM.panic nilDeref
  | .adaptor _ tc => forceT rel tc

/-- `list.Recurrence1(a1, relation)` / `list.Recurrence2(a1, a2, relation)` -/
def recurrence (rel : Rel) (a1 a2 : Val) : RM RV :=
  match rel with
  | .r1 _ => mk a1 .unit
  | .r2 _ => mk a1 a2

/-- the client loop of the harness: `for i < n { out = append(out, cur.Head()); cur = cur.Tail() }` -/
def take (rel : Rel) : Nat → RV → List Val → RM (List Val)
  | 0, _, out => pure out
  | n + 1, cur, out => do
    let v ← head cur
    let t ← tail rel cur
    take rel n t (out ++ [v])

/-- `k` times `Tail()`, then `Head()` -/
def nth (rel : Rel) : Nat → RV → RM Val
  | 0, cur => head cur
  | k + 1, cur => do
    let t ← tail rel cur
    nth rel k t

def RHeap.maxEvals (hp : RHeap) : Nat :=
  let m1 := hp.hs.foldl (fun m c => Nat.max m c.2) 0
  hp.ts.foldl (fun m c => Nat.max m c.2) m1

end Rec

/-! ## `fp.Seq` accessors (seq.go), package-level wrappers (seq/seq_op.go), `xtr` -/

namespace Sq

/-- `r.Size()` / `seq.Size(r)` -/
def size (r : List Val) : Int := r.length
/-- `r.IsEmpty()` -/
def isEmpty (r : List Val) : Bool := size r == 0
/-- `r.NonEmpty()` -/
def nonEmpty (r : List Val) : Bool := decide (size r > 0)

def indexPanic (idx : Int) (len : Nat) : PanicVal :=
  s!"runtime:runtime error: index out of range [{idx}]" ++ (if idx < 0 then "" else s!" with length {len}")

/-- `r.Get(idx)`: `if r.Size() > idx { return Some(r[idx]) }` — a negative index passes the guard and
    the indexing panics, as in Go. -/
def get (r : List Val) (idx : Int) : Except PanicVal (Option Val) :=
  if size r > idx then
    if idx < 0 then throw (indexPanic idx r.length)
    else match r[idx.toNat]? with
      | some v => pure (some v)
      | none => throw (indexPanic idx r.length)
  else pure none

/-- `r.Head()` / `seq.Head(r)` / `xtr.Head(r)` -/
def head (r : List Val) : Option Val :=
  if size r > 0 then r[0]? else none

/-- `r.Init()` / `seq.Init(r)` / `xtr.Init(r)`: `if r.Size() > 1 { return r[:r.Size()-1] } else { return nil }` -/
def init (r : List Val) : List Val :=
  if size r > 1 then r.take (r.length - 1) else []

/-- `r.Last()` / `seq.Last(r)` / `xtr.Last(r)` -/
def last (r : List Val) : Option Val :=
  if size r > 0 then r[r.length - 1]? else none

/-- `r.Tail()` / `seq.Tail(r)` / `xtr.Tail(r)` -/
def tail (r : List Val) : List Val :=
  if size r > 0 then r.drop 1 else []

/-- `r.Foreach(f)` -/
def foreach (f : Val → GoM Unit) : List Val → GoM Unit
  | [] => pure ()
  | v :: vs => do f v; foreach f vs

/-- `fp.SliceCasting[To](a)`: a conversion between slice types of the same element type -/
def sliceCasting (r : List Val) : List Val := r

/-- `option.Ptr` then `option.ToSeq` -/
def ptrToSeq : Option Val → List Val
  | none => []
  | some v => [v]

/-- `seq.FlatMap(opt, fn)`: `for _, v := range opt { ret = append(ret, fn(v)...) }` -/
def flatMapPure {α : Type} (fn : α → List Val) : List α → List Val → List Val
  | [], ret => ret
  | v :: vs, ret => flatMapPure fn vs (ret ++ fn v)

/-- `seq.FilterNil(opt) = FilterMap(opt, option.Ptr) = FlatMap(opt, fp.Compose(option.Ptr, option.ToSeq))` -/
def filterNil (r : List (Option Val)) : List Val := flatMapPure ptrToSeq r []

/-- `seq.FromMap(m)`: `for k, v := range m { seq = append(seq, Tuple2{k, v}) }` in the enumeration order
    `enum` of this run -/
def fromMap (enum : KV) : List Val := enum.map pairVal
def fromMapKeys (enum : KV) : List Val := enum.map (·.1)
def fromMapValues (enum : KV) : List Val := enum.map (·.2)

/-- `seq.FoldRight(s, zero, f)`: `lazy.Eval[B]` by name (as `It.foldRight`, `LL.foldRight`): the lazy
    argument is the computation of the fold over the tail; it runs when (and if) `f`'s result forces it. -/
def foldRight (zero : Val) (f : Val → GoM Val → GoM Val) : List Val → GoM Val
  | [] => pure zero
  | h :: t => f h (foldRight zero f t)

end Sq

end FpVerif.LX
