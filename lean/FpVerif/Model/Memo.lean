import FpVerif.Model.Eval
/-!
# `Memoize` (lazy.Memoize, fp.Memoize, memoised list cells): a cell guarded by `sync.Once`
-/
namespace FpVerif.Memo
open FpVerif FpVerif.EvalM

variable {T : Type}

/-- One call of the memoised function: `once.Do(func(){ ret = f() }); return ret`.
    State = the cell (`none` until the first call completed). Returns value, new cell, events. -/
def get (f : Unit → W T) (cell : Option T) : T × Option T × List Event :=
  match cell with
  | some v => (v, some v, [])
  | none => let (v, l) := f (); (v, some v, l)

/-- `n` calls in a row: results, final cell, all events -/
def getN (f : Unit → W T) : Nat → Option T → List T × Option T × List Event
  | 0, c => ([], c, [])
  | n + 1, c =>
    let (v, c1, l1) := get f c
    let (vs, c2, l2) := getN f n c1
    (v :: vs, c2, l1 ++ l2)

-- concurrent Get calls under sync.Once ---------------------------------------------------------------

/-- Per-thread state of a `Get()` call. -/
inductive TState (T : Type) where
  | idle                -- has not called yet
  | running             -- inside once.Do, executing f (holds the Once)
  | waiting             -- blocked in once.Do because another thread is running f
  | returned (v : T)    -- Get returned v
  deriving Repr

def isRunning : TState T → Bool
  | .running => true
  | _ => false

/-- number of threads currently executing `f` -/
def nRunning (ts : List (TState T)) : Nat := (ts.map (fun t => if isRunning t then 1 else 0)).sum

structure Sys (T : Type) where
  cell : Option T            -- `ret`, valid once done
  busy : Bool                -- some thread is inside once.Do's critical section
  runs : Nat                 -- how many times f was executed
  threads : List (TState T)

/-- One atomic step of thread `i` (sync.Once semantics: the first caller runs `f` while holding the
    Once, later callers block until it has finished, then skip `f`). `f` is pure here: value `v`. -/
def step (v : T) (s : Sys T) (i : Nat) : Sys T :=
  match s.threads[i]? with
  | some .idle =>
    match s.cell with
    | some r => { s with threads := s.threads.set i (.returned r) }                 -- fast path: done
    | none =>
      if s.busy then { s with threads := s.threads.set i .waiting }
      else { s with busy := true, threads := s.threads.set i .running }
  | some .running =>                                                                -- f() finished
    { cell := some v, busy := false, runs := s.runs + 1, threads := s.threads.set i (.returned v) }
  | some .waiting =>
    match s.cell with
    | some r => { s with threads := s.threads.set i (.returned r) }
    | none =>
      if s.busy then s                                                              -- still blocked
      else { s with busy := true, threads := s.threads.set i .running }
  | _ => s

def init (n : Nat) : Sys T := { cell := none, busy := false, runs := 0, threads := List.replicate n .idle }

def runSched (v : T) (s : Sys T) (sched : List Nat) : Sys T := sched.foldl (step v) s

end FpVerif.Memo
