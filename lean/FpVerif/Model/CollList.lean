import FpVerif.Model.CollMonad
/-!
# The lazy `fp.List` monad of package `list` with elements of any type (values, functions, lists)

`Model/LazyList.lean` (C12) models the memoised `ListAdaptor` cells with elements of type `Val` and
user functions given as list expressions.  The derived combinators of `list/list_op.go` — `Ap`,
`Flap`, `Flap2`, `FlapMap`, `Method1`, `Method2`, `Flatten`, `Map2` — need lists whose ELEMENTS are
functions or lists and `FlatMap` continuations that are closures of the library itself
(`f => Map(a, f)`, `v1 => Map(b, v2 => f(v1,v2))`, `v => v`).  This file is the same heap model
(`sync.Once` cells `pending / running / done`, one closure body per library closure, start counters)
over the element type `El`, with those continuations as data (`KL`).

`El`, `Fn` are also the element / function-value representation the oracle uses for `seq` and
`iterator`.
-/
namespace FpVerif.Coll
open FpVerif FpVerif.It

/-- function VALUES that occur as elements of collections or as `Map` callbacks, first-order. -/
inductive Fn where
  | u1 (f : Val → GoM Val)                          -- a user function on values
  | rep (id : Int) (n : Nat)                        -- x ↦ { log f<id>:x; Of(x, x+1, …) (n elements) } — a collection as element
  | c2 (g : Val → Val → GoM Val)                    -- as.Curried2(g)
  | c2a (g : Val → Val → GoM Val) (a : Val)         -- as.Curried2(g)(a)   (also Map2's `v2 => f(v1, v2)`)
  | c3 (h : Val → Val → Val → GoM Val)              -- as.Curried3(h)
  | c3a (h : Val → Val → Val → GoM Val) (a : Val)
  | c3ab (h : Val → Val → Val → GoM Val) (a b : Val)

/-- elements: first-order values, function values, collections (a `Seq`, a fresh `iterator.Of` /
    instrumented source, a `list.Of`, depending on the carrier). -/
inductive El where
  | v (x : Val)
  | fn (f : Fn)
  | coll (tag : Option Nat) (xs : List El)

instance : Inhabited El := ⟨.v .nil⟩

def El.val : El → Val
  | .v x => x
  | _ => .nil

def repList (x : Val) (n : Nat) : List El :=
  (List.range n).map (fun (i : Nat) => El.v (.int (x.asInt + (i : Int))))

/-- applying a function value -/
def Fn.app : Fn → El → GoM El
  | .u1 f, x => do let y ← f x.val; pure (.v y)
  | .rep id n, x => do emit s!"f{id}:{x.val}"; pure (.coll none (repList x.val n))
  | .c2 g, x => pure (.fn (.c2a g x.val))
  | .c2a g a, x => do let y ← g a x.val; pure (.v y)
  | .c3 h, x => pure (.fn (.c3a h x.val))
  | .c3a h a, x => pure (.fn (.c3ab h a x.val))
  | .c3ab h a b, x => do let y ← h a b x.val; pure (.v y)

def notAFunction : PanicVal := "<<not-a-function>>"
def notACollection : PanicVal := "<<not-a-collection>>"

/-- applying an ELEMENT that is a function (statically typed in Go: the other cases do not occur) -/
def appEl : El → El → GoM El
  | .fn f, x => f.app x
  | _, _ => goPanic notAFunction

/-! ## the heap of memo cells -/

inductive LV where
  | nil                                  -- list.Nil
  | seq (xs : List El)                   -- list.Seq  (list.Of / FromSeq)
  | adaptor (hc tc : Nat)                -- fp.ListAdaptor{getHead, getTail}
  deriving Inhabited

/-- the function handed to `list.FlatMap`, as data -/
inductive KL where
  | user (k : Val → GoM (List El))       -- a user function returning list.Of(…)
  | ident                                -- Flatten:  v => v
  | apInner (a : LV)                     -- Ap:       f => Map(a, f)
  | map2Inner (b : LV) (g : Val → Val → GoM Val)   -- Map2: v1 => Map(b, v2 => f(v1, v2))

/-- closure of a `getHead` -/
inductive HThunk where
  | map (opt : LV) (fn : Fn)
  | flatMap (lz : Nat) (tail : LV) (k : KL)
  | combine (l1 : LV)

/-- closure of a `getTail` -/
inductive TThunk where
  | map (opt : LV) (fn : Fn)
  | flatMap (lz : Nat) (tail : LV) (k : KL)
  | combine (l1 l2 : LV)

inductive Cell (T V : Type) where
  | pending (t : T)
  | running
  | done (v : V)

structure Heap where
  hs : Array (Cell HThunk (Option El) × Nat) := #[]       -- getHead cells, with their start counter
  ts : Array (Cell TThunk LV × Nat) := #[]                -- getTail cells
  ls : Array (Cell (LV × KL) LV × Nat) := #[]             -- lazy.Call cells of FlatMap

abbrev HM := IM Heap

def deadlock : PanicVal := "deadlock"
def listEmpty : PanicVal := "List.empty"

/-- `fp.MakeList(head, tail)` -/
def makeList (h : HThunk) (t : TThunk) : HM LV := fun hp lg =>
  (.ok (.adaptor hp.hs.size hp.ts.size),
   { hp with hs := hp.hs.push (.pending h, 0), ts := hp.ts.push (.pending t, 0) }, lg)

def allocLazy (opt : LV) (k : KL) : HM Nat := fun hp lg =>
  (.ok hp.ls.size, { hp with ls := hp.ls.push (.pending (opt, k), 0) }, lg)

/-- `list.Map(opt, fn)`: two closures, nothing is forced -/
def lMap (opt : LV) (fn : Fn) : HM LV := makeList (.map opt fn) (.map opt fn)

mutual

/-- `l.IsEmpty()` -/
def isEmpty : Nat → LV → HM Bool
  | 0, _ => IM.panic outOfFuel
  | _, .nil => pure true
  | _, .seq xs => pure xs.isEmpty
  | fuel + 1, .adaptor hc _ => do
    let o ← forceH fuel hc
    pure o.isNone

/-- `l.Head()` -/
def head : Nat → LV → HM El
  | 0, _ => IM.panic outOfFuel
  | _, .nil => IM.panic listEmpty
  | _, .seq xs => match xs with
    | [] => IM.panic "List.Empty"
    | x :: _ => pure x
  | fuel + 1, .adaptor hc _ => do
    match ← forceH fuel hc with
    | some v => pure v
    | none => IM.panic listEmpty

/-- `l.Tail()` -/
def tail : Nat → LV → HM LV
  | 0, _ => IM.panic outOfFuel
  | _, .nil => pure .nil
  | _, .seq xs => match xs with
    | [] => pure .nil
    | _ :: t => pure (.seq t)
  | fuel + 1, .adaptor _ tc => forceT fuel tc

/-- `list.Head(l)`: `if l.IsEmpty() { None } else { Some(l.Head()) }` -/
def headOpt : Nat → LV → HM (Option El)
  | 0, _ => IM.panic outOfFuel
  | fuel + 1, l => do
    if ← isEmpty fuel l then pure none
    else do let v ← head fuel l; pure (some v)

/-- the memoised `getHead` -/
def forceH : Nat → Nat → HM (Option El)
  | 0, _ => IM.panic outOfFuel
  | fuel + 1, c => do
    let hp ← IM.get
    match hp.hs[c]? with
    | some (.done v, _) => pure v
    | some (.running, _) => IM.panic deadlock
    | some (.pending t, n) =>
      IM.modify fun hp => { hp with hs := hp.hs.set! c (.running, n + 1) }
      let v ← runH fuel t
      IM.modify fun hp => { hp with hs := hp.hs.set! c (.done v, n + 1) }
      pure v
    | none => IM.panic "bad-cell"

/-- the memoised `getTail` -/
def forceT : Nat → Nat → HM LV
  | 0, _ => IM.panic outOfFuel
  | fuel + 1, c => do
    let hp ← IM.get
    match hp.ts[c]? with
    | some (.done v, _) => pure v
    | some (.running, _) => IM.panic deadlock
    | some (.pending t, n) =>
      IM.modify fun hp => { hp with ts := hp.ts.set! c (.running, n + 1) }
      let v ← runT fuel t
      IM.modify fun hp => { hp with ts := hp.ts.set! c (.done v, n + 1) }
      pure v
    | none => IM.panic "bad-cell"

/-- `mappedHeadLazy.Get()` -/
def forceL : Nat → Nat → HM LV
  | 0, _ => IM.panic outOfFuel
  | fuel + 1, c => do
    let hp ← IM.get
    match hp.ls[c]? with
    | some (.done v, _) => pure v
    | some (.running, _) => IM.panic deadlock
    | some (.pending (opt, k), n) =>
      IM.modify fun hp => { hp with ls := hp.ls.set! c (.running, n + 1) }
      let x ← head fuel opt
      let v ← applyK fuel k x
      IM.modify fun hp => { hp with ls := hp.ls.set! c (.done v, n + 1) }
      pure v
    | none => IM.panic "bad-cell"

/-- the function given to `FlatMap`, applied -/
def applyK : Nat → KL → El → HM LV
  | 0, _, _ => IM.panic outOfFuel
  | _ + 1, .user k, x => do
    let xs ← IM.liftG (k x.val)
    pure (.seq xs)
  | _ + 1, .ident, x => match x with
    | .coll _ xs => pure (.seq xs)
    | _ => IM.panic notACollection
  | _ + 1, .apInner a, x => match x with
    | .fn f => lMap a f
    | _ => IM.panic notAFunction
  | _ + 1, .map2Inner b g, x => lMap b (.c2a g x.val)

/-- the bodies of the `getHead` closures -/
def runH : Nat → HThunk → HM (Option El)
  | 0, _ => IM.panic outOfFuel
  | fuel + 1, .map opt fn => do
    match ← headOpt fuel opt with
    | some v => do let u ← IM.liftG (fn.app v); pure (some u)
    | none => pure none
  | fuel + 1, .flatMap lz tl k => do
    let headList ← forceL fuel lz
    if ← isEmpty fuel headList then
      let rest ← flatMap fuel tl k
      headOpt fuel rest
    else do
      let v ← head fuel headList
      pure (some v)
  | fuel + 1, .combine l1 => do
    let v ← head fuel l1
    pure (some v)

/-- the bodies of the `getTail` closures -/
def runT : Nat → TThunk → HM LV
  | 0, _ => IM.panic outOfFuel
  | fuel + 1, .map opt fn => do
    let t ← tail fuel opt
    lMap t fn
  | fuel + 1, .flatMap lz tl k => do
    let headList ← forceL fuel lz
    if ← isEmpty fuel headList then
      let rest ← flatMap fuel tl k
      tail fuel rest
    else do
      let ht ← tail fuel headList
      let rest ← flatMap fuel tl k
      combine fuel ht rest
  | fuel + 1, .combine l1 l2 => do
    let l1Tail ← tail fuel l1
    if !(← isEmpty fuel l1Tail) then combine fuel l1Tail l2
    else pure l2

/-- `list.FlatMap(opt, fn)` -/
def flatMap : Nat → LV → KL → HM LV
  | 0, _, _ => IM.panic outOfFuel
  | fuel + 1, opt, k => do
    if ← isEmpty fuel opt then pure .nil
    else do
      let lz ← allocLazy opt k
      let tl ← tail fuel opt
      makeList (.flatMap lz tl k) (.flatMap lz tl k)

/-- `list.Combine(l1, l2)` -/
def combine : Nat → LV → LV → HM LV
  | 0, _, _ => IM.panic outOfFuel
  | fuel + 1, l1, l2 => do
    if ← isEmpty fuel l1 then pure l2
    else makeList (.combine l1) (.combine l1 l2)

end

/-- the cursor loop `for !l.IsEmpty() { ret = append(ret, l.Head()); l = l.Tail() }` -/
def toSeq : Nat → LV → List El → HM (List El)
  | 0, _, _ => IM.panic outOfFuel
  | fuel + 1, cursor, ret => do
    if !(← isEmpty fuel cursor) then
      let v ← head fuel cursor
      let t ← tail fuel cursor
      toSeq fuel t (ret ++ [v])
    else pure ret

/-! ## the derived combinators of `list/list_op.go`, defined as the Go source defines them -/

/-- `list.Of(e...)` -/
def lOf (xs : List El) : LV := .seq xs

/-- `list.Ap(t, a) = FlatMap(t, f => Map(a, f))` -/
def lAp (fuel : Nat) (t a : LV) : HM LV := flatMap fuel t (.apInner a)

/-- `list.Map2(a, b, f) = FlatMap(a, v1 => Map(b, v2 => f(v1, v2)))` -/
def lMap2 (fuel : Nat) (a b : LV) (f : Val → Val → GoM Val) : HM LV := flatMap fuel a (.map2Inner b f)

/-- `list.Lift(f) = opt => Map(opt, f)` -/
def lLift (f : Fn) : LV → HM LV := fun opt => lMap opt f

/-- `list.Compose(f1, f2) = a => FlatMap(f1(a), f2)` -/
def lCompose (fuel : Nat) (f1 f2 : Val → GoM (List El)) : El → HM LV := fun a => do
  let xs ← IM.liftG (f1 a.val)
  flatMap fuel (.seq xs) (.user f2)

/-- `list.ComposePure(fab) = a => Of(fab(a))` -/
def lComposePure (fab : Fn) : El → HM LV := fun a => do
  let b ← IM.liftG (fab.app a)
  pure (lOf [b])

/-- `list.Flatten(opt) = FlatMap(opt, v => v)` -/
def lFlatten (fuel : Nat) (opt : LV) : HM LV := flatMap fuel opt .ident

/-- `list.Flap(tfa) = a => Ap(tfa, Of(a))` -/
def lFlap (fuel : Nat) (tfa : LV) : El → HM LV := fun a => lAp fuel tfa (lOf [a])

/-- `list.Flap2(tfab) = a => b => Flap(Ap(tfab, Of(a)))(b)`; `Ap(tfab, Of(a))` is built when the
    first argument is supplied. -/
def lFlap2 (fuel : Nat) (tfab : LV) : El → El → HM LV := fun a b => do
  let t1 ← lAp fuel tfab (lOf [a])
  lFlap fuel t1 b

/-- `list.FlapMap(tfab, a) = Flap(Map(a, as.Curried2(tfab)))` -/
def lFlapMap (fuel : Nat) (tfab : Val → Val → GoM Val) (a : LV) : El → HM LV := fun b => do
  let m ← lMap a (.c2 tfab)
  lFlap fuel m b

/-- `list.Method1(ta, fab) = FlapMap(fab, ta)` -/
def lMethod1 (fuel : Nat) (ta : LV) (fab : Val → Val → GoM Val) : El → HM LV :=
  lFlapMap fuel fab ta

/-- `list.Method2(ta, fabc) = curried.Revert2(Flap2(Map(ta, as.Curried3(fabc))))` -/
def lMethod2 (fuel : Nat) (ta : LV) (fabc : Val → Val → Val → GoM Val) : El → El → HM LV := fun b c => do
  let m ← lMap ta (.c3 fabc)
  lFlap2 fuel m b c

/-- the largest start counter of any cell: 1 = every closure ran at most once -/
def Heap.maxEvals (hp : Heap) : Nat :=
  let m1 := hp.hs.foldl (fun m c => Nat.max m c.2) 0
  let m2 := hp.ts.foldl (fun m c => Nat.max m c.2) m1
  hp.ls.foldl (fun m c => Nat.max m c.2) m2

end FpVerif.Coll
