import FpVerif.Model.IterM
/-!
# Model of the lazy `fp.List` (list.go) and package `list` (list/list_op.go)

A `ListAdaptor` is a pair of memoised thunks (`fp.Memoize` = `sync.Once`).  The model keeps the
memo cells in a heap: a cell is `pending` (closure not yet run; the closure is kept as data — which
library function created it and what it captured), `running` (inside `once.Do`: re-entering is Go's
deadlock) or `done` (the stored result).  A closure that PANICS leaves its cell `done` with the zero
value of the result type (`sync.Once` marks itself done on the panic path and `ret` was never
assigned): `None` for a head cell, the nil interface `LV.nilIface` for a tail / `lazy.Call` cell
(the model's `outOfFuel` is treated like any other panic; no Go run produces it).  Forcing a pending cell runs the closure exactly as the Go
code of that closure does; forcing a done cell returns the stored value and runs nothing.
Every cell counts how often its closure was started (`evals`).

List values (`LV`) are the four implementations of `fp.List`: `Nil`, `Cons`, `Seq` (a slice) and
`ListAdaptor` (two cell ids).  All functions take fuel (the Go recursion is unbounded on infinite
lists); running out of fuel is the panic `outOfFuel`.
-/
namespace FpVerif.LL
open FpVerif.It

inductive LV where
  | nil                                  -- list.Nil
  | cons (h : Val) (t : LV)              -- list.Cons
  | seq (xs : List Val)                  -- list.Seq
  | adaptor (hc tc : Nat)                -- fp.ListAdaptor{getHead, getTail}
  | nilIface                             -- the nil interface: zero value of `fp.List[T]` (what a memo cell
                                         -- whose thunk panicked hands out); every method call on it panics
  deriving Inhabited

/-- List-building expressions: the library calls a program makes, callbacks resolved. -/
inductive LExpr where
  | empty                                           -- list.Empty()
  | of (xs : List Val)                              -- list.Of / FromSeq / FromSlice
  | argOf (n : Nat)                                 -- list.Of(x, x+1, …) for the FlatMap argument x
  | apply (h : Val) (t : LExpr)                     -- list.Apply / list.Concat(head, tail)
  | generate (id : Int) (n : Int)                   -- list.Generate(i ↦ if i < n then Some(i) else None), logging
  | range (closed : Bool) (a b : Int)               -- list.Range / RangeClosed
  | reverse (xs : List Val)                         -- list.ReverseSeq
  | collect (id : Int) (xs : List Val)              -- list.Collect / iterator.ToList over an instrumented iterator
  | fromOption (o : Option Val)                     -- list.FromOption
  | map (e : LExpr) (f : Val → GoM Val)
  | flatMap (e : LExpr) (id : Int) (k : LExpr)      -- fn x = { log k<id>:x; k with argument x }
  | filterMap (e : LExpr) (f : Val → GoM (Option Val))
  | combine (e1 e2 : LExpr)
  | zip (e1 e2 : LExpr)
  | zipidx (e : LExpr)
  | scan (e : LExpr) (z : Val) (f : Val → Val → GoM Val)

/-- the function handed to `FlatMap`, as data -/
inductive FnK where
  | expr (id : Int) (k : LExpr)                     -- user function building a list from its argument
  | fromOption (f : Val → GoM (Option Val))         -- fp.Compose(fn, FromOption) of FilterMap

/-- closure of a `getHead` -/
inductive HThunk where
  | const (o : Option Val)
  | gen (i : Int) (g : Int → GoM (Option Val))
  | map (opt : LV) (fn : Val → GoM Val)
  | flatMap (lz : Nat) (tail : LV) (k : FnK)
  | zip (a b : LV)
  | reverse (xs : List Val)
  | combine (l1 : LV)

/-- closure of a `getTail` -/
inductive TThunk where
  | gen (i : Int) (g : Int → GoM (Option Val))
  | map (opt : LV) (fn : Val → GoM Val)
  | flatMap (lz : Nat) (tail : LV) (k : FnK)
  | zip (a b : LV)
  | scan (s : LV) (zero : Val) (f : Val → Val → GoM Val)
  | collect (it : Nat)
  | combine (l1 l2 : LV)
  | reverse (xs : List Val)

inductive Cell (T V : Type) where
  | pending (t : T)
  | running
  | done (v : V)

structure Heap where
  hs : Array (Cell HThunk (Option Val) × Nat) := #[]      -- getHead cells, with their start counter
  ts : Array (Cell TThunk LV × Nat) := #[]                -- getTail cells
  ls : Array (Cell (LV × FnK) LV × Nat) := #[]            -- lazy.Call cells of FlatMap
  its : Array (Int × List Val × Nat) := #[]               -- instrumented iterators: id, slice, idx

abbrev HM := IM Heap

def deadlock : PanicVal := "deadlock"
def listEmpty : PanicVal := "List.empty"
/-- a method call on the nil `fp.List[T]` interface: Go's runtime error "invalid memory address or nil
    pointer dereference", which the harness `cmd/iter` renders as `nil-func` (like `It.nilFunc`) -/
def nilDeref : PanicVal := "nil-func"

/-- run `m`; if it panics, apply `f` to the state it left behind and re-panic.  This is the deferred
    `o.done.Store(1)` of `sync.Once.doSlow`: a `fp.Memoize` cell whose thunk panics is DONE afterwards and
    its `ret` still holds the zero value. -/
def onPanic {X : Type} (m : HM X) (f : Heap → Heap) : HM X := fun hp lg =>
  match m hp lg with
  | (.ok x, hp', lg') => (.ok x, hp', lg')
  | (.error p, hp', lg') => (.error p, f hp', lg')

/-- `fp.MakeList(head, tail)` -/
def makeList (h : HThunk) (t : TThunk) : HM LV := fun hp lg =>
  (.ok (.adaptor hp.hs.size hp.ts.size),
   { hp with hs := hp.hs.push (.pending h, 0), ts := hp.ts.push (.pending t, 0) }, lg)

def allocLazy (opt : LV) (k : FnK) : HM Nat := fun hp lg =>
  (.ok hp.ls.size, { hp with ls := hp.ls.push (.pending (opt, k), 0) }, lg)

def allocIter (id : Int) (xs : List Val) : HM Nat := fun hp lg =>
  (.ok hp.its.size, { hp with its := hp.its.push (id, xs, 0) }, lg)

/-- `itr.NextOption()` on the instrumented slice iterator `it` -/
def iterNextOption (it : Nat) : HM (Option Val) := fun hp lg =>
  match hp.its[it]? with
  | some (id, xs, idx) =>
    match xs[idx]? with
    | some v => (.ok (some v), { hp with its := hp.its.set! it (id, xs, idx + 1) }, lg ++ [s!"s{id}:{v}"])
    | none => (.ok none, hp, lg)
  | none => (.error "bad-iterator", hp, lg)

def seqLast (xs : List Val) : Option Val := xs.getLast?
def seqInit (xs : List Val) : List Val := xs.dropLast

def rangeGen (closed : Bool) (b : Int) : Int → GoM (Option Val) := fun index =>
  pure (if (if closed then decide (index ≤ b) else decide (index < b)) then some (.int index) else none)

def generateGen (id n : Int) : Int → GoM (Option Val) := fun index => do
  emit s!"gen{id}:{index}"
  pure (if index < n then some (.int index) else none)

def indexGen : Int → GoM (Option Val) := fun index => pure (some (.int index))

mutual

/-- `l.IsEmpty()` -/
def isEmpty : Nat → LV → HM Bool
  | 0, _ => IM.panic outOfFuel
  | _, .nil => pure true
  | _, .cons _ _ => pure false
  | _, .seq xs => pure xs.isEmpty
  | _, .nilIface => IM.panic nilDeref
  | fuel + 1, .adaptor hc _ => do
    let o ← forceH fuel hc
    pure o.isNone

/-- `l.Head()` -/
def head : Nat → LV → HM Val
  | 0, _ => IM.panic outOfFuel
  | _, .nil => IM.panic listEmpty
  | _, .cons h _ => pure h
  | _, .seq xs => match xs with
    | [] => IM.panic "List.Empty"
    | x :: _ => pure x
  | _, .nilIface => IM.panic nilDeref
  | fuel + 1, .adaptor hc _ => do
    match ← forceH fuel hc with
    | some v => pure v
    | none => IM.panic listEmpty

/-- `l.Tail()` -/
def tail : Nat → LV → HM LV
  | 0, _ => IM.panic outOfFuel
  | _, .nil => pure .nil
  | _, .cons _ t => pure t
  | _, .seq xs => match xs with
    | [] => pure .nil
    | _ :: t => pure (.seq t)
  | _, .nilIface => IM.panic nilDeref
  | fuel + 1, .adaptor _ tc => forceT fuel tc

/-- `list.Head(l)`: `if l.IsEmpty() { None } else { Some(l.Head()) }` -/
def headOpt : Nat → LV → HM (Option Val)
  | 0, _ => IM.panic outOfFuel
  | fuel + 1, l => do
    if ← isEmpty fuel l then pure none
    else do let v ← head fuel l; pure (some v)

/-- the memoised `getHead` -/
def forceH : Nat → Nat → HM (Option Val)
  | 0, _ => IM.panic outOfFuel
  | fuel + 1, c => do
    let hp ← IM.get
    match hp.hs[c]? with
    | some (.done v, _) => pure v
    | some (.running, _) => IM.panic deadlock
    | some (.pending t, n) =>
      IM.modify fun hp => { hp with hs := hp.hs.set! c (.running, n + 1) }
      -- a panicking closure: the Once is done, `ret` keeps the zero `Option` = `None`
      let v ← onPanic (runH fuel t) fun hp => { hp with hs := hp.hs.set! c (.done none, n + 1) }
      IM.modify fun hp => { hp with hs := hp.hs.set! c (.done v, n + 1) }
      pure v
    | none => IM.panic "bad-cell"

/-- the memoised `getTail` -/
def forceT : Nat → Nat → HM LV
  | 0, _ => IM.panic outOfFuel
  | fuel + 1, c => do
    let hp ← IM.get
    match hp.ts[c]? with
    | some (.done v, _) => pure v
    | some (.running, _) => IM.panic deadlock
    | some (.pending t, n) =>
      IM.modify fun hp => { hp with ts := hp.ts.set! c (.running, n + 1) }
      -- a panicking closure: the Once is done, `ret` keeps the zero `fp.List` = the nil interface
      let v ← onPanic (runT fuel t) fun hp => { hp with ts := hp.ts.set! c (.done .nilIface, n + 1) }
      IM.modify fun hp => { hp with ts := hp.ts.set! c (.done v, n + 1) }
      pure v
    | none => IM.panic "bad-cell"

/-- `mappedHeadLazy.Get()` -/
def forceL : Nat → Nat → HM LV
  | 0, _ => IM.panic outOfFuel
  | fuel + 1, c => do
    let hp ← IM.get
    match hp.ls[c]? with
    | some (.done v, _) => pure v
    | some (.running, _) => IM.panic deadlock
    | some (.pending (opt, k), n) =>
      IM.modify fun hp => { hp with ls := hp.ls.set! c (.running, n + 1) }
      let v ← onPanic (do let x ← head fuel opt; applyK fuel k x)
        fun hp => { hp with ls := hp.ls.set! c (.done .nilIface, n + 1) }
      IM.modify fun hp => { hp with ls := hp.ls.set! c (.done v, n + 1) }
      pure v
    | none => IM.panic "bad-cell"

/-- the function given to `FlatMap`, applied -/
def applyK : Nat → FnK → Val → HM LV
  | 0, _, _ => IM.panic outOfFuel
  | fuel + 1, .expr id k, x => do
    IM.liftG (emit s!"k{id}:{x}")
    eval fuel k x
  | _ + 1, .fromOption f, x => do
    match ← IM.liftG (f x) with
    | some v => pure (.seq [v])
    | none => pure .nil

/-- the bodies of the `getHead` closures -/
def runH : Nat → HThunk → HM (Option Val)
  | 0, _ => IM.panic outOfFuel
  | _, .const o => pure o
  | _, .gen i g => IM.liftG (g i)
  | fuel + 1, .map opt fn => do
    match ← headOpt fuel opt with
    | some v => do let u ← IM.liftG (fn v); pure (some u)
    | none => pure none
  | fuel + 1, .flatMap lz tl k => do
    let headList ← forceL fuel lz
    if ← isEmpty fuel headList then
      let rest ← flatMap fuel tl k
      headOpt fuel rest
    else do
      let v ← head fuel headList
      pure (some v)
  | fuel + 1, .zip a b => do
    let x ← headOpt fuel a
    let y ← headOpt fuel b
    match x, y with
    | some x, some y => pure (some (.tup [x, y]))
    | _, _ => pure none
  | _, .reverse xs => pure (seqLast xs)
  | fuel + 1, .combine l1 => do
    let v ← head fuel l1
    pure (some v)

/-- the bodies of the `getTail` closures -/
def runT : Nat → TThunk → HM LV
  | 0, _ => IM.panic outOfFuel
  | _, .gen i g => makeList (.gen (i + 1) g) (.gen (i + 1) g)
  | fuel + 1, .map opt fn => do
    let t ← tail fuel opt
    makeList (.map t fn) (.map t fn)
  | fuel + 1, .flatMap lz tl k => do
    let headList ← forceL fuel lz
    if ← isEmpty fuel headList then
      let rest ← flatMap fuel tl k
      tail fuel rest
    else do
      let ht ← tail fuel headList
      let rest ← flatMap fuel tl k
      combine fuel ht rest
  | fuel + 1, .zip a b => do
    let ta ← tail fuel a
    let tb ← tail fuel b
    makeList (.zip ta tb) (.zip ta tb)
  | fuel + 1, .scan s zero f => do
    match ← headOpt fuel s with
    | some a => do
      let z ← IM.liftG (f zero a)
      let t ← tail fuel s
      makeList (.const (some z)) (.scan t z f)
    | none => pure .nil
  | _, .collect it => do
    let h ← iterNextOption it
    makeList (.const h) (.collect it)
  | fuel + 1, .combine l1 l2 => do
    let l1Tail ← tail fuel l1
    if !(← isEmpty fuel l1Tail) then combine fuel l1Tail l2
    else pure l2
  | _, .reverse xs => makeList (.reverse (seqInit xs)) (.reverse (seqInit xs))

/-- `list.FlatMap(opt, fn)` -/
def flatMap : Nat → LV → FnK → HM LV
  | 0, _, _ => IM.panic outOfFuel
  | fuel + 1, opt, k => do
    if ← isEmpty fuel opt then pure .nil
    else do
      let lz ← allocLazy opt k
      let tl ← tail fuel opt
      makeList (.flatMap lz tl k) (.flatMap lz tl k)

/-- `list.Combine(l1, l2)` -/
def combine : Nat → LV → LV → HM LV
  | 0, _, _ => IM.panic outOfFuel
  | fuel + 1, l1, l2 => do
    if ← isEmpty fuel l1 then pure l2
    else makeList (.combine l1) (.combine l1 l2)

/-- run the library calls of an expression (`x`: argument of the enclosing FlatMap function) -/
def eval : Nat → LExpr → Val → HM LV
  | 0, _, _ => IM.panic outOfFuel
  | _, .empty, _ => pure .nil
  | _, .of xs, _ => pure (.seq xs)
  | _, .argOf n, x => pure (.seq ((List.range n).map (fun (i : Nat) => Val.int (x.asInt + (i : Int)))))
  | fuel + 1, .apply h t, x => do let t ← eval fuel t x; pure (.cons h t)
  | _, .generate id n, _ => makeList (.gen 0 (generateGen id n)) (.gen 0 (generateGen id n))
  | _, .range closed a b, _ => makeList (.gen a (rangeGen closed b)) (.gen a (rangeGen closed b))
  | _, .reverse xs, _ => makeList (.reverse xs) (.reverse xs)
  | _, .collect id xs, _ => do
    let it ← allocIter id xs
    let h ← iterNextOption it
    makeList (.const h) (.collect it)
  | _, .fromOption o, _ => match o with
    | some v => pure (.seq [v])
    | none => pure .nil
  | fuel + 1, .map e f, x => do
    let l ← eval fuel e x
    makeList (.map l f) (.map l f)
  | fuel + 1, .flatMap e id k, x => do
    let l ← eval fuel e x
    flatMap fuel l (.expr id k)
  | fuel + 1, .filterMap e f, x => do
    let l ← eval fuel e x
    flatMap fuel l (.fromOption f)
  | fuel + 1, .combine e1 e2, x => do
    let l1 ← eval fuel e1 x
    let l2 ← eval fuel e2 x
    combine fuel l1 l2
  | fuel + 1, .zip e1 e2, x => do
    let a ← eval fuel e1 x
    let b ← eval fuel e2 x
    makeList (.zip a b) (.zip a b)
  | fuel + 1, .zipidx e, x => do
    let s1 ← eval fuel e x
    let idxList ← makeList (.gen 0 indexGen) (.gen 0 indexGen)
    makeList (.zip idxList s1) (.zip idxList s1)
  | fuel + 1, .scan e z f, x => do
    let s ← eval fuel e x
    makeList (.const (some z)) (.scan s z f)

end

/-! ## package `list`: loops with an explicit cursor -/

/-- `ListAdaptor.Foreach` / `ToSeq` -/
def toSeq : Nat → LV → List Val → HM (List Val)
  | 0, _, _ => IM.panic outOfFuel
  | fuel + 1, cursor, ret => do
    if !(← isEmpty fuel cursor) then
      let v ← head fuel cursor
      let t ← tail fuel cursor
      toSeq fuel t (ret ++ [v])
    else pure ret

/-- `list.Fold(s, zero, f)` -/
def fold (f : Val → Val → GoM Val) : Nat → LV → Val → HM Val
  | 0, _, _ => IM.panic outOfFuel
  | fuel + 1, cursor, sum => do
    if !(← isEmpty fuel cursor) then
      let v ← head fuel cursor
      let sum ← IM.liftG (f sum v)
      let t ← tail fuel cursor
      fold f fuel t sum
    else pure sum

/-- `list.FoldTry(s, zero, f)` -/
def foldTry (f : Val → Val → GoM (Try Val)) : Nat → LV → Val → HM (Try Val)
  | 0, _, _ => IM.panic outOfFuel
  | fuel + 1, cursor, sum => do
    if !(← isEmpty fuel cursor) then
      let v ← head fuel cursor
      match ← IM.liftG (f sum v) with
      | .success sum =>
        let t ← tail fuel cursor
        foldTry f fuel t sum
      | .failure e => pure (.failure e)
    else pure (.success sum)

/-- `list.FoldOption(s, zero, f)` as the property demands it: the cursor advances.
    (The Go loop lacks `cursor = cursor.Tail()` and never terminates when `f` succeeds — D4.) -/
def foldOption (f : Val → Val → GoM (Option Val)) : Nat → LV → Val → HM (Option Val)
  | 0, _, _ => IM.panic outOfFuel
  | fuel + 1, cursor, sum => do
    if !(← isEmpty fuel cursor) then
      let v ← head fuel cursor
      match ← IM.liftG (f sum v) with
      | some sum =>
        let t ← tail fuel cursor
        foldOption f fuel t sum
      | none => pure none
    else pure (some sum)

/-- `list.FoldError(s, f)` -/
def foldError (f : Val → GoM (Option Err)) : Nat → LV → HM (Option Err)
  | 0, _ => IM.panic outOfFuel
  | fuel + 1, cursor => do
    if !(← isEmpty fuel cursor) then
      let v ← head fuel cursor
      match ← IM.liftG (f v) with
      | some e => pure (some e)
      | none =>
        let t ← tail fuel cursor
        foldError f fuel t
    else pure none

/-- `list.FoldRight(s, zero, f)`; `lazy.Eval` by name, as for iterators.  `s.Head()` is evaluated
    before `f` is called, `s.Tail()` when the lazy argument is forced. -/
def foldRight (zero : Val) (f : Val → HM Val → HM Val) : Nat → LV → HM Val
  | 0, _ => IM.panic outOfFuel
  | fuel + 1, s => do
    if ← isEmpty fuel s then pure zero
    else do
      let h ← head fuel s
      f h (do let t ← tail fuel s; foldRight zero f fuel t)

/-- `list.FoldLeft` (via `FoldRight` over `Endo`): the list is traversed first, then `f` is applied
    left to right. -/
def foldLeft (f : Val → Val → GoM Val) (fuel : Nat) (s : LV) (zero : Val) : HM Val := do
  let xs ← toSeq fuel s []
  xs.foldlM (fun b a => IM.liftG (f b a)) zero

/-- `list.Reduce(s, m)` = `FoldRight(s, m.Empty(), (a, b) ↦ b.Map(v ↦ m.Combine(a, v)))` -/
def reduce (empty : Val) (combine : Val → Val → GoM Val) (fuel : Nat) (s : LV) : HM Val :=
  foldRight empty (fun a th => do let v ← th; IM.liftG (combine a v)) fuel s

/-- `iterator.FromList(list)`: captured `current`. -/
def fromList (fuel : Nat) : Machine (Heap × LV) Val where
  hasNext := fun (hp, cur) lg =>
    match isEmpty fuel cur hp lg with
    | (r, hp', lg') => (r.map (!·), (hp', cur), lg')
  next := fun (hp, cur) lg =>
    match isEmpty fuel cur hp lg with
    | (.ok false, hp1, lg1) =>
      match head fuel cur hp1 lg1 with
      | (.ok ret, hp2, lg2) =>
        match tail fuel cur hp2 lg2 with
        | (.ok t, hp3, lg3) => (.ok ret, (hp3, t), lg3)
        | (.error e, hp3, lg3) => (.error e, (hp3, cur), lg3)
      | (.error e, hp2, lg2) => (.error e, (hp2, cur), lg2)
    | (.ok true, hp1, lg1) => (.error nextOnEmpty, (hp1, cur), lg1)
    | (.error e, hp1, lg1) => (.error e, (hp1, cur), lg1)

/-! ## what an expression denotes (callbacks run on an empty log, their events dropped) -/

def pure1 {X : Type} [Inhabited X] (f : Val → GoM X) (x : Val) : X :=
  match (f x).run.run [] with
  | (.ok v, _) => v
  | (.error _, _) => default

def pure2 (f : Val → Val → GoM Val) (x y : Val) : Val :=
  match (f x y).run.run [] with
  | (.ok v, _) => v
  | (.error _, _) => default

def scanlV (g : Val → Val → Val) : Val → List Val → List Val
  | z, [] => [z]
  | z, a :: as => z :: scanlV g (g z a) as

def enumFrom (n : Nat) : List Val → List Val
  | [] => []
  | a :: as => .tup [.int n, a] :: enumFrom (n + 1) as

/-- the plain list a list expression stands for -/
def LExpr.denote : LExpr → Val → List Val
  | .empty, _ => []
  | .of xs, _ => xs
  | .argOf n, x => (List.range n).map (fun (i : Nat) => Val.int (x.asInt + (i : Int)))
  | .apply h t, x => h :: t.denote x
  | .generate _ n, _ => (List.range n.toNat).map (fun (i : Nat) => Val.int i)
  | .range closed a b, _ =>
      (List.range (if closed then (b + 1 - a).toNat else (b - a).toNat)).map (fun (i : Nat) => Val.int (a + i))
  | .reverse xs, _ => xs.reverse
  | .collect _ xs, _ => xs
  | .fromOption o, _ => o.toList
  | .map e f, x => (e.denote x).map (pure1 f)
  | .flatMap e _ k, x => (e.denote x).flatMap (fun y => k.denote y)
  | .filterMap e f, x => (e.denote x).filterMap (pure1 f)
  | .combine e1 e2, x => e1.denote x ++ e2.denote x
  | .zip e1 e2, x => List.zipWith (fun a b => Val.tup [a, b]) (e1.denote x) (e2.denote x)
  | .zipidx e, x => enumFrom 0 (e.denote x)
  | .scan e z f, x => scanlV (pure2 f) z (e.denote x)

/-- the largest start counter of any cell: 1 = every closure ran at most once -/
def Heap.maxEvals (hp : Heap) : Nat :=
  let m1 := hp.hs.foldl (fun m c => Nat.max m c.2) 0
  let m2 := hp.ts.foldl (fun m c => Nat.max m c.2) m1
  hp.ls.foldl (fun m c => Nat.max m c.2) m2

end FpVerif.LL
