import FpVerif.Base
import FpVerif.Model.GoSem
/-!
# The Go constructs the translator `harness/cmd/seq2lean` maps the eager `Seq` functions onto (effectful fragment)

`FpVerif/Gen/SeqGen.lean` (regenerated from the working tree on every check) is written in terms of the definitions
below.  They are the *semantics of the Go fragment* `seq2lean` accepts (work package SEQ2LEAN, Tie A for
`seq/seq_op.go` and the `fp.Seq` methods of `seq.go`), committed and fixed.  In contrast to `Model/GoSem.lean` (pure,
panicking reads totalised by `GoZero`) everything here lives in the effect monad `GoM` (panic + event log):

* a Go `func(A) B` is `A → GoM B`, calls are sequenced in Go's evaluation order;
* a read / write that panics in Go `throw`s: `idxM` (`a[i]`), `setIdxM` (`a[i] = v`), `sliceM` (`a[lo:hi]`),
  `makeSliceM` (`make([]T, n)` with `n < 0`), `optGetM` / `tryGetM` (`Get()` on `None` / a failure);
* a slice is its `List` of elements (VALUES ONLY: which backing array a result shares, capacity, and the difference
  between a nil and an empty slice are out of scope — `Model/SliceHeap.lean` + `cmd/seqheap` cover those);
  `make([]T, n)` is `n` zero values (`GoZero`), `ret[i] = v` is `List.set`, `append` is `++`, `copy` is `goCopy`;
* Go `int` is `Int` (no overflow);
* loops: ONE schema `loopM items st body rest` — the iterations run over `items` (`s` for `for _, v := range s`,
  `enumI s` for `for i, v := range s`, `indexRange n` for `for i := range s` / `for i := 0; i < n; i++`), `st` is the
  tuple of the outer variables the body assigns, the body either returns from the FUNCTION (`Step.ret`) or falls through
  to the next iteration (`Step.next`), `rest` are the statements after the loop;
* `fp.Monoid[T]` / `fp.Ord[T]` are dictionaries of effectful functions (`MonoidM`, `OrdM`);
* `lazy.Eval[B]` is a suspended computation `GoM B` (`evalDone`, `evalTailCall`): value-level reading of the trampoline.
-/
namespace FpVerif.GoSemM
open FpVerif FpVerif.GoSem

variable {α β γ ρ σ ι : Type}

/-- the zero value of a function type is the nil function: calling it panics (with `GoSem`'s instance for `α → β`) -/
instance : GoZero (GoM α) := ⟨goPanic "invalid memory address or nil pointer dereference"⟩

/-- the outcome of one loop iteration: `return r` from the enclosing function, or fall through with the new values of the
    assigned variables -/
inductive Step (ρ σ : Type) where
  | ret (r : ρ)
  | next (s : σ)

/-- the loop schema: iterations over `items`, state `st`, early return, continuation `rest` -/
def loopM (items : List ι) (st : σ) (body : ι → σ → GoM (Step ρ σ)) (rest : σ → GoM ρ) : GoM ρ :=
  match items with
  | [] => rest st
  | x :: xs => do
    let r ← body x st
    match r with
    | .ret v => pure v
    | .next st' => loopM xs st' body rest

/-- `for i, v := range s` : the pairs `(i, s[i])` -/
def enumFrom (k : Int) : List α → List (Int × α)
  | [] => []
  | a :: as => (k, a) :: enumFrom (k + 1) as

def enumI (s : List α) : List (Int × α) := enumFrom 0 s

/-- `for i := 0; i < n; i++` / `for i := range s` : the indices `0 … n-1` (none when `n ≤ 0`) -/
def indexFrom (k : Int) : Nat → List Int
  | 0 => []
  | n + 1 => k :: indexFrom (k + 1) n

def indexRange (n : Int) : List Int := indexFrom 0 n.toNat

/-- `len(s)` -/
abbrev len (s : List α) : Int := (s.length : Int)

/-- `a[i]` (panics when out of range) -/
def idxM (a : List α) (i : Int) : GoM α :=
  if i < 0 then goPanic "index out of range"
  else match a[i.toNat]? with
    | some v => pure v
    | none => goPanic "index out of range"

/-- `a[i] = v` (panics when out of range); the new contents of the slice -/
def setIdxM (a : List α) (i : Int) (v : α) : GoM (List α) :=
  if i < 0 then goPanic "index out of range"
  else if i.toNat < a.length then pure (a.set i.toNat v)
  else goPanic "index out of range"

/-- `a[lo:hi]` (panics unless `0 ≤ lo ≤ hi ≤ len(a)`; capacity beyond the length is out of scope) -/
def sliceM (a : List α) (lo hi : Int) : GoM (List α) :=
  if lo < 0 ∨ hi < lo ∨ len a < hi then goPanic "slice bounds out of range"
  else pure ((a.take hi.toNat).drop lo.toNat)

/-- `make([]T, n)` : `n` zero values -/
def makeSliceM [GoZero α] (n : Int) : GoM (List α) :=
  if n < 0 then goPanic "makeslice: len out of range" else pure (List.replicate n.toNat GoZero.zero)

/-- `copy(dst, src)` : the new contents of `dst` -/
def goCopy (dst src : List α) : List α := src.take dst.length ++ dst.drop src.length

/-- `o.Get()` on an `fp.Option` -/
def optGetM : Option α → GoM α
  | some v => pure v
  | none => goPanic "ErrOptionEmpty"

/-- `t.Get()` on an `fp.Try` -/
def tryGetM : Try α → GoM α
  | .success v => pure v
  | .failure _ => goPanic "Try.Get on failure"

/-- `option.ToSeq` as a function value -/
def optionToSeqM (o : Option α) : GoM (List α) := pure o.toList

/-- `fp.Compose(f, g)` : `f` runs first -/
def composeM (f : α → GoM β) (g : β → GoM γ) : α → GoM γ := fun a => do
  let b ← f a
  g b

/-- `fp.Monoid[T]` : `Empty()` and `Combine(a, b)` are user code -/
structure MonoidM (α : Type) where
  empty : GoM α
  combine : α → α → GoM α

/-- `fp.Ord[T]` as far as the translated files use it -/
structure OrdM (α : Type) where
  less : α → α → GoM Bool

/-- `lazy.Eval[B]` at value level: a suspended computation -/
abbrev EvalM (β : Type) := GoM β

/-- `lazy.Done(v)` -/
def evalDone (v : β) : EvalM β := pure v

/-- `lazy.TailCall(th)` : nothing runs until the result is forced; then the thunk runs and its result is forced -/
def evalTailCall (th : Unit → GoM (EvalM β)) : EvalM β := do
  let e ← th ()
  e

end FpVerif.GoSemM
