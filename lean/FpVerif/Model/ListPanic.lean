import FpVerif.Model.MemoPanic
/-!
# Memoised list cells (`fp.MakeList`, list.go) whose head / tail thunk panics

```go
type ListAdaptor[T any] struct { getHead Func0[Option[T]]; getTail Func0[List[T]] }
func MakeList[T any](head func() Option[T], tail func() List[T]) List[T] {
	return ListAdaptor[T]{Memoize(head), Memoize(tail)}
}
func (r ListAdaptor[T]) IsEmpty() bool { … return r.getHead.Apply().IsEmpty() }
func (r ListAdaptor[T]) Head() T { … opt := r.getHead.Apply(); if opt.IsEmpty() { panic("List.empty") }; return opt.Get() }
func (r ListAdaptor[T]) Tail() List[T] { … return r.getTail.Apply() }
func (r ListAdaptor[T]) Foreach(f func(v T)) {
	var cursor List[T] = r
	for cursor.NonEmpty() { f(cursor.Head()); cursor = cursor.Tail() }
}
```
`fp.Memoize` is the `sync.Once` cell of `Model/MemoPanic.lean`.  A head thunk that panics leaves `ret` = the zero
`Option` = `None`: from then on the cell says "empty list".  A tail thunk that panics leaves `ret` = the zero
`fp.List[T]` = the nil interface: from then on `Tail()` returns nil and every method call on that is a nil
dereference.  (`Model/LazyList.lean`, C12, keeps a cell whose thunk panicked in state `running`; it is only
faithful as long as no cell is forced again after a panic.  This model is.)

Cells live in a heap; a head cell is forced by `MemoPanic.get` itself; a tail thunk evaluates a Go expression of type
`fp.List[T]` (`LProg`), which may run user code first (`bindG`, `logged`, `panic`) and allocates cells.
Constructors of package `list` that are written with `fp.MakeList`: `GenerateFrom`, `Recurrence1` (list/list_op.go).
-/
namespace FpVerif.ListP
open FpVerif FpVerif.It FpVerif.MemoPanic

/-- Go expressions of type `fp.List[T]` -/
inductive LProg (T : Type) where
  | empty                                                              -- list.Empty()
  | cons (h : T) (t : LProg T)                                         -- list.Apply(h, t)
  | make (head : Nat → GoM (Option T)) (tail : Nat → LProg T)          -- fp.MakeList(head, tail)
  | generateFrom (i : Int) (g : Int → Nat → GoM (Option T))            -- list.GenerateFrom(i, g); `g i k` = k-th call of g(i)
  | recurrence1 (a : T) (rel : T → Nat → GoM T)                        -- list.Recurrence1(a, rel)
  | bindG (m : GoM T) (k : T → LProg T)                                -- user code: `v := m(); return <k v>`
  | logged (evs : List Event) (p : LProg T)
  | panic (pv : PanicVal)
  | ref (j : Nat)                                                      -- a variable of the client program

/-- values of type `fp.List[T]` -/
inductive LV (T : Type) where
  | nilIface                         -- the nil interface: zero value of `fp.List[T]`
  | nil                              -- list.Nil
  | cons (h : T) (t : LV T)          -- list.Cons
  | adaptor (hc tc : Nat)            -- fp.ListAdaptor{getHead, getTail}: two memo cells

structure HCell (T : Type) where
  f : Nat → GoM (Option T)
  cell : Cell (Option T)

structure TCell (T : Type) where
  f : Nat → LProg T
  cell : Cell (LV T)

structure Heap (T : Type) where
  heads : List (HCell T) := []
  tails : List (TCell T) := []
  roots : List (LV T) := []

abbrev HM (T : Type) := IM (Heap T)

variable {T : Type}

def badCell : PanicVal := "<<bad-cell>>"
def nilDeref : PanicVal := "nil-deref"
def listEmpty : PanicVal := "List.empty"

def emitAll (evs : List Event) : HM T Unit := fun hp lg => (.ok (), hp, lg ++ evs)

/-- `Memoize(head)`; the zero `Option[T]` is `None` -/
def allocHead (f : Nat → GoM (Option T)) : HM T Nat := fun hp lg =>
  (.ok hp.heads.length, { hp with heads := hp.heads ++ [{ f := f, cell := Cell.fresh none }] }, lg)

/-- `Memoize(tail)`; the zero `fp.List[T]` is the nil interface -/
def allocTail (f : Nat → LProg T) : HM T Nat := fun hp lg =>
  (.ok hp.tails.length, { hp with tails := hp.tails ++ [{ f := f, cell := Cell.fresh .nilIface }] }, lg)

/-- evaluating a Go expression of type `fp.List[T]` -/
def build : LProg T → HM T (LV T)
  | .empty => pure .nil
  | .cons h t => do let tv ← build t; pure (.cons h tv)
  | .make head tail => do
    let hc ← allocHead head
    let tc ← allocTail tail
    pure (.adaptor hc tc)
  | .generateFrom i g => do
    -- MakeList(func() { return generator(startIndex) }, func() { return GenerateFrom(startIndex+1, generator) })
    let hc ← allocHead (g i)
    let tc ← allocTail (fun _ => .generateFrom (i + 1) g)
    pure (.adaptor hc tc)
  | .recurrence1 a rel => do
    -- MakeList(func() { return Some(a1) }, func() { return Recurrence1(relation(a1), relation) })
    let hc ← allocHead (fun _ => pure (some a))
    let tc ← allocTail (fun n => .bindG (rel a n) (fun r => .recurrence1 r rel))
    pure (.adaptor hc tc)
  | .bindG m k => do let v ← IM.liftG m; build (k v)
  | .logged evs p => do emitAll evs; build p
  | .panic pv => IM.panic pv
  | .ref j => fun hp lg =>
    match hp.roots[j]? with
    | some e => (.ok e, hp, lg)
    | none => (.error "<<bad-ref>>", hp, lg)

/-- `r.getHead.Apply()`: `MemoPanic.get` on head cell `c` -/
def forceH (c : Nat) : HM T (Option T) := fun hp lg =>
  match hp.heads[c]? with
  | none => (.error badCell, hp, lg)
  | some hc =>
    match get hc.f hc.cell lg with
    | (r, cell', lg') => (r, { hp with heads := hp.heads.set c { hc with cell := cell' } }, lg')

/-- `r.getTail.Apply()`: `once.Do(func() { ret = tail() }); return ret` -/
def forceT (c : Nat) : HM T (LV T) := fun hp lg =>
  match hp.tails[c]? with
  | none => (.error badCell, hp, lg)
  | some tc =>
    if tc.cell.done then (.ok tc.cell.ret, hp, lg)
    else
      match build (tc.f tc.cell.runs) hp lg with
      | (.ok e, hp', lg') =>
        (.ok e, { hp' with tails := hp'.tails.set c { tc with cell := { done := true, ret := e, runs := tc.cell.runs + 1 } } }, lg')
      | (.error p, hp', lg') =>
        (.error p, { hp' with tails := hp'.tails.set c { tc with cell := { tc.cell with done := true, runs := tc.cell.runs + 1 } } }, lg')

/-- `l.IsEmpty()` -/
def isEmpty : LV T → HM T Bool
  | .nilIface => IM.panic nilDeref
  | .nil => pure true
  | .cons _ _ => pure false
  | .adaptor hc _ => do let o ← forceH hc; pure o.isNone

/-- `l.Head()` -/
def head : LV T → HM T T
  | .nilIface => IM.panic nilDeref
  | .nil => IM.panic listEmpty
  | .cons h _ => pure h
  | .adaptor hc _ => do
    match ← forceH hc with
    | some v => pure v
    | none => IM.panic listEmpty

/-- `l.Tail()` -/
def tail : LV T → HM T (LV T)
  | .nilIface => IM.panic nilDeref
  | .nil => pure .nil
  | .cons _ t => pure t
  | .adaptor _ tc => forceT tc

/-- `l.ToSeq()`: the loop `for cursor.NonEmpty() { f(cursor.Head()); cursor = cursor.Tail() }` of
    `ListAdaptor.Foreach` (`Cons.Foreach` — `f(head); tail.Foreach(f)` — and `Nil.Foreach` perform the same method
    calls on the same cells in the same order, so one loop stands for the three) -/
def toSeq : Nat → LV T → List T → HM T (List T)
  | 0, _, _ => IM.panic outOfFuel
  | n + 1, cursor, acc => do
    if ← isEmpty cursor then pure acc
    else do
      let h ← head cursor
      let t ← tail cursor
      toSeq n t (acc ++ [h])

-- client programs -------------------------------------------------------------------------------------------------

inductive Cmd (T : Type) where
  | define (p : LProg T)         -- `x_j := <p>` under recover (`x_j` stays nil if the expression panics)
  | isEmpty (j : Nat)
  | head (j : Nat)
  | tailOf (j : Nat)             -- `x_new := x_j.Tail()` under recover (`x_new` stays nil if it panics)
  | toSeq (j : Nat)

/-- what the client observes -/
inductive Ans (T : Type) where
  | unit
  | bool (b : Bool)
  | val (v : T)
  | isNil (b : Bool)             -- `x_new == nil`
  | seq (xs : List T)

def root (j : Nat) : HM T (LV T) := fun hp lg =>
  match hp.roots[j]? with
  | some e => (.ok e, hp, lg)
  | none => (.error "<<bad-ref>>", hp, lg)

def pushRoot (e : LV T) : HM T Unit := fun hp lg => (.ok (), { hp with roots := hp.roots ++ [e] }, lg)

def LV.isNilIface : LV T → Bool
  | .nilIface => true
  | _ => false

def exec (fuel : Nat) : Cmd T → HM T (Except PanicVal (Ans T))
  | .define p => do
    match ← attempt (build p) with
    | .ok e => pushRoot e; pure (.ok .unit)
    | .error pv => pushRoot .nilIface; pure (.error pv)
  | .isEmpty j => do
    match ← attempt (do let l ← root j; isEmpty l) with
    | .ok b => pure (.ok (.bool b))
    | .error pv => pure (.error pv)
  | .head j => do
    match ← attempt (do let l ← root j; head l) with
    | .ok v => pure (.ok (.val v))
    | .error pv => pure (.error pv)
  | .tailOf j => do
    match ← attempt (do let l ← root j; tail l) with
    | .ok t => pushRoot t; pure (.ok (.isNil t.isNilIface))
    | .error pv => pushRoot .nilIface; pure (.error pv)
  | .toSeq j => do
    match ← attempt (do let l ← root j; toSeq fuel l []) with
    | .ok xs => pure (.ok (.seq xs))
    | .error pv => pure (.error pv)

def execAll (fuel : Nat) : List (Cmd T) → HM T (List (Except PanicVal (Ans T)))
  | [] => pure []
  | c :: cs => do
    let r ← exec fuel c
    let rs ← execAll fuel cs
    pure (r :: rs)

end FpVerif.ListP
