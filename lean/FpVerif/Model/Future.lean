import FpVerif.Base
/-!
# Model of `fp.Future` / package `future` at task granularity (C06)

Layering (DESIGN.md C06): a promise is an *atomic* single-assignment cell with exactly-once callback
delivery — that is what C05 establishes for `fp.Promise` at the granularity of individual atomic
steps; here one *task* (one `ExecuteUnsafe`d runnable) is one atomic step.

`Future.OnComplete(cb)` registers `t => executor.ExecuteUnsafe(func(){ cb(t) })`: when the promise
completes (or at once if it already has) a task is put into the pool; tasks run in any order.
User functions passed to combinators are writer functions (`W`: value + events); a user function
returning a future returns a *construction program* `FExpr` (the library calls it makes), in which
captured future handles appear as `ref p`.
-/
namespace FpVerif.Fut

abbrev W (α : Type) := α × List Event


/-- Programs that construct futures: exactly the primitives of future.go / future/future_op.go;
    every derived combinator is a Lean function producing an `FExpr` (below), mirroring its Go body. -/
inductive FExpr where
  | ref (p : Nat)                                             -- an existing future handle
  | successful (v : Val)                                      -- future.Successful
  | failed (e : Err)                                          -- future.Failed
  | successfulOf (e : FExpr)                                  -- Successful(h) where h is the handle of the future `e` builds (a future of a future)
  | logged (evs : List Event) (e : FExpr)                     -- user code logged `evs` before building `e`
  | flatMap (e : FExpr) (k : Val → FExpr)                     -- future.FlatMap / Future.FlatMap
  | transform (e : FExpr) (f : Try Val → W (Try Val))         -- future.Transform; Future.Map/Recover/RecoverCase/Failed
  | transformWith (e : FExpr) (k : Try Val → FExpr)           -- future.TransformWith
  | recoverWith (e : FExpr) (d : Err → Bool) (k : Err → FExpr)  -- Future.RecoverWith / Or / RecoverCaseWith (d = isDefinedAt)
  | orFuture (e alt : FExpr)                                  -- Future.OrFuture (both operands built first)
  | apply (f : Unit → W (Try Val))                            -- future.Apply / Apply2 / FuncN (panic already a Failure)

/-- callbacks registered on a promise (the closures the library creates) -/
inductive CB where
  | flatMapA (k : Val → FExpr) (np : Nat)
  | completeWith (np : Nat)
  | transformA (f : Try Val → W (Try Val)) (np : Nat)
  | transformWithA (k : Try Val → FExpr) (np : Nat)
  | recoverWithA (d : Err → Bool) (k : Err → FExpr) (np : Nat)
  | orFutureA (q : Nat) (np : Nat)
  | observe (id : Nat)                                        -- the harness's own OnComplete observer

inductive Task where
  | cb (c : CB) (t : Try Val)
  | applyT (f : Unit → W (Try Val)) (np : Nat)

structure Net where
  status : Nat → Option (Try Val)
  cbs : Nat → List CB
  next : Nat
  pool : List Task
  log : List Event
  /-- every `Complete` call so far: promise and whether it returned true -/
  completes : List (Nat × Bool)
  /-- ghost: the expression (over handles) each derived promise was created for; `ref p` for sources -/
  spec : Nat → FExpr

def Net.empty (nsrc : Nat) : Net :=
  { status := fun _ => none, cbs := fun _ => [], next := nsrc, pool := [], log := [], completes := [],
    spec := fun p => .ref p }

/-- allocate a promise (`promise.New`), recording what it is for -/
def fresh (sp : FExpr) (n : Net) : Nat × Net :=
  (n.next, { n with next := n.next + 1, spec := fun q => if q = n.next then sp else n.spec q })

/-- `OnComplete`: pending → remember the callback; completed → its task is queued at once. -/
def onComplete (p : Nat) (c : CB) (n : Net) : Net :=
  match n.status p with
  | some t => { n with pool := n.pool ++ [Task.cb c t] }
  | none => { n with cbs := fun q => if q = p then n.cbs p ++ [c] else n.cbs q }

/-- `Promise.Complete`: first call wins, fires every registered callback (each becomes one task). -/
def complete (p : Nat) (t : Try Val) (n : Net) : Net :=
  match n.status p with
  | some _ => { n with completes := n.completes ++ [(p, false)] }
  | none =>
    { n with
      status := fun q => if q = p then some t else n.status q
      pool := n.pool ++ (n.cbs p).map (fun c => Task.cb c t)
      cbs := fun q => if q = p then [] else n.cbs q
      completes := n.completes ++ [(p, true)] }

/-- a future handle carried as a value (futures of futures: `Flatten`, `LiftM`) -/
def handle (p : Nat) : Val := .tup [.str "fut", .int p]
def unhandle : Val → Nat
  | .tup [.str "fut", .int p] => p.toNat
  | _ => 0

/-- run a construction program: returns the handle of the future it yields -/
def build : FExpr → Net → Nat × Net
  | .ref p, n => (p, n)
  | .successful v, n => let (np, n) := fresh (.successful v) n; (np, complete np (.success v) n)
  | .failed e, n => let (np, n) := fresh (.failed e) n; (np, complete np (.failure e) n)
  | .successfulOf e, n =>
    let (q, n) := build e n
    let (np, n) := fresh (.successfulOf (.ref q)) n
    (np, complete np (.success (handle q)) n)
  | .logged evs e, n => build e { n with log := n.log ++ evs }
  | .flatMap e k, n =>
    let (p, n) := build e n
    let (np, n) := fresh (.flatMap (.ref p) k) n
    (np, onComplete p (.flatMapA k np) n)
  | .transform e f, n =>
    let (p, n) := build e n
    let (np, n) := fresh (.transform (.ref p) f) n
    (np, onComplete p (.transformA f np) n)
  | .transformWith e k, n =>
    let (p, n) := build e n
    let (np, n) := fresh (.transformWith (.ref p) k) n
    (np, onComplete p (.transformWithA k np) n)
  | .recoverWith e d k, n =>
    let (p, n) := build e n
    let (np, n) := fresh (.recoverWith (.ref p) d k) n
    (np, onComplete p (.recoverWithA d k np) n)
  | .orFuture e alt, n =>
    let (p, n) := build e n
    let (q, n) := build alt n
    let (np, n) := fresh (.orFuture (.ref p) (.ref q)) n
    (np, onComplete p (.orFutureA q np) n)
  | .apply f, n =>
    let (np, n) := fresh (.apply f) n
    (np, { n with pool := n.pool ++ [Task.applyT f np] })

/-- the body of one task -/
def runTask (tk : Task) (n : Net) : Net :=
  match tk with
  | .applyT f np => let (r, evs) := f (); complete np r { n with log := n.log ++ evs }
  | .cb (.flatMapA k np) t =>
    match t with
    | .success v => let (q, n) := build (k v) n; onComplete q (.completeWith np) n
    | .failure e => complete np (.failure e) n
  | .cb (.completeWith np) t => complete np t n
  | .cb (.transformA f np) t => let (r, evs) := f t; complete np r { n with log := n.log ++ evs }
  | .cb (.transformWithA k np) t => let (q, n) := build (k t) n; onComplete q (.completeWith np) n
  | .cb (.recoverWithA d k np) t =>
    match t with
    | .success v => complete np (.success v) n
    | .failure e =>
      if d e then let (q, n) := build (k e) n; onComplete q (.completeWith np) n
      else complete np (.failure e) n
  | .cb (.orFutureA q np) t =>
    match t with
    | .success v => complete np (.success v) n
    | .failure _ => onComplete q (.completeWith np) n
  | .cb (.observe id) t => { n with log := n.log ++ [s!"obs{id}:{Val.ofTry t}"] }

/-- scheduler events -/
inductive Ev where
  | run (i : Nat)                       -- run the i-th task of the pool
  | src (p : Nat) (t : Try Val)         -- the environment completes source promise p
  | mk (e : FExpr)                      -- the program constructs a new future from existing handles
  | obs (p : Nat) (id : Nat)            -- the program registers its own OnComplete observer on p

def step (n : Net) : Ev → Net
  | .run i =>
    match n.pool[i]? with
    | some tk => runTask tk { n with pool := n.pool.eraseIdx i }
    | none => n
  | .src p t => complete p t n
  | .mk e => (build e n).2
  | .obs p id => onComplete p (.observe id) n

def runEvs (n : Net) (evs : List Ev) : Net := evs.foldl step n

-- derived combinators of future/future_op.go, as written there -------------------------------------------

/-- `future.Map(opt, f) = FlatMap(opt, v => Successful(f(v)))` -/
def map (e : FExpr) (f : Val → W Val) : FExpr :=
  .flatMap e (fun v => let (r, evs) := f v; .logged evs (.successful r))

/-- `future.Map2(a, b, f) = FlatMap(a, v1 => Map(b, v2 => f(v1, v2)))` — `b` is a captured handle -/
def map2 (a b : Nat) (f : Val → Val → W Val) : FExpr :=
  .flatMap (.ref a) (fun v1 => map (.ref b) (fun v2 => f v1 v2))

def zip (a b : Nat) : FExpr := map2 a b (fun x y => (.tup [x, y], []))

/-- `future.Flatten(opt) = FlatMap(opt, v => v)`; a future-valued value is a handle -/
def flatten (e : FExpr) : FExpr := .flatMap e (fun v => .ref (unhandle v))

/-- `future.LiftM(fa)(ta) = Flatten(Map(ta, fa))`: `Map` wraps the future `fa(v)` returns as a value,
    `Flatten` unwraps it again (three more task hops than `FlatMap(ta, fa)`). -/
def liftM (fa : Val → FExpr) (ta : Nat) : FExpr :=
  flatten (.flatMap (.ref ta) (fun v => .successfulOf (fa v)))

/-- `future.FlatMap` with a user function returning a future -/
def flatMapK (e : FExpr) (k : Val → FExpr) : FExpr := .flatMap e k

/-- `future.Compose(f1, f2)(a) = FlatMap(f1(a), f2)` -/
def compose (f1 f2 : Val → FExpr) (a : Val) : FExpr := .flatMap (f1 a) f2

/-- `Seq.Add` on a sequence carried as a value -/
def snocV (xs x : Val) : Val :=
  match xs with
  | .seq l => .seq (l ++ [x])
  | o => o

/-- `Sequence(futures) = Map(Fold(futures, Successful([]), LiftA2(Seq.Add)), Widen)` -/
def sequenceAcc : List Nat → FExpr → FExpr
  | [], acc => acc
  | p :: ps, acc =>
    sequenceAcc ps (.flatMap acc (fun xs => map (.ref p) (fun x => (snocV xs x, []))))

def sequence (ps : List Nat) : FExpr := map (sequenceAcc ps (.successful (.seq []))) (fun l => (l, []))

/-- `future.TraverseSeq(seq, fn) = iterator.FoldFuture(seq, [], (acc, v) => Map(fn(v), acc.Add))`;
    `FoldFuture` chains `acc.FlatMap(...)` over an already successful promise. -/
def traverseAcc (fn : Val → FExpr) : List Val → FExpr → FExpr
  | [], acc => acc
  | v :: vs, acc =>
    traverseAcc fn vs (.flatMap acc (fun xs => map (fn v) (fun x => (snocV xs x, []))))

def traverseSeq (xs : List Val) (fn : Val → FExpr) : FExpr := traverseAcc fn xs (.successful (.seq []))

-- Try-level reference semantics ---------------------------------------------------------------------------

/-- Value a future expression denotes, given the (eventual) status of the handles it refers to and a way
    to evaluate the futures a user function builds; three-valued: `none` = not (yet) determined. -/
def bindOk (o : Option (Try Val)) (f : Val → Option (Try Val)) : Option (Try Val) :=
  match o with
  | some (.success v) => f v
  | some (.failure err) => some (.failure err)
  | none => none

def bindTry (o : Option (Try Val)) (f : Try Val → Option (Try Val)) : Option (Try Val) :=
  match o with
  | some t => f t
  | none => none

def evalS (σ : Nat → Option (Try Val)) : FExpr → Option (Try Val)
  | .ref p => σ p
  | .successful v => some (.success v)
  | .failed e => some (.failure e)
  | .successfulOf _ => none      -- futures of futures have no first-order denotation (see `FirstOrder`)
  | .logged _ e => evalS σ e
  | .flatMap e k => bindOk (evalS σ e) (fun v => evalS σ (k v))
  | .transform e f => (evalS σ e).map (fun t => (f t).1)
  | .transformWith e k => bindTry (evalS σ e) (fun t => evalS σ (k t))
  | .recoverWith e d k =>
    bindTry (evalS σ e) (fun t =>
      match t with
      | .success v => some (.success v)
      | .failure err => if d err then evalS σ (k err) else some (.failure err))
  | .orFuture e alt =>
    bindTry (evalS σ e) (fun t =>
      match t with
      | .success v => some (.success v)
      | .failure _ => evalS σ alt)
  | .apply f => some (f ()).1

end FpVerif.Fut
