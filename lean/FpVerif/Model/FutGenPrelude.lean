import FpVerif.Model.FutureChain
/-!
# Hand-written readings used by the generated translation `Gen/FutGen.lean` (work package FUTTIE) — TRUSTED

Only helpers of OTHER packages that the derived combinators of `future/future_op.go` call:
`iterator.Fold` over a slice of futures, `iterator.FoldFuture`, `iterator.Map(iterator.FromSeq(a), f).ToSeq()`.
(`fp.Const`, `product.Tuple2`, `as.Tuple3`, `fp.Seq.Add`, `Widen`, `iterator.FromSeq`, `fp.Compose` are emitted inline
by the translator as lambdas.)  The helpers themselves are tied by the iter / misc harnesses.
-/
namespace FpVerif.FutGenPrelude
open FpVerif FpVerif.Fut

/-- `iterator.Fold(iterator.FromSlice(futures), zero, step)`: a left fold, `step(acc, p)` called synchronously -/
def foldFuts (step : FExpr → Nat → FExpr) : List Nat → FExpr → FExpr
  | [], acc => acc
  | p :: ps, acc => foldFuts step ps (step acc p)

/-- the fold of `iterator.FoldFuture` (iterator_op.go:345-353): `Fold(itr, Successful(zero), (acc, v) => acc.FlatMap(a => fn(a, v), ctx...))` -/
def foldFutureAcc (fn : Val → Val → FExpr) : List Val → FExpr → FExpr
  | [], acc => acc
  | v :: vs, acc => foldFutureAcc fn vs (.flatMap acc (fun a => fn a v))

/-- `iterator.FoldFuture(itr, zero, fn, ctx...)`; `fn` already applied to the executor its task runs on -/
def foldFuture (itr zero : Val) (fn : Val → Val → FExpr) : FExpr :=
  foldFutureAcc fn (elems itr) (.successful zero)

/-- `iterator.Map(iterator.FromSeq(a), f).ToSeq()` inside ONE callback: every call of `f` in order, logs concatenated -/
def mapSeqW (f : Val → W Val) (a : Val) : W Val :=
  let rs := (elems a).map f
  (.seq (rs.map (·.1)), (rs.map (·.2)).flatten)

end FpVerif.FutGenPrelude
