import FpVerif.Model.IterM
/-!
# `Memoize` with thunks that panic and have effects (lazy.Memoize, fp.Memoize, fn1.Memoize)

```go
func Memoize[T any](f func() T) func() T {        // lazy/lazy.go; fp.go and fn1/fn1.go are the same code
	once := sync.Once{}
	var ret T
	return func() T {
		once.Do(func() { ret = f() })
		return ret
	}
}
// sync/once.go (Go 1.23)
func (o *Once) Do(f func()) { if o.done.Load() == 0 { o.doSlow(f) } }
func (o *Once) doSlow(f func()) {
	o.m.Lock(); defer o.m.Unlock()
	if o.done.Load() == 0 { defer o.done.Store(1); f() }
}
```
`done` is stored on the panic path too (`defer`), the assignment `ret = …` is not reached when `f` panics:
the caller that ran `f` sees the panic, every other call returns `ret`, which still is the zero value.

A thunk is `f : Nat → GoM T`: `f k` is what the `k`-th execution of the Go closure does (a Go closure may
capture mutable state, so two executions need not behave alike: "panics the first time, would return 42 the
second time" is `f 0 = panic`, `f 1 = pure 42`).  `Unit → GoM T` is the special case of a constant `f`.

* part 1: one goroutine (`get`, `getN`, `getArgs`), effects in `GoM` through `It.IM` (state + log + panic; state and
  log survive a panic);
* part 2: any number of goroutines, each performing a number of calls, under every interleaving of the atomic
  steps of `sync.Once` (`Sys`, `step`, `runSched`);
* mutants (NOT the library): `getNoOnce` (flag set after `f` returned), `stepNoLock` (no mutex).
-/
namespace FpVerif.MemoPanic
open FpVerif FpVerif.It

variable {T A σ X : Type}

-- ================================================================================== 1. sequential

/-- the variables captured by the closure that `Memoize` returns.  `runs` is a ghost counter: how often `f` has
    been STARTED. -/
structure Cell (T : Type) where
  done : Bool        -- `once.done`
  ret : T            -- `var ret T`
  runs : Nat
  deriving Repr

/-- `once := sync.Once{}; var ret T` -/
def Cell.fresh (zero : T) : Cell T := { done := false, ret := zero, runs := 0 }

/-- one call of the memoised function: `once.Do(func() { ret = f() }); return ret` -/
def get (f : Nat → GoM T) : IM (Cell T) T := fun c lg =>
  if c.done then (.ok c.ret, c, lg)                                   -- fast path; `return ret`
  else
    match (f c.runs).run.run lg with                                   -- doSlow: `defer done.Store(1); f()`
    | (.ok v, lg') => (.ok v, { done := true, ret := v, runs := c.runs + 1 }, lg')
    | (.error p, lg') => (.error p, { c with done := true, runs := c.runs + 1 }, lg')

/-- a call under `recover()`: the outcome becomes a value; state and log are kept -/
def attempt (m : IM σ X) : IM σ (Except PanicVal X) := fun s lg =>
  match m s lg with
  | (r, s', lg') => (.ok r, s', lg')

/-- `n` recovered calls in a row -/
def getN (f : Nat → GoM T) : Nat → IM (Cell T) (List (Except PanicVal T))
  | 0 => pure []
  | n + 1 => do
    let r ← attempt (get f)
    let rs ← getN f n
    pure (r :: rs)

/-- `fn1.Memoize(f)` called with the arguments `as`, one recovered call after the other: the call with argument
    `a` is `once.Do(func() { ret = f(a) }); return ret` -/
def getArgs (f : A → Nat → GoM T) : List A → IM (Cell T) (List (Except PanicVal T))
  | [] => pure []
  | a :: as => do
    let r ← attempt (get (f a))
    let rs ← getArgs f as
    pure (r :: rs)

/-- what the cell holds after the one execution of `f` had outcome `r`: its value, or the zero value -/
def memoOf (zero : T) : Except PanicVal T → T
  | .ok v => v
  | .error _ => zero

/-- MUTANT, not the library: `if !done { ret = f(); done = true }; return ret` — the flag is set only when `f`
    returned, so a panicking `f` is started again by the next call. -/
def getNoOnce (f : Nat → GoM T) : IM (Cell T) T := fun c lg =>
  if c.done then (.ok c.ret, c, lg)
  else
    match (f c.runs).run.run lg with
    | (.ok v, lg') => (.ok v, { done := true, ret := v, runs := c.runs + 1 }, lg')
    | (.error p, lg') => (.error p, { c with runs := c.runs + 1 }, lg')

def getNNoOnce (f : Nat → GoM T) : Nat → IM (Cell T) (List (Except PanicVal T))
  | 0 => pure []
  | n + 1 => do
    let r ← attempt (getNoOnce f)
    let rs ← getNNoOnce f n
    pure (r :: rs)

-- ================================================================================== 2. concurrent

/-- outcome of one execution of `f` -/
inductive Out (T : Type) where
  | value (v : T)
  | panic (p : PanicVal)
  deriving Repr, DecidableEq

/-- how one call of the memoised function ended, as its caller sees it -/
inductive Res (T : Type) where
  | returned (v : T)
  | panicked (p : PanicVal)
  deriving Repr, DecidableEq

def Res.isPanic : Res T → Bool
  | .panicked _ => true
  | .returned _ => false

/-- where a goroutine is inside `once.Do` -/
inductive PC (T : Type) where
  | idle                       -- not inside a call
  | locking                    -- saw `done == 0` on the fast path; blocked in / about to perform `o.m.Lock()`
  | locked                     -- holds the mutex; next: the second `o.done.Load()`
  | running (k : Nat)          -- holds the mutex; `f` has been started (its `k`-th execution) and has not finished
  | stored (o : Out T)         -- `f` finished with `o` (`ret = v` performed if it returned); next: `defer o.done.Store(1)`
  | unlocking (o : Out T)      -- `done` is stored; next: `defer o.m.Unlock()`, then `return ret` / the panic unwinds
  deriving Repr

/-- a goroutine: its program (`todo` = number of calls it still has to start), where it is, and the outcomes of
    the calls it has completed, in order -/
structure Thread (T : Type) where
  todo : Nat
  pc : PC T
  results : List (Res T)
  deriving Repr

structure Sys (T : Type) where
  done : Bool                  -- `once.done`
  mutex : Bool                 -- `once.m` is held
  ret : T                      -- `var ret T`
  runs : Nat                   -- ghost: how often `f` was STARTED
  finished : Nat               -- ghost: how often `f` finished (returned or panicked)
  runner : Option Nat          -- ghost: the goroutine that started `f` last
  threads : List (Thread T)
  deriving Repr

/-- One atomic step of goroutine `i`.  `out k` is the outcome of the `k`-th execution of `f`.
    A step that cannot be taken (blocked on the mutex, nothing left to do, no such goroutine) leaves the
    system unchanged. -/
def step (out : Nat → Out T) (s : Sys T) (i : Nat) : Sys T :=
  match s.threads[i]? with
  | none => s
  | some t =>
    match t.pc with
    | .idle =>
      match t.todo with
      | 0 => s
      | k + 1 =>
        -- a new call: `if o.done.Load() == 0 { o.doSlow(f) }; return ret`
        if s.done then
          { s with threads := s.threads.set i { todo := k, pc := .idle, results := t.results ++ [.returned s.ret] } }
        else
          { s with threads := s.threads.set i { t with todo := k, pc := .locking } }
    | .locking =>
      if s.mutex then s                                                     -- blocked in `o.m.Lock()`
      else { s with mutex := true, threads := s.threads.set i { t with pc := .locked } }
    | .locked =>
      if s.done then                                                         -- lost the race: unlock, `return ret`
        { s with mutex := false,
                 threads := s.threads.set i { t with pc := .idle, results := t.results ++ [.returned s.ret] } }
      else                                                                   -- `defer o.done.Store(1); f()`
        { s with runs := s.runs + 1, runner := some i, threads := s.threads.set i { t with pc := .running s.runs } }
    | .running k =>
      match out k with
      | .value v =>                                                          -- `ret = f()`
        { s with ret := v, finished := s.finished + 1, threads := s.threads.set i { t with pc := .stored (.value v) } }
      | .panic p =>                                                          -- the assignment is not reached
        { s with finished := s.finished + 1, threads := s.threads.set i { t with pc := .stored (.panic p) } }
    | .stored o =>
      { s with done := true, threads := s.threads.set i { t with pc := .unlocking o } }
    | .unlocking o =>
      { s with mutex := false,
               threads := s.threads.set i
                 { t with pc := .idle,
                          results := t.results ++ [match o with
                                                   | .value _ => .returned s.ret
                                                   | .panic p => .panicked p] } }

/-- goroutine `i` is going to perform `progs[i]` calls -/
def init (zero : T) (progs : List Nat) : Sys T :=
  { done := false, mutex := false, ret := zero, runs := 0, finished := 0, runner := none,
    threads := progs.map (fun n => { todo := n, pc := .idle, results := [] }) }

def runSched (out : Nat → Out T) (s : Sys T) (sched : List Nat) : Sys T := sched.foldl (step out) s

/-- the value every returning call must deliver: what the first execution of `f` returned, or the zero value -/
def memoVal (zero : T) (out : Nat → Out T) : T :=
  match out 0 with
  | .value v => v
  | .panic _ => zero

/-- nothing left to do anywhere -/
def Thread.quiet (t : Thread T) : Bool :=
  match t.pc, t.todo with
  | .idle, 0 => true
  | _, _ => false

def Sys.quiescent (s : Sys T) : Bool := s.threads.all Thread.quiet

/-- the round-robin schedule: `rounds` times `0, 1, …, n-1` -/
def roundRobin (n : Nat) : Nat → List Nat
  | 0 => []
  | r + 1 => List.range n ++ roundRobin n r

/-- MUTANT, not the library: a `Once` without the mutex (`if done == 0 { defer done.Store(1); f() }`):
    `locking` never blocks. -/
def stepNoLock (out : Nat → Out T) (s : Sys T) (i : Nat) : Sys T :=
  match s.threads[i]? with
  | some t =>
    match t.pc with
    | .locking => { s with mutex := true, threads := s.threads.set i { t with pc := .locked } }
    | _ => step out s i
  | none => s

end FpVerif.MemoPanic
