/-!
# The shape of the shared-memory operations of a Go function (Tie C, work package ATOMFACTS)

`harness/cmd/atomfacts` extracts, for every function / method / closure of the files the concurrency models
describe, the events below in Go's evaluation order, as a regular structure: sequence (`Sq`), branch (`Sh.br`,
one alternative per `if`/`else`, `switch` clause, short-circuit operand), loop (`Sh.loop`, `for` / `range`).
The table itself (`FpVerif/Gen/AtomFacts.lean`) is regenerated from the working tree on every run; this file is
the committed vocabulary plus the analyses the committed theorems (`Spec/C05Facts`, `C19Facts`, `C16AtomFacts`)
decide on it:

* `inlineSq`  – replace calls of the `internal/atomic` wrappers by the wrapper's own shape;
* `check`     – the hook discipline, path-sensitively (every path, loops to a fixpoint):
  the atomic blocks of the Lean step machines are "the code between two yields", so between two yields there may be at
  most ONE access other goroutines can observe.  In Lipton's terms a block must have the form
  (right-movers | both-movers)* non-mover? (left-movers | both-movers)*, where `lock` is a right-mover, `unlock` a
  left-mover, a `load` while holding the lock of a cell whose stores all happen under that lock a both-mover, and every
  other access (lock-free `load`, `store`, `cas`, `append` into a possibly shared array, `once.Do`, a plain field
  access) a non-mover.  `Mode.strict` demands in addition what the models literally assume: a lock-free access and a
  `lock` are IMMEDIATELY preceded by EXACTLY ONE yield.
-/
namespace FpVerif.AtomShape

inductive Ev where
  | yield (label : String)
  | load | store | cas | rmw
  | lock | unlock | deferUnlock
  | onceDo (closure : String)
  | append
  | call (callee : String)
  | cb
  | rvar (i : Nat) | wvar (i : Nat)
  | fload (f : String) | fstore (f : String)
  | spawnHook | goStmt
  | ret | panic
  | other (what : String)
  deriving DecidableEq, Repr, Inhabited

mutual
inductive Sh where
  | ev (e : Ev)
  | br (alts : Alts)
  | loop (body : Sq)
inductive Sq where
  | nil
  | cons (h : Sh) (t : Sq)
inductive Alts where
  | nil
  | cons (h : Sq) (t : Alts)
end

deriving instance DecidableEq for Sh, Sq, Alts
deriving instance Repr for Sh, Sq, Alts

/-! ### notation used by the generated table and by the expected skeletons -/

def seq : List Sh → Sq
  | [] => .nil
  | h :: t => .cons h (seq t)

def alts : List Sq → Alts
  | [] => .nil
  | h :: t => .cons h (alts t)

abbrev y (l : String) : Sh := .ev (.yield l)
abbrev a (e : Ev) : Sh := .ev e
abbrev br (l : List Sq) : Sh := .br (alts l)
abbrev loop (s : Sq) : Sh := .loop s

structure AFunc where
  file : String
  name : String
  body : Sq
  deriving DecidableEq, Repr

def Sq.append : Sq → Sq → Sq
  | .nil, r => r
  | .cons h t, r => .cons h (Sq.append t r)

/-! ### traversals -/

mutual
def Sh.events : Sh → List Ev
  | .ev e => [e]
  | .br as => as.events
  | .loop b => b.events
def Sq.events : Sq → List Ev
  | .nil => []
  | .cons h t => h.events ++ t.events
def Alts.events : Alts → List Ev
  | .nil => []
  | .cons h t => h.events ++ t.events
end

def Ev.isYield : Ev → Bool
  | .yield _ => true
  | _ => false

/-- an operation on shared memory / a synchronisation object performed by this very function -/
def Ev.isAccess : Ev → Bool
  | .load | .store | .cas | .rmw | .lock | .unlock | .deferUnlock | .onceDo _ | .append
  | .fload _ | .fstore _ | .other _ => true
  | _ => false

def Ev.label? : Ev → Option String
  | .yield l => some l
  | _ => none

def Ev.callee? : Ev → Option String
  | .call f => some f
  | _ => none

def AFunc.events (f : AFunc) : List Ev := f.body.events
def AFunc.callees (f : AFunc) : List String := f.events.filterMap Ev.callee?
def AFunc.labels (f : AFunc) : List String := f.events.filterMap Ev.label?
def AFunc.accesses (f : AFunc) : List Ev := f.events.filter Ev.isAccess

def lookup (tbl : List AFunc) (name : String) : Option AFunc := tbl.find? (fun f => f.name == name)

def bodyOf (tbl : List AFunc) (name : String) : Sq :=
  match lookup tbl name with
  | some f => f.body
  | none => seq [a (.other ("missing function " ++ name))]

/-! ### inlining of wrappers

A wrapper is a function whose shape is a straight line (no branch, no loop) with at most one `ret`, at the very end.
`inlineSq w` replaces every `call c` with `(c, body) ∈ w` by `body` without that final `ret`. -/

/-- straight-line body without its final `ret`; `none` when the function is not of that form -/
def straight : Sq → Option (List Ev)
  | .nil => some []
  | .cons (.ev .ret) .nil => some []
  | .cons (.ev .ret) (.cons _ _) => none
  | .cons (.ev .panic) _ => none
  | .cons (.ev e) t => (straight t).map (e :: ·)
  | .cons (.br _) _ => none
  | .cons (.loop _) _ => none

def evsToSq : List Ev → Sq → Sq
  | [], k => k
  | e :: es, k => .cons (.ev e) (evsToSq es k)

abbrev Wrappers := List (String × List Ev)

def Wrappers.find (w : Wrappers) (c : String) : Option (List Ev) :=
  match w.find? (fun p => p.1 == c) with
  | some p => some p.2
  | none => none

mutual
def inlineSq (w : Wrappers) : Sq → Sq
  | .nil => .nil
  | .cons (.ev (.call c)) t =>
    match w.find c with
    | some evs => evsToSq evs (inlineSq w t)
    | none => .cons (.ev (.call c)) (inlineSq w t)
  | .cons (.ev e) t => .cons (.ev e) (inlineSq w t)
  | .cons (.br as) t => .cons (.br (inlineAlts w as)) (inlineSq w t)
  | .cons (.loop b) t => .cons (.loop (inlineSq w b)) (inlineSq w t)
def inlineAlts (w : Wrappers) : Alts → Alts
  | .nil => .nil
  | .cons h t => .cons (inlineSq w h) (inlineAlts w t)
end

/-! ### the hook discipline -/

inductive Phase where
  | yielded    -- the last event was a yield, exactly one
  | yielded2   -- the last events were two or more yields in a row
  | pre        -- since the last yield: only right- / both-movers (and user callbacks)
  | post       -- since the last yield: a non-mover (or: unknown, the state at function entry and after a call)
  deriving DecidableEq, Repr, Inhabited

structure St where
  phase : Phase
  held : Bool       -- this goroutine holds the mutex
  deferred : Bool   -- a deferred Unlock is pending
  deriving DecidableEq, Repr, Inhabited

inductive Mode where
  | strict   -- (a) every lock-free access / Lock is immediately preceded by exactly one yield
  | mover    -- (b) no two non-commuting accesses without a yield between them on any path
  deriving DecidableEq, Repr

structure Disc where
  mode : Mode
  /-- the cell is written under a mutex only (CopyOnWriteMap); `false`: lock-free cell (Promise) -/
  storesNeedLock : Bool
  deriving DecidableEq, Repr

/-- outcome of one event in one state: a violation, the end of the path, or the next state -/
inductive Res where
  | bad (why : String)
  | stop
  | go (s : St)
  deriving DecidableEq, Repr

def nonMover (d : Disc) (what : String) (s : St) : Res :=
  let ok :=
    match d.mode, s.held, s.phase with
    | .strict, false, .yielded => true
    | .strict, true, .yielded => true
    | .strict, true, .pre => true
    | .mover, _, .yielded => true
    | .mover, _, .yielded2 => true
    | .mover, _, .pre => true
    | _, _, _ => false
  if ok then .go { s with phase := .post }
  else .bad (what ++ (match s.phase with
                      | .post => ": another access since the last yield (or no yield at all)"
                      | .yielded2 => ": more than one yield in front of it"
                      | .pre => ": not immediately preceded by a yield"
                      | .yielded => ""))

def atExit (s : St) : Res :=
  if s.held && !s.deferred then .bad "returns while holding the lock" else .stop

def stepEv (d : Disc) (e : Ev) (s : St) : Res :=
  match e with
  | .yield _ =>
    .go { s with phase := match s.phase with
                          | .yielded | .yielded2 => .yielded2
                          | _ => .yielded }
  | .load =>
    if s.held && d.storesNeedLock then
      -- both-mover: nobody stores while we hold the lock
      .go { s with phase := match s.phase with
                            | .yielded | .yielded2 => .pre
                            | p => p }
    else nonMover d "load" s
  | .store =>
    if d.storesNeedLock && !s.held then .bad "store without holding the lock" else nonMover d "store" s
  | .cas => nonMover d "cas" s
  | .rmw => nonMover d "rmw" s
  | .append => nonMover d "append" s
  | .onceDo _ => nonMover d "once.Do" s
  | .fload f => nonMover d ("read of field " ++ f) s
  | .fstore f => nonMover d ("write of field " ++ f) s
  | .other w => .bad ("unexpected synchronisation construct: " ++ w)
  | .lock =>
    if s.held then .bad "Lock while holding the lock"
    else
      let ok :=
        match d.mode, s.phase with
        | _, .yielded => true
        | .mover, .yielded2 => true
        | .mover, .pre => true
        | _, _ => false
      if ok then .go { s with phase := .pre, held := true }
      else .bad "Lock: not immediately preceded by exactly one yield"
  | .unlock =>
    if !s.held then .bad "Unlock without holding the lock"
    else .go { s with phase := .post, held := false }
  | .deferUnlock =>
    if !s.held then .bad "defer Unlock without holding the lock"
    else .go { s with deferred := true }
  | .call _ => .go { s with phase := .post }
  | .cb =>
    .go { s with phase := match s.phase with
                          | .yielded | .yielded2 => .pre
                          | p => p }
  | .rvar _ | .wvar _ | .spawnHook | .goStmt => .go s
  | .ret | .panic => atExit s

/-- a set of states, or the first violation found -/
abbrev Sts := Except String (List St)

def insertSt (s : St) (l : List St) : List St := if l.contains s then l else l ++ [s]
def unionSt (l r : List St) : List St := r.foldl (fun acc s => insertSt s acc) l

def stepAll (d : Disc) (e : Ev) : List St → Sts
  | [] => .ok []
  | s :: rest =>
    match stepEv d e s with
    | .bad why => .error why
    | .stop => stepAll d e rest
    | .go s' =>
      match stepAll d e rest with
      | .error why => .error why
      | .ok l => .ok (insertSt s' l)

def subsetSt (l r : List St) : Bool := l.all r.contains

mutual
def flowSh (d : Disc) : Sh → List St → Sts
  | .ev e, ss => stepAll d e ss
  | .br as, ss => flowAlts d as ss
  | .loop b, ss =>
    -- states at the loop head after 0, 1, 2, 3 iterations; then the set must be closed under the body
    match flowSq d b ss with
    | .error why => .error why
    | .ok s1 =>
      let h1 := unionSt ss s1
      match flowSq d b h1 with
      | .error why => .error why
      | .ok s2 =>
        let h2 := unionSt h1 s2
        match flowSq d b h2 with
        | .error why => .error why
        | .ok s3 =>
          let h3 := unionSt h2 s3
          match flowSq d b h3 with
          | .error why => .error why
          | .ok s4 => if subsetSt s4 h3 then .ok h3 else .error "loop: no fixpoint after 4 rounds"
def flowSq (d : Disc) : Sq → List St → Sts
  | .nil, ss => .ok ss
  | .cons h t, ss =>
    match flowSh d h ss with
    | .error why => .error why
    | .ok ss' => flowSq d t ss'
def flowAlts (d : Disc) : Alts → List St → Sts
  | .nil, _ => .ok []
  | .cons h t, ss =>
    match flowSq d h ss with
    | .error why => .error why
    | .ok l =>
      match flowAlts d t ss with
      | .error why => .error why
      | .ok r => .ok (unionSt l r)
end

/-- state at function entry: the caller may just have performed an access; no lock held -/
def entry : St := ⟨.post, false, false⟩

/-- `none` = the function obeys the discipline on every path; `some why` = the first violation -/
def check (d : Disc) (body : Sq) : Option String :=
  match flowSq d body [entry] with
  | .error why => some why
  | .ok ends =>
    -- falling off the end of the function is a return
    match ends.find? (fun s => s.held && !s.deferred) with
    | some _ => some "falls off the end while holding the lock"
    | none => none

/-- the violations of a list of functions (after inlining the wrappers `w`) -/
def violations (d : Disc) (w : Wrappers) (fs : List AFunc) : List (String × String) :=
  fs.filterMap (fun f => (check d (inlineSq w f.body)).map (fun why => (f.name, why)))

/-! ### reachability of the cell -/

/-- functions of `tbl` that perform an access themselves -/
def directTouchers (tbl : List AFunc) : List String :=
  (tbl.filter (fun f => !f.accesses.isEmpty)).map (·.name)

/-- one round: add the functions calling a function of `set` (closures count for themselves); `aliases` resolves an
    interface method to the method of its implementor -/
def callersOf (tbl : List AFunc) (aliases : List (String × String)) (set : List String) : List String :=
  (tbl.filter (fun f => set.contains f.name ||
      f.callees.any (fun c => set.contains c || (match aliases.lookup c with
                                                | some c' => set.contains c'
                                                | none => false)))).map (·.name)

def reach (tbl : List AFunc) (aliases : List (String × String)) : Nat → List String → List String
  | 0, s => s
  | n + 1, s => reach tbl aliases n (callersOf tbl aliases s)

end FpVerif.AtomShape
