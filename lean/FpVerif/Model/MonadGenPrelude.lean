import FpVerif.Model.MonadFamily
/-!
# Prelude of the regenerated translation of the monad family (`FpVerif/Gen/MonadGen.lean`)

`harness/cmd/monad2lean` translates `option_monad.go`, `try_monad.go`, `either_monad.go`, `state_monad.go` (and the
`*_traverse.go` files) of the working tree into Lean definitions over `MonadOps C`.  The generated Go code calls a
handful of PURE helpers of other packages; their Lean readings are fixed HERE, by hand (trusted; each one is a
one-liner mirroring the helper's Go body, and each helper is itself exercised against the real code by the
differential harness named next to it).  Conventions as in `Model/MonadFamily.lean`: a plain Go function
`func(A) B` is `A → GoM B`; `fp.Func1[A, fp.Func1[B, R]]` is `A → GoM (B → GoM R)`; a Go function whose result
is monadic is `A → C B`; `fp.Seq[A]`, `[]A`, `fp.Iterator[A]` are `List A`; `fp.Tuple2[A,B]` is `A × B`.
-/
namespace FpVerif.MonadGenPrelude
variable {C : Type → Type} {A B D R X Y : Type}

/-- `fp.Compose2(f, g)` / `fp.Compose(f, g)` = `func(a) { return g(f(a)) }` for a plain callback `f` and a `g` with
    monadic result (`Pure`): run `f`, continue with `g`.  (fp.go; arity harness, op `fp.Compose2`) -/
def composeSeq (o : MonadOps C) (f : A → GoM B) (g : B → C D) : A → C D := fun a => o.seq (f a) g

/-- `fp.Compose(f, g)` where `f` already yields a computation (`FlapMap(fab, ta)`) and `g` is a function of
    computations (`Flatten`).  (fp.go; arity harness) -/
def composeC (f : A → X) (g : X → Y) : A → Y := fun a => g (f a)

/-- `fp.Const[A](b)` = `func(_ A) R { return b }`  (fp.go; misc harness) -/
def constF (b : R) : A → GoM R := fun _ => Pure.pure b

/-- `fp.Id` as a function value (not used by the generated files today; lets an edit that inserts it be translated) -/
def idF : A → GoM A := fun a => Pure.pure a

/-- `fp.Flip2(f)` = `func(b) func(a) { return f(a, b) }`  (fp.go; arity harness) -/
def flip2 (f : A → B → GoM R) : B → GoM (A → GoM R) := fun b => Pure.pure (fun a => f a b)

/-- `curried.Func2(f)` = `func(a1) func(a2) { return f(a1, a2) }`  (curried/curried_gen.go; arity harness) -/
def curriedFunc2 (f : A → B → GoM R) : A → GoM (B → GoM R) := fun a => Pure.pure (fun b => f a b)

/-- `curried.Func3(f)`  (curried/curried_gen.go; arity harness) -/
def curriedFunc3 (f : A → B → D → GoM R) : A → GoM (B → GoM (D → GoM R)) :=
  fun a => Pure.pure (fun b => Pure.pure (fun c => f a b c))

/-- `curried.Revert2(f)` = `func(a1, a2) { return f(a1)(a2) }`, for an `f` whose stages only build a computation
    (`Flap2(…)`)  (curried/curried_gen.go; arity harness) -/
def revert2 (f : A → B → X) : A → B → X := fun a b => f a b

/-- `curried.Compose2(f, g)` = `func(a) func(b) { return g(f(a)(b)) }`, same proviso  (curried/curried.go; arity harness) -/
def curriedCompose2 (f : A → B → X) (g : X → Y) : A → B → Y := fun a b => g (f a b)

/-- `product.Tuple2` as a function value  (product/product_op.go; arity harness) -/
def tuple2 : A → B → GoM (A × B) := fun a b => Pure.pure (a, b)

/-- `product.Tuple3` as a function value  (product/tuple_gen.go; arity harness) -/
def tuple3 : A → B → D → GoM (A × B × D) := fun a b c => Pure.pure (a, b, c)

/-- `xtr.Head` / `xtr.Tail` at `fp.Tuple2` (`t.Head()` = `t.I1`, `t.Tail()` = `t.I2`)  (xtr/xtr.go, tuple_gen.go; arity harness) -/
def head2 : A × B → GoM A := fun p => Pure.pure p.1
def tail2 : A × B → GoM B := fun p => Pure.pure p.2

/-- `iterator.Map(iterator.FromSeq(a), f).ToSeq()`: `f` on every element, in order  (iterator harness, C12) -/
def seqLift (f : A → GoM B) : List A → GoM (List B) := fun as => as.mapM f

/-- `iterator.FromSeq` / `fp.IteratorOfSeq` as function values (sequences, slices and iterators are all lists here) -/
def seqId : List A → GoM (List A) := fun l => Pure.pure l

/-- `fp.Seq[R].Widen` as a function value -/
def seqWiden : List A → GoM (List A) := fun l => Pure.pure l

/-- the method value `acc.Add`  (seq.go; listx / coll harness) -/
def seqAdd (acc : List A) : A → GoM (List A) := fun r => Pure.pure (acc ++ [r])

-- unfolding equations (the definitions above are lambdas: `simp only [composeSeq]` does not fire on a partial application)
theorem composeSeq_def (o : MonadOps C) (f : A → GoM B) (g : B → C D) : composeSeq o f g = fun a => o.seq (f a) g := rfl
theorem composeC_def (f : A → X) (g : X → Y) : composeC f g = fun a => g (f a) := rfl
theorem curriedFunc2_def (f : A → B → GoM R) : curriedFunc2 f = fun a => Pure.pure (fun b => f a b) := rfl
theorem curriedFunc3_def (f : A → B → D → GoM R) :
    curriedFunc3 f = fun a => Pure.pure (fun b => Pure.pure (fun c => f a b c)) := rfl
theorem revert2_def (f : A → B → X) : revert2 f = fun a b => f a b := rfl
theorem curriedCompose2_def (f : A → B → X) (g : X → Y) : curriedCompose2 f g = fun a b => g (f a b) := rfl

end FpVerif.MonadGenPrelude
