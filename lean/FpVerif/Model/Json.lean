import FpVerif.Model.Record
/-!
# JSON methods of `fp.Option[T]`, `fp.Unit` and of `@fp.Json` structs (C15).

Modelled statement by statement:

* `option.go`:  `Option[T].MarshalJSON`, `(*Option[T]).UnmarshalJSON`
* `fp.go`:      `Unit.MarshalJSON`, `(*Unit).UnmarshalJSON`
* `cmd/gombok/gombok.go` (`processValue`, `@fp.Json`): the generated
  `MarshalJSON` (`m := r.AsMutable(); return json.Marshal(m)`) and `UnmarshalJSON`
  (`if r == nil {…}; m := r.AsMutable(); err := json.Unmarshal(b, &m); if err == nil { *r = m.AsImmutable() }; return err`)
  over the record model of `FpVerif.Model.Record`.

NOT modelled: `encoding/json` itself.  `json.Marshal` / `json.Unmarshal` *for one Go type `T`* is an
abstract `Codec E T`.  `dec` receives the CURRENT value of the target because `json.Unmarshal(b, &t)`
decodes *into* an existing value (an object key absent from `b` keeps the old field, `null` into a
non-pointer is a no-op, …).  Where Go declares a fresh `var t T` the model passes `zero : T`.
Trusted about the abstract codec: it does not panic and `json.Marshal` succeeds (`enc` is total; a
value whose encoding fails is outside every `Faithful` hypothesis anyway).

A pointer receiver `r *X` is `Option X` (`none` = nil pointer, `some cur` = `*r == cur`); the outcome
of a method call is `Res`: the memory behind the receiver after the call + the returned `error`.
-/
namespace FpVerif.Json
open FpVerif.Rec

abbrev Bytes := List UInt8

/-- `[]byte("null")` -/
def nullLit : Bytes := [110, 117, 108, 108]

/-- `encoding/json` for the Go type `T` (abstract). `dec b cur` = `json.Unmarshal(b, &x)` with `x == cur` before the call. -/
structure Codec (E T : Type) where
  enc : T → Bytes
  dec : Bytes → T → Except E T

/-- decoding the encoding of `v` into a target that currently holds `start` gives `v` back -/
def Faithful {E T : Type} (c : Codec E T) (start v : T) : Prop := c.dec (c.enc v) start = .ok v

/-- The guard of `UnmarshalJSON`: `len(b) > 0 && b[0] != 'n'`.
    `b[0]` type-checks only because the enclosing `if` supplies `h : 0 < b.length`: the index
    expression cannot be out of range (Go: cannot panic). -/
def firstNotN (b : Bytes) : Bool :=
  if h : 0 < b.length then b[0]'h != 110 else false

/-- "the JSON encoding of `v` is not null", exactly as the decoder tests it: the guard
    `len(b) > 0 && b[0] != 'n'` holds on `enc v`. -/
def NotNull {E T : Type} (c : Codec E T) (v : T) : Prop := firstNotN (c.enc v) = true

/-- errors returned by the modelled methods: their own nil-receiver error, or whatever `json.Unmarshal` returned -/
inductive UErr (E : Type) where
  | nilTarget                -- `fp.Error(http.StatusBadRequest, "target ptr is nil")`
  | inner (e : E)
  deriving DecidableEq, Repr

/-- outcome of a pointer-receiver method -/
structure Res (E T : Type) where
  /-- memory behind the receiver after the call (`none` iff the receiver is the nil pointer) -/
  mem : Option T
  /-- returned error (`none` = nil) -/
  err : Option E
  deriving DecidableEq, Repr

/-! ## `fp.Option[T]` -/

/-- `func (r Option[T]) MarshalJSON() ([]byte, error)` -/
def Opt.marshalJSON {E T : Type} (c : Codec E T) : Option T → Bytes
  | some v => c.enc v            -- `if r.IsDefined() { return json.Marshal(r.Get()) }`
  | none => nullLit              -- `return []byte("null"), nil`

/-- `func (r *Option[T]) UnmarshalJSON(b []byte) error` -/
def Opt.unmarshalJSON {E T : Type} (c : Codec E T) (zero : T) (b : Bytes) (r : Option (Option T)) :
    Res (UErr E) (Option T) :=
  match r with
  | none => ⟨none, some .nilTarget⟩                    -- `if r == nil { return Error(…) }`
  | some cur =>
    if firstNotN b then                                 -- `if len(b) > 0 { if b[0] != 'n' {`
      match c.dec b zero with                           -- `var t T; err := json.Unmarshal(b, &t)`
      | .ok t => ⟨some (some t), none⟩                  -- `if err == nil { *r = Some(t) }; return err`
      | .error e => ⟨some cur, some (.inner e)⟩         -- `return err`
    else ⟨some none, none⟩                              -- `*r = None[T](); return nil`

/-- what a caller that owns the variable `x` (`x == cur`) sees after `err := (&x).M(…)`: the error,
    or the new content of `x` -/
def Res.asDec {E T : Type} (res : Res E T) (cur : T) : Except E T :=
  match res.err with
  | some e => .error e
  | none => .ok (res.mem.getD cur)

/-- `fp.Option[T]` as seen through its `json.Marshaler`/`json.Unmarshaler` methods is again a codec
    (so `Option[Option[T]]`, `Option[T]` struct fields … are expressible). -/
def optionCodec {E T : Type} (c : Codec E T) (zero : T) : Codec (UErr E) (Option T) where
  enc := Opt.marshalJSON c
  dec b cur := (Opt.unmarshalJSON c zero b (some cur)).asDec cur

/-- `json.Unmarshal` runs a syntax check (`checkValid`) over the whole input before it calls any
    `UnmarshalJSON` method: `chk b = some e` rejects `b`. -/
def Codec.checked {E T : Type} (chk : Bytes → Option E) (c : Codec E T) : Codec E T where
  enc := c.enc
  dec b cur :=
    match chk b with
    | some e => .error e
    | none => c.dec b cur

/-! ## `fp.Unit` -/

/-- `func (r Unit) MarshalJSON() ([]byte, error) { return []byte("null"), nil }` -/
def GoUnit.marshalJSON (_r : Unit) : Bytes := nullLit

/-- `func (r *Unit) UnmarshalJSON(data []byte) error { return nil }` — no nil check, nothing written -/
def GoUnit.unmarshalJSON {E : Type} (_data : Bytes) (r : Option Unit) : Res E Unit := ⟨r, none⟩

def unitCodec {E : Type} : Codec E Unit where
  enc := GoUnit.marshalJSON
  dec b cur := (GoUnit.unmarshalJSON b (some cur)).asDec cur

/-! ## `@fp.Json` structs.  `mc` is `encoding/json` for the generated *Mutable twin*. -/

/-- generated `func (r T) MarshalJSON() ([]byte, error)` -/
def structMarshal {E : Type} (s : StructSpec) (mc : Codec E Rec) (x : Rec) : Bytes :=
  let m := asMutable s x                               -- `m := r.AsMutable()`
  mc.enc m                                             -- `return json.Marshal(m)`

/-- generated `func (r *T) UnmarshalJSON(b []byte) error` -/
def structUnmarshal {E : Type} (s : StructSpec) (mc : Codec E Rec) (b : Bytes) (r : Option Rec) :
    Res (UErr E) Rec :=
  match r with
  | none => ⟨none, some .nilTarget⟩                    -- `if r == nil { return fp.Error(…) }`
  | some cur =>
    let m := asMutable s cur                            -- `m := r.AsMutable()`
    match mc.dec b m with                               -- `err := json.Unmarshal(b, &m)`
    | .ok m' => ⟨some (asImmutable s m'), none⟩         -- `if err == nil { *r = m.AsImmutable() }`
    | .error e => ⟨some cur, some (.inner e)⟩           -- `return err`

/-- an `@fp.Json` struct seen through its generated methods is again a codec (struct-typed fields) -/
def structCodec {E : Type} (s : StructSpec) (mc : Codec E Rec) : Codec (UErr E) Rec where
  enc := structMarshal s mc
  dec b cur := (structUnmarshal s mc b (some cur)).asDec cur

/-! ## basic facts about the guard -/

@[simp] theorem firstNotN_nil : firstNotN [] = false := rfl

@[simp] theorem firstNotN_cons (b0 : UInt8) (bs : Bytes) : firstNotN (b0 :: bs) = (b0 != 110) := by
  simp [firstNotN]

@[simp] theorem firstNotN_nullLit : firstNotN nullLit = false := by
  simp [nullLit]

/-- the guard, spelled with `head?`: non-empty and the first byte is not `'n'` -/
theorem firstNotN_iff (b : Bytes) : firstNotN b = true ↔ b ≠ [] ∧ b.head? ≠ some 110 := by
  cases b <;> simp

end FpVerif.Json
