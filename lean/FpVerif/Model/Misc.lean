import FpVerif.Base
import FpVerif.Model.Memo
import FpVerif.Model.TypeClasses
/-!
# The non-indexed conversions and adapters (C14 remainder; monoid adapters also C11)

One definition per Go function, mirroring its body.  User callbacks are `A → GoM B` (they may log
and panic); Go's `&&` / `||` are the short-circuit `if`s they are.

* `as/as.go`: `PartialFunc`, `SeqNonNil`, `Ptr`, `Interface`, `Any`, `InstanceOf`, `Named`,
  `NamedWithTag`, `MapEntry`, `Left`, `Right`, `Generic`, `Supplier`, `Predicate`
* `fp.go`: `Predicate.Negate/And/Or`, `Not`, `And`, `Or`, `PartialFunc.Unapply/OrElse`,
  `ConvertNumber`, `IsInstanceOf`, `ConstS`, `With`, `Test`, `TestWith`, `Max`,
  `RuntimeNamed.Name/Value/WithValue/Tag/WithTag`
* `product/product_op.go`: `FromHNil`, `MapKey`, `MapValue`, `LiftKey`, `LiftValue`, `Split`
* `hlist/hlist.go`: `Unapply`;  `unit/unit_op.go`: `Func0`, `Failure`;  `lazy/lazy.go`: `Func1..3`
* `monoid.go`: `SemigroupFunc.Empty/Curried`, `monoid.ToMonoid/Curried`; `monoid/monoid_op.go`:
  `New`, `monoid.ToMonoid/Curried`

What is NOT modelled: pointer identity beyond a list-shaped heap (`Ptr`), floating point
instantiations of `ConvertNumber` / `Max` (never printed, never generated), the method sets of Go
types beyond the abstract relation `hasType` (dynamic type × target type ↦ Bool).
-/
namespace FpVerif.Misc
open FpVerif

variable {T R K V A B L D Ty : Type}

-- ------------------------------------------------------------------------------------------------
-- fp.PartialFunc, as.PartialFunc

/-- `type PartialFunc[T, R] struct { IsDefinedAt func(T) bool; Apply func(T) R }` -/
structure PartialFunc (T R : Type) where
  isDefinedAt : T → GoM Bool
  apply : T → GoM R

/-- `as.PartialFunc(isDefinedAt, apply) = fp.PartialFunc{IsDefinedAt: isDefinedAt, Apply: apply}` -/
def asPartialFunc (isDefinedAt : T → GoM Bool) (apply : T → GoM R) : PartialFunc T R :=
  { isDefinedAt := isDefinedAt, apply := apply }

/-- `r.Unapply() = r.IsDefinedAt, r.Apply` -/
def PartialFunc.unapply (r : PartialFunc T R) : (T → GoM Bool) × (T → GoM R) := (r.isDefinedAt, r.apply)

/-- `r.OrElse(other)`: `IsDefinedAt(t) = r.IsDefinedAt(t) || other.IsDefinedAt(t)`;
    `Apply(t) = if r.IsDefinedAt(t) { return r.Apply(t) }; return other.Apply(t)` -/
def PartialFunc.orElse (r other : PartialFunc T R) : PartialFunc T R :=
  { isDefinedAt := fun t => do
      if (← r.isDefinedAt t) then pure true else other.isDefinedAt t
    apply := fun t => do
      if (← r.isDefinedAt t) then r.apply t else other.apply t }

-- ------------------------------------------------------------------------------------------------
-- as.SeqNonNil, as.Ptr

/-- one iteration of the loop of `as.SeqNonNil`: `if v != nil { ret = append(ret, *v) }` -/
def seqNonNilStep (ret : List T) (v : Option T) : List T :=
  match v with
  | some x => ret ++ [x]
  | none => ret

/-- `as.SeqNonNil(s []*T)`: `ret := make([]T, 0, len(s)); for _, v := range s { if v != nil { ret = append(ret, *v) } }`.
    A `*T` is `none` (nil) or the pointee read at the time of the call. -/
def seqNonNil (s : List (Option T)) : List T := s.foldl seqNonNilStep []

/-- a heap of cells of type `T`: a pointer is an index -/
abbrev Heap (T : Type) := List T

/-- `as.Ptr(v) = &v`: the parameter `v` is a fresh variable holding a copy of the argument -/
def ptr (v : T) (h : Heap T) : Nat × Heap T := (h.length, h ++ [v])

def Heap.deref (h : Heap T) (p : Nat) : Option T := h[p]?
def Heap.store (h : Heap T) (p : Nat) (v : T) : Heap T := h.set p v

-- ------------------------------------------------------------------------------------------------
-- as.Interface, as.Any, as.InstanceOf, fp.IsInstanceOf
--
-- A value of interface type carries its dynamic type; `hasType v t` says whether the type assertion
-- `v.(t)` succeeds (identical type for a concrete `t`, method-set inclusion for an interface `t`,
-- never for a nil interface value).

/-- `a.(T)`: the value itself, or a run-time panic -/
def typeAssert (hasType : D → Ty → Bool) (v : D) (t : Ty) : GoM D :=
  if hasType v t then pure v else goPanic "typeassert"

/-- `as.Any(v) = v` (boxed into `any`) -/
def asAny (v : D) : D := v

/-- `as.Interface[T, I](v) = { var a any = v; return a.(I) }` -/
def asInterface (hasType : D → Ty → Bool) (v : D) (i : Ty) : GoM D := typeAssert hasType (asAny v) i

/-- `as.InstanceOf[T](v any) = v.(T)` -/
def asInstanceOf (hasType : D → Ty → Bool) (v : D) (t : Ty) : GoM D := typeAssert hasType v t

/-- `fp.IsInstanceOf[T, I](v I) = { if _, ok := any(v).(T); ok { return true }; return false }` -/
def isInstanceOf (hasType : D → Ty → Bool) (v : D) (t : Ty) : Bool :=
  if hasType (asAny v) t then true else false

/-- the dynamic values the harness uses -/
inductive Dyn where
  | int (n : Int) | str (s : String) | nv (n : Int) | cerr (n : Int) | unit | nil
  deriving DecidableEq, Repr

/-- the assertion targets the harness uses: five concrete types, the interfaces `fp.Named`, `error`, `any` -/
inductive GoTy where
  | int | str | nv | cerr | unit | iNamed | iError | iAny
  deriving DecidableEq, Repr

/-- Go's rule at these types: `NV` has the method `Name() string`, `CodeErr` has `Error() string` -/
def Dyn.hasType : Dyn → GoTy → Bool
  | .nil, _ => false
  | _, .iAny => true
  | .int _, .int => true
  | .str _, .str => true
  | .nv _, .nv => true
  | .nv _, .iNamed => true
  | .cerr _, .cerr => true
  | .cerr _, .iError => true
  | .unit, .unit => true
  | _, _ => false

-- ------------------------------------------------------------------------------------------------
-- fp.RuntimeNamed, as.Named, as.NamedWithTag

/-- `type RuntimeNamed[T any] Tuple3[string, T, string]` -/
structure RuntimeNamed (V : Type) where
  i1 : String
  i2 : V
  i3 : String
  deriving Repr

/-- `as.Named(name, v) = RuntimeNamed{I1: name, I2: v, I3: ""}` -/
def asNamed (name : String) (v : V) : RuntimeNamed V := { i1 := name, i2 := v, i3 := "" }
/-- `as.NamedWithTag(name, v, tag) = RuntimeNamed{I1: name, I2: v, I3: tag}` -/
def asNamedWithTag (name : String) (v : V) (tag : String) : RuntimeNamed V := { i1 := name, i2 := v, i3 := tag }

def RuntimeNamed.name (r : RuntimeNamed V) : String := r.i1
def RuntimeNamed.value (r : RuntimeNamed V) : V := r.i2
/-- `r.WithValue(v) = RuntimeNamed{r.I1, v, r.I3}` -/
def RuntimeNamed.withValue (r : RuntimeNamed V) (v : V) : RuntimeNamed V := { i1 := r.i1, i2 := v, i3 := r.i3 }
def RuntimeNamed.tag (r : RuntimeNamed V) : String := r.i3
/-- `r.WithTag(v) = RuntimeNamed{r.I1, r.I2, v}` -/
def RuntimeNamed.withTag (r : RuntimeNamed V) (v : String) : RuntimeNamed V := { i1 := r.i1, i2 := r.i2, i3 := v }

-- ------------------------------------------------------------------------------------------------
-- as.MapEntry, Left, Right, Generic, Supplier, Predicate

/-- `as.MapEntry(xtrKey) = func(v) { return Tuple2(xtrKey(v), v) }` -/
def asMapEntry (xtrKey : V → GoM K) : V → GoM (K × V) := fun v => do
  let k ← xtrKey v
  pure (k, v)

/-- `as.Left[E](l) = fp.Left[L, R](l)` -/
def asLeft (l : L) : Sum L R := .inl l
/-- `as.Right[E](r) = fp.Right[L, R](r)` -/
def asRight (r : R) : Sum L R := .inr r

/-- `fp.Generic[T, Repr]` -/
structure Generic (T Repr : Type) where
  type : String
  kind : String
  to : T → GoM Repr
  «from» : Repr → GoM T

/-- `as.Generic(tpe, kind, to, from) = fp.Generic{Type: tpe, Kind: kind, To: to, From: from}` -/
def asGeneric {Repr : Type} (tpe kind : String) (to : T → GoM Repr) (frm : Repr → GoM T) : Generic T Repr :=
  { type := tpe, kind := kind, to := to, «from» := frm }

/-- `as.Supplier(v) = func() T { return v }` -/
def asSupplier (v : T) : Unit → GoM T := fun _ => pure v

/-- `fp.Predicate[T]` -/
abbrev Pred (T : Type) := T → GoM Bool

/-- `as.Predicate(f) = f` -/
def asPredicate (f : T → GoM Bool) : Pred T := f

-- ------------------------------------------------------------------------------------------------
-- fp.Predicate combinators

/-- `r.Negate() = func(t) bool { return !r(t) }` -/
def Pred.negate (r : Pred T) : Pred T := fun t => do
  let b ← r t
  pure (!b)

/-- `r.And(and) = func(t) bool { return r(t) && and(t) }` -/
def Pred.and (r and : Pred T) : Pred T := fun t => do
  if (← r t) then and t else pure false

/-- `r.Or(or) = func(t) bool { return r(t) || or(t) }` -/
def Pred.or (r or : Pred T) : Pred T := fun t => do
  if (← r t) then pure true else or t

/-- `fp.Not(f) = func(v) bool { return !f(v) }` -/
def fpNot (f : Pred T) : Pred T := fun v => do
  let b ← f v
  pure (!b)

/-- the loop of `fp.And`: `for _, f := range flist { if !f(v) { return false } }; return true` -/
def andLoop (v : T) : List (T → GoM Bool) → GoM Bool
  | [] => pure true
  | f :: fs => do
    if !(← f v) then pure false else andLoop v fs

/-- `fp.And(flist...)` -/
def fpAnd (flist : List (T → GoM Bool)) : Pred T := fun v => andLoop v flist

/-- the loop of `fp.Or`: `for _, f := range flist { if f(v) { return true } }; return false` -/
def orLoop (v : T) : List (T → GoM Bool) → GoM Bool
  | [] => pure false
  | f :: fs => do
    if (← f v) then pure true else orLoop v fs

/-- `fp.Or(flist...)` -/
def fpOr (flist : List (T → GoM Bool)) : Pred T := fun v => orLoop v flist

-- ------------------------------------------------------------------------------------------------
-- fp.ConvertNumber, Max, ConstS, With, Test, TestWith

/-- a Go integer type: width and signedness -/
structure IntTy where
  bits : Nat
  signed : Bool
  deriving DecidableEq, Repr

/-- the representable values -/
def IntTy.inRange (t : IntTy) (x : Int) : Prop :=
  if t.signed then -(2 ^ (t.bits - 1) : Int) ≤ x ∧ x < 2 ^ (t.bits - 1) else 0 ≤ x ∧ x < 2 ^ t.bits

/-- Go's integer conversion: the value is truncated / sign-extended to fit (two's complement) -/
def IntTy.wrap (t : IntTy) (x : Int) : Int :=
  if t.signed then (x + 2 ^ (t.bits - 1)) % 2 ^ t.bits - 2 ^ (t.bits - 1) else x % 2 ^ t.bits

/-- `fp.ConvertNumber[From, To](f) = To(f)` at INTEGER types `From`, `To` (the value `f` is an
    integer in the range of `From`; the floating point members of `ImplicitNum` are not modelled) -/
def convertNumber (to : IntTy) (f : Int) : Int := to.wrap f

/-- `fp.Max(a1, a2) = if a1 > a2 { return a1 }; return a2` -/
def fpMax [LT T] [DecidableRel (α := T) (· < ·)] (a1 a2 : T) : T := if a1 > a2 then a1 else a2

/-- `fp.ConstS(f) = func(b B) A { return f() }` -/
def constS (f : Unit → GoM A) : B → GoM A := fun _ => f ()

/-- `fp.Flip2(f) = func(b) { return func(a) { return f(a, b) } }` (returning the inner closure is pure) -/
def flip2 (f : A → B → GoM R) : B → A → GoM R := fun b a => f a b

/-- `fp.With(withf, v) = Flip2(withf)(v)` -/
def fpWith (withf : A → B → GoM A) (v : B) : A → GoM A := flip2 withf v

/-- `fp.Test(testf, v) = Predicate[A](Flip2(testf)(v))` -/
def fpTest (testf : A → B → GoM Bool) (v : B) : Pred A := flip2 testf v

/-- `fp.TestWith(getter) = func(pf) { return func(a) bool { return pf(getter(a)) } }` -/
def testWith (getter : A → GoM B) : Pred B → Pred A := fun pf a => do
  let b ← getter a
  pf b

-- ------------------------------------------------------------------------------------------------
-- product_op.go, hlist.Unapply

/-- `product.FromHNil(hlist.Nil) = fp.Unit{}` -/
def fromHNil (_ : Unit) : Unit := ()

/-- `product.MapKey(t, mapf) = as.Tuple2(mapf(t.I1), t.I2)` -/
def mapKey (t : K × V) (mapf : K → GoM R) : GoM (R × V) := do
  let r ← mapf t.1
  pure (r, t.2)

/-- `product.MapValue(t, mapf) = as.Tuple2(t.I1, mapf(t.I2))` -/
def mapValue (t : K × V) (mapf : V → GoM R) : GoM (K × R) := do
  let r ← mapf t.2
  pure (t.1, r)

/-- `product.LiftKey(mapf) = func(a1) { return as.Tuple2(mapf(a1.I1, a1.I2), a1.I2) }` -/
def liftKey (mapf : K → V → GoM R) : K × V → GoM (R × V) := fun a1 => do
  let r ← mapf a1.1 a1.2
  pure (r, a1.2)

/-- `product.LiftValue(mapf) = func(a1) { return as.Tuple2(a1.I1, mapf(a1.I1, a1.I2)) }` -/
def liftValue (mapf : K → V → GoM R) : K × V → GoM (K × R) := fun a1 => do
  let r ← mapf a1.1 a1.2
  pure (a1.1, r)

/-- `product.Split(kext, vext) = func(t) { return Tuple2(kext(t), vext(t)) }` (arguments left to right) -/
def split (kext : T → GoM K) (vext : T → GoM V) : T → GoM (K × V) := fun t => do
  let k ← kext t
  let v ← vext t
  pure (k, v)

/-- `hlist.Unapply(list) = list.Head(), Tail(list)`; `Cons[H, T]` is a non-empty list (`none`: ruled out by the type) -/
def hUnapply : List A → Option (A × List A)
  | h :: t => some (h, t)
  | [] => none

-- ------------------------------------------------------------------------------------------------
-- unit_op.go, lazy.go

/-- `unit.Func0(f) = func(fp.Unit) fp.Unit { f(); return fp.Unit{} }` -/
def unitFunc0 (f : Unit → GoM Unit) : Unit → GoM Unit := fun _ => do
  f ()
  pure ()

/-- `unit.Failure(err) = fp.Failure[fp.Unit](err)` -/
def unitFailure (err : Err) : Try Unit := .failure err

/-- the thunk `lazy.Func1/2/3(f)(a…)` hands to `lazy.Call`: `func() R { return f(a…) }` -/
def lazyThunk (f : List A → EvalM.W R) (args : List A) : Unit → EvalM.W R := fun _ => f args

/-- `lazy.FuncN(f)(a1…aN) = Call(func() R { return f(a1…aN) })`, N = 1, 2, 3 -/
def lazyFunc [Inhabited R] (f : List A → EvalM.W R) (args : List A) : EvalM.Eval R :=
  EvalM.call (lazyThunk f args)

/-- `k` calls of `Get()` on that value: `Call` memoises the thunk (`Memoize`, sync.Once): results, final
    cell, events -/
def lazyFuncGets (f : List A → EvalM.W R) (args : List A) (k : Nat) : List R × Option R × List Event :=
  Memo.getN (lazyThunk f args) k none

-- ------------------------------------------------------------------------------------------------
-- monoid.go (package fp), monoid/monoid_op.go: the adapters

/-- `fp.EmptyFunc[T] func() T`: `r.Empty() = r()` -/
def emptyFuncEmpty (r : Unit → GoM T) : GoM T := r ()

/-- `fp.SemigroupFunc[T] func(a, b T) T` -/
structure SemigroupFunc (T : Type) where
  fn : T → T → GoM T

/-- `r.Empty() = { var zero T; return zero }` -/
def SemigroupFunc.empty [Inhabited T] (_ : SemigroupFunc T) : T := default

/-- `r.Combine(a, b) = r(a, b)` -/
def SemigroupFunc.combine (r : SemigroupFunc T) (a b : T) : GoM T := r.fn a b

/-- `r.Curried() = func(a1) { return func(a2) { return r.Combine(a1, a2) } }` -/
def SemigroupFunc.curried (r : SemigroupFunc T) : T → T → GoM T := fun a1 a2 => r.combine a1 a2

/-- `type monoid[T] struct { zero EmptyFunc[T]; combine SemigroupFunc[T] }` (the same text in package fp and
    in package monoid) -/
structure Mon (T : Type) where
  zero : Unit → GoM T
  combine : SemigroupFunc T

/-- `monoid.New(zero, combine) = monoid[T]{zero, combine}` -/
def monoidNew (zero : Unit → GoM T) (combine : T → T → GoM T) : Mon T := { zero := zero, combine := ⟨combine⟩ }

/-- `r.Empty() = r.zero()` -/
def Mon.empty (r : Mon T) : GoM T := r.zero ()
/-- `r.Combine(a, b) = r.combine(a, b)` -/
def Mon.comb (r : Mon T) (a b : T) : GoM T := r.combine.fn a b
/-- `r.ToMonoid(emptyFunc) = monoid[T]{emptyFunc, r.combine}` -/
def Mon.toMonoid (r : Mon T) (emptyFunc : Unit → GoM T) : Mon T := { zero := emptyFunc, combine := r.combine }
/-- `r.Curried() = r.combine.Curried()` -/
def Mon.curried (r : Mon T) : T → T → GoM T := r.combine.curried

/-- `fp.Product[T]() = monoid[T]{zero: func() T { return 1 }, combine: a * b}` at `int` -/
def fpProduct : Mon Int := { zero := fun _ => pure 1, combine := ⟨fun a b => pure (a * b)⟩ }

/-- the law-level (pure) reading of `ToMonoid`: the semigroup's operation with the given empty element -/
def toMonoidD {α : Type} (s : TC.SemigroupD α) (e : α) : TC.MonoidD α := { empty := e, combine := s.combine }

end FpVerif.Misc
