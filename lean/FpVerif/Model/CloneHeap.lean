/-!
# Model of package clone (clone/clone.go, clone/clone_gen.go) over an explicit heap

Go values that matter for C18 are graphs: pointers, slices and maps refer to mutable storage.
The model has

* a heap of cells (`box` = the target of a pointer, `arr` = the backing array of a slice,
  `mp` = the storage of a Go map), addressed by their index; allocation appends a cell;
* first-order values `Val` in which a pointer / slice / map is the address of its cell;
* types `Ty` and instance expressions `Inst` (how a `fp.Clone[T]` was built from the combinators);
* `clone : Inst → Val → Heap → Val × Heap`, one equation per combinator, following which instance
  argument the Go code applies to which component.

Abstractions (recorded in REPORT.md): a container cell is allocated after its elements were cloned
(Go allocates `make(...)` first and stores the clones into it; addresses are not observable, and
element cloners only allocate, so the final heap is the same up to the numbering of cells);
a slice is (array, length) with offset 0; a struct and its `fp.Generic` representation are the same
tuple, so `Generic(gen, repr)` is `repr` (gen.To / gen.From move fields, they do not allocate);
`TupleN` and `HCons` are nested pairs.

`ptr` follows the PROPERTY (the pointee is cloned with the element instance);
`Inst.ptrAsIs` is clone.Ptr as it stands in the library: it copies the pointee shallowly.
-/
namespace FpVerif.CloneHeap

inductive Ty where
  | int
  | ptr (t : Ty)
  | slice (t : Ty)
  | map (k v : Ty)
  | option (t : Ty)
  | unit
  | pair (a b : Ty)
  deriving Repr, DecidableEq

inductive Val where
  | int (n : Int)
  | nilptr
  | ptr (a : Nat)
  | nilslice
  | slice (a : Nat) (len : Nat)
  | nilmap
  | map (a : Nat)
  | none
  | some (v : Val)
  | unit
  | pair (a b : Val)
  deriving Repr, DecidableEq, Inhabited

inductive Cell where
  | box (v : Val)
  | arr (vs : List Val)
  | mp (kvs : List (Val × Val))
  deriving Repr, Inhabited

abbrev Heap := List Cell

/-- how a `fp.Clone[T]` was built -/
inductive Inst where
  | given                      -- clone.Given on a value type (here: int / string, no references)
  | ptr (e : Inst)             -- clone.Ptr, as the property demands: deep
  | ptrAsIs (e : Inst)         -- clone.Ptr as it stands: `var t = *pt; return &t`
  | slice (e : Inst)           -- clone.Slice
  | seq (e : Inst)             -- clone.Seq
  | gomap (k v : Inst)         -- clone.GoMap
  | option (e : Inst)          -- clone.Option
  | hnil                       -- clone.HNil
  | pair (h t : Inst)          -- clone.HCons; clone.TupleN(i₁,…,iₙ) = pair i₁ (pair i₂ (… hnil))
  | generic (e : Inst)         -- clone.Generic(gen, repr)
  deriving Repr

/-- the type an instance expression is an instance for -/
def Inst.ty : Inst → Ty
  | .given => .int
  | .ptr e => .ptr e.ty
  | .ptrAsIs e => .ptr e.ty
  | .slice e => .slice e.ty
  | .seq e => .slice e.ty
  | .gomap k v => .map k.ty v.ty
  | .option e => .option e.ty
  | .hnil => .unit
  | .pair h t => .pair h.ty t.ty
  | .generic e => e.ty

/-- the instance contains no `ptrAsIs` -/
def Inst.asDemanded : Inst → Prop
  | .given => True
  | .ptr e => e.asDemanded
  | .ptrAsIs _ => False
  | .slice e => e.asDemanded
  | .seq e => e.asDemanded
  | .gomap k v => k.asDemanded ∧ v.asDemanded
  | .option e => e.asDemanded
  | .hnil => True
  | .pair h t => h.asDemanded ∧ t.asDemanded
  | .generic e => e.asDemanded

/-- `seq.Map(s, f)` over the elements, threading the heap left to right -/
def cloneList (f : Val → Heap → Val × Heap) : List Val → Heap → List Val × Heap
  | [], h => ([], h)
  | v :: vs, h =>
    let r1 := f v h
    let r2 := cloneList f vs r1.2
    (r1.1 :: r2.1, r2.2)

/-- the loop of `clone.GoMap`: `ret[clonek.Clone(k)] = clonev.Clone(v)` -/
def cloneEntries (fk fv : Val → Heap → Val × Heap) : List (Val × Val) → Heap → List (Val × Val) × Heap
  | [], h => ([], h)
  | kv :: rest, h =>
    let rk := fk kv.1 h
    let rv := fv kv.2 rk.2
    let rr := cloneEntries fk fv rest rv.2
    ((rk.1, rv.1) :: rr.1, rr.2)

/-- `Clone(t)` of the instance `i` applied to value `v` in heap `h`: the result and the new heap -/
def clone : Inst → Val → Heap → Val × Heap
  | .given, v, h => (v, h)
  | .ptr e, .ptr a, h =>
    match h[a]? with
    | some (.box v) =>
      let r := clone e v h            -- t := elem.Clone(*pt)
      (.ptr r.2.length, r.2 ++ [.box r.1])   -- return &t
    | _ => (.ptr a, h)
  | .ptr _, v, h => (v, h)            -- if pt == nil { return nil }
  | .ptrAsIs _, .ptr a, h =>
    match h[a]? with
    | some (.box v) => (.ptr h.length, h ++ [.box v])   -- var t = *pt; return &t
    | _ => (.ptr a, h)
  | .ptrAsIs _, v, h => (v, h)
  | .slice e, .slice a len, h =>
    match h[a]? with
    | some (.arr vs) =>
      let r := cloneList (clone e) (vs.take len) h
      (.slice r.2.length len, r.2 ++ [.arr r.1])
    | _ => (.slice a len, h)
  | .slice _, _, h => (.slice h.length 0, h ++ [.arr []])   -- seq.Map(nil, f) = make(Seq, 0)
  | .seq e, .slice a len, h =>
    match h[a]? with
    | some (.arr vs) =>
      let r := cloneList (clone e) (vs.take len) h
      (.slice r.2.length len, r.2 ++ [.arr r.1])
    | _ => (.slice a len, h)
  | .seq _, _, h => (.slice h.length 0, h ++ [.arr []])
  | .gomap k v, .map a, h =>
    match h[a]? with
    | some (.mp kvs) =>
      let r := cloneEntries (clone k) (clone v) kvs h
      (.map r.2.length, r.2 ++ [.mp r.1])
    | _ => (.map a, h)
  | .gomap _ _, _, h => (.map h.length, h ++ [.mp []])   -- ret := map[K]V{} ; ranging over nil does nothing
  | .option e, .some v, h =>
    let r := clone e v h
    (.some r.1, r.2)
  | .option _, v, h => (v, h)
  | .hnil, _, h => (.unit, h)
  | .pair i j, .pair a b, h =>
    let r1 := clone i a h
    let r2 := clone j b r1.2
    (.pair r1.1 r2.1, r2.2)
  | .pair _ _, v, h => (v, h)
  | .generic e, v, h => clone e v h

-- ---------------------------------------------------------------------------------- observation

/-- what a value looks like to a reader that follows all references: a heap-free tree.
    A nil slice and an empty slice view alike (`seq []`), so do a nil map and an empty map
    ("nil vs empty need not be preserved"). -/
inductive Tree where
  | int (n : Int)
  | nil
  | ptr (t : Tree)
  | seq (ts : List Tree)
  | map (kvs : List (Tree × Tree))
  | none
  | some (t : Tree)
  | unit
  | pair (a b : Tree)
  | bad
  deriving Inhabited

def view : Ty → Heap → Val → Tree
  | .int, _, .int n => .int n
  | .ptr _, _, .nilptr => .nil
  | .ptr t, h, .ptr a =>
    match h[a]? with
    | some (.box v) => .ptr (view t h v)
    | _ => .bad
  | .slice _, _, .nilslice => .seq []
  | .slice t, h, .slice a len =>
    match h[a]? with
    | some (.arr vs) => .seq ((vs.take len).map (view t h))
    | _ => .bad
  | .map _ _, _, .nilmap => .map []
  | .map k v, h, .map a =>
    match h[a]? with
    | some (.mp kvs) => .map (kvs.map fun kv => (view k h kv.1, view v h kv.2))
    | _ => .bad
  | .option _, _, .none => .none
  | .option t, h, .some v => .some (view t h v)
  | .unit, _, _ => .unit
  | .pair ta tb, h, .pair a b => .pair (view ta h a) (view tb h b)
  | _, _, _ => .bad

/-- the mutable cells reachable from a value -/
def reach : Ty → Heap → Val → List Nat
  | .ptr t, h, .ptr a =>
    match h[a]? with
    | some (.box v) => a :: reach t h v
    | _ => [a]
  | .slice t, h, .slice a len =>
    match h[a]? with
    | some (.arr vs) => a :: ((vs.take len).map (reach t h)).flatten
    | _ => [a]
  | .map k v, h, .map a =>
    match h[a]? with
    | some (.mp kvs) => a :: (kvs.map fun kv => reach k h kv.1 ++ reach v h kv.2).flatten
    | _ => [a]
  | .option t, h, .some v => reach t h v
  | .pair ta tb, h, .pair a b => reach ta h a ++ reach tb h b
  | _, _, _ => []

/-- the value is a well-formed inhabitant of the type in this heap -/
def WT : Ty → Heap → Val → Prop
  | .int, _, .int _ => True
  | .ptr _, _, .nilptr => True
  | .ptr t, h, .ptr a => ∃ v, h[a]? = some (.box v) ∧ WT t h v
  | .slice _, _, .nilslice => True
  | .slice t, h, .slice a len => ∃ vs, h[a]? = some (.arr vs) ∧ len ≤ vs.length ∧ ∀ v ∈ vs.take len, WT t h v
  | .map _ _, _, .nilmap => True
  | .map k v, h, .map a => ∃ kvs, h[a]? = some (.mp kvs) ∧ ∀ kv ∈ kvs, WT k h kv.1 ∧ WT v h kv.2
  | .option _, _, .none => True
  | .option t, h, .some v => WT t h v
  | .unit, _, .unit => True
  | .pair ta tb, h, .pair a b => WT ta h a ∧ WT tb h b
  | _, _, _ => False

end FpVerif.CloneHeap
