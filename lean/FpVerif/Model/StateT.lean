import FpVerif.Base
/-!
# Model of `fp.StateT` (state.go) and package `statet` (statet/statet_op.go).

`type StateT[S, A any] func(S) (Try[A], S)` becomes `S → GoM (Try A × S)`.
Every definition mirrors the Go function of the same name, statement by statement.
-/
namespace FpVerif.StM

abbrev StT (S A : Type) := S → GoM (Try A × S)

variable {S A B C R : Type}

-- statet_op.go ------------------------------------------------------------------------------

def pure (a : A) : StT S A := fun s => Pure.pure (.success a, s)

/-- `statet.Put(s)`: the returned function ignores its input state and installs `s`. -/
def put (s : S) : StT S Unit := fun _ => Pure.pure (.success (), s)

def get : StT S S := fun s => Pure.pure (.success s, s)

def modify (f : S → GoM S) : StT S Unit := fun s => do
  let ns ← f s
  Pure.pure (.success (), ns)

def putWith {V : Type} (withf : S → V → GoM S) (v : V) : StT S Unit := fun s => do
  let ns ← withf s v
  Pure.pure (.success (), ns)

/-- `ModifyS(fss, fsa)`: Go evaluates the operands of `return try.Success(fsa(s)), fss(s)` left to right. -/
def modifyS (fss : S → GoM S) (fsa : S → GoM A) : StT S A := fun s => do
  let a ← fsa s
  let ns ← fss s
  Pure.pure (.success a, ns)

def modifyT (f : S → GoM (Try S)) : StT S Unit := fun s => do
  match ← f s with
  | .success ns => Pure.pure (.success (), ns)
  | .failure e => do let e ← Try.failedGet (.failure e : Try S); Pure.pure (.failure e, s)

def getS (f : S → GoM A) : StT S A := fun s => do
  let a ← f s
  Pure.pure (.success a, s)

def getST (f : S → GoM (Try A)) : StT S A := fun s => do
  let t ← f s
  Pure.pure (t, s)

def fromTry (t : Try A) : StT S A := fun s => Pure.pure (t, s)

def flatMap (st : StT S A) (f : A → GoM (StT S B)) : StT S B := fun s => do
  let (ret, ns) ← st s
  match ret with
  | .success a => (← f a) ns
  | .failure e => do let e ← Try.failedGet (.failure e : Try A); Pure.pure (.failure e, ns)

def flatMapConst (st : StT S A) (next : StT S B) : StT S B :=
  flatMap st (fun _ => Pure.pure next)

def withState (f : S → GoM (StT S A)) : StT S A :=
  flatMap get f

def map (m : StT S A) (f : A → GoM B) : StT S B :=
  flatMap m (fun a => do let b ← f a; Pure.pure (pure b))

def transform (st : StT S A) (f : S → Try A → GoM (S × Try B)) : StT S B := fun s => do
  let (a, ns) ← st s
  let (nss, tb) ← f ns a
  Pure.pure (tb, nss)

def transformWith (st : StT S A) (f : Try A → GoM (StT S B)) : StT S B := fun s => do
  let (at_, ns) ← st s
  (← f at_) ns

def mapT (st : StT S A) (f : A → GoM (Try B)) : StT S B := fun s => do
  let (a, ns) ← st s
  match a with
  | .success v => do let t ← f v; Pure.pure (t, ns)
  | .failure e => do let e ← Try.failedGet (.failure e : Try A); Pure.pure (.failure e, ns)

def mapWithState (st : StT S A) (f : S → A → GoM B) : StT S B := fun s => do
  let (a, ns) ← st s
  match a with
  | .success v => do let b ← f ns v; Pure.pure (.success b, ns)
  | .failure e => do let e ← Try.failedGet (.failure e : Try A); Pure.pure (.failure e, ns)

def mapWithStateT (st : StT S A) (f : S → A → GoM (Try B)) : StT S B := fun s => do
  let (a, ns) ← st s
  match a with
  | .success v => do let b ← f ns v; Pure.pure (b, ns)
  | .failure e => do let e ← Try.failedGet (.failure e : Try A); Pure.pure (.failure e, ns)

def peekState (st : StT S A) (f : S → GoM Unit) : StT S A := fun s => do
  let (r, ns) ← st s
  f ns
  Pure.pure (r, ns)

/-- `FoldM` over the elements the iterator yields (value-level view of the iterator). -/
def foldM (xs : List A) (zero : B) (f : B → A → GoM (StT S B)) : StT S B :=
  xs.foldl (fun sum na => flatMap sum (fun b => f b na)) (pure zero)

def concat (start : StT S A) (tail : List (StT S A)) : StT S A :=
  tail.foldl (fun ret v => flatMapConst ret v) start

-- state.go : methods ------------------------------------------------------------------------

def exec (r : StT S A) (s : S) : GoM (Try S) := do
  let (res, state) ← r s
  match res with
  | .success _ => Pure.pure (.success state)
  | .failure e => do let e ← Try.failedGet (.failure e : Try A); Pure.pure (.failure e)

def eval (r : StT S A) (s : S) : GoM (Try A) := do
  let (res, _) ← r s
  Pure.pure res

def recover (r : StT S A) (f : Err → GoM A) : StT S A := fun s => do
  let (at_, ns) ← r s
  match at_ with
  | .failure e => do let e ← Try.failedGet (.failure e : Try A); let ra ← f e; Pure.pure (.success ra, ns)
  | .success v => Pure.pure (.success v, ns)

def recoverT (r : StT S A) (f : Err → GoM (Try A)) : StT S A := fun s => do
  let (at_, ns) ← r s
  match at_ with
  | .failure e => do let e ← Try.failedGet (.failure e : Try A); let rt ← f e; Pure.pure (rt, ns)
  | .success v => Pure.pure (.success v, ns)

def recoverWithState (r : StT S A) (f : S → Err → GoM A) : StT S A := fun s => do
  let (at_, ns) ← r s
  match at_ with
  | .failure e => do let e ← Try.failedGet (.failure e : Try A); let ra ← f ns e; Pure.pure (.success ra, ns)
  | .success v => Pure.pure (.success v, ns)

def recoverWithStateT (r : StT S A) (f : S → Err → GoM (Try A)) : StT S A := fun s => do
  let (at_, ns) ← r s
  match at_ with
  | .failure e => do let e ← Try.failedGet (.failure e : Try A); let rt ← f ns e; Pure.pure (rt, ns)
  | .success v => Pure.pure (.success v, ns)

def recoverWith (r : StT S A) (f : Err → GoM (StT S A)) : StT S A := fun s => do
  let (at_, ns) ← r s
  match at_ with
  | .failure e => do let e ← Try.failedGet (.failure e : Try A); (← f e) ns
  | .success v => Pure.pure (.success v, ns)

def recoverCase (r : StT S A) (isDefinedAt : Err → GoM Bool) (then_ : Err → GoM A) : StT S A := fun s => do
  let (at_, ns) ← r s
  match at_ with
  | .success v => Pure.pure (.success v, ns)
  | .failure e0 => do
    let e ← Try.failedGet (.failure e0 : Try A)
    if ← isDefinedAt e then do let a ← then_ e; Pure.pure (.success a, ns)
    else Pure.pure (.failure e0, ns)

def recoverCaseT (r : StT S A) (isDefinedAt : Err → GoM Bool) (then_ : Err → GoM (Try A)) : StT S A := fun s => do
  let (at_, ns) ← r s
  match at_ with
  | .success v => Pure.pure (.success v, ns)
  | .failure e0 => do
    let e ← Try.failedGet (.failure e0 : Try A)
    if ← isDefinedAt e then do let a ← then_ e; Pure.pure (a, ns)
    else Pure.pure (.failure e0, ns)

def recoverCaseWith (r : StT S A) (isDefinedAt : Err → GoM Bool) (then_ : Err → GoM (StT S A)) : StT S A := fun s => do
  let (at_, ns) ← r s
  match at_ with
  | .success v => Pure.pure (.success v, ns)
  | .failure e0 => do
    let e ← Try.failedGet (.failure e0 : Try A)
    if ← isDefinedAt e then (← then_ e) ns
    else Pure.pure (.failure e0, ns)

end FpVerif.StM
