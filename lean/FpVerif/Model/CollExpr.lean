import FpVerif.Model.CollList
/-!
# Programs over the three collection monads, as data

`SX` / `IX` / `LX` describe which library calls a program makes (callbacks already resolved to
functions); `SX.eval`, `IX.machine` + `IX.build`, `LX.eval` run the definitions of
`Model/CollMonad.lean` / `Model/CollList.lean` — nothing else.  These are what the oracle executes.
-/
namespace FpVerif.Coll
open FpVerif FpVerif.It

/-- loops that are unbounded in Go get this much fuel in the oracle -/
def FUEL : Nat := 100000

mutual
def El.toVal : El → Val
  | .v x => x
  | .fn _ => .str "fn"
  | .coll _ xs => .seq (El.toVals xs)
def El.toVals : List El → List Val
  | [] => []
  | x :: xs => x.toVal :: El.toVals xs
end

/-- the event an instrumented source logs when it hands out `v` -/
def srcEv (t : Nat) (v : El) : Event :=
  match v with
  | .coll _ _ => s!"s{t}:\"coll\""      -- an iterator handed out as element: not rendered
  | _ => s!"s{t}:{v.toVal}"

abbrev Kl := Val → GoM (List El)

def elF2 (g : Val → Val → GoM Val) : El → El → GoM El :=
  fun x y => do let r ← g x.val y.val; pure (.v r)

/-- an element of a `Seq[Seq[T]]` / `Iterator[Iterator[T]]` / `List[List[T]]` viewed as a collection -/
def collOf : El → GoM (List El)
  | .coll _ xs => pure xs
  | _ => goPanic notACollection

/-! ## seq -/

inductive SX where
  | of (xs : List El)
  | unit (x : El)
  | map (e : SX) (f : Fn)
  | lift (f : Fn) (e : SX)
  | flatMap (e : SX) (k : Kl)
  | liftM (k : Kl) (e : SX)
  | compose (k1 k2 : Kl) (a : El)
  | composePure (f : Fn) (a : El)
  | flatten (e : SX)
  | ap (t a : SX)
  | map2 (a b : SX) (g : Val → Val → GoM Val)
  | filterMap (e : SX) (o : Val → GoM (Option Val))
  | concat (h : El) (t : SX)

def SX.eval : SX → GoM (List El)
  | .of xs => pure (seqOf xs)
  | .unit x => pure (seqPure x)
  | .map e f => do let l ← e.eval; seqMap l f.app
  | .lift f e => do let l ← e.eval; seqLift f.app l
  | .flatMap e k => do let l ← e.eval; seqFlatMap l (fun x => k x.val)
  | .liftM k e => do let l ← e.eval; seqLiftM (fun x => k x.val) l
  | .compose k1 k2 a => seqCompose (fun (x : El) => k1 x.val) (fun (x : El) => k2 x.val) a
  | .composePure f a => seqComposePure f.app a
  | .flatten e => do
      let l ← e.eval
      let ll ← l.mapM collOf          -- the static type Seq[Seq[T]]
      seqFlatten ll
  | .ap t a => do let lt ← t.eval; let la ← a.eval; seqAp appEl lt la
  | .map2 a b g => do let la ← a.eval; let lb ← b.eval; seqMap2 la lb (elF2 g)
  | .filterMap e o => do
      let l ← e.eval
      seqFilterMap l (fun x => do let r ← o x.val; pure (r.map El.v))
  | .concat h t => do let l ← t.eval; pure (seqConcat h l)

/-! ## iterator -/

def kInit (k : Kl) : El → GoM (SrcSt El) :=
  fun x => do let xs ← k x.val; pure { tag := none, xs := xs, idx := 0 }

/-- an element that is an iterator: its (fresh) state -/
def collInit : El → GoM (SrcSt El)
  | .coll tag xs => pure { tag := tag, xs := xs, idx := 0 }
  | _ => goPanic notACollection

inductive IX where
  | src (id : Nat) (xs : List El)            -- the harness's instrumented slice iterator
  | ofs (xs : List El)                       -- iterator.Of
  | map (e : IX) (f : Fn)
  | lift (f : Fn) (e : IX)
  | flatMap (e : IX) (k : Kl)
  | compose (k1 k2 : Kl) (a : El)
  | composePure (f : Fn) (a : El)
  | flatten (e : IX)
  | ap (t a : IX)
  | map2 (a b : IX) (g : Val → Val → GoM Val)
  | flap (t : IX) (a : El)
  | flap2 (t : IX) (a b : El)
  | flapMap (g : Val → Val → GoM Val) (a : IX) (b : El)
  | method1 (ta : IX) (g : Val → Val → GoM Val) (b : El)
  | method2 (ta : IX) (h : Val → Val → Val → GoM Val) (b c : El)

namespace IX

def St : IX → Type
  | src _ _ => Nat
  | ofs _ => Nat
  | map e _ => e.St
  | lift _ e => e.St
  | flatMap e _ => e.St × Option (SrcSt El)
  | compose _ _ _ => SrcSt El × Option (SrcSt El)
  | composePure _ _ => SrcSt El
  | flatten e => e.St × Option (SrcSt El)
  | ap t a => (t.St × a.St) × Option El
  | map2 a b _ => (a.St × b.St) × Option El
  | flap t _ => (t.St × Nat) × Option El
  | flap2 t _ _ => (((t.St × Nat) × Option El) × Nat) × Option El
  | flapMap _ a _ => (a.St × Nat) × Option El
  | method1 ta _ _ => (ta.St × Nat) × Option El
  | method2 ta _ _ _ => (((ta.St × Nat) × Option El) × Nat) × Option El

def cur2 (g : Val → Val → GoM Val) : El → El := fun x => .fn (.c2a g x.val)
def cur3 (h : Val → Val → Val → GoM Val) : El → El := fun x => .fn (.c3a h x.val)

/-- the iterator's `hasNext` / `next` closures -/
def machine : (e : IX) → Machine e.St El
  | src id xs => ofSeq (some (srcEv id)) xs
  | ofs xs => ofSeq none xs
  | map e f => It.map f.app (machine e)
  | lift f e => itLift f.app (machine e)
  | flatMap e k => It.flatMap FUEL (kInit k) (srcS srcEv) (machine e)
  | compose _ k2 _ => itCompose FUEL (srcS srcEv) (kInit k2) (srcS srcEv)
  | composePure _ _ => srcS srcEv
  | flatten e => itFlatten FUEL (srcS srcEv) (It.map collInit (machine e))
  | ap t a => itAp FUEL appEl (machine t) (machine a)
  | map2 a b g => itMap2 FUEL (machine a) (machine b) (elF2 g)
  | flap t a => itFlap FUEL appEl (machine t) a
  | flap2 t a b => itFlap2 FUEL appEl appEl (machine t) a b
  | flapMap g a b => itFlapMap FUEL (cur2 g) appEl (machine a) b
  | method1 ta g b => itMethod1 FUEL (machine ta) (cur2 g) appEl b
  | method2 ta h b c => itMethod2 FUEL (machine ta) (cur3 h) appEl appEl b c

/-- run the constructors (arguments left to right); only `Compose` / `ComposePure` call a user
    function at construction time -/
def build : (e : IX) → GoM e.St
  | src _ _ => pure (0 : Nat)
  | ofs _ => pure (0 : Nat)
  | map e _ => build e
  | lift _ e => build e
  | flatMap e _ => do let s ← build e; pure (s, none)
  | compose k1 _ a => itComposeInit (kInit k1) a
  | composePure f a => itComposePureInit f.app a
  | flatten e => do let s ← build e; pure (s, none)
  | ap t a => do let st ← build t; let sa ← build a; pure ((st, sa), none)
  | map2 a b _ => do let sa ← build a; let sb ← build b; pure ((sa, sb), none)
  | flap t _ => do let st ← build t; pure ((st, (0 : Nat)), none)
  | flap2 t _ _ => do let st ← build t; pure ((((st, (0 : Nat)), none), (0 : Nat)), none)
  | flapMap _ a _ => do let sa ← build a; pure ((sa, (0 : Nat)), none)
  | method1 ta _ _ => do let sa ← build ta; pure ((sa, (0 : Nat)), none)
  | method2 ta _ _ _ => do let st ← build ta; pure ((((st, (0 : Nat)), none), (0 : Nat)), none)

/-- pull counters of the instrumented sources that are part of the expression -/
def pulls : (e : IX) → e.St → List (Nat × Nat)
  | src id _, s => [(id, s)]
  | ofs _, _ => []
  | map e _, s => pulls e s
  | lift _ e, s => pulls e s
  | flatMap e _, s => pulls e s.1
  | compose _ _ _, _ => []
  | composePure _ _, _ => []
  | flatten e, s => pulls e s.1
  | ap t a, s => pulls t s.1.1 ++ pulls a s.1.2
  | map2 a b _, s => pulls a s.1.1 ++ pulls b s.1.2
  | flap t _, s => pulls t s.1.1
  | flap2 t _ _, s => pulls t s.1.1.1.1
  | flapMap _ a _, s => pulls a s.1.1
  | method1 ta _ _, s => pulls ta s.1.1
  | method2 ta _ _ _, s => pulls ta s.1.1.1.1

end IX

/-! ## list -/

inductive LX where
  | of (xs : List El)
  | map (e : LX) (f : Fn)
  | lift (f : Fn) (e : LX)
  | flatMap (e : LX) (k : Kl)
  | compose (k1 k2 : Kl) (a : El)
  | composePure (f : Fn) (a : El)
  | flatten (e : LX)
  | ap (t a : LX)
  | map2 (a b : LX) (g : Val → Val → GoM Val)
  | flap (t : LX) (a : El)
  | flap2 (t : LX) (a b : El)
  | flapMap (g : Val → Val → GoM Val) (a : LX) (b : El)
  | method1 (ta : LX) (g : Val → Val → GoM Val) (b : El)
  | method2 (ta : LX) (h : Val → Val → Val → GoM Val) (b c : El)

/-- run the library calls of a list expression (arguments left to right) -/
def LX.eval : LX → HM LV
  | .of xs => pure (lOf xs)
  | .map e f => do let l ← e.eval; lMap l f
  | .lift f e => do let l ← e.eval; lLift f l
  | .flatMap e k => do let l ← e.eval; Coll.flatMap FUEL l (.user k)
  | .compose k1 k2 a => lCompose FUEL k1 k2 a
  | .composePure f a => lComposePure f a
  | .flatten e => do let l ← e.eval; lFlatten FUEL l
  | .ap t a => do let lt ← t.eval; let la ← a.eval; lAp FUEL lt la
  | .map2 a b g => do let la ← a.eval; let lb ← b.eval; lMap2 FUEL la lb g
  | .flap t a => do let lt ← t.eval; lFlap FUEL lt a
  | .flap2 t a b => do let lt ← t.eval; lFlap2 FUEL lt a b
  | .flapMap g a b => do let la ← a.eval; lFlapMap FUEL g la b
  | .method1 ta g b => do let la ← ta.eval; lMethod1 FUEL la g b
  | .method2 ta h b c => do let la ← ta.eval; lMethod2 FUEL la h b c

/-! ### what a list expression denotes (callbacks run on an empty log, their events dropped) -/

def pureG {X : Type} [Inhabited X] (m : GoM X) : X :=
  match m.run.run [] with
  | (.ok v, _) => v
  | (.error _, _) => default

def collOfP : El → List El
  | .coll _ xs => xs
  | _ => []

def appElP (f x : El) : El := pureG (appEl f x)

/-- the plain list a list expression stands for: the list comprehension each combinator is
    supposed to compute (`Ap`, `Map2` in row-major order over ALL of `a` resp. `b` — lists are
    persistent). -/
def LX.den : LX → List El
  | .of xs => xs
  | .map e f => e.den.map (fun x => pureG (f.app x))
  | .lift f e => e.den.map (fun x => pureG (f.app x))
  | .flatMap e k => e.den.flatMap (fun x => pureG (k x.val))
  | .compose k1 k2 a => (pureG (k1 a.val)).flatMap (fun x => pureG (k2 x.val))
  | .composePure f a => [pureG (f.app a)]
  | .flatten e => e.den.flatMap collOfP
  | .ap t a => t.den.flatMap (fun f => a.den.map (fun x => appElP f x))
  | .map2 a b g => a.den.flatMap (fun x => b.den.map (fun y => pureG (elF2 g x y)))
  | .flap t a => t.den.map (fun f => appElP f a)
  | .flap2 t a b => t.den.map (fun f => appElP (appElP f a) b)
  | .flapMap g a b => a.den.map (fun x => pureG (elF2 g x b))
  | .method1 ta g b => ta.den.map (fun x => pureG (elF2 g x b))
  | .method2 ta h b c => ta.den.map (fun x => El.v (pureG (h x.val b.val c.val)))


/-! ## the FUNCTION a combinator returns, applied twice

`Lift(f)`, `LiftM(k)`, `Compose(k1,k2)`, `ComposePure(f)`, `Flap(t)`, `Flap2(t)`, `FlapMap(g,a)`,
`Method1`, `Method2` return function values; a function value has no state of its own, so applying it
twice is running its body twice (over the same captured collections).  Other expressions are
evaluated twice. -/

def SX.evalTwice : SX → GoM (List El × List El)
  | .lift f e => do
      let l ← e.eval
      let g := seqLift f.app
      let r1 ← g l; let r2 ← g l; pure (r1, r2)
  | .liftM k e => do
      let l ← e.eval
      let g := seqLiftM (fun (x : El) => k x.val)
      let r1 ← g l; let r2 ← g l; pure (r1, r2)
  | .compose k1 k2 a => do
      let g := seqCompose (fun (x : El) => k1 x.val) (fun (x : El) => k2 x.val)
      let r1 ← g a; let r2 ← g a; pure (r1, r2)
  | .composePure f a => do
      let g := seqComposePure f.app
      let r1 ← g a; let r2 ← g a; pure (r1, r2)
  | e => do let r1 ← e.eval; let r2 ← e.eval; pure (r1, r2)

def LX.evalTwice : LX → HM (LV × LV)
  | .lift f e => do
      let l ← e.eval
      let g := lLift f
      let r1 ← g l; let r2 ← g l; pure (r1, r2)
  | .compose k1 k2 a => do
      let g := lCompose FUEL k1 k2
      let r1 ← g a; let r2 ← g a; pure (r1, r2)
  | .composePure f a => do
      let g := lComposePure f
      let r1 ← g a; let r2 ← g a; pure (r1, r2)
  | .flap t a => do
      let lt ← t.eval
      let g := lFlap FUEL lt
      let r1 ← g a; let r2 ← g a; pure (r1, r2)
  | .flap2 t a b => do
      let lt ← t.eval
      let g := lFlap2 FUEL lt
      let r1 ← g a b; let r2 ← g a b; pure (r1, r2)
  | .flapMap g a b => do
      let la ← a.eval
      let h := lFlapMap FUEL g la
      let r1 ← h b; let r2 ← h b; pure (r1, r2)
  | .method1 ta g b => do
      let la ← ta.eval
      let h := lMethod1 FUEL la g
      let r1 ← h b; let r2 ← h b; pure (r1, r2)
  | .method2 ta h b c => do
      let la ← ta.eval
      let k := lMethod2 FUEL la h
      let r1 ← k b c; let r2 ← k b c; pure (r1, r2)
  | e => do let r1 ← e.eval; let r2 ← e.eval; pure (r1, r2)

end FpVerif.Coll
