import FpVerif.Model.Eval
/-!
# Stack-instrumented model of `lazy.Eval` (lazy/lazy.go): every Go call pushes a frame

Same code as `Model/Eval.lean`, but every Go function call that the source performs is recorded:
the semantics returns (result, log, maximal call depth), and every event of the log carries the depth
of the user frame that emitted it (that is what the harness measures with `runtime.Callers`).

## The cost monad
`Cost α = (val, log, peak)` describes the execution of a piece of Go code *relative to the frame it
runs in*: `peak` is the maximal number of frames that were on the stack above that frame at any
moment, `log` lists the events with the number of frames between the current frame and the frame
that emitted them.  Sequencing takes the maximum (`bind`), a function call adds one (`call`).  This is
the relative form of a `StateM (cur, max)` counter: `cur` is the number of enclosing `call`s.

## Go functions
A Go `func() T` is `Unit → Cost T`: what its *body* does (relative to its own frame).  A Go
`func(T) Eval[T]` is `T → Cost (SEval T)`; inside the inductive type it is stored as the two
components `nextC : T → Cost Unit` (what the body does) and `next : T → SEval T` (what it returns) so
that the type has no nested occurrence.  (`Model/Eval.lean` uses the node `logged` for the same purpose.)

## Frames (as `runtime.Callers` counts them: logical frames, inlined or not)
`Run` → `Resume` → `firstFunc`; `Run` → closure returned by `Resume` → `firstFunc` / `getNextFunc`;
`Memoize`'s closure → `(*sync.Once).Do` → `(*sync.Once).doSlow` → `func1.1` → `f` (the two `sync`
frames are the standard library's, Go 1.23: trusted, and measured by the harness);
`FlatMap`'s wrapper closure → `getNextFunc`, then → `FlatMap`; `Map`'s closure → `f`, then → `Done`;
`Map2`'s outer closure → `Map` → `FlatMap`; its inner closure → `f`; `TailCallN`'s closure → `f`;
`Get` → `Run`.
As in `Model/Eval.lean`: thunks do not panic, and memoisation is not re-modelled here (a memoised
thunk is requested once per evaluation; `Model/Memo.lean` has the run-once part).
-/
namespace FpVerif.EvalStack
open FpVerif FpVerif.EvalM

/-- an event and the depth (frames above the reference frame) of the frame that emitted it -/
abbrev DEvent := Event × Nat

structure Cost (α : Type) where
  val : α
  log : List DEvent
  peak : Nat

namespace Cost
variable {α β : Type}

/-- move the reference frame `k` frames down -/
def bump (k : Nat) (l : List DEvent) : List DEvent := l.map (fun p => (p.1, p.2 + k))

protected def pure (a : α) : Cost α := ⟨a, [], 0⟩

/-- sequencing inside one frame -/
protected def bind (m : Cost α) (f : α → Cost β) : Cost β :=
  ⟨(f m.val).val, m.log ++ (f m.val).log, max m.peak (f m.val).peak⟩

instance : Monad Cost where
  pure := Cost.pure
  bind := Cost.bind

/-- a Go function call whose body does `m`: one more frame while it runs -/
def call (m : Cost α) : Cost α := ⟨m.val, bump 1 m.log, m.peak + 1⟩

/-- the user code logs an event (in the current frame) -/
def emit (e : Event) : Cost Unit := ⟨(), [(e, 0)], 0⟩

def void (m : Cost α) : Cost Unit := ⟨(), m.log, m.peak⟩

/-- the events without their depths -/
def events (m : Cost α) : List Event := m.log.map Prod.fst

/-- forget the stack: the writer computation of `Model/Eval.lean` -/
def erase (m : Cost α) : W α := (m.val, m.events)

/-- the deepest frame that emitted an event -/
def maxEventDepth (m : Cost α) : Nat := m.log.foldl (fun a p => max a p.2) 0

end Cost

open Cost

/-- `o.Do(f)` of sync.Once on its first use: `Do` → `doSlow` → `f` (body `m`) -/
def onceDo {α : Type} (m : Cost α) : Cost α := call (call (call m))

inductive SEval (T : Type) where
  | leaf (first : Option (Unit → Cost T))
  | cont (first : Option (Unit → Cost T)) (nextC : T → Cost Unit) (next : T → SEval T)

variable {T : Type} [Inhabited T]

/-- body of the closure `lazy.Memoize(f)` returns: `once.Do(func() { ret = f() }); return ret` -/
def memoBody (f : Unit → Cost T) : Cost T := onceDo (call (f ()))

/-- `firstFunc()` with the nil case of `Resume` (a closure returning the zero value) -/
def callFirst (first : Option (Unit → Cost T)) : Cost T :=
  match first with
  | some f => call (f ())
  | none => call (pure default)

/-- `r.FlatMap(f)` (the value it builds; calling `FlatMap` itself is one frame without inner calls) -/
def flatMap (r : SEval T) (f : T → Cost (SEval T)) : SEval T :=
  match r with
  | .leaf first => .cont first (fun v => (f v).void) (fun v => (f v).val)
  | .cont first nextC next =>
    -- `func(value T) Eval[T] { return getNextFunc(value).FlatMap(f) }`
    .cont first (fun v => do call (nextC v); call (pure ())) (fun v => flatMap (next v) f)

def done (t : T) : SEval T := .leaf (some (fun _ => pure t))

/-- `r.Map(f)`: `r.FlatMap(func(value T) Eval[T] { return Done(f(value)) })`; `f v` is the body of `f` -/
def map (r : SEval T) (f : T → Cost T) : SEval T :=
  flatMap r (fun v => do let w ← call (f v); call (pure (done w)))

/-- `lazy.Map2(a, b, f)`: `a.FlatMap(func(v1) { return b.Map(func(v2) T { return f(v1, v2) }) })` -/
def map2 (a b : SEval T) (f : T → T → Cost T) : SEval T :=
  flatMap a (fun v1 => do call (call (pure ())); pure (map b (fun v2 => call (f v1 v2))))

/-- `lazy.Call(f)`: `firstFunc = Memoize(f)` -/
def callE (f : Unit → Cost T) : SEval T := .leaf (some (fun _ => memoBody f))

/-- `lazy.TailCall(f)`: `firstFunc` returns zero, `getNextFunc = func(T) Eval[T] { return mf() }` -/
def tailCall (f : Unit → Cost (SEval T)) : SEval T :=
  .cont (some (fun _ => pure default))
    (fun _ => (call (memoBody (fun u => (f u).void))))
    (fun _ => (f ()).val)

/-- `lazy.TailCallN(f, a1..aN)`: `TailCall(func() Eval[R] { return f(a1..aN) })`; `f` = body of the user function -/
def tailCallN (f : Unit → Cost (SEval T)) : SEval T := tailCall (fun u => call (f u))

/-- `r.Resume()`, relative to `Resume`'s frame: the result, or the closure `Run` calls next -/
def resume : SEval T → Cost (T ⊕ (Unit → Cost (SEval T)))
  | .leaf first => do let v ← callFirst first; pure (.inl v)
  | .cont first nextC next =>
    pure (.inr (fun _ => do let v ← callFirst first; call (nextC v); pure (next v)))

/-- one iteration of `Run`'s loop, relative to `Run`'s frame:
    `result, continuation := t.Resume(); if continuation != nil { t = continuation(); continue }; return result` -/
def iter (t : SEval T) : Cost (T ⊕ SEval T) := do
  match (← call (resume t)) with
  | .inl v => pure (.inl v)
  | .inr k => do let t' ← call (k ()); pure (.inr t')

/-- the loop of `Run` with an iteration budget; `acc` is what the earlier iterations did (all iterations
    run in the same frame: nothing is added to the depth between them) -/
def runLoop : Nat → SEval T → Cost Unit → Option (Cost T)
  | 0, _, _ => none
  | n + 1, t, acc =>
    let r := acc >>= fun _ => iter t
    match r.val with
    | .inl v => some ⟨v, r.log, r.peak⟩
    | .inr t' => runLoop n t' r.void

/-- body of `Run(t)` (relative to `Run`'s frame), by structural recursion: every `SEval` terminates -/
def runBody : SEval T → Cost T
  | .leaf first => call (callFirst first)
  | .cont first nextC next =>
    let k : Cost T := call (pure ()) >>= fun _ => call (callFirst first >>= fun v => call (nextC v) >>= fun _ => pure v)
    k >>= fun v => runBody (next v)

/-- number of loop iterations -/
def steps : SEval T → Nat
  | .leaf _ => 1
  | .cont first _ next => 1 + steps (next (callFirst first).val)

/-- the call `lazy.Run(t)` -/
def run (t : SEval T) : Cost T := call (runBody t)

/-- the call `t.Get()` (`Get` calls `Run`) -/
def get (t : SEval T) : Cost T := call (run t)

/-- forgetting the stack instrumentation gives the `Eval` of `Model/Eval.lean` -/
def erase : SEval T → Eval T
  | .leaf first => .leaf (first.map (fun f u => (f u).erase))
  | .cont first nextC next =>
    .cont (first.map (fun f u => (f u).erase)) (fun v => .logged (nextC v).events (erase (next v)))

-- program shapes (the harness generates them, the theorems of Spec/C16Stack are about them) ------------------

/-- `TailCall` (`viaN = false`) or `TailCallN` (`viaN = true`) -/
def tc (viaN : Bool) (f : Unit → Cost (SEval T)) : SEval T := if viaN then tailCallN f else tailCall f

/-- the tail-recursive loop
    `loop(n, acc) = if n == 0 { return Done(acc) }; return TailCall(func() Eval { a := u(n, acc); return loop(n-1, a) })`;
    `u n acc` is everything the user's step function does besides returning (its own calls included). -/
def tailLoop (viaN : Bool) (u : Nat → T → Cost T) : Nat → T → SEval T
  | 0, acc => done acc
  | n + 1, acc => tc viaN (fun _ => u (n + 1) acc >>= fun a => pure (tailLoop viaN u n a))

/-- the same recursion NOT in tail position:
    `loop(n, acc) = Call(func() T { a := u(n, acc); if n == 0 { return a }; return post(loop(n-1, a).Get()) })` -/
def callLoop (u : Nat → T → Cost T) (post : T → T) : Nat → T → SEval T
  | 0, acc => callE (fun _ => u 0 acc)
  | n + 1, acc => callE (fun _ => u (n + 1) acc >>= fun a => get (callLoop u post n a) >>= fun r => pure (post r))

/-- a `TailCall` "implemented" as `Call(func() T { return f().Get() })` (a run loop nested per step) -/
def tailCallViaGet (f : Unit → Cost (SEval T)) : SEval T := callE (fun u => call (f u) >>= fun e => get e)

def nestLoop (u : Nat → T → Cost T) : Nat → T → SEval T
  | 0, acc => done acc
  | n + 1, acc => tailCallViaGet (fun _ => u (n + 1) acc >>= fun a => pure (nestLoop u n a))

/-- left-nested chain `e.FlatMap(k 1).FlatMap(k 2)....FlatMap(k n)` -/
def lchain (k : Nat → T → Cost (SEval T)) : Nat → SEval T → SEval T
  | 0, e => e
  | n + 1, e => flatMap (lchain k n e) (k (n + 1))

/-- right-nested chain `rc(n, v) = Done(v).FlatMap(func(w) Eval { a := k(n, w); return rc(n-1, a) })` -/
def rchain (k : Nat → T → Cost T) : Nat → T → SEval T
  | 0, v => done v
  | n + 1, v => flatMap (done v) (fun w => k (n + 1) w >>= fun a => pure (rchain k n a))

/-- `e.Map(f 1).Map(f 2)....Map(f n)` -/
def mapTower (f : Nat → T → Cost T) : Nat → SEval T → SEval T
  | 0, e => e
  | n + 1, e => map (mapTower f n e) (f (n + 1))

/-- `Map2(Map2(Map2(e, b, g 1), b, g 2) ..., b, g n)` -/
def map2Left (b : SEval T) (g : Nat → T → T → Cost T) : Nat → SEval T → SEval T
  | 0, e => e
  | n + 1, e => map2 (map2Left b g n e) b (g (n + 1))

/-- `Map2(b, Map2(b, ... Map2(b, e, g 1) ..., g (n-1)), g n)` -/
def map2Right (b : SEval T) (g : Nat → T → T → Cost T) : Nat → SEval T → SEval T
  | 0, e => e
  | n + 1, e => map2 b (map2Right b g n e) (g (n + 1))

/-- monadic tail recursion: the recursive call sits in the continuation of a `FlatMap` on a `Done`:
    `loop(n, acc) = TailCall(func() Eval { return Done(acc).FlatMap(func(v) Eval { a := u(n, v); return loop(n-1, a) }) })` -/
def tailFlat (u : Nat → T → Cost T) : Nat → T → SEval T
  | 0, acc => done acc
  | n + 1, acc =>
    tailCall (fun _ => call (pure ()) >>= fun _ =>
      pure (flatMap (done acc) (fun v => u (n + 1) v >>= fun a => pure (tailFlat u n a))))

end FpVerif.EvalStack
