import FpVerif.Model.TryOpt
/-!
# Extension of `Model/StateT.lean`: `statet.Run`, `statet.Merge`, `statet.ApTry`, `statet.ApOption`
(statet/statet_op.go), mirroring the Go bodies.  A carried Go function `fp.Func1[A, B]` is `A → GoM B`.
-/
namespace FpVerif.StM
open FpVerif

variable {S A B C X : Type}

/-- `statet.Run(f)`: `func(s) { ret, ns := f(s); return try.Success(ret), ns }` -/
def run (f : S → GoM (A × S)) : StT S A := fun s => do
  let (ret, ns) ← f s
  Pure.pure (.success ret, ns)

/-- `fn1.Merge(f1, f2) = func(a) (B, C) { return f1(a), f2(a) }` (Go evaluates the operands left to right) -/
def fn1Merge (f1 : X → GoM B) (f2 : X → GoM C) : X → GoM (B × C) := fun a => do
  let b ← f1 a
  let c ← f2 a
  Pure.pure (b, c)

/-- `statet.Merge(fss, fsa) = Run(fn1.Merge(fsa, fss))` -/
def merge (fss : S → GoM S) (fsa : S → GoM A) : StT S A := run (fn1Merge fsa fss)

/-- `statet.ApTry(st, a)`: `func(s) { af, ns := st.Run(s); return try.Ap(af, a), ns }` with the generated
    `try.Ap(tfab, ta) = FlatMap(tfab, fab => Map(ta, fab))`. -/
def apTry (st : StT S (A → GoM B)) (a : Try A) : StT S B := fun s => do
  let (af, ns) ← st s
  let r ← MonadFamily.ap TryM.ops (Pure.pure af) (Pure.pure a)
  Pure.pure (r, ns)

/-- `statet.ApOption(st, a)`: `func(s) { af, ns := st.Run(s); return try.Ap(af, try.FromOption(a)), ns }` -/
def apOption (st : StT S (A → GoM B)) (a : Option A) : StT S B := fun s => do
  let (af, ns) ← st s
  let r ← MonadFamily.ap TryM.ops (Pure.pure af) (Pure.pure (TryM.fromOption a))
  Pure.pure (r, ns)

end FpVerif.StM
