import FpVerif.Model.Record
/-!
# Semantics of gombok's `@fp.Derive` output (C08).

The generator (`cmd/gombok/derive.go`) is not modelled; what its output *means* is.  For a struct
`T` with applicable fields `f1..fn` (declaration order) and component instances `d1..dn` it emits

* `eq.ContraMap(eq.TupleN(d1..dn), T.AsTuple)`
* `ord.ContraMap(ord.TupleN(d1..dn), T.AsTuple)`
* `hash.ContraMap(hash.TupleN(d1..dn), T.AsTuple)`
* `monoid.IMap(monoid.TupleN(d1..dn), TBuilder{}.FromTuple(·).Build, T.AsTuple)`
* `clone.Generic(as.Generic(.., T.AsTuple, TBuilder{}.FromTuple(·).Build), clone.TupleN(d1..dn))`

(for one field and for more than 21 fields the same thing over an `hlist` of the same fields in the
same order: `HCons(d1, HCons(d2, … HNil))`, through `Unapply` / `Builder.Apply`; for a struct
without `@fp.Value` the two conversions are written out as a closure and a composite literal).
A tuple / hlist is the LIST of the applicable field values, so every combinator below is defined
over lists of any length, by recursion on the instance list exactly like the Go templates
(`TupleN` builds `pt := Tuple(N-1)(ins2..insN)` for the tail; `Tuple1` / `HNil` are the base cases).
An arity mismatch between the instance list and a value list cannot be written in Go (it is a type
error); the model answers `false` / `0` / `[]` there.

Everything is polymorphic in the type `α` of field values: the theorems of `Spec/C08.lean` hold
for every `α`; the record model of C07 is the instance `α = RV` (`Lemmas/Derive.lean`:
`unapplyG = unapply`, `maskG = mask`, …), the oracle (`Oracle/Derive.lean`) runs the very same
definitions at the typed value universe `DV` of `Model/DeriveInst.lean`.

This file is a *minimal* dictionary model (`EqD`, `OrdD`, `HashD`, `MonoidD`, `CloneD`): just the
functions a Go type-class value carries.
-/
namespace FpVerif.Derive
open FpVerif.Rec

/-! ## Dictionaries (`fp.Eq[T]`, `fp.Ord[T]`, `fp.Hashable[T]`, `fp.Monoid[T]`) -/

structure EqD (α : Type) where
  eqv : α → α → Bool

structure OrdD (α : Type) where
  eqv : α → α → Bool
  less : α → α → Bool

structure HashD (α : Type) where
  eqv : α → α → Bool
  hash : α → UInt32

structure MonoidD (α : Type) where
  empty : α
  combine : α → α → α

/-- `fp.Ord[T]` embeds `fp.Eq[T]` -/
def OrdD.toEq {α : Type} (d : OrdD α) : EqD α := ⟨d.eqv⟩
/-- `fp.Hashable[T]` embeds `fp.Eq[T]` -/
def HashD.toEq {α : Type} (d : HashD α) : EqD α := ⟨d.eqv⟩

variable {α β : Type}

/-! ## Records of any value type

`Model/Record.lean` fixes the field values to `RV`; the same functions for records over any value
type (`projectG = project`, `injectG = inject`, `maskG = mask` at `RV`: `Lemmas/Derive.lean`). -/

/-- the values of the applicable fields in declaration order (`AsTuple` / `Unapply`) -/
def projectG : List Field → List α → List α
  | f :: fs, v :: vs => if f.applicable then v :: projectG fs vs else projectG fs vs
  | _, _ => []

/-- assign the applicable fields of `b` from `t`, position by position (`FromTuple` / `Apply`) -/
def injectG : List Field → List α → List α → List α
  | f :: fs, bv :: bs, t =>
    if f.applicable then
      match t with
      | v :: t' => v :: injectG fs bs t'
      | [] => bv :: injectG fs bs []
    else bv :: injectG fs bs t
  | _, bs, _ => bs

/-- keep the applicable fields of `x`, take the others from `zero` -/
def maskG : List Field → List α → List α → List α
  | f :: fs, z :: zs, v :: vs => (if f.applicable then v else z) :: maskG fs zs vs
  | _, _, _ => []

/-- `T.AsTuple` / `T.Unapply` -/
def unapplyG (s : StructSpec) (x : List α) : List α := projectG s.fields x

/-- a value of the struct: one value per declared field -/
def WFG (s : StructSpec) (x : List α) : Prop := x.length = s.fields.length

/-! ## `eq` -/

/-- `eq.HNil` / `eq.Tuple1` / the `eq.TupleN` template / `eq.HCons`:
    `ins1.Eqv(t1.I1, t2.I1) && pt.Eqv(as.Tuple(N-1)(t1.Tail()), as.Tuple(N-1)(t2.Tail()))` -/
def tupleEq : List (EqD α) → List α → List α → Bool
  | [], _, _ => true
  | [d], a :: _, b :: _ => d.eqv a b
  | d :: ds, a :: as, b :: bs => d.eqv a b && tupleEq ds as bs
  | _, _, _ => false

/-- `eq.ContraMap(instance, fn)`: `instance.Eqv(fn(a), fn(b))` -/
def EqD.contraMap (eqv : α → α → Bool) (fn : β → α) : EqD β :=
  ⟨fun a b => eqv (fn a) (fn b)⟩

/-- `EqT()`: `eq.ContraMap(eq.TupleN(d1..dn), T.AsTuple)` -/
def derivedEq (s : StructSpec) (ds : List (EqD α)) : EqD (List α) :=
  EqD.contraMap (tupleEq ds) (unapplyG s)

/-! ## `ord` -/

/-- `ord.New(eqv, less)` (ord_op.go): a `fp.CompareFunc` —
    `if eqv.Eqv(a, b) { return 0 }; return less.Compare(a, b)` with `LessFunc.Compare` =
    `-1` if `less(a,b)`, `1` if `less(b,a)`, else `0`.  Its `Eqv` is `Compare == 0`, its `Less` is
    `Compare < 0`: the `less` function is consulted only when `eqv` says "different". -/
def OrdD.new (eqv less : α → α → Bool) : OrdD α :=
  ⟨fun a b => eqv a b || (!less a b && !less b a), fun a b => !eqv a b && less a b⟩

/-- the lexicographic `Less` the `ord.TupleN` template spells out:
    `if ins1.Less(t1.I1, t2.I1) { return true }; if ins1.Less(t2.I1, t1.I1) { return false };
     return pt.Less(tail t1, tail t2)` — WITHOUT the `ord.New` wrapping of every level (the
    property's reference order; `tupleOrd` is the code) -/
def tupleLess : List (OrdD α) → List α → List α → Bool
  | [], _, _ => false
  | [d], a :: _, b :: _ => d.less a b
  | d :: ds, a :: as, b :: bs =>
    if d.less a b then true
    else if d.less b a then false
    else tupleLess ds as bs
  | _, _, _ => false

/-- `ord.HNil` (`New(EqGiven, false)`) / the `ord.TupleN` template / `ord.HCons`:
    `New(eq.New(ins1.Eqv(heads) && pt.Eqv(tails)), LessFunc(… pt.Less(tails)))` with
    `pt := Tuple(N-1)(ins2..insN)`.  (`ord.Tuple1(a) = New(a.Eqv, a.Less)` is the same function
    as `HCons(a, HNil)`: `a.Eqv && true`, `a.Less` else `a.Less` flipped else `false`.) -/
def tupleOrd : List (OrdD α) → OrdD (List α)
  | [] => OrdD.new (fun _ _ => true) (fun _ _ => false)
  | d :: ds =>
    OrdD.new
      (fun t1 t2 =>
        match t1, t2 with
        | a :: as, b :: bs => d.eqv a b && (tupleOrd ds).eqv as bs
        | _, _ => false)
      (fun t1 t2 =>
        match t1, t2 with
        | a :: as, b :: bs =>
          if d.less a b then true
          else if d.less b a then false
          else (tupleOrd ds).less as bs
        | _, _ => false)

/-- `ord.ContraMap(instance, fn)`:
    `New(eq.ContraMap(instance, fn), instance.Less(fn(a), fn(b)))` -/
def OrdD.contraMap (inst : OrdD α) (fn : β → α) : OrdD β :=
  OrdD.new (fun a b => inst.eqv (fn a) (fn b)) (fun a b => inst.less (fn a) (fn b))

/-- `OrdT()` -/
def derivedOrd (s : StructSpec) (ds : List (OrdD α)) : OrdD (List α) :=
  OrdD.contraMap (tupleOrd ds) (unapplyG s)

/-! ## `hash` -/

/-- `hash.HNil` (0) / `hash.Tuple1` (`ins1.Hash(t.Head())`) / the `hash.TupleN` template /
    `hash.HCons` (`ins1.Hash(t.Head())*31 + pt.Hash(tail)`, `uint32` arithmetic; the last
    component is not multiplied) -/
def tupleHash : List (HashD α) → List α → UInt32
  | [], _ => 0
  | [d], a :: _ => d.hash a
  | d :: ds, a :: as => d.hash a * 31 + tupleHash ds as
  | _, _ => 0

/-- `hash.ContraMap(teq, fn)`: `New(eq.ContraMap(teq, fn), teq.Hash(fn(a)))` -/
def HashD.contraMap (eqv : α → α → Bool) (hash : α → UInt32) (fn : β → α) : HashD β :=
  ⟨fun a b => eqv (fn a) (fn b), fun a => hash (fn a)⟩

/-- `HashableT()`; the `Eqv` of `hash.TupleN` is the same expression as `eq.TupleN` -/
def derivedHash (s : StructSpec) (ds : List (HashD α)) : HashD (List α) :=
  HashD.contraMap (tupleEq (ds.map HashD.toEq)) (tupleHash ds) (unapplyG s)

/-! ## `monoid` -/

/-- `Empty` of the `monoid.TupleN` template: `product.TupleN(ins1.Empty(), …, insN.Empty())` -/
def tupleEmpty (ds : List (MonoidD α)) : List α := ds.map MonoidD.empty

/-- `Combine` of the `monoid.TupleN` template:
    `product.TupleN(ins1.Combine(t1.I1, t2.I1), …, insN.Combine(t1.IN, t2.IN))` -/
def tupleCombine : List (MonoidD α) → List α → List α → List α
  | d :: ds, a :: as, b :: bs => d.combine a b :: tupleCombine ds as bs
  | _, _, _ => []

/-- `monoid.IMap(instance, fab, fba)`: `Empty = fab(instance.Empty())`,
    `Combine(a, b) = fab(instance.Combine(fba(a), fba(b)))` -/
def MonoidD.imap (empty : α) (combine : α → α → α) (fab : α → β) (fba : β → α) : MonoidD β :=
  ⟨fab empty, fun a b => fab (combine (fba a) (fba b))⟩

/-- `fp.Compose(as.Curried2(TBuilder.FromTuple)(TBuilder{}), TBuilder.Build)` (or the composite
    literal that names the applicable fields): assign the applicable fields of the ZERO value
    `zero` of the struct from the tuple -/
def fromZero (s : StructSpec) (zero : List α) (t : List α) : List α := injectG s.fields zero t

/-- `MonoidT()`; `zero` is the zero value of the struct (`TBuilder{}`) -/
def derivedMonoid (s : StructSpec) (zero : List α) (ds : List (MonoidD α)) : MonoidD (List α) :=
  MonoidD.imap (tupleEmpty ds) (tupleCombine ds) (fromZero s zero) (unapplyG s)

/-! ## Generic structs

`EqG[T, U, V any](eqT fp.Eq[T], eqV fp.Eq[V]) fp.Eq[G[T,U,V]]`: the derived instance of a generic
struct is a FUNCTION of one dictionary per *used* type parameter.  The component of a field is
either the dictionary passed for its type parameter or an instance found in scope. -/

/-- the component instance of field `f`: the parameter's dictionary when the field type is one of
    the struct's type parameters, else whatever instance resolution finds for the type -/
def resolve {D : Type} (params : List String) (paramDict : String → D) (given : Ty → D)
    (f : Field) : D :=
  match f.ty with
  | .conc n => if params.contains n then paramDict n else given f.ty
  | t => given t

def components {D : Type} (s : StructSpec) (params : List String) (given : Ty → D)
    (paramDict : String → D) : List D :=
  s.applicableFields.map (resolve params paramDict given)

def derivedEqG (s : StructSpec) (params : List String) (given : Ty → EqD α) :
    (String → EqD α) → EqD (List α) :=
  fun pd => derivedEq s (components s params given pd)

def derivedOrdG (s : StructSpec) (params : List String) (given : Ty → OrdD α) :
    (String → OrdD α) → OrdD (List α) :=
  fun pd => derivedOrd s (components s params given pd)

def derivedHashG (s : StructSpec) (params : List String) (given : Ty → HashD α) :
    (String → HashD α) → HashD (List α) :=
  fun pd => derivedHash s (components s params given pd)

def derivedMonoidG (s : StructSpec) (zero : List α) (params : List String)
    (given : Ty → MonoidD α) : (String → MonoidD α) → MonoidD (List α) :=
  fun pd => derivedMonoid s zero (components s params given pd)

/-! ## `clone`: values with mutable storage

"Shares no mutable storage" needs a value type that shows storage.
`HV.ref a c` is anything with identity: a pointer, the backing array of a slice, a map — mutable
storage at address `a` holding `c`.  `HV.pair` is by-value aggregation (struct fields, slice
elements: an n-ary aggregate is a right-nested pair), `HV.leaf` an immutable scalar (also `nil`). -/

inductive HV where
  | leaf (s : String)
  | ref (addr : Nat) (content : HV)
  | pair (l r : HV)
  deriving DecidableEq, Repr, Inhabited

/-- every address reachable from the value, in pre-order -/
def HV.addrs : HV → List Nat
  | .leaf _ => []
  | .ref a c => a :: c.addrs
  | .pair l r => l.addrs ++ r.addrs

/-- equal content, addresses ignored -/
def HV.same : HV → HV → Bool
  | .leaf s, .leaf t => s == t
  | .ref _ c, .ref _ c' => c.same c'
  | .pair l r, .pair l' r' => l.same l' && r.same r'
  | _, _ => false

def addrsL (vs : List HV) : List Nat := vs.flatMap HV.addrs

def sameL : List HV → List HV → Bool
  | [], [] => true
  | a :: as, b :: bs => a.same b && sameL as bs
  | _, _ => false

/-- the allocator: the state is the next fresh address -/
abbrev Alloc := StateM Nat

/-- `new(T)` / `make(...)` -/
def fresh : Alloc Nat := fun n => (n, n + 1)

/-- `fp.Clone[T]`: `Clone(T) T`, which may allocate -/
structure CloneD (α : Type) where
  clone : α → Alloc α

/-- a copy that re-allocates every piece of mutable storage -/
def deepClone : HV → Alloc HV
  | .leaf s => pure (.leaf s)
  | .ref _ c => do
    let a' ← fresh
    let c' ← deepClone c
    pure (.ref a' c')
  | .pair l r => do
    let l' ← deepClone l
    let r' ← deepClone r
    pure (.pair l' r')

def CloneD.deep : CloneD HV := ⟨deepClone⟩

/-- `clone.Given[T]()`: `return t` -/
def CloneD.given : CloneD HV := ⟨fun v => pure v⟩

/-- `clone.Ptr` as it was written before commit ddaa598 ("clone.Ptr ignored its element
    instance": the argument `tshow` was never used): `if pt == nil { return nil }; var t = *pt;
    return &t` — a new cell holding a SHALLOW copy of the pointee.  Kept as the counter-model of
    the theorems `ptrCloneShallow_*` (what the property excludes). -/
def ptrCloneShallow (_tshow : CloneD HV) : CloneD HV :=
  ⟨fun pt =>
    match pt with
    | .ref _ t => do
      let a' ← fresh
      pure (.ref a' t)
    | v => pure v⟩

/-- `clone.Ptr` (clone/clone.go): the pointee is cloned with the component instance:
    `if pt == nil { return nil }; var t = tshow.Get().Clone(*pt); return &t` -/
def ptrCloneDeep (tclone : CloneD HV) : CloneD HV :=
  ⟨fun pt =>
    match pt with
    | .ref _ t => do
      let a' ← fresh
      let t' ← tclone.clone t
      pure (.ref a' t')
    | v => pure v⟩

/-- `clone.Slice(tclone)`: `seq.Map(s, tclone.Clone)` allocates a new backing array and clones the
    elements (here the element aggregate) into it -/
def sliceClone (tclone : CloneD HV) : CloneD HV := ptrCloneDeep tclone

/-- `clone.TupleN` template: `as.TupleN(ins1.Clone(t.I1), …, insN.Clone(t.IN))`, left to right -/
def tupleClone : List (CloneD α) → List α → Alloc (List α)
  | d :: ds, a :: as => do
    let a' ← d.clone a
    let r ← tupleClone ds as
    pure (a' :: r)
  | _, _ => pure []

abbrev HRec := List HV

/-- a zero value holds no storage (nil pointer, nil slice, 0, "") -/
def HV.ofRV : RV → HV
  | .atom s => .leaf s
  | .none => .leaf "None"
  | .some v => .pair (.leaf "Some") (HV.ofRV v)
  | .nilIface => .leaf "nil"
  | .iface d v => .pair (.leaf d) (HV.ofRV v)

/-- `TBuilder{}` -/
def zeroH (s : StructSpec) : HRec := s.fields.map (fun f => HV.ofRV f.zero)

/-- `clone.Generic(gen, reprClone)`: `gen.From(reprClone.Clone(gen.To(a)))` with
    `gen.To = T.AsTuple`, `gen.From = TBuilder{}.FromTuple(·).Build` -/
def derivedClone (s : StructSpec) (ds : List (CloneD HV)) : CloneD HRec :=
  ⟨fun a => do
    let t ← tupleClone ds (projectG s.fields a)
    pure (injectG s.fields (zeroH s) t)⟩

/-! ## Law bundles (the vocabulary of the C08 theorems)

Each bundle is relative to a carrier predicate `P` (the values the laws are claimed for): a
component is lawful on the values of its Go type, the derived instance is proved lawful on the
well-formed records `WFG s` whose fields lie in the carriers of their components. -/

structure LawfulEqOn (P : α → Prop) (d : EqD α) : Prop where
  refl : ∀ a, P a → d.eqv a a = true
  symm : ∀ a b, P a → P b → d.eqv a b = true → d.eqv b a = true
  trans : ∀ a b c, P a → P b → P c → d.eqv a b = true → d.eqv b c = true → d.eqv a c = true

abbrev LawfulEq (d : EqD α) : Prop := LawfulEqOn (fun _ => True) d

/-- a strict weak order whose `Eqv` is "neither is less": irreflexive, transitive, and
    incomparability (= `Eqv`) is transitive.  (When `Eqv` is equality this is a strict total order.) -/
structure LawfulOrdOn (P : α → Prop) (d : OrdD α) : Prop where
  irrefl : ∀ a, P a → d.less a a = false
  trans : ∀ a b c, P a → P b → P c → d.less a b = true → d.less b c = true → d.less a c = true
  eqv_iff : ∀ a b, P a → P b → (d.eqv a b = true ↔ (d.less a b = false ∧ d.less b a = false))
  eqv_trans : ∀ a b c, P a → P b → P c → d.eqv a b = true → d.eqv b c = true → d.eqv a c = true

abbrev LawfulOrd (d : OrdD α) : Prop := LawfulOrdOn (fun _ => True) d

/-- the one law the lexicographic characterisation needs of a component: its `Eqv` is exactly
    "neither is less" (`ord.New` consults `less` only when `eqv` fails) -/
def OrdCompat (d : OrdD α) : Prop :=
  ∀ a b, d.eqv a b = true ↔ (d.less a b = false ∧ d.less b a = false)

structure LawfulHashOn (P : α → Prop) (d : HashD α) : Prop where
  congr : ∀ a b, P a → P b → d.eqv a b = true → d.hash a = d.hash b

abbrev LawfulHash (d : HashD α) : Prop := LawfulHashOn (fun _ => True) d

structure LawfulMonoidOn (P : α → Prop) (d : MonoidD α) : Prop where
  left_id : ∀ a, P a → d.combine d.empty a = a
  right_id : ∀ a, P a → d.combine a d.empty = a
  assoc : ∀ a b c, P a → P b → P c → d.combine (d.combine a b) c = d.combine a (d.combine b c)

abbrev LawfulMonoid (d : MonoidD α) : Prop := LawfulMonoidOn (fun _ => True) d

/-- pointwise relation between two lists of the same length (core has no `List.Forall₂`) -/
inductive Forall2 {β : Type} (R : α → β → Prop) : List α → List β → Prop where
  | nil : Forall2 R [] []
  | cons {a : α} {b : β} {as : List α} {bs : List β} : R a b → Forall2 R as bs → Forall2 R (a :: as) (b :: bs)

/-- every value of the tuple lies in the carrier of its position -/
abbrev InCarriers (Ps : List (α → Prop)) (vs : List α) : Prop := Forall2 (fun P v => P v) Ps vs

/-- every component is a lawful monoid on the carrier of its position -/
abbrev LawfulMonoids (ds : List (MonoidD α)) (Ps : List (α → Prop)) : Prop :=
  Forall2 (fun d P => LawfulMonoidOn P d) ds Ps

/-- run an allocating computation with `n` as the next fresh address: (result, next fresh address) -/
def runAlloc (m : Alloc α) (n : Nat) : α × Nat := (m.run n).run

/-- "an equal copy sharing no mutable storage", for the clone `d` at the value `v`: from every
    allocator state `n` the copy has the same content, and its addresses are pairwise distinct and
    all allocated by this call (in `[n, n')`) — hence none of them occurs in any value that
    existed before the call. -/
structure CloneOK (d : CloneD HV) (v : HV) : Prop where
  same : ∀ n, (runAlloc (d.clone v) n).1.same v = true
  mono : ∀ n, n ≤ (runAlloc (d.clone v) n).2
  fresh : ∀ n a, a ∈ (runAlloc (d.clone v) n).1.addrs → n ≤ a ∧ a < (runAlloc (d.clone v) n).2
  nodup : ∀ n, (runAlloc (d.clone v) n).1.addrs.Nodup

/-- the same for a record clone -/
structure CloneOKRec (s : StructSpec) (d : CloneD HRec) (x : HRec) : Prop where
  same : ∀ n, sameL (projectG s.fields (runAlloc (d.clone x) n).1) (projectG s.fields x) = true
  mono : ∀ n, n ≤ (runAlloc (d.clone x) n).2
  fresh : ∀ n a, a ∈ addrsL (runAlloc (d.clone x) n).1 → n ≤ a ∧ a < (runAlloc (d.clone x) n).2
  nodup : ∀ n, (addrsL (runAlloc (d.clone x) n).1).Nodup

/-! ## Sample component instances over `RV` (used to show the law bundles are satisfiable) -/

/-- `eq.Given[T]()` for a comparable `T`: Go `==` on the canonical value -/
def EqD.given : EqD RV := ⟨fun a b => a == b⟩

/-- the number an unsigned integer field holds (canonical decimal rendering) -/
def rvNum : RV → Nat
  | .atom s => s.toList.foldl (fun n c => n * 10 + (c.toNat - 48)) 0
  | _ => 0

/-- `ord.Given[uint]()` -/
def OrdD.byNum : OrdD RV := ⟨fun a b => rvNum a == rvNum b, fun a b => decide (rvNum a < rvNum b)⟩

/-- `hash.Number[uint]()` -/
def HashD.byNum : HashD RV := ⟨fun a b => rvNum a == rvNum b, fun a => (rvNum a).toUInt32⟩

/-- "first defined wins" (`None` is the identity) -/
def MonoidD.first : MonoidD RV := ⟨.none, fun a b => if a = .none then b else a⟩

/-! ## Sample declarations and values (used by the concrete examples of C08) -/

/-- `type B struct { p *A; n int }` where `type A struct { name string; sl []string }` -/
def specB : StructSpec :=
  { name := "B", fields := [{ name := "p", ty := .conc "*A" }, { name := "n", ty := .conc "int" }] }

/-- `B{p: &A{name: "x", sl: []string{"e"}}, n: 7}`: the `A` lives at address 0, the backing array of
    its slice at address 1 -/
def valB : HRec := [.ref 0 (.pair (.leaf "x") (.ref 1 (.leaf "e"))), .leaf "7"]

/-- a struct with a non-applicable field in the middle: `struct { a uint; _pad uint; b uint }` -/
def specP : StructSpec :=
  { name := "P", fields := [{ name := "a", ty := .conc "uint" }, { name := "_pad", ty := .conc "uint" },
      { name := "b", ty := .conc "uint" }] }

end FpVerif.Derive
