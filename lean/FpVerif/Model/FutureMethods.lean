import FpVerif.Model.Future
/-!
# The concrete Try functions of the `fp.Future` methods (C06, audit finding 7)

`Model/Future.lean` has ONE constructor `.transform e f` for `future.Transform`, `Future.Map`, `Future.Recover`,
`Future.RecoverCase` and `Future.Failed`, with the Try function `f` a parameter.  This module fixes, for each of
those methods, the Try function its Go body applies (future.go:209-327) — as writer functions over the user's
callbacks — and defines the methods as the corresponding expressions.  These are the functions
`Oracle/Future.lean:150-182` writes inline (`Spec/C06Methods.lean`: `oracle_*` state that the oracle's lambdas are
instances of them, by `rfl`); the relation to the C01/C02-verified Try model (`TryM.recover`, `TryM.recoverCase`,
`TryM.flatMap`, …) is proved in `Spec/C06Methods.lean`.

User callbacks are writer functions (`W`: result + logged events); a user callback that panics inside a task is
outside this model (the task dies, the promise stays pending) except for `Apply`, whose Go body recovers
(`applyGo` / `apply2Go`).
-/
namespace FpVerif.Fut

/-- `Future.Map(mf)`, future.go:318-324: `if t.IsSuccess() { np.Success(mf(t.Get())) } else { np.Failure(t.Failed().Get()) }` -/
def mMapF (mf : Val → W Val) : Try Val → W (Try Val)
  | .success v => let (r, evs) := mf v; (.success r, evs)
  | .failure e => (.failure e, [])

/-- `Future.Recover(f)`, future.go:258-264: `if t.IsSuccess() { np.Success(t.Get()) } else { np.Success(f(t.Failed().Get())) }` -/
def mRecoverF (f : Err → W Val) : Try Val → W (Try Val)
  | .success x => (.success x, [])
  | .failure e => let (r, evs) := f e; (.success r, evs)

/-- `Future.RecoverCase(isDefinedAt, then)`, future.go:272-274: `np.Complete(t.RecoverCase(isDefinedAt, then))`, with
    `Try.RecoverCase` of try.go:128-138 -/
def mRecoverCaseF (isDefinedAt : Err → W Bool) (then_ : Err → W Val) : Try Val → W (Try Val)
  | .success x => (.success x, [])
  | .failure e =>
    let (b, evs1) := isDefinedAt e
    if b then let (r, evs2) := then_ e; (.success r, evs1 ++ evs2)
    else (.failure e, evs1)

/-- `Future.Failed()`, future.go:212-218: `if t.IsSuccess() { np.Failure(ErrFutureNotFailed) } else { np.Success(t.Failed().Get()) }`;
    the error, now a VALUE, is rendered as the harness shows it (`ShowErr`) -/
def mFailedF : Try Val → W (Try Val)
  | .success _ => (.failure .futureNotFailed, [])
  | .failure e => (.success (.str e.toStr), [])

def mMap (e : FExpr) (mf : Val → W Val) : FExpr := .transform e (mMapF mf)
def mRecover (e : FExpr) (f : Err → W Val) : FExpr := .transform e (mRecoverF f)
def mRecoverCase (e : FExpr) (isDefinedAt : Err → W Bool) (then_ : Err → W Val) : FExpr :=
  .transform e (mRecoverCaseF isDefinedAt then_)
def mFailed (e : FExpr) : FExpr := .transform e mFailedF

/-- `Future.FlatMap`, future.go:329-343 (same task body as `future.FlatMap`) -/
def mFlatMap (e : FExpr) (mf : Val → FExpr) : FExpr := .flatMap e mf
/-- `Future.RecoverWith`, future.go:279-293 -/
def mRecoverWith (e : FExpr) (f : Err → FExpr) : FExpr := .recoverWith e (fun _ => true) f
/-- `Future.RecoverCaseWith`, future.go:295-313 (pure `isDefinedAt`) -/
def mRecoverCaseWith (e : FExpr) (isDefinedAt : Err → Bool) (then_ : Err → FExpr) : FExpr := .recoverWith e isDefinedAt then_
/-- `Future.Or(f)`, future.go:223-237: on failure `f()` is built, whatever the error -/
def mOr (e : FExpr) (f : Unit → FExpr) : FExpr := .recoverWith e (fun _ => true) (fun _ => f ())
/-- `Future.OrFuture(v)`, future.go:239-253 -/
def mOrFuture (e alt : FExpr) : FExpr := .orFuture e alt

/-- The task body of `future.Apply(f)`, future/future_op.go:52-61, with the user function's panic EXPLICIT:
    `defer func(){ if err := recover(); err != nil { p.Failure(fp.PanicError(err)) } }(); result := f(); p.Success(result)`.
    The user function is a `GoM` computation (it may log and then panic); what it logged before panicking stays logged. -/
def applyGo (f : Unit → GoM Val) : Unit → W (Try Val) := fun _ =>
  match (f ()).exec with
  | (.ok v, evs) => (.success v, evs)
  | (.error p, evs) => (.failure (.panicErr p), evs)

/-- `future.Apply2(f)`, future_op.go:66-82: additionally `if err != nil { p.Failure(err) } else { p.Success(result) }` -/
def apply2Go (f : Unit → GoM (Val × Err)) : Unit → W (Try Val) := fun _ =>
  match (f ()).exec with
  | (.ok (v, err), evs) => (if err = .nil then .success v else .failure err, evs)
  | (.error p, evs) => (.failure (.panicErr p), evs)

/-- `future.Apply(f)` / `future.Apply2(f)` for a user function that may panic -/
def mApply (f : Unit → GoM Val) : FExpr := .apply (applyGo f)
def mApply2 (f : Unit → GoM (Val × Err)) : FExpr := .apply (apply2Go f)

end FpVerif.Fut
