import FpVerif.Base
/-!
# Model of `fp.Iterator` (iterator.go) and package `iterator` (iterator/iterator_op.go).

A Go iterator is a pair of closures `hasNext func() bool`, `next func() T` over captured, mutable
variables.  Here an iterator is a *state* `s : σ` of a machine

    structure Machine σ α := (hasNext : IM σ Bool) (next : IM σ α)

where `σ` is the tuple of the captured variables (including the state of the iterators the closure
captured) and `IM σ` is "state σ + event log + panic"; state and log survive a panic, exactly as the
captured variables of a Go closure keep the assignments made before a `panic`.

Every combinator below has the SAME captured variables as the Go closure of the same name and
executes the same statements in the same order (same calls on the underlying iterator, same
user-callback invocations).  Go `for` loops whose trip count is not bounded by a parameter take a
`fuel` (running out of fuel is the panic `outOfFuel`, which no Go execution produces).
-/
namespace FpVerif.It

abbrev Log := List Event

/-- state + log + panic; both state and log persist through a panic. -/
def IM (σ X : Type) : Type := σ → Log → Except PanicVal X × σ × Log

namespace IM
variable {σ γ X Y : Type}

@[inline] protected def pure (x : X) : IM σ X := fun s lg => (.ok x, s, lg)

@[inline] protected def bind (m : IM σ X) (f : X → IM σ Y) : IM σ Y := fun s lg =>
  match m s lg with
  | (.ok x, s', lg') => f x s' lg'
  | (.error p, s', lg') => (.error p, s', lg')

instance : Monad (IM σ) where
  pure := IM.pure
  bind := IM.bind

/-- Go `panic(p)`. -/
def panic (p : PanicVal) : IM σ X := fun s lg => (.error p, s, lg)

def get : IM σ σ := fun s lg => (.ok s, s, lg)
def set (s' : σ) : IM σ Unit := fun _ lg => (.ok (), s', lg)
def modify (f : σ → σ) : IM σ Unit := fun s lg => (.ok (), f s, lg)

/-- run a user callback (it sees and extends the log; it cannot touch iterator state). -/
def liftG (g : GoM X) : IM σ X := fun s lg =>
  let r := g.run.run lg
  (r.1, s, r.2)

/-- run an operation of the captured (underlying) iterator: first component of the state. -/
def onFst (m : IM σ X) : IM (σ × γ) X := fun sc lg =>
  match m sc.1 lg with
  | (r, s', lg') => (r, (s', sc.2), lg')

/-- access the combinator's own captured variables: second component of the state. -/
def onSnd (m : IM γ X) : IM (σ × γ) X := fun sc lg =>
  match m sc.2 lg with
  | (r, c', lg') => (r, (sc.1, c'), lg')

end IM

def nextOnEmpty : PanicVal := "next on empty iterator"
def outOfFuel : PanicVal := "<<out-of-fuel>>"
/-- calling a nil func value (`Iterator[T]{}.next()`). -/
def nilFunc : PanicVal := "nil-func"

structure Machine (σ α : Type) where
  hasNext : IM σ Bool
  next : IM σ α

variable {σ σ₂ σ₃ τ α β γ : Type}

/-! ## Sources -/

/-- `fp.IteratorOfSeq(r)`: captured `idx`.  With `tag = some t` it is the harness's instrumented
    source, which logs `t v` for every element handed out (`idx` is then also the pull counter). -/
def ofSeq (tag : Option (α → Event)) (r : List α) : Machine Nat α where
  hasNext := do
    let idx ← IM.get
    pure (decide (idx < r.length))
  next := do
    let idx ← IM.get
    match r[idx]? with
    | some ret =>
      IM.set (idx + 1)
      match tag with
      | some t => IM.liftG (emit (t ret))
      | none => pure ()
      pure ret
    | none => IM.panic nextOnEmpty

/-- `fp.IteratorOfOption(r)`: captured `first`. -/
def ofOption (r : Option α) : Machine Bool α where
  hasNext := do
    let first ← IM.get
    pure (first && r.isSome)
  next := do
    let first ← IM.get
    match first, r with
    | true, some v => IM.set false; pure v
    | _, _ => IM.panic nextOnEmpty

/-- `iterator.Empty()`. -/
def empty : Machine Unit α where
  hasNext := pure false
  next := IM.panic nextOnEmpty

/-- The zero value `fp.Iterator[T]{}`: `HasNext()` checks `hasNext == nil`, `Next()` calls the nil
    `next`. -/
def zero : Machine Unit α where
  hasNext := pure false
  next := IM.panic nilFunc

/-- `iterator.ReverseSeq(seq)`: captured `idx` counting down from `len(seq)`. -/
def reverseSeq (seq : List α) : Machine Nat α where
  hasNext := do
    let idx ← IM.get
    pure (decide (idx > 0))
  next := do
    let idx ← IM.get
    if idx > 0 then
      match seq[idx - 1]? with
      | some ret => IM.set (idx - 1); pure ret
      | none => IM.panic "index out of range"
    else IM.panic nextOnEmpty

/-- `iterator.Range(from, exclusive)` (`closed = false`) / `RangeClosed` (`closed = true`):
    captured `i`. -/
def range (closed : Bool) (bound : Int) : Machine Int Int where
  hasNext := do
    let i ← IM.get
    pure (if closed then decide (i ≤ bound) else decide (i < bound))
  next := do
    let i ← IM.get
    if (if closed then decide (i ≤ bound) else decide (i < bound)) then
      IM.set (i + 1)
      pure i
    else IM.panic nextOnEmpty

/-- `iterator.Generate(generator)`: never exhausted.  The generator's own captured state is the
    call counter `n` (enough for every generator the harness uses and for `ZipWithIndex`). -/
def generate (g : Nat → GoM α) : Machine Nat α where
  hasNext := pure true
  next := do
    let n ← IM.get
    let v ← IM.liftG (g n)
    IM.set (n + 1)
    pure v

/-! ## Methods of `fp.Iterator` that build iterators -/

/-- `r.Map(mf)` / `iterator.Map(opt, fn)`. -/
def map (f : α → GoM β) (r : Machine σ α) : Machine σ β where
  hasNext := r.hasNext
  next := do
    let v ← r.next
    IM.liftG (f v)

/-- `r.TapEach(p)`. -/
def tapEach (p : α → GoM Unit) (r : Machine σ α) : Machine σ α where
  hasNext := r.hasNext
  next := do
    let ret ← r.next
    IM.liftG (p ret)
    pure ret

/-- `r.Take(n)`: captured `i`. -/
def take (n : Int) (r : Machine σ α) : Machine (σ × Nat) α :=
  let hasNext : IM (σ × Nat) Bool := do
    let i ← IM.onSnd IM.get
    if (i : Int) < n then IM.onFst r.hasNext else pure false
  { hasNext := hasNext
    next := do
      if ← hasNext then
        IM.onSnd (IM.modify (· + 1))
        IM.onFst r.next
      else IM.panic nextOnEmpty }

structure TakeWhileSt (α : Type) where
  breaking : Bool := false
  fv : Option α := none

/-- `r.TakeWhile(p)`: captured `breaking`, `fv`. -/
def takeWhile (p : α → GoM Bool) (r : Machine σ α) : Machine (σ × TakeWhileSt α) α :=
  let hasNext : IM (σ × TakeWhileSt α) Bool := do
    let c ← IM.onSnd IM.get
    if c.breaking then return false
    if c.fv.isSome then return true
    if ← IM.onFst r.hasNext then
      let v ← IM.onFst r.next
      if ← IM.liftG (p v) then
        IM.onSnd (IM.modify fun c => { c with fv := some v })
        return true
      IM.onSnd (IM.modify fun c => { c with breaking := true })
    return false
  { hasNext := hasNext
    next := do
      if ← hasNext then
        let c ← IM.onSnd IM.get
        match c.fv with
        | some ret =>
          IM.onSnd (IM.modify fun c => { c with fv := none })
          pure ret
        | none => IM.panic "Option.empty"
      else IM.panic nextOnEmpty }

/-- `r.Drop(n)`: runs at construction time on `r` itself and returns `r`. -/
def dropLoop (r : Machine σ α) : Nat → IM σ Unit
  | 0 => pure ()
  | k + 1 => do
    if ← r.hasNext then
      let _ ← r.next
      dropLoop r k
    else pure ()

def drop (n : Int) (r : Machine σ α) : IM σ Unit := dropLoop r n.toNat

structure DropWhileSt (α : Type) where
  found : Bool := false
  first : Option α := none

/-- the `for r.HasNext()` loop inside `DropWhile`'s `hasNext`. -/
def dropWhileLoop (p : α → GoM Bool) (r : Machine σ α) : Nat → IM (σ × DropWhileSt α) Bool
  | 0 => IM.panic outOfFuel
  | fuel + 1 => do
    if ← IM.onFst r.hasNext then
      let v ← IM.onFst r.next
      if !(← IM.liftG (p v)) then
        IM.onSnd (IM.set { found := true, first := some v })
        return true
      dropWhileLoop p r fuel
    else return false

/-- `r.DropWhile(p)`: captured `found`, `first`. -/
def dropWhile (fuel : Nat) (p : α → GoM Bool) (r : Machine σ α) : Machine (σ × DropWhileSt α) α :=
  let hasNext : IM (σ × DropWhileSt α) Bool := do
    let c ← IM.onSnd IM.get
    if c.first.isSome then return true
    if c.found then IM.onFst r.hasNext
    else dropWhileLoop p r fuel
  { hasNext := hasNext
    next := do
      if ← hasNext then
        let c ← IM.onSnd IM.get
        match c.first with
        | some ret =>
          IM.onSnd (IM.modify fun c => { c with first := none })
          pure ret
        | none =>
          if c.found then IM.onFst r.next
          else IM.panic nextOnEmpty
      else IM.panic nextOnEmpty }

/-- `r.Find(p)`. -/
def find (p : α → GoM Bool) (r : Machine σ α) : Nat → IM σ (Option α)
  | 0 => IM.panic outOfFuel
  | fuel + 1 => do
    if ← r.hasNext then
      let v ← r.next
      if ← IM.liftG (p v) then return some v
      find p r fuel
    else return none

structure FilterSt (α : Type) where
  first : Bool := true
  fv : Option α := none

/-- `r.Filter(p)`: captured `first`, `fv`. -/
def filter (fuel : Nat) (p : α → GoM Bool) (r : Machine σ α) : Machine (σ × FilterSt α) α :=
  let hasNext : IM (σ × FilterSt α) Bool := do
    let c ← IM.onSnd IM.get
    if c.first then
      let fv ← IM.onFst (find p r fuel)
      IM.onSnd (IM.set { first := false, fv := fv })
      return fv.isSome
    return c.fv.isSome
  { hasNext := hasNext
    next := do
      if ← hasNext then
        let c ← IM.onSnd IM.get
        match c.fv with
        | some ret =>
          let fv ← IM.onFst (find p r fuel)
          IM.onSnd (IM.modify fun c => { c with fv := fv })
          pure ret
        | none => IM.panic "Option.empty"
      else IM.panic nextOnEmpty }

/-- `r.FilterNot(p)`. -/
def filterNot (fuel : Nat) (p : α → GoM Bool) (r : Machine σ α) : Machine (σ × FilterSt α) α :=
  filter fuel (fun t => do let b ← p t; pure (!b)) r

/-! ### Concat

`r.Concat(tail)` does not capture `r` and `tail` but the flattened slice `alliter` of the iterators
they were themselves concatenated from (field `concat`).  The components are modelled as a
multi-port machine: one state, `n` pairs of operations addressed by index. -/

structure MMachine (σ α : Type) where
  n : Nat
  hasNext : Nat → IM σ Bool
  next : Nat → IM σ α

/-- an iterator that is not the result of `Concat`: `alliter = [r]`. -/
def MMachine.single (r : Machine σ α) : MMachine σ α where
  n := 1
  hasNext := fun _ => r.hasNext
  next := fun _ => r.next

/-- `append(alliter, tail.concat...)`. -/
def MMachine.join (a : MMachine σ α) (b : MMachine σ₂ α) : MMachine (σ × σ₂) α where
  n := a.n + b.n
  hasNext := fun i => if i < a.n then IM.onFst (a.hasNext i) else IM.onSnd (b.hasNext (i - a.n))
  next := fun i => if i < a.n then IM.onFst (a.next i) else IM.onSnd (b.next (i - a.n))

/-- captured variables of the `Concat` closure; iterators are referred to by their index in
    `alliter`, `remainItr` is `alliter[remain:]`. -/
structure ConcatSt where
  currentItr : Option Nat := some 0
  remain : Nat := 1
  currentNextChecked : Bool := false

/-- `for i, itr := range remainItr` (at most `k` iterators left, starting at index `j`). -/
def concatScan (all : MMachine σ α) : Nat → Nat → IM (σ × ConcatSt) Bool
  | 0, _ => do
    IM.onSnd (IM.modify fun c => { c with currentItr := none })
    return false
  | k + 1, j => do
    if ← IM.onFst (all.hasNext j) then
      IM.onSnd (IM.set { currentItr := some j, remain := j + 1, currentNextChecked := true })
      return true
    concatScan all k (j + 1)

def concatCurrentNext (all : MMachine σ α) : IM (σ × ConcatSt) Bool := do
  let c ← IM.onSnd IM.get
  if c.currentNextChecked then return true
  match c.currentItr with
  | none => return false
  | some cur =>
    if ← IM.onFst (all.hasNext cur) then
      IM.onSnd (IM.modify fun c => { c with currentNextChecked := true })
      return true
    concatScan all (all.n - c.remain) c.remain

/-- the iterator returned by `Concat` over the flattened components `all`. -/
def concat (all : MMachine σ α) : Machine (σ × ConcatSt) α where
  hasNext := concatCurrentNext all
  next := do
    if ← concatCurrentNext all then
      IM.onSnd (IM.modify fun c => { c with currentNextChecked := false })
      let c ← IM.onSnd IM.get
      match c.currentItr with
      | some cur => IM.onFst (all.next cur)
      | none => IM.panic "Option.empty"
    else IM.panic nextOnEmpty

/-- the `concat` field of the result: its components, sharing their state with it. -/
def concatParts (all : MMachine σ α) : MMachine (σ × ConcatSt) α where
  n := all.n
  hasNext := fun i => IM.onFst (all.hasNext i)
  next := fun i => IM.onFst (all.next i)

/-! ### FlatMap

`mf` returns a fresh iterator: a state `τ` of the machine `inner`. -/

/-- run an operation of the iterator stored in `current` (an `Option`). -/
def onCurrent {X : Type} (dflt : IM (Option τ) X) (m : IM τ X) : IM (Option τ) X := fun cur lg =>
  match cur with
  | some t => match m t lg with
    | (r, t', lg') => (r, some t', lg')
  | none => dflt cur lg

def flatMapLoop (mf : α → GoM τ) (inner : Machine τ β) (r : Machine σ α) :
    Nat → IM (σ × Option τ) Bool
  | 0 => IM.panic outOfFuel
  | fuel + 1 => do
    if ← IM.onFst r.hasNext then
      let v ← IM.onFst r.next
      let nextItr ← IM.liftG (mf v)
      IM.onSnd (IM.set (some nextItr))
      -- nextItr.HasNext(): the iterator now stored in `current`
      if ← IM.onSnd (onCurrent (pure false) inner.hasNext) then return true
      flatMapLoop mf inner r fuel
    else return false

/-- `r.FlatMap(mf)` / `iterator.FlatMap(opt, fn)`: captured `current`. -/
def flatMap (fuel : Nat) (mf : α → GoM τ) (inner : Machine τ β) (r : Machine σ α) :
    Machine (σ × Option τ) β :=
  let hasNext : IM (σ × Option τ) Bool := do
    -- current.IsDefined() && current.Get().HasNext()
    if ← IM.onSnd (onCurrent (pure false) inner.hasNext) then return true
    flatMapLoop mf inner r fuel
  { hasNext := hasNext
    next := do
      if ← hasNext then
        IM.onSnd (onCurrent (IM.panic "Option.empty") inner.next)
      else IM.panic nextOnEmpty }

/-- `fp.IteratorOfOption` with the option as part of the state (the iterators `FilterMap` creates). -/
def optionIter : Machine (Option β × Bool) β where
  hasNext := do
    let (o, first) ← IM.get
    pure (first && o.isSome)
  next := do
    let (o, first) ← IM.get
    match first, o with
    | true, some v => IM.set (o, false); pure v
    | _, _ => IM.panic nextOnEmpty

/-- `iterator.FilterMap(opt, fn) = FlatMap(opt, fp.Compose(fn, fp.IteratorOfOption))`. -/
def filterMap (fuel : Nat) (fn : α → GoM (Option β)) (r : Machine σ α) :
    Machine (σ × Option (Option β × Bool)) β :=
  flatMap fuel (fun a => do let o ← fn a; pure (o, true)) optionIter r

/-! ## package `iterator` -/

/-- `iterator.Zip(a, b)`. -/
def zip (a : Machine σ α) (b : Machine σ₂ β) : Machine (σ × σ₂) (α × β) where
  hasNext := do
    if ← IM.onFst a.hasNext then IM.onSnd b.hasNext else pure false
  next := do
    let x ← IM.onFst a.next
    let y ← IM.onSnd b.next
    pure (x, y)

/-- `iterator.Zip3(a, b, c)`. -/
def zip3 (a : Machine σ α) (b : Machine σ₂ β) (c : Machine σ₃ γ) :
    Machine (σ × σ₂ × σ₃) (α × β × γ) where
  hasNext := do
    if ← IM.onFst a.hasNext then
      if ← IM.onSnd (IM.onFst b.hasNext) then IM.onSnd (IM.onSnd c.hasNext) else pure false
    else pure false
  next := do
    let x ← IM.onFst a.next
    let y ← IM.onSnd (IM.onFst b.next)
    let z ← IM.onSnd (IM.onSnd c.next)
    pure (x, y, z)

/-- `iterator.ZipWithIndex(s1) = Zip(Generate(func() int { ret := idx; idx++; return ret }), s1)`. -/
def zipWithIndex (s1 : Machine σ α) : Machine (Nat × σ) (Int × α) :=
  zip (generate (fun n => pure (n : Int))) s1

structure ScanSt (β : Type) where
  first : Bool := true
  sum : β

/-- `iterator.Scan(s, zero, f)`: captured `first`, `sum`. -/
def scan (f : β → α → GoM β) (s : Machine σ α) : Machine (σ × ScanSt β) β :=
  let hasNext : IM (σ × ScanSt β) Bool := do
    let c ← IM.onSnd IM.get
    if c.first then return true
    IM.onFst s.hasNext
  { hasNext := hasNext
    next := do
      if ← hasNext then
        let c ← IM.onSnd IM.get
        if c.first then
          IM.onSnd (IM.modify fun c => { c with first := false })
          return c.sum
        let v ← IM.onFst s.next
        let sum ← IM.liftG (f c.sum v)
        IM.onSnd (IM.modify fun c => { c with sum := sum })
        return sum
      else IM.panic nextOnEmpty }

/-- `fp.MakePullIterator(seq)`: the struct `pull` with `val`, `ok`; `nextfn` (the coroutine over
    `seq`) is modelled by asking the machine that enumerates `seq`. -/
def pullNextFn (seq : Machine σ α) : IM σ (Option α) := do
  if ← seq.hasNext then
    let v ← seq.next
    pure (some v)
  else pure none

/-- construction: `nv, ok := nextfn()`. -/
def pullInit (seq : Machine σ α) : IM (σ × Option α) Unit := do
  let nv ← IM.onFst (pullNextFn seq)
  IM.onSnd (IM.set nv)

def pull (seq : Machine σ α) : Machine (σ × Option α) α where
  hasNext := do
    let v ← IM.onSnd IM.get
    pure v.isSome
  next := do
    let v ← IM.onSnd IM.get
    match v with
    | none => IM.panic nextOnEmpty
    | some ret =>
      let nv ← IM.onFst (pullNextFn seq)
      IM.onSnd (IM.set nv)
      pure ret

/-! ### Duplicate: two iterators over one shared state -/

structure DupSt (α : Type) where
  queue : List α := []
  leftAhead : Bool := true

/-- `left` of `iterator.Duplicate(r)` (the mutex is not modelled: calls are atomic steps). -/
def dupLeft (r : Machine σ α) : Machine (σ × DupSt α) α where
  hasNext := do
    let c ← IM.onSnd IM.get
    if c.leftAhead || c.queue.isEmpty then IM.onFst r.hasNext
    else pure true
  next := do
    let c ← IM.onSnd IM.get
    if c.queue.isEmpty then IM.onSnd (IM.modify fun c => { c with leftAhead := true })
    let c ← IM.onSnd IM.get
    if c.leftAhead then
      let ret ← IM.onFst r.next
      IM.onSnd (IM.modify fun c => { c with queue := c.queue ++ [ret] })
      pure ret
    else
      match c.queue with
      | head :: tail =>
        IM.onSnd (IM.modify fun c => { c with queue := tail })
        pure head
      | [] => do
        IM.onSnd (IM.modify fun c => { c with queue := [] })
        IM.panic "Option.empty"

/-- `right` of `iterator.Duplicate(r)`. -/
def dupRight (r : Machine σ α) : Machine (σ × DupSt α) α where
  hasNext := do
    let c ← IM.onSnd IM.get
    if !c.leftAhead || c.queue.isEmpty then IM.onFst r.hasNext
    else pure true
  next := do
    let c ← IM.onSnd IM.get
    if c.queue.isEmpty then IM.onSnd (IM.modify fun c => { c with leftAhead := false })
    let c ← IM.onSnd IM.get
    if !c.leftAhead then
      let ret ← IM.onFst r.next
      IM.onSnd (IM.modify fun c => { c with queue := c.queue ++ [ret] })
      pure ret
    else
      match c.queue with
      | head :: tail =>
        IM.onSnd (IM.modify fun c => { c with queue := tail })
        pure head
      | [] => do
        IM.onSnd (IM.modify fun c => { c with queue := [] })
        IM.panic "Option.empty"

/-- A combinator applied to one side of a two-sided iterator: it captures that side (state `σ`
    shared with the other side) and has its own variables `γ`.  `sideL` / `sideR` place the two
    closures' variables next to the shared state. -/
def sideL (m : Machine (σ × β) α) : Machine (σ × β × γ) α where
  hasNext := fun (s, b, c) lg => match m.hasNext (s, b) lg with
    | (r, (s', b'), lg') => (r, (s', b', c), lg')
  next := fun (s, b, c) lg => match m.next (s, b) lg with
    | (r, (s', b'), lg') => (r, (s', b', c), lg')

def sideR (m : Machine (σ × γ) α) : Machine (σ × β × γ) α where
  hasNext := fun (s, b, c) lg => match m.hasNext (s, c) lg with
    | (r, (s', c'), lg') => (r, (s', b, c'), lg')
  next := fun (s, b, c) lg => match m.next (s, c) lg with
    | (r, (s', c'), lg') => (r, (s', b, c'), lg')

/-- `iterator.Span(r, p) = (left.TakeWhile(p), right.DropWhile(p))`. -/
def spanLeft (p : α → GoM Bool) (r : Machine σ α) :
    Machine ((σ × DupSt α) × TakeWhileSt α × DropWhileSt α) α :=
  sideL (takeWhile p (dupLeft r))

def spanRight (fuel : Nat) (p : α → GoM Bool) (r : Machine σ α) :
    Machine ((σ × DupSt α) × TakeWhileSt α × DropWhileSt α) α :=
  sideR (dropWhile fuel p (dupRight r))

/-- `iterator.Partition(r, p) = (left.Filter(p), right.FilterNot(p))`. -/
def partitionLeft (fuel : Nat) (p : α → GoM Bool) (r : Machine σ α) :
    Machine ((σ × DupSt α) × FilterSt α × FilterSt α) α :=
  sideL (filter fuel p (dupLeft r))

def partitionRight (fuel : Nat) (p : α → GoM Bool) (r : Machine σ α) :
    Machine ((σ × DupSt α) × FilterSt α × FilterSt α) α :=
  sideR (filterNot fuel p (dupRight r))

/-! ## Terminal operations (loops over `HasNext`/`Next`) -/

/-- `r.ToSeq()`. -/
def toSeq (r : Machine σ α) : Nat → List α → IM σ (List α)
  | 0, _ => IM.panic outOfFuel
  | fuel + 1, ret => do
    if ← r.hasNext then
      let v ← r.next
      toSeq r fuel (ret ++ [v])
    else pure ret

/-- `r.Count()`. -/
def count (r : Machine σ α) : Nat → Nat → IM σ Nat
  | 0, _ => IM.panic outOfFuel
  | fuel + 1, ret => do
    if ← r.hasNext then
      let _ ← r.next
      count r fuel (ret + 1)
    else pure ret

/-- `r.Foreach(p)`. -/
def foreach (p : α → GoM Unit) (r : Machine σ α) : Nat → IM σ Unit
  | 0 => IM.panic outOfFuel
  | fuel + 1 => do
    if ← r.hasNext then
      let v ← r.next
      IM.liftG (p v)
      foreach p r fuel
    else pure ()

/-- `r.All()(f)` — range-over-func: stops when `yield` returns false.
    (The Go code tests the raw field `r.hasNext()` instead of `r.HasNext()`; the property demands
    the zero value to behave as empty, which is what is modelled.) -/
def all (f : α → GoM Bool) (r : Machine σ α) : Nat → IM σ Unit
  | 0 => IM.panic outOfFuel
  | fuel + 1 => do
    if ← r.hasNext then
      let v ← r.next
      if !(← IM.liftG (f v)) then return ()
      all f r fuel
    else pure ()

/-- `r.Exists(p)`. -/
def «exists» (p : α → GoM Bool) (r : Machine σ α) : Nat → IM σ Bool
  | 0 => IM.panic outOfFuel
  | fuel + 1 => do
    if ← r.hasNext then
      let v ← r.next
      if ← IM.liftG (p v) then return true
      «exists» p r fuel
    else pure false

/-- `r.ForAll(p)`. -/
def forAll (p : α → GoM Bool) (r : Machine σ α) : Nat → IM σ Bool
  | 0 => IM.panic outOfFuel
  | fuel + 1 => do
    if ← r.hasNext then
      let v ← r.next
      if !(← IM.liftG (p v)) then return false
      forAll p r fuel
    else pure true

/-- `r.IsEmpty()`, `r.NonEmpty()`. -/
def isEmpty (r : Machine σ α) : IM σ Bool := do let b ← r.hasNext; pure (!b)
def nonEmpty (r : Machine σ α) : IM σ Bool := r.hasNext

/-- `r.NextOption()`. -/
def nextOption (r : Machine σ α) : IM σ (Option α) := do
  if ← r.hasNext then
    let v ← r.next
    pure (some v)
  else pure none

/-- `iterator.Fold(s, zero, f)`. -/
def fold (f : β → α → GoM β) (s : Machine σ α) : Nat → β → IM σ β
  | 0, _ => IM.panic outOfFuel
  | fuel + 1, sum => do
    if ← s.hasNext then
      let v ← s.next
      let sum ← IM.liftG (f sum v)
      fold f s fuel sum
    else pure sum

/-- `iterator.FoldTry(s, zero, f)`.  (`t.Get()`/returning `t` as is: a failure is returned
    unchanged.) -/
def foldTry (f : β → α → GoM (Try β)) (s : Machine σ α) : Nat → β → IM σ (Try β)
  | 0, _ => IM.panic outOfFuel
  | fuel + 1, sum => do
    if ← s.hasNext then
      let v ← s.next
      match ← IM.liftG (f sum v) with
      | .success sum => foldTry f s fuel sum
      | .failure e => pure (.failure e)
    else pure (.success sum)

/-- `iterator.FoldOption(s, zero, f)`. -/
def foldOption (f : β → α → GoM (Option β)) (s : Machine σ α) : Nat → β → IM σ (Option β)
  | 0, _ => IM.panic outOfFuel
  | fuel + 1, sum => do
    if ← s.hasNext then
      let v ← s.next
      match ← IM.liftG (f sum v) with
      | some sum => foldOption f s fuel sum
      | none => pure none
    else pure (some sum)

/-- `iterator.FoldError(s, f)`: `none` is the nil error. -/
def foldError (f : α → GoM (Option Err)) (s : Machine σ α) : Nat → IM σ (Option Err)
  | 0 => IM.panic outOfFuel
  | fuel + 1 => do
    if ← s.hasNext then
      let v ← s.next
      match ← IM.liftG (f v) with
      | some e => pure (some e)
      | none => foldError f s fuel
    else pure none

/-- `iterator.Reduce(r, m)` as the property demands it (`ret = m.Combine(ret, v)`).
    The Go code drops the result of `Combine` (defect D3). -/
def reduce (empty : β) (combine : β → β → GoM β) (r : Machine σ β) (fuel : Nat) : IM σ β :=
  fold combine r fuel empty

/-- `iterator.FoldRight(s, zero, f)`.  `lazy.Eval[B]` is modelled by the computation that evaluates
    it (call by name); the trampoline (`TailCall`/`Resume`/`Run`) only bounds the Go stack and its
    memoisation is invisible to a step function that forces its lazy argument at most once. -/
def foldRight (zero : β) (f : α → IM σ β → IM σ β) (s : Machine σ α) : Nat → IM σ β
  | 0 => IM.panic outOfFuel
  | fuel + 1 => do
    if ← isEmpty s then pure zero
    else
      let head ← s.next
      f head (foldRight zero f s fuel)

/-- `iterator.Min(r, ord)` / `Max`: `Fold` with `Option` accumulator. -/
def minStep (less : α → α → GoM Bool) (min : Option α) (v : α) : GoM (Option α) := do
  match min with
  | some m => if ← less m v then pure min else pure (some v)
  | none => pure (some v)

def maxStep (less : α → α → GoM Bool) (max : Option α) (v : α) : GoM (Option α) := do
  match max with
  | some m => if ← less v m then pure max else pure (some v)
  | none => pure (some v)

def min (less : α → α → GoM Bool) (r : Machine σ α) (fuel : Nat) : IM σ (Option α) :=
  fold (minStep less) r fuel none

def max (less : α → α → GoM Bool) (r : Machine σ α) (fuel : Nat) : IM σ (Option α) :=
  fold (maxStep less) r fuel none

/-- `iterator.GroupBy(s, keyFunc)`: the Go map is an association list in first-occurrence order of
    the keys (rendered sorted). -/
def groupInsert {κ : Type} [BEq κ] (k : κ) (a : α) : List (κ × List α) → List (κ × List α)
  | [] => [(k, [a])]
  | (k', as) :: rest => if k' == k then (k', as ++ [a]) :: rest else (k', as) :: groupInsert k a rest

def groupBy {κ : Type} [BEq κ] (keyFunc : α → GoM κ) (s : Machine σ α) (fuel : Nat) :
    IM σ (List (κ × List α)) :=
  fold (fun b a => do let k ← keyFunc a; pure (groupInsert k a b)) s fuel []

/-! ## Call scripts: what a client observes -/

inductive Call where
  | H   -- HasNext()
  | N   -- Next()
  deriving DecidableEq, Repr

inductive Obs (α : Type) where
  | has (b : Bool)
  | val (a : α)
  | panic (p : PanicVal)
  deriving DecidableEq, Repr

/-- forget the panic message -/
def Obs.erase : Obs α → Obs α
  | .panic _ => .panic ""
  | o => o

def runCall (m : Machine σ α) (c : Call) (s : σ) (lg : Log) : Obs α × σ × Log :=
  match c with
  | .H => match m.hasNext s lg with
    | (.ok b, s', lg') => (.has b, s', lg')
    | (.error p, s', lg') => (.panic p, s', lg')
  | .N => match m.next s lg with
    | (.ok a, s', lg') => (.val a, s', lg')
    | (.error p, s', lg') => (.panic p, s', lg')

def runScript (m : Machine σ α) : List Call → σ → Log → List (Obs α) × σ × Log
  | [], s, lg => ([], s, lg)
  | c :: cs, s, lg =>
    match runCall m c s lg with
    | (o, s', lg') =>
      match runScript m cs s' lg' with
      | (os, s'', lg'') => (o :: os, s'', lg'')

/-- what the same script observes on the plain list `r` -/
def specScript : List Call → List α → List (Obs α)
  | [], _ => []
  | .H :: cs, r => .has (!r.isEmpty) :: specScript cs r
  | .N :: cs, [] => .panic "" :: specScript cs []
  | .N :: cs, a :: r => .val a :: specScript cs r

/-- the list that is left after the script -/
def specRest : List Call → List α → List α
  | [], r => r
  | .H :: cs, r => specRest cs r
  | .N :: cs, [] => specRest cs []
  | .N :: cs, _ :: r => specRest cs r

/-- calls on the two sides of `Duplicate` / `Span` / `Partition` -/
inductive Call2 where
  | LH | LN | RH | RN
  deriving DecidableEq, Repr

def runScript2 (mL : Machine σ α) (mR : Machine σ β) :
    List Call2 → σ → Log → List (Obs α ⊕ Obs β) × σ × Log
  | [], s, lg => ([], s, lg)
  | c :: cs, s, lg =>
    match c with
    | .LH | .LN =>
      match runCall mL (if c = .LH then .H else .N) s lg with
      | (o, s', lg') =>
        match runScript2 mL mR cs s' lg' with
        | (os, s'', lg'') => (.inl o :: os, s'', lg'')
    | .RH | .RN =>
      match runCall mR (if c = .RH then .H else .N) s lg with
      | (o, s', lg') =>
        match runScript2 mL mR cs s' lg' with
        | (os, s'', lg'') => (.inr o :: os, s'', lg'')

/-- the calls of a two-sided script that go to the left / right side -/
def Call2.leftPart : List Call2 → List Call
  | [] => []
  | .LH :: cs => .H :: leftPart cs
  | .LN :: cs => .N :: leftPart cs
  | _ :: cs => leftPart cs

def Call2.rightPart : List Call2 → List Call
  | [] => []
  | .RH :: cs => .H :: rightPart cs
  | .RN :: cs => .N :: rightPart cs
  | _ :: cs => rightPart cs

def obsLeft : List (Obs α ⊕ Obs β) → List (Obs α)
  | [] => []
  | .inl o :: os => o :: obsLeft os
  | .inr _ :: os => obsLeft os

def obsRight : List (Obs α ⊕ Obs β) → List (Obs β)
  | [] => []
  | .inl _ :: os => obsRight os
  | .inr o :: os => o :: obsRight os

end FpVerif.It
