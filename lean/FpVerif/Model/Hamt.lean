import FpVerif.Base
/-!
# Model of `immutable/map.go` (hash array mapped trie) and of the `fp.Map` / `fp.Set` wrappers.

Every definition mirrors the Go function of the same name, statement by statement:

* `Node K V` has the five node kinds of map.go (`mapArrayNode`, `mapBitmapIndexedNode`,
  `mapHashArrayNode`, `mapValueNode`, `mapHashCollisionNode`); a Go `nil` node is `Option.none`.
* `fp.Hashable[K]` is `Hasher K` (`hash : K → UInt32`, `eqv : K → K → Bool`), arbitrary.
* `*resized` (a `*bool` threaded through `set`/`delete`) is a `Bool` passed in and returned.
* `mutable` (builder path, in-place update) is kept as a parameter: the in-place and the copying
  path build the same node, except `mapValueNode.set` (in place it keeps the OLD key).  Aliasing
  (who else sees an in-place update) is not visible in a value model; it is the business of the
  harness (C04) — the model says what every version must look like forever.
* Where Go would panic (index out of range, `next on empty`, builder asserts) or never return
  (`mergeIntoNode` on equal hashes recurses until the stack overflows) the model `throw`s.
  `Spec/C03.lean` proves that none of the internal ones is reachable from the public API.
* `uint32` arithmetic: a bitmap is a `Nat`; all operations on it (`|`, `^`, `&`, `1<<frag` with
  `frag ≤ 31`, `bit-1` with `bit ≥ 1`) cannot overflow, so `Nat` arithmetic is exact
  (`WF` contains `bitmap < 2^32`).  `keyHash >> shift` is computed on `Nat` and is therefore 0 for
  `shift ≥ 32`, exactly as Go's shift of a `uint32` by a `uint`.
-/
namespace FpVerif.Hamt

/-- panic value / fatal error text -/
abbrev GoE := Except String

-- Size thresholds for each type of branch node.
def maxArrayMapSize : Nat := 8
def maxBitmapIndexedSize : Nat := 16
-- Segment bit shifts within the map tree.
def mapNodeBits : Nat := 5
def mapNodeSize : Nat := 32
def mapNodeMask : Nat := 31

/-- `fp.Hashable[K]` -/
structure Hasher (K : Type) where
  hash : K → UInt32
  eqv : K → K → Bool

/-- `mapNode[K,V]`: the five node kinds. -/
inductive Node (K V : Type) where
  /-- `mapArrayNode{entries}` -/
  | array (entries : List (K × V))
  /-- `mapBitmapIndexedNode{bitmap, nodes}` -/
  | bitmap (bitmap : Nat) (nodes : List (Node K V))
  /-- `mapHashArrayNode{count, nodes [32]mapNode}`; `none` is a nil slot -/
  | hashArray (count : Nat) (nodes : List (Option (Node K V)))
  /-- `mapValueNode{keyHash, key, val}` -/
  | value (keyHash : UInt32) (key : K) (value : V)
  /-- `mapHashCollisionNode{keyHash, entries}` -/
  | collision (keyHash : UInt32) (entries : List (K × V))

variable {K V : Type}

instance : Inhabited (Node K V) := ⟨.array []⟩

/-- `(keyHash >> shift) & mapNodeMask` -/
def frag (keyHash : UInt32) (shift : Nat) : Nat := (keyHash.toNat >>> shift) &&& mapNodeMask

/-- the positions of the one-bits, ascending -/
def bitsOf (x : Nat) : List Nat := (List.range 32).filter (fun i => x.testBit i)

/-- `bits.OnesCount32` -/
def popCount (x : Nat) : Nat := (bitsOf x).length

/-- `indexOf`: index of the first entry whose key is `Eqv` to `key` (`none` is Go's -1). -/
def indexOf (h : Hasher K) (entries : List (K × V)) (key : K) : Option Nat :=
  entries.findIdx? (fun e => h.eqv e.1 key)

-- termination helpers ------------------------------------------------------------------------

theorem Node.sizeOf_bitmap_child {bm : Nat} {nodes : List (Node K V)} {i : Nat} {c : Node K V}
    (hc : nodes[i]? = some c) : sizeOf c < sizeOf (Node.bitmap bm nodes) := by
  have := List.sizeOf_lt_of_mem (List.mem_of_getElem? hc)
  simp only [Node.bitmap.sizeOf_spec]; omega

theorem Node.sizeOf_hashArray_child {cnt : Nat} {nodes : List (Option (Node K V))} {i : Nat}
    {c : Node K V} (hc : nodes[i]? = some (some c)) : sizeOf c < sizeOf (Node.hashArray cnt nodes) := by
  have := List.sizeOf_lt_of_mem (List.mem_of_getElem? hc)
  simp only [Node.hashArray.sizeOf_spec]
  have h2 : sizeOf (some c) = 1 + sizeOf c := rfl
  omega

-- get ------------------------------------------------------------------------------------------

/-- `get` of the five node kinds. -/
def Node.get (h : Hasher K) : Node K V → K → Nat → UInt32 → GoE (Option V)
  | .array entries, key, _, _ =>
    -- i := n.indexOf(key, h); if i == -1 { return None }; return Some(n.entries[i].value)
    match indexOf h entries key with
    | none => pure none
    | some i =>
      match entries[i]? with
      | some e => pure (some e.2)
      | none => throw "index out of range"
  | .bitmap bm nodes, key, shift, keyHash =>
    let bit := 1 <<< frag keyHash shift
    if bm &&& bit == 0 then pure none
    else
      match _hc : nodes[popCount (bm &&& (bit - 1))]? with
      | some child => child.get h key (shift + mapNodeBits) keyHash
      | none => throw "index out of range"
  | .hashArray _ nodes, key, shift, keyHash =>
    match _hc : nodes[frag keyHash shift]? with
    | some (some node) => node.get h key (shift + mapNodeBits) keyHash
    | some none => pure none
    | none => throw "model: hash array node without 32 slots"
  | .value _ nKey nValue, key, _, _ =>
    if !h.eqv nKey key then pure none else pure (some nValue)
  | .collision _ entries, key, _, _ =>
    -- for i := range n.entries { if h.Eqv(n.entries[i].key, key) { return Some(val) } }
    pure ((entries.find? (fun e => h.eqv e.1 key)).map (·.2))
termination_by n => sizeOf n
decreasing_by
  · exact Node.sizeOf_bitmap_child _hc
  · exact Node.sizeOf_hashArray_child _hc

-- mergeIntoNode ----------------------------------------------------------------------------------

/-- `keyHashValue()` of a leaf node (`mapLeafNode`); branch nodes do not implement it. -/
def Node.keyHashValue : Node K V → UInt32
  | .value kh _ _ => kh
  | .collision kh _ => kh
  | _ => 0

/-- `mergeIntoNode`: merges a key/value pair into an existing leaf node. "Caller must verify that
    node's keyHash is not equal to keyHash": on equal hashes every level has `idx1 == idx2` and Go
    recurses until the goroutine stack is exhausted (fatal).  With `shift ≥ 32` both fragments are
    0 for good, so that is the point where the model reports the non-termination. -/
def mergeIntoNode (node : Node K V) (shift : Nat) (keyHash : UInt32) (key : K) (val : V) :
    GoE (Node K V) :=
  let idx1 := frag node.keyHashValue shift
  let idx2 := frag keyHash shift
  -- other := &mapBitmapIndexedNode{bitmap: (1 << idx1) | (1 << idx2)}
  let bitmap := (1 <<< idx1) ||| (1 <<< idx2)
  if idx1 == idx2 then
    if shift ≥ 32 then throw "stack overflow (mergeIntoNode on equal hashes)"
    else do
      let child ← mergeIntoNode node (shift + mapNodeBits) keyHash key val
      pure (.bitmap bitmap [child])
  else
    let newNode := Node.value keyHash key val
    if idx1 < idx2 then pure (.bitmap bitmap [node, newNode])
    else pure (.bitmap bitmap [newNode, node])
termination_by 32 - shift
decreasing_by simp [mapNodeBits]; omega

-- set --------------------------------------------------------------------------------------------

/-- The loop of `mapHashArrayNode` construction in `mapBitmapIndexedNode.set`:
    `for i := 0; i < 32; i++ { if n.bitmap&(1<<i) != 0 { other.nodes[i] = n.nodes[other.count]; other.count++ } }` -/
def bitmapToHashArray (bm : Nat) (nodes : List (Node K V)) :
    GoE (List (Option (Node K V)) × Nat) :=
  (List.range mapNodeSize).foldlM (fun (acc : List (Option (Node K V)) × Nat) i =>
    if bm &&& (1 <<< i) != 0 then
      match nodes[acc.2]? with
      | some c => pure (acc.1.set i (some c), acc.2 + 1)
      | none => throw "index out of range"
    else pure acc) (List.replicate mapNodeSize none, 0)

/-- `set` of the five node kinds.  `expand` is the expansion loop of a full array node (it calls
    `set` on freshly built trie nodes, never on an array node; see `Node.set`). -/
def Node.setCore (h : Hasher K)
    (expand : List (K × V) → K → V → Bool → GoE (Node K V × Bool)) :
    Node K V → K → V → Nat → UInt32 → Bool → Bool → GoE (Node K V × Bool)
  | .array entries, key, val, _, _, _mutable, resized => do
    let idx := indexOf h entries key
    -- Mark as resized if the key doesn't exist.
    let resized := if idx == none then true else resized
    -- If we are adding and it crosses the max size threshold, expand the node.
    if idx == none && entries.length ≥ maxArrayMapSize then
      expand entries key val resized
    else
      -- in place (mutable) and copying path build the same slice
      match idx with
      | some i => pure (.array (entries.set i (key, val)), resized)
      | none => pure (.array (entries ++ [(key, val)]), resized)
  | .bitmap bm nodes, key, val, shift, keyHash, mutable, resized => do
    -- Extract the index for the bit segment of the key hash.
    let keyHashFrag := frag keyHash shift
    -- Determine the bit based on the hash index.
    let bit := 1 <<< keyHashFrag
    let exists_ := (bm &&& bit) != 0
    -- Mark as resized if the key doesn't exist.
    let resized := if !exists_ then true else resized
    -- Find index of node based on popcount of bits before it.
    let idx := popCount (bm &&& (bit - 1))
    -- If the node already exists, delegate set operation to it, else create a value leaf node.
    let (newNode, resized) ←
      if exists_ then
        match _hc : nodes[idx]? with
        | some child => child.setCore h expand key val (shift + mapNodeBits) keyHash mutable resized
        | none => throw "index out of range"
      else pure (Node.value keyHash key val, resized)
    -- Convert to a hash-array node once we exceed the max bitmap size.
    if !exists_ && nodes.length > maxBitmapIndexedSize then
      let (slots, count) ← bitmapToHashArray bm nodes
      pure (.hashArray (count + 1) (slots.set keyHashFrag (some newNode)), resized)
    else if exists_ then
      -- mutable: n.nodes[idx] = newNode (bitmap untouched); copy: bitmap: n.bitmap | bit
      pure (.bitmap (if mutable then bm else bm ||| bit) (nodes.set idx newNode), resized)
    else
      pure (.bitmap (bm ||| bit) (nodes.take idx ++ newNode :: nodes.drop idx), resized)
  | .hashArray count nodes, key, val, shift, keyHash, mutable, resized => do
    let idx := frag keyHash shift
    match _hc : nodes[idx]? with
    | none => throw "model: hash array node without 32 slots"
    | some node =>
      -- If node at index doesn't exist, create a simple value leaf node, else delegate.
      let (newNode, resized) ←
        match _hn : node with
        | none => pure (Node.value keyHash key val, true)
        | some child => child.setCore h expand key val (shift + mapNodeBits) keyHash mutable resized
      -- Update child node (and update size, if new).
      let count := if node.isNone then count + 1 else count
      pure (.hashArray count (nodes.set idx (some newNode)), resized)
  | .value nKeyHash nKey nValue, key, val, shift, keyHash, mutable, resized => do
    -- If the keys match then return a new value node overwriting the value.
    if h.eqv nKey key then
      if mutable then pure (.value nKeyHash nKey val, resized)   -- n.value = val
      else pure (.value nKeyHash key val, resized)               -- newMapValueNode(n.keyHash, key, val)
    else
      -- *resized = true
      if nKeyHash != keyHash then do
        -- Recursively merge nodes together if key hashes are different.
        let m ← mergeIntoNode (.value nKeyHash nKey nValue) shift keyHash key val
        pure (m, true)
      else
        -- Merge into collision node if hash matches.
        pure (.collision keyHash [(nKey, nValue), (key, val)], true)
  | .collision nKeyHash entries, key, val, shift, keyHash, _mutable, resized => do
    -- Merge node with key/value pair if this is not a hash collision.
    if nKeyHash != keyHash then do
      let m ← mergeIntoNode (.collision nKeyHash entries) shift keyHash key val
      pure (m, true)
    else
      match indexOf h entries key with
      | none => pure (.collision nKeyHash (entries ++ [(key, val)]), true)
      | some i => pure (.collision nKeyHash (entries.set i (key, val)), resized)
termination_by n => sizeOf n
decreasing_by
  · exact Node.sizeOf_bitmap_child _hc
  · subst _hn; exact Node.sizeOf_hashArray_child _hc

/-- `set` on the nodes built while an array node is expanded.  Those are value, collision and
    bitmap nodes only (the loop starts from a value node and `set` of a trie node never returns an
    array node), so the array-expansion branch cannot be entered from here. -/
def Node.setTrie (h : Hasher K) : Node K V → K → V → Nat → UInt32 → Bool → Bool → GoE (Node K V × Bool) :=
  Node.setCore h (fun _ _ _ _ => throw "model: array node below the root")

/-- The expansion of a full `mapArrayNode`:
    `node = newMapValueNode(h.Hash(key), key, val); for _, entry := range n.entries { node = node.set(entry.key, entry.value, 0, h.Hash(entry.key), h, false, resized) }` -/
def expandArray (h : Hasher K) (entries : List (K × V)) (key : K) (val : V) (resized : Bool) :
    GoE (Node K V × Bool) :=
  entries.foldlM (fun (acc : Node K V × Bool) entry =>
    acc.1.setTrie h entry.1 entry.2 0 (h.hash entry.1) false acc.2)
    (Node.value (h.hash key) key val, resized)

/-- `mapNode.set` -/
def Node.set (h : Hasher K) : Node K V → K → V → Nat → UInt32 → Bool → Bool → GoE (Node K V × Bool) :=
  Node.setCore h (expandArray h)

-- delete -----------------------------------------------------------------------------------------

/-- The conversion loop of `mapHashArrayNode.delete`:
    `for i, child := range n.nodes { if child != nil && uint32(i) != idx { other.bitmap |= 1 << uint(i); other.nodes = append(other.nodes, child) } }` -/
def hashArrayToBitmap (nodes : List (Option (Node K V))) (idx : Nat) : Nat × List (Node K V) :=
  (List.range mapNodeSize).foldl (fun (acc : Nat × List (Node K V)) i =>
    match nodes[i]? with
    | some (some child) => if i != idx then (acc.1 ||| (1 <<< i), acc.2 ++ [child]) else acc
    | _ => acc) (0, [])

/-- `delete` of the five node kinds; the result node `none` is Go's `nil`. -/
def Node.delete (h : Hasher K) :
    Node K V → K → Nat → UInt32 → Bool → Bool → GoE (Option (Node K V) × Bool)
  | .array entries, key, _, _, _mutable, resized =>
    match indexOf h entries key with
    -- Return original node if key does not exist.
    | none => pure (some (.array entries), resized)
    | some idx =>
      -- *resized = true; return nil if this node will contain no nodes.
      if entries.length == 1 then pure (none, true)
      else pure (some (.array (entries.take idx ++ entries.drop (idx + 1))), true)
  | .bitmap bm nodes, key, shift, keyHash, mutable, resized => do
    let bit := 1 <<< frag keyHash shift
    -- Return original node if key does not exist.
    if bm &&& bit == 0 then pure (some (.bitmap bm nodes), resized)
    else
      -- Find index of node based on popcount of bits before it.
      let idx := popCount (bm &&& (bit - 1))
      match _hc : nodes[idx]? with
      | none => throw "index out of range"
      | some child =>
        -- Delegate delete to child node.
        let (newChild, resized) ← child.delete h key (shift + mapNodeBits) keyHash mutable resized
        -- Return original node if key doesn't exist in child.
        if !resized then pure (some (.bitmap bm nodes), resized)
        else
          match newChild with
          | none =>
            -- If we won't have any children then return nil.
            if nodes.length == 1 then pure (none, resized)
            else pure (some (.bitmap (bm ^^^ bit) (nodes.take idx ++ nodes.drop (idx + 1))), resized)
          | some newChild => pure (some (.bitmap bm (nodes.set idx newChild)), resized)
  | .hashArray count nodes, key, shift, keyHash, mutable, resized => do
    let idx := frag keyHash shift
    match _hc : nodes[idx]? with
    | none => throw "model: hash array node without 32 slots"
    -- Return original node if child is not found.
    | some none => pure (some (.hashArray count nodes), resized)
    | some (some node) =>
      -- Return original node if child is unchanged.
      let (newNode, resized) ← node.delete h key (shift + mapNodeBits) keyHash mutable resized
      if !resized then pure (some (.hashArray count nodes), resized)
      else
        -- If we remove a node and drop below a threshold, convert back to bitmap indexed node.
        if newNode.isNone && count ≤ maxBitmapIndexedSize then
          let (bm, ns) := hashArrayToBitmap nodes idx
          pure (some (.bitmap bm ns), resized)
        else
          let count := if newNode.isNone then count - 1 else count
          pure (some (.hashArray count (nodes.set idx newNode)), resized)
  | .value nKeyHash nKey nValue, key, _, _, _, resized =>
    -- Return original node if the keys do not match.
    if !h.eqv nKey key then pure (some (.value nKeyHash nKey nValue), resized)
    else pure (none, true)
  | .collision nKeyHash entries, key, _, _, _mutable, resized =>
    match indexOf h entries key with
    -- Return original node if key is not found.
    | none => pure (some (.collision nKeyHash entries), resized)
    | some idx =>
      -- Convert to value node if we move to one entry.
      if entries.length == 2 then
        match entries[idx ^^^ 1]? with
        | some e => pure (some (.value nKeyHash e.1 e.2), true)
        | none => throw "index out of range"
      else pure (some (.collision nKeyHash (entries.take idx ++ entries.drop (idx + 1))), true)
termination_by n => sizeOf n
decreasing_by
  · exact Node.sizeOf_bitmap_child _hc
  · exact Node.sizeOf_hashArray_child _hc

-- recursive listing (specification-level view of a node) ------------------------------------------

/-- The entries of a node in depth-first, left-to-right order. -/
def Node.toList : Node K V → List (K × V)
  | .array entries => entries
  | .bitmap _ nodes => nodes.flatMap (fun c => c.toList)
  | .hashArray _ nodes => nodes.attach.flatMap (fun x =>
      match x with
      | ⟨some c, _hm⟩ => c.toList
      | ⟨none, _⟩ => [])
  | .value _ key val => [(key, val)]
  | .collision _ entries => entries
termination_by n => sizeOf n
decreasing_by
  · rename_i hm
    have := List.sizeOf_lt_of_mem hm
    simp only [Node.bitmap.sizeOf_spec]; omega
  · have := List.sizeOf_lt_of_mem _hm
    simp only [Node.hashArray.sizeOf_spec]
    have h2 : sizeOf (some c) = 1 + sizeOf c := rfl
    omega

-- hamt ---------------------------------------------------------------------------------------------

/-- `hamt[K,V]{size, root}` (the hasher is passed separately, it never changes). -/
structure Hamt (K V : Type) where
  size : Nat
  root : Option (Node K V)

def Hamt.empty : Hamt K V := { size := 0, root := none }

instance : Inhabited (Hamt K V) := ⟨Hamt.empty⟩

/-- `(*hamt).Get` -/
def Hamt.get (h : Hasher K) (m : Hamt K V) (key : K) : GoE (Option V) :=
  match m.root with
  | none => pure none
  | some root => root.get h key 0 (h.hash key)

/-- `(*hamt).set(key, value, mutable)` -/
def Hamt.set (h : Hasher K) (m : Hamt K V) (key : K) (val : V) (mutable : Bool) : GoE (Hamt K V) :=
  match m.root with
  -- If the map is empty, initialize with a simple array node.
  | none => pure { size := 1, root := some (.array [(key, val)]) }
  | some root => do
    -- var resized bool
    let (newRoot, resized) ← root.set h key val 0 (h.hash key) mutable false
    pure { size := if resized then m.size + 1 else m.size, root := some newRoot }

/-- `(*hamt).Updated` -/
def Hamt.updated (h : Hasher K) (m : Hamt K V) (key : K) (val : V) : GoE (Hamt K V) :=
  m.set h key val false

/-- `(*hamt).delete(key, mutable)` -/
def Hamt.delete (h : Hasher K) (m : Hamt K V) (key : K) (mutable : Bool) : GoE (Hamt K V) :=
  match m.root with
  -- Return original map if no keys exist.
  | none => pure m
  | some root => do
    let (newRoot, resized) ← root.delete h key 0 (h.hash key) mutable false
    -- If the delete did not change the node then return the original map.
    if !resized then pure m
    else pure { size := m.size - 1, root := newRoot }

/-- `(*hamt).Removed(key...)` -/
def Hamt.removed (h : Hasher K) (m : Hamt K V) (keys : List K) : GoE (Hamt K V) :=
  keys.foldlM (fun ret k => ret.delete h k false) m

-- MapIterator -------------------------------------------------------------------------------------

/-- `mapIteratorElem{node, index}` -/
structure IterElem (K V : Type) where
  node : Node K V
  index : Nat

/-- The state captured by the closures of `MapIterator`: `stack[0..depth]`, top (`stack[depth]`)
    first; `depth == -1` is the empty list.  Slots above `depth` are never read before they are
    written, so they are not part of the state. -/
structure MapIter (K V : Type) where
  stack : List (IterElem K V)

/-- `for i := from; i < len(node.nodes); i++ { if node.nodes[i] != nil {…} }`: first non-nil slot at
    or after `start`. -/
def nextNonNil (nodes : List (Option (Node K V))) (start : Nat) : Option (Nat × Node K V) :=
  (nodes.zipIdx.drop start).findSome? (fun oi => oi.1.map (fun c => (oi.2, c)))

theorem nextNonNil_getElem? {nodes : List (Option (Node K V))} {start i : Nat} {c : Node K V}
    (hf : nextNonNil nodes start = some (i, c)) : nodes[i]? = some (some c) := by
  unfold nextNonNil at hf
  obtain ⟨⟨o, j⟩, hm, ho⟩ := List.exists_of_findSome?_eq_some hf
  have hm' := List.mem_of_mem_drop hm
  cases o with
  | none => simp at ho
  | some c' =>
    simp at ho
    obtain ⟨rfl, rfl⟩ := ho
    have := List.mem_zipIdx hm'
    simp at this
    simp [this]

/-- `first()`: descend from the top element (whose node is `top`) to its left-most leaf. -/
def iterFirst : Node K V → List (IterElem K V) → GoE (List (IterElem K V))
  | .bitmap bm nodes, below =>
    -- elem.index = 0; stack[depth+1].node = node.nodes[0]
    match _hc : nodes[0]? with
    | none => throw "index out of range [0]"
    | some c =>
      if below.length + 2 > 32 then throw "index out of range [32]"
      else iterFirst c (⟨.bitmap bm nodes, 0⟩ :: below)
  | .hashArray cnt nodes, below =>
    match _hf : nextNonNil nodes 0 with
    | none => throw "model: hash array node without children"
    | some (i, c) =>
      if below.length + 2 > 32 then throw "index out of range [32]"
      else iterFirst c (⟨.hashArray cnt nodes, i⟩ :: below)
  -- default: *mapArrayNode, mapLeafNode: elem.index = 0; return
  | leaf, below => pure (⟨leaf, 0⟩ :: below)
termination_by n => sizeOf n
decreasing_by
  · exact Node.sizeOf_bitmap_child _hc
  · exact Node.sizeOf_hashArray_child (nextNonNil_getElem? _hf)

/-- `moveStack()`: `for ; depth >= 0; depth-- { … }` -/
def iterMoveStack : List (IterElem K V) → GoE (List (IterElem K V))
  | [] => pure []
  | ⟨node, index⟩ :: below =>
    match node with
    | .array entries =>
      if index + 1 < entries.length then pure (⟨node, index + 1⟩ :: below)
      else iterMoveStack below
    | .bitmap _ nodes =>
      if index + 1 < nodes.length then
        match nodes[index + 1]? with
        | some c =>
          if below.length + 2 > 32 then throw "index out of range [32]"
          else iterFirst c (⟨node, index + 1⟩ :: below)
        | none => throw "index out of range"
      else iterMoveStack below
    | .hashArray _ nodes =>
      match nextNonNil nodes (index + 1) with
      | some (i, c) =>
        if below.length + 2 > 32 then throw "index out of range [32]"
        else iterFirst c (⟨node, i⟩ :: below)
      | none => iterMoveStack below
    | .value _ _ _ => iterMoveStack below   -- always the last value, traverse up
    | .collision _ entries =>
      if index + 1 < entries.length then pure (⟨node, index + 1⟩ :: below)
      else iterMoveStack below

/-- `hasNext`: `depth != -1` -/
def MapIter.hasNext (it : MapIter K V) : Bool := !it.stack.isEmpty

/-- `next` -/
def MapIter.next (it : MapIter K V) : GoE ((K × V) × MapIter K V) :=
  match it.stack with
  | [] => throw "next on empty"
  | ⟨node, index⟩ :: below => do
    -- Retrieve current index & value. Current node is always a leaf.
    let kv ← (match node with
      | .array entries | .collision _ entries =>
        match entries[index]? with
        | some e => pure e
        | none => throw "index out of range"
      | .value _ k v => pure (k, v)
      | _ => throw "model: iterator stands on a branch node (Go would yield zero key/value)" : GoE (K × V))
    -- Move up stack until we find a node that has remaining position ahead.
    let stack ← iterMoveStack (⟨node, index⟩ :: below)
    pure (kv, ⟨stack⟩)

/-- `MapIterator(m)` -/
def Hamt.iterator (m : Hamt K V) : GoE (MapIter K V) :=
  match m.root with
  | none => pure ⟨[]⟩
  | some root => do pure ⟨← iterFirst root []⟩

/-- Drain an iterator (`for itr.HasNext() { itr.Next() }`), at most `fuel` elements. -/
def MapIter.collect : Nat → MapIter K V → GoE (List (K × V))
  | 0, it => if it.hasNext then throw "model: out of fuel" else pure []
  | fuel + 1, it =>
    if it.hasNext then do
      let (kv, it') ← it.next
      let rest ← MapIter.collect fuel it'
      pure (kv :: rest)
    else pure []

/-- `m.Iterator()` drained. -/
def Hamt.iterList (m : Hamt K V) : GoE (List (K × V)) := do
  (← m.iterator).collect (m.size + 1)

-- builders -----------------------------------------------------------------------------------------

/-- `mapBuilder{m *hamt}`; `none` after `build()` -/
structure MapBuilder (K V : Type) where
  m : Option (Hamt K V)

def MapBuilder.new : MapBuilder K V := ⟨some Hamt.empty⟩

/-- `(*mapBuilder).Add` -/
def MapBuilder.add (h : Hasher K) (b : MapBuilder K V) (key : K) (val : V) : GoE (MapBuilder K V) :=
  match b.m with
  | none => throw "immutable.MapBuilder: builder invalid after Build() invocation"
  | some m => do pure ⟨some (← m.set h key val true)⟩

/-- `(*mapBuilder).build`: hands out the map and invalidates the builder -/
def MapBuilder.build (b : MapBuilder K V) : GoE (Hamt K V × MapBuilder K V) :=
  match b.m with
  | none => throw "immutable.SortedMapBuilder.Build(): duplicate call to fetch map"
  | some m => pure (m, ⟨none⟩)

/-- `immutable.MapBase(hasher, t...)` -/
def Hamt.ofList (h : Hasher K) (t : List (K × V)) : GoE (Hamt K V) :=
  if t.length > 0 then do
    let b ← t.foldlM (fun (b : MapBuilder K V) kv => b.add h kv.1 kv.2) MapBuilder.new
    pure (← b.build).1
  else pure Hamt.empty

/-- `setBuilder{m *hamt[V,bool]}`.  `Build()` does not invalidate this builder, so the property
    (C04: "a collection handed out by a builder is not changed by later use of that builder")
    requires what a value model gives for free: the set handed out is the state at `Build()`. -/
structure SetBuilder (K : Type) where
  m : Hamt K Bool
  /-- a Set built from `m` has been handed out: `m` must not be updated in place any more -/
  shared : Bool := false

def SetBuilder.new : SetBuilder K := ⟨Hamt.empty, false⟩

/-- `(*setBuilder).Add`: `r.m = r.m.set(v, true, !r.shared)` (in place until the first `Build`) -/
def SetBuilder.add (h : Hasher K) (b : SetBuilder K) (v : K) : GoE (SetBuilder K) := do
  pure { b with m := ← b.m.set h v true (!b.shared) }

/-- `(*setBuilder).Build`: marks the trie shared and hands it out -/
def SetBuilder.build (b : SetBuilder K) : Hamt K Bool × SetBuilder K := (b.m, { b with shared := true })

-- fp.Map / fp.Set wrappers (map.go, set.go) -------------------------------------------------------

/-- `UnsafeGoMap[K,V] map[any]V` — keys compared with Go's `==`; iteration order unspecified
    (the model keeps insertion order, observers must sort). -/
abbrev GoMap (K V : Type) := List (K × V)

def GoMap.get [BEq K] (m : GoMap K V) (k : K) : Option V := (m.find? (fun e => e.1 == k)).map (·.2)
def GoMap.removed [BEq K] (m : GoMap K V) (ks : List K) : GoMap K V :=
  ks.foldl (fun n k => n.filter (fun e => !(e.1 == k))) m
def GoMap.updated [BEq K] (m : GoMap K V) (k : K) (v : V) : GoMap K V :=
  if m.any (fun e => e.1 == k) then m.map (fun e => if e.1 == k then (e.1, v) else e) else m ++ [(k, v)]

/-- the implementations of `fp.MapBase` in play -/
inductive MapBase (K V : Type) where
  | hamt (m : Hamt K V)
  | goMap (m : GoMap K V)

/-- `fp.Map[K,V]{Base}`; `none` is the nil `Base` of the zero value -/
structure FMap (K V : Type) where
  base : Option (MapBase K V)

namespace FMap
variable [BEq K]

def size (r : FMap K V) : Nat :=
  match r.base with
  | none => 0
  | some (.hamt m) => m.size
  | some (.goMap m) => m.length

def isEmpty (r : FMap K V) : Bool := r.size == 0
def nonEmpty (r : FMap K V) : Bool := r.size != 0

def get (h : Hasher K) (r : FMap K V) (k : K) : GoE (Option V) :=
  match r.base with
  | none => pure none
  | some (.hamt m) => m.get h k
  | some (.goMap m) => pure (GoMap.get m k)

def contains (h : Hasher K) (r : FMap K V) (k : K) : GoE Bool := do pure (← r.get h k).isSome

def removed (h : Hasher K) (r : FMap K V) (ks : List K) : GoE (FMap K V) :=
  match r.base with
  | none => pure r
  | some (.hamt m) => do pure ⟨some (.hamt (← m.removed h ks))⟩
  | some (.goMap m) => pure ⟨some (.goMap (GoMap.removed m ks))⟩

def updated (h : Hasher K) (r : FMap K V) (k : K) (v : V) : GoE (FMap K V) :=
  match r.base with
  | none => pure ⟨some (.goMap [(k, v)])⟩
  | some (.hamt m) => do pure ⟨some (.hamt (← m.updated h k v))⟩
  | some (.goMap m) => pure ⟨some (.goMap (GoMap.updated m k v))⟩

/-- `Map.UpdatedWith` (neither base implements `MapBaseUpdatedWith`) -/
def updatedWith (h : Hasher K) (r : FMap K V) (k : K) (remap : Option V → Option V) : GoE (FMap K V) := do
  let v ← r.get h k
  let nv := remap v
  match nv with
  | some x => r.updated h k x
  | none => if v.isSome then r.removed h [k] else pure r

/-- `Map.Iterator()` drained -/
def iterList (r : FMap K V) : GoE (List (K × V)) :=
  match r.base with
  | none => pure []
  | some (.hamt m) => m.iterList
  | some (.goMap m) => pure m

def keys (r : FMap K V) : GoE (List K) := do pure ((← r.iterList).map (·.1))
def values (r : FMap K V) : GoE (List V) := do pure ((← r.iterList).map (·.2))

/-- `Map.Concat(other)` with `other` given by what its iterator yields -/
def concat (h : Hasher K) (r : FMap K V) (other : List (K × V)) : GoE (FMap K V) :=
  other.foldlM (fun ret next => ret.updated h next.1 next.2) r

end FMap

/-- `UnsafeGoSet[V] map[any]bool` -/
abbrev GoSet (K : Type) := List K

/-- the implementations of `fp.SetMinimal` in play: `immutable.set{m}` and `UnsafeGoSet` -/
inductive SetMin (K : Type) where
  | hamt (m : Hamt K Bool)
  | goSet (m : GoSet K)

/-- the `getEmpty` closure of an `fp.Set`: nil, `immutable.SetMinimal(hasher)`, `UnsafeGoSet{}` -/
inductive EmptyFn where
  | nil | hamt | goSet
  deriving DecidableEq, Repr

/-- `fp.Set[V]{getEmpty, set}` -/
structure FSet (K : Type) where
  getEmpty : EmptyFn
  set : Option (SetMin K)

namespace SetMin
variable [BEq K]
def contains (h : Hasher K) : SetMin K → K → GoE Bool
  | .hamt m, v => do pure (← m.get h v).isSome
  | .goSet m, v => pure (m.any (· == v))
def size : SetMin K → Nat
  | .hamt m => m.size
  | .goSet m => m.length
def iterList : SetMin K → GoE (List K)
  | .hamt m => do pure ((← m.iterList).map (·.1))
  | .goSet m => pure m
def incl (h : Hasher K) : SetMin K → K → GoE (SetMin K)
  | .hamt m, v => do pure (.hamt (← m.updated h v true))
  | .goSet m, v => pure (.goSet (if m.any (· == v) then m else m ++ [v]))
def excl (h : Hasher K) : SetMin K → K → GoE (SetMin K)
  | .hamt m, v => do pure (.hamt (← m.removed h [v]))
  | .goSet m, v => pure (.goSet (m.filter (fun x => !(x == v))))
end SetMin

namespace FSet
variable [BEq K]

/-- `r.getEmpty()`.  With a nil `getEmpty` (zero value `fp.Set{}`) Go dereferences a nil func and
    panics; the property (C03: Diff/Intersect "starting from … the zero value" agree with a
    reference set) demands an empty set, which is what the zero value's own `Incl` falls back to.
    The model follows the property here (defect D14 in the report). -/
def callGetEmpty (r : FSet K) : SetMin K :=
  match r.getEmpty with
  | .hamt => .hamt Hamt.empty
  | .goSet => .goSet []
  | .nil => .goSet []

def contains (h : Hasher K) (r : FSet K) (v : K) : GoE Bool :=
  match r.set with
  | none => pure false
  | some s => s.contains h v

def size (r : FSet K) : Nat :=
  match r.set with
  | none => 0
  | some s => s.size

def isEmpty (r : FSet K) : Bool := r.size == 0

def iterList (r : FSet K) : GoE (List K) :=
  match r.set with
  | none => pure []
  | some s => s.iterList

def incl (h : Hasher K) (r : FSet K) (v : K) : GoE (FSet K) :=
  match r.set, r.getEmpty with
  | none, .nil => pure ⟨.goSet, some (.goSet [v])⟩
  | none, _ => do pure ⟨r.getEmpty, some (← r.callGetEmpty.incl h v)⟩
  | some s, _ => do pure ⟨r.getEmpty, some (← s.incl h v)⟩

def excl (h : Hasher K) (r : FSet K) (v : K) : GoE (FSet K) :=
  match r.set with
  | none => pure r
  | some s => do pure ⟨r.getEmpty, some (← s.excl h v)⟩

def concat (h : Hasher K) (r : FSet K) (other : List K) : GoE (FSet K) :=
  other.foldlM (fun ret v => ret.incl h v) r

def subsetOf (h : Hasher K) (r other : FSet K) : GoE Bool := do
  -- r.Iterator().ForAll(other.Contains): stops at the first element not contained
  let rec go : List K → GoE Bool
    | [] => pure true
    | e :: es => do if ← other.contains h e then go es else pure false
  go (← r.iterList)

def diff (h : Hasher K) (r other : FSet K) : GoE (FSet K) := do
  let ret ← (← r.iterList).foldlM (fun (ret : SetMin K) e => do
    if !(← other.contains h e) then ret.incl h e else pure ret) r.callGetEmpty
  pure ⟨r.getEmpty, some ret⟩

def intersect (h : Hasher K) (r other : FSet K) : GoE (FSet K) := do
  let ret ← (← r.iterList).foldlM (fun (ret : SetMin K) e => do
    if ← other.contains h e then ret.incl h e else pure ret) r.callGetEmpty
  pure ⟨r.getEmpty, some ret⟩

end FSet

/-- `immutable.Map(hasher, t...)` -/
def FMap.ofList (h : Hasher K) (t : List (K × V)) : GoE (FMap K V) := do
  pure ⟨some (.hamt (← Hamt.ofList h t))⟩

/-- `immutable.Set(hasher, v...)` -/
def FSet.ofList (h : Hasher K) (v : List K) : GoE (FSet K) := do
  pure ⟨.hamt, some (.hamt (← Hamt.ofList h (v.map (fun x => (x, true)))))⟩

end FpVerif.Hamt
