import FpVerif.Model.TryOpt
import FpVerif.Model.Eval
/-!
# Arity-indexed generated families (C14), modelled ONCE for every arity

The library contains ~60 families `XN` (N = 1..9 for function families, 1..21 for product
families), each the expansion of one `text/template` body at N.  This file mirrors every template
once, arity-generically:

* a Go function of N arguments `func(A1,…,AN) R` is `NFun A R = List A → GoM R`
  (all type parameters instantiated at one `A`; Go's type checker already guarantees that a value
  of type `Ai` can only flow where an `Ai` is expected, so nothing is lost for the positions claim);
* a curried Go function `Func1[A1, Func1[A2, … R]]` of n+1 arguments is `CurF A R n`
  (`MonadFamily.Cur`): every application may log / panic;
* `fp.TupleN` / `fp.LabelledN` values and `hlist.Cons[H,T]` / `hlist.Nil` values are `List A`
  (`Cons{head,tail}` = `List.cons`, `Nil{}` = `[]`; a tuple is its field list `I1..IN`);
* right-nested pairs `Tuple2[A1, Tuple2[A2, … Tuple2[A(N-1), AN]]]` are `Nest A`.

The member at arity `n+1` of a family is `X n` so that no definition needs a side condition; every
definition follows the RECURSION OF THE TEMPLATE (e.g. `curried.FuncN(f) = a1 => Func(N-1)(…)`).
Where Go's types rule a call out (wrong number of arguments), the model panics with `"arity"`
(resp. returns `none` for effect-free members); the theorems state that branch separately.
-/
namespace FpVerif.Arity
open FpVerif MonadFamily

variable {A R : Type}

abbrev NFun (A R : Type) := List A → GoM R

/-- curried function of `n+1` arguments -/
abbrev CurF (A R : Type) (n : Nat) := Cur A R (n + 1)

def arityPanic {α : Type} : GoM α := goPanic "arity"

-- ------------------------------------------------------------------------------------------------
-- tuple_gen.go / labelled_gen.go: accessors of TupleN / LabelledN (a tuple is its field list)

/-- `r.Head() = r.I1` -/
def tupHead (t : List A) : Option A := t.head?
/-- `r.Last() = r.IN` -/
def tupLast (t : List A) : Option A := t.getLast?
/-- `r.Init() = r.I1, …, r.I(N-1)` -/
def tupInit (t : List A) : List A := t.dropLast
/-- `r.Tail() = r.I2, …, r.IN` (`Tuple1.Tail()` is `Unit`, rendered as no values) -/
def tupTail (t : List A) : List A := t.tail
/-- `r.Unapply() = r.I1, …, r.IN` -/
def tupUnapply (t : List A) : List A := t

-- ------------------------------------------------------------------------------------------------
-- curried/curried_gen.go, curried/curried.go, as/func_gen.go (CurriedN)

/-- `curried.Func(n+1)`: `Func1(f) = f`, `FuncN(f) = a1 => Func(N-1)(func(a2…aN) { return f(a1,a2…aN) })` -/
def curry : (n : Nat) → NFun A R → CurF A R n
  | 0, f => fun a => f [a]
  | n + 1, f => fun a => (pure (curry n (fun rest => f (a :: rest))) : GoM (Cur A R (n + 1)))

/-- `as.Curried(n+2)`: same recursion, bottoming out in `Curried2(f) = a1 => a2 => f(a1,a2)` -/
def asCurried : (n : Nat) → NFun A R → CurF A R (n + 1)
  | 0, f => fun a1 => (pure (fun a2 => f [a1, a2]) : GoM (Cur A R 1))
  | n + 1, f => fun a1 => (pure (asCurried n (fun rest => f (a1 :: rest))) : GoM (Cur A R (n + 2)))

/-- `f(a1)(a2)…(aN)`: apply a curried function of `n+1` arguments to its arguments one by one -/
def applyCur : (n : Nat) → CurF A R n → List A → GoM R
  | 0, f, [a] => f a
  | n + 1, f, a :: as => do let g ← f a; applyCur n g as
  | _, _, _ => arityPanic

/-- `curried.Revert(n+1)(f) = func(a1…aN) { return f(a1)(a2)…(aN) }` -/
def revert (n : Nat) (f : CurF A R n) : NFun A R := fun args => applyCur n f args

/-- argument list `(a2,…,aN,a1)` ↦ `(a1,a2,…,aN)` -/
def lastToFront (xs : List A) : List A :=
  match xs.getLast? with
  | some l => l :: xs.dropLast
  | none => []

/-- argument list `(aN,a1,…,a(N-1))` ↦ `(a1,…,a(N-1),aN)` -/
def headToBack : List A → List A
  | [] => []
  | x :: xs => xs ++ [x]

/-- `curried.Flip(n+1)` on a function of `n+2` arguments:
    `FuncN(func(a2,…,aN,a1) R { return f(a1)(a2)…(aN) })` -/
def flip (n : Nat) (f : CurF A R (n + 1)) : CurF A R (n + 1) :=
  curry (n + 1) (fun xs => applyCur (n + 1) f (lastToFront xs))

/-- `curried.Flip` / `fp.Flip` (hand written, two arguments): `b => a => f(a)(b)` -/
def flip1 (f : CurF A R 1) : CurF A R 1 :=
  fun b => (pure (fun a => do let g ← f a; (g : A → GoM R) b) : GoM (Cur A R 1))

/-- `fp.Flip2(f) = b => a => f(a, b)` -/
def fpFlip2 (f : NFun A R) : CurF A R 1 := fun b => (pure (fun a => f [a, b]) : GoM (Cur A R 1))

/-- `curried.SlipL(n+2)`: `FuncN(func(aN,a1,…,a(N-1)) R { return f(a1)…(aN) })` -/
def slipL (n : Nat) (f : CurF A R (n + 1)) : CurF A R (n + 1) :=
  curry (n + 1) (fun xs => applyCur (n + 1) f (headToBack xs))

/-- `curried.FlipApply(n+1)(f, a2,…,aN) = a1 => f(a1)(a2)…(aN)`; `FlipApply(f,b) = a => f(a)(b)` -/
def flipApply (n : Nat) (f : CurF A R (n + 1)) (rest : List A) : A → GoM R :=
  fun a1 => applyCur (n + 1) f (a1 :: rest)

/-- `curried.Compose(n+2)(f, g)`: `Compose2(f,g) = a => b => g(f(a)(b))`,
    `ComposeN(f,g) = a1 => Compose(N-1)(f(a1), g)` -/
def composeCur {GA GR : Type} : (n : Nat) → CurF A GA (n + 1) → (GA → GoM GR) → CurF A GR (n + 1)
  | 0, f, g => fun a => (pure (fun b => do
      let h ← f a
      let r ← (h : A → GoM GA) b
      g r) : GoM (Cur A GR 1))
  | n + 1, f, g => fun a1 => do
      let f1 ← f a1
      (pure (composeCur n f1 g) : GoM (Cur A GR (n + 2)))

-- ------------------------------------------------------------------------------------------------
-- func_gen.go, fp.go

/-- `r.ApplyFirst(n)(a1…a(N-1)) = func(aN) R { return r(a1…aN) }` -/
def applyFirst (f : NFun A R) (firsts : List A) : A → GoM R := fun last => f (firsts ++ [last])

/-- `r.ApplyLast(n)(a2…aN) = func(a1) R { return r(a1…aN) }` -/
def applyLast (f : NFun A R) (rest : List A) : A → GoM R := fun a1 => f (a1 :: rest)

/-- `r.Widen() = r` -/
def widen (f : NFun A R) : NFun A R := f

/-- `fp.Compose2(f1, f2) = a => f2(f1(a))` (also `fp.Compose`) -/
def compose2 {B D : Type} (f1 : A → GoM B) (f2 : B → GoM D) : A → GoM D := fun a => do
  let b ← f1 a
  f2 b

/-- `fp.ComposeN(f1,…,fN) = Compose2(f1, Compose(N-1)(f2,…,fN))`, bottoming out in `Compose2` -/
def composeN : List (A → GoM A) → A → GoM A
  | [] => fun _ => arityPanic
  | [_] => fun _ => arityPanic
  | [f, g] => compose2 f g
  | f :: g :: h :: fs => compose2 f (composeN (g :: h :: fs))

/-- `fp.IdN(a1,…,a(N-1), r) = r` -/
def idN (args : List A) : Option A := args.getLast?

-- ------------------------------------------------------------------------------------------------
-- as/func_gen.go, as/as.go, as/tuple_gen.go, as/labelled_gen.go

/-- `as.FuncN(f) = fp.FuncN(f)` (a conversion) -/
def asFunc (f : NFun A R) : NFun A R := f

/-- `as.SupplierN(f, a1…aN) = func() R { return f(a1…aN) }` -/
def supplier (f : NFun A R) (args : List A) : Unit → GoM R := fun _ => f args

/-- `as.TupleN(a1…aN)`, `as.LabelledN`, `product.TupleN`: the struct literal `{I1: a1, …, IN: aN}` -/
def mkTuple (args : List A) : List A := args

/-- `as.UnTupledN(f) = func(a1…aN) R { return f(TupleN(a1…aN)) }` -/
def unTupled (f : NFun A R) : NFun A R := fun args => f (mkTuple args)

/-- `as.Tupled2(fn) = func(t) R { return fn(t.Unapply()) }`, `product.LiftN(f)` likewise -/
def tupled (f : NFun A R) : List A → GoM R := fun t => f (tupUnapply t)

-- ------------------------------------------------------------------------------------------------
-- hlist/hlist.go, of_gen.go, case_gen.go, lift_gen.go, reverse_gen.go   (hlist = List, head first)

/-- `hlist.Of(n+1)`: `Of1(h) = Concat(h, Nil)`, `OfN(a1…aN) = Concat(a1, Of(N-1)(a2…aN))` -/
def hlistOf : (n : Nat) → List A → Option (List A)
  | 0, [a] => some (a :: [])
  | n + 1, a :: rest => (hlistOf n rest).map (a :: ·)
  | _, _ => none

/-- `hlist.Case(n+1)(hl, f)`: `Case1(hl,f) = f(hl.Head())`,
    `CaseN(hl,f) = Case(N-1)(Tail(hl), func(a2…aN) R { return f(hl.Head(), a2…aN) })`;
    the list may be longer than `n+1` (type parameter `T HList` for the remaining tail) -/
def hcase : (n : Nat) → List A → NFun A R → GoM R
  | 0, h :: _, f => f [h]
  | n + 1, h :: t, f => hcase n t (fun rest => f (h :: rest))
  | _, [], _ => arityPanic

/-- `hlist.Lift(n+1)(f)(v)`: `Lift1(f)(v) = f(v.Head())`,
    `LiftN(f)(v) = Lift(N-1)(func(a2…aN) R { return f(v.Head(), a2…aN) })(Tail(v))` -/
def hlift : (n : Nat) → NFun A R → List A → GoM R
  | 0, f, [a] => f [a]
  | n + 1, f, a :: t => hlift n (fun rest => f (a :: rest)) t
  | _, _, _ => arityPanic

/-- `hlist.Rift(n+1)(f)(v)` on the REVERSED list `Cons[AN, … Cons[A1, Nil]]`:
    `RiftN(f)(v) = Rift(N-1)(func(a1…a(N-1)) R { return f(a1…a(N-1), v.Head()) })(Tail(v))` -/
def hrift : (n : Nat) → NFun A R → List A → GoM R
  | 0, f, [a] => f [a]
  | n + 1, f, a :: t => hrift n (fun init => f (init ++ [a])) t
  | _, _, _ => arityPanic

/-- `hlist.Reverse(n+1)(hl) = CaseN(hl, func(a1…aN) { return OfN(aN,…,a1) })` -/
def hreverse (n : Nat) (hl : List A) : GoM (List A) :=
  hcase n hl (fun args =>
    match hlistOf n args.reverse with
    | some l => pure l
    | none => arityPanic)

/-- `as.HList(n+1)(tuple)`: `HList1(t) = Concat(t.Head(), Empty())`,
    `HListN(t) = Concat(t.Head(), Of(N-1)(t.Tail()))` -/
def asHList : (n : Nat) → List A → Option (List A)
  | 0, [a] => some (a :: [])
  | n + 1, a :: rest => (hlistOf n (tupTail (a :: rest))).map (a :: ·)
  | _, _ => none

/-- `as.HListNLabelled(tuple) = hlist.OfN(tuple.Unapply())` -/
def asHListLabelled (n : Nat) (t : List A) : Option (List A) := hlistOf n (tupUnapply t)

-- ------------------------------------------------------------------------------------------------
-- product/product_op.go, product/tuple_gen.go

/-- `product.TupleFromHList(n+1)(list)`: `TupleFromHList1(l) = Tuple1{l.Head()}`,
    `TupleFromHListN(l) = TupleN(l.Head(), tail.I1, …, tail.I(N-1))` with
    `tail = TupleFromHList(N-1)(Tail(l))`.  `LabelledFromHListN` is the same text. -/
def tupleFromHList : (n : Nat) → List A → Option (List A)
  | 0, [a] => some (mkTuple [a])
  | n + 1, a :: t => (tupleFromHList n t).map (fun tail => mkTuple (a :: tail))
  | _, _ => none

/-- right-nested pairs: `Tuple2[A1, Tuple2[A2, … Tuple2[A(N-1), AN]]]` -/
inductive Nest (A : Type) where
  | pair (a b : A)
  | cons (a : A) (t : Nest A)
  deriving Repr

/-- the right-nested encoding of a list of at least two elements -/
def Nest.ofList : List A → Option (Nest A)
  | [a, b] => some (.pair a b)
  | a :: b :: c :: rest => (Nest.ofList (b :: c :: rest)).map (.cons a)
  | _ => none

/-- `product.Flatten(n+3)(list)`: `Flatten3(l) = Tuple3(l.Head(), l.Tail().I1, l.Tail().I2)`,
    `FlattenN(l) = TupleN(l.Head(), tail.I1, …)` with `tail = Flatten(N-1)(l.Tail())` -/
def flatten : (n : Nat) → Nest A → Option (List A)
  | 0, .cons a (.pair b c) => some (mkTuple [a, b, c])
  | n + 1, .cons a t => (flatten n t).map (fun tail => mkTuple (a :: tail))
  | _, _ => none

-- ------------------------------------------------------------------------------------------------
-- fn1/arrow1.go, fn1/arrow_func_gen.go, unit/func_gen.go, lazy/tailcall_gen.go

/-- `fn1.MergeN(f1…fN)(a) = TupleN{I1: f1(a), …, IN: fN(a)}` (field initialisers run in order) -/
def merge (fs : List (A → GoM A)) (a : A) : GoM (List A) := fs.mapM (fun f => f a)

/-- `unit.FuncN(f)(a1…aN) = { f(a1…aN); return Unit{} }` -/
def unitFunc (f : List A → GoM Unit) : NFun A Unit := fun args => do
  f args
  pure ()

/-- `lazy.TailCallN(f, a1…aN) = TailCall(func() Eval[R] { return f(a1…aN) })` -/
def tailCallN {T : Type} [Inhabited T] (f : List A → EvalM.Eval T) (args : List A) : EvalM.Eval T :=
  EvalM.tailCall (fun _ => f args)

-- ------------------------------------------------------------------------------------------------
-- try/func_gen.go, try/curried_gen.go

/-- `try.FromPtr` -/
def fromPtr : Option R → Try R
  | some v => .success v
  | none => .failure .optionEmpty

/-- `try.FuncN(f)(a1…aN) = Apply(f(a1…aN))` -/
def tryFunc (f : List A → GoM (R × Err)) : NFun A (Try R) := fun args => do
  let (ret, err) ← f args
  pure (TryM.apply ret err)

/-- `try.PureN(f)(a1…aN) = Success(f(a1…aN))` -/
def tryPure (f : NFun A R) : NFun A (Try R) := fun args => do
  let r ← f args
  pure (.success r)

/-- `try.UnitN(f)(a1…aN) = Apply(Unit{}, f(a1…aN))` -/
def tryUnit (f : List A → GoM Err) : NFun A (Try Unit) := fun args => do
  let err ← f args
  pure (TryM.apply () err)

/-- `try.PtrN(f)(a1…aN) = FlatMap(Apply(f(a1…aN)), FromPtr)` -/
def tryPtr (f : List A → GoM (Option R × Err)) : NFun A (Try R) := fun args => do
  let (ret, err) ← f args
  TryM.flatMap (TryM.apply ret err) (fun p => pure (fromPtr p))

/-- `try.Curried(n+2)(f) = as.CurriedN(func(a1…aN) Try[R] { return Apply(f(a1…aN)) })`, and the
    `CurriedPure/CurriedUnit/CurriedPtr` variants with the bodies of `PureN/UnitN/PtrN` -/
def tryCurried (n : Nat) (f : List A → GoM (R × Err)) : CurF A (Try R) (n + 1) := asCurried n (tryFunc f)
def tryCurriedPure (n : Nat) (f : NFun A R) : CurF A (Try R) (n + 1) := asCurried n (tryPure f)
def tryCurriedUnit (n : Nat) (f : List A → GoM Err) : CurF A (Try Unit) (n + 1) := asCurried n (tryUnit f)
def tryCurriedPtr (n : Nat) (f : List A → GoM (Option R × Err)) : CurF A (Try R) (n + 1) :=
  asCurried n (tryPtr f)

-- ------------------------------------------------------------------------------------------------
-- option/applicative_gen.go, try/applicative_gen.go (+ the hand-written arity-1 members)
--
-- The builders hold VALUES of type `fp.Option[X]` / `fp.Try[X]` in struct fields and use them more
-- than once, so they are modelled over a value-level signature `VMonad`; the generated monad
-- family (`Map2`, `Ap`, `ApFunc`, `Map` of X_monad.go — `Model/MonadFamily.lean`, C01) is reused at
-- `C X = GoM (M X)` with a value `v` embedded as the effect-free computation `pure v`.

structure VMonad (M : Type → Type) where
  vpure : {α : Type} → α → M α
  vbind : {α β : Type} → M α → (α → GoM (M β)) → GoM (M β)
  /-- `try.FromOption` (identity for package option) -/
  fromOption : {α : Type} → Option α → M α

def VMonad.ops {M : Type → Type} (V : VMonad M) : MonadOps (fun X => GoM (M X)) where
  pure' a := pure (V.vpure a)
  seq g k := g >>= k
  flatMap m k := m >>= fun t => V.vbind t k

def optV : VMonad Option where
  vpure a := some a
  vbind := OptM.flatMap
  fromOption o := o

def tryV : VMonad Try where
  vpure a := .success a
  vbind := TryM.flatMap
  fromOption := TryM.fromOption

section builders
variable {M : Type → Type} (V : VMonad M)

/-- one operand of a builder step.  Package option: `ApOption = apM`, `ApOptionFunc = apMFunc`;
    package try: `ApTry = apM`, `ApTryFunc = apMFunc`, `ApOption = apOpt`, `ApOptionFunc = apOptFunc`.
    Callbacks of `FlatMap`/`Map` get the HEAD of the hlist of values so far (`hlist.Nil` at the
    first step): modelled as the list of at most one element `h.take 1`. -/
inductive Step (M : Type → Type) (A : Type) where
  | apM (a : M A)
  | ap (a : A)
  | apMFunc (s : Unit → GoM (M A))
  | apFunc (s : Unit → GoM A)
  | apOpt (a : Option A)
  | apOptFunc (s : Unit → GoM (Option A))
  | flatMap (k : List A → GoM (M A))
  | map (k : List A → GoM A)
  | hlistFlatMap (k : List A → GoM (M A))
  | hlistMap (k : List A → GoM A)

/-- `ApplicativeFunctor(n+1)`: `fn fp.Option[curried]` -/
abbrev ApSt (M : Type → Type) (A R : Type) (n : Nat) := M (CurF A R n)

/-- one method call on `ApplicativeFunctor(n+1)`; the result is the field `fn` of the next builder
    (for n = 0: the final `fp.Option[R]`).  `ApOption(a) = {Ap(r.fn, a)}`, `Ap(a) = r.ApOption(Some(a))`,
    `ApOptionFunc(s) = {ApFunc(r.fn, s)}`, `ApFunc(s) = r.ApOptionFunc(() => Some(s()))`; in package
    try `ApOption(a) = r.ApTry(FromOption(a))`, `ApOptionFunc(s) = r.ApTryFunc(() => FromOption(s()))`.
    The hlist-callbacks do not exist on this builder. -/
def apStep {n : Nat} (fn : ApSt M A R n) : Step M A → GoM (M (Cur A R n))
  | .apM a => MonadFamily.ap V.ops (pure fn) (pure a)
  | .ap a => MonadFamily.ap V.ops (pure fn) (pure (V.vpure a))
  | .apMFunc s => MonadFamily.apFunc V.ops (pure fn) s
  | .apFunc s => MonadFamily.apFunc V.ops (pure fn) (fun _ => do let x ← s (); pure (V.vpure x))
  | .apOpt a => MonadFamily.ap V.ops (pure fn) (pure (V.fromOption a))
  | .apOptFunc s => MonadFamily.apFunc V.ops (pure fn) (fun _ => do let x ← s (); pure (V.fromOption x))
  | _ => arityPanic

/-- the whole chain `Applicative(n+1)(f).m1(…).m2(…)…` -/
def runApplicativeFrom : (n : Nat) → ApSt M A R n → List (Step M A) → GoM (M R)
  | 0, fn, [s] => apStep V fn s
  | n + 1, fn, s :: ss => do
      let fn' ← apStep V fn s
      runApplicativeFrom n fn' ss
  | _, _, _ => arityPanic

/-- `Applicative(n+1)(f) = {Some(curried.FuncN(f))}` -/
def applicativeN (n : Nat) (f : NFun A R) : ApSt M A R n := V.vpure (curry n f)

def runApplicative (n : Nat) (f : NFun A R) (steps : List (Step M A)) : GoM (M R) :=
  runApplicativeFrom V n (applicativeN V n f) steps

/-- `MonadChain(n+1)[H, HT, …]{h fp.Option[H]; fn fp.Option[curried]}`: `h` holds the values so far,
    most recent first -/
structure ChainSt (M : Type → Type) (A R : Type) (n : Nat) where
  h : M (List A)
  fn : M (CurF A R n)

/-- the operand `av` a `MonadChain` method computes before delegating to `ApOption` / `ApTry` -/
def chainOperand (h : M (List A)) : Step M A → GoM (M A)
  | .apM a => pure a
  | .ap a => pure (V.vpure a)
  | .apOpt a => pure (V.fromOption a)
  | .apMFunc s => V.ops.flatMap (pure h) (fun _ => s ())
  | .apOptFunc s => V.ops.flatMap (pure h) (fun _ => do let x ← s (); pure (V.fromOption x))
  | .apFunc s => MonadFamily.map V.ops (pure h) (fun _ => s ())
  | .flatMap k => V.ops.flatMap (pure h) (fun v => k (v.take 1))
  | .map k => V.ops.flatMap (pure h) (fun v => do let x ← k (v.take 1); pure (V.vpure x))
  | .hlistFlatMap k => V.ops.flatMap (pure h) (fun v => k v)
  | .hlistMap k => V.ops.flatMap (pure h) (fun v => do let x ← k v; pure (V.vpure x))

/-- the body of a `MonadChain(N)` method, N ≥ 2 (generic in what the curried function returns next):
    `ApOption(a) = { nh := Map2(a, r.h, hlist.Concat); return Next{nh, Ap(r.fn, a)} }`, every other
    method computes its operand `av` and delegates to `ApOption` / `ApTry` -/
def chainStepG {B : Type} (h : M (List A)) (fn : M (A → GoM B)) (s : Step M A) : GoM (M (List A) × M B) := do
  let av ← chainOperand V h s
  let nh ← MonadFamily.map2 V.ops (pure av) (pure h) (fun a h => pure (a :: h))
  let nfn ← MonadFamily.ap V.ops (pure fn) (pure av)
  pure (nh, nfn)

/-- the body of a method of the hand-written `MonadChain1`: `ApOption(a) = Ap(r.fn, a)` -/
def chainLastG {B : Type} (h : M (List A)) (fn : M (A → GoM B)) (s : Step M A) : GoM (M B) := do
  let av ← chainOperand V h s
  MonadFamily.ap V.ops (pure fn) (pure av)

def chainStep {n : Nat} (r : ChainSt M A R (n + 1)) (s : Step M A) : GoM (ChainSt M A R n) := do
  let p ← chainStepG V (B := Cur A R (n + 1)) r.h r.fn s
  pure ⟨p.1, p.2⟩

def chainLast (r : ChainSt M A R 0) (s : Step M A) : GoM (M R) :=
  chainLastG V (B := R) r.h r.fn s

def runChainFrom : (n : Nat) → ChainSt M A R n → List (Step M A) → GoM (M R)
  | 0, r, [s] => chainLast V r s
  | n + 1, r, s :: ss => do
      let r' ← chainStep V r s
      runChainFrom n r' ss
  | _, _, _ => arityPanic

/-- `Chain(n+1)(f) = {Some(hlist.Empty()), Some(curried.FuncN(f))}` -/
def chainN (n : Nat) (f : NFun A R) : ChainSt M A R n := ⟨V.vpure [], V.vpure (curry n f)⟩

def runChain (n : Nat) (f : NFun A R) (steps : List (Step M A)) : GoM (M R) :=
  runChainFrom V n (chainN V n f) steps

end builders

-- ------------------------------------------------------------------------------------------------
-- iterator/func_gen.go: `FlapN`, `MethodN` are the monad-family templates at `fp.Iterator`, viewed
-- as the finite list it yields (pull order / single use of an iterator: C12, C20).

def listOps : MonadOps (fun X => GoM (List X)) where
  pure' a := pure [a]
  seq g k := g >>= k
  flatMap m k := do
    let xs ← m
    let ys ← xs.mapM k
    pure ys.flatten

end FpVerif.Arity
