import FpVerif.Base
/-!
# Slice heap: `fp.Seq` (seq.go), package `seq`, the merge monoids and `Iterator.ToSeq` at the level of Go's
# backing arrays (C04)

A heap is a list of backing arrays (each listed over its FULL capacity); a slice is a window
`(arr, off, len, cap)` into one of them (or nil).  The library functions are written as small imperative
programs over Go's primitives, statement by statement as in the Go source:

* `make([]T, len, cap)`  — `make`: a new zeroed array;
* `append(s, xs...)`     — `goAppend`: **writes in place** into `s`'s array when `len+|xs| ≤ cap`, otherwise
                           allocates a new array (Go's semantics — this is what makes aliasing bugs possible);
* `s[i] = x`, `copy(dst, src)` — `setAt`, `writeFrom`: in-place writes.

A program runs on a state with two slice registers (`a`, `b`: the Go function's local slice variables such as
`ret`, `left`/`right`, `ns`) and may read any slice it was given.  Which programs are frame-safe is NOT built
into the primitives: `goAppend` happily writes into an argument's spare capacity (see `mergeSeqBad`).  That the
library's programs never do is the theorem `Spec.C04.frame_step`.
Elements are integers; predicates and functions are arbitrary.
-/
namespace FpVerif.SliceHeap

abbrev Heap := List (List Int)

structure Slice where
  arr : Option Nat     -- none = nil slice
  off : Nat
  len : Nat
  cap : Nat            -- capacity counted from `off`
  deriving Repr, DecidableEq, Inhabited

def Slice.nil : Slice := { arr := none, off := 0, len := 0, cap := 0 }

/-- the elements a slice shows -/
def view (h : Heap) (s : Slice) : List Int :=
  match s.arr with
  | none => []
  | some a => ((h.getD a []).drop s.off).take s.len

/-- `s[i]` -/
def rd (h : Heap) (s : Slice) (i : Nat) : Int := (view h s).getD i 0

/-! ## Go's primitives -/

/-- replace array `a` of the heap by `f` of it -/
def updArr : Heap → Nat → (List Int → List Int) → Heap
  | [], _, _ => []
  | x :: xs, 0, f => f x :: xs
  | x :: xs, a + 1, f => x :: updArr xs a f

/-- overwrite `arr[pos ..]` with `xs` (never beyond the array) -/
def writeFrom (arr : List Int) (pos : Nat) (xs : List Int) : List Int :=
  arr.mapIdx (fun i v => if pos ≤ i ∧ i < pos + xs.length then xs.getD (i - pos) v else v)

/-- `make([]T, len, cap)` -/
def make (h : Heap) (len cap : Nat) : Slice × Heap :=
  ({ arr := some h.length, off := 0, len := len, cap := cap }, h ++ [List.replicate cap 0])

/-- `[]T{x₁, …}` (also `fp.Seq[T]{}`: non-nil, no capacity) -/
def lit (h : Heap) (xs : List Int) : Slice × Heap :=
  ({ arr := some h.length, off := 0, len := xs.length, cap := xs.length }, h ++ [xs])

/-- `append(s, xs...)`: in place when the capacity suffices, else a new array holding `s ++ xs`
    (growth policy not modelled: the new array is exactly full) -/
def goAppend (h : Heap) (s : Slice) (xs : List Int) : Slice × Heap :=
  if xs.isEmpty then (s, h)
  else
    match s.arr with
    | some a =>
      if s.len + xs.length ≤ s.cap then
        ({ s with len := s.len + xs.length }, updArr h a (fun arr => writeFrom arr (s.off + s.len) xs))
      else lit h (view h s ++ xs)
    | none => lit h xs

/-- `s[i] = x` / `copy(s, xs)`: overwrite the window of `s` from index `i` (within its length) -/
def setAt (h : Heap) (s : Slice) (i : Nat) (xs : List Int) : Heap :=
  match s.arr with
  | none => h
  | some a => updArr h a (fun arr => writeFrom arr (s.off + i) (xs.take (s.len - i)))

/-! ## Programs: two slice registers over the heap -/

structure St where
  heap : Heap
  a : Slice
  b : Slice

abbrev Step := St → St

def seq (p q : Step) : Step := fun st => q (p st)
infixr:60 " ;; " => seq

/-- `for i := 0; i < n; i++ { body i }` -/
def iter : Nat → (Nat → Step) → Step
  | 0, _ => id
  | n + 1, body => fun st => body n (iter n body st)

def mkA (len cap : Nat) : Step := fun st => let (s, h) := make st.heap len cap; { st with heap := h, a := s }
def mkB (len cap : Nat) : Step := fun st => let (s, h) := make st.heap len cap; { st with heap := h, b := s }
def litA (xs : St → List Int) : Step := fun st => let (s, h) := lit st.heap (xs st); { st with heap := h, a := s }
def litB (xs : St → List Int) : Step := fun st => let (s, h) := lit st.heap (xs st); { st with heap := h, b := s }
/-- `a = append(a, xs...)` -/
def appA (xs : St → List Int) : Step := fun st => let (s, h) := goAppend st.heap st.a (xs st); { st with heap := h, a := s }
def appB (xs : St → List Int) : Step := fun st => let (s, h) := goAppend st.heap st.b (xs st); { st with heap := h, b := s }
/-- `a[i] = x` / `copy(a[i:], xs)` -/
def setA (i : St → Nat) (xs : St → List Int) : Step := fun st => { st with heap := setAt st.heap st.a (i st) (xs st) }
def setB (i : St → Nat) (xs : St → List Int) : Step := fun st => { st with heap := setAt st.heap st.b (i st) (xs st) }
def moveBA : Step := fun st => { st with a := st.b }
def nilA : Step := fun st => { st with a := Slice.nil }
def cond (c : St → Bool) (p q : Step) : Step := fun st => if c st then p st else q st
def skip : Step := id

/-! ## The library functions -/

inductive Op where
  -- fp.Seq methods (seq.go)
  | widen | init | tail | take (n : Nat) | drop (n : Nat) | unSeq
  | filter (p : Int → Bool) | filterNot (p : Int → Bool) | map (f : Int → Int)
  | flatMap (mf : Int → Slice)
  | add (x : Int) | append (xs : List Int) | concat (t : Slice) | reverse
  -- package seq (seq/seq_op.go)
  | sort (lt : Int → Int → Bool) | distinct | scan (z : Int) (f : Int → Int → Int)
  | span (p : Int → Bool) | partition (p : Int → Bool)
  | fold | groupBy | toGoMap | collect | mapPkg (f : Int → Int)
  | flatMapPkg (mf : Int → Slice) | flatten (ss : List Slice)
  | ap (fs : List (Int → Int)) | map2 (t : Slice) (f : Int → Int → Int) | filterMap (fn : Int → Option Int)
  | concatPkg (head : Int) | ofPkg | pure (x : Int)
  -- monoid.MergeSeq / MergeSlice (monoid/monoid_op.go), seq.Reduce over them
  | mergeCombine (t : Slice) | mergeEmpty | reduceMerge (ss : List Slice)
  -- Iterator.ToSeq / iterator.ToSeq / ToSlice over iterator.FromSeq(s); Option.ToSeq
  | iterToSeq | optToSeq (o : Option Int)

def dedup : List Int → List Int → List Int
  | [], _ => []
  | x :: xs, seen => if seen.contains x then dedup xs seen else x :: dedup xs (x :: seen)

def spanL (p : Int → Bool) : List Int → List Int × List Int
  | [] => ([], [])
  | x :: xs => if p x then let (l, r) := spanL p xs; (x :: l, r) else ([], x :: xs)

/-- `ret := make(Seq[T], r.Size()+tail.Size()); copy(ret, r); for i := range tail { ret[i+r.Size()] = tail[i] }`
    into register `a` (Seq.Append / Seq.Concat) -/
def concatInto (s : Slice) (tl : St → List Int) (n : Nat) : Step :=
  mkA (s.len + n) (s.len + n) ;;
  setA (fun _ => 0) (fun st => view st.heap s) ;;
  iter n (fun i => setA (fun _ => i + s.len) (fun st => [(tl st).getD i 0]))

/-- `Map(a, f)` into register `b`: `ret := make(Seq[U], len(a)); for i, v := range a { ret[i] = f(v) }` -/
def mapIntoB (t : Slice) (f : St → Int → Int) : Step :=
  mkB t.len t.len ;; iter t.len (fun j => setB (fun _ => j) (fun st => [f st (rd st.heap t j)]))

/-- `FlatMap(s, fn)`: `ret := make(Seq[U], 0, len(s)); for _, v := range s { ret = append(ret, fn(v)...) }`
    where the chunk is computed by `chunk i` (which may itself allocate, into register `b`) -/
def flatMapWith (s : Slice) (chunk : Nat → Step) : Step :=
  mkA 0 s.len ;; iter s.len (fun i => chunk i ;; appA (fun st => view st.heap st.b))

/-- the program of an operation on receiver / first argument `s`; `none` for the operations that return a
    window of `s` or nothing -/
def prog (s : Slice) : Op → Option Step
  | .filter p => some (mkA 0 s.len ;; iter s.len (fun i =>
      cond (fun st => p (rd st.heap s i)) (appA (fun st => [rd st.heap s i])) skip))
  | .filterNot p => some (mkA 0 s.len ;; iter s.len (fun i =>
      cond (fun st => !p (rd st.heap s i)) (appA (fun st => [rd st.heap s i])) skip))
  | .map f => some (mkA 0 s.len ;; iter s.len (fun i => appA (fun st => [f (rd st.heap s i)])))
  | .flatMap mf => some (mkA 0 s.len ;; iter s.len (fun i => appA (fun st => view st.heap (mf (rd st.heap s i)))))
  | .flatMapPkg mf => some (mkA 0 s.len ;; iter s.len (fun i => appA (fun st => view st.heap (mf (rd st.heap s i)))))
  | .add x => some (concatInto s (fun _ => [x]) 1)
  | .append xs => if xs.length > 0 then some (concatInto s (fun _ => xs) xs.length) else none
  | .concat t => if t.len > 0 then some (concatInto s (fun st => view st.heap t) t.len) else none
  | .mergeCombine t => if t.len > 0 then some (concatInto s (fun st => view st.heap t) t.len) else none
  | .reverse => some (mkA s.len s.len ;; iter s.len (fun i => setA (fun _ => s.len - i - 1) (fun st => [rd st.heap s i])))
  | .sort lt => some (mkA s.len s.len ;; setA (fun _ => 0) (fun st => view st.heap s) ;;
      setA (fun _ => 0) (fun st => (view st.heap st.a).mergeSort (fun x y => !lt y x)))   -- sort.Sort on the COPY
  | .distinct => some (mkA 0 s.len ;; iter s.len (fun i =>
      cond (fun st => ((view st.heap s).take i).contains (rd st.heap s i)) skip (appA (fun st => [rd st.heap s i]))))
  | .scan z f =>
      if s.len = 0 then some (litA (fun _ => [z]))
      else some (mkA (s.len + 1) (s.len + 1) ;; setA (fun _ => 0) (fun _ => [z]) ;;
        iter s.len (fun i => setA (fun _ => i + 1) (fun st => [((view st.heap s).take (i + 1)).foldl f z])))
  | .span p => some (litA (fun _ => []) ;; litB (fun _ => []) ;; iter s.len (fun i =>
      cond (fun st => ((view st.heap s).take (i + 1)).all p) (appA (fun st => [rd st.heap s i])) (appB (fun st => [rd st.heap s i]))))
  | .partition p => some (litA (fun _ => []) ;; litB (fun _ => []) ;; iter s.len (fun i =>
      cond (fun st => p (rd st.heap s i)) (appA (fun st => [rd st.heap s i])) (appB (fun st => [rd st.heap s i]))))
  | .collect => some (litA (fun _ => []) ;; iter s.len (fun i => appA (fun st => [rd st.heap s i])))
  | .iterToSeq => some (litA (fun _ => []) ;; iter s.len (fun i => appA (fun st => [rd st.heap s i])))
  | .mapPkg f => some (mkA s.len s.len ;; iter s.len (fun i => setA (fun _ => i) (fun st => [f (rd st.heap s i)])))
  | .flatten ss => some (mkA 0 ss.length ;; iter ss.length (fun i => appA (fun st => view st.heap (ss.getD i Slice.nil))))
  | .ap fs => some (mkA 0 fs.length ;; iter fs.length (fun i =>
      mapIntoB s (fun _ v => (fs.getD i id) v) ;; appA (fun st => view st.heap st.b)))
  | .map2 t f => some (flatMapWith s (fun i => mapIntoB t (fun st v2 => f (rd st.heap s i) v2)))
  | .filterMap fn => some (mkA 0 s.len ;; iter s.len (fun i =>
      cond (fun st => (fn (rd st.heap s i)).isSome)
        (litB (fun st => (fn (rd st.heap s i)).toList) ;; appA (fun st => view st.heap st.b))   -- option.ToSeq: Seq[T]{v}
        skip))                                                                                  -- append(ret, nil...)
  | .concatPkg head =>
      if s.len > 0 then some (litB (fun _ => [head]) ;; mkA (1 + s.len) (1 + s.len) ;; setA (fun _ => 0) (fun st => view st.heap st.b) ;;
        iter s.len (fun i => setA (fun _ => i + 1) (fun st => [rd st.heap s i])))
      else some (litA (fun _ => [head]))                                                        -- Of(head).Concat(empty) = Of(head)
  | .pure x => some (litA (fun _ => [x]))
  | .optToSeq o => o.map (fun x => litA (fun _ => [x]))     -- Some(x): []T{x}; None: nil
  | .reduceMerge ss => some (nilA ;; iter ss.length (fun i =>
      cond (fun _ => (ss.getD i Slice.nil).len > 0)
        (fun st => (mkB (st.a.len + (ss.getD i Slice.nil).len) (st.a.len + (ss.getD i Slice.nil).len) ;;
          setB (fun _ => 0) (fun st' => view st'.heap st.a) ;;
          setB (fun _ => st.a.len) (fun st' => view st'.heap (ss.getD i Slice.nil)) ;; moveBA) st)
        skip))
  | _ => none

/-- result of an operation -/
inductive Res where
  | alias (s : Slice)          -- a window of (or exactly) the receiver / argument; `Slice.nil` for nil
  | regA                       -- register `a` of the program
  | regAB                      -- registers `a` and `b` (Span, Partition)
  | none                       -- no slice result (folds, conversions)
  deriving Repr

/-- what an operation returns -/
def resOf (s : Slice) : Op → Res
  | .widen => .alias s
  | .ofPkg => .alias s
  | .init => if s.len > 1 then .alias { s with len := s.len - 1, cap := s.cap } else .alias Slice.nil
  | .tail => if s.len > 0 then .alias { s with off := s.off + 1, len := s.len - 1, cap := s.cap - 1 } else .alias Slice.nil
  | .unSeq => if s.len > 0 then .alias { s with off := s.off + 1, len := s.len - 1, cap := s.cap - 1 } else .alias Slice.nil
  | .take n => if s.len < n then .alias s else .alias { s with len := n }
  | .drop n => if s.len < n then .alias Slice.nil else .alias { s with off := s.off + n, len := s.len - n, cap := s.cap - n }
  | .append xs => if xs.length > 0 then .regA else .alias s
  | .concat t => if t.len > 0 then .regA else .alias s
  | .mergeCombine t => if t.len > 0 then .regA else .alias s
  | .mergeEmpty => .alias Slice.nil
  | .optToSeq o => if o.isSome then .regA else .alias Slice.nil
  | .span _ => .regAB
  | .partition _ => .regAB
  | .fold => .none
  | .groupBy => .none
  | .toGoMap => .none
  | _ => .regA

/-- one library call on receiver / argument `s`: the slices it returns and the heap it leaves -/
def exec (h : Heap) (s : Slice) (op : Op) : List Slice × Heap :=
  let st := match prog s op with
    | some p => p { heap := h, a := Slice.nil, b := Slice.nil }
    | none => { heap := h, a := Slice.nil, b := Slice.nil }
  match resOf s op with
  | .alias t => ([t], st.heap)
  | .regA => ([st.a], st.heap)
  | .regAB => ([st.a, st.b], st.heap)
  | .none => ([], st.heap)

/-- a history: each step applies an operation to one of the live slices and makes its results live too -/
structure World where
  heap : Heap
  live : List Slice

def stepW (w : World) (i : Nat) (op : Op) : World :=
  let s := w.live.getD i Slice.nil
  let r := exec w.heap s op
  { heap := r.2, live := w.live ++ r.1 }

def runW (w : World) (ops : List (Nat × Op)) : World := ops.foldl (fun w io => stepW w io.1 io.2) w

/-- NOT the library: `Combine` rewritten as `append(a, b...)` — a program the discipline of `Spec.C04` rejects -/
def mergeSeqBad (h : Heap) (a b : Slice) : Slice × Heap := goAppend h a (view h b)

end FpVerif.SliceHeap
