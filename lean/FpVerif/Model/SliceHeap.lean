import FpVerif.Base
/-!
# Slice heap: `fp.Seq` (seq.go) and package `seq` at the level of Go's backing arrays (C04)

A heap is a list of backing arrays; a slice is a window `(arr, off, len, cap)` into one of them (or nil).
Each library operation either returns a window into an array it was given (`alias`), or allocates a
fresh array (`fresh`), or returns no slice; the heap it leaves is the old heap plus its fresh arrays.
What the model must get right for the persistence property: WHICH operations write to a pre-existing
array (none may), and which results share storage with their inputs.
Elements are integers; predicates and functions are arbitrary.
-/
namespace FpVerif.SliceHeap

abbrev Heap := List (List Int)

structure Slice where
  arr : Option Nat     -- none = nil slice
  off : Nat
  len : Nat
  cap : Nat            -- capacity counted from `off`
  deriving Repr, DecidableEq, Inhabited

def Slice.nil : Slice := { arr := none, off := 0, len := 0, cap := 0 }

/-- the elements a slice shows -/
def view (h : Heap) (s : Slice) : List Int :=
  match s.arr with
  | none => []
  | some a => ((h.getD a []).drop s.off).take s.len

/-- result of an operation -/
inductive Res where
  | alias (s : Slice)                 -- shares storage with an argument
  | fresh (xs : List Int)             -- newly allocated array with these elements
  | fresh2 (xs ys : List Int)         -- two newly allocated arrays (Span, Partition)
  | none                              -- no slice result (folds, conversions)
  deriving Repr

inductive Op where
  | widen | init | tail | take (n : Nat) | drop (n : Nat)
  | filter (p : Int → Bool) | filterNot (p : Int → Bool) | map (f : Int → Int)
  | add (x : Int) | append (xs : List Int) | concat (t : Slice) | reverse
  | sort (lt : Int → Int → Bool) | distinct | scan (z : Int) (f : Int → Int → Int)
  | span (p : Int → Bool) | partition (p : Int → Bool)
  | fold | groupBy | toGoMap | collect | mapPkg (f : Int → Int) | flatten2

def dedup : List Int → List Int → List Int
  | [], _ => []
  | x :: xs, seen => if seen.contains x then dedup xs seen else x :: dedup xs (x :: seen)

def spanL (p : Int → Bool) : List Int → List Int × List Int
  | [] => ([], [])
  | x :: xs => if p x then let (l, r) := spanL p xs; (x :: l, r) else ([], x :: xs)

/-- one library call on receiver/argument `s` -/
def apply (h : Heap) (s : Slice) : Op → Res
  | .widen => .alias s
  | .init => if s.len > 1 then .alias { s with len := s.len - 1, cap := s.cap } else .alias Slice.nil
  | .tail => if s.len > 0 then .alias { s with off := s.off + 1, len := s.len - 1, cap := s.cap - 1 } else .alias Slice.nil
  | .take n => if s.len < n then .alias s else .alias { s with len := n }
  | .drop n => if s.len < n then .alias Slice.nil else .alias { s with off := s.off + n, len := s.len - n, cap := s.cap - n }
  | .filter p => .fresh ((view h s).filter p)
  | .filterNot p => .fresh ((view h s).filter (fun x => !p x))
  | .map f => .fresh ((view h s).map f)
  | .add x => .fresh (view h s ++ [x])
  | .append xs => if xs.length > 0 then .fresh (view h s ++ xs) else .alias s
  | .concat t => if t.len > 0 then .fresh (view h s ++ view h t) else .alias s
  | .reverse => .fresh (view h s).reverse
  | .sort lt => .fresh ((view h s).mergeSort (fun a b => !lt b a))   -- a sorted copy
  | .distinct => .fresh (dedup (view h s) [])
  | .scan z f => .fresh ((view h s).foldl (fun acc x => acc ++ [f (acc.getLastD z) x]) [z])
  | .span p => let (l, r) := spanL p (view h s); .fresh2 l r
  | .partition p => .fresh2 ((view h s).filter p) ((view h s).filter (fun x => !p x))
  | .fold => .none
  | .groupBy => .none
  | .toGoMap => .none
  | .collect => .fresh (view h s)
  | .mapPkg f => .fresh ((view h s).map f)
  | .flatten2 => .fresh (view h s ++ view h s)

/-- the heap after the call: only new arrays are added; NO existing array is written -/
def heapAfter (h : Heap) (r : Res) : Heap :=
  match r with
  | .fresh xs => h ++ [xs]
  | .fresh2 xs ys => h ++ [xs, ys]
  | _ => h

/-- the slices the call returns -/
def results (h : Heap) (r : Res) : List Slice :=
  match r with
  | .alias s => [s]
  | .fresh xs => [{ arr := some h.length, off := 0, len := xs.length, cap := xs.length }]
  | .fresh2 xs ys => [{ arr := some h.length, off := 0, len := xs.length, cap := xs.length },
                       { arr := some (h.length + 1), off := 0, len := ys.length, cap := ys.length }]
  | .none => []

/-- a history: each step applies an operation to one of the live slices and makes its results live too -/
structure World where
  heap : Heap
  live : List Slice

def stepW (w : World) (i : Nat) (op : Op) : World :=
  let s := w.live.getD i Slice.nil
  let r := apply w.heap s op
  { heap := heapAfter w.heap r, live := w.live ++ results w.heap r }

def runW (w : World) (ops : List (Nat × Op)) : World := ops.foldl (fun w io => stepW w io.1 io.2) w

end FpVerif.SliceHeap
