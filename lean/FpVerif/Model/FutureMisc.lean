import FpVerif.Model.FutureChain
/-!
# `monoid.Future` and `future.TraverseFunc` on the network model of C06 (C14 / C11 / C06 remainder)

Both are one-line derived programs over combinators that `Model/Future.lean` already has.
-/
namespace FpVerif.Fut
open FpVerif

/-- `monoid.Future(m).Combine(a, b) = future.Map2(a, b, m.Combine)` (no executor argument: the default executor) -/
def monoidFutureCombine (combine : Val → Val → W Val) (a b : Nat) : FExpr := map2 a b combine

/-- `monoid.Future(m).Empty() = future.Successful(m.Empty())` -/
def monoidFutureEmpty (empty : Val) : FExpr := .successful empty

/-- `future.TraverseFunc(far, ctx...)(iterA) = Traverse(iterA, far, ctx...)`, and
    `Traverse(itr, fn) = Map(traverse(itr, fn), iterator.FromSeq)`; the iterator is the finite list it yields -/
def traverseFunc (far : Val → FExpr) : List Val → FExpr :=
  fun iterA => map (traverseSeq iterA far) (fun l => (l, []))

end FpVerif.Fut
