import FpVerif.Model.Future
/-!
# Arity-indexed builder families of package `future` on the network model (C14 / C06)

`future/applicative_gen.go` (`MonadChainN`, `ApplicativeFunctorN`, `ChainN`, `ApplicativeN`, N = 2..9) with the
hand-written arity 1 of `future/future_op.go`, and `future/func_gen.go` (`LiftAN`, `LiftMN`, `FlapN`,
`MethodN`, `FlatMethodN`, `FuncN`, `UnitN`, `ComposeN`) with their hand-written base cases.

Nothing is added to `FExpr`: every member is a *derived program* — a Lean function that issues the
same `build`s, in the same order, as the Go body issues `promise.New` / `OnComplete`.  A builder is
a struct of future HANDLES (`{h, fn}`); one method = the futures it builds, arity-generic by
recursion on the list of remaining steps (receiver arity = number of remaining steps; arity 1 is
the hand-written receiver).

Encodings in `Val` (everything is instantiated at `any` on the Go side):
* hlist of the values so far, most recent first: `.seq [a_k, …, a_1]` (`hlist.Nil` = `.seq []`);
  `v.Head()` as the callbacks of `Map`/`FlatMap` see it: the list of at most one element
  (`hlist.Nil.Head()` is `hlist.Nil`, which the Go glue renders as `[]`);
* a curried function `curried.FuncN(fn)` applied to `k < N` arguments: `pa [a_1, …, a_k]`
  (a tagged tuple); applying it to the N-th argument calls the user function `fn`, which logs.

Executors.  A user callback runs inside the task of the `OnComplete` it was handed to, i.e. on the
executor that `FlatMap`/`Map` call received (`ctx...`, or the default executor when `ctx` was not
passed on).  So that "which `ctx` reaches which `FlatMap`" is part of the model, every user callback
takes the executor it runs on as an argument (`Ex`); the correspondence harness logs it.
-/
namespace FpVerif.Fut

/-- where a piece of user code runs: in a task of the default executor (`d`: no `ctx` was passed on), in a task of the
    caller's executor (`u`), or synchronously in the caller itself (`s`: not in a task at all) -/
inductive Ex where
  | d
  | u
  | s
  deriving DecidableEq, Repr, Inhabited

def Ex.tag : Ex → String
  | .d => "d"
  | .u => "u"
  | .s => "s"

-- value encodings -------------------------------------------------------------------------------------------

/-- `hlist.Concat(a, h)` -/
def hcons (a h : Val) : Val :=
  match h with
  | .seq l => .seq (a :: l)
  | o => o

/-- `h.Head()` as a callback sees it: `[]` for `hlist.Nil`, `[x]` otherwise -/
def hhead (h : Val) : Val :=
  match h with
  | .seq l => .seq (l.take 1)
  | o => o

/-- `hlist.Concat` as the (pure) function handed to `Map2` -/
def hconsW (a h : Val) : W Val := (hcons a h, [])

/-- the hlist holding the values `vs` (given oldest first) -/
def hl (vs : List Val) : Val := .seq vs.reverse

/-- `curried.FuncN(fn)` applied to the arguments `args` so far (fewer than N) -/
def pa (args : List Val) : Val := .tup [.str "pa", .seq args]

def paArgs : Val → List Val
  | .tup [.str "pa", .seq args] => args
  | _ => []

/-- a user function of N arguments, told on which executor's task it runs -/
abbrev NFn := Ex → List Val → W Val

/-- apply the curried form of `fn` (arity `n`) to one more argument: partial applications are pure,
    the application of the `n`-th argument calls `fn` -/
def applyC (n : Nat) (fn : NFn) (c : Ex) (f x : Val) : W Val :=
  let args := paArgs f ++ [x]
  if args.length < n then (pa args, []) else fn c args

-- future_op.go: Ap, ApFunc, FromTry, FromOption ----------------------------------------------------------

/-- `future.FromTry` -/
def fromTry : Try Val → FExpr
  | .success v => .successful v
  | .failure e => .failed e

/-- `future.FromOption` -/
def fromOption : Option Val → FExpr
  | some v => .successful v
  | none => .failed .optionEmpty

def tryOfOption : Option Val → Try Val
  | some v => .success v
  | none => .failure .optionEmpty

/-- `future.Ap(t, a, ctx...) = FlatMap(t, f => Map(a, f, ctx...), ctx...)`; `app c f x` is the application of the
    function value `f` inside the task of `Map`, which runs on `c` -/
def ap (app : Ex → Val → Val → W Val) (t a : Nat) (c : Ex) : FExpr :=
  .flatMap (.ref t) (fun f => map (.ref a) (fun x => app c f x))

/-- `future.ApFunc(t, a, ctx...) = FlatMap(t, f => Map(a(), f, ctx...), ctx...)`: the supplier runs in the task of
    the outer `FlatMap` -/
def apFunc (app : Ex → Val → Val → W Val) (t : Nat) (a : Ex → FExpr) (c : Ex) : FExpr :=
  .flatMap (.ref t) (fun f => map (a c) (fun x => app c f x))

-- builder steps --------------------------------------------------------------------------------------------

/-- one method call shared by both builders (`ApplicativeFunctorN` has only these) -/
inductive AStep where
  | apFuture (a : Nat)                              -- an existing future handle
  | ap (v : Val)
  | apTry (t : Try Val)
  | apOption (o : Option Val)
  | apFutureFunc (s : Ex → FExpr)                   -- the supplier's own log is a `.logged` prefix of what it returns
  | apTryFunc (s : Ex → W (Try Val))
  | apOptionFunc (s : Ex → W (Option Val))
  | apFunc (s : Ex → W Val)

/-- one method call on `MonadChainN` -/
inductive Step where
  | a (s : AStep)
  | flatMap (k : Ex → Val → FExpr)                  -- gets the head
  | map (k : Ex → Val → W Val)
  | hlistFlatMap (k : Ex → Val → FExpr)             -- gets the whole hlist
  | hlistMap (k : Ex → Val → W Val)

/-- a supplier step as the future-returning supplier `ApFutureFunc` finally receives
    (`ApTryFunc(a) = ApFutureFunc(() => FromTry(a()))` …); `none` for the steps that pass a value -/
def AStep.supplier : AStep → Option (Ex → FExpr)
  | .apFutureFunc s => some s
  | .apTryFunc s => some (fun c => let (t, evs) := s c; .logged evs (fromTry t))
  | .apOptionFunc s => some (fun c => let (o, evs) := s c; .logged evs (fromOption o))
  | .apFunc s => some (fun c => let (v, evs) := s c; .logged evs (.successful v))
  | _ => none

/-- the future a value step hands to `ApFuture`: `a` itself, `FromTry(a)`, `FromOption(a)`, `Successful(a)` -/
def AStep.valueExpr : AStep → FExpr
  | .apFuture a => .ref a
  | .ap v => .successful v
  | .apTry t => fromTry t
  | .apOption o => fromOption o
  | _ => .failed .nil   -- not used: supplier steps go through `supplier`

-- MonadChainN -----------------------------------------------------------------------------------------------

/-- `MonadChainN[H, HT, A1…AN, R]{h fp.Future[H]; fn fp.Future[curried]}` -/
structure ChainSt where
  h : Nat
  fn : Nat

/-- the operand `av` (or `a`) a `MonadChainN` method hands to `r.ApFuture`; `c` = the `ctx` of the call.
    Same text at every receiver arity, the hand-written `MonadChain1` included. -/
def chainOperand (h : Nat) (c : Ex) : Step → FExpr
  | .a (.apFuture a) => .ref a
  | .a (.ap v) => .successful v                                   -- r.ApFuture(Successful(a))
  | .a (.apTry t) => fromTry t                                    -- r.ApFuture(FromTry(a))
  | .a (.apOption o) => fromOption o                              -- r.ApFuture(FromOption(a))
  | .a (.apFutureFunc s) => .flatMap (.ref h) (fun _ => s c)      -- av := FlatMap(r.h, _ => a(), ctx...)
  | .a (.apTryFunc s) => .flatMap (.ref h) (fun _ => let (t, evs) := s c; .logged evs (fromTry t))
  | .a (.apOptionFunc s) => .flatMap (.ref h) (fun _ => let (o, evs) := s c; .logged evs (fromOption o))
  | .a (.apFunc s) => map (.ref h) (fun _ => s c)                 -- av := Map(r.h, _ => a(), ctx...)
  | .flatMap k => .flatMap (.ref h) (fun v => k c (hhead v))      -- av := FlatMap(r.h, v => a(v.Head()), ctx...)
  | .map k => .flatMap (.ref h) (fun v => let (r, evs) := k c (hhead v); .logged evs (.successful r))
  | .hlistFlatMap k => .flatMap (.ref h) (fun v => k c v)
  | .hlistMap k => .flatMap (.ref h) (fun v => let (r, evs) := k c v; .logged evs (.successful r))

/-- `ChainN(fn) = MonadChainN{Successful(hlist.Empty()), Successful(curried.FuncN(fn))}` -/
def chainNew (n : Net) : ChainSt × Net :=
  let (h, n) := build (.successful (hl [])) n
  let (fn, n) := build (.successful (pa [])) n
  ({ h := h, fn := fn }, n)

/-- a method of the generated `MonadChainN`, N ≥ 2:
    `av := …; nh := Map2(av, r.h, hlist.Concat); return Next{nh, Ap(r.fn, av)}` (neither gets `ctx`) -/
def chainStep (app : Ex → Val → Val → W Val) (r : ChainSt) (c : Ex) (s : Step) (n : Net) : ChainSt × Net :=
  let (av, n) := build (chainOperand r.h c s) n
  let (nh, n) := build (map2 av r.h hconsW) n
  let (nfn, n) := build (ap app r.fn av .d) n
  ({ h := nh, fn := nfn }, n)

/-- a method of the hand-written `MonadChain1`: `av := …; return Ap(r.fn, av)` -/
def chainLast (app : Ex → Val → Val → W Val) (r : ChainSt) (c : Ex) (s : Step) (n : Net) : Nat × Net :=
  let (av, n) := build (chainOperand r.h c s) n
  build (ap app r.fn av .d) n

/-- the remaining method calls on a `MonadChainN` (N = number of remaining steps); the handle of the final
    future.  (An empty list is not a chain: the builder's `fn` is returned.) -/
def chainRun (app : Ex → Val → Val → W Val) : ChainSt → List (Ex × Step) → Net → Nat × Net
  | r, [], n => (r.fn, n)
  | r, [(c, s)], n => chainLast app r c s n
  | r, (c, s) :: rest, n =>
    let (r', n) := chainStep app r c s n
    chainRun app r' rest n

/-- `ChainN(fn).m1(…).….mN(…)`, N = `steps.length` -/
def runChain (fn : NFn) (steps : List (Ex × Step)) (n : Net) : Nat × Net :=
  let (r, n) := chainNew n
  chainRun (applyC steps.length fn) r steps n

-- ApplicativeFunctorN -------------------------------------------------------------------------------------------

/-- `ApplicativeN(fn) = ApplicativeFunctorN{Successful(curried.FuncN(fn))}` -/
def applicativeNew (n : Net) : Nat × Net := build (.successful (pa [])) n

/-- a method of `ApplicativeFunctorN`; the field `fn` of the next builder (the final future for N = 1).
    Value steps: `{Ap(r.fn, a)}` after building `FromTry(a)` / `FromOption(a)` / `Successful(a)`.
    Supplier steps: the generated receivers (N ≥ 2) call `ApFunc(r.fn, a)` WITHOUT `ctx`,
    the hand-written `ApplicativeFunctor1` calls `ApFunc(r.fn, a, ctx...)`. -/
def applicativeStep (app : Ex → Val → Val → W Val) (fn : Nat) (last : Bool) (c : Ex) (s : AStep) (n : Net) : Nat × Net :=
  match s.supplier with
  | some sup => build (apFunc app fn sup (if last then c else .d)) n
  | none =>
    let (a, n) := build s.valueExpr n
    build (ap app fn a .d) n

def applicativeRun (app : Ex → Val → Val → W Val) : Nat → List (Ex × AStep) → Net → Nat × Net
  | fn, [], n => (fn, n)
  | fn, [(c, s)], n => applicativeStep app fn true c s n
  | fn, (c, s) :: rest, n =>
    let (fn', n) := applicativeStep app fn false c s n
    applicativeRun app fn' rest n

/-- `ApplicativeN(fn).m1(…).….mN(…)` -/
def runApplicative (fn : NFn) (steps : List (Ex × AStep)) (n : Net) : Nat × Net :=
  let (r, n) := applicativeNew n
  applicativeRun (applyC steps.length fn) r steps n

-- func_gen.go ---------------------------------------------------------------------------------------------------

/-- `LiftAN(f, exec...)(ins1, …, insN)`: `FlatMap(ins1, a1 => LiftA(N-1)(f a1, exec...)(ins2, …), exec...)`,
    bottoming out in `LiftA2 = Map2 = FlatMap(a, v1 => Map(b, v2 => f(v1, v2)))` and `Lift = Map`:
    one `FlatMap` per operand, `f` applied inside the innermost one -/
def liftAFrom (f : List Val → W Val) : List Nat → List Val → FExpr
  | [], vs => let (r, evs) := f vs; .logged evs (.successful r)
  | p :: ps, vs => .flatMap (.ref p) (fun v => liftAFrom f ps (vs ++ [v]))

def liftA (f : NFn) (c : Ex) (ins : List Nat) : FExpr := liftAFrom (f c) ins []

/-- `Zip(c1, c2) = Map2(c1, c2, product.Tuple2)`, `Zip3 = LiftA3(as.Tuple3)(c1, c2, c3)` -/
def zipN (ins : List Nat) : FExpr := liftAFrom (fun vs => (.tup vs, [])) ins []

/-- `LiftMN(f, exec...)(ins1, …, insN)`: the same chain of `FlatMap`s for the first N-2 operands, then
    `LiftM2 = Flatten(Map2(a, b, f))` (for N = 1: `LiftM = Flatten(Map(a, f))`): the future `f` returns is wrapped
    as a value by `Map` and unwrapped by `Flatten` -/
def liftMFrom (f : List Val → FExpr) : List Nat → List Val → FExpr
  | [], vs => f vs
  | [a], vs => flatten (.flatMap (.ref a) (fun v => .successfulOf (f (vs ++ [v]))))
  | [a, b], vs =>
    flatten (.flatMap (.ref a) (fun v1 => .flatMap (.ref b) (fun v2 => .successfulOf (f (vs ++ [v1, v2])))))
  | p :: ps, vs => .flatMap (.ref p) (fun v => liftMFrom f ps (vs ++ [v]))

def liftMN (f : Ex → List Val → FExpr) (c : Ex) (ins : List Nat) : FExpr := liftMFrom (f c) ins []

/-- `LiftMN` with the innermost `Flatten(Map2(a, b, f))` read as `FlatMap(a, v1 => FlatMap(b, v2 => f(v1, v2)))`:
    the first-order reading (what `LiftMN` denotes; not what it builds) -/
def liftMFO (f : List Val → FExpr) : List Nat → List Val → FExpr
  | [], vs => f vs
  | p :: ps, vs => .flatMap (.ref p) (fun v => liftMFO f ps (vs ++ [v]))

/-- `FlapN(tf, exec...)(a1)…(aN)`: each application builds `Successful(a_i)` and `Ap(tf_i, ·)`; only the last one
    (`Flap`) passes `exec` on -/
def flapRun (app : Ex → Val → Val → W Val) (c : Ex) : Nat → List Val → Net → Nat × Net
  | tf, [], n => (tf, n)
  | tf, [x], n =>
    let (a, n) := build (.successful x) n
    build (ap app tf a c) n
  | tf, x :: xs, n =>
    let (a, n) := build (.successful x) n
    let (tf', n) := build (ap app tf a .d) n
    flapRun app c tf' xs n

/-- `MethodN(ta1, fa1, exec...)(a2, …, aN) = Map(ta1, a1 => fa1(a1, a2, …, aN), exec...)` (also `Method1`, `FlapMap`) -/
def methodN (ta : Nat) (f : NFn) (c : Ex) (rest : List Val) : FExpr :=
  map (.ref ta) (fun x => f c (x :: rest))

/-- `FlatMethodN(ta1, fa1, exec...)(a2, …, aN)`:
    N ≥ 3 (generated): `FlatMap(ta1, a1 => fa1(a1, a2, …), exec...)`;
    `FlatMethod2(ta, fabc)(b, c)` (hand-written, a 3-ary function like `FlatMethod3`): the same without any executor;
    `FlatMethod1(ta, fab, ctx...)(b) = Flatten(Map(ta, a => fab(a, b), ctx...))`: a future of a future -/
def flatMethodN (N : Nat) (ta : Nat) (f : Ex → List Val → FExpr) (c : Ex) (rest : List Val) : FExpr :=
  match N with
  | 1 => flatten (.flatMap (.ref ta) (fun x => .successfulOf (f c (x :: rest))))
  | 2 => .flatMap (.ref ta) (fun x => f .d (x :: rest))
  | _ => .flatMap (.ref ta) (fun x => f c (x :: rest))

/-- `FuncN(f, exec...)(a1, …, aN) = Apply2(() => f(a1, …, aN))` — `exec` is NOT passed on: the task runs on the
    default executor; `UnitN` likewise with a unit result -/
def funcN (f : Ex → List Val → W (Try Val)) (args : List Val) : FExpr := .apply (fun _ => f .d args)

/-- `ComposeN(f1, …, fN, exec...)(a) = Compose2(f1, Compose(N-1)(f2, …, fN, exec...), exec...)(a)` with
    `Compose2(f1, f2, exec...)(a) = FlatMap(f1(a), f2, exec...)`: `f1` is called by the caller itself (`cur = s`),
    every later function inside the task of the `FlatMap` before it -/
def composeN (c : Ex) : List (Ex → Val → FExpr) → Ex → Val → FExpr
  | [], _, a => .successful a
  | [f], cur, a => f cur a
  | f :: fs, cur, a => .flatMap (f cur a) (fun b => composeN c fs c b)

-- future_op.go: the remaining hand-written combinators ------------------------------------------------------------

/-- `future.Replace(ta, b) = Map(ta, fp.Const(b))` -/
def replace (ta : Nat) (b : Val) : FExpr := map (.ref ta) (fun _ => (b, []))

/-- `future.Ap(t, a, ctx...)` where the function future is `Map(h1, x => (y => fn(x, y)))` (built first, no executor):
    the two constructions of the harness's `apx` definition -/
def apRun (fn : NFn) (c : Ex) (h1 a : Nat) (n : Net) : Nat × Net :=
  let (t, n) := build (map (.ref h1) (fun x => (pa [x], []))) n
  build (ap (applyC 2 fn) t a c) n

/-- `future.ApFunc(t, a, ctx...)` with the same function future -/
def apFuncRun (fn : NFn) (c : Ex) (h1 : Nat) (a : Ex → FExpr) (n : Net) : Nat × Net :=
  let (t, n) := build (map (.ref h1) (fun x => (pa [x], []))) n
  build (apFunc (applyC 2 fn) t a c) n

/-- `future.With(withf, v, ctx...)(a) = Flap(Map(v, fp.Flip2(withf), ctx...), ctx...)(a)`: the `Map` is built by `With`,
    `Successful(a)` and `Ap(·, ·, ctx...)` when the result is applied; `withf(a, b)` runs inside `Ap`'s inner `Map` -/
def withRun (fn : NFn) (c : Ex) (v : Nat) (a : Val) (n : Net) : Nat × Net :=
  let (t, n) := build (map (.ref v) (fun b => (pa [b], []))) n
  let (x, n) := build (.successful a) n
  build (ap (fun c f x => fn c (x :: paArgs f)) t x c) n

/-- `ComposeTry(f1, f2, ctx...)(a) = FlatMap(FromTry(f1(a)), f2, ctx...)`: `f1` runs in the caller -/
def composeTry (f1 : Ex → Val → W (Try Val)) (f2 : Ex → Val → FExpr) (c : Ex) (a : Val) : FExpr :=
  let (t, evs) := f1 .s a
  .logged evs (.flatMap (fromTry t) (f2 c))

/-- `ComposeOption(f1, f2, ctx...)(a) = FlatMap(FromOption(f1(a)), f2, ctx...)` -/
def composeOption (f1 : Ex → Val → W (Option Val)) (f2 : Ex → Val → FExpr) (c : Ex) (a : Val) : FExpr :=
  let (o, evs) := f1 .s a
  .logged evs (.flatMap (fromOption o) (f2 c))

/-- `ComposePure(fab)(a) = Successful(fab(a))` -/
def composePure (f : Ex → Val → W Val) (a : Val) : FExpr :=
  let (r, evs) := f .s a
  .logged evs (.successful r)

def elems : Val → List Val
  | .seq l => l
  | _ => []

/-- `FlatMapTraverseSeq(ta, f, ctx...) = FlatMap(ta, xs => TraverseSeq(xs, f, ctx...), ctx...)` (also `…Slice`, which
    maps once more with `Widen`) -/
def flatMapTraverseSeq (ta : FExpr) (f : Val → FExpr) : FExpr :=
  .flatMap ta (fun xs => traverseSeq (elems xs) f)

/-- `MapSeqLift(ta, f, ctx...) = Map(ta, xs => xs.map(f), ctx...)`: every call of `f` inside ONE task, in order -/
def mapSeqLift (ta : FExpr) (f : Ex → Val → W Val) (c : Ex) : FExpr :=
  map ta (fun xs => let rs := (elems xs).map (f c); (.seq (rs.map (·.1)), (rs.map (·.2)).flatten))

/-- `Func0(f, ctx...)(unit) = Apply2(f, ctx...)` — unlike `FuncN` (N ≥ 1) the executor IS passed on -/
def func0 (f : Ex → List Val → W (Try Val)) (c : Ex) : FExpr := .apply (fun _ => f c [])

end FpVerif.Fut
