import FpVerif.Model.MonadFamily
import FpVerif.Model.Memo
/-!
# The function monads `fn0` / `fn1` (fn0/fn0.go, fn1/fn1.go, fn1/arrow1.go) — the reader monad

A Go function value `fp.Func1[X, A]` is a closure whose body may have effects: it is modelled as
`X → m A` for an effect monad `m`.  Two instances of `m` are used:

* `GoM` (panic + event log, `FpVerif/Base.lean`) — what every other model of C01 uses for user callbacks;
  the `MonadOps` instance of the reader carrier `fun Y => X → GoM Y` lives here (`FnM.ops`);
* `GoS V` = `GoM` + a heap of memo cells (the closure-private `once` / `ret` variables that every call of
  `fn1.Memoize` allocates).  The oracle runs everything in `GoS Val`, so that a memoised function may sit
  anywhere inside an expression (and may be constructed inside a callback, i.e. at call time).

The definitions mirror the Go bodies one to one:

```go
func Pure[X, A any](v A) fp.Func1[X, A]        { return fp.Const[X](v) }
func Map(m, fn)                                  { return fp.Compose(m, fn) }          // f2(f1(a))
func FlatMap(m, fn)                              { return Flatten(Map(m, fn)) }
func Flatten(m) { return func(u X) A { return m(u)(u) } }
func Get[X]()   { return func(x X) X { return x } }
func WithArg(fn){ return FlatMap(Get[X](), fn) }
```

`m(u)(u)`: `m(u)` is EVALUATED first — that evaluation may itself log and panic — and yields a function
value, which is then applied to the same `u`.  Hence a function returning functions is
`X → m (X → m A)` and `flatten` binds twice.  Building a combinator (calling `fn1.Map`, …) runs no user
code; only applying the resulting function does.  The single exception is `Memoize`, whose construction
allocates the cell (`memoize : GoS V (A → GoS V V)`).
-/
namespace FpVerif

-- =========================================================================================== fn1
namespace FnM
variable {m : Type → Type} [Monad m] {X A B C D : Type}

/-- `fp.Func1[X, A]`, body with effects in `m`. -/
abbrev Fn (m : Type → Type) (X A : Type) := X → m A

/-- `fp.Const[X](v)`: `func(b X) A { return a }` -/
def const (v : A) : Fn m X A := fun _ => Pure.pure v

/-- `fp.Compose(f1, f2)`: `func(a A) C { return f2(f1(a)) }` — `f1` runs first. -/
def compose (f1 : Fn m A B) (f2 : Fn m B C) : Fn m A C := fun a => do
  let b ← f1 a
  f2 b

/-- `fp.Id` -/
def id' : Fn m A A := fun a => Pure.pure a

/-- `fn1.Pure` -/
def pure (v : A) : Fn m X A := const v

/-- `fn1.Map` -/
def map (mm : Fn m X A) (fn : Fn m A B) : Fn m X B := compose mm fn

/-- `fn1.Flatten`: `func(u X) A { return m(u)(u) }` -/
def flatten (mm : Fn m X (Fn m X A)) : Fn m X A := fun u => do
  let g ← mm u          -- m(u): evaluates to a function value (may log / panic)
  g u                   -- … which is applied to the same u

/-- `fn1.FlatMap` -/
def flatMap (mm : Fn m X A) (fn : Fn m A (Fn m X B)) : Fn m X B := flatten (map mm fn)

/-- `fn1.Get` -/
def get : Fn m X X := fun x => Pure.pure x

/-- `fn1.WithArg` -/
def withArg (fn : Fn m X (Fn m X A)) : Fn m X A := flatMap get fn

-- arrow1.go ---------------------------------------------------------------------------------------
-- Go functions with two parameters / two results: `func(B, D) (C, D)` is `B → D → m (C × D)`.
-- `return f1(a), f2(c)` evaluates its operands left to right.

/-- `fn1.First`: `func(b, d) { return f(b), d }` -/
def first (f : Fn m B C) : B → D → m (C × D) := fun b d => do
  let c ← f b
  Pure.pure (c, d)

/-- `fn1.Second`: `func(d, b) { return d, f(b) }` -/
def second (f : Fn m B C) : D → B → m (D × C) := fun d b => do
  let c ← f b
  Pure.pure (d, c)

/-- `fn1.Split` (`***`): `func(a, c) { return f1(a), f2(c) }` — `f1` first. -/
def split (f1 : Fn m A B) (f2 : Fn m C D) : A → C → m (B × D) := fun a c => do
  let b ← f1 a
  let d ← f2 c
  Pure.pure (b, d)

/-- `fn1.Merge` (`&&&`): `func(a) { return f1(a), f2(a) }` — `f1` first. -/
def merge (f1 : Fn m A B) (f2 : Fn m A C) : A → m (B × C) := fun a => do
  let b ← f1 a
  let c ← f2 a
  Pure.pure (b, c)

/-- `fn1.Merge2`: `fp.Tuple2{I1: f1(a), I2: f2(a)}` — fields in source order. -/
def merge2 (f1 : Fn m A B) (f2 : Fn m A C) : A → m (B × C) := fun a => do
  let i1 ← f1 a
  let i2 ← f2 a
  Pure.pure (i1, i2)

/-- `fn1`'s `FlatMap`/`Pure` in the signature of the generated monad family (`Model/MonadFamily.lean`),
    carrier `fun Y => X → GoM Y`.  As for `StateT`, a callback `func(A) fp.Func1[X, B]` with its own
    effects is the joined `A → X → GoM B` (`joinK`). -/
def ops (X : Type) : MonadOps (fun Y => X → GoM Y) where
  pure' a := pure a
  seq g k := fun u => do let a ← g; k a u
  flatMap mm k := flatMap mm (fun a => Pure.pure (k a))

/-- a Go callback `func(A) fp.Func1[X, B]` (it may log/panic before it returns the function) seen as a
    continuation of the carrier -/
def joinK (fn : A → GoM (X → GoM B)) : A → X → GoM B := fun a u => do
  let g ← fn a
  g u

end FnM

-- =========================================================================================== fn0
/-! `fp.Func0[A] = Func1[Unit, A]`; package `fn0` repeats the four core functions. -/
namespace Fn0M
variable {m : Type → Type} [Monad m] {A B : Type}

abbrev Fn0 (m : Type → Type) (A : Type) := Unit → m A

/-- `fn0.Pure`: `func(a1 fp.Unit) A { return v }` -/
def pure (v : A) : Fn0 m A := fun _ => Pure.pure v

/-- `fn0.Map`: `fp.Compose(m, fn)` -/
def map (mm : Fn0 m A) (fn : A → m B) : Fn0 m B := FnM.compose mm fn

/-- `fn0.Flatten`: `func(u fp.Unit) A { return m(u)(u) }` -/
def flatten (mm : Fn0 m (Fn0 m A)) : Fn0 m A := fun u => do
  let g ← mm u
  g u

/-- `fn0.FlatMap` -/
def flatMap (mm : Fn0 m A) (fn : A → m (Fn0 m B)) : Fn0 m B := flatten (map mm fn)

/-- `Func0.Apply`: `r(Unit{})` -/
def apply (r : Fn0 m A) : m A := r ()

end Fn0M

-- =========================================================================================== Memoize
/-!
## `fn1.Memoize`

```go
func Memoize[A, B any](f func(A) B) fp.Func1[A, B] {
	once := sync.Once{}
	var ret B
	return func(a A) B {
		once.Do(func() { ret = f(a) })
		return ret
	}
}
```
`sync.Once.Do(f)`: `if o.done == 0 { defer o.done.Store(1); f() }` — `done` is set even when `f` panics, so
after a panicking first call every later call returns `ret`, which still is the zero value of `B`.
-/
namespace FnM

/-- the two variables captured by the closure `Memoize` returns -/
structure Cell (V : Type) where
  done : Bool        -- `once` has fired
  ret : V            -- `var ret B`: the zero value until `f` has returned
  deriving Repr

/-- `GoM` + heap of memo cells.  The heap (like the log) survives a panic. -/
abbrev GoS (V : Type) := ExceptT PanicVal (StateM (List Event × List (Cell V)))

variable {V A α : Type}

/-- a computation without access to the cells (a user callback) -/
def liftG (g : GoM α) : GoS V α :=
  ExceptT.mk (fun s => let r := g.run.run s.1; (r.1, (r.2, s.2)))

def emitS (e : Event) : GoS V Unit := modify (fun s => (s.1 ++ [e], s.2))

/-- `once := sync.Once{}; var ret B` -/
def allocCell (zero : V) : GoS V Nat := do
  let s ← MonadState.get
  set (s.1, s.2 ++ [({ done := false, ret := zero } : Cell V)])
  Pure.pure s.2.length

def cellDone (i : Nat) : GoS V Bool := do
  let s ← MonadState.get
  Pure.pure (match s.2[i]? with | some c => c.done | none => true)

def setDone (i : Nat) : GoS V Unit :=
  modify (fun s => (s.1, s.2.modify i (fun c => { c with done := true })))

def setRet (i : Nat) (v : V) : GoS V Unit :=
  modify (fun s => (s.1, s.2.modify i (fun c => { c with ret := v })))

def getRet (zero : V) (i : Nat) : GoS V V := do
  let s ← MonadState.get
  Pure.pure (match s.2[i]? with | some c => c.ret | none => zero)

/-- `once.Do(body)` (sequential semantics): nothing when done; otherwise run `body` and set `done`
    afterwards — also on the panic path (`defer o.done.Store(1)`), re-raising the panic. -/
def onceDo (i : Nat) (body : GoS V Unit) : GoS V Unit := do
  if ← cellDone i then Pure.pure ()
  else
    tryCatch body (fun p => do setDone i; throw p)
    setDone i

/-- the closure returned by `Memoize`, its variables living in cell `i` -/
def memoFn (zero : V) (f : A → GoS V V) (i : Nat) : A → GoS V V := fun a => do
  onceDo i (do let b ← f a; setRet i b)      -- once.Do(func() { ret = f(a) })
  getRet zero i                               -- return ret

/-- `fn1.Memoize(f)`; `zero` is the zero value of `B`. -/
def memoize (zero : V) (f : A → GoS V V) : GoS V (A → GoS V V) := do
  let i ← allocCell zero
  Pure.pure (memoFn zero f i)

/-- a top-level call under `recover()`: the outcome becomes a value, log and cells are kept -/
def attempt (c : GoS V α) : GoS V (Except PanicVal α) :=
  tryCatch (do let a ← c; Pure.pure (.ok a)) (fun p => Pure.pure (.error p))

/-- apply a function to a list of arguments, one recovered call after the other -/
def calls (f : A → GoS V α) : List A → GoS V (List (Except PanicVal α))
  | [] => Pure.pure []
  | a :: as => do
    let r ← attempt (f a)
    let rs ← calls f as
    Pure.pure (r :: rs)

/-- run from an empty log and an empty heap -/
def GoS.exec (c : GoS V α) : Except PanicVal α × List Event × List (Cell V) := c.run.run ([], [])

/-- the cell as the `Option` cell of `Model/Memo.lean` -/
def Cell.view (c : Cell V) : Option V := if c.done then some c.ret else none

-- concurrent callers ----------------------------------------------------------------------------------

/-- `Model/Memo.lean`'s interleaving model of `sync.Once`, with one difference: every thread passes its
    own argument, so the value stored is the one computed for the thread that won the race
    (`vals i = f (args i)`, `f` pure here). -/
def stepArg {T : Type} (vals : Nat → T) (s : Memo.Sys T) (i : Nat) : Memo.Sys T :=
  match s.threads[i]? with
  | some .idle =>
    match s.cell with
    | some r => { s with threads := s.threads.set i (.returned r) }
    | none =>
      if s.busy then { s with threads := s.threads.set i .waiting }
      else { s with busy := true, threads := s.threads.set i .running }
  | some .running =>
    { cell := some (vals i), busy := false, runs := s.runs + 1, threads := s.threads.set i (.returned (vals i)) }
  | some .waiting =>
    match s.cell with
    | some r => { s with threads := s.threads.set i (.returned r) }
    | none =>
      if s.busy then s
      else { s with busy := true, threads := s.threads.set i .running }
  | _ => s

def runSchedArg {T : Type} (vals : Nat → T) (s : Memo.Sys T) (sched : List Nat) : Memo.Sys T :=
  sched.foldl (stepArg vals) s

end FnM
end FpVerif
