import FpVerif.Model.IterM
/-!
# The collection monads `seq`, `iterator`, `list`: FlatMap / unit and the derived combinators

Model of the monad part of `seq/seq_op.go`, `iterator/iterator_op.go` (the lazy `list` part is in
`Model/CollList.lean`).  Every definition mirrors the Go function of the same name: the derived
combinators are DEFINED through `FlatMap` / `Map` / `Of` exactly as the Go source defines them.

* `Seq`: a `fp.Seq[T]` is a `List`; user callbacks are `α → GoM β` (they may log and panic);
  `seqFlatMap` / `seqMap` are the Go loops (callback per element, left to right, results appended).
* `Iterator`: machines over `Model/IterM.lean`.  `iterator.Ap`, `Map2`, `Flap`, `Flap2`, `FlapMap`,
  `Method1`, `Method2` hand ONE one-shot iterator (`a` resp. `b` resp. `Of(a)`) to the FlatMap
  continuation `v => Map(shared, h v)`; it is the same Go object for every outer element, so its
  state is part of the combinator's state, not of `current`: `flatMapShared`.

Values of function type that travel as ELEMENTS of a collection (`Seq[Func1[A,B]]`, the results of
`as.Curried2`, …) are applied through a parameter `app : φ → α → GoM β` (`φ` = the representation of
the function values; in the theorems `φ = α → GoM β` and `app = id` is one instance, the oracle uses
the first-order `Fn`).
-/
namespace FpVerif.Coll
open FpVerif FpVerif.It

variable {σ σ₂ τ τ₂ α β γ δ φ φ₂ : Type}

/-! ## package `seq` -/

/-- the loop of `seq.FlatMap`: `for _, v := range opt { ret = append(ret, fn(v)...) }` -/
def seqFlatMapLoop (fn : α → GoM (List β)) : List α → List β → GoM (List β)
  | [], ret => pure ret
  | v :: rest, ret => do
    let r ← fn v
    seqFlatMapLoop fn rest (ret ++ r)

/-- `seq.FlatMap(opt, fn)` -/
def seqFlatMap (opt : List α) (fn : α → GoM (List β)) : GoM (List β) :=
  seqFlatMapLoop fn opt []

/-- the loop of `seq.Map`: `for i, v := range opt { ret[i] = fn(v) }` -/
def seqMapLoop (fn : α → GoM β) : List α → List β → GoM (List β)
  | [], ret => pure ret
  | v :: rest, ret => do
    let u ← fn v
    seqMapLoop fn rest (ret ++ [u])

/-- `seq.Map(opt, fn)` -/
def seqMap (opt : List α) (fn : α → GoM β) : GoM (List β) :=
  seqMapLoop fn opt []

/-- `seq.Pure(v)` -/
def seqPure (v : α) : List α := [v]

/-- `seq.Of(list...)` -/
def seqOf (list : List α) : List α := list

/-- `seq.Ap(t, a) = FlatMap(t, f => Map(a, f))` -/
def seqAp (app : φ → α → GoM β) (t : List φ) (a : List α) : GoM (List β) :=
  seqFlatMap t (fun f => seqMap a (app f))

/-- `seq.Map2(a, b, f) = FlatMap(a, v1 => Map(b, v2 => f(v1, v2)))` -/
def seqMap2 (a : List α) (b : List β) (f : α → β → GoM γ) : GoM (List γ) :=
  seqFlatMap a (fun v1 => seqMap b (fun v2 => f v1 v2))

/-- `option.ToSeq` -/
def optionToSeq : Option α → List α
  | some v => [v]
  | none => []

/-- `seq.FilterMap(opt, fn) = FlatMap(opt, fp.Compose(fn, option.ToSeq))` -/
def seqFilterMap (opt : List α) (fn : α → GoM (Option β)) : GoM (List β) :=
  seqFlatMap opt (fun v => do let o ← fn v; pure (optionToSeq o))

/-- `seq.Lift(f) = opt => Map(opt, f)` -/
def seqLift (f : α → GoM β) : List α → GoM (List β) :=
  fun opt => seqMap opt f

/-- `seq.LiftM(f) = opt => FlatMap(opt, f)` -/
def seqLiftM (f : α → GoM (List β)) : List α → GoM (List β) :=
  fun opt => seqFlatMap opt f

/-- `seq.Compose(f1, f2) = a => FlatMap(f1(a), f2)` (`f1(a)` is evaluated first) -/
def seqCompose (f1 : α → GoM (List β)) (f2 : β → GoM (List γ)) : α → GoM (List γ) :=
  fun a => do
    let l ← f1 a
    seqFlatMap l f2

/-- `seq.ComposePure(fab) = a => Of(fab(a))` -/
def seqComposePure (fab : α → GoM β) : α → GoM (List β) :=
  fun a => do
    let b ← fab a
    pure (seqOf [b])

/-- `seq.Flatten(opt) = FlatMap(opt, v => v)` -/
def seqFlatten (opt : List (List α)) : GoM (List α) :=
  seqFlatMap opt (fun v => pure v)

/-- `Seq.Concat(tail)`: contents -/
def seqConcatM (r tail : List α) : List α :=
  if tail.length > 0 then r ++ tail else r

/-- `seq.Concat(head, tail) = Of(head).Concat(tail)` -/
def seqConcat (head : α) (tail : List α) : List α :=
  seqConcatM (seqOf [head]) tail

/-! ## package `iterator` -/

/-- `fp.IteratorOfSeq(r)` with the slice (and the harness's optional instrumentation tag) in the
    state: the iterators that callbacks create (`iterator.Of(...)` returned by a Kleisli function)
    and iterators that are ELEMENTS of an iterator. -/
structure SrcSt (α : Type) where
  tag : Option Nat
  xs : List α
  idx : Nat

def srcS (ev : Nat → α → Event) : Machine (SrcSt α) α where
  hasNext := do
    let s ← IM.get
    pure (decide (s.idx < s.xs.length))
  next := do
    let s ← IM.get
    match s.xs[s.idx]? with
    | some ret =>
      IM.set { s with idx := s.idx + 1 }
      match s.tag with
      | some t => IM.liftG (emit (ev t ret))
      | none => pure ()
      pure ret
    | none => IM.panic nextOnEmpty

/-- the `for opt.HasNext()` loop of `FlatMap` when `fn(v) = Map(shared, h v)`:
    `nextItr.HasNext()` is `shared.HasNext()`. -/
def sharedLoop (outer : Machine σ φ) (shared : Machine σ₂ α) :
    Nat → IM ((σ × σ₂) × Option φ) Bool
  | 0 => IM.panic outOfFuel
  | fuel + 1 => do
    if ← IM.onFst (IM.onFst outer.hasNext) then
      let v ← IM.onFst (IM.onFst outer.next)
      -- nextItr := fn(v) = Map(shared, h v): builds two closures, pulls nothing
      IM.onSnd (IM.set (some v))
      if ← IM.onFst (IM.onSnd shared.hasNext) then return true
      sharedLoop outer shared fuel
    else return false

/-- `FlatMap(outer, v => Map(shared, x => h v x))` where `shared` is one iterator captured by the
    continuation.  Captured variables: `outer`, `shared`, `current` (identified by the `v` it was
    built from). -/
def flatMapShared (fuel : Nat) (h : φ → α → GoM β) (outer : Machine σ φ) (shared : Machine σ₂ α) :
    Machine ((σ × σ₂) × Option φ) β :=
  let hasNext : IM ((σ × σ₂) × Option φ) Bool := do
    -- current.IsDefined() && current.Get().HasNext()
    let cur ← IM.onSnd IM.get
    if cur.isSome then
      if ← IM.onFst (IM.onSnd shared.hasNext) then return true
    sharedLoop outer shared fuel
  { hasNext := hasNext
    next := do
      if ← hasNext then
        match ← IM.onSnd IM.get with
        | some v =>
          -- current.Get().Next() = fn(opt.Next()) of Map
          let x ← IM.onFst (IM.onSnd shared.next)
          IM.liftG (h v x)
        | none => IM.panic "Option.empty"
      else IM.panic nextOnEmpty }

/-- `iterator.Ap(t, a) = FlatMap(t, f => Map(a, f))` -/
def itAp (fuel : Nat) (app : φ → α → GoM β) (t : Machine σ φ) (a : Machine σ₂ α) :
    Machine ((σ × σ₂) × Option φ) β :=
  flatMapShared fuel app t a

/-- `iterator.Map2(a, b, f) = FlatMap(a, v1 => Map(b, v2 => f(v1, v2)))` -/
def itMap2 (fuel : Nat) (a : Machine σ α) (b : Machine σ₂ β) (f : α → β → GoM γ) :
    Machine ((σ × σ₂) × Option α) γ :=
  flatMapShared fuel (fun v1 v2 => f v1 v2) a b

/-- `iterator.Lift(f) = opt => Map(opt, f)` -/
def itLift (f : α → GoM β) : Machine σ α → Machine σ β :=
  fun opt => It.map f opt

/-- `iterator.Compose(f1, f2) = a => FlatMap(f1(a), f2)`: the machine … -/
def itCompose (fuel : Nat) (inner1 : Machine τ β) (f2 : β → GoM τ₂) (inner2 : Machine τ₂ γ) :
    Machine (τ × Option τ₂) γ :=
  It.flatMap fuel f2 inner2 inner1

/-- … and its construction: `f1(a)` is called when the composed function is applied. -/
def itComposeInit (f1 : α → GoM τ) (a : α) : GoM (τ × Option τ₂) := do
  let s ← f1 a
  pure (s, none)

/-- `iterator.ComposePure(fab) = a => Of(fab(a))`: construction (the machine is `srcS`). -/
def itComposePureInit (fab : α → GoM β) (a : α) : GoM (SrcSt β) := do
  let b ← fab a
  pure { tag := none, xs := [b], idx := 0 }

/-- `iterator.Flatten(opt) = FlatMap(opt, v => v)`; an element is an iterator, i.e. a state of
    `inner`. -/
def itFlatten (fuel : Nat) (inner : Machine τ β) (opt : Machine σ τ) : Machine (σ × Option τ) β :=
  It.flatMap fuel (fun v => pure v) inner opt

/-- `iterator.Flap(tfa) = a => Ap(tfa, Of(a))` -/
def itFlap (fuel : Nat) (app : φ → α → GoM β) (tfa : Machine σ φ) (a : α) :
    Machine ((σ × Nat) × Option φ) β :=
  itAp fuel app tfa (ofSeq none [a])

/-- `iterator.Flap2(tfab) = a => b => Flap(Ap(tfab, Of(a)))(b)` -/
def itFlap2 (fuel : Nat) (app1 : φ₂ → α → GoM φ) (app2 : φ → β → GoM γ) (tfab : Machine σ φ₂)
    (a : α) (b : β) : Machine ((((σ × Nat) × Option φ₂) × Nat) × Option φ) γ :=
  itFlap fuel app2 (itAp fuel app1 tfab (ofSeq none [a])) b

/-- `iterator.FlapMap(tfab, a) = Flap(Map(a, as.Curried2(tfab)))`; `cur` is `as.Curried2(tfab)`
    (building a closure: no effect). -/
def itFlapMap (fuel : Nat) (cur : α → φ) (app : φ → β → GoM γ) (a : Machine σ α) (b : β) :
    Machine ((σ × Nat) × Option φ) γ :=
  itFlap fuel app (It.map (fun x => pure (cur x)) a) b

/-- `iterator.Method1(ta, fab) = FlapMap(fab, ta)` -/
def itMethod1 (fuel : Nat) (ta : Machine σ α) (cur : α → φ) (app : φ → β → GoM γ) (b : β) :
    Machine ((σ × Nat) × Option φ) γ :=
  itFlapMap fuel cur app ta b

/-- `iterator.Method2(ta, fabc) = curried.Revert2(Flap2(Map(ta, as.Curried3(fabc))))` -/
def itMethod2 (fuel : Nat) (ta : Machine σ α) (cur3 : α → φ₂) (app1 : φ₂ → β → GoM φ)
    (app2 : φ → γ → GoM δ) (b : β) (c : γ) :
    Machine ((((σ × Nat) × Option φ₂) × Nat) × Option φ) δ :=
  itFlap2 fuel app1 app2 (It.map (fun x => pure (cur3 x)) ta) b c

end FpVerif.Coll
