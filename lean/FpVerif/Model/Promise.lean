import FpVerif.Base
import FpVerif.Model.Sched
/-!
# Model of `fp.Promise` (future.go) at the granularity of its atomic operations.

```go
type Promise[T any] struct{ status atomic.Reference }   // nil | []onCompleteFunc[T] | Try[T]

func (r Promise[T]) tryCompleteAndGetListeners(v Try[T]) (bool, []onCompleteFunc[T]) {
	ap := r.status.Get()                                  // yield "get"
	switch status := ap.Value().(type) {
	case nil:                 if r.status.CompareAndSwap(ap, v) { return true, nil }     // yield "cas"
	                          return r.tryCompleteAndGetListeners(v)
	case []onCompleteFunc[T]: if r.status.CompareAndSwap(ap, v) { return true, status }  // yield "cas"
	                          return r.tryCompleteAndGetListeners(v)
	case Try[T]:              return false, nil
	}
}
func (r Promise[T]) Complete(result Try[T]) bool {
	if r.status == nil { return false }                   // zero value
	ret, cbs := r.tryCompleteAndGetListeners(result)
	for _, cf := range cbs { cf(result) }                 // each cf hands a task to the executor: yield "spawn"
	return ret
}
func (r Promise[T]) dispatchOrAddCallback(cb onCompleteFunc[T]) {
	if r.status == nil { return }                         // zero value
	ap := r.status.Get()                                  // yield "get"
	switch status := ap.Value().(type) {
	case nil:                 if r.status.CompareAndSwap(ap, []onCompleteFunc[T]{cb}) { return }   // yield "cas"
	                          r.dispatchOrAddCallback(cb); return
	case []onCompleteFunc[T]: // yield "append"
	                          if r.status.CompareAndSwap(ap, append(status, cb)) { return }        // yield "cas"
	                          r.dispatchOrAddCallback(cb); return
	case Try[T]:              cb(status)                  // yield "spawn"
	}
}
```

The shared cell holds `nil`, a callback SLICE or the result.  `CompareAndSwap` compares the
identity of the `*ValuePtr` read by `Get` with the current one; identities are modelled by a
version number that every successful CAS renews (a thread keeps the pointer it read, so the
garbage collector cannot recycle it: no ABA).  A Go slice is a header `(array, len, cap)` into a
heap of backing arrays: `append(s, x)` WRITES IN PLACE into the shared array when `len < cap`
and copies only when `len = cap`.  That is what the `Variant.asIs` model does; the repaired
algorithm (`Variant.copyFirst`, Go: `append(status[:len(status):len(status)], cb)`) always copies.
-/
namespace FpVerif.Promise
open FpVerif FpVerif.Sched

/-- which results a registered callback wants to see (`OnComplete` / `OnSuccess`,`Foreach` / `OnFailure`) -/
inductive Filter where
  | all | succ | fail
  deriving DecidableEq, Repr, Inhabited

structure Cb where
  id : Nat
  filter : Filter
  deriving DecidableEq, Repr, Inhabited

/-- does the user callback behind `cb` fire on result `r`?  (the wrapper closure installed by
    `OnSuccess`/`OnFailure` tests `IsSuccess` inside the spawned task) -/
def Cb.wants {α : Type} (cb : Cb) (r : Try α) : Bool :=
  match cb.filter with
  | .all => true
  | .succ => r.isSuccess
  | .fail => !r.isSuccess

/-- a Go slice header -/
structure Slice where
  arr : Nat
  len : Nat
  cap : Nat
  deriving DecidableEq, Repr, Inhabited

inductive Cell (R : Type) where
  | nil
  | cbs (s : Slice)
  | done (r : R)
  deriving DecidableEq, Repr, Inhabited

inductive Variant where
  | asIs       -- future.go as written
  | copyFirst  -- minimal repair: never append in place
  deriving DecidableEq, Repr, Inhabited

abbrev Heap := List (List (Option Cb))

structure Shared (R : Type) where
  cell : Cell R
  /-- identity of the `*ValuePtr` currently stored in `status` (0 = the initial nil pointer) -/
  ver : Nat
  heap : Heap
  /-- callback invocations (tasks handed to the executor), in order -/
  log : List (Cb × R)
  deriving DecidableEq, Repr, Inhabited

inductive Prog (R : Type) where
  | complete (r : R)
  | register (cb : Cb)
  /-- `Future.String()`: `IsCompleted()` and, if true, `Value()` -/
  | observe
  deriving DecidableEq, Repr, Inhabited

/-- what the type switch of `tryCompleteAndGetListeners` captured -/
inductive Capt where
  | nil
  | cbs (s : Slice)
  deriving DecidableEq, Repr, Inhabited

inductive Local (R : Type) where
  | cGet (r : R)
  | cCas (r : R) (ap : Nat) (c : Capt)
  /-- inside `for _, cf := range cbs { cf(result) }`: `cb = cbs[i]` has been fetched and called, the
      call is parked at its "spawn" yield -/
  | cRun (r : R) (s : Slice) (i : Nat) (cb : Cb)
  | cRet (r : R) (b : Bool)
  | rGet (cb : Cb)
  | rAppend (cb : Cb) (ap : Nat) (s : Slice)
  | rCas (cb : Cb) (ap : Nat) (new : Slice)
  | rCall (cb : Cb) (r : R)
  | rRet (cb : Cb)
  | oLoad1
  | oLoad2
  | oRet (v : Option R)
  /-- the thread died: called a nil func / "Promise not completed" -/
  | panicked (p : Prog R)
  deriving DecidableEq, Repr, Inhabited

/-! ### the slice heap -/

def arrayAt (h : Heap) (a : Nat) : List (Option Cb) := (h[a]?).getD []

def readSlot (h : Heap) (a i : Nat) : Option Cb := ((arrayAt h a)[i]?).getD none

/-- the elements a slice header denotes -/
def resolve (h : Heap) (s : Slice) : List (Option Cb) := (arrayAt h s.arr).take s.len

/-- Go's growth policy for 8-byte elements below 256 elements: double -/
def growCap (len : Nat) : Nat := if len = 0 then 1 else 2 * len

/-- allocate a fresh array holding `elems ++ [cb]` (plus spare capacity) -/
def allocCopy (h : Heap) (elems : List (Option Cb)) (cb : Cb) : Heap × Slice :=
  let n := elems.length
  (h ++ [elems ++ [some cb] ++ List.replicate (growCap n - (n + 1)) none],
   ⟨h.length, n + 1, growCap n⟩)

/-- `append(s, cb)` -/
def goAppend (v : Variant) (h : Heap) (s : Slice) (cb : Cb) : Heap × Slice :=
  match v with
  | .asIs =>
    if s.len < s.cap then
      (h.set s.arr ((arrayAt h s.arr).set s.len (some cb)), { s with len := s.len + 1 })
    else allocCopy h (resolve h s) cb
  | .copyFirst => allocCopy h (resolve h s) cb

/-! ### one atomic block of one thread -/

variable {R : Type}

/-- iteration `i` of `for _, cf := range cbs { cf(result) }`: fetch `cbs[i]` from the backing array
    (at this moment) and call it — the call runs up to its "spawn" yield; calling a nil func panics -/
def enterRun (h : Heap) (r : R) (s : Slice) (i : Nat) : Local R :=
  if i < s.len then
    match readSlot h s.arr i with
    | some cb => .cRun r s i cb
    | none => .panicked (.complete r)
  else .cRet r true

def stepT (v : Variant) (sh : Shared R) : Local R → Option (Shared R × Local R)
  -- Complete ---------------------------------------------------------------------------------
  | .cGet r =>
    match sh.cell with
    | .nil => some (sh, .cCas r sh.ver .nil)
    | .cbs s => some (sh, .cCas r sh.ver (.cbs s))
    | .done _ => some (sh, .cRet r false)
  | .cCas r ap c =>
    if ap = sh.ver then
      let sh' := { sh with cell := .done r, ver := sh.ver + 1 }
      match c with
      | .nil => some (sh', .cRet r true)
      | .cbs s => some (sh', enterRun sh.heap r s 0)
    else some (sh, .cGet r)
  | .cRun r s i cb =>
    -- the task of `cb` runs; the loop fetches and calls the next element
    some ({ sh with log := sh.log ++ [(cb, r)] }, enterRun sh.heap r s (i + 1))
  | .cRet _ _ => none
  -- dispatchOrAddCallback ---------------------------------------------------------------------
  | .rGet cb =>
    match sh.cell with
    | .nil =>
      let p := allocCopy sh.heap [] cb
      some ({ sh with heap := p.1 }, .rCas cb sh.ver p.2)
    | .cbs s => some (sh, .rAppend cb sh.ver s)
    | .done r => some (sh, .rCall cb r)
  | .rAppend cb ap s =>
    let p := goAppend v sh.heap s cb
    some ({ sh with heap := p.1 }, .rCas cb ap p.2)
  | .rCas cb ap new =>
    if ap = sh.ver then some ({ sh with cell := .cbs new, ver := sh.ver + 1 }, .rRet cb)
    else some (sh, .rGet cb)
  | .rCall cb r => some ({ sh with log := sh.log ++ [(cb, r)] }, .rRet cb)
  | .rRet _ => none
  -- IsCompleted(); Value() -----------------------------------------------------------------------
  | .oLoad1 =>
    match sh.cell with
    | .done _ => some (sh, .oLoad2)
    | _ => some (sh, .oRet none)
  | .oLoad2 =>
    match sh.cell with
    | .done r => some (sh, .oRet (some r))
    | _ => some (sh, .panicked .observe)
  | .oRet _ => none
  | .panicked _ => none

abbrev PSys (R : Type) := Sys (Shared R) (Local R)

/-- thread state at its first yield point.  On a zero-value Promise (`status == nil`) every
    method returns before touching anything. -/
def Prog.start (zero : Bool) : Prog R → Local R
  | .complete r => if zero then .cRet r false else .cGet r
  | .register cb => if zero then .rRet cb else .rGet cb
  | .observe => if zero then .oRet none else .oLoad1

def emptyShared : Shared R := ⟨.nil, 0, [], []⟩

/-- a fresh promise (`NewPromise`, or the zero value when `zero`) and its threads -/
def init (zero : Bool) (progs : List (Prog R)) : PSys R :=
  ⟨emptyShared, progs.map (Prog.start zero)⟩

abbrev prun (v : Variant) (s : PSys R) (sched : List Tid) : PSys R := run (stepT v) s sched

/-! ### observables -/

def Local.finished : Local R → Bool
  | .cRet .. | .rRet _ | .oRet _ | .panicked _ => true
  | _ => false

def allFinished (s : PSys R) : Bool := s.threads.all Local.finished

/-- user-visible deliveries: the invocations whose filter accepts the result -/
def delivered {α : Type} (log : List (Cb × Try α)) : List (Cb × Try α) :=
  log.filter (fun p => p.1.wants p.2)

/-- the callbacks the programs register, in thread order -/
def regCbs : List (Prog R) → List Cb
  | [] => []
  | .register cb :: ps => cb :: regCbs ps
  | _ :: ps => regCbs ps

def Prog.isComplete : Prog R → Bool
  | .complete _ => true
  | _ => false

/-- how often callback `cb` was invoked -/
def invocations (cb : Cb) (s : PSys R) : Nat := (s.shared.log.map (·.1)).count cb

/-- name of the yield point a thread is parked at (what the harness reports after each turn) -/
def Local.point : Local R → String
  | .cGet _ | .rGet _ => "get"
  | .cCas .. | .rCas .. => "cas"
  | .cRun .. | .rCall .. => "spawn"
  | .rAppend .. => "append"
  | .oLoad1 | .oLoad2 => "load"
  | .cRet _ true => "ret:true"
  | .cRet _ false => "ret:false"
  | .rRet _ => "ret"
  | .oRet none => "ret:pending"
  | .oRet (some _) => "ret:done"
  | .panicked _ => "panic"

/-- the program a thread is executing (never changes) -/
def Local.prog : Local R → Prog R
  | .cGet r | .cCas r .. | .cRun r .. | .cRet r _ => .complete r
  | .rGet cb | .rAppend cb .. | .rCas cb .. | .rCall cb _ | .rRet cb => .register cb
  | .oLoad1 | .oLoad2 | .oRet _ => .observe
  | .panicked p => p

/-! ### termination measure

`kBound` = number of threads that may still perform a successful CAS (each does at most one); a
thread whose captured identity is stale pays for one failing CAS plus a new iteration. -/

def Local.isPendingReg : Local R → Bool
  | .rGet _ | .rAppend .. | .rCas .. => true
  | _ => false

def Local.canCas : Local R → Bool
  | .rGet _ | .rAppend .. | .rCas .. | .cGet _ | .cCas .. => true
  | _ => false

def pendingRegs (ts : List (Local R)) : Nat := sumBy (fun l => if l.isPendingReg then 1 else 0) ts

def Cell.len : Cell R → Nat
  | .cbs s => s.len
  | _ => 0

def Cell.isDone : Cell R → Bool
  | .done _ => true
  | _ => false

/-- successful CASes still possible -/
def kBound (s : PSys R) : Nat := sumBy (fun l => if l.canCas then 1 else 0) s.threads
/-- callbacks a completer may still have to run -/
def nBound (s : PSys R) : Nat := s.shared.cell.len + pendingRegs s.threads

def stale (ver ap : Nat) : Nat := if ap = ver then 0 else 3

def Capt.len : Capt → Nat
  | .nil => 0
  | .cbs s => s.len

def phi (k n ver : Nat) : Local R → Nat
  | .cGet _ => 3 + 3 * k + n + 1
  | .cCas _ ap c => 1 + stale ver ap + 3 * k + max c.len n + 1
  | .cRun _ s i _ => s.len - i + 1
  | .cRet .. => 0
  | .rGet _ => 3 + 3 * k + n + 1
  | .rAppend _ ap _ => 2 + stale ver ap + 3 * k + n + 1
  | .rCas _ ap _ => 1 + stale ver ap + 3 * k + n + 1
  | .rCall .. => 1
  | .rRet _ => 0
  | .oLoad1 => 2
  | .oLoad2 => 1
  | .oRet _ => 0
  | .panicked _ => 0

/-- every executed step strictly decreases `measure` (Spec.C05.measure_decreases) -/
def measure (s : PSys R) : Nat :=
  sumBy (phi (kBound s) (nBound s) s.shared.ver) s.threads

/-- drive every unfinished thread to completion, round-robin (what the harness does after the
    explicit schedule); `measure` rounds are always enough -/
def finishSched (s : PSys R) : List Tid := roundRobin s.threads.length (measure s)

end FpVerif.Promise
