import FpVerif.Model.Eval
import FpVerif.Model.Memo
/-!
# Support for the regenerated translation of lazy/lazy.go (`FpVerif/Gen/LazyGen.lean`, harness/cmd/lazy2lean)

The only primitive the translator needs besides `Model/Eval.lean`'s writer type `W`: the memo cell of `lazy.Memoize`.
`Model/Eval.lean` reads `Call(f)` / `TailCall(f)` with the cell TRANSPARENT ("an Eval is run once here": the first request of a
fresh cell runs the thunk, `Memo.get f none`); what happens on later requests / concurrent requests / panics is the subject of
`Model/Memo.lean`, `Model/MemoPanic.lean`, `Model/EvalPanic.lean`.  The translator maps the one accepted shape of `Memoize`
(`once := sync.Once{}; var ret T; return func() T { once.Do(func() { ret = f() }); return ret }`, pinned independently by
`Spec/C16AtomFacts.skeleton_memoize`) to `memoCell`.
-/
namespace FpVerif.EvalM

/-- the memoised thunk as seen by its FIRST request (the cell is fresh): it runs `f` -/
def memoCell {α : Type} (f : Unit → α) : Unit → α := f

/-- `memoCell` is the first `get` of the Once-guarded cell of `Model/Memo.lean` -/
theorem memoCell_is_first_get {T : Type} (f : Unit → W T) :
    memoCell f () = ((Memo.get f none).1, (Memo.get f none).2.2) := rfl

end FpVerif.EvalM
