import FpVerif.Model.MonadFamily
import FpVerif.Model.StateT
/-!
# Models of `fp.Try` / `fp.Option` / `fp.Either` (try.go, option.go, either.go) and of the
hand-written cores of packages `try`, `option`, `either`; and the four `MonadOps` instances the
generated family is instantiated at.
-/
namespace FpVerif

-- ------------------------------------------------------------------------------------------ Either
inductive Either (L R : Type) where
  | left (l : L)
  | right (r : R)
  deriving Repr, Inhabited

-- ------------------------------------------------------------------------------------------ Try
namespace TryM
variable {A B D R : Type}

/-- `try.FlatMap` -/
def flatMap (ta : Try A) (fn : A → GoM (Try B)) : GoM (Try B) :=
  match ta with
  | .success a => fn a
  | .failure e => do let e ← Try.failedGet (.failure e : Try A); pure (.failure e)

def ops : MonadOps (fun X => GoM (Try X)) where
  pure' a := pure (.success a)
  seq g k := g >>= k
  flatMap m k := m >>= fun t => flatMap t k

/-- `try.FoldM`: the loop stops at the first failure and returns that very value. -/
def foldM : List A → B → (B → A → GoM (Try B)) → GoM (Try B)
  | [], sum, _ => pure (.success sum)
  | a :: as, sum, f => do
    match ← f sum a with
    | .success s => foldM as s f
    | .failure e => pure (.failure e)

def fromOption (v : Option A) : Try A :=
  match v with
  | some a => .success a
  | none => .failure .optionEmpty

/-- `try.Apply(v, err)` -/
def apply (v : A) (err : Err) : Try A := if err = .nil then .success v else .failure err

/-- `try.Of`: run `f`; a panic becomes a Failure exposing the panic value. -/
def of (f : Unit → GoM A) : GoM (Try A) :=
  tryCatch (do let a ← f (); pure (.success a)) (fun p => pure (.failure (.panicErr p)))

/-- `try.Call` -/
def call (f : Unit → GoM (A × Err)) : GoM (Try A) :=
  tryCatch (do let (a, e) ← f (); pure (apply a e)) (fun p => pure (.failure (.panicErr p)))

/-- `try.CallUnit` -/
def callUnit (f : Unit → GoM Err) : GoM (Try Unit) :=
  tryCatch (do let e ← f (); pure (apply () e)) (fun p => pure (.failure (.panicErr p)))

def composeOption (f1 : A → GoM (Option B)) (f2 : B → GoM (Try D)) : A → GoM (Try D) :=
  fun a => do let o ← f1 a; flatMap (fromOption o) f2

def fold (ta : Try A) (bzero : B) (fba : B → A → GoM B) : GoM B :=
  match ta with
  | .failure _ => pure bzero
  | .success a => fba bzero a

def toSeq : Try A → List A
  | .success a => [a]
  | .failure _ => []

-- methods of fp.Try (try.go) --------------------------------------------------------------------

def get (r : Try A) : GoM A :=
  match r with
  | .success v => pure v
  | .failure e => do let e ← Try.failedGet (.failure e : Try A); throw e.toStr

def mMap (r : Try A) (mf : A → GoM A) : GoM (Try A) :=
  match r with
  | .success v => do let v ← mf v; pure (.success v)
  | .failure e => pure (.failure e)

def mFlatMap (r : Try A) (mf : A → GoM (Try A)) : GoM (Try A) :=
  match r with
  | .success v => mf v
  | .failure e => pure (.failure e)

def mapError (r : Try A) (mf : Err → GoM Err) : GoM (Try A) :=
  match r with
  | .success v => pure (.success v)
  | .failure e => do let e ← mf e; pure (.failure e)

def orElse (r : Try A) (t : A) : A :=
  match r with
  | .success v => v
  | .failure _ => t

def orElseGet (r : Try A) (f : Unit → GoM A) : GoM A :=
  match r with
  | .success v => pure v
  | .failure _ => f ()

def or (r : Try A) (f : Unit → GoM (Try A)) : GoM (Try A) :=
  match r with
  | .success v => pure (.success v)
  | .failure _ => f ()

def orTry (r v : Try A) : Try A :=
  match r with
  | .success x => .success x
  | .failure _ => v

def recover (r : Try A) (f : Err → GoM A) : GoM (Try A) :=
  match r with
  | .success v => pure (.success v)
  | .failure e => do let e ← Try.failedGet (.failure e : Try A); let a ← f e; pure (.success a)

def recoverWith (r : Try A) (f : Err → GoM (Try A)) : GoM (Try A) :=
  match r with
  | .success v => pure (.success v)
  | .failure e => do let e ← Try.failedGet (.failure e : Try A); f e

def recoverCase (r : Try A) (isDefinedAt : Err → GoM Bool) (then_ : Err → GoM A) : GoM (Try A) :=
  match r with
  | .success v => pure (.success v)
  | .failure e0 => do
    let e ← Try.failedGet (.failure e0 : Try A)
    if ← isDefinedAt e then do let a ← then_ e; pure (.success a)
    else pure (.failure e0)

def recoverCaseWith (r : Try A) (isDefinedAt : Err → GoM Bool) (then_ : Err → GoM (Try A)) : GoM (Try A) :=
  match r with
  | .success v => pure (.success v)
  | .failure e0 => do
    let e ← Try.failedGet (.failure e0 : Try A)
    if ← isDefinedAt e then then_ e
    else pure (.failure e0)

def foreach (r : Try A) (f : A → GoM Unit) : GoM Unit :=
  match r with
  | .success v => f v
  | .failure _ => pure ()

end TryM

-- ------------------------------------------------------------------------------------------ Option
namespace OptM
variable {A B D R : Type}

/-- `option.FlatMap` -/
def flatMap (opt : Option A) (fn : A → GoM (Option B)) : GoM (Option B) :=
  match opt with
  | some a => fn a
  | none => pure none

def ops : MonadOps (fun X => GoM (Option X)) where
  pure' a := pure (some a)
  seq g k := g >>= k
  flatMap m k := m >>= fun t => flatMap t k

def foldM : List A → B → (B → A → GoM (Option B)) → GoM (Option B)
  | [], sum, _ => pure (some sum)
  | a :: as, sum, f => do
    match ← f sum a with
    | some s => foldM as s f
    | none => pure none

def fromTry : Try A → Option A
  | .success a => some a
  | .failure _ => none

def fold (s : Option A) (zero : B) (f : B → A → GoM B) : GoM B :=
  match s with
  | none => pure zero
  | some a => f zero a

def get (r : Option A) : GoM A :=
  match r with
  | some v => pure v
  | none => throw "Option.empty"

def filter (r : Option A) (p : A → GoM Bool) : GoM (Option A) :=
  match r with
  | some v => do if ← p v then pure (some v) else pure none
  | none => pure none

def filterNot (r : Option A) (p : A → GoM Bool) : GoM (Option A) :=
  match r with
  | some v => do if !(← p v) then pure (some v) else pure none
  | none => pure none

def mMap (r : Option A) (mf : A → GoM A) : GoM (Option A) :=
  match r with
  | some v => do let v ← mf v; pure (some v)
  | none => pure none

def mFlatMap (r : Option A) (mf : A → GoM (Option A)) : GoM (Option A) :=
  match r with
  | some v => mf v
  | none => pure none

def orElse (r : Option A) (t : A) : A := r.getD t

def orElseGet (r : Option A) (f : Unit → GoM A) : GoM A :=
  match r with
  | some v => pure v
  | none => f ()

def or (r : Option A) (f : Unit → GoM (Option A)) : GoM (Option A) :=
  match r with
  | some v => pure (some v)
  | none => f ()

def orOption (r v : Option A) : Option A :=
  match r with
  | some x => some x
  | none => v

def recover (r : Option A) (f : Unit → GoM A) : GoM (Option A) :=
  match r with
  | some v => pure (some v)
  | none => do let t ← f (); pure (some t)

def exists_ (r : Option A) (p : A → GoM Bool) : GoM Bool :=
  match r with
  | some v => p v
  | none => pure false

def forAll (r : Option A) (p : A → GoM Bool) : GoM Bool :=
  match r with
  | some v => p v
  | none => pure true

end OptM

-- ------------------------------------------------------------------------------------------ Either
namespace EitM
variable {L A B D R : Type}

/-- `either.FlatMap` -/
def flatMap (e : Either L A) (fn : A → GoM (Either L B)) : GoM (Either L B) :=
  match e with
  | .right a => fn a
  | .left l => pure (.left l)

def ops (L : Type) : MonadOps (fun X => GoM (Either L X)) where
  pure' a := pure (.right a)
  seq g k := g >>= k
  flatMap m k := m >>= fun t => flatMap t k

def foldM : List A → B → (B → A → GoM (Either L B)) → GoM (Either L B)
  | [], sum, _ => pure (.right sum)
  | a :: as, sum, f => do
    match ← f sum a with
    | .right s => foldM as s f
    | .left l => pure (.left l)

def swap : Either L A → Either A L
  | .left l => .right l
  | .right r => .left r

def fold (e : Either L A) (fl : L → GoM R) (fr : A → GoM R) : GoM R :=
  match e with
  | .left l => fl l
  | .right r => fr r

def orElse (e : Either L A) (t : A) : A :=
  match e with
  | .right r => r
  | .left _ => t

def orElseGet (e : Either L A) (f : Unit → GoM A) : GoM A :=
  match e with
  | .right r => pure r
  | .left _ => f ()

def exists_ (e : Either L A) (p : A → GoM Bool) : GoM Bool :=
  match e with
  | .right r => p r
  | .left _ => pure false

def forAll (e : Either L A) (p : A → GoM Bool) : GoM Bool :=
  match e with
  | .right r => p r
  | .left _ => pure true

def get (e : Either L A) : GoM A :=
  match e with
  | .right r => pure r
  | .left _ => throw "Either.left"

def getLeft (e : Either L A) : GoM L :=
  match e with
  | .left l => pure l
  | .right _ => throw "Either.right"

def recover (e : Either L A) (f : Unit → GoM A) : GoM (Either L A) :=
  match e with
  | .right r => pure (.right r)
  | .left _ => do let r ← f (); pure (.right r)

end EitM

-- ------------------------------------------------------------------------------------------ transformers
/-! `try.OptionT[A] = fp.Try[fp.Option[A]]`, `try.SeqT[A] = fp.Try[fp.Seq[A]]` (try_optiont.go, try_seqt.go, generated by
    monad_gen from `GenerateMonadTransformer`): every function is written with the outer `try.Map`/`try.FlatMap`
    and the inner monad's `FlatMap`/`Pure`, plus the user-supplied `Sequence`. -/
namespace TryT
open MonadFamily
variable {A B R : Type}


def pureOptionT (a : A) : GoM (Try (Option A)) := (pure (Try.success (some a)) : GoM (Try (Option A)))
def liftOptionT (a : GoM (Try A)) : GoM (Try (Option A)) := map TryM.ops a (fun x => pure (some x))

/-- `MapOptionT(t, f) = Map(t, ma => option.FlatMap(ma, a => option.Pure(f(a))))` -/
def mapOptionT (t : GoM (Try (Option A))) (f : A → GoM B) : GoM (Try (Option B)) :=
  map TryM.ops t (fun ma => OptM.flatMap ma (fun a => do let b ← f a; pure (some b)))

def subFlatMapOptionT (t : GoM (Try (Option A))) (f : A → GoM (Option B)) : GoM (Try (Option B)) :=
  map TryM.ops t (fun ma => OptM.flatMap ma f)

/-- the `Sequence` given in the directive: `Option[Try[B]] → Try[Option[B]]` -/
def sequenceOption (v : Option (Try B)) : GoM (Try (Option B)) :=
  match v with
  | some tb => map TryM.ops (pure tb) (fun b => pure (some b))
  | none => (pure (Try.success none) : GoM (Try (Option B)))

/-- `TraverseOptionT(t, f) = FlatMap(MapOptionT(t, f), sequencef)`; `f` returns a Try as a plain value -/
def traverseOptionT (t : GoM (Try (Option A))) (f : A → GoM (Try B)) : GoM (Try (Option B)) :=
  TryM.ops.flatMap (mapOptionT t f) sequenceOption

def flatMapOptionT (t : GoM (Try (Option A))) (f : A → GoM (Try (Option B))) : GoM (Try (Option B)) :=
  map TryM.ops (traverseOptionT t f) (fun v => OptM.flatMap v (fun x => pure x))

/-- all `Transform` entries: `XOptionT(t, args) = Map(t, inside => X(inside, args))` -/
def transformT {I O : Type} (t : GoM (Try I)) (g : I → GoM O) : GoM (Try O) := map TryM.ops t g

def pureSeqT (a : A) : GoM (Try (List A)) := (pure (Try.success [a]) : GoM (Try (List A)))
def liftSeqT (a : GoM (Try A)) : GoM (Try (List A)) := map TryM.ops a (fun x => pure [x])

/-- `seq.FlatMap(ma, fn)`: `for v in ma { ret = append(ret, fn(v)...) }` -/
def seqFlatMap (ma : List A) (fn : A → GoM (List B)) : GoM (List B) := do
  let mut ret : List B := []
  for v in ma do
    ret := ret ++ (← fn v)
  pure ret

def mapSeqT (t : GoM (Try (List A))) (f : A → GoM B) : GoM (Try (List B)) :=
  map TryM.ops t (fun ma => seqFlatMap ma (fun a => do let b ← f a; pure [b]))

def subFlatMapSeqT (t : GoM (Try (List A))) (f : A → GoM (List B)) : GoM (Try (List B)) :=
  map TryM.ops t (fun ma => seqFlatMap ma f)

/-- the directive's `Sequence` for SeqT: `Map(Sequence(v), as.Seq)` with the package's `Sequence` -/
def sequenceSeqT (v : List (Try B)) : GoM (Try (List B)) :=
  map TryM.ops (sequence TryM.ops TryM.foldM (v.map (fun t => (pure t : GoM (Try B))))) (fun l => pure l)

/-- `TraverseSeqT(t, f) = FlatMap(MapSeqT(t, f), sequencef)`: NOTE that `MapSeqT` applies `f` to EVERY element
    before `Sequence` looks for the first failure. -/
def traverseSeqT (t : GoM (Try (List A))) (f : A → GoM (Try B)) : GoM (Try (List B)) :=
  TryM.ops.flatMap (mapSeqT t f) sequenceSeqT

def flatMapSeqT (t : GoM (Try (List A))) (f : A → GoM (Try (List B))) : GoM (Try (List B)) :=
  map TryM.ops (traverseSeqT t f) (fun v => seqFlatMap v (fun x => pure x))

end TryT

-- ------------------------------------------------------------------------------------------ StateT
namespace StM
/-- `statet`'s `FlatMap`/`Pure` in the family's signature: a callback `func(A) StateT[S,B]` whose own
    effects happen when the state function runs is `A → StT S B` (joined). -/
def ops (S : Type) : MonadOps (StT S) where
  pure' a := StM.pure a
  seq g k := fun s => do let a ← g; k a s
  flatMap m k := StM.flatMap m (fun a => Pure.pure (k a))
end StM

end FpVerif
