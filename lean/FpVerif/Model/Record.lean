/-!
# Semantics of gombok's `@fp.Value` output, as a function of the input struct declaration (C07).

The generator itself (`cmd/gombok`, ~5k lines of `fmt.Fprintf` over go/types) is *not* modelled.
What is modelled is what its output *means*: a struct declaration is a `StructSpec` (the ordered
field list with the attributes gombok looks at), a value of the struct is the list of its field
values in declaration order, and every generated method family is a function on that
representation.  Two things are mirrored from `cmd/gombok/gombok.go`:

* **which methods exist** (`methodsT`, `methodsB`, `methodsM`): the name derivation
  (`strings.ToUpper(name[:1]) + name[1:]`), the `genMethod` set threaded through
  `processValue → processGetter → processWith → processBuilder`, the places that consult it and the
  places that do not (`AsMap`, `AsLabelled`, `Builder`, every builder setter), the `max.Product`
  guard around `AsTuple/FromTuple/AsLabelled/FromLabelled`;
* **what each method does** (`getF`, `withF`, `asTuple`, `fromTuple`, `asMap`, `fromMap`, …): one
  assignment per applicable field (`applyFields`), in declaration order.

Field values are opaque (`RV.atom`) except for the structure the generated code itself inspects:
`fp.Option` (`WithSomeF`, `AsMap` unwraps, `FromMap` re-wraps) and interface values (the type
assertions of `FromMap`).
-/
namespace FpVerif.Rec

/-- Runtime value of one field. -/
inductive RV where
  | atom (s : String)                 -- a value of a concrete non-Option type, canonically rendered
  | none                              -- fp.None
  | some (v : RV)                     -- fp.Some(v)
  | nilIface                          -- nil value of an interface type
  | iface (dyn : String) (v : RV)     -- non-nil interface value: dynamic type name + concrete value
  deriving DecidableEq, Repr, Inhabited

/-- Static field type, as far as the generated code depends on it. -/
inductive Ty where
  | conc (name : String)                                    -- any concrete non-Option type
  | iface (name : String) (all : Bool) (impls : List String) -- interface; which dynamic types satisfy it
  | opt (elem : Ty)                                         -- fp.Option[elem]
  deriving DecidableEq, Repr, Inhabited

def Ty.name : Ty → String
  | .conc n => n
  | .iface n _ _ => n
  | .opt e => "fp.Option[" ++ e.name ++ "]"

def Ty.isOpt : Ty → Bool
  | .opt _ => true
  | _ => false

/-- A value is well typed: Option fields hold None/Some, interface fields hold nil or a dynamic
    value of an implementing type, concrete fields hold neither. -/
def WT : Ty → RV → Prop
  | .conc _, .atom _ => True
  | .conc _, _ => False
  | .iface _ all impls, .iface d (.atom _) => all = true ∨ d ∈ impls
  | .iface _ all impls, .iface d .none => all = true ∨ d ∈ impls          -- an Option value held in an interface
  | .iface _ all impls, .iface d (.some _) => all = true ∨ d ∈ impls
  | .iface _ _ _, .nilIface => True
  | .iface _ _ _, _ => False
  | .opt _, .none => True
  | .opt e, .some v => WT e v
  | .opt _, _ => False

structure Field where
  name : String
  ty : Ty
  embedded : Bool := false
  /-- the field type is a struct type without fields (matters only when `embedded`) -/
  emptyStruct : Bool := false
  tag : String := ""
  /-- `TypeInfo.IsNilable` of the field type (pointer, slice, map, chan, func, interface literal, string) -/
  nilable : Bool := false
  /-- the Go zero value of the field type -/
  zero : RV := .atom "0"
  deriving Repr, Inhabited

/-- `unicode.IsLower` on the first rune (ASCII names only in the modelled grammar). -/
def isLowerFirst (s : String) : Bool :=
  match s.toList with
  | c :: _ => c.isLower
  | [] => false

/-- `metafp.StructField.Public`: NOT lower-case first rune (so `_x` counts as public). -/
def Field.isPublic (f : Field) : Bool := !isLowerFirst f.name

def Field.isPrivate (f : Field) : Bool := isLowerFirst f.name

/-- `applyFields`: drops `_`-prefixed fields and embedded field-less structs. -/
def Field.applicable (f : Field) : Bool :=
  !(f.name.startsWith "_" || (f.embedded && f.emptyStruct))

/-- `publicName` / `uname`: `strings.ToUpper(name[:1]) + name[1:]`. -/
def publicName (s : String) : String :=
  match s.toList with
  | c :: cs => String.ofList (c.toUpper :: cs)
  | [] => ""

structure Ann where
  value : Bool := false
  json : Bool := false
  genLabelled : Bool := false
  getter : Bool := false
  with_ : Bool := false
  builder : Bool := false
  getterPub : Bool := false
  withPub : Bool := false
  allArgs : Bool := false
  deriving Repr, Inhabited, DecidableEq

structure StructSpec where
  name : String
  fields : List Field
  ann : Ann := {}
  /-- methods the user wrote on the struct type -/
  userT : List String := []
  /-- the user declared `type <Name>Builder …` -/
  builderDefined : Bool := false
  /-- methods the user wrote on the builder type -/
  userB : List String := []
  mutableDefined : Bool := false
  userM : List String := []
  deriving Repr, Inhabited

/-- `internal/max.Product` -/
def maxProduct : Nat := 22

abbrev Rec := List RV

def StructSpec.applicableFields (s : StructSpec) : List Field := s.fields.filter Field.applicable

def StructSpec.nApp (s : StructSpec) : Nat := s.applicableFields.length

/-- `allFields.Size() < max.Product` -/
def StructSpec.hasTuple (s : StructSpec) : Bool := s.nApp < maxProduct

/-- `arity := fp.Min(allFields.Size(), max.Product-1)` -/
def StructSpec.arity (s : StructSpec) : Nat := min s.nApp (maxProduct - 1)

def StructSpec.zero (s : StructSpec) : Rec := s.fields.map Field.zero

def Rec.WF (s : StructSpec) (x : Rec) : Prop := x.length = s.fields.length

/-- every field value has its field's type -/
def Rec.WTs : List Field → Rec → Prop
  | [], [] => True
  | f :: fs, v :: vs => WT f.ty v ∧ Rec.WTs fs vs
  | _, _ => False

/-! ## Methods: what they do -/

/-- getter / `r.f` -/
def getF (i : Nat) (x : Rec) : RV := x.getD i .none

/-- `r.f = v; return r` (value receiver: a modified copy) -/
def withF (i : Nat) (v : RV) (x : Rec) : Rec := x.set i v

/-- `r.f = option.Some(v); return r` -/
def withSome (i : Nat) (v : RV) (x : Rec) : Rec := x.set i (.some v)

/-- `r.f = option.None[T](); return r` -/
def withNone (i : Nat) (x : Rec) : Rec := x.set i .none

/-- the values of the applicable fields in declaration order -/
def project : List Field → Rec → List RV
  | f :: fs, v :: vs => if f.applicable then v :: project fs vs else project fs vs
  | _, _ => []

/-- assign the applicable fields of `b` from `t`, position by position (`r.fK = t.IK`), stop when `t` is exhausted -/
def inject : List Field → Rec → List RV → Rec
  | f :: fs, bv :: bs, t =>
    if f.applicable then
      match t with
      | v :: t' => v :: inject fs bs t'
      | [] => bv :: inject fs bs []
    else bv :: inject fs bs t
  | _, bs, _ => bs

/-- `AsTuple()`: `as.Tuple<arity>(r.f1, …)` (exists only when `hasTuple`) -/
def asTuple (s : StructSpec) (x : Rec) : List RV := (project s.fields x).take s.arity

/-- `Builder.FromTuple(t)`: `r.fK = t.IK` for the first `arity` applicable fields -/
def fromTuple (s : StructSpec) (b : Rec) (t : List RV) : Rec := inject s.fields b (t.take s.arity)

/-- `Unapply()`: all applicable fields as a multi-value return -/
def unapply (s : StructSpec) (x : Rec) : List RV := project s.fields x

/-- `Builder.Apply(f1, …, fn)` -/
def apply (s : StructSpec) (b : Rec) (args : List RV) : Rec := inject s.fields b args

/-- keep the applicable fields, put the zero value everywhere else (a composite literal that
    names only the applicable fields) -/
def mask : List Field → Rec → Rec
  | f :: fs, v :: vs => (if f.applicable then v else f.zero) :: mask fs vs
  | _, _ => []

/-- `AsMutable()`: the Mutable twin has every field of the struct; the literal sets the applicable ones -/
def asMutable (s : StructSpec) (x : Rec) : Rec := mask s.fields x

/-- `Mutable.AsImmutable()` -/
def asImmutable (s : StructSpec) (m : Rec) : Rec := mask s.fields m

/-- `NewT(f1, …, fn)` of @fp.AllArgsConstructor: a composite literal naming the applicable fields -/
def newAllArgs (s : StructSpec) (args : List RV) : Rec := inject s.fields s.zero args

/-- `Builder()` and `Build()` are conversions between identical underlying types -/
def toBuilder (x : Rec) : Rec := x
def build (b : Rec) : Rec := b

/-- one element of the Labelled tuple: `NamedF[T]{r.f, `tag`}` with `Name()` = the field name -/
structure Lab where
  name : String
  value : RV
  tag : String
  deriving DecidableEq, Repr

def labels : List Field → Rec → List Lab
  | f :: fs, v :: vs => if f.applicable then ⟨f.name, v, f.tag⟩ :: labels fs vs else labels fs vs
  | _, _ => []

/-- `AsLabelled()` -/
def asLabelled (s : StructSpec) (x : Rec) : List Lab := (labels s.fields x).take s.arity

/-- `Builder.FromLabelled(t)`: `r.fK = t.IK.Value()` — positional, names are not consulted -/
def fromLabelled (s : StructSpec) (b : Rec) (t : List Lab) : Rec :=
  inject s.fields b ((t.take s.arity).map Lab.value)

/-! ### `AsMap` / `FromMap` -/

/-- A Go `any`: nil, or a dynamic type name with a concrete value. -/
abbrev Dyn := Option (String × RV)

/-- storing a value of static type `t` into an `any` -/
def toAny : Ty → RV → Dyn
  | .iface _ _ _, .iface d v => some (d, v)
  | .iface _ _ _, _ => none
  | t, v => some (t.name, v)

/-- the type assertion `a.(t)` -/
def assertTy : Ty → Dyn → Option RV
  | _, none => none
  | .iface _ all impls, some (d, v) => if all || impls.contains d then some (.iface d v) else none
  | t, some (d, v) => if d == t.name then some v else none

abbrev GoMap := List (String × Dyn)

def GoMap.put (m : GoMap) (k : String) (v : Dyn) : GoMap := (m.filter (·.1 != k)) ++ [(k, v)]

/-- `m[k]` (nil when absent) -/
def GoMap.get (m : GoMap) (k : String) : Dyn :=
  match m.find? (·.1 == k) with
  | some (_, v) => v
  | none => none

/-- `AsMap()`: `m["f"] = r.f`; an Option field is stored unwrapped and only when defined -/
def asMapAux : List Field → Rec → GoMap → GoMap
  | f :: fs, v :: vs, m =>
    if f.applicable then
      match f.ty, v with
      | .opt e, .some w => asMapAux fs vs (m.put f.name (toAny e w))
      | .opt _, _ => asMapAux fs vs m
      | t, v => asMapAux fs vs (m.put f.name (toAny t v))
    else asMapAux fs vs m
  | _, _, m => m

def asMap (s : StructSpec) (x : Rec) : GoMap := asMapAux s.fields x []

/-- one field of `FromMap`: `if v, ok := m["f"].(T); ok { r.f = v } [else if v, ok := m["f"].(E); ok { r.f = Some(v) }]` -/
def fromMapField (f : Field) (bv : RV) (m : GoMap) : RV :=
  match assertTy f.ty (m.get f.name) with
  | some v => v
  | none =>
    match f.ty with
    | .opt e =>
      match assertTy e (m.get f.name) with
      | some v => .some v
      | none => bv
    | _ => bv

/-- `Builder.FromMap(m)` -/
def fromMap : List Field → Rec → GoMap → Rec
  | f :: fs, bv :: bs, m => (if f.applicable then fromMapField f bv m else bv) :: fromMap fs bs m
  | _, bs, _ => bs

/-- "recoverable by type assertion": `FromMap(AsMap(x))` restores the field.  Not recoverable: a nil
    interface value (the assertion fails), `None` (no entry is written), `Some` of a nil interface,
    and an `Option[I]` holding, as its interface value, an `Option[I]` (the first assertion fires). -/
def recoverable : Ty → RV → Bool
  | .iface _ _ _, .iface _ _ => true
  | .iface _ _ _, _ => false
  | .opt e, .some w =>
    match toAny e w with
    | some (d, _) => d != (Ty.opt e).name
    | none => false
  | .opt _, _ => false
  | .conc _, _ => true

/-! ## Methods: which exist

The three receivers: the struct `T`, `TBuilder`, `TMutable`.  A method is identified by what it does. -/

inductive Meth where
  | getter (i : Nat)
  | withF (i : Nat)
  | withSome (i : Nat)
  | withNone (i : Nat)
  | getPub (i : Nat)          -- `GetF` of @fp.GetterPubField
  | withPub (i : Nat)         -- `WithF` of @fp.WithPubField
  | string
  | asTuple
  | unapply
  | asMap
  | asLabelled
  | marshalJSON
  | unmarshalJSON
  | builder
  | asMutable
  -- builder receiver
  | build
  | bSet (i : Nat)
  | bSome (i : Nat)
  | bNone (i : Nat)
  | fromTuple
  | apply
  | fromMap
  | fromLabelled
  -- mutable receiver
  | asImmutable
  deriving DecidableEq, Repr

abbrev Table := List (String × Meth)

def Table.names (t : Table) : List String := t.map (·.1)

/-- the state gombok threads: methods emitted so far for the struct receiver (`genMethod`) -/
structure Gen where
  out : Table := []
  deriving Repr

def Gen.has (g : Gen) (n : String) : Bool := g.out.names.contains n

/-- `if ts.Info.Method.Get(n).IsEmpty() && !genMethod.Contains(n) { emit; genMethod.Incl(n) }` -/
def Gen.emitChecked (g : Gen) (user : List String) (n : String) (m : Meth) : Gen :=
  if user.contains n || g.has n then g else { out := g.out ++ [(n, m)] }

/-- `if ts.Info.Method.Get(n).IsEmpty() { emit }` — the generated set is NOT consulted -/
def Gen.emitUserOnly (g : Gen) (user : List String) (n : String) (m : Meth) : Gen :=
  if user.contains n then g else { out := g.out ++ [(n, m)] }

def indexed {α : Type} (l : List α) : List (Nat × α) := (List.range l.length).zip l

/-- One emission attempt: `checked` = the site consults `genMethod` (`emitChecked`), otherwise only
    the user's own methods (`emitUserOnly`). -/
structure Cand where
  checked : Bool
  name : String
  meth : Meth
  deriving Repr

def Cand.entry (c : Cand) : String × Meth := (c.name, c.meth)

def Gen.step (user : List String) (g : Gen) (c : Cand) : Gen :=
  if c.checked then g.emitChecked user c.name c.meth else g.emitUserOnly user c.name c.meth

/-- `genPrivateGetters`: one attempt per private field -/
def privGetterCands (s : StructSpec) : List Cand :=
  (indexed s.fields).flatMap fun (p : Nat × Field) =>
    if p.2.isPrivate then [⟨true, publicName p.2.name, .getter p.1⟩] else []

/-- `genPrivateWiths`: `WithF`, and for Option fields `WithSomeF`, `WithNoneF` -/
def privWithCands (s : StructSpec) : List Cand :=
  (indexed s.fields).flatMap fun (p : Nat × Field) =>
    if p.2.isPrivate then
      let u := publicName p.2.name
      [⟨true, "With" ++ u, .withF p.1⟩] ++
        (if p.2.ty.isOpt then [⟨true, "WithSome" ++ u, .withSome p.1⟩, ⟨true, "WithNone" ++ u, .withNone p.1⟩] else [])
    else []

/-- does the `@fp.Value` block run at all (`allFields.Size() == 0` returns early) -/
def StructSpec.valueRuns (s : StructSpec) : Bool := s.ann.value && s.nApp != 0

/-- `processValue` (struct receiver) -/
def valueCands (s : StructSpec) : List Cand :=
  if s.valueRuns then
    privGetterCands s ++ privWithCands s ++ [⟨true, "String", .string⟩]
    ++ (if s.hasTuple then [⟨true, "AsTuple", .asTuple⟩] else [])
    ++ [⟨true, "Unapply", .unapply⟩, ⟨false, "AsMap", .asMap⟩]
    ++ (if s.ann.genLabelled && s.hasTuple then [⟨false, "AsLabelled", .asLabelled⟩] else [])
    ++ (if s.ann.json then [⟨false, "MarshalJSON", .marshalJSON⟩, ⟨false, "UnmarshalJSON", .unmarshalJSON⟩] else [])
    ++ [⟨false, "Builder", .builder⟩, ⟨false, "AsMutable", .asMutable⟩]
  else []

def pubGetterCands (s : StructSpec) : List Cand :=
  (indexed s.fields).flatMap fun (p : Nat × Field) =>
    if p.2.isPublic then [⟨true, "Get" ++ p.2.name, .getPub p.1⟩] else []

def pubWithCands (s : StructSpec) : List Cand :=
  (indexed s.fields).flatMap fun (p : Nat × Field) =>
    if p.2.isPublic then [⟨true, "With" ++ p.2.name, .withPub p.1⟩] else []

/-- every emission gombok attempts for the struct receiver, in order:
    `processValue`, `processGetter`, `processWith`, `processBuilder` -/
def candsT (s : StructSpec) : List Cand :=
  valueCands s
  ++ (if s.ann.getter then privGetterCands s else [])
  ++ (if s.ann.getterPub then pubGetterCands s else [])
  ++ (if s.ann.with_ then privWithCands s else [])
  ++ (if s.ann.withPub then pubWithCands s else [])
  ++ (if s.ann.builder then [⟨false, "Builder", .builder⟩] else [])

/-- generated methods with receiver `T`, in emission order -/
def methodsT (s : StructSpec) : Table :=
  ((candsT s).foldl (Gen.step s.userT) {}).out

/-- builder receiver: `isMethodDefined(workingPackage, builderTypeName, n)` looks at what the user wrote only -/
def emitB (user : List String) (t : Table) (n : String) (m : Meth) : Table :=
  if user.contains n then t else t ++ [(n, m)]

/-- `genBuilder`, the builder-receiver part -/
def genBuilderB (s : StructSpec) : Table :=
  let t : Table := emitB s.userB [] "Build" .build
  let t := (indexed s.fields).foldl (fun t (p : Nat × Field) =>
    if p.2.isPrivate then
      let u := publicName p.2.name
      let t := emitB s.userB t u (.bSet p.1)
      if p.2.ty.isOpt then
        let t := emitB s.userB t ("Some" ++ u) (.bSome p.1)
        emitB s.userB t ("None" ++ u) (.bNone p.1)
      else t
    else t) t
  let t := if s.hasTuple then emitB s.userB t "FromTuple" .fromTuple else t
  let t := emitB s.userB t "Apply" .apply
  let t := emitB s.userB t "FromMap" .fromMap
  if s.hasTuple && s.ann.genLabelled then emitB s.userB t "FromLabelled" .fromLabelled else t

/-- generated methods with receiver `TBuilder` -/
def methodsB (s : StructSpec) : Table :=
  (if s.valueRuns then genBuilderB s else []) ++ (if s.ann.builder then genBuilderB s else [])

/-- generated methods with receiver `TMutable` -/
def methodsM (s : StructSpec) : Table :=
  if s.valueRuns then emitB s.userM [] "AsImmutable" .asImmutable else []

/-! ### Will the output compile?  (the name-level obstacles the generator does not guard against) -/

def dups : List String → List String
  | [] => []
  | x :: xs => if xs.contains x then x :: dups xs else dups xs

/-- exported field names of the Mutable twin (embedded fields keep their type name = field name) -/
def mutableFieldNames (s : StructSpec) : List String :=
  s.fields.map (fun f => if f.embedded then f.name else publicName f.name)

/-- name-level reasons why the generated file cannot compile -/
def clashes (s : StructSpec) : List String :=
  let fieldNames := s.fields.map Field.name
  let tNames := (methodsT s).names ++ s.userT
  let bNames := (methodsB s).names ++ s.userB
  (dups tNames).map ("dup method T." ++ ·)
  ++ (dups bNames).map ("dup method B." ++ ·)
  ++ (tNames.filter fieldNames.contains).map ("field and method T." ++ ·)
  ++ (bNames.filter fieldNames.contains).map ("field and method B." ++ ·)
  ++ (if s.valueRuns then
        (dups ((mutableFieldNames s).filter (· != "_"))).map ("dup mutable field " ++ ·)
        ++ ((s.fields.filter (fun f => f.applicable && f.embedded && f.isPrivate)).map
              (fun f => "unknown mutable field " ++ publicName f.name))
      else [])
  -- `func (r TBuilder) Apply(<field> <type>, …)`: a field called `r` redeclares the receiver
  ++ (if s.valueRuns || s.ann.builder then
        ((s.fields.filter (fun f => f.applicable && f.name == "r")).map (fun _ => "Apply parameter r"))
      else [])
  -- `GetF`/`WithF` of @fp.GetterPubField/@fp.WithPubField for the blank field: `r._` does not exist
  ++ (if s.ann.getterPub || s.ann.withPub then
        ((s.fields.filter (fun f => f.name == "_")).map (fun _ => "blank field accessor"))
      else [])

/-! ### JSON tags of the Mutable twin (`genMutable`) -/

/-- the struct tag gombok writes on the Mutable field -/
def mutableTag (s : StructSpec) (f : Field) : String :=
  if !f.name.startsWith "_" && s.ann.json && (f.tag.splitOn "json").length == 1 then
    (if f.tag != "" then f.tag ++ " " else "") ++
      (if f.nilable || f.ty.isOpt then "json:\"" ++ f.name ++ ",omitempty\"" else "json:\"" ++ f.name ++ "\"")
  else f.tag

end FpVerif.Rec
