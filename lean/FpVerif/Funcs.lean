import FpVerif.Base
/-!
# The callback table shared by the Go harnesses and the Lean oracles.

Every user function handed to a combinator during a correspondence run is drawn from this
table; every one logs its invocation (`<id>:<arg>`), so the two sides are compared on *which*
callbacks ran, in which order, with which arguments — and on panics.
The theorems never mention this table: they quantify over all `A → GoM B`.
-/
namespace FpVerif
open Sexp

def emod (x m : Int) : Int := if m == 0 then 0 else Int.emod x m

/-- `Val → GoM Val`. -/
def F1.interp : Sexp → Option (Val → GoM Val)
  | .list [.atom "lin", id, a, b] => do
    let id ← id.asInt?; let a ← a.asInt?; let b ← b.asInt?
    pure fun x => do emit s!"f{id}:{x}"; pure (.int (a * x.asInt + b))
  | .list [.atom "fpanic", id, p] => do
    let id ← id.asInt?; let p ← p.asInt?
    pure fun x => do emit s!"f{id}:{x}"; goPanic s!"{p}"
  | .list [.atom "fpanicif", id, m, p] => do
    let id ← id.asInt?; let m ← m.asInt?; let p ← p.asInt?
    pure fun x => do
      emit s!"f{id}:{x}"
      if emod x.asInt m == 0 then goPanic s!"{p}" else pure (.int (x.asInt + 1))
  | .list [.atom "wrap", id] => do
    let id ← id.asInt?
    pure fun x => do emit s!"f{id}:{x}"; pure (.tup [x])
  | _ => none

/-- `Val → GoM Bool`. -/
def P1.interp : Sexp → Option (Val → GoM Bool)
  | .list [.atom "modeq", id, m, r] => do
    let id ← id.asInt?; let m ← m.asInt?; let r ← r.asInt?
    pure fun x => do emit s!"p{id}:{x}"; pure (emod x.asInt m == r)
  | .list [.atom "lt", id, c] => do
    let id ← id.asInt?; let c ← c.asInt?
    pure fun x => do emit s!"p{id}:{x}"; pure (decide (x.asInt < c))
  | .list [.atom "ppanicif", id, m, p] => do
    let id ← id.asInt?; let m ← m.asInt?; let p ← p.asInt?
    pure fun x => do
      emit s!"p{id}:{x}"
      if emod x.asInt m == 0 then goPanic s!"{p}" else pure true
  | _ => none

/-- `Val → Val → GoM Val`. -/
def F2.interp : Sexp → Option (Val → Val → GoM Val)
  | .list [.atom "add", id] => do
    let id ← id.asInt?
    pure fun x y => do emit s!"g{id}:{x},{y}"; pure (.int (x.asInt + y.asInt))
  | .list [.atom "lin2", id, a, b] => do
    let id ← id.asInt?; let a ← a.asInt?; let b ← b.asInt?
    pure fun x y => do emit s!"g{id}:{x},{y}"; pure (.int (a * x.asInt + b * y.asInt))
  | .list [.atom "pair", id] => do
    let id ← id.asInt?
    pure fun x y => do emit s!"g{id}:{x},{y}"; pure (.tup [x, y])
  | .list [.atom "g2panic", id, p] => do
    let id ← id.asInt?; let p ← p.asInt?
    pure fun x y => do emit s!"g{id}:{x},{y}"; goPanic s!"{p}"
  | _ => none

/-- `Val → GoM (Try Val)`. -/
def KT.interp : Sexp → Option (Val → GoM (Try Val))
  | .list [.atom "ksucc", id, a, b] => do
    let id ← id.asInt?; let a ← a.asInt?; let b ← b.asInt?
    pure fun x => do emit s!"k{id}:{x}"; pure (.success (.int (a * x.asInt + b)))
  | .list [.atom "kfail", id, e] => do
    let id ← id.asInt?; let e ← e.asInt?
    pure fun x => do emit s!"k{id}:{x}"; pure (.failure (.code e))
  | .list [.atom "kfailif", id, m, e] => do
    let id ← id.asInt?; let m ← m.asInt?; let e ← e.asInt?
    pure fun x => do
      emit s!"k{id}:{x}"
      if emod x.asInt m == 0 then pure (.failure (.code e)) else pure (.success (.int (x.asInt + 1)))
  | .list [.atom "kpanic", id, p] => do
    let id ← id.asInt?; let p ← p.asInt?
    pure fun x => do emit s!"k{id}:{x}"; goPanic s!"{p}"
  -- a user function that fails with the LIBRARY'S OWN sentinel error `fp.ErrOptionEmpty` (seed C01-13: a rewrite of
  -- `try.TraverseOption` through `FromOption` + `RecoverCase(errors.Is(·, ErrOptionEmpty))` turns that failure into `Success(None)`)
  | .list [.atom "kfailsent", id] => do
    let id ← id.asInt?
    pure fun x => do emit s!"k{id}:{x}"; pure (.failure .optionEmpty)
  | .list [.atom "kfailifsent", id, m] => do
    let id ← id.asInt?; let m ← m.asInt?
    pure fun x => do
      emit s!"k{id}:{x}"
      if emod x.asInt m == 0 then pure (.failure .optionEmpty) else pure (.success (.int (x.asInt + 1)))
  | .list [.atom "ksuccnil", id] => do
    let id ← id.asInt?
    pure fun x => do emit s!"k{id}:{x}"; pure (.success .nil)
  | _ => none

end FpVerif
