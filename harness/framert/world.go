package framert

// The frame checker's world: every backing array, Go map and pointee the harness has ever seen (inputs it
// made, everything reachable from any result or from any argument the library handed to a callback) is kept
// with a snapshot over its FULL capacity; after every library call all of them are compared with their
// snapshots. Values found join a typed pool from which later arguments are drawn.

import (
	"fmt"
	"reflect"
	"strings"
	"sync/atomic"
	"unsafe"
)

type region struct {
	base, size uintptr
	n          int
	full       reflect.Value // slice over the whole region, len == cap == n
	snap       reflect.Value // copy taken when first seen (refreshed after a reported change)
	ints       []int         // fast path for []int
	snapInts   []int
	born       int // call number at which it was first seen
	what       string
}

type mapRec struct {
	ptr  uintptr
	m    reflect.Value
	snap reflect.Value
	born int
}

type watcher struct {
	what   string
	render func() string
	last   string
}

type World struct {
	regions       []*region
	byBase        map[uintptr]*region
	maps          map[uintptr]*mapRec
	mapList       []*mapRec
	watchers      []*watcher
	pool          map[reflect.Type][]any
	pooled        map[[3]uintptr]bool
	callNo        int
	cur           string // wrapper being run
	label         string
	open          bool
	budget        int
	fresh         bool
	dirty         bool
	checkingFresh bool
	Shape         [ShapeCount]int
	mayWrite      [][2]uintptr // address ranges a pointer-receiver method may write during this step
	viol          []Violation
	panics        int
	budgets       int
	calls         int
	cells         int
}

type Violation struct {
	Key, What string
}

// the wrapper being run (read by the watchdog goroutine of the harness)
var current atomic.Pointer[string]

func SetCurrent(name string) { current.Store(&name) }

func Current() string {
	if p := current.Load(); p != nil {
		return *p
	}
	return ""
}

func NewWorld() *World { return newWorld() }

func (w *World) Violations() []Violation { return w.viol }

// Stats: library calls, recovered panics, exceeded callback budgets, tracked cells / arrays / maps
func (w *World) Stats() (calls, panics, budgets, cells, arrays, maps int) {
	return w.calls, w.panics, w.budgets, w.cells, len(w.regions), len(w.mapList)
}

func EntryOf(name string) string { return entryOf(name) }

// RunStep runs one wrapper; every choice it makes derives from key
func (w *World) RunStep(key uint64, wr *Wrapper) {
	g := NewG(key, key*0x9E3779B97F4A7C15, w)
	w.cur, w.fresh, w.label, w.open = wr.Name, wr.Fresh, "", false
	SetCurrent(wr.Name)
	func() {
		defer func() {
			if p := recover(); p != nil {
				w.recovered(p)
			}
		}()
		wr.Fn(g)
	}()
	w.label = ""
	w.check(" (while its results were being inspected)")
	w.mayWrite = w.mayWrite[:0]
}

func newWorld() *World {
	return &World{byBase: map[uintptr]*region{}, maps: map[uintptr]*mapRec{}, pool: map[reflect.Type][]any{}, pooled: map[[3]uintptr]bool{}}
}

// ---------------------------------------------------------------------------------------- reflection helpers

type rvalue struct {
	typ, ptr unsafe.Pointer
	flag     uintptr
}

// stripRO clears reflect's read-only flags (values reached through unexported fields) — the harness only
// ever READS through such values
func stripRO(v reflect.Value) reflect.Value {
	(*rvalue)(unsafe.Pointer(&v)).flag &^= (1<<5 | 1<<6)
	return v
}

func opaqueType(t reflect.Type) bool {
	p := t.PkgPath()
	if p == "" {
		return false
	}
	switch p {
	case "sync", "sync/atomic", "time", "reflect", "github.com/csgura/fp/immutable", "github.com/csgura/fp/internal/atomic", "github.com/csgura/fp/lazy":
		return true
	}
	if p == "github.com/csgura/fp" {
		n := t.Name()
		return strings.HasPrefix(n, "Promise[") || strings.HasPrefix(n, "Future[")
	}
	return false
}

func hasMem(t reflect.Type, d int) bool {
	if d > 6 {
		return true
	}
	switch t.Kind() {
	case reflect.Slice, reflect.Map, reflect.Ptr, reflect.Interface, reflect.UnsafePointer:
		return true
	case reflect.Array:
		return hasMem(t.Elem(), d+1)
	case reflect.Struct:
		if opaqueType(t) {
			return false
		}
		for i := 0; i < t.NumField(); i++ {
			if hasMem(t.Field(i).Type, d+1) {
				return true
			}
		}
	}
	return false
}

func sameShallow(a, b reflect.Value) bool {
	switch a.Kind() {
	case reflect.Bool:
		return a.Bool() == b.Bool()
	case reflect.Int, reflect.Int8, reflect.Int16, reflect.Int32, reflect.Int64:
		return a.Int() == b.Int()
	case reflect.Uint, reflect.Uint8, reflect.Uint16, reflect.Uint32, reflect.Uint64, reflect.Uintptr:
		return a.Uint() == b.Uint()
	case reflect.Float32, reflect.Float64:
		x, y := a.Float(), b.Float()
		return x == y || (x != x && y != y)
	case reflect.Complex64, reflect.Complex128:
		return a.Complex() == b.Complex()
	case reflect.String:
		return a.String() == b.String()
	case reflect.Ptr, reflect.Map, reflect.Chan, reflect.UnsafePointer, reflect.Func:
		return a.Pointer() == b.Pointer()
	case reflect.Slice:
		return a.Pointer() == b.Pointer() && a.Len() == b.Len() && a.Cap() == b.Cap()
	case reflect.Interface:
		if a.IsNil() || b.IsNil() {
			return a.IsNil() == b.IsNil()
		}
		x, y := a.Elem(), b.Elem()
		return x.Type() == y.Type() && sameShallow(x, y)
	case reflect.Struct:
		for i := 0; i < a.NumField(); i++ {
			if !sameShallow(a.Field(i), b.Field(i)) {
				return false
			}
		}
		return true
	case reflect.Array:
		for i := 0; i < a.Len(); i++ {
			if !sameShallow(a.Index(i), b.Index(i)) {
				return false
			}
		}
		return true
	}
	return true
}

func brief(v reflect.Value) string {
	s := fmt.Sprintf("%v", stripRO(v))
	if len(s) > 40 {
		s = s[:40] + "…"
	}
	return s
}

// ---------------------------------------------------------------------------------------- registering memory

// findRegion returns the region containing [base, base+size)
func (w *World) findRegion(base, size uintptr) *region {
	if r, ok := w.byBase[base]; ok && r.size >= size {
		return r
	}
	for _, r := range w.regions {
		if base >= r.base && base+size <= r.base+r.size {
			return r
		}
	}
	return nil
}

func (w *World) overlapsOlder(base, size uintptr, born int) *region {
	for _, r := range w.regions {
		if r.born < born && base < r.base+r.size && r.base < base+size {
			return r
		}
	}
	return nil
}

// addRegion registers the memory [data, data+n*elemsize) seen as n elements of type elem
func (w *World) addRegion(elem reflect.Type, data unsafe.Pointer, n int, what string) *region {
	es := elem.Size()
	if n == 0 || es == 0 || data == nil {
		return nil
	}
	base, size := uintptr(data), uintptr(n)*es
	if w.checkingFresh {
		if old := w.overlapsOlder(base, size, w.callNo); old != nil {
			w.report("fresh/"+entryOf(w.cur), fmt.Sprintf("%s%s returned storage shared with a value that existed before the call (%s, seen at call %d): a clone must be fresh",
				w.cur, w.labelSuffix(), old.what, old.born))
		}
	}
	if r := w.findRegion(base, size); r != nil {
		return r
	}
	full := reflect.SliceAt(elem, data, n)
	r := &region{base: base, size: size, n: n, full: full, born: w.callNo, what: what}
	if elem.Kind() == reflect.Int && elem.PkgPath() == "" {
		r.ints = unsafe.Slice((*int)(data), n)
		r.snapInts = append([]int(nil), r.ints...)
	} else {
		r.snap = reflect.MakeSlice(reflect.SliceOf(elem), n, n)
		reflect.Copy(r.snap, full)
	}
	w.regions = append(w.regions, r)
	if _, ok := w.byBase[base]; !ok {
		w.byBase[base] = r
	}
	w.cells += n
	return r
}

func (w *World) addMap(m reflect.Value) {
	p := m.Pointer()
	if p == 0 {
		return
	}
	if old, ok := w.maps[p]; ok {
		if w.checkingFresh && old.born < w.callNo {
			w.report("fresh/"+entryOf(w.cur), fmt.Sprintf("%s%s returned a Go map that existed before the call: a clone must be fresh", w.cur, w.labelSuffix()))
		}
		return
	}
	mr := &mapRec{ptr: p, m: m, snap: copyMap(m), born: w.callNo}
	w.maps[p] = mr
	w.mapList = append(w.mapList, mr)
}

func copyMap(m reflect.Value) reflect.Value {
	c := reflect.MakeMapWithSize(m.Type(), m.Len())
	it := m.MapRange()
	for it.Next() {
		c.SetMapIndex(stripRO(it.Key()), stripRO(it.Value()))
	}
	return c
}

type visitKey struct {
	p uintptr
	t reflect.Type
	n int
}

// walk registers every slice backing array, map and pointee reachable from v, and puts them into the pool
func (w *World) walk(v reflect.Value, seen map[visitKey]bool, depth int, pool bool) {
	if !v.IsValid() || depth > 12 {
		return
	}
	t := v.Type()
	switch v.Kind() {
	case reflect.Slice:
		if v.IsNil() || v.Cap() == 0 {
			return
		}
		v = stripRO(v)
		k := visitKey{v.Pointer(), t, v.Len()<<16 | v.Cap()}
		if seen[k] {
			return
		}
		seen[k] = true
		w.addRegion(t.Elem(), v.UnsafePointer(), v.Cap(), "backing array of "+t.String())
		if pool {
			w.poolSlice(v)
		}
		if hasMem(t.Elem(), 0) {
			for i := 0; i < v.Len() && i < 64; i++ {
				w.walk(v.Index(i), seen, depth+1, pool)
			}
		}
	case reflect.Map:
		if v.IsNil() {
			return
		}
		v = stripRO(v)
		k := visitKey{v.Pointer(), t, 0}
		if seen[k] {
			return
		}
		seen[k] = true
		w.addMap(v)
		if pool && v.Len() <= 16 {
			w.poolAdd(reflect.MapOf(t.Key(), t.Elem()), v, [3]uintptr{v.Pointer(), 0, 1})
		}
		if hasMem(t.Key(), 0) || hasMem(t.Elem(), 0) {
			it := v.MapRange()
			for n := 0; it.Next() && n < 64; n++ {
				w.walk(it.Key(), seen, depth+1, pool)
				w.walk(it.Value(), seen, depth+1, pool)
			}
		}
	case reflect.Ptr:
		if v.IsNil() || opaqueType(t.Elem()) {
			return
		}
		v = stripRO(v)
		k := visitKey{v.Pointer(), t, 0}
		if seen[k] {
			return
		}
		seen[k] = true
		w.addRegion(t.Elem(), v.UnsafePointer(), 1, "pointee of "+t.String())
		if pool {
			w.poolAdd(reflect.PointerTo(t.Elem()), v, [3]uintptr{v.Pointer(), 1, 2})
		}
		if hasMem(t.Elem(), 0) {
			w.walk(v.Elem(), seen, depth+1, pool)
		}
	case reflect.Interface:
		if !v.IsNil() {
			w.walk(v.Elem(), seen, depth+1, pool)
		}
	case reflect.Struct:
		if opaqueType(t) {
			return
		}
		for i := 0; i < v.NumField(); i++ {
			if hasMem(t.Field(i).Type, 0) {
				w.walk(v.Field(i), seen, depth+1, pool)
			}
		}
	case reflect.Array:
		if hasMem(t.Elem(), 0) {
			for i := 0; i < v.Len(); i++ {
				w.walk(v.Index(i), seen, depth+1, pool)
			}
		}
	}
}

func (w *World) poolSlice(v reflect.Value) {
	if v.Cap() > 24 {
		return
	}
	w.poolAdd(reflect.SliceOf(v.Type().Elem()), v, [3]uintptr{v.Pointer(), uintptr(v.Len()), uintptr(v.Cap())<<2 | 0})
}

func (w *World) poolAdd(key reflect.Type, v reflect.Value, id [3]uintptr) {
	if w.pooled[id] || len(w.pool[key]) >= 64 {
		return
	}
	w.pooled[id] = true
	if v.Type() != key {
		if !v.Type().ConvertibleTo(key) {
			return
		}
		v = v.Convert(key)
	}
	w.pool[key] = append(w.pool[key], v.Interface())
}

// ---------------------------------------------------------------------------------------- the check

func entryOf(name string) string {
	if i := strings.Index(name, "@"); i >= 0 {
		return name[:i]
	}
	return name
}

func (w *World) labelSuffix() string {
	if w.label == "" {
		return ""
	}
	return " -> ." + w.label
}

func (w *World) report(key, what string) {
	for _, v := range w.viol {
		if v.Key == key {
			return
		}
	}
	w.viol = append(w.viol, Violation{key, what})
}

// check compares every region / map / watched collection with its snapshot
func (w *World) check(stage string) {
	var changes []string
	for k, r := range w.regions {
		if r.ints != nil {
			for i, x := range r.ints {
				if x != r.snapInts[i] {
					if !w.exempt(r, i) {
						changes = append(changes, fmt.Sprintf("%s #%d (first seen at call %d) [%d]: %d -> %d", r.what, k, r.born, i, r.snapInts[i], x))
					}
					r.snapInts[i] = x
				}
			}
			continue
		}
		changed := false
		for i := 0; i < r.n; i++ {
			if !sameShallow(r.full.Index(i), r.snap.Index(i)) {
				if !w.exempt(r, i) {
					changes = append(changes, fmt.Sprintf("%s #%d (first seen at call %d) [%d]: %s -> %s", r.what, k, r.born, i, brief(r.snap.Index(i)), brief(r.full.Index(i))))
				}
				changed = true
			}
		}
		if changed {
			reflect.Copy(r.snap, r.full)
		}
	}
	for k, m := range w.mapList {
		if d := mapDiff(m); d != "" {
			changes = append(changes, fmt.Sprintf("Go map %s #%d (first seen at call %d): %s", m.m.Type(), k, m.born, d))
			m.snap = copyMap(m.m)
		}
	}
	for _, wt := range w.watchers {
		now := safeRender(wt.render)
		if now != wt.last {
			changes = append(changes, fmt.Sprintf("%s shows %s, showed %s before", wt.what, now, wt.last))
			wt.last = now
		}
	}
	if len(changes) > 0 {
		if len(changes) > 3 {
			changes = append(changes[:3], fmt.Sprintf("… %d more", len(changes)-3))
		}
		w.report("frame/"+entryOf(w.cur), fmt.Sprintf("%s%s%s wrote to memory that existed before the call: %s", w.cur, w.labelSuffix(), stage, strings.Join(changes, "; ")))
	}
}

func (w *World) exempt(r *region, i int) bool {
	if len(w.mayWrite) == 0 {
		return false
	}
	es := r.size / uintptr(r.n)
	lo := r.base + uintptr(i)*es
	for _, x := range w.mayWrite {
		if lo >= x[0] && lo+es <= x[1] {
			return true
		}
	}
	return false
}

func mapDiff(m *mapRec) string {
	if m.m.Len() != m.snap.Len() {
		return fmt.Sprintf("size %d -> %d", m.snap.Len(), m.m.Len())
	}
	it := m.snap.MapRange()
	for it.Next() {
		cur := m.m.MapIndex(it.Key())
		if !cur.IsValid() {
			return fmt.Sprintf("key %s removed", brief(it.Key()))
		}
		if !sameShallow(stripRO(cur), it.Value()) {
			return fmt.Sprintf("value at key %s: %s -> %s", brief(it.Key()), brief(it.Value()), brief(cur))
		}
	}
	return ""
}

func safeRender(f func() string) (out string) {
	defer func() {
		if p := recover(); p != nil {
			out = fmt.Sprintf("panic(%v)", p)
		}
	}()
	return f()
}
