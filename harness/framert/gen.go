package framert

// The value generator handed to the generated wrappers: pool-backed providers for slices / maps / pointers,
// constructors for the library's value types, stock (harness-implemented, non-writing) typeclass instances,
// and the callback protocol.

import (
	"fmt"
	"hash/fnv"
	"reflect"
	"sort"

	"github.com/csgura/fp"
	"github.com/csgura/fp/immutable"
	"github.com/csgura/fp/list"
	. "verifharness/common"
)

type Wrapper struct {
	Name   string
	Fn     func(*G)
	Weight int
	Fresh  bool
}

var Wrappers []Wrapper
var Static map[string]int

type G struct {
	rng  *Rng
	w    *World
	salt uint64
	cb   bool
}

func NewG(key, salt uint64, w *World) *G { return &G{rng: NewRng(key), w: w, salt: salt} }

// shapes of the slice arguments handed to the library (input-distribution histogram)
const (
	ShapeNil = iota
	ShapeEmpty
	ShapeLiveSpare
	ShapeLiveFull
	ShapeSub
	ShapeEmptyCap
	ShapeExtended
	ShapeNewWindow
	ShapeCount
)

var ShapeNames = [ShapeCount]string{"nil", "empty-no-capacity", "live-slice-with-spare-capacity", "live-slice-full", "sub-slice-sharing-array",
	"emptied-with-capacity", "re-extended-into-capacity", "window-into-new-base-array"}

type budgetExceeded struct{}

const callbackBudget = 4000

func (g *G) Int() int   { return g.rng.Range(-3, 12) }
func (g *G) Nat() int   { return g.rng.Intn(8) }
func (g *G) Bool() bool { return g.rng.Bool() }
func (g *G) Str() string {
	return Pick(g.rng, "", "a", "b", "ab", "k1", "zz", "[1,2]", "null", "7")
}
func (g *G) Err() error {
	if g.rng.Intn(6) == 0 {
		return nil
	}
	return E(g.rng.Intn(4))
}

// ---------------------------------------------------------------------------------------- call protocol

func (g *G) Begin(label string) {
	w := g.w
	if w.dirty {
		w.dirty = false
		w.check(" (while the harness built the arguments through library constructors)")
	}
	w.callNo++
	w.calls++
	w.label = label
	w.open = true
	w.budget = 0
}

func (g *G) End() {
	w := g.w
	w.open = false
	w.check("")
}

// Try isolates one observation / nested call: a panic of the library (Head of an empty list, …) must not
// hide the frame check of the call that raised it
func (g *G) Try(f func()) {
	defer func() {
		if p := recover(); p != nil {
			g.w.recovered(p)
		}
	}()
	f()
}

func (w *World) recovered(p any) {
	if _, ok := p.(budgetExceeded); ok {
		w.budgets++
	} else {
		w.panics++
	}
	if w.open {
		w.open = false
		w.check(" (panicked)")
	}
}

// Out: a result of the library — everything reachable from it is tracked from now on and joins the pool
func (g *G) Out(v any) {
	if v == nil {
		return
	}
	w := g.w
	w.checkingFresh = w.fresh
	w.walk(reflect.ValueOf(v), map[visitKey]bool{}, 0, true)
	w.checkingFresh = false
}

// MayWrite: the pointee of a pointer RECEIVER is the one thing a method may legitimately write
func (g *G) MayWrite(p any) {
	v := reflect.ValueOf(p)
	if v.Kind() != reflect.Ptr || v.IsNil() {
		return
	}
	g.w.addRegion(v.Type().Elem(), v.UnsafePointer(), 1, "pointee of "+v.Type().String())
	g.w.mayWrite = append(g.w.mayWrite, [2]uintptr{v.Pointer(), v.Pointer() + v.Type().Elem().Size()})
}

func hashAny(h uint64, a any, d int) uint64 {
	mix := func(x uint64) uint64 {
		h ^= x + 0x9E3779B97F4A7C15 + (h << 6) + (h >> 2)
		return h
	}
	switch x := a.(type) {
	case int:
		return mix(uint64(x))
	case bool:
		if x {
			return mix(1)
		}
		return mix(2)
	case string:
		f := fnv.New64a()
		f.Write([]byte(x))
		return mix(f.Sum64())
	case nil:
		return mix(3)
	}
	return hashValue(h, reflect.ValueOf(a), d)
}

func hashValue(h uint64, v reflect.Value, d int) uint64 {
	mix := func(x uint64) { h ^= x + 0x9E3779B97F4A7C15 + (h << 6) + (h >> 2) }
	if !v.IsValid() || d > 5 {
		mix(7)
		return h
	}
	switch v.Kind() {
	case reflect.Bool:
		if v.Bool() {
			mix(1)
		} else {
			mix(2)
		}
	case reflect.Int, reflect.Int8, reflect.Int16, reflect.Int32, reflect.Int64:
		mix(uint64(v.Int()))
	case reflect.Uint, reflect.Uint8, reflect.Uint16, reflect.Uint32, reflect.Uint64, reflect.Uintptr:
		mix(v.Uint())
	case reflect.Float32, reflect.Float64:
		mix(uint64(int64(v.Float() * 16)))
	case reflect.String:
		f := fnv.New64a()
		f.Write([]byte(v.String()))
		mix(f.Sum64())
	case reflect.Slice, reflect.Array:
		mix(uint64(v.Len()))
		for i := 0; i < v.Len() && i < 16; i++ {
			h = hashValue(h, v.Index(i), d+1)
		}
	case reflect.Map:
		mix(uint64(v.Len()))
	case reflect.Ptr, reflect.Interface:
		if v.IsNil() {
			mix(5)
		} else {
			h = hashValue(h, v.Elem(), d+1)
		}
	case reflect.Struct:
		if opaqueType(v.Type()) {
			mix(11)
			break
		}
		for i := 0; i < v.NumField(); i++ {
			h = hashValue(h, v.Field(i), d+1)
		}
	default:
		mix(13)
	}
	return h
}

// CB: entry of a generated callback. The child generator is a pure function of (call salt, callback site,
// arguments), so a callback's answers do not depend on how often or in which order the library invokes it.
// Arguments that carry memory were handed to user code by the library: they are tracked like results.
func (g *G) CB(site int, args ...any) *G {
	w := g.w
	w.budget++
	if w.budget > callbackBudget {
		panic(budgetExceeded{})
	}
	h := g.salt ^ (uint64(site) * 0xD6E8FEB86659FD93)
	for _, a := range args {
		switch a.(type) {
		case int, bool, string:
		default:
			if a != nil {
				w.walk(reflect.ValueOf(a), map[visitKey]bool{}, 0, true)
			}
		}
		h = hashAny(h, a, 0)
	}
	return &G{rng: NewRng(h), w: w, salt: g.salt, cb: true}
}

// ---------------------------------------------------------------------------------------- pool-backed providers

func (g *G) register(v any) {
	g.w.walk(reflect.ValueOf(v), map[visitKey]bool{}, 0, true)
}

// Slice: nil, empty, a live slice of the pool (as is, a sub-slice sharing its array, re-extended into its
// spare capacity, emptied with capacity), or a window with spare capacity into a new base array
func Slice[X any](g *G, el func(*G) X) []X {
	c := g.rng.Intn(100)
	switch {
	case c < 5:
		g.w.Shape[ShapeNil]++
		return nil
	case c < 8:
		g.w.Shape[ShapeEmpty]++
		return []X{}
	}
	key := reflect.TypeOf([]X(nil))
	if cands := g.w.pool[key]; len(cands) > 0 && c < 82 {
		s := cands[g.rng.Intn(len(cands))].([]X)
		switch m := g.rng.Intn(12); {
		case m < 6:
			if cap(s) > len(s) {
				g.w.Shape[ShapeLiveSpare]++
			} else {
				g.w.Shape[ShapeLiveFull]++
			}
			return s
		case m < 8:
			g.w.Shape[ShapeSub]++
			i := g.rng.Intn(len(s) + 1)
			j := i + g.rng.Intn(len(s)-i+1)
			return s[i:j]
		case m < 9:
			g.w.Shape[ShapeSub]++
			i := g.rng.Intn(len(s) + 1)
			j := i + g.rng.Intn(len(s)-i+1)
			k := j + g.rng.Intn(cap(s)-j+1)
			return s[i:j:k]
		case m < 10:
			g.w.Shape[ShapeEmptyCap]++
			return s[:0]
		default:
			g.w.Shape[ShapeExtended]++
			return s[:len(s)+g.rng.Intn(cap(s)-len(s)+1)]
		}
	}
	g.w.Shape[ShapeNewWindow]++
	n := g.rng.Intn(9)
	base := make([]X, n)
	for i := range base {
		base[i] = el(g)
	}
	off := g.rng.Intn(n + 1)
	ln := g.rng.Intn(n - off + 1)
	if g.rng.Intn(3) > 0 && n-off > 0 {
		ln = 1 + g.rng.Intn(n-off) // mostly non-empty
		if g.rng.Intn(2) == 0 && ln > 1 {
			ln-- // leave spare capacity
		}
	}
	cp := ln + g.rng.Intn(n-off-ln+1)
	if g.rng.Intn(3) > 0 {
		cp = n - off
	}
	g.register(base)
	s := base[off : off+ln : off+cp]
	g.register(s)
	return s
}

// OwnedBuf: a private buffer for an append-convention `buf` parameter
func OwnedBuf[X any](g *G, el func(*G) X) []X {
	n := g.rng.Intn(4)
	b := make([]X, n, n+g.rng.Intn(6))
	for i := range b {
		b[i] = el(g)
	}
	return b
}

func GoMap[K comparable, V any](g *G, k func(*G) K, v func(*G) V) map[K]V {
	c := g.rng.Intn(100)
	if c < 6 {
		return nil
	}
	key := reflect.TypeOf(map[K]V(nil))
	if cands := g.w.pool[key]; len(cands) > 0 && c < 70 {
		return cands[g.rng.Intn(len(cands))].(map[K]V)
	}
	n := g.rng.Intn(5)
	m := make(map[K]V, n)
	for i := 0; i < n; i++ {
		m[k(g)] = v(g)
	}
	g.register(m)
	return m
}

func Ptr[X any](g *G, el func(*G) X) *X {
	c := g.rng.Intn(100)
	if c < 12 {
		return nil
	}
	key := reflect.TypeOf((*X)(nil))
	if cands := g.w.pool[key]; len(cands) > 0 && c < 60 {
		return cands[g.rng.Intn(len(cands))].(*X)
	}
	if c < 75 {
		// a pointer INTO a live slice's backing array
		if ss := g.w.pool[reflect.TypeOf([]X(nil))]; len(ss) > 0 {
			if s := ss[g.rng.Intn(len(ss))].([]X); len(s) > 0 {
				return &s[g.rng.Intn(len(s))]
			}
		}
	}
	p := new(X)
	*p = el(g)
	g.register(p)
	return p
}

// ---------------------------------------------------------------------------------------- library value types

func Opt[X any](g *G, el func(*G) X) fp.Option[X] {
	if g.rng.Intn(4) == 0 {
		return fp.None[X]()
	}
	return fp.Some(el(g))
}

func TryOf[X any](g *G, el func(*G) X) fp.Try[X] {
	if g.rng.Intn(4) == 0 {
		return fp.Failure[X](E(g.rng.Intn(4)))
	}
	return fp.Success(el(g))
}

func Eith[L, R any](g *G, l func(*G) L, r func(*G) R) fp.Either[L, R] {
	if g.rng.Intn(3) == 0 {
		return fp.Left[L, R](l(g))
	}
	return fp.Right[L, R](r(g))
}

// Iter: a fresh iterator over a pool slice (the harness's own cursor: no library code involved)
func Iter[X any](g *G, el func(*G) X) fp.Iterator[X] {
	s := Slice(g, el)
	i := 0
	return fp.MakeIterator(func() bool { return i < len(s) }, func() X {
		if i >= len(s) {
			panic("next on empty iterator")
		}
		x := s[i]
		i++
		return x
	})
}

// IterSeq: a range-over-func sequence over a pool slice
func IterSeq[X any](g *G, el func(*G) X) func(yield func(X) bool) {
	s := Slice(g, el)
	return func(yield func(X) bool) {
		for _, x := range s {
			if !yield(x) {
				return
			}
		}
	}
}

type IterableT[X any] struct{ mk func() fp.Iterator[X] }

func (r IterableT[X]) Iterator() fp.Iterator[X] { return r.mk() }

func IterableOf[X any](g *G, el func(*G) X) IterableT[X] {
	s := Slice(g, el)
	return IterableT[X]{func() fp.Iterator[X] { return fp.IteratorOfSeq(s) }}
}

func Lst[X any](g *G, el func(*G) X) fp.List[X] {
	g.w.dirty = true
	s := Slice(g, el)
	switch g.rng.Intn(3) {
	case 0:
		return list.Of(s...)
	case 1:
		return list.FromSlice(s)
	}
	var l fp.List[X] = list.Empty[X]()
	for i := len(s) - 1; i >= 0; i-- {
		l = list.Apply(s[i], l)
	}
	return l
}

func AsType[T any](v any) T {
	t, _ := v.(T)
	return t
}

func FMap[K, V any](g *G, k func(*G) K, v func(*G) V) fp.Map[K, V] {
	g.w.dirty = true
	if g.rng.Intn(8) == 0 {
		return fp.Map[K, V]{}
	}
	n := g.rng.Intn(6)
	ts := make([]fp.Tuple2[K, V], n)
	for i := range ts {
		ts[i] = fp.Tuple2[K, V]{I1: k(g), I2: v(g)}
	}
	return immutable.Map(GHash[K](), ts...)
}

func FSet[V any](g *G, v func(*G) V) fp.Set[V] {
	g.w.dirty = true
	if g.rng.Intn(8) == 0 {
		return fp.Set[V]{}
	}
	n := g.rng.Intn(6)
	xs := make([]V, n)
	for i := range xs {
		xs[i] = v(g)
	}
	return immutable.Set(GHash[V](), xs...)
}

func FSetMinimal[V any](g *G, v func(*G) V) fp.SetMinimal[V] {
	g.w.dirty = true
	n := g.rng.Intn(6)
	xs := make([]V, n)
	for i := range xs {
		xs[i] = v(g)
	}
	return immutable.SetMinimal(GHash[V](), xs...)
}

// Fut: an already completed future (all executors run inline, see main.go: the history stays single-threaded)
func Fut[X any](g *G, el func(*G) X) fp.Future[X] {
	g.w.dirty = true
	p := fp.NewPromise[X]()
	if g.rng.Intn(4) == 0 {
		p.Failure(E(g.rng.Intn(4)))
	} else {
		p.Success(el(g))
	}
	return p.Future()
}

func Prom[X any](g *G, el func(*G) X) fp.Promise[X] {
	g.w.dirty = true
	p := fp.NewPromise[X]()
	switch g.rng.Intn(3) {
	case 0:
		p.Success(el(g))
	case 1:
		p.Failure(E(g.rng.Intn(4)))
	}
	return p
}

type InlineExec struct{}

func (InlineExec) ExecuteUnsafe(r fp.Runnable) { r.Run() }

// ---------------------------------------------------------------------------------------- draining opaque results

const drainLimit = 24

func Drain[X any](g *G, it fp.Iterator[X]) (out []X) {
	g.Begin("(draining the returned iterator)")
	defer func() {
		if p := recover(); p != nil {
			g.w.recovered(p)
		} else {
			g.End()
		}
	}()
	for i := 0; i < drainLimit && it.HasNext(); i++ {
		out = append(out, it.Next())
	}
	return out
}

func DrainList[X any](g *G, l fp.List[X]) (out []X) {
	if l == nil {
		return nil
	}
	g.Begin("(walking the returned list)")
	defer func() {
		if p := recover(); p != nil {
			g.w.recovered(p)
		} else {
			g.End()
		}
	}()
	for i := 0; i < drainLimit && l != nil && l.NonEmpty(); i++ {
		out = append(out, l.Head())
		l = l.Tail()
	}
	return out
}

// WatchIter: a strict collection (fp.Map / fp.Set) must show the same contents forever
func WatchIter[X any](g *G, what string, mk func() fp.Iterator[X]) {
	w := g.w
	if len(w.watchers) >= 8 {
		return
	}
	render := func() string {
		var parts []string
		it := mk()
		for i := 0; i < 64 && it.HasNext(); i++ {
			parts = append(parts, deepShow(reflect.ValueOf(it.Next()), 0))
		}
		sort.Strings(parts)
		return fmt.Sprint(parts)
	}
	w.watchers = append(w.watchers, &watcher{what: what, render: render, last: safeRender(render)})
}

// ---------------------------------------------------------------------------------------- the record element type

// Rec: the struct-with-slice element type (second instantiation variant)
type Rec struct {
	ID int
	Xs []int
}

func RecOf(g *G) Rec {
	return Rec{ID: g.Int(), Xs: Slice(g, func(g *G) int { return g.Int() })}
}

// deepShow: a deterministic, address-free rendering (used by the stock instances)
func deepShow(v reflect.Value, d int) string {
	if !v.IsValid() {
		return "nil"
	}
	if d > 6 {
		return "…"
	}
	v = stripRO(v)
	switch v.Kind() {
	case reflect.Bool, reflect.Int, reflect.Int8, reflect.Int16, reflect.Int32, reflect.Int64, reflect.Uint, reflect.Uint8, reflect.Uint16,
		reflect.Uint32, reflect.Uint64, reflect.Uintptr, reflect.Float32, reflect.Float64, reflect.Complex64, reflect.Complex128:
		return fmt.Sprint(v.Interface())
	case reflect.String:
		return fmt.Sprintf("%q", v.String())
	case reflect.Slice, reflect.Array:
		if v.Kind() == reflect.Slice && v.IsNil() {
			return "[]"
		}
		parts := make([]string, v.Len())
		for i := range parts {
			parts[i] = deepShow(v.Index(i), d+1)
		}
		return fmt.Sprint(parts)
	case reflect.Map:
		var parts []string
		it := v.MapRange()
		for it.Next() {
			parts = append(parts, deepShow(it.Key(), d+1)+":"+deepShow(it.Value(), d+1))
		}
		sort.Strings(parts)
		return "map" + fmt.Sprint(parts)
	case reflect.Ptr, reflect.Interface:
		if v.IsNil() {
			return "nil"
		}
		if v.Kind() == reflect.Ptr {
			return "&" + deepShow(v.Elem(), d+1)
		}
		return deepShow(v.Elem(), d+1)
	case reflect.Struct:
		if opaqueType(v.Type()) {
			return "<" + v.Type().Name() + ">"
		}
		parts := make([]string, v.NumField())
		for i := range parts {
			parts[i] = deepShow(v.Field(i), d+1)
		}
		return "{" + fmt.Sprint(parts) + "}"
	case reflect.Func:
		return "<func>"
	}
	return "<" + v.Kind().String() + ">"
}

func showOf[T any](x T) string { return deepShow(reflect.ValueOf(&x).Elem(), 0) }

// ---------------------------------------------------------------------------------------- stock instances
// Harness-implemented, reflection based, never writing: what the wrappers pass wherever the library asks for an
// instance. (The library's own instances are enumerated entries themselves and are exercised as RESULTS.)

type gEq[T any] struct{}

func (gEq[T]) Eqv(a, b T) bool { return showOf(a) == showOf(b) }
func GEq[T any]() fp.Eq[T]     { return gEq[T]{} }

type gOrd[T any] struct{ gEq[T] }

func (gOrd[T]) Less(a, b T) bool {
	var x, y any = a, b
	if i, ok := x.(int); ok {
		return i < y.(int)
	}
	sa, sb := showOf(a), showOf(b)
	if len(sa) != len(sb) {
		return len(sa) < len(sb)
	}
	return sa < sb
}
func GOrd[T any]() fp.Ord[T] { return fp.LessFunc[T](gOrd[T]{}.Less) }

type gHash[T any] struct{ gEq[T] }

func (gHash[T]) Hash(a T) uint32 {
	f := fnv.New32a()
	f.Write([]byte(showOf(a)))
	return f.Sum32() & 0x3ff // few distinct hashes: collisions are exercised
}
func GHash[T any]() fp.Hashable[T] { return gHash[T]{} }

func GShow[T any]() fp.Show[T] { return fp.ShowFunc[T](func(a T) string { return showOf(a) }) }

func deepClone(v reflect.Value) reflect.Value {
	v = stripRO(v)
	switch v.Kind() {
	case reflect.Slice:
		if v.IsNil() {
			return v
		}
		c := reflect.MakeSlice(v.Type(), v.Len(), v.Len())
		for i := 0; i < v.Len(); i++ {
			c.Index(i).Set(deepClone(v.Index(i)))
		}
		return c
	case reflect.Map:
		if v.IsNil() {
			return v
		}
		c := reflect.MakeMapWithSize(v.Type(), v.Len())
		it := v.MapRange()
		for it.Next() {
			c.SetMapIndex(deepClone(it.Key()), deepClone(it.Value()))
		}
		return c
	case reflect.Ptr:
		if v.IsNil() || opaqueType(v.Type().Elem()) {
			return v
		}
		c := reflect.New(v.Type().Elem())
		c.Elem().Set(deepClone(v.Elem()))
		return c
	case reflect.Struct:
		if opaqueType(v.Type()) {
			return v
		}
		c := reflect.New(v.Type()).Elem()
		c.Set(v)
		for i := 0; i < v.NumField(); i++ {
			if hasMem(v.Type().Field(i).Type, 0) {
				stripRO(c.Field(i)).Set(deepClone(v.Field(i)))
			}
		}
		return c
	}
	return v
}

func GClone[T any]() fp.Clone[T] {
	return fp.CloneFunc[T](func(a T) T {
		return deepClone(reflect.ValueOf(&a).Elem()).Interface().(T)
	})
}

// the stock monoid: Empty = zero value, Combine keeps the left operand unless it is the zero value
// (associative, zero is the identity; it never allocates or writes)
type gMonoid[T any] struct{}

func (gMonoid[T]) Empty() T { var z T; return z }
func (gMonoid[T]) Combine(a, b T) T {
	var x any = a
	if i, ok := x.(int); ok {
		var y any = b
		return any(i + y.(int)).(T)
	}
	if reflect.ValueOf(&a).Elem().IsZero() {
		return b
	}
	return a
}
func GMonoid[T any]() fp.Monoid[T]       { return gMonoid[T]{} }
func GSemigroup[T any]() fp.Semigroup[T] { return gMonoid[T]{} }
