#!/usr/bin/env python3
"""Hand-made single-site mutations of package future's arity families, to see which check catches each.
Usage: mutants_future.py [name…]   (WS = parent of this directory; the repo worktree must be clean in future/)"""
import os, subprocess, sys, re, shutil

HERE = os.path.dirname(os.path.abspath(__file__))
WS = os.path.dirname(HERE)
REPO = os.path.join(WS, 'repo')
OUT = os.path.join(WS, 'out', 'mut')
ORACLE = os.path.join(WS, 'lean', '.lake', 'build', 'bin', 'oracle_future')
ENV = dict(os.environ, GOFLAGS='-mod=mod', GOPROXY='off', GOSUMDB='off', GOTOOLCHAIN='local', VERIF_REPO=REPO)

AG = 'future/applicative_gen.go'
FG = 'future/func_gen.go'
FO = 'future/future_op.go'


def method(recv, name):
    """regex matching the body of method `name` of receiver type `recv` (up to the closing brace at column 0)"""
    return re.compile(r'(func \(r %s\[[^\]]*\]\) %s\([^\n]*\n)(.*?)(\n}\n)' % (recv, name), re.S)


def sub_method(src, recv, name, fn):
    m = method(recv, name).search(src)
    assert m, (recv, name)
    body = fn(m.group(2))
    assert body != m.group(2), 'mutation did not change ' + recv + '.' + name
    return src[:m.start(2)] + body + src[m.end(2):]


def func(name):
    return re.compile(r'(func %s\[[^\n]*\n)(.*?)(\n}\n)' % name, re.S)


def sub_func(src, name, fn):
    m = func(name).search(src)
    assert m, name
    body = fn(m.group(2))
    assert body != m.group(2), 'mutation did not change ' + name
    return src[:m.start(2)] + body + src[m.end(2):]


MUTANTS = {
    # the same defect keeping the Flatten(Map2) shape: only the ORDER in which the operands are awaited changes
    'M17_LiftM2_subtle_order': (FO, lambda s: sub_func(s, 'LiftM2', lambda b: b.replace(
        'return Flatten(Map2(a, b, fab, ctx...))',
        'return Flatten(Map2(b, a, func(vb B, va A) fp.Future[R] { return fab(va, vb) }, ctx...))'))),
    # hand-written Map2 awaits b first
    'M18_Map2_second_first': (FO, lambda s: sub_func(s, 'Map2', lambda b: b.replace(
        '''	return FlatMap(a, func(v1 A) fp.Future[U] {
		return Map(b, func(v2 B) U {
			return f(v1, v2)
		}, ctx...)
	}, ctx...)''', '''	return FlatMap(b, func(v2 B) fp.Future[U] {
		return Map(a, func(v1 A) U {
			return f(v1, v2)
		}, ctx...)
	}, ctx...)'''))),
    # hand-written Ap awaits the operand before the function
    'M19_Ap_operand_first': (FO, lambda s: sub_func(s, 'Ap', lambda b: b.replace(
        '''	return FlatMap(t, func(f fp.Func1[T, U]) fp.Future[U] {
		return Map(a, f, ctx...)
	}, ctx...)''', '''	return FlatMap(a, func(x T) fp.Future[U] {
		return Map(t, func(f fp.Func1[T, U]) U { return f(x) }, ctx...)
	}, ctx...)'''))),
    # Zip3 zips (c1, c3, c2) and repairs the tuple
    'M20_Zip3_order': (FO, lambda s: sub_func(s, 'Zip3', lambda b: b.replace(
        'return LiftA3(as.Tuple3[A, B, C])(c1, c2, c3)',
        'return LiftA3(func(a A, c C, b B) fp.Tuple3[A, B, C] { return as.Tuple3(a, b, c) })(c1, c3, c2)'))),
    # Future.FlatMap method completes with the outer failure only after ... (drops the failure branch ordering): use RecoverWith-like path
    'M21_LiftA2_drop_ctx': (FO, lambda s: sub_func(s, 'LiftA2', lambda b: b.replace('return Map2(a1, a2, f, ctx...)', 'return Map2(a1, a2, f)'))),
    # second seeded defect (hand-written): LiftM2 binds the second argument first
    'M16_LiftM2_second_first': (FO, lambda s: sub_func(s, 'LiftM2', lambda b: b.replace(
        'return Flatten(Map2(a, b, fab, ctx...))',
        'return FlatMap(b, func(vb B) fp.Future[R] { return FlatMap(a, func(va A) fp.Future[R] { return fab(va, vb) }) })'))),
    # the seeded defect: supplier invoked while the chain is being built
    'M1_chain5_ApFutureFunc_eager': (AG, lambda s: sub_method(s, 'MonadChain5', 'ApFutureFunc', lambda b: '\n\treturn r.ApFuture(a())')),
    # a dropped ctx...
    'M2_chain4_ApFunc_drop_ctx': (AG, lambda s: sub_method(s, 'MonadChain4', 'ApFunc', lambda b: b.replace('}, ctx...)', '})'))),
    # Map2 operands swapped in one arity's ApFuture (the new hlist waits for r.h first, then for a)
    'M3_chain6_ApFuture_swap_Map2': (AG, lambda s: sub_method(s, 'MonadChain6', 'ApFuture', lambda b: b.replace(
        'nh := Map2(a, r.h, hlist.Concat[A1, H])', 'nh := Map2(r.h, a, func(h H, a A1) hlist.Cons[A1, H] { return hlist.Concat(a, h) })'))),
    # ApTryFunc evaluated eagerly at one arity of ApplicativeFunctorN
    'M4_ap3_ApTryFunc_eager': (AG, lambda s: sub_method(s, 'ApplicativeFunctor3', 'ApTryFunc', lambda b: '\n\treturn r.ApTry(a())')),
    # LiftM5: the recursion visits operand 3 before operand 2 (the closest type-correct form of an off-by-one)
    'M5_LiftM5_operand_order': (FG, lambda s: sub_func(s, 'LiftM5', lambda b: b.replace(
        '''			return LiftM4(func(a2 A2, a3 A3, a4 A4, a5 A5) fp.Future[R] {
				return f(a1, a2, a3, a4, a5)
			}, exec...)(ins2, ins3, ins4, ins5)''',
        '''			return LiftM4(func(a3 A3, a2 A2, a4 A4, a5 A5) fp.Future[R] {
				return f(a1, a2, a3, a4, a5)
			}, exec...)(ins3, ins2, ins4, ins5)'''))),
    # off-by-one in the recursion of FlapN: Flap4 forgets to pass exec on to Flap3
    'M6_Flap4_drop_exec': (FG, lambda s: sub_func(s, 'Flap4', lambda b: b.replace('Successful(a1)), exec...)', 'Successful(a1)))'))),
    # supplier evaluated eagerly but still inside the deferred future (ApTryFunc at chain arity 7)
    'M7_chain7_ApTryFunc_eager_value': (AG, lambda s: sub_method(s, 'MonadChain7', 'ApTryFunc', lambda b: b.replace(
        'av := FlatMap(r.h, func(v H) fp.Future[A1] {\n\t\treturn FromTry(a())', 't := a()\n\tav := FlatMap(r.h, func(v H) fp.Future[A1] {\n\t\treturn FromTry(t)'))),
    # arity 1 (hand-written) ApFunc eager
    'M8_chain1_ApFunc_eager': (FO, lambda s: sub_method(s, 'MonadChain1', 'ApFunc', lambda b: '\n\treturn r.Ap(a())')),
    # hand-written ApplicativeFunctor1.ApFutureFunc eager
    'M9_ap1_ApFutureFunc_eager': (FO, lambda s: sub_method(s, 'ApplicativeFunctor1', 'ApFutureFunc', lambda b: '\n\treturn r.ApFuture(a())')),
    # supplier called twice
    'M10_chain2_ApFutureFunc_twice': (AG, lambda s: sub_method(s, 'MonadChain2', 'ApFutureFunc', lambda b: b.replace('return a()', 'a()\n\t\treturn a()'))),
    # the new hlist forgets the earlier values (and does not wait for them)
    'M11_chain8_ApFuture_hlist_drops_tail': (AG, lambda s: sub_method(s, 'MonadChain8', 'ApFuture', lambda b: b.replace(
        'nh := Map2(a, r.h, hlist.Concat[A1, H])', 'nh := Map(a, func(x A1) hlist.Cons[A1, H] { var t H; return hlist.Concat(x, t) })'))),
    # MethodN: Method6 passes exec to nothing
    'M12_Method6_drop_exec': (FG, lambda s: sub_func(s, 'Method6', lambda b: b.replace('}, exec...)', '})'))),
    # LiftA7 drops exec on the outer FlatMap only
    'M13_LiftA7_drop_outer_exec': (FG, lambda s: sub_func(s, 'LiftA7', lambda b: b.replace('\t\t}, exec...)\n', '\t\t})\n'))),
    # Compose4 composes in the wrong association but same order: Compose2(Compose3(f1,f2,f3), f4)
    'M14_Compose4_assoc': (FG, lambda s: sub_func(s, 'Compose4', lambda b: b.replace(
        'Compose2(f1, Compose3(f2, f3, f4, exec...), exec...)', 'Compose2(Compose3(f1, f2, f3, exec...), f4, exec...)'))),
    # ApplicativeFunctor5.ApFuture waits for the operand before the function: FlatMap(a, x => Map(r.fn, f => f(x)))
    'M15_ap5_ApFuture_operand_first': (AG, lambda s: sub_method(s, 'ApplicativeFunctor5', 'ApFuture', lambda b: b.replace(
        'Ap(r.fn, a)', 'FlatMap(a, func(x A1) fp.Future[fp.Func1[A2, fp.Func1[A3, fp.Func1[A4, fp.Func1[A5, R]]]]] { return Map(r.fn, func(f fp.Func1[A1, fp.Func1[A2, fp.Func1[A3, fp.Func1[A4, fp.Func1[A5, R]]]]]) fp.Func1[A2, fp.Func1[A3, fp.Func1[A4, fp.Func1[A5, R]]]] { return f(x) }) })'))),
}


def sh(cmd, **kw):
    p = subprocess.run(cmd, stdout=subprocess.PIPE, stderr=subprocess.STDOUT, text=True, env=ENV, **kw)
    return p.returncode, p.stdout


def run(name, seeds=(1000, 1001), n=3000):
    rel, mut = MUTANTS[name]
    path = os.path.join(REPO, rel)
    orig = open(path).read()
    try:
        open(path, 'w').write(mut(orig))
        rc, out = sh([sys.executable, os.path.join(HERE, 'gen_future.py')], cwd=HERE)
        exe = os.path.join(OUT, 'h_' + name)
        rc, out = sh(['go', 'build', '-tags', 'verif', '-o', exe, './cmd/future'], cwd=HERE)
        if rc != 0:
            return name + ': DOES NOT COMPILE: ' + out[-400:]
        mism, keys, first = 0, {}, None
        for seed in seeds:
            d = os.path.join(OUT, name + '_' + str(seed))
            shutil.rmtree(d, ignore_errors=True)
            os.makedirs(d)
            rc, out = sh([exe, '-seed', str(seed), '-n', str(n), '-out', d])
            ops = open(os.path.join(d, 'ops.txt')).read().split('\n')
            impl = open(os.path.join(d, 'impl.txt')).read().split('\n')
            orc = subprocess.run([ORACLE], stdin=open(os.path.join(d, 'ops.txt')), stdout=subprocess.PIPE, text=True).stdout.split('\n')
            for i, (a, b) in enumerate(zip(orc, impl)):
                if a != b:
                    mism += 1
                    if first is None:
                        first = ops[i]
            for line in open(os.path.join(d, 'direct.txt')):
                k = line.split('\t')[0]
                keys[k] = keys.get(k, 0) + 1
        return '%s: correspondence mismatches=%d direct=%s' % (name, mism, keys or '{}')
    finally:
        open(path, 'w').write(orig)


if __name__ == '__main__':
    os.makedirs(OUT, exist_ok=True)
    names = sys.argv[1:] or sorted(MUTANTS, key=lambda k: int(re.match(r'M(\d+)', k).group(1)))
    for nm in names:
        print(run(nm), flush=True)
    sh([sys.executable, os.path.join(HERE, 'gen_future.py')], cwd=HERE)
