#!/usr/bin/env python3
"""Generates harness/cmd/arity/main.go: the correspondence + direct harness of C14 (arity-indexed
generated families).  Go generics must be instantiated statically, so the harness needs one call
site per family member x arity; this generator emits them.

* The members x arities that EXIST are read from the repository's source with regular expressions
  (VERIF_REPO, default /repo), the arity LIMITS from internal/max/max.go.
* Every member found in the scanned files must have an emitter below, and every member the limits
  promise must exist in the source; each discrepancy becomes a `coverage` direct failure of the
  generated harness (it is compiled into the binary, the binary reports it on every run).
Re-run by bin/check before every build, exactly like gen_monad.py."""
import os, re, sys, collections

HERE = os.path.dirname(os.path.abspath(__file__))
REPO = os.environ.get('VERIF_REPO', '/repo')


def read(rel):
    try:
        return open(os.path.join(REPO, rel)).read()
    except Exception:
        return ''


def limits():
    src = read('internal/max/max.go')
    out = {}
    for name, dflt in (('Product', 22), ('Func', 10), ('Compose', 6)):
        m = re.search(r'const %s = (\d+)' % name, src)
        out[name] = int(m.group(1)) if m else dflt
    return out


# ------------------------------------------------------------------------------------------------
# what exists in the source

GEN_FILES = {
    'tuple_gen.go': 'fp', 'labelled_gen.go': 'fp', 'func_gen.go': 'fp',
    'as/func_gen.go': 'as', 'as/tuple_gen.go': 'as', 'as/labelled_gen.go': 'as',
    'curried/curried_gen.go': 'curried',
    'hlist/case_gen.go': 'hlist', 'hlist/lift_gen.go': 'hlist', 'hlist/of_gen.go': 'hlist', 'hlist/reverse_gen.go': 'hlist',
    'product/tuple_gen.go': 'product', 'fn1/arrow_func_gen.go': 'fn1', 'unit/func_gen.go': 'unit',
    'lazy/tailcall_gen.go': 'lazy', 'option/applicative_gen.go': 'option', 'try/applicative_gen.go': 'try',
    'try/func_gen.go': 'try', 'try/curried_gen.go': 'try', 'iterator/func_gen.go': 'iterator',
}

FUNC_RE = re.compile(r'^func (?:\(\w+ \*?([A-Za-z]+?)(\d+)\[[^)]*\) )?([A-Za-z]+?)(\d*)([A-Za-z]*)[\[(]', re.M)


def scan():
    """-> {source family name: set of arities}.  Functions `XnY` are family `pkg.XNY` at arity n; methods of
    a receiver `Tn` are family `pkg.TN.Method` at arity n."""
    found = collections.defaultdict(set)
    for rel, pkg in GEN_FILES.items():
        for m in FUNC_RE.finditer(read(rel)):
            rt, rn, name, num, suffix = m.groups()
            if name[:1].islower():
                # an UNEXPORTED helper is not a member of a public family (second harmless round, C02-h2-h4: a private
                # `MonadChainN.bind` helper was reported as a coverage gap WITH a "concrete failing input")
                continue
            if rt:
                fam = '%s.%sN.%s%s%s' % (pkg, rt, name, 'N' if num else '', suffix)
                found[fam].add(int(rn))
            elif num:
                found['%s.%sN%s' % (pkg, name, suffix)].add(int(num))
            else:
                found['%s.%s%s' % (pkg, name, suffix)].add(0)
    return found


# hand-written arity-1/2 (and 0) members the generated ones bottom out in: (family, arity, file, regex)
BASE = [
    ('fp.TupleN.Head', 1, 'fp.go', r'func \(r Tuple1\[T1\]\) Head\('),
    ('fp.TupleN.Tail', 1, 'fp.go', r'func \(r Tuple1\[T1\]\) Tail\('),
    ('fp.LabelledN.Head', 1, 'fp.go', r'func \(r Labelled1\[T1\]\) Head\('),
    ('fp.LabelledN.Tail', 1, 'fp.go', r'func \(r Labelled1\[T1\]\) Tail\('),
    ('fp.FuncN.ApplyFirstN', 2, 'fp.go', r'func \(r Func2\[A1, A2, R\]\) ApplyFirst\('),
    ('fp.FuncN.ApplyLastN', 2, 'fp.go', r'func \(r Func2\[A1, A2, R\]\) ApplyLast\('),
    ('fp.FuncN.Widen', 2, 'fp.go', r'func \(r Func2\[A1, A2, R\]\) Widen\('),
    ('fp.Compose', 2, 'fp.go', r'^func Compose\['),
    ('fp.ComposeN', 2, 'fp.go', r'^func Compose2\['),
    ('fp.Id', 1, 'fp.go', r'^func Id\['),
    ('fp.Flip', 2, 'fp.go', r'^func Flip\['),
    ('fp.Flip2', 2, 'fp.go', r'^func Flip2\['),
    ('as.Func0', 0, 'as/as.go', r'^func Func0\['),
    ('as.Tupled2', 2, 'as/as.go', r'^func Tupled2\['),
    ('curried.Func1', 1, 'curried/curried.go', r'^func Func1\['),
    ('curried.Flip', 1, 'curried/curried.go', r'^func Flip\['),
    ('curried.FlipApply', 1, 'curried/curried.go', r'^func FlipApply\['),
    ('curried.ComposeN', 2, 'curried/curried.go', r'^func Compose2\['),
    ('hlist.OfN', 1, 'hlist/hlist.go', r'^func Of1\['),
    ('hlist.CaseN', 1, 'hlist/hlist.go', r'^func Case1\['),
    ('hlist.LiftN', 1, 'hlist/hlist.go', r'^func Lift1\['),
    ('hlist.RiftN', 1, 'hlist/hlist.go', r'^func Rift1\['),
    ('product.TupleN', 2, 'product/product_op.go', r'^func Tuple2\['),
    ('product.TupleFromHListN', 1, 'product/product_op.go', r'^func TupleFromHList1\['),
    ('product.LabelledFromHListN', 1, 'product/product_op.go', r'^func LabelledFromHList1\['),
    ('product.FlattenN', 3, 'product/product_op.go', r'^func Flatten3\['),
    ('fn1.Merge', 2, 'fn1/arrow1.go', r'^func Merge\['),
    ('fn1.MergeN', 2, 'fn1/arrow1.go', r'^func Merge2\['),
    ('try.FuncN', 0, 'try/try_op.go', r'^func Func0\['),
    ('try.PureN', 0, 'try/try_op.go', r'^func Pure0\['),
    ('try.UnitN', 0, 'try/try_op.go', r'^func Unit0\('),
    # ARITY2: hand-written members of the lazy.FuncN / unit.FuncN families
    ('lazy.FuncN', 1, 'lazy/lazy.go', r'^func Func1\['),
    ('lazy.FuncN', 2, 'lazy/lazy.go', r'^func Func2\['),
    ('lazy.FuncN', 3, 'lazy/lazy.go', r'^func Func3\['),
    ('unit.FuncN', 0, 'unit/unit_op.go', r'^func Func0\('),
]
for _pkg, _file in (('option', 'option/option_op.go'), ('try', 'try/try_op.go')):
    BASE.append((_pkg + '.ChainN', 1, _file, r'^func Chain1\['))
    BASE.append((_pkg + '.ApplicativeN', 1, _file, r'^func Applicative1\['))
    for _m in ('FlatMap', 'Map', 'HListMap', 'HListFlatMap', 'ApOption', 'Ap', 'ApOptionFunc', 'ApFunc') + (
            ('ApTry', 'ApTryFunc') if _pkg == 'try' else ()):
        BASE.append(('%s.MonadChainN.%s' % (_pkg, _m), 1, _file, r'func \(r MonadChain1\[H, HT, A, R\]\) %s\(' % _m))
    for _m in ('ApOption', 'Ap', 'ApOptionFunc', 'ApFunc') + (('ApTry', 'ApTryFunc') if _pkg == 'try' else ()):
        BASE.append(('%s.ApplicativeFunctorN.%s' % (_pkg, _m), 1, _file, r'func \(r ApplicativeFunctor1\[A, R\]\) %s\(' % _m))


# ------------------------------------------------------------------------------------------------
# small Go text helpers

def anys(n):
    return ', '.join(['any'] * n)


def xs(n, off=0, v='x'):
    return ', '.join('%s[%d]' % (v, i + off) for i in range(n))


def pdecl(n):
    return (', '.join('p%d' % i for i in range(1, n + 1)) + ' any') if n else ''


def pcall(n):
    return ', '.join('p%d' % i for i in range(1, n + 1))


def nfun(n, callee='fn', ret='any'):
    if ret == '':
        return 'func(%s) { %s(%s) }' % (pdecl(n), callee, pcall(n))
    return 'func(%s) %s { return %s(%s) }' % (pdecl(n), ret, callee, pcall(n))


def tupT(n, kind='Tuple', el='any'):
    return 'fp.%s%d[%s]' % (kind, n, ', '.join([el] * n))


def tupLit(n, v='x'):
    return '%s{%s}' % (tupT(n), ', '.join('I%d: %s[%d]' % (i + 1, v, i) for i in range(n)))


def labLit(n, v='x'):
    return '%s{%s}' % (tupT(n, 'Labelled', 'NV'), ', '.join('I%d: nv(%s[%d])' % (i + 1, v, i) for i in range(n)))


def hlLit(n, v='x', wrap='%s'):
    s = 'hlist.Empty()'
    for i in reversed(range(n)):
        s = 'hlist.Concat(%s, %s)' % (wrap % ('%s[%d]' % (v, i)), s)
    return s


def nestT(k):
    return 'fp.Tuple2[any, any]' if k == 2 else 'fp.Tuple2[any, %s]' % nestT(k - 1)


def nestLit(i, n):
    k = n - i
    if k == 2:
        return 'fp.Tuple2[any, any]{I1: x[%d], I2: x[%d]}' % (i, i + 1)
    return '%s{I1: x[%d], I2: %s}' % (nestT(k), i, nestLit(i + 1, n))


def curT(k, res='any'):
    t = res
    for _ in range(k):
        t = 'fp.Func1[any, %s]' % t
    return t


def curLit(n):
    """a logging curried function of n arguments around fn: levels 1..n-1 log cur<level>:<arg>"""
    def build(level):
        if level == n:
            return 'func(p%d any) any { return fn(%s) }' % (n, pcall(n))
        return 'func(p%d any) %s { Emit("cur%d:%%s", Show(p%d)); return %s }' % (level, curT(n - level), level, level, build(level + 1))
    return '%s(%s)' % (curT(n), build(1))


def apps(n, v='x', off=0):
    return ''.join('(%s[%d])' % (v, i + off) for i in range(n))


# ------------------------------------------------------------------------------------------------
# emitters: op family -> (shape, body(n)) ; `a` = op arguments after the family name and the arity

E = {}          # op family -> dict(shape=, body=fn(n)->go statements, src=[source families it covers], arities=fn(lim)->iterable)


def emitter(op, shape, src, arities):
    def deco(f):
        E[op] = dict(shape=shape, body=f, src=src if isinstance(src, list) else [src], arities=arities)
        return f
    return deco


PROD = lambda lo: (lambda L: range(lo, L['Product']))
FUNC = lambda lo, d=0: (lambda L: range(lo, L['Func'] - d))

for _kind, _K, _lit in (('tuple', 'Tuple', tupLit), ('labelled', 'Labelled', labLit)):
    def _mk(kind=_kind, K=_K, lit=_lit):
        @emitter(kind + '.Head', 'xs', 'fp.%sN.Head' % K, PROD(1))
        def _(n):
            return 'x := ints(a)\n\tt := %s\n\treturn Show(t.Head())' % lit(n)

        @emitter(kind + '.Last', 'xs', 'fp.%sN.Last' % K, PROD(2))
        def _(n):
            return 'x := ints(a)\n\tt := %s\n\treturn Show(t.Last())' % lit(n)

        @emitter(kind + '.Init', 'xs', 'fp.%sN.Init' % K, PROD(2))
        def _(n):
            rs = ', '.join('r%d' % i for i in range(1, n))
            return 'x := ints(a)\n\tt := %s\n\t%s := t.Init()\n\treturn Show([]any{%s})' % (lit(n), rs, rs)

        @emitter(kind + '.Tail', 'xs', 'fp.%sN.Tail' % K, PROD(1))
        def _(n):
            if n == 1:
                return 'x := ints(a)\n\tt := %s\n\treturn Show(t.Tail())' % lit(n)
            rs = ', '.join('r%d' % i for i in range(2, n + 1))
            return 'x := ints(a)\n\tt := %s\n\t%s := t.Tail()\n\treturn Show([]any{%s})' % (lit(n), rs, rs)

        @emitter(kind + '.Unapply', 'xs', 'fp.%sN.Unapply' % K, PROD(2))
        def _(n):
            rs = ', '.join('r%d' % i for i in range(1, n + 1))
            return 'x := ints(a)\n\tt := %s\n\t%s := t.Unapply()\n\treturn Show([]any{%s})' % (lit(n), rs, rs)

        @emitter(kind + '.String', 'xs', 'fp.%sN.String' % K, PROD(2))
        def _(n):
            return 'x := ints(a)\n\tt := %s\n\treturn Show(t.String())' % lit(n)
    _mk()


@emitter('fp.ApplyFirst', 'F xs', 'fp.FuncN.ApplyFirstN', FUNC(2))
def _(n):
    m = 'ApplyFirst' if n == 2 else 'ApplyFirst%d' % (n - 1)
    return ('fn := fnOf(a[0])\n\tx := ints(a[1:])\n\tg := fp.Func%d[%s, any](%s).%s(%s)\n\tEmit("built")\n\tr1 := g(x[%d])\n\tr2 := g(x[%d])\n\treturn Show([]any{r1, r2})'
            % (n, anys(n), nfun(n), m, xs(n - 1), n - 1, n - 1))


@emitter('fp.ApplyLast', 'F xs', 'fp.FuncN.ApplyLastN', FUNC(2))
def _(n):
    m = 'ApplyLast' if n == 2 else 'ApplyLast%d' % (n - 1)
    return ('fn := fnOf(a[0])\n\tx := ints(a[1:])\n\tg := fp.Func%d[%s, any](%s).%s(%s)\n\tEmit("built")\n\tr1 := g(x[0])\n\tr2 := g(x[0])\n\treturn Show([]any{r1, r2})'
            % (n, anys(n), nfun(n), m, xs(n - 1, 1)))


@emitter('fp.Widen', 'F xs', 'fp.FuncN.Widen', FUNC(2))
def _(n):
    return 'fn := fnOf(a[0])\n\tx := ints(a[1:])\n\treturn Show(fp.Func%d[%s, any](%s).Widen()(%s))' % (n, anys(n), nfun(n), xs(n))


@emitter('fp.Compose', 'x ks', 'fp.Compose', lambda L: [2])
def _(n):
    return 'return Show(fp.Compose(F1Of(a[1]), F1Of(a[2]))(any(a[0].Int())))'


@emitter('fp.ComposeN', 'x ks', 'fp.ComposeN', lambda L: range(2, L['Compose']))
def _(n):
    if n == 2:
        return 'return Show(fp.Compose2(F1Of(a[1]), F1Of(a[2]))(any(a[0].Int())))'
    fs = ', '.join('fp.Func1[any, any](F1Of(a[%d]))' % (i + 1) for i in range(n))
    return 'return Show(fp.Compose%d(%s)(any(a[0].Int())))' % (n, fs)


@emitter('fp.Id', 'xs', 'fp.Id', lambda L: [1])
def _(n):
    return 'x := ints(a)\n\treturn Show(fp.Id(x[0]))'


@emitter('fp.IdN', 'xs', 'fp.IdN', FUNC(2))
def _(n):
    return 'x := ints(a)\n\treturn Show(fp.Id%d(%s))' % (n, xs(n))


@emitter('fp.Flip', 'C xs', 'fp.Flip', lambda L: [2])
def _(n):
    return 'fn := fnOf(a[0].List[1])\n\tx := ints(a[1:])\n\treturn Show(fp.Flip(%s)(x[0])(x[1]))' % curLit(2)


@emitter('fp.Flip2', 'F xs', 'fp.Flip2', lambda L: [2])
def _(n):
    return 'fn := fnOf(a[0])\n\tx := ints(a[1:])\n\treturn Show(fp.Flip2(%s)(x[0])(x[1]))' % nfun(2)


@emitter('as.Func0', 'F xs', 'as.Func0', lambda L: [0])
def _(n):
    return 'fn := fnOf(a[0])\n\treturn Show(as.Func0(func() any { return fn() })(fp.Unit{}))'


@emitter('as.FuncN', 'F xs', 'as.FuncN', FUNC(1))
def _(n):
    return 'fn := fnOf(a[0])\n\tx := ints(a[1:])\n\treturn Show(as.Func%d(%s)(%s))' % (n, nfun(n), xs(n))


@emitter('as.SupplierN', 'F xs', 'as.SupplierN', FUNC(1))
def _(n):
    return ('fn := fnOf(a[0])\n\tx := ints(a[1:])\n\ts := as.Supplier%d(%s, %s)\n\tEmit("built")\n\tr1 := s()\n\tr2 := s()\n\treturn Show([]any{r1, r2})'
            % (n, nfun(n), xs(n)))


@emitter('as.CurriedN', 'F xs', 'as.CurriedN', FUNC(2))
def _(n):
    return 'fn := fnOf(a[0])\n\tx := ints(a[1:])\n\treturn Show(as.Curried%d(%s)%s)' % (n, nfun(n), apps(n))


@emitter('as.UnTupledN', 'F xs', 'as.UnTupledN', FUNC(2))
def _(n):
    fields = ', '.join('t.I%d' % i for i in range(1, n + 1))
    return ('fn := fnOf(a[0])\n\tx := ints(a[1:])\n\treturn Show(as.UnTupled%d(func(t %s) any { return fn(%s) })(%s))'
            % (n, tupT(n), fields, xs(n)))


@emitter('as.Tupled2', 'F xs', 'as.Tupled2', lambda L: [2])
def _(n):
    return 'fn := fnOf(a[0])\n\tx := ints(a[1:])\n\treturn Show(as.Tupled2(fp.Func2[any, any, any](%s))(%s))' % (nfun(2), tupLit(2))


@emitter('as.TupleN', 'xs', 'as.TupleN', PROD(1))
def _(n):
    return 'x := ints(a)\n\treturn Show(as.Tuple%d(%s))' % (n, xs(n))


@emitter('as.LabelledN', 'xs', 'as.LabelledN', PROD(1))
def _(n):
    return 'x := ints(a)\n\treturn Show(as.Labelled%d(%s))' % (n, ', '.join('nv(x[%d])' % i for i in range(n)))


@emitter('as.HListN', 'xs', 'as.HListN', PROD(1))
def _(n):
    return 'x := ints(a)\n\treturn showH(as.HList%d(%s))' % (n, tupLit(n))


@emitter('as.HListNLabelled', 'xs', 'as.HListNLabelled', PROD(1))
def _(n):
    return 'x := ints(a)\n\treturn showH(as.HList%dLabelled(%s))' % (n, labLit(n))


@emitter('curried.Func1', 'F xs', 'curried.Func1', lambda L: [1])
def _(n):
    return 'fn := fnOf(a[0])\n\tx := ints(a[1:])\n\treturn Show(curried.Func1(%s)(x[0]))' % nfun(1)


@emitter('curried.FuncN', 'F xs', 'curried.FuncN', FUNC(2))
def _(n):
    return 'fn := fnOf(a[0])\n\tx := ints(a[1:])\n\treturn Show(curried.Func%d(%s)%s)' % (n, nfun(n), apps(n))


@emitter('curried.RevertN', 'C xs', 'curried.RevertN', FUNC(2))
def _(n):
    return 'fn := fnOf(a[0].List[1])\n\tx := ints(a[1:])\n\treturn Show(curried.Revert%d(%s)(%s))' % (n, curLit(n), xs(n))


@emitter('curried.Flip', 'C xs+1', 'curried.Flip', lambda L: [1])
def _(n):
    return 'fn := fnOf(a[0].List[1])\n\tx := ints(a[1:])\n\treturn Show(curried.Flip(%s)%s)' % (curLit(2), apps(2))


@emitter('curried.FlipN', 'C xs+1', 'curried.FlipN', FUNC(2, 1))
def _(n):
    return 'fn := fnOf(a[0].List[1])\n\tx := ints(a[1:])\n\treturn Show(curried.Flip%d(%s)%s)' % (n, curLit(n + 1), apps(n + 1))


@emitter('curried.SlipLN', 'C xs', 'curried.SlipLN', FUNC(3))
def _(n):
    return 'fn := fnOf(a[0].List[1])\n\tx := ints(a[1:])\n\treturn Show(curried.SlipL%d(%s)%s)' % (n, curLit(n), apps(n))


@emitter('curried.ComposeN', 'C G xs', 'curried.ComposeN', FUNC(2))
def _(n):
    return ('fn := fnOf(a[0].List[1])\n\tx := ints(a[2:])\n\treturn Show(curried.Compose%d(%s, fp.Func1[any, any](F1Of(a[1])))%s)'
            % (n, curLit(n), apps(n)))


@emitter('curried.FlipApply', 'C xs+1', 'curried.FlipApply', lambda L: [1])
def _(n):
    return 'fn := fnOf(a[0].List[1])\n\tx := ints(a[1:])\n\treturn Show(curried.FlipApply(%s, x[1])(x[0]))' % curLit(2)


@emitter('curried.FlipApplyN', 'C xs+1', 'curried.FlipApplyN', FUNC(2, 1))
def _(n):
    return ('fn := fnOf(a[0].List[1])\n\tx := ints(a[1:])\n\treturn Show(curried.FlipApply%d(%s, %s)(x[0]))'
            % (n, curLit(n + 1), xs(n, 1)))


@emitter('hlist.OfN', 'xs', 'hlist.OfN', PROD(1))
def _(n):
    return 'x := ints(a)\n\treturn showH(hlist.Of%d(%s))' % (n, xs(n))


@emitter('hlist.CaseN', 'F xs?', 'hlist.CaseN', PROD(1))
def _(n):
    return ('fn := fnOf(a[0])\n\tx := ints(a[1:])\n\tif len(x) == %d {\n\t\treturn Show(hlist.Case%d(%s, %s))\n\t}\n\treturn Show(hlist.Case%d(%s, %s))'
            % (n, n, hlLit(n), nfun(n), n, hlLit(n + 1), nfun(n)))


@emitter('hlist.LiftN', 'F xs', 'hlist.LiftN', FUNC(1))
def _(n):
    return 'fn := fnOf(a[0])\n\tx := ints(a[1:])\n\treturn Show(hlist.Lift%d(%s)(%s))' % (n, nfun(n), hlLit(n))


@emitter('hlist.RiftN', 'F xs', 'hlist.RiftN', FUNC(1))
def _(n):
    return 'fn := fnOf(a[0])\n\tx := ints(a[1:])\n\treturn Show(hlist.Rift%d(%s)(%s))' % (n, nfun(n), hlLit(n))


@emitter('hlist.ReverseN', 'xs', 'hlist.ReverseN', FUNC(2))
def _(n):
    return 'x := ints(a)\n\treturn showH(hlist.Reverse%d(%s))' % (n, hlLit(n))


@emitter('product.TupleN', 'xs', 'product.TupleN', PROD(2))
def _(n):
    return 'x := ints(a)\n\treturn Show(product.Tuple%d(%s))' % (n, xs(n))


@emitter('product.TupleFromHListN', 'xs', 'product.TupleFromHListN', PROD(1))
def _(n):
    return 'x := ints(a)\n\treturn Show(product.TupleFromHList%d(%s))' % (n, hlLit(n))


@emitter('product.LabelledFromHListN', 'xs', 'product.LabelledFromHListN', PROD(1))
def _(n):
    return 'x := ints(a)\n\treturn Show(product.LabelledFromHList%d(%s))' % (n, hlLit(n, wrap='nv(%s)'))


@emitter('product.FlattenN', 'xs', 'product.FlattenN', PROD(3))
def _(n):
    return 'x := ints(a)\n\treturn Show(product.Flatten%d(%s))' % (n, nestLit(0, n))


@emitter('product.LiftN', 'F xs', 'product.LiftN', PROD(2))
def _(n):
    return 'fn := fnOf(a[0])\n\tx := ints(a[1:])\n\treturn Show(product.Lift%d(%s)(%s))' % (n, nfun(n), tupLit(n))


@emitter('fn1.Merge', 'x ks', 'fn1.Merge', lambda L: [2])
def _(n):
    return 'r1, r2 := fn1.Merge(F1Of(a[1]), F1Of(a[2]))(any(a[0].Int()))\n\treturn Show([]any{r1, r2})'


@emitter('fn1.MergeN', 'x ks', 'fn1.MergeN', FUNC(2))
def _(n):
    return 'return Show(fn1.Merge%d(%s)(any(a[0].Int())))' % (n, ', '.join('F1Of(a[%d])' % (i + 1) for i in range(n)))


@emitter('unit.FuncN', 'F xs', 'unit.FuncN', FUNC(0))
def _(n):
    if n == 0:
        return 'fn := fnOf(a[0])\n\treturn Show(unit.Func0(func() { fn() })(fp.Unit{}))'
    return 'fn := fnOf(a[0])\n\tx := ints(a[1:])\n\treturn Show(unit.Func%d(%s)(%s))' % (n, nfun(n, ret=''), xs(n))


@emitter('lazy.FuncN', 'FW xs', 'lazy.FuncN', lambda L: [1, 2, 3])
def _(n):
    return ('fn := fnOf(a[0])\n\tx := ints(a[1:])\n\te := lazy.Func%d(%s)(%s)\n\tEmit("built")\n\tr1 := e.Get()\n\tr2 := e.Get()\n\treturn Show([]any{r1, r2})'
            % (n, nfun(n), xs(n)))


@emitter('lazy.TailCallN', 'FW xs', 'lazy.TailCallN', FUNC(1))
def _(n):
    return ('fn := fnOf(a[0])\n\tx := ints(a[1:])\n\te := lazy.TailCall%d(func(%s) lazy.Eval[any] { return lazy.Done(fn(%s)) }, %s)\n\tEmit("built")\n\treturn Show(e.Get())'
            % (n, pdecl(n), pcall(n), xs(n)))


def _tryf(op, cb, sig, src, lo):
    @emitter('try.' + op + 'N', cb + ' xs', 'try.' + src + 'N', FUNC(lo))
    def _(n):
        cbk = {'FE': 'feOf', 'F': 'fnOf', 'FU': 'fuOf', 'FP': 'fpOf'}[cb]
        if n == 0:
            return 'fn := %s(a[0])\n\treturn Show(ftry.%s0(func() %s { return fn() })(fp.Unit{}))' % (cbk, op, sig)
        return 'fn := %s(a[0])\n\tx := ints(a[1:])\n\treturn Show(ftry.%s%d(%s)(%s))' % (cbk, op, n, nfun(n, ret=sig), xs(n))


_tryf('Func', 'FE', '(any, error)', 'Func', 0)
_tryf('Pure', 'F', 'any', 'Pure', 0)
_tryf('Unit', 'FU', 'error', 'Unit', 0)
_tryf('Ptr', 'FP', '(*any, error)', 'Ptr', 1)


def _tryc(op, cb, sig, explicit):
    @emitter('try.' + op + 'N', cb + ' xs', 'try.' + op + 'N', FUNC(2))
    def _(n):
        cbk = {'FE': 'feOf', 'F': 'fnOf', 'FU': 'fuOf', 'FP': 'fpOf'}[cb]
        targs = '[%s, any]' % anys(n) if explicit else ''
        return 'fn := %s(a[0])\n\tx := ints(a[1:])\n\treturn Show(ftry.%s%d%s(%s)%s)' % (cbk, op, n, targs, nfun(n, ret=sig), apps(n))


_tryc('Curried', 'FE', '(any, error)', False)
_tryc('CurriedPure', 'F', 'any', False)
_tryc('CurriedUnit', 'FU', 'error', True)
_tryc('CurriedPtr', 'FP', '(*any, error)', False)


@emitter('iterator.FlapN', 'TF xs', 'iterator.FlapN', FUNC(3))
def _(n):
    return ('x := ints(a[1:])\n\tvar tf fp.Iterator[%s]\n\tif a[0].Head() == "pureF" {\n\t\tfn := fnOf(a[0].List[1])\n\t\ttf = iterator.Of(%s)\n\t} else {\n\t\ttf = iterator.Of[%s]()\n\t}\n\treturn Show(iterator.Flap%d(tf)%s.ToSeq())'
            % (curT(n), curLit(n), curT(n), n, apps(n)))


@emitter('iterator.MethodN', 'F it xs-1', 'iterator.MethodN', FUNC(3))
def _(n):
    return ('fn := fnOf(a[0])\n\tit := iterator.FromSeq(fp.Seq[any](ints(a[1].List[1:])))\n\tx := ints(a[2:])\n\treturn Show(iterator.Method%d(it, %s)(%s).ToSeq())'
            % (n, nfun(n), xs(n - 1)))


# builders: one op family per package and builder; the METHODS are separate coverage members
PKG_METHODS = {
    'option': dict(chain=[('FlatMap', 'flatMap'), ('Map', 'map'), ('HListMap', 'hlistMap'), ('HListFlatMap', 'hlistFlatMap'),
                          ('ApOption', 'apM'), ('Ap', 'ap'), ('ApOptionFunc', 'apMFunc'), ('ApFunc', 'apFunc')],
                   ap=[('ApOption', 'apM'), ('Ap', 'ap'), ('ApOptionFunc', 'apMFunc'), ('ApFunc', 'apFunc')]),
    'try': dict(chain=[('FlatMap', 'flatMap'), ('Map', 'map'), ('HListMap', 'hlistMap'), ('HListFlatMap', 'hlistFlatMap'),
                       ('ApTry', 'apM'), ('ApOption', 'apOpt'), ('Ap', 'ap'), ('ApTryFunc', 'apMFunc'),
                       ('ApOptionFunc', 'apOptFunc'), ('ApFunc', 'apFunc')],
                ap=[('ApTry', 'apM'), ('ApOption', 'apOpt'), ('Ap', 'ap'), ('ApTryFunc', 'apMFunc'),
                    ('ApOptionFunc', 'apOptFunc'), ('ApFunc', 'apFunc')]),
}
GOPKG = {'option': 'option', 'try': 'ftry'}
MT = {'option': 'fp.Option[%s]', 'try': 'fp.Try[%s]'}


def builder_support(pkg, maxk):
    """generic step functions: one per receiver arity"""
    P, M = GOPKG[pkg], MT[pkg]
    out = []
    w = out.append
    for k in range(1, maxk + 1):
        # MonadChain
        recv = '%s.MonadChain%d[H, HT, %s, any]' % (P, k, anys(k))
        nxt = (M % 'any') if k == 1 else '%s.MonadChain%d[hlist.Cons[any, H], any, %s, any]' % (P, k - 1, anys(k - 1))
        w('func %sChainStep%d[H hlist.Header[HT], HT any](r %s, s *Sx) %s {' % (pkg, k, recv, nxt))
        w('\tswitch s.Head() {')
        for meth, step in PKG_METHODS[pkg]['chain']:
            w('\tcase "%s":' % step)
            w('\t\treturn r.%s(%s)' % (meth, step_arg(pkg, step, 'chain')))
        w('\t}\n\tpanic("bad step " + s.String())\n}\n')
        # ApplicativeFunctor
        recv = '%s.ApplicativeFunctor%d[%s, any]' % (P, k, anys(k))
        nxt = (M % 'any') if k == 1 else '%s.ApplicativeFunctor%d[%s, any]' % (P, k - 1, anys(k - 1))
        w('func %sApStep%d(r %s, s *Sx) %s {' % (pkg, k, recv, nxt))
        w('\tswitch s.Head() {')
        for meth, step in PKG_METHODS[pkg]['ap']:
            w('\tcase "%s":' % step)
            w('\t\treturn r.%s(%s)' % (meth, step_arg(pkg, step, 'ap')))
        w('\t}\n\tpanic("bad step " + s.String())\n}\n')
    return '\n'.join(out)


def step_arg(pkg, step, kind):
    return {
        'apM': '%sM(s.List[1])' % pkg,
        'ap': 'stepVal(s.List[1])',
        'apMFunc': '%sSupM(s)' % pkg,
        'apFunc': 'supV(s)',
        'apOpt': 'optO(s.List[1])',
        'apOptFunc': 'supO(s)',
        'flatMap': '%sKHead[HT](s)' % pkg,
        'map': 'kHeadV[HT](s)',
        'hlistFlatMap': '%sKHList[H](s)' % pkg,
        'hlistMap': 'kHListV[H](s)',
    }[step]


def _builder(pkg, kind):
    P = GOPKG[pkg]
    ctor = 'Chain' if kind == 'chain' else 'Applicative'
    stepf = pkg + ('ChainStep' if kind == 'chain' else 'ApStep')
    srcs = ['%s.%sN' % (pkg, ctor)] + ['%s.%s.%s' % (pkg, 'MonadChainN' if kind == 'chain' else 'ApplicativeFunctorN', m)
                                      for m, _ in PKG_METHODS[pkg][kind]]

    @emitter('%s.%sN' % (pkg, ctor), kind, srcs, FUNC(1))
    def _(n):
        lines = ['fn := fnOf(a[0])', 'st := a[1:]',
                 'c%d := %s.%s%d(fp.Func%d[%s, any](%s))' % (n, P, ctor, n, n, anys(n), nfun(n))]
        for k in range(n, 1, -1):
            lines.append('c%d := %s%d(c%d, st[%d])' % (k - 1, stepf, k, k, n - k))
        lines.append('return Show(%s1(c1, st[%d]))' % (stepf, n - 1))
        return '\n\t'.join(lines)


for _p in ('option', 'try'):
    _builder(_p, 'chain')
    _builder(_p, 'ap')


# direct-only round-trip laws between members: name -> (needs, arities, body(n) returning got, want strings)
LAWS = {}


def law(name, shape, needs, arities):
    def deco(f):
        LAWS[name] = dict(shape=shape, needs=needs, arities=arities, body=f)
        return f
    return deco


@law('law.Revert.Func', 'F xs', lambda n: [('curried.RevertN', n), ('curried.FuncN', n)], FUNC(2))
def _(n):
    return ('fn := fnOf(a[0])\n\tx := ints(a[1:])\n\tgot = Outcome(func() string { return Show(curried.Revert%d(curried.Func%d(%s))(%s)) })\n\twant = Outcome(func() string { return Show(fn(x...)) })'
            % (n, n, nfun(n), xs(n)))


@law('law.SlipL.Flip', 'C xs', lambda n: [('curried.SlipLN', n), ('curried.FlipN', n - 1)], FUNC(3))
def _(n):
    return ('fn := fnOf(a[0].List[1])\n\tx := ints(a[1:])\n\tgot = Outcome(func() string { return Show(curried.SlipL%d(curried.Flip%d(%s))%s) })\n\twant = Outcome(func() string { return Show(%s%s) })'
            % (n, n - 1, curLit(n), apps(n), curLit(n), apps(n)))


@law('law.TupleFromHList.HList', 'xs', lambda n: [('product.TupleFromHListN', n), ('as.HListN', n)], PROD(1))
def _(n):
    return ('x := ints(a)\n\tt := %s\n\tgot = Show(product.TupleFromHList%d(as.HList%d(t)))\n\twant = Show(t)' % (tupLit(n), n, n))


@law('law.HList.TupleFromHList', 'xs', lambda n: [('product.TupleFromHListN', n), ('as.HListN', n)], PROD(1))
def _(n):
    return ('x := ints(a)\n\tgot = showH(as.HList%d(product.TupleFromHList%d(%s)))\n\twant = Show(x)' % (n, n, hlLit(n)))


@law('law.LabelledFromHList.HListLabelled', 'xs', lambda n: [('product.LabelledFromHListN', n), ('as.HListNLabelled', n)], PROD(1))
def _(n):
    return ('x := ints(a)\n\tt := %s\n\tgot = Show(product.LabelledFromHList%d(as.HList%dLabelled(t)))\n\twant = Show(t)' % (labLit(n), n, n))


@law('law.Reverse.Reverse', 'xs', lambda n: [('hlist.ReverseN', n)], FUNC(2))
def _(n):
    return 'x := ints(a)\n\tgot = showH(hlist.Reverse%d(hlist.Reverse%d(%s)))\n\twant = Show(x)' % (n, n, hlLit(n))


@law('law.Lift.Of', 'F xs', lambda n: [('hlist.LiftN', n), ('hlist.OfN', n)], FUNC(2))
def _(n):
    return ('fn := fnOf(a[0])\n\tx := ints(a[1:])\n\tgot = Outcome(func() string { return Show(hlist.Lift%d(%s)(hlist.Of%d(%s))) })\n\twant = Outcome(func() string { return Show(fn(x...)) })'
            % (n, nfun(n), n, xs(n)))


@law('law.Rift.Reverse.Of', 'F xs', lambda n: [('hlist.RiftN', n), ('hlist.ReverseN', n), ('hlist.OfN', n)], FUNC(2))
def _(n):
    return ('fn := fnOf(a[0])\n\tx := ints(a[1:])\n\tgot = Outcome(func() string { return Show(hlist.Rift%d(%s)(hlist.Reverse%d(hlist.Of%d(%s)))) })\n\twant = Outcome(func() string { return Show(fn(x...)) })'
            % (n, nfun(n), n, n, xs(n)))


@law('law.Case.Of', 'F xs', lambda n: [('hlist.CaseN', n), ('hlist.OfN', n)], PROD(2))
def _(n):
    return ('fn := fnOf(a[0])\n\tx := ints(a[1:])\n\tgot = Outcome(func() string { return Show(hlist.Case%d(hlist.Of%d(%s), %s)) })\n\twant = Outcome(func() string { return Show(fn(x...)) })'
            % (n, n, xs(n), nfun(n)))


@law('law.UnTupled.Lift', 'F xs', lambda n: [('as.UnTupledN', n), ('product.LiftN', n)], FUNC(2))
def _(n):
    return ('fn := fnOf(a[0])\n\tx := ints(a[1:])\n\tgot = Outcome(func() string { return Show(as.UnTupled%d(product.Lift%d(%s))(%s)) })\n\twant = Outcome(func() string { return Show(fn(x...)) })'
            % (n, n, nfun(n), xs(n)))


@law('law.Tuple.Unapply', 'xs', lambda n: [('as.TupleN', n), ('tuple.Unapply', n)], PROD(2))
def _(n):
    return 'x := ints(a)\n\tt := %s\n\tgot = Show(as.Tuple%d(t.Unapply()))\n\twant = Show(t)' % (tupLit(n), n)


@law('law.Tuple.HeadTail', 'xs', lambda n: [('as.TupleN', n), ('tuple.Head', n), ('tuple.Tail', n)], PROD(3))
def _(n):
    rs = ', '.join('r%d' % i for i in range(2, n + 1))
    return ('x := ints(a)\n\tt := %s\n\t%s := t.Tail()\n\tgot = Show(as.Tuple%d(t.Head(), %s))\n\twant = Show(t)' % (tupLit(n), rs, n, rs))


@law('law.Tuple.InitLast', 'xs', lambda n: [('as.TupleN', n), ('tuple.Init', n), ('tuple.Last', n)], PROD(3))
def _(n):
    rs = ', '.join('r%d' % i for i in range(1, n))
    return ('x := ints(a)\n\tt := %s\n\t%s := t.Init()\n\tgot = Show(as.Tuple%d(%s, t.Last()))\n\twant = Show(t)' % (tupLit(n), rs, n, rs))


@law('law.Curried.eq.Func', 'F xs', lambda n: [('as.CurriedN', n), ('curried.FuncN', n)], FUNC(2))
def _(n):
    return ('fn := fnOf(a[0])\n\tx := ints(a[1:])\n\tgot = Outcome(func() string { return Show(as.Curried%d(%s)%s) })\n\twant = Outcome(func() string { return Show(curried.Func%d(%s)%s) })'
            % (n, nfun(n), apps(n), n, nfun(n), apps(n)))


@law('law.iterator.Flap.Ap', 'F xs', lambda n: [('iterator.FlapN', n)], FUNC(3))
def _(n):
    # FlapN(tf)(a1)...(aN) = Ap(...Ap(Ap(tf, Of(a1)), Of(a2))..., Of(aN)) with a function iterator of TWO elements
    # (fresh iterators on both sides; whatever iterator.Ap does with a second function, both sides do)
    nest = 'iterator.Of(%s, %s)' % (curLit(n), curLit(n).replace('fn(', 'fn2('))
    for i in range(n):
        nest = 'iterator.Ap(%s, iterator.Of(x[%d]))' % (nest, i)
    return ('fn := fnOf(a[0])\n\tfn2 := func(xs ...any) any { Emit("second"); return fn(xs...) }\n\tx := ints(a[1:])\n\t'
            'got = Outcome(func() string { return Show(iterator.Flap%d(iterator.Of(%s, %s))%s.ToSeq()) })\n\t'
            'want = Outcome(func() string { return Show(%s.ToSeq()) })'
            % (n, curLit(n), curLit(n).replace('fn(', 'fn2('), apps(n), nest))


# ------------------------------------------------------------------------------------------------

def main():
    L = limits()
    found = scan()
    for fam, n, rel, rx in BASE:
        if re.search(rx, read(rel), re.M):
            found[fam].add(n)
    coverage = []            # (member, what)
    # source family -> op family
    src2op = {}
    for op, e in E.items():
        for s in e['src']:
            src2op[s] = op
    # 1. everything found must have an emitter
    exist = collections.defaultdict(set)       # op family -> arities that exist (for every source family it covers)
    for fam in sorted(found):
        if fam in src2op:
            continue
        coverage.append((fam, 'exists in the source (arities %s) but gen_arity.py has no harness for it' % sorted(found[fam])))
    # 2. everything the limits promise must exist; emit only what exists
    members = []             # (cov key, op family, arity, shape, forced first step)
    impl_cases = []
    for op, e in sorted(E.items()):
        want_ar = sorted(set(e['arities'](L)))
        main_src = e['src'][0]
        have = found.get(main_src, set())
        for n in want_ar:
            if n not in have:
                coverage.append(('%s/%d' % (main_src, n), 'promised by internal/max/max.go (limits %s) but not found in the source' % L))
        for n in sorted(have):
            if n not in want_ar:
                coverage.append(('%s/%d' % (main_src, n), 'found in the source but outside the range internal/max/max.go promises; exercised anyway'))
        for n in sorted(have):
            try:
                body = e['body'](n)
            except Exception as ex:          # an arity the emitter cannot express
                coverage.append(('%s/%d' % (main_src, n), 'emitter failed: %r' % ex))
                continue
            impl_cases.append('\t"%s/%d": func(a []*Sx) string {\n\t%s\n\t},' % (op, n, body.replace('\n', '\n\t')))
            exist[op].add(n)
            if e['shape'] in ('chain', 'ap'):
                pkg = op.split('.')[0]
                members.append(('%s/%d' % (main_src, n), op, n, e['shape'], ''))
                for (meth, step), src in zip(PKG_METHODS[pkg][e['shape']], e['src'][1:]):
                    if n in found.get(src, set()):
                        members.append(('%s/%d' % (src, n), op, n, e['shape'], step))
                    else:
                        coverage.append(('%s/%d' % (src, n), 'method promised by the builder template but not found in the source'))
                for src in e['src'][1:]:
                    for k in sorted(found.get(src, set())):
                        if k not in have:
                            coverage.append(('%s/%d' % (src, k), 'method exists but its constructor arity does not'))
            else:
                members.append(('%s/%d' % (main_src, n), op, n, e['shape'], ''))
    # builders need every step function up to the largest arity present
    maxk = max([max(exist.get(p + '.ChainN', {0}) | exist.get(p + '.ApplicativeN', {0})) for p in ('option', 'try')])
    support = []
    for pkg in ('option', 'try'):
        ks = exist.get(pkg + '.ChainN', set()) | exist.get(pkg + '.ApplicativeN', set())
        if ks:
            top = max(ks)
            # every arity below the top must exist too (the chain steps down one arity at a time)
            missing = [k for k in range(1, top + 1) if k not in found.get(pkg + '.MonadChainN.Ap', set())]
            if missing:
                coverage.append((pkg + '.MonadChainN', 'receiver arities %s missing: chains cannot be built' % missing))
            support.append(builder_support(pkg, top))
    # laws
    law_cases, law_members = [], []
    opex = {op: exist[op] for op in exist}
    for name, l in sorted(LAWS.items()):
        for n in sorted(set(l['arities'](L))):
            if all(k in opex.get(o, set()) for o, k in l['needs'](n)):
                law_cases.append('\t"%s/%d": func(a []*Sx) (got, want string) {\n\t%s\n\treturn\n\t},' % (name, n, l['body'](n).replace('\n', '\n\t')))
                law_members.append((name, n, l['shape']))
    src = TEMPLATE
    src = src.replace('@IMPLS@', '\n'.join(impl_cases))
    src = src.replace('@LAWS@', '\n'.join(law_cases))
    src = src.replace('@MEMBERS@', '\n'.join('\t{"%s", "%s", %d, "%s", "%s"},' % m for m in members))
    src = src.replace('@LAWMEMBERS@', '\n'.join('\t{"%s", %d, "%s"},' % m for m in law_members))
    src = src.replace('@COVERAGE@', '\n'.join('\t{%s, %s},' % (goq(k), goq(w)) for k, w in coverage))
    src = src.replace('@SUPPORT@', '\n'.join(support))
    src = src.replace('@MAXARITY@', '\n'.join('\t"%s": %d,' % (op, max(ks)) for op, ks in sorted(exist.items()) if E[op]['shape'] in ('chain', 'ap') and ks))
    src = src.replace('@LIMITS@', 'Product=%d Func=%d Compose=%d' % (L['Product'], L['Func'], L['Compose']))
    d = os.path.join(HERE, 'cmd', 'arity')
    os.makedirs(d, exist_ok=True)
    with open(os.path.join(d, 'main.go'), 'w') as w:
        w.write(src)
    sys.stderr.write('gen_arity: %d members, %d impl cases, %d law cases, %d coverage problems\n'
                     % (len(members), len(impl_cases), len(law_cases), len(coverage)))


def goq(s):
    return '"' + s.replace('\\', '\\\\').replace('"', '\\"') + '"'


TEMPLATE = open(os.path.join(HERE, 'arity_template.go.txt')).read() if os.path.exists(os.path.join(HERE, 'arity_template.go.txt')) else ''

if __name__ == '__main__':
    main()
