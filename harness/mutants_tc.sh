#!/bin/bash
# Mutation check of the tc / clone harnesses: apply ONE textual mutation to WS/repo, rebuild the harness,
# run a quick tier (4 seeds), report whether oracle diff or direct check caught it, revert.
#   usage: mutants.sh <cmd> <oracle> <extra-args> <file> <python-expr old> <python-expr new>
# (kept for the record of REPORT.md; not used by bin/check)
set -u
export GOFLAGS=-mod=mod GOPROXY=off GOSUMDB=off GOTOOLCHAIN=local
WS=$(cd "$(dirname "$0")/.." && pwd)
cmd=$1; oracle=$2; extra=$3; file=$4; old=$5; new=$6; n=${7:-1500}
cp "$WS/repo/$file" /tmp/mutant_backup.go
python3 - "$WS/repo/$file" "$old" "$new" <<'EOF'
import sys
p,old,new=sys.argv[1:4]
s=open(p).read()
if s.count(old)<1:
    print("MUTATION TEXT NOT FOUND"); sys.exit(3)
open(p,'w').write(s.replace(old,new,1))
EOF
rc=$?
if [ $rc -ne 0 ]; then cp /tmp/mutant_backup.go "$WS/repo/$file"; exit $rc; fi
caught=no
if ! (cd "$WS/harness" && go build -tags verif -o /tmp/mutant_bin ./cmd/$cmd 2>/tmp/mutant_build.txt); then
  echo "BUILD FAILED (mutant does not compile)"; head -5 /tmp/mutant_build.txt
else
  for seed in 1000 1001 1002 1003; do
    d=/tmp/mutant_out_$seed; rm -rf $d; mkdir -p $d
    timeout 300 /tmp/mutant_bin -seed $seed -n $n -out $d $extra > $d/stats.json 2>$d/stderr.txt
    "$WS/lean/.lake/build/bin/$oracle" < $d/ops.txt > $d/oracle.txt
    nd=$(diff $d/impl.txt $d/oracle.txt | grep -c '^<')
    nf=$(wc -l < $d/direct.txt)
    echo "seed $seed: oracle-mismatches=$nd direct-failures=$nf  $(cut -f1 $d/direct.txt | sort | uniq -c | sort -rn | head -3 | tr '\n' ';')"
    if [ "$nd" != "0" ] || [ "$nf" != "0" ]; then caught=yes; fi
  done
fi
cp /tmp/mutant_backup.go "$WS/repo/$file"
echo "CAUGHT=$caught"
