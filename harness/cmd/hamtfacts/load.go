package main

// Loading and type-checking the library's packages from the CURRENT sources of the repository
// (go/parser + go/types only; the standard library is type-checked from GOROOT source).
// Same scheme as cmd/atomfacts/load.go: the build tag `verif` is ON (the hooks are what we look at)
// and function bodies are only checked for the packages we extract from.

import (
	"fmt"
	"go/ast"
	"go/build"
	"go/importer"
	"go/parser"
	"go/token"
	"go/types"
	"os"
	"path/filepath"
	"strings"
)

const modPath = "github.com/csgura/fp"

type loader struct {
	repo   string
	fset   *token.FileSet
	std    types.Importer
	pkgs   map[string]*types.Package
	files  map[string][]*ast.File
	infos  map[string]*types.Info
	bodies map[string]bool // import paths whose function bodies are type-checked
	errs   []string
}

func newLoader(repo string, bodies map[string]bool) *loader {
	fset := token.NewFileSet()
	return &loader{repo: repo, fset: fset, std: importer.ForCompiler(fset, "source", nil),
		pkgs: map[string]*types.Package{}, files: map[string][]*ast.File{}, infos: map[string]*types.Info{}, bodies: bodies}
}

func (l *loader) Import(path string) (*types.Package, error) {
	if path == modPath || strings.HasPrefix(path, modPath+"/") {
		return l.load(path)
	}
	return l.std.Import(path)
}

func (l *loader) dirOf(path string) string {
	return filepath.Join(l.repo, strings.TrimPrefix(strings.TrimPrefix(path, modPath), "/"))
}

func (l *loader) parseDir(dir string) ([]*ast.File, error) {
	ctx := build.Default
	ctx.BuildTags = append(append([]string{}, ctx.BuildTags...), "verif")
	ents, err := os.ReadDir(dir)
	if err != nil {
		return nil, err
	}
	var files []*ast.File
	name := ""
	for _, e := range ents {
		n := e.Name()
		if e.IsDir() || !strings.HasSuffix(n, ".go") || strings.HasSuffix(n, "_test.go") {
			continue
		}
		if ok, _ := ctx.MatchFile(dir, n); !ok {
			continue
		}
		f, err := parser.ParseFile(l.fset, filepath.Join(dir, n), nil, 0)
		if err != nil {
			return nil, err
		}
		if name == "" {
			name = f.Name.Name
		}
		if f.Name.Name != name {
			continue
		}
		files = append(files, f)
	}
	return files, nil
}

func (l *loader) load(path string) (*types.Package, error) {
	if p, ok := l.pkgs[path]; ok {
		if p == nil {
			return nil, fmt.Errorf("import cycle through %s", path)
		}
		return p, nil
	}
	l.pkgs[path] = nil
	files, err := l.parseDir(l.dirOf(path))
	if err != nil {
		return nil, err
	}
	if len(files) == 0 {
		return nil, fmt.Errorf("no Go files in %s", path)
	}
	info := &types.Info{
		Defs:       map[*ast.Ident]types.Object{},
		Uses:       map[*ast.Ident]types.Object{},
		Selections: map[*ast.SelectorExpr]*types.Selection{},
		Types:      map[ast.Expr]types.TypeAndValue{},
	}
	conf := types.Config{Importer: l, IgnoreFuncBodies: !l.bodies[path],
		Error: func(err error) {
			if l.bodies[path] {
				l.errs = append(l.errs, err.Error())
			}
		}}
	p, _ := conf.Check(path, l.fset, files, info)
	l.pkgs[path] = p
	l.files[path] = files
	l.infos[path] = info
	return p, nil
}
