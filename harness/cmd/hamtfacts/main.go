// hamtfacts: regenerates FpVerif/Gen/HamtFacts.lean from the WORKING TREE's immutable/map.go on every run (Tie C of DESIGN.md,
// properties C03 / C04).  go/ast + go/types only.
//
// Extracted (everything declared in immutable/map.go):
//
//	consts       every package-level constant with its evaluated value (maxArrayMapSize, maxBitmapIndexedSize, mapNodeBits, ...)
//	structs      every struct type with its fields (name, type; array lengths evaluated: [mapNodeSize=32]mapNode)
//	ifaces       every interface type with its methods / embedded interfaces
//	methods      per receiver type the methods declared, in source order
//	nodeKinds    the struct types that declare every method of interface mapNode; leafKinds: ... of mapLeafNode
//	thresholds   every comparison one side of which is a compile-time constant and which either mentions a named constant or
//	             compares a len(...): (function, non-constant side, operator, constant side as written, value), constant on the right
//	frags        every `(x >> s) & m` expression: (function, expression)
//	shiftArgs    the argument handed to the parameter `shift` at every call of a function declared in map.go
//	popcounts    the argument of every bits.OnesCount* call
//	arrays       every local variable of array type: (function, element type, evaluated length) -- the iterator's stack
//	funcs        per function / method / closure its SKELETON: the statement tree as lines (depth, kind, text) with normalised
//	             expressions.  Normalisation: the receiver is `recv`; a local that is defined exactly once (`x := e` / `var x = e`),
//	             never assigned, stored through or address-taken afterwards, and whose `e` calls nothing (conversions / len aside) and reads no
//	             field / variable the function writes, is INLINED
//	             (its definition produces no line); any other local is `$<its type>` (`^name` when a closure shares it);
//	             type arguments are dropped.  So renaming locals or splitting / merging pure sub-expressions leaves the table unchanged.
//
// usage: hamtfacts REPO OUT.lean
package main

import (
	"fmt"
	"go/ast"
	"go/constant"
	"go/token"
	"go/types"
	"os"
	"path/filepath"
	"sort"
	"strconv"
	"strings"
)

const pkgPath = modPath + "/immutable"
const srcFile = "immutable/map.go"

type line struct {
	depth      int
	kind, text string
}

type fnOut struct {
	name  string
	lines []line
}

type extractor struct {
	l        *loader
	info     *types.Info
	file     string
	warnings []string
	out      []fnOut

	thresholds [][5]string
	frags      [][2]string
	shiftArgs  [][3]string
	popcounts  [][2]string
	arrays     [][3]string
}

type fctx struct {
	x        *extractor
	top      string // name of the enclosing declared function
	name     string
	recv     *types.Var
	params   map[*types.Var]bool
	defs     map[*types.Var]ast.Expr // inlinable locals
	captured map[*types.Var]bool
	litName  map[*ast.FuncLit]string
	lits     []*ast.FuncLit
	lines    []line
	inl      int // inlining depth guard
}

func q(s string) string { return strconv.Quote(s) }

func (x *extractor) warn(f string, a ...any) { x.warnings = append(x.warnings, fmt.Sprintf(f, a...)) }

func unparen(e ast.Expr) ast.Expr {
	for {
		p, ok := e.(*ast.ParenExpr)
		if !ok {
			return e
		}
		e = p.X
	}
}

// ---- types ----------------------------------------------------------------------------------------------------------

func typeName(t types.Type) string {
	switch v := types.Unalias(t).(type) {
	case *types.Pointer:
		return typeName(v.Elem())
	case *types.Named:
		return v.Obj().Name()
	case *types.Basic:
		return v.Name()
	case *types.Slice:
		return "[]" + typeName(v.Elem())
	case *types.Array:
		return fmt.Sprintf("[%d]%s", v.Len(), typeName(v.Elem()))
	case *types.TypeParam:
		return v.Obj().Name()
	case *types.Signature:
		return "func"
	case *types.Interface:
		return "interface"
	case *types.Map:
		return "map"
	case *types.Tuple:
		return "tuple"
	}
	return "?"
}

// a type as WRITTEN (constant names kept; array lengths also evaluated), type arguments dropped
func (x *extractor) typeExpr(e ast.Expr) string {
	switch v := e.(type) {
	case *ast.Ident:
		return v.Name
	case *ast.SelectorExpr:
		return x.typeExpr(v.X) + "." + v.Sel.Name
	case *ast.StarExpr:
		return "*" + x.typeExpr(v.X)
	case *ast.IndexExpr:
		return x.typeExpr(v.X)
	case *ast.IndexListExpr:
		return x.typeExpr(v.X)
	case *ast.ArrayType:
		if v.Len == nil {
			return "[]" + x.typeExpr(v.Elt)
		}
		n := "?"
		if tv, ok := x.info.Types[v.Len]; ok && tv.Value != nil {
			n = tv.Value.ExactString()
		}
		w := x.plain(v.Len)
		if w == n {
			return "[" + n + "]" + x.typeExpr(v.Elt)
		}
		return "[" + w + "=" + n + "]" + x.typeExpr(v.Elt)
	case *ast.FuncType:
		return "func"
	case *ast.InterfaceType:
		return "interface"
	case *ast.MapType:
		return "map[" + x.typeExpr(v.Key) + "]" + x.typeExpr(v.Value)
	case *ast.ParenExpr:
		return x.typeExpr(v.X)
	}
	return fmt.Sprintf("?%T", e)
}

// a constant expression as written (identifiers, literals, operators)
func (x *extractor) plain(e ast.Expr) string {
	switch v := e.(type) {
	case *ast.Ident:
		return v.Name
	case *ast.BasicLit:
		return v.Value
	case *ast.ParenExpr:
		return x.plain(v.X)
	case *ast.BinaryExpr:
		return "(" + x.plain(v.X) + " " + v.Op.String() + " " + x.plain(v.Y) + ")"
	case *ast.UnaryExpr:
		return v.Op.String() + x.plain(v.X)
	case *ast.CallExpr:
		as := make([]string, len(v.Args))
		for i, a := range v.Args {
			as[i] = x.plain(a)
		}
		return x.plain(v.Fun) + "(" + strings.Join(as, ", ") + ")"
	case *ast.SelectorExpr:
		return x.plain(v.X) + "." + v.Sel.Name
	}
	return fmt.Sprintf("?%T", e)
}

// ---- expressions ----------------------------------------------------------------------------------------------------

func (c *fctx) isType(e ast.Expr) bool {
	tv, ok := c.x.info.Types[e]
	return ok && tv.IsType()
}

func (c *fctx) varName(v *types.Var) string {
	if v == c.recv {
		return "recv"
	}
	if c.params[v] {
		return v.Name()
	}
	if c.captured[v] {
		return "^" + v.Name()
	}
	return "$" + typeName(v.Type())
}

func (c *fctx) render(e ast.Expr) string {
	info := c.x.info
	switch v := e.(type) {
	case nil:
		return ""
	case *ast.Ident:
		if v.Name == "_" {
			return "_"
		}
		var o types.Object = info.Uses[v]
		if o == nil {
			o = info.Defs[v]
		}
		switch ob := o.(type) {
		case *types.Var:
			if d, ok := c.defs[ob]; ok && c.inl < 12 {
				c.inl++
				s := c.render(d)
				c.inl--
				return s
			}
			return c.varName(ob)
		case *types.Func:
			if ob.Pkg() != nil && ob.Pkg().Path() != pkgPath {
				return ob.Pkg().Name() + "." + ob.Name()
			}
			return ob.Name()
		case nil:
			return "?" + v.Name
		}
		return v.Name
	case *ast.BasicLit:
		return v.Value
	case *ast.ParenExpr:
		return c.render(v.X)
	case *ast.FuncLit:
		if n, ok := c.litName[v]; ok {
			return "closure:" + n
		}
		return "closure:?"
	case *ast.SelectorExpr:
		if id, ok := v.X.(*ast.Ident); ok {
			if pn, ok := info.Uses[id].(*types.PkgName); ok {
				return pn.Imported().Name() + "." + v.Sel.Name
			}
		}
		return c.render(v.X) + "." + v.Sel.Name
	case *ast.IndexExpr:
		if c.isType(v) || c.isType(v.X) {
			return c.x.typeExpr(v)
		}
		if tv, ok := info.Types[v.X]; ok {
			if _, isSig := types.Unalias(tv.Type).Underlying().(*types.Signature); isSig {
				return c.render(v.X) // explicit instantiation of a generic function
			}
		}
		return c.render(v.X) + "[" + c.render(v.Index) + "]"
	case *ast.IndexListExpr:
		if c.isType(v) {
			return c.x.typeExpr(v)
		}
		return c.render(v.X)
	case *ast.SliceExpr:
		s := c.render(v.X) + "[" + c.render(v.Low) + ":" + c.render(v.High)
		if v.Max != nil {
			s += ":" + c.render(v.Max)
		}
		return s + "]"
	case *ast.StarExpr:
		if c.isType(v) {
			return c.x.typeExpr(v)
		}
		return "*" + c.render(v.X)
	case *ast.UnaryExpr:
		return v.Op.String() + c.render(v.X)
	case *ast.BinaryExpr:
		return "(" + c.render(v.X) + " " + v.Op.String() + " " + c.render(v.Y) + ")"
	case *ast.KeyValueExpr:
		k := ""
		if id, ok := v.Key.(*ast.Ident); ok {
			k = id.Name
		} else {
			k = c.render(v.Key)
		}
		return k + ": " + c.render(v.Value)
	case *ast.CompositeLit:
		t := ""
		if v.Type != nil {
			t = c.x.typeExpr(v.Type)
		}
		es := make([]string, len(v.Elts))
		for i, el := range v.Elts {
			es[i] = c.render(el)
		}
		return t + "{" + strings.Join(es, ", ") + "}"
	case *ast.CallExpr:
		as := make([]string, len(v.Args))
		for i, a := range v.Args {
			if c.isType(a) {
				as[i] = c.x.typeExpr(a)
			} else {
				as[i] = c.render(a)
			}
		}
		f := ""
		if c.isType(v.Fun) {
			f = c.x.typeExpr(v.Fun)
		} else {
			f = c.render(v.Fun)
		}
		dots := ""
		if v.Ellipsis.IsValid() {
			dots = "..."
		}
		return f + "(" + strings.Join(as, ", ") + dots + ")"
	case *ast.TypeAssertExpr:
		if v.Type == nil {
			return c.render(v.X) + ".(type)"
		}
		return c.render(v.X) + ".(" + c.x.typeExpr(v.Type) + ")"
	case *ast.ArrayType, *ast.MapType, *ast.FuncType, *ast.InterfaceType:
		return c.x.typeExpr(v)
	}
	c.x.warn("%s: unhandled expression %T", c.name, e)
	return fmt.Sprintf("?%T", e)
}

func stripOuter(s string) string {
	if len(s) >= 2 && s[0] == '(' && s[len(s)-1] == ')' {
		d := 0
		for i := 0; i < len(s); i++ {
			switch s[i] {
			case '(':
				d++
			case ')':
				d--
				if d == 0 && i != len(s)-1 {
					return s
				}
			}
		}
		return s[1 : len(s)-1]
	}
	return s
}

func (c *fctx) top1(e ast.Expr) string { return stripOuter(c.render(e)) }

func (c *fctx) renderList(es []ast.Expr) string {
	ss := make([]string, len(es))
	for i, e := range es {
		ss[i] = c.top1(e)
	}
	return strings.Join(ss, ", ")
}

// ---- statements -----------------------------------------------------------------------------------------------------

func (c *fctx) emit(d int, kind, text string) { c.lines = append(c.lines, line{d, kind, text}) }

func (c *fctx) varOf(e ast.Expr) *types.Var {
	id, ok := unparen(e).(*ast.Ident)
	if !ok {
		return nil
	}
	var o types.Object = c.x.info.Defs[id]
	if o == nil {
		o = c.x.info.Uses[id]
	}
	v, _ := o.(*types.Var)
	return v
}

// the text of a simple statement (assignment, inc/dec, expression), "" when it only defines inlined locals
func (c *fctx) simple(s ast.Stmt) string {
	switch v := s.(type) {
	case nil:
		return ""
	case *ast.AssignStmt:
		if v.Tok == token.DEFINE {
			all := true
			for _, l := range v.Lhs {
				vr := c.varOf(l)
				if vr == nil {
					all = false
					continue
				}
				if _, ok := c.defs[vr]; !ok {
					all = false
				}
			}
			if all {
				return ""
			}
		}
		ls := make([]string, len(v.Lhs))
		for i, l := range v.Lhs {
			if vr := c.varOf(l); vr != nil && v.Tok == token.DEFINE {
				if id := unparen(l).(*ast.Ident); id.Name == "_" {
					ls[i] = "_"
				} else {
					ls[i] = c.varName(vr)
				}
			} else {
				ls[i] = c.top1(l)
			}
		}
		return strings.Join(ls, ", ") + " " + v.Tok.String() + " " + c.renderList(v.Rhs)
	case *ast.IncDecStmt:
		return c.top1(v.X) + v.Tok.String()
	case *ast.ExprStmt:
		return c.top1(v.X)
	}
	c.x.warn("%s: unhandled simple statement %T", c.name, s)
	return fmt.Sprintf("?%T", s)
}

func (c *fctx) stmts(d int, ss []ast.Stmt) {
	for _, s := range ss {
		c.stmt(d, s)
	}
}

func (c *fctx) stmt(d int, s ast.Stmt) {
	switch v := s.(type) {
	case nil, *ast.EmptyStmt:
	case *ast.AssignStmt, *ast.IncDecStmt:
		if t := c.simple(s); t != "" {
			c.emit(d, "asg", t)
		}
	case *ast.ExprStmt:
		c.emit(d, "call", c.simple(s))
	case *ast.DeclStmt:
		gd, ok := v.Decl.(*ast.GenDecl)
		if !ok {
			return
		}
		for _, sp := range gd.Specs {
			vs, ok := sp.(*ast.ValueSpec)
			if !ok || gd.Tok != token.VAR || len(vs.Values) == 0 {
				continue // constants are referred to by name; a `var x T` is the zero value
			}
			for i, n := range vs.Names {
				vr := c.varOf(n)
				if _, inl := c.defs[vr]; inl {
					continue
				}
				if i < len(vs.Values) {
					c.emit(d, "asg", c.varName(vr)+" := "+c.top1(vs.Values[i]))
				}
			}
		}
	case *ast.ReturnStmt:
		c.emit(d, "ret", c.renderList(v.Results))
	case *ast.BlockStmt:
		c.stmts(d, v.List)
	case *ast.IfStmt:
		c.stmt(d, v.Init)
		c.emit(d, "if", c.top1(v.Cond))
		c.stmts(d+1, v.Body.List)
		if v.Else != nil {
			c.emit(d, "else", "")
			c.stmt(d+1, v.Else)
		}
	case *ast.ForStmt:
		c.stmt(d, v.Init)
		c.emit(d, "for", c.top1(v.Cond)+"; "+c.simple(v.Post))
		c.stmts(d+1, v.Body.List)
	case *ast.RangeStmt:
		kv := ""
		if v.Key != nil {
			kv = c.lhsName(v.Key)
			if v.Value != nil {
				kv += ", " + c.lhsName(v.Value)
			}
			kv += " " + v.Tok.String() + " "
		}
		c.emit(d, "range", kv+c.top1(v.X))
		c.stmts(d+1, v.Body.List)
	case *ast.TypeSwitchStmt:
		c.stmt(d, v.Init)
		subj := ""
		switch a := v.Assign.(type) {
		case *ast.AssignStmt:
			subj = c.top1(a.Rhs[0])
		case *ast.ExprStmt:
			subj = c.top1(a.X)
		}
		c.emit(d, "tswitch", subj)
		c.clauses(d, v.Body)
	case *ast.SwitchStmt:
		c.stmt(d, v.Init)
		c.emit(d, "switch", c.top1(v.Tag))
		c.clauses(d, v.Body)
	case *ast.BranchStmt:
		c.emit(d, "branch", v.Tok.String())
	case *ast.LabeledStmt:
		c.emit(d, "label", v.Label.Name)
		c.stmt(d, v.Stmt)
	case *ast.DeferStmt:
		c.emit(d, "defer", c.top1(v.Call))
	case *ast.GoStmt:
		c.emit(d, "go", c.top1(v.Call))
	default:
		c.x.warn("%s: unhandled statement %T", c.name, s)
		c.emit(d, "other", fmt.Sprintf("%T", s))
	}
}

func (c *fctx) lhsName(e ast.Expr) string {
	if id, ok := unparen(e).(*ast.Ident); ok && id.Name == "_" {
		return "_"
	}
	if vr := c.varOf(e); vr != nil {
		return c.varName(vr)
	}
	return c.top1(e)
}

func (c *fctx) clauses(d int, body *ast.BlockStmt) {
	for _, cl := range body.List {
		cc := cl.(*ast.CaseClause)
		if cc.List == nil {
			c.emit(d+1, "default", "")
		} else {
			ts := make([]string, len(cc.List))
			for i, e := range cc.List {
				if c.isType(e) {
					ts[i] = c.x.typeExpr(e)
				} else {
					ts[i] = c.top1(e)
				}
			}
			c.emit(d+1, "case", strings.Join(ts, ", "))
		}
		c.stmts(d+2, cc.Body)
	}
}

// ---- per declared function: which locals are inlined, which are shared with closures ---------------------------------------

// does e call anything (conversions and builtins such as len do not count), or read a field that the function writes?
func (x *extractor) notInlinable(e ast.Expr, written map[string]bool, dirty map[*types.Var]bool) bool {
	bad := false
	ast.Inspect(e, func(n ast.Node) bool {
		switch v := n.(type) {
		case *ast.FuncLit:
			return false
		case *ast.CallExpr:
			if tv, ok := x.info.Types[v.Fun]; ok && (tv.IsType() || tv.IsBuiltin()) {
				return true
			}
			bad = true
		case *ast.SelectorExpr:
			if s := x.info.Selections[v]; s != nil && s.Kind() == types.FieldVal && written[v.Sel.Name] {
				bad = true
			}
		case *ast.StarExpr:
			if written["*"] {
				bad = true
			}
		case *ast.UnaryExpr:
			if v.Op == token.AND {
				if _, isLit := unparen(v.X).(*ast.CompositeLit); !isLit {
					bad = true // an alias of a variable, not a value
				}
			}
		case *ast.Ident:
			if o, ok := x.info.Uses[v].(*types.Var); ok && dirty[o] {
				bad = true // reads a variable that is assigned somewhere in the function
			}
		}
		return true
	})
	return bad
}

func (x *extractor) analyse(fd *ast.FuncDecl) (defs map[*types.Var]ast.Expr, captured map[*types.Var]bool, litName map[*ast.FuncLit]string) {
	info := x.info
	defs = map[*types.Var]ast.Expr{}
	captured = map[*types.Var]bool{}
	litName = map[*ast.FuncLit]string{}
	ndef := map[*types.Var]int{}
	dirty := map[*types.Var]bool{}
	cand := map[*types.Var]ast.Expr{}
	written := map[string]bool{} // fields stored to (directly, through an index / slice of them), "*" for stores through a pointer
	var markWritten func(e ast.Expr)
	markWritten = func(e ast.Expr) {
		switch v := unparen(e).(type) {
		case *ast.SelectorExpr:
			written[v.Sel.Name] = true
		case *ast.IndexExpr:
			markWritten(v.X)
		case *ast.SliceExpr:
			markWritten(v.X)
		case *ast.StarExpr:
			written["*"] = true
		}
	}
	base := func(e ast.Expr) *types.Var { // the variable an lvalue / operand is rooted in
		for {
			switch v := unparen(e).(type) {
			case *ast.Ident:
				o, _ := info.Uses[v].(*types.Var)
				if o == nil {
					o, _ = info.Defs[v].(*types.Var)
				}
				return o
			case *ast.SelectorExpr:
				e = v.X
			case *ast.IndexExpr:
				e = v.X
			case *ast.SliceExpr:
				e = v.X
			case *ast.StarExpr:
				e = v.X
			default:
				return nil
			}
		}
	}
	ast.Inspect(fd.Body, func(n ast.Node) bool {
		switch v := n.(type) {
		case *ast.AssignStmt:
			for i, l := range v.Lhs {
				id, isId := unparen(l).(*ast.Ident)
				if v.Tok == token.DEFINE && isId {
					if o, ok := info.Defs[id].(*types.Var); ok {
						ndef[o]++
						if len(v.Lhs) == len(v.Rhs) {
							cand[o] = v.Rhs[i]
						} else {
							dirty[o] = true
						}
						continue
					}
				}
				markWritten(l)
				if b := base(l); b != nil {
					dirty[b] = true // reassigned, or stored through
				}
			}
		case *ast.ValueSpec:
			for i, id := range v.Names {
				if o, ok := info.Defs[id].(*types.Var); ok {
					ndef[o]++
					if i < len(v.Values) && len(v.Values) == len(v.Names) {
						cand[o] = v.Values[i]
					} else {
						dirty[o] = true
					}
				}
			}
		case *ast.IncDecStmt:
			markWritten(v.X)
			if b := base(v.X); b != nil {
				dirty[b] = true
			}
		case *ast.UnaryExpr:
			if v.Op == token.AND {
				if _, isLit := unparen(v.X).(*ast.CompositeLit); !isLit {
					if b := base(v.X); b != nil {
						dirty[b] = true
					}
				}
			}
		case *ast.RangeStmt:
			for _, e := range []ast.Expr{v.Key, v.Value} {
				if e != nil {
					if b := base(e); b != nil {
						dirty[b] = true
					}
				}
			}
		case *ast.CallExpr:
			// copy(dst, ...) and append(x, ...) write through / may write through their first argument
			if id, ok := unparen(v.Fun).(*ast.Ident); ok && (id.Name == "copy") && len(v.Args) > 0 {
				if _, isB := info.Uses[id].(*types.Builtin); isB {
					markWritten(v.Args[0])
					if b := base(v.Args[0]); b != nil {
						dirty[b] = true
					}
				}
			}
		}
		return true
	})
	for o, e := range cand {
		if ndef[o] == 1 && !dirty[o] {
			if fl, ok := unparen(e).(*ast.FuncLit); ok {
				litName[fl] = o.Name()
				defs[o] = e
				continue
			}
			if !x.notInlinable(e, written, dirty) {
				defs[o] = e
			}
		}
	}
	// closures: captured variables = locals used at another function level than the one declaring them
	type rng struct{ pos, end token.Pos }
	var lits []rng
	nlit := 0
	ast.Inspect(fd.Body, func(n ast.Node) bool {
		if fl, ok := n.(*ast.FuncLit); ok {
			lits = append(lits, rng{fl.Pos(), fl.End()})
			nlit++
			if _, named := litName[fl]; !named {
				litName[fl] = strconv.Itoa(nlit)
			}
		}
		return true
	})
	level := func(p token.Pos) int {
		best, size := -1, token.Pos(1<<40)
		for i, r := range lits {
			if r.pos <= p && p < r.end && r.end-r.pos < size {
				best, size = i, r.end-r.pos
			}
		}
		return best
	}
	ast.Inspect(fd.Body, func(n ast.Node) bool {
		if id, ok := n.(*ast.Ident); ok {
			if v, ok := info.Uses[id].(*types.Var); ok && !v.IsField() && v.Pos() >= fd.Pos() && v.Pos() < fd.End() {
				if level(v.Pos()) != level(id.Pos()) {
					captured[v] = true
				}
			}
		}
		return true
	})
	return
}

// ---- the side tables ----------------------------------------------------------------------------------------------------

func flip(op token.Token) token.Token {
	switch op {
	case token.LSS:
		return token.GTR
	case token.GTR:
		return token.LSS
	case token.LEQ:
		return token.GEQ
	case token.GEQ:
		return token.LEQ
	}
	return op
}

func (c *fctx) mentionsNamedConst(e ast.Expr) bool {
	found := false
	ast.Inspect(e, func(n ast.Node) bool {
		if id, ok := n.(*ast.Ident); ok {
			if _, ok := c.x.info.Uses[id].(*types.Const); ok && id.Name != "true" && id.Name != "false" && id.Name != "iota" {
				if o := c.x.info.Uses[id]; o.Pkg() != nil {
					found = true
				}
			}
		}
		return true
	})
	return found
}

func (c *fctx) isLenCall(e ast.Expr) bool {
	found := false
	ast.Inspect(e, func(n ast.Node) bool {
		if call, ok := n.(*ast.CallExpr); ok {
			if id, ok := unparen(call.Fun).(*ast.Ident); ok && (id.Name == "len" || id.Name == "cap") {
				if _, isB := c.x.info.Uses[id].(*types.Builtin); isB {
					found = true
				}
			}
		}
		return true
	})
	return found
}

func (c *fctx) sideTables(body ast.Node) {
	x := c.x
	info := x.info
	ast.Inspect(body, func(n ast.Node) bool {
		switch v := n.(type) {
		case *ast.BinaryExpr:
			switch v.Op {
			case token.EQL, token.NEQ, token.LSS, token.LEQ, token.GTR, token.GEQ:
				tx, ty := info.Types[v.X], info.Types[v.Y]
				var cst, non ast.Expr
				op := v.Op
				if ty.Value != nil && tx.Value == nil {
					cst, non = v.Y, v.X
				} else if tx.Value != nil && ty.Value == nil {
					cst, non = v.X, v.Y
					op = flip(op)
				}
				if cst != nil && (c.mentionsNamedConst(cst) || c.isLenCall(non)) {
					val := info.Types[cst].Value
					if val.Kind() != constant.Int || constant.Sign(val) < 0 {
						x.warn("%s: threshold comparison against a non-natural constant %s", c.top, val.ExactString())
					}
					x.thresholds = append(x.thresholds, [5]string{c.top, c.top1(non), op.String(), x.plain(cst), val.ExactString()})
				}
			case token.AND:
				for _, side := range []ast.Expr{v.X, v.Y} {
					if b, ok := unparen(side).(*ast.BinaryExpr); ok && (b.Op == token.SHR) {
						x.frags = append(x.frags, [2]string{c.top, c.top1(v)})
					}
				}
			}
		case *ast.CallExpr:
			var obj types.Object
			fun := unparen(v.Fun)
			switch f := fun.(type) {
			case *ast.IndexExpr:
				fun = unparen(f.X)
			case *ast.IndexListExpr:
				fun = unparen(f.X)
			}
			switch f := fun.(type) {
			case *ast.Ident:
				obj = info.Uses[f]
			case *ast.SelectorExpr:
				if sel := info.Selections[f]; sel != nil {
					obj = sel.Obj()
				} else {
					obj = info.Uses[f.Sel]
				}
			}
			fn, ok := obj.(*types.Func)
			if !ok {
				return true
			}
			if fn.Pkg() != nil && fn.Pkg().Path() == "math/bits" && strings.HasPrefix(fn.Name(), "OnesCount") {
				x.popcounts = append(x.popcounts, [2]string{c.top, fn.Name() + "(" + c.renderList(v.Args) + ")"})
			}
			if fn.Pkg() != nil && fn.Pkg().Path() == pkgPath {
				sig := fn.Type().(*types.Signature)
				for i := 0; i < sig.Params().Len() && i < len(v.Args); i++ {
					if sig.Params().At(i).Name() == "shift" {
						callee := fn.Name()
						if r := sig.Recv(); r != nil {
							callee = typeName(r.Type()) + "." + callee
						}
						x.shiftArgs = append(x.shiftArgs, [3]string{c.top, callee, c.top1(v.Args[i])})
					}
				}
			}
		}
		return true
	})
}

// ---- driver -------------------------------------------------------------------------------------------------------------

func list(items []string) string { return "[" + strings.Join(items, ", ") + "]" }

func tuple(ss ...string) string { return "(" + strings.Join(ss, ", ") + ")" }

func main() {
	repo, out := os.Args[1], os.Args[2]
	repo, _ = filepath.Abs(repo)
	l := newLoader(repo, map[string]bool{pkgPath: true})
	if _, err := l.load(pkgPath); err != nil {
		fmt.Fprintln(os.Stderr, "hamtfacts:", err)
		os.Exit(1)
	}
	if len(l.errs) > 0 {
		fmt.Fprintln(os.Stderr, "hamtfacts: type errors in package immutable:", strings.Join(l.errs[:min(len(l.errs), 5)], "; "))
		os.Exit(1)
	}
	info := l.infos[pkgPath]
	var af *ast.File
	for _, f := range l.files[pkgPath] {
		if l.fset.Position(f.Pos()).Filename == filepath.Join(repo, srcFile) {
			af = f
		}
	}
	if af == nil {
		fmt.Fprintln(os.Stderr, "hamtfacts: file not found in its package:", srcFile)
		os.Exit(1)
	}
	x := &extractor{l: l, info: info, file: srcFile}

	var consts, structs, ifaces []string
	methods := map[string][]string{}
	var recvOrder []string
	ifaceMethods := map[string][]string{}
	var structNames []string
	for _, d := range af.Decls {
		switch v := d.(type) {
		case *ast.GenDecl:
			for _, sp := range v.Specs {
				switch s := sp.(type) {
				case *ast.ValueSpec:
					if v.Tok != token.CONST {
						continue
					}
					for _, n := range s.Names {
						cn, ok := info.Defs[n].(*types.Const)
						if !ok {
							continue
						}
						if cn.Val().Kind() != constant.Int || constant.Sign(cn.Val()) < 0 {
							x.warn("constant %s is not a natural number", n.Name)
							continue
						}
						consts = append(consts, tuple(q(n.Name), cn.Val().ExactString()))
					}
				case *ast.TypeSpec:
					switch t := s.Type.(type) {
					case *ast.StructType:
						var fs []string
						for _, f := range t.Fields.List {
							ft := x.typeExpr(f.Type)
							if len(f.Names) == 0 {
								fs = append(fs, tuple(q("(embedded)"), q(ft)))
							}
							for _, n := range f.Names {
								fs = append(fs, tuple(q(n.Name), q(ft)))
							}
						}
						structs = append(structs, tuple(q(s.Name.Name), list(fs)))
						structNames = append(structNames, s.Name.Name)
					case *ast.InterfaceType:
						var ms []string
						for _, f := range t.Methods.List {
							if len(f.Names) == 0 {
								e := x.typeExpr(f.Type)
								ms = append(ms, "embed:"+e)
								ifaceMethods[s.Name.Name] = append(ifaceMethods[s.Name.Name], ifaceMethods[e]...)
							}
							for _, n := range f.Names {
								ms = append(ms, n.Name)
								ifaceMethods[s.Name.Name] = append(ifaceMethods[s.Name.Name], n.Name)
							}
						}
						qs := make([]string, len(ms))
						for i, m := range ms {
							qs[i] = q(m)
						}
						ifaces = append(ifaces, tuple(q(s.Name.Name), list(qs)))
					}
				}
			}
		case *ast.FuncDecl:
			if v.Body == nil {
				continue
			}
			name := v.Name.Name
			var recv *types.Var
			if v.Recv != nil && len(v.Recv.List) == 1 {
				rt := strings.TrimPrefix(x.typeExpr(v.Recv.List[0].Type), "*")
				name = rt + "." + name
				if _, seen := methods[rt]; !seen {
					recvOrder = append(recvOrder, rt)
				}
				methods[rt] = append(methods[rt], v.Name.Name)
				if len(v.Recv.List[0].Names) == 1 {
					recv, _ = info.Defs[v.Recv.List[0].Names[0]].(*types.Var)
				}
			}
			params := map[*types.Var]bool{}
			addParams := func(ft *ast.FuncType) {
				for _, fl := range []*ast.FieldList{ft.Params, ft.Results} {
					if fl == nil {
						continue
					}
					for _, f := range fl.List {
						for _, n := range f.Names {
							if o, ok := info.Defs[n].(*types.Var); ok {
								params[o] = true
							}
						}
					}
				}
			}
			addParams(v.Type)
			defs, captured, litName := x.analyse(v)
			ast.Inspect(v.Body, func(n ast.Node) bool {
				if fl, ok := n.(*ast.FuncLit); ok {
					addParams(fl.Type)
				}
				return true
			})
			mk := func(nm string) *fctx {
				return &fctx{x: x, top: name, name: nm, recv: recv, params: params, defs: defs, captured: captured, litName: litName}
			}
			c := mk(name)
			c.stmts(0, v.Body.List)
			x.out = append(x.out, fnOut{name, c.lines})
			c.sideTables(v.Body)
			// local arrays (the iterator's stack)
			ast.Inspect(v.Body, func(n ast.Node) bool {
				if vs, ok := n.(*ast.ValueSpec); ok {
					for _, id := range vs.Names {
						if o, ok := info.Defs[id].(*types.Var); ok {
							if at, ok := types.Unalias(o.Type()).(*types.Array); ok {
								x.arrays = append(x.arrays, [3]string{name, typeName(at.Elem()), strconv.FormatInt(at.Len(), 10)})
							}
						}
					}
				}
				if as, ok := n.(*ast.AssignStmt); ok && as.Tok == token.DEFINE {
					for _, lh := range as.Lhs {
						if id, ok := lh.(*ast.Ident); ok {
							if o, ok := info.Defs[id].(*types.Var); ok {
								if at, ok := types.Unalias(o.Type()).(*types.Array); ok {
									x.arrays = append(x.arrays, [3]string{name, typeName(at.Elem()), strconv.FormatInt(at.Len(), 10)})
								}
							}
						}
					}
				}
				return true
			})
			// closures, in source order
			var fls []*ast.FuncLit
			ast.Inspect(v.Body, func(n ast.Node) bool {
				if fl, ok := n.(*ast.FuncLit); ok {
					fls = append(fls, fl)
				}
				return true
			})
			for _, fl := range fls {
				cc := mk(name + "$" + litName[fl])
				cc.stmts(0, fl.Body.List)
				x.out = append(x.out, fnOut{cc.name, cc.lines})
			}
		}
	}

	kindsOf := func(iface string) []string {
		var ks []string
		want := ifaceMethods[iface]
		if len(want) == 0 {
			return nil
		}
		for _, sn := range structNames {
			all := true
			for _, m := range want {
				has := false
				for _, mm := range methods[sn] {
					has = has || mm == m
				}
				all = all && has
			}
			if all {
				ks = append(ks, q(sn))
			}
		}
		return ks
	}

	var b strings.Builder
	b.WriteString("-- GENERATED by harness/cmd/hamtfacts from the working tree's immutable/map.go; do not edit.\n")
	b.WriteString("namespace FpVerif.Gen.Hamt\n\n")
	fmt.Fprintf(&b, "/-- every package-level constant of map.go with its evaluated value -/\ndef consts : List (String × Nat) := %s\n\n", list(consts))
	b.WriteString("/-- every struct type of map.go: (name, fields (name, type as written; array lengths evaluated)) -/\n")
	b.WriteString("def structs : List (String × List (String × String)) := [\n  " + strings.Join(structs, ",\n  ") + "]\n\n")
	b.WriteString("/-- every interface type of map.go with its methods -/\n")
	b.WriteString("def ifaces : List (String × List String) := [\n  " + strings.Join(ifaces, ",\n  ") + "]\n\n")
	var ms []string
	for _, r := range recvOrder {
		qs := make([]string, len(methods[r]))
		for i, m := range methods[r] {
			qs[i] = q(m)
		}
		ms = append(ms, tuple(q(r), list(qs)))
	}
	b.WriteString("/-- the methods declared per receiver type, in source order -/\n")
	b.WriteString("def methods : List (String × List String) := [\n  " + strings.Join(ms, ",\n  ") + "]\n\n")
	fmt.Fprintf(&b, "/-- the struct types declaring every method of `mapNode` -/\ndef nodeKinds : List String := %s\n\n", list(kindsOf("mapNode")))
	fmt.Fprintf(&b, "/-- the struct types declaring every method of `mapLeafNode` -/\ndef leafKinds : List String := %s\n\n", list(kindsOf("mapLeafNode")))
	var ts []string
	for _, t := range x.thresholds {
		ts = append(ts, tuple(q(t[0]), q(t[1]), q(t[2]), q(t[3]), t[4]))
	}
	b.WriteString("/-- comparisons against compile-time constants (named constant, or a `len`): (function, lhs, operator, constant as written, value) -/\n")
	b.WriteString("def thresholds : List (String × String × String × String × Nat) := [\n  " + strings.Join(ts, ",\n  ") + "]\n\n")
	var fr []string
	for _, t := range x.frags {
		fr = append(fr, tuple(q(t[0]), q(t[1])))
	}
	b.WriteString("/-- every `(x >> s) & m` expression: (function, expression) -/\n")
	b.WriteString("def frags : List (String × String) := [\n  " + strings.Join(fr, ",\n  ") + "]\n\n")
	var sa []string
	for _, t := range x.shiftArgs {
		sa = append(sa, tuple(q(t[0]), q(t[1]), q(t[2])))
	}
	b.WriteString("/-- the argument handed to the parameter `shift`: (caller, callee, argument) -/\n")
	b.WriteString("def shiftArgs : List (String × String × String) := [\n  " + strings.Join(sa, ",\n  ") + "]\n\n")
	var pc []string
	for _, t := range x.popcounts {
		pc = append(pc, tuple(q(t[0]), q(t[1])))
	}
	b.WriteString("/-- every popcount call: (function, call) -/\n")
	b.WriteString("def popcounts : List (String × String) := [\n  " + strings.Join(pc, ",\n  ") + "]\n\n")
	var ar []string
	for _, t := range x.arrays {
		ar = append(ar, tuple(q(t[0]), q(t[1]), t[2]))
	}
	b.WriteString("/-- every local variable of array type: (function, element type, length) -/\n")
	b.WriteString("def arrays : List (String × String × Nat) := " + list(ar) + "\n\n")
	b.WriteString("/-- the skeleton of every function / method / closure: lines (depth, kind, text) -/\n")
	b.WriteString("def funcs : List (String × List (Nat × String × String)) := [\n")
	nlines := 0
	hist := map[string]int{}
	for i, f := range x.out {
		ls := make([]string, len(f.lines))
		for j, ln := range f.lines {
			ls[j] = tuple(strconv.Itoa(ln.depth), q(ln.kind), q(ln.text))
			hist[ln.kind]++
			nlines++
		}
		sep := ","
		if i == len(x.out)-1 {
			sep = ""
		}
		fmt.Fprintf(&b, "  (%s, [\n    %s])%s\n", q(f.name), strings.Join(ls, ",\n    "), sep)
	}
	b.WriteString("]\n\nend FpVerif.Gen.Hamt\n")
	if err := os.MkdirAll(filepath.Dir(out), 0755); err != nil {
		fmt.Fprintln(os.Stderr, err)
		os.Exit(1)
	}
	if err := os.WriteFile(out, []byte(b.String()), 0644); err != nil {
		fmt.Fprintln(os.Stderr, err)
		os.Exit(1)
	}
	for _, w := range x.warnings {
		fmt.Fprintln(os.Stderr, "hamtfacts: warning:", w)
	}
	keys := make([]string, 0, len(hist))
	for k := range hist {
		keys = append(keys, k)
	}
	sort.Strings(keys)
	hs := make([]string, len(keys))
	for i, k := range keys {
		hs[i] = fmt.Sprintf("%q: %d", k, hist[k])
	}
	fmt.Printf("{\"functions\": %d, \"lines\": %d, \"consts\": %d, \"thresholds\": %d, \"warnings\": %d, \"histogram\": {%s}}\n",
		len(x.out), nlines, len(consts), len(x.thresholds), len(x.warnings), strings.Join(hs, ", "))
}
