package main

// Type-directed generator of expressions over the three carriers, the fixed edge cases, and the
// direct (model-free) evaluation of the monad laws.

import (
	"sort"
	"strings"

	"github.com/csgura/fp"
	"github.com/csgura/fp/iterator"
	"github.com/csgura/fp/list"
	"github.com/csgura/fp/seq"
	. "verifharness/common"
)

// edge cases that are always run: empty / singleton / exhausted shared iterators / empty inner collections
var fixedOps = []string{
	"(seq (of))",
	"(seq (ap (of) (of 1 2)))",
	"(seq (ap (of (fn (lin 1 2 1))) (of)))",
	"(seq (ap (of (fn (lin 1 2 1)) (fn (wrap 2))) (of 1 2 3)))",
	"(seq (map2 (of) (of 1) (pair 1)))",
	"(seq (map2 (of 1 2) (of) (pair 1)))",
	"(seq (map2 (of 1 2) (of 10 20 30) (pair 1)))",
	"(seq (flatten (of)))",
	"(seq (flatten (of (s) (s))))",
	"(seq (flatten (of (s 1) (s) (s 2 3))))",
	"(seq (compose (kof 1 0) (kof 2 2) 5))",
	"(seq (compose (kof 1 2) (kof 2 0) 5))",
	"(seq (compose (kof 1 2) (kpanic 2 7) 5))",
	"(seq (compose (kpanic 1 7) (kof 2 1) 5))",
	"(seq (liftm (kmod 1 3) (of 0 1 2 3)))",
	"(seq (composepure (lin 1 0 0) 0))",
	"(seq (concat 1 (of)))",
	"(seq (filtermap (of 1 2 3 4) (omod 1 2)))",
	"(seq (flatten (of (w 0 2) (s 99) (w 2 3))))",
	"(seq (flatten (of (w 0 2) (w 2 2) (w 4 2))))",
	"(seq (flatmap (of 3 4 5) (kwin 1 4)))",
	"(seq (flatmap (of 1 2 3 4 5 6) (kwin 1 3)))",
	"(seq (liftm (kwin 1 4) (of 3 4 5)))",
	"(seq (compose (kof 1 3) (kwin 2 4) 3))",
	"(seq (compose (kwin 1 4) (kwin 2 3) 3))",
	"(seq2 (compose (kwin 1 4) (kwin 2 3) 3))",
	"(seq2 (compose (kof 1 2) (kmod 2 3) 4))",
	"(seq2 (composepure (lin 1 2 3) 4))",
	"(seq2 (lift (lin 1 2 3) (of 1 2)))",
	"(seq2 (liftm (kwin 1 4) (of 3 4 5)))",
	"(seq2 (ap (of (fn (lin 1 2 1))) (of 1 2)))",
	"(it2 (compose (kof 1 2) (kmod 2 3) 4))",
	"(it2 (composepure (lin 1 2 3) 4))",
	"(lst2 (compose (kof 1 2) (kmod 2 3) 4))",
	"(lst2 (composepure (lin 1 2 3) 4))",
	"(lst2 (lift (lin 1 2 3) (map (of 1 2) (lin 2 1 1))))",
	"(lst2 (flap (of (fn (lin 1 2 1)) (fn (wrap 2))) 5))",
	"(lst2 (flap2 (of (fn (c2 (add 1))) (fn (c2 (pair 2)))) 5 6))",
	"(lst2 (flapmap (pair 1) (map (of 1 2 3) (lin 2 1 1)) 9))",
	"(lst2 (method1 (of 1 2 3) (pair 1) 9))",
	"(lst2 (method2 (map (of 1 2) (lin 2 1 1)) (tup3 4) 10 100))",
	"(lst2 (ap (of (fn (lin 1 2 1))) (of 1 2)))",
	"(it (of) (calls H N H D))",
	"(it (map2 (src 1) (src 2 1 2) (pair 3)) (calls D))",
	"(it (map2 (src 1 1 2 3) (src 2) (pair 3)) (calls H H N D))",
	"(it (map2 (src 1 1 2 3) (src 2 10 20) (pair 3)) (calls H N N H N D))",
	"(it (map2 (src 1 1 2 3) (src 2 10 20) (pair 3)) (calls N N N))",
	"(it (ap (src 1 (fn (lin 1 2 1)) (fn (wrap 2))) (src 2 1 2 3)) (calls D))",
	"(it (ap (src 1) (src 2 1 2 3)) (calls D))",
	"(it (flap (src 1 (fn (lin 1 2 1)) (fn (wrap 2))) 5) (calls D))",
	"(it (flap2 (of (fn (c2 (add 1))) (fn (c2 (pair 2)))) 5 6) (calls D))",
	"(it (flapmap (pair 1) (src 2 1 2 3) 9) (calls H N H N D))",
	"(it (method1 (src 2 1 2 3) (pair 1) 9) (calls D))",
	"(it (method2 (src 1 1 2) (tup3 4) 10 100) (calls N N H))",
	"(it (method2 (src 1) (tup3 4) 10 100) (calls D))",
	"(it (flatten (of)) (calls D))",
	"(it (flatten (of (its 5 1 2) (its 6) (its 7 3))) (calls D))",
	"(it (flatten (of (its 5) (its 6))) (calls H N))",
	"(it (flatten (of (its 5 1) (its 6) (its 7 2))) (calls N N N))",
	"(it (compose (kof 1 2) (kmod 2 3) 4) (calls D))",
	"(it (compose (kpanic 1 3) (kmod 2 3) 4) (calls D))",
	"(it (composepure (lin 1 2 3) 4) (calls H N H N))",
	"(it (lift (lin 1 2 3) (src 2 1 2)) (calls D))",
	"(lst (of))",
	"(lst (ap (of) (of 1 2)))",
	"(lst (ap (of (fn (lin 1 2 1)) (fn (wrap 2))) (of)))",
	"(lst (ap (of (fn (lin 1 2 1)) (fn (wrap 2))) (map (of 1 2 3) (lin 3 1 0))))",
	"(lst (map2 (of 1 2) (of 10 20 30) (pair 1)))",
	"(lst (map2 (of 1 2) (of) (pair 1)))",
	"(lst (flatten (of (s 1) (s) (s 2 3))))",
	"(lst (flatten (of (s) (s))))",
	"(lst (flap (of (fn (lin 1 2 1)) (fn (wrap 2))) 5))",
	"(lst (flap2 (of (fn (c2 (add 1))) (fn (c2 (pair 2)))) 5 6))",
	"(lst (flapmap (pair 1) (of 1 2 3) 9))",
	"(lst (method1 (of 1 2 3) (pair 1) 9))",
	"(lst (method2 (of 1 2) (tup3 4) 10 100))",
	"(lst (method2 (of) (tup3 4) 10 100))",
	"(lst (compose (kof 1 2) (kmod 2 3) 4))",
	"(lst (compose (kof 1 0) (kmod 2 3) 4))",
	"(lst (composepure (lin 1 2 3) 4))",
	"(lst (lift (lin 1 2 3) (of 1 2)))",
	"(lst (flatmap (of 1 2 3) (kmod 1 2)))",
}

type gen struct {
	r       *Rng
	carrier string // seq | it | lst
	panicOK bool
}

func (g *gen) intEl() *Sx { return I(g.r.Range(-3, 9)) }

func (g *gen) size() int {
	switch g.r.Intn(10) {
	case 0, 1:
		return 0
	case 2, 3:
		return 1
	case 4, 5, 6:
		return 2
	case 7, 8:
		return 3
	}
	return g.r.Range(4, 6)
}

// source of element type ty
func (g *gen) source(ty string) *Sx {
	n := g.size()
	els := []*Sx{}
	dupe := g.r.Intn(4) == 0
	var first *Sx
	for i := 0; i < n; i++ {
		var e *Sx
		switch ty {
		case "V":
			e = g.intEl()
		case "F":
			e = L(A("fn"), GenF1(g.r, g.panicOK))
		case "FF":
			e = L(A("fn"), L(A("c2"), GenF2(g.r, g.panicOK)))
		case "C":
			m := g.size()
			xs := []*Sx{}
			if g.carrier == "seq" && g.r.Intn(2) == 0 {
				e = L(A("w"), I(g.r.Range(0, 3)), I(g.r.Range(0, 3)))
				break
			}
			if g.carrier == "it" && g.r.Intn(3) > 0 {
				xs = append(xs, A("its"), I(NewID()))
			} else {
				xs = append(xs, A("s"))
			}
			for j := 0; j < m; j++ {
				xs = append(xs, g.intEl())
			}
			e = L(xs...)
		}
		if dupe && first != nil && ty == "V" {
			e = first
		}
		if first == nil {
			first = e
		}
		els = append(els, e)
	}
	if g.carrier == "it" && g.r.Intn(10) < 7 {
		return L(append([]*Sx{A("src"), I(NewID())}, els...)...)
	}
	return L(append([]*Sx{A("of")}, els...)...)
}

func (g *gen) f1() *Sx { return GenF1(g.r, g.panicOK) }

func (g *gen) coll(ty string, d int) *Sx {
	if d <= 0 {
		return g.source(ty)
	}
	r := g.r
	switch ty {
	case "F":
		switch r.Intn(4) {
		case 0:
			return L(A("map"), g.coll("V", d-1), L(A("c2"), GenF2(r, g.panicOK)))
		case 1:
			return L(A("ap"), g.coll("FF", d-1), g.coll("V", d-1))
		}
		return g.source("F")
	case "FF":
		if r.Intn(3) == 0 {
			return L(A("map"), g.coll("V", d-1), L(A("c3"), genF3(r, g.panicOK)))
		}
		return g.source("FF")
	case "C":
		if r.Intn(3) == 0 {
			return L(A("map"), g.coll("V", d-1), L(A("frep"), I(NewID()), I(r.Range(0, 3))))
		}
		return g.source("C")
	}
	// ty == "V"
	opts := []string{"source", "map", "lift", "flatmap", "compose", "composepure", "flatten", "ap", "ap", "map2", "map2"}
	if g.carrier == "seq" {
		opts = append(opts, "liftm", "liftm", "filtermap", "concat", "pure")
	} else {
		opts = append(opts, "flap", "flap2", "flapmap", "method1", "method2", "method2")
	}
	switch Pick(r, opts...) {
	case "map":
		return L(A("map"), g.coll("V", d-1), g.f1())
	case "lift":
		return L(A("lift"), g.f1(), g.coll("V", d-1))
	case "flatmap":
		return L(A("flatmap"), g.coll("V", d-1), genK(r, g.panicOK))
	case "liftm":
		return L(A("liftm"), genK(r, g.panicOK), g.coll("V", d-1))
	case "compose":
		return L(A("compose"), genK(r, g.panicOK), genK(r, g.panicOK), g.intEl())
	case "composepure":
		return L(A("composepure"), g.f1(), g.intEl())
	case "flatten":
		return L(A("flatten"), g.coll("C", d-1))
	case "ap":
		return L(A("ap"), g.coll("F", d-1), g.coll("V", d-1))
	case "map2":
		return L(A("map2"), g.coll("V", d-1), g.coll("V", d-1), GenF2(r, g.panicOK))
	case "filtermap":
		return L(A("filtermap"), g.coll("V", d-1), genO(r, g.panicOK))
	case "concat":
		return L(A("concat"), g.intEl(), g.coll("V", d-1))
	case "pure":
		return L(A("pure"), g.intEl())
	case "flap":
		return L(A("flap"), g.coll("F", d-1), g.intEl())
	case "flap2":
		return L(A("flap2"), g.coll("FF", d-1), g.intEl(), g.intEl())
	case "flapmap":
		return L(A("flapmap"), GenF2(r, g.panicOK), g.coll("V", d-1), g.intEl())
	case "method1":
		return L(A("method1"), g.coll("V", d-1), GenF2(r, g.panicOK), g.intEl())
	case "method2":
		return L(A("method2"), g.coll("V", d-1), genF3(r, g.panicOK), g.intEl(), g.intEl())
	}
	return g.source("V")
}

func genCalls(r *Rng) *Sx {
	cs := []*Sx{A("calls")}
	if r.Intn(2) == 0 {
		return L(append(cs, A("D"))...)
	}
	n := r.Range(0, 8)
	for i := 0; i < n; i++ {
		if r.Intn(5) < 2 {
			cs = append(cs, A("H"))
		} else {
			cs = append(cs, A("N"))
		}
	}
	if r.Intn(3) > 0 {
		cs = append(cs, A("D"))
		if r.Intn(3) == 0 {
			cs = append(cs, A("H"), A("N"))
		}
	}
	return L(cs...)
}

func genCase(r *Rng, i int) *Sx {
	g := &gen{r: r, carrier: []string{"seq", "it", "lst"}[i%3], panicOK: r.Intn(7) == 0}
	d := r.Range(1, 3)
	e := g.coll("V", d)
	twice := r.Intn(5) == 0
	switch g.carrier {
	case "seq":
		if twice {
			return L(A("seq2"), e)
		}
		return L(A("seq"), e)
	case "it":
		if twice && (e.Head() == "compose" || e.Head() == "composepure") {
			return L(A("it2"), e)
		}
		return L(A("it"), e, genCalls(r))
	}
	if twice {
		return L(A("lst2"), e)
	}
	return L(A("lst"), e)
}

// ------------------------------------------------------------------------------------ monad laws, direct

// (law <carrier> <name> m k1 k2 a f)
func genLaw(r *Rng, i int) *Sx {
	carrier := []string{"seq", "it", "lst"}[i%3]
	name := []string{"leftid", "rightid", "assoc", "mapunit"}[(i/3)%4]
	g := &gen{r: r, carrier: carrier, panicOK: false}
	m := g.coll("V", r.Range(0, 2))
	f := GenF1(r, false)
	for f.Head() == "wrap" { // keep elements integers: the Kleisli functions take integers
		f = GenF1(r, false)
	}
	return L(A("law"), A(carrier), A(name), m, genK(r, false), genK(r, false), g.intEl(), f)
}

type obs struct {
	vals   string
	events []string
}

func splitObs(s string) obs {
	tblPart := ""
	if i := strings.LastIndex(s, " T=["); i >= 0 { // the shared table is part of the observed value
		tblPart = s[i:]
		s = s[:i]
	}
	vals, rest, _ := strings.Cut(s, " | ")
	vals += tblPart
	if i := strings.Index(rest, " || "); i >= 0 {
		rest = rest[:i]
	}
	if i := strings.Index(rest, " # "); i >= 0 {
		rest = rest[:i]
	}
	ev := []string{}
	if rest != "" {
		ev = splitEvents(rest)
	}
	sort.Strings(ev)
	return obs{vals, ev}
}

// events are separated by commas, but tuples inside an event contain commas too: split at the
// commas that are followed by an event head (letter, digits, colon)
func splitEvents(s string) []string {
	out := []string{}
	cur := ""
	parts := strings.Split(s, ",")
	isHead := func(p string) bool {
		i := strings.Index(p, ":")
		if i <= 0 {
			return false
		}
		h := p[:i]
		if h[0] < 'a' || h[0] > 'z' {
			return false
		}
		for _, c := range h[1:] {
			if c < '0' || c > '9' {
				return false
			}
		}
		return true
	}
	for _, p := range parts {
		if isHead(p) && cur != "" {
			out = append(out, cur)
			cur = p
		} else if cur == "" {
			cur = p
		} else {
			cur += "," + p
		}
	}
	if cur != "" {
		out = append(out, cur)
	}
	return out
}

func sameEvents(a, b []string) bool { return strings.Join(a, ";") == strings.Join(b, ";") }

// run evaluates one side of a law on the given carrier and observes it completely (drain / traverse).
func runSide(carrier string, sq func() fp.Seq[any], it func() It, li func() Li) obs {
	switch carrier {
	case "seq":
		return splitObs(runSeq(sq))
	case "it":
		return splitObs(runIt(it, []string{"D"}))
	}
	return splitObs(runLst(li))
}

func lawCheck(law *Sx) []string {
	a := law.List
	carrier, name := a[1].Atom, a[2].Atom
	m, k1s, k2s, x, fs := a[3], a[4], a[5], a[6].Int(), a[7]
	var lhs, rhs obs
	exact := false // compare the ORDER of events too
	evs := true    // compare the multiset of events
	switch name {
	case "leftid": // FlatMap(Of(a), k) = k(a)
		lhs = runSide(carrier,
			func() fp.Seq[any] { return seq.FlatMap(seq.Pure[any](x), kSeq(k1s)) },
			func() It { return iterator.FlatMap(iterator.Of[any](x), kIt(k1s)) },
			func() Li { return list.FlatMap(list.Of[any](x), kList(k1s)) })
		rhs = runSide(carrier,
			func() fp.Seq[any] { return kSeq(k1s)(x) },
			func() It { return kIt(k1s)(x) },
			func() Li { return kList(k1s)(x) })
		exact = true
	case "rightid": // FlatMap(m, Of) = m
		lhs = runSide(carrier,
			func() fp.Seq[any] { return seq.FlatMap(evalSeq(m, false), func(v any) fp.Seq[any] { return seq.Pure(v) }) },
			func() It { return iterator.FlatMap(evalIt(m, false), func(v any) It { return iterator.Of(v) }) },
			func() Li { return list.FlatMap(evalLst(m, false), func(v any) Li { return list.Of(v) }) })
		rhs = runSide(carrier,
			func() fp.Seq[any] { return evalSeq(m, false) },
			func() It { return evalIt(m, false) },
			func() Li { return evalLst(m, false) })
		exact = carrier == "seq"
	case "assoc": // FlatMap(FlatMap(m, f), g) = FlatMap(m, x => FlatMap(f(x), g))
		lhs = runSide(carrier,
			func() fp.Seq[any] { return seq.FlatMap(seq.FlatMap(evalSeq(m, false), kSeq(k1s)), kSeq(k2s)) },
			func() It { return iterator.FlatMap(iterator.FlatMap(evalIt(m, false), kIt(k1s)), kIt(k2s)) },
			func() Li { return list.FlatMap(list.FlatMap(evalLst(m, false), kList(k1s)), kList(k2s)) })
		rhs = runSide(carrier,
			func() fp.Seq[any] {
				k1, k2 := kSeq(k1s), kSeq(k2s)
				return seq.FlatMap(evalSeq(m, false), func(v any) fp.Seq[any] { return seq.FlatMap(k1(v), k2) })
			},
			func() It {
				k1, k2 := kIt(k1s), kIt(k2s)
				return iterator.FlatMap(evalIt(m, false), func(v any) It { return iterator.FlatMap(k1(v), k2) })
			},
			func() Li {
				k1, k2 := kList(k1s), kList(k2s)
				return list.FlatMap(evalLst(m, false), func(v any) Li { return list.FlatMap(k1(v), k2) })
			})
		// list.FlatMap re-applies its function to elements whose result is empty (the head closure and the
		// tail closure each build FlatMap(tail, fn)): how often a callback runs is not part of the law
		evs = carrier != "lst"
	case "mapunit": // Map(m, f) = FlatMap(m, x => Of(f(x)))
		lhs = runSide(carrier,
			func() fp.Seq[any] { return seq.Map(evalSeq(m, false), f1(fs)) },
			func() It { return iterator.Map(evalIt(m, false), f1(fs)) },
			func() Li { return list.Map(evalLst(m, false), f1(fs)) })
		rhs = runSide(carrier,
			func() fp.Seq[any] {
				f := f1(fs)
				return seq.FlatMap(evalSeq(m, false), func(v any) fp.Seq[any] { return seq.Pure(f(v)) })
			},
			func() It {
				f := f1(fs)
				return iterator.FlatMap(evalIt(m, false), func(v any) It { return iterator.Of(f(v)) })
			},
			func() Li {
				f := f1(fs)
				return list.FlatMap(evalLst(m, false), func(v any) Li { return list.Of(f(v)) })
			})
		exact = carrier == "seq"
	}
	_ = exact
	fails := []string{}
	if lhs.vals != rhs.vals {
		fails = append(fails, "values differ: lhs "+lhs.vals+"  rhs "+rhs.vals)
	}
	if evs && !sameEvents(lhs.events, rhs.events) {
		fails = append(fails, "callback invocations differ: lhs "+strings.Join(lhs.events, ";")+"  rhs "+strings.Join(rhs.events, ";"))
	}
	return fails
}
