package main

// Callback tables of the coll harness that are not in common/common.go. The Lean side is
// Oracle/Coll.lean (F3interp, Kinterp, Ointerp, Fninterp, Elinterp); both must behave identically.

import (
	"github.com/csgura/fp"
	"github.com/csgura/fp/iterator"
	"github.com/csgura/fp/list"
	. "verifharness/common"
)

type It = fp.Iterator[any]
type Li = fp.List[any]
type F1 = fp.Func1[any, any]
type F2c = fp.Func1[any, fp.Func1[any, any]]
type F3c = fp.Func1[any, fp.Func1[any, fp.Func1[any, any]]]

// ------------------------------------------------------------------------------------ watchdog

type errBudget struct{}

var ticks, budget = 0, 400000

func tick() {
	ticks++
	if ticks > budget {
		panic(errBudget{})
	}
}

// ------------------------------------------------------------------------------------ rendering

// show renders an element like El.toVal/Val.toStr: function values as "fn", collections as [..].
func show(v any) string {
	switch x := v.(type) {
	case F1, F2c, F3c:
		return "\"fn\""
	case fp.Seq[any]:
		return showAll(x)
	case []any:
		return showAll(x)
	case It:
		return "\"coll\""
	case Li:
		return "\"coll\""
	}
	return Show(v)
}

func showAll(xs []any) string {
	out := "["
	for i, x := range xs {
		if i > 0 {
			out += ","
		}
		out += show(x)
	}
	return out + "]"
}

// ------------------------------------------------------------------------------------ tables

func f1(s *Sx) func(any) any      { f := F1Of(s); return func(x any) any { tick(); return f(x) } }
func f2(s *Sx) func(any, any) any { f := F2Of(s); return func(x, y any) any { tick(); return f(x, y) } }

func f3(s *Sx) func(any, any, any) any {
	a := s.List
	switch s.Head() {
	case "sum3":
		id := a[1].Int()
		return func(x, y, z any) any {
			tick()
			Emit("h%d:%s,%s,%s", id, Show(x), Show(y), Show(z))
			return AsInt(x) + AsInt(y) + AsInt(z)
		}
	case "lin3":
		id, ca, cb, cc := a[1].Int(), a[2].Int(), a[3].Int(), a[4].Int()
		return func(x, y, z any) any {
			tick()
			Emit("h%d:%s,%s,%s", id, Show(x), Show(y), Show(z))
			return ca*AsInt(x) + cb*AsInt(y) + cc*AsInt(z)
		}
	case "tup3":
		id := a[1].Int()
		return func(x, y, z any) any {
			tick()
			Emit("h%d:%s,%s,%s", id, Show(x), Show(y), Show(z))
			return fp.Tuple3[any, any, any]{I1: x, I2: y, I3: z}
		}
	case "h3panic":
		id, p := a[1].Int(), a[2].Int()
		return func(x, y, z any) any {
			tick()
			Emit("h%d:%s,%s,%s", id, Show(x), Show(y), Show(z))
			panic(p)
		}
	}
	panic("bad F3 " + s.String())
}

func genF3(r *Rng, allowPanic bool) *Sx {
	id := NewID()
	k := r.Intn(10)
	switch {
	case k == 0 && allowPanic:
		return L(A("h3panic"), I(id), I(r.Range(1, 9)))
	case k <= 3:
		return L(A("tup3"), I(id))
	case k <= 6:
		return L(A("sum3"), I(id))
	}
	return L(A("lin3"), I(id), I(r.Range(-2, 3)), I(r.Range(-2, 3)), I(r.Range(-2, 3)))
}

func rep(x any, n int) []any {
	out := make([]any, 0, n)
	for i := 0; i < n; i++ {
		out = append(out, AsInt(x)+i)
	}
	return out
}

// tbl is ONE shared backing table (len = cap = 8); callbacks and elements may be VIEWS tbl[o:o+n] of it, i.e.
// slices with spare capacity whose backing array is the table: a library function that appends to such a
// view (instead of to a slice it owns) overwrites the table. Reset before every case.
var tbl []any

func resetTbl() {
	tbl = make([]any, 8)
	for i := range tbl {
		tbl[i] = 100 + i
	}
}

func tblIntact() bool {
	for i, v := range tbl {
		if v != any(100+i) {
			return false
		}
	}
	return len(tbl) == 8
}

// kRaw: the Kleisli table, returning the elements; the carrier wraps them with its own Of.
func kRaw(s *Sx) func(any) []any {
	a := s.List
	switch s.Head() {
	case "kwin":
		id, m := a[1].Int(), a[2].Int()
		return func(x any) []any {
			tick()
			Emit("k%d:%s", id, Show(x))
			o, n := Emod(AsInt(x), 3), Emod(AsInt(x), m)
			return tbl[o : o+n] // a view with spare capacity
		}
	case "kof":
		id, n := a[1].Int(), a[2].Int()
		return func(x any) []any { tick(); Emit("k%d:%s", id, Show(x)); return rep(x, n) }
	case "kmod":
		id, m := a[1].Int(), a[2].Int()
		return func(x any) []any { tick(); Emit("k%d:%s", id, Show(x)); return rep(x, Emod(AsInt(x), m)) }
	case "kpanic":
		id, p := a[1].Int(), a[2].Int()
		return func(x any) []any { tick(); Emit("k%d:%s", id, Show(x)); panic(p) }
	case "kpanicif":
		id, m, p := a[1].Int(), a[2].Int(), a[3].Int()
		return func(x any) []any {
			tick()
			Emit("k%d:%s", id, Show(x))
			if Emod(AsInt(x), m) == 0 {
				panic(p)
			}
			return []any{AsInt(x) + 1}
		}
	}
	panic("bad K " + s.String())
}

func genK(r *Rng, allowPanic bool) *Sx {
	id := NewID()
	k := r.Intn(12)
	switch {
	case k == 0 && allowPanic:
		return L(A("kpanic"), I(id), I(r.Range(1, 9)))
	case k == 1 && allowPanic:
		return L(A("kpanicif"), I(id), I(r.Range(2, 3)), I(r.Range(1, 9)))
	case k <= 4:
		return L(A("kmod"), I(id), I(r.Range(2, 4)))
	case k <= 7:
		return L(A("kwin"), I(id), I(r.Range(2, 4)))
	}
	return L(A("kof"), I(id), I(r.Range(0, 3)))
}

func kSeq(s *Sx) func(any) fp.Seq[any] {
	k := kRaw(s)
	return func(x any) fp.Seq[any] { return fp.Seq[any](k(x)) }
}
func kIt(s *Sx) func(any) It {
	k := kRaw(s)
	return func(x any) It { return iterator.Of(k(x)...) }
}
func kList(s *Sx) func(any) Li {
	k := kRaw(s)
	return func(x any) Li { return list.Of(k(x)...) }
}

func oOf(s *Sx) func(any) fp.Option[any] {
	a := s.List
	switch s.Head() {
	case "omod":
		id, m := a[1].Int(), a[2].Int()
		return func(x any) fp.Option[any] {
			tick()
			Emit("o%d:%s", id, Show(x))
			if Emod(AsInt(x), m) == 0 {
				return fp.None[any]()
			}
			return fp.Some[any](AsInt(x) + 1)
		}
	case "opanic":
		id, p := a[1].Int(), a[2].Int()
		return func(x any) fp.Option[any] { tick(); Emit("o%d:%s", id, Show(x)); panic(p) }
	}
	panic("bad O " + s.String())
}

func genO(r *Rng, allowPanic bool) *Sx {
	id := NewID()
	if allowPanic && r.Intn(8) == 0 {
		return L(A("opanic"), I(id), I(r.Range(1, 9)))
	}
	return L(A("omod"), I(id), I(r.Range(2, 3)))
}

// fnU: a unary function value on values (`u1` or `frep`) for the given carrier.
func fnU(s *Sx, carrier string) func(any) any {
	if s.Head() == "frep" {
		id, n := s.List[1].Int(), s.List[2].Int()
		return func(x any) any {
			tick()
			Emit("f%d:%s", id, Show(x))
			return collOf(carrier, 0, rep(x, n))
		}
	}
	return f1(s)
}

// collOf builds a collection that is an ELEMENT: a Seq, a fresh iterator (instrumented when id > 0), a list.
func collOf(carrier string, id int, xs []any) any {
	switch carrier {
	case "seq":
		return fp.Seq[any](xs)
	case "it":
		if id > 0 {
			return instrSrc(id, xs, nil)
		}
		return iterator.Of(xs...)
	}
	return list.Of(xs...)
}

// instrumented slice iterator: logs every element handed out, counts pulls.
func instrSrc(id int, xs []any, counter *int) It {
	idx := 0
	return fp.MakeIterator(func() bool { tick(); return idx < len(xs) }, func() any {
		tick()
		if idx < len(xs) {
			v := xs[idx]
			idx++
			if counter != nil {
				*counter++
			}
			Emit("s%d:%s", id, show(v))
			return v
		}
		panic("next on empty iterator")
	})
}

// elOf: an element literal.
func elOf(s *Sx, carrier string) any {
	if !s.IsL {
		return s.Int()
	}
	a := s.List
	switch s.Head() {
	case "fn":
		f := a[1]
		switch f.Head() {
		case "c2":
			return F2c(curried2(f2(f.List[1])))
		case "c3":
			return F3c(curried3(f3(f.List[1])))
		}
		return F1(fnU(f, carrier))
	case "s":
		return collOf(carrier, 0, elsOf(a[1:], carrier))
	case "w":
		o, n := a[1].Int(), a[2].Int()
		return collOf(carrier, 0, tbl[o:o+n]) // a view of the shared table
	case "its":
		return collOf(carrier, a[1].Int(), elsOf(a[2:], carrier))
	}
	panic("bad El " + s.String())
}

func elsOf(xs []*Sx, carrier string) []any {
	out := make([]any, len(xs))
	for i, x := range xs {
		out[i] = elOf(x, carrier)
	}
	return out
}

// as.Curried2 / as.Curried3 at type any (the library's own as.Curried* are used where the library
// calls them; these build function ELEMENTS of sources).
func curried2(g func(any, any) any) func(any) fp.Func1[any, any] {
	return func(a any) fp.Func1[any, any] { return func(b any) any { return g(a, b) } }
}
func curried3(h func(any, any, any) any) func(any) fp.Func1[any, fp.Func1[any, any]] {
	return func(a any) fp.Func1[any, fp.Func1[any, any]] {
		return func(b any) fp.Func1[any, any] { return func(c any) any { return h(a, b, c) } }
	}
}

// typeOf: the element type of the collection an expression builds: V values, F functions any->any,
// FF curried binary functions, C collections, ? unknown (empty literal).
func typeOf(s *Sx) string {
	a := s.List
	switch s.Head() {
	case "of", "src":
		els := a[1:]
		if s.Head() == "src" {
			els = a[2:]
		}
		if len(els) == 0 {
			return "?"
		}
		e := els[0]
		if !e.IsL {
			return "V"
		}
		switch e.Head() {
		case "fn":
			switch e.List[1].Head() {
			case "c2":
				return "FF"
			case "c3":
				return "FFF"
			}
			return "F"
		}
		return "C"
	case "map":
		return fnResult(a[2])
	case "lift":
		return fnResult(a[1])
	case "ap":
		switch typeOf(a[1]) {
		case "FF":
			return "F"
		case "FFF":
			return "FF"
		}
		return "V"
	}
	return "V"
}

func fnResult(f *Sx) string {
	switch f.Head() {
	case "c2":
		return "F"
	case "c3":
		return "FF"
	case "frep":
		return "C"
	}
	return "V"
}
