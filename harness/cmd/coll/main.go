// Correspondence + direct property harness for the collection monads seq / iterator / list
// (C01: monad laws; every derived combinator returns what its definition through FlatMap and the
// unit returns). Oracle: lean/Oracle/Coll.lean (oracle_coll).
//
// Op lines:  (seq SX) | (it IX (calls H N D ...)) | (lst LX)
// Every library function is called at type `any`; function values that are ELEMENTS of a collection
// are real Go closures built from the callback table.
package main

import (
	"flag"
	"fmt"
	"os"
	"sort"
	"strings"

	"github.com/csgura/fp"
	"github.com/csgura/fp/as"
	"github.com/csgura/fp/iterator"
	"github.com/csgura/fp/list"
	"github.com/csgura/fp/option"
	"github.com/csgura/fp/seq"
	. "verifharness/common"
)

var hist = map[string]int{}

func hit(name string, def bool) {
	if !def {
		hist["fn:"+name]++
	}
}

// ------------------------------------------------------------------------------------ glue: static types

func convSeq[T any](s fp.Seq[any]) fp.Seq[T] {
	if s == nil {
		return nil
	}
	out := make(fp.Seq[T], len(s))
	for i, v := range s {
		out[i] = v.(T)
	}
	return out
}

func boxSeq[T any](s fp.Seq[T]) fp.Seq[any] {
	if s == nil {
		return nil
	}
	out := make(fp.Seq[any], len(s))
	for i, v := range s {
		out[i] = v
	}
	return out
}

func convIt[T any](it It) fp.Iterator[T] {
	return fp.MakeIterator(it.HasNext, func() T { return it.Next().(T) })
}

func boxIt[T any](it fp.Iterator[T]) It {
	return fp.MakeIterator(it.HasNext, func() any { return it.Next() })
}

type convL[T any] struct{ in Li }

func (c convL[T]) IsEmpty() bool              { return c.in.IsEmpty() }
func (c convL[T]) NonEmpty() bool             { return c.in.NonEmpty() }
func (c convL[T]) Head() T                    { return c.in.Head().(T) }
func (c convL[T]) Tail() fp.List[T]           { return convL[T]{c.in.Tail()} }
func (c convL[T]) Unapply() (T, fp.List[T])   { return c.Head(), c.Tail() }
func (c convL[T]) Foreach(f func(T))          { c.in.Foreach(func(v any) { f(v.(T)) }) }
func (c convL[T]) ToSeq() []T                 { return convSeq[T](c.in.ToSeq()) }

type boxL[T any] struct{ in fp.List[T] }

func (c boxL[T]) IsEmpty() bool          { return c.in.IsEmpty() }
func (c boxL[T]) NonEmpty() bool         { return c.in.NonEmpty() }
func (c boxL[T]) Head() any              { return c.in.Head() }
func (c boxL[T]) Tail() Li               { return boxL[T]{c.in.Tail()} }
func (c boxL[T]) Unapply() (any, Li)     { return c.Head(), c.Tail() }
func (c boxL[T]) Foreach(f func(any))    { c.in.Foreach(func(v T) { f(v) }) }
func (c boxL[T]) ToSeq() []any           { return boxSeq[T](c.in.ToSeq()) }

func convList[T any](l Li) fp.List[T] { return convL[T]{l} }
func boxList[T any](l fp.List[T]) Li  { return boxL[T]{l} }

// ------------------------------------------------------------------------------------ seq

func seqMapLike[U any](l fp.Seq[any], cf func(any) U, lift, def bool) fp.Seq[any] {
	if lift && !def {
		hit("seq.Lift", def)
		return boxSeq(seq.Lift(cf)(l))
	}
	hit("seq.Map", def)
	return boxSeq(seq.Map(l, cf))
}

func seqMapFn(l fp.Seq[any], fs *Sx, lift, def bool) fp.Seq[any] {
	switch fs.Head() {
	case "c2":
		return seqMapLike(l, as.Curried2(f2(fs.List[1])), lift, def)
	case "c3":
		return seqMapLike(l, as.Curried3(f3(fs.List[1])), lift, def)
	}
	return seqMapLike(l, fnU(fs, "seq"), lift, def)
}

func seqAp[U any](t, a fp.Seq[any], def bool) fp.Seq[any] {
	tf := convSeq[fp.Func1[any, U]](t)
	if def {
		return boxSeq(seq.FlatMap(tf, func(f fp.Func1[any, U]) fp.Seq[U] { return seq.Map(a, f) }))
	}
	hit("seq.Ap", def)
	return boxSeq(seq.Ap(tf, a))
}

func evalSeq(s *Sx, def bool) fp.Seq[any] {
	a := s.List
	switch s.Head() {
	case "of":
		hit("seq.Of", def)
		return seq.Of(elsOf(a[1:], "seq")...)
	case "pure":
		hit("seq.Pure", def)
		return seq.Pure(elOf(a[1], "seq"))
	case "map":
		return seqMapFn(evalSeq(a[1], def), a[2], false, def)
	case "lift":
		return seqMapFn(evalSeq(a[2], def), a[1], true, def)
	case "flatmap":
		l := evalSeq(a[1], def)
		hit("seq.FlatMap", def)
		return seq.FlatMap(l, kSeq(a[2]))
	case "liftm":
		k := kSeq(a[1])
		l := evalSeq(a[2], def)
		if def {
			return seq.FlatMap(l, k)
		}
		hit("seq.LiftM", def)
		return seq.LiftM(k)(l)
	case "compose":
		k1, k2, x := kSeq(a[1]), kSeq(a[2]), elOf(a[3], "seq")
		if def {
			return seq.FlatMap(k1(x), k2)
		}
		hit("seq.Compose", def)
		return seq.Compose(k1, k2)(x)
	case "composepure":
		f, x := fnU(a[1], "seq"), elOf(a[2], "seq")
		if def {
			return seq.Of(f(x))
		}
		hit("seq.ComposePure", def)
		return seq.ComposePure(f)(x)
	case "flatten":
		ll := convSeq[fp.Seq[any]](evalSeq(a[1], def))
		if def {
			return seq.FlatMap(ll, func(v fp.Seq[any]) fp.Seq[any] { return v })
		}
		hit("seq.Flatten", def)
		return seq.Flatten(ll)
	case "ap":
		t := evalSeq(a[1], def)
		x := evalSeq(a[2], def)
		switch typeOf(a[1]) {
		case "FF":
			return seqAp[F1](t, x, def)
		case "FFF":
			return seqAp[F2c](t, x, def)
		}
		return seqAp[any](t, x, def)
	case "map2":
		x := evalSeq(a[1], def)
		y := evalSeq(a[2], def)
		g := f2(a[3])
		if def {
			return seq.FlatMap(x, func(v1 any) fp.Seq[any] {
				return seq.Map(y, func(v2 any) any { return g(v1, v2) })
			})
		}
		hit("seq.Map2", def)
		return seq.Map2(x, y, g)
	case "filtermap":
		l := evalSeq(a[1], def)
		o := oOf(a[2])
		if def {
			return seq.FlatMap(l, func(v any) fp.Seq[any] { return option.ToSeq(o(v)) })
		}
		hit("seq.FilterMap", def)
		return seq.FilterMap(l, o)
	case "concat":
		h := elOf(a[1], "seq")
		t := evalSeq(a[2], def)
		if def {
			return seq.Of(h).Concat(t)
		}
		hit("seq.Concat", def)
		return seq.Concat(h, t)
	}
	panic("bad SX " + s.String())
}

func runSeq(build func() fp.Seq[any]) string {
	ticks = 0
	resetTbl()
	r := Outcome(func() string { return showAll(build()) })
	return r + " T=" + showAll(tbl)
}

// ------------------------------------------------------------------------------------ iterator

type srcReg struct {
	id    int
	pulls int
}

var srcRegs []*srcReg

func itMapLike[U any](e It, cf func(any) U, lift, def bool) It {
	if lift && !def {
		hit("iterator.Lift", def)
		return boxIt(iterator.Lift(cf)(e))
	}
	hit("iterator.Map", def)
	return boxIt(iterator.Map(e, cf))
}

func itMapFn(e It, fs *Sx, lift, def bool) It {
	switch fs.Head() {
	case "c2":
		return itMapLike(e, as.Curried2(f2(fs.List[1])), lift, def)
	case "c3":
		return itMapLike(e, as.Curried3(f3(fs.List[1])), lift, def)
	}
	return itMapLike(e, fnU(fs, "it"), lift, def)
}

func itApDef[U any](tf fp.Iterator[fp.Func1[any, U]], a It) fp.Iterator[U] {
	return iterator.FlatMap(tf, func(f fp.Func1[any, U]) fp.Iterator[U] { return iterator.Map(a, f) })
}

func itAp[U any](t, a It, def bool) It {
	tf := convIt[fp.Func1[any, U]](t)
	if def {
		return boxIt(itApDef(tf, a))
	}
	hit("iterator.Ap", def)
	return boxIt(iterator.Ap(tf, a))
}

func itFlap[U any](t It, x any, def bool) It {
	tf := convIt[fp.Func1[any, U]](t)
	if def {
		return boxIt(itApDef(tf, iterator.Of(x)))
	}
	hit("iterator.Flap", def)
	return boxIt(iterator.Flap(tf)(x))
}

func itFlap2Def(tf fp.Iterator[fp.Func1[any, fp.Func1[any, any]]], x, y any) It {
	t1 := itApDef(tf, iterator.Of(x))
	return itApDef(t1, iterator.Of(y))
}

func evalIt(s *Sx, def bool) It {
	a := s.List
	switch s.Head() {
	case "src":
		reg := &srcReg{id: a[1].Int()}
		srcRegs = append(srcRegs, reg)
		return instrSrc(reg.id, elsOf(a[2:], "it"), &reg.pulls)
	case "of":
		hit("iterator.Of", def)
		return iterator.Of(elsOf(a[1:], "it")...)
	case "map":
		return itMapFn(evalIt(a[1], def), a[2], false, def)
	case "lift":
		return itMapFn(evalIt(a[2], def), a[1], true, def)
	case "flatmap":
		e := evalIt(a[1], def)
		hit("iterator.FlatMap", def)
		return iterator.FlatMap(e, kIt(a[2]))
	case "compose":
		k1, k2, x := kIt(a[1]), kIt(a[2]), elOf(a[3], "it")
		if def {
			return iterator.FlatMap(k1(x), k2)
		}
		hit("iterator.Compose", def)
		return iterator.Compose(k1, k2)(x)
	case "composepure":
		f, x := fnU(a[1], "it"), elOf(a[2], "it")
		if def {
			return iterator.Of(f(x))
		}
		hit("iterator.ComposePure", def)
		return iterator.ComposePure(f)(x)
	case "flatten":
		ee := convIt[It](evalIt(a[1], def))
		if def {
			return iterator.FlatMap(ee, func(v It) It { return v })
		}
		hit("iterator.Flatten", def)
		return iterator.Flatten(ee)
	case "ap":
		t := evalIt(a[1], def)
		x := evalIt(a[2], def)
		switch typeOf(a[1]) {
		case "FF":
			return itAp[F1](t, x, def)
		case "FFF":
			return itAp[F2c](t, x, def)
		}
		return itAp[any](t, x, def)
	case "map2":
		x := evalIt(a[1], def)
		y := evalIt(a[2], def)
		g := f2(a[3])
		if def {
			return iterator.FlatMap(x, func(v1 any) It {
				return iterator.Map(y, func(v2 any) any { return g(v1, v2) })
			})
		}
		hit("iterator.Map2", def)
		return iterator.Map2(x, y, g)
	case "flap":
		t := evalIt(a[1], def)
		x := elOf(a[2], "it")
		if typeOf(a[1]) == "FF" {
			return itFlap[F1](t, x, def)
		}
		return itFlap[any](t, x, def)
	case "flap2":
		tf := convIt[F2c](evalIt(a[1], def))
		x, y := elOf(a[2], "it"), elOf(a[3], "it")
		if def {
			return itFlap2Def(tf, x, y)
		}
		hit("iterator.Flap2", def)
		return iterator.Flap2(tf)(x)(y)
	case "flapmap":
		g := f2(a[1])
		e := evalIt(a[2], def)
		y := elOf(a[3], "it")
		if def {
			return itApDef(iterator.Map(e, as.Curried2(g)), iterator.Of(y))
		}
		hit("iterator.FlapMap", def)
		return iterator.FlapMap(g, e)(y)
	case "method1":
		e := evalIt(a[1], def)
		g := f2(a[2])
		y := elOf(a[3], "it")
		if def {
			return itApDef(iterator.Map(e, as.Curried2(g)), iterator.Of(y))
		}
		hit("iterator.Method1", def)
		return iterator.Method1(e, g)(y)
	case "method2":
		e := evalIt(a[1], def)
		h := f3(a[2])
		y, z := elOf(a[3], "it"), elOf(a[4], "it")
		if def {
			return itFlap2Def(iterator.Map(e, as.Curried3(h)), y, z)
		}
		hit("iterator.Method2", def)
		return iterator.Method2(e, h)(y, z)
	}
	panic("bad IX " + s.String())
}

// step runs f, recovering panics of the implementation.
func step(f func() string) (res string) {
	defer func() {
		if p := recover(); p != nil {
			res = "panic(" + ShowPanic(p) + ")"
		}
	}()
	return f()
}

func runIt(build func() It, calls []string) string {
	ticks = 0
	resetTbl()
	Log = Log[:0]
	srcRegs = srcRegs[:0]
	var it It
	if r := step(func() string { it = build(); return "" }); r != "" {
		return "build-" + r + " | " + strings.Join(Log, ",")
	}
	toks := []string{}
	for _, c := range calls {
		switch c {
		case "H":
			toks = append(toks, "H="+step(func() string { return Show(it.HasNext()) }))
		case "N":
			toks = append(toks, "N="+step(func() string { return show(it.Next()) }))
		default:
			toks = append(toks, "D="+step(func() string { return showAll(it.ToSeq()) }))
		}
	}
	ps := []string{}
	for _, r := range srcRegs {
		ps = append(ps, fmt.Sprintf("%d=%d", r.id, r.pulls))
	}
	return strings.Join(toks, " ") + " | " + strings.Join(Log, ",") + " # " + strings.Join(ps, ",")
}

// ------------------------------------------------------------------------------------ list

func lstMapLike[U any](l Li, cf func(any) U, lift, def bool) Li {
	if lift && !def {
		hit("list.Lift", def)
		return boxList(list.Lift(cf)(l))
	}
	hit("list.Map", def)
	return boxList(list.Map(l, cf))
}

func lstMapFn(l Li, fs *Sx, lift, def bool) Li {
	switch fs.Head() {
	case "c2":
		return lstMapLike(l, as.Curried2(f2(fs.List[1])), lift, def)
	case "c3":
		return lstMapLike(l, as.Curried3(f3(fs.List[1])), lift, def)
	}
	return lstMapLike(l, fnU(fs, "lst"), lift, def)
}

func lstApDef[U any](tf fp.List[fp.Func1[any, U]], a Li) fp.List[U] {
	return list.FlatMap(tf, func(f fp.Func1[any, U]) fp.List[U] { return list.Map(a, f) })
}

func lstAp[U any](t, a Li, def bool) Li {
	tf := convList[fp.Func1[any, U]](t)
	if def {
		return boxList(lstApDef(tf, a))
	}
	hit("list.Ap", def)
	return boxList(list.Ap(tf, a))
}

func lstFlap[U any](t Li, x any, def bool) Li {
	tf := convList[fp.Func1[any, U]](t)
	if def {
		return boxList(lstApDef(tf, list.Of(x)))
	}
	hit("list.Flap", def)
	return boxList(list.Flap(tf)(x))
}

func lstFlap2Def(tf fp.List[fp.Func1[any, fp.Func1[any, any]]], x, y any) Li {
	t1 := lstApDef(tf, list.Of(x))
	return lstApDef(t1, list.Of(y))
}

func evalLst(s *Sx, def bool) Li {
	a := s.List
	switch s.Head() {
	case "of":
		hit("list.Of", def)
		return list.Of(elsOf(a[1:], "lst")...)
	case "map":
		return lstMapFn(evalLst(a[1], def), a[2], false, def)
	case "lift":
		return lstMapFn(evalLst(a[2], def), a[1], true, def)
	case "flatmap":
		l := evalLst(a[1], def)
		hit("list.FlatMap", def)
		return list.FlatMap(l, kList(a[2]))
	case "compose":
		k1, k2, x := kList(a[1]), kList(a[2]), elOf(a[3], "lst")
		if def {
			return list.FlatMap(k1(x), k2)
		}
		hit("list.Compose", def)
		return list.Compose(k1, k2)(x)
	case "composepure":
		f, x := fnU(a[1], "lst"), elOf(a[2], "lst")
		if def {
			return list.Of(f(x))
		}
		hit("list.ComposePure", def)
		return list.ComposePure(f)(x)
	case "flatten":
		ll := convList[Li](evalLst(a[1], def))
		if def {
			return list.FlatMap(ll, func(v Li) Li { return v })
		}
		hit("list.Flatten", def)
		return list.Flatten(ll)
	case "ap":
		t := evalLst(a[1], def)
		x := evalLst(a[2], def)
		switch typeOf(a[1]) {
		case "FF":
			return lstAp[F1](t, x, def)
		case "FFF":
			return lstAp[F2c](t, x, def)
		}
		return lstAp[any](t, x, def)
	case "map2":
		x := evalLst(a[1], def)
		y := evalLst(a[2], def)
		g := f2(a[3])
		if def {
			return list.FlatMap(x, func(v1 any) Li {
				return list.Map(y, func(v2 any) any { return g(v1, v2) })
			})
		}
		hit("list.Map2", def)
		return list.Map2(x, y, g)
	case "flap":
		t := evalLst(a[1], def)
		x := elOf(a[2], "lst")
		if typeOf(a[1]) == "FF" {
			return lstFlap[F1](t, x, def)
		}
		return lstFlap[any](t, x, def)
	case "flap2":
		tf := convList[F2c](evalLst(a[1], def))
		x, y := elOf(a[2], "lst"), elOf(a[3], "lst")
		if def {
			return lstFlap2Def(tf, x, y)
		}
		hit("list.Flap2", def)
		return list.Flap2(tf)(x)(y)
	case "flapmap":
		g := f2(a[1])
		e := evalLst(a[2], def)
		y := elOf(a[3], "lst")
		if def {
			return lstApDef(list.Map(e, as.Curried2(g)), list.Of(y))
		}
		hit("list.FlapMap", def)
		return list.FlapMap(g, e)(y)
	case "method1":
		e := evalLst(a[1], def)
		g := f2(a[2])
		y := elOf(a[3], "lst")
		if def {
			return lstApDef(list.Map(e, as.Curried2(g)), list.Of(y))
		}
		hit("list.Method1", def)
		return list.Method1(e, g)(y)
	case "method2":
		e := evalLst(a[1], def)
		h := f3(a[2])
		y, z := elOf(a[3], "lst"), elOf(a[4], "lst")
		if def {
			return lstFlap2Def(list.Map(e, as.Curried3(h)), y, z)
		}
		hit("list.Method2", def)
		return list.Method2(e, h)(y, z)
	}
	panic("bad LX " + s.String())
}

func traverse(l Li) []any {
	ret := []any{}
	for !l.IsEmpty() {
		ret = append(ret, l.Head())
		l = l.Tail()
	}
	return ret
}

func runLst(build func() Li) string {
	ticks = 0
	resetTbl()
	Log = Log[:0]
	var l Li
	if r := step(func() string { l = build(); return "" }); r != "" {
		return "build-" + r + " | " + strings.Join(Log, ",")
	}
	first := step(func() string { return showAll(traverse(l)) })
	ev1 := strings.Join(Log, ",")
	if strings.HasPrefix(first, "panic(") {
		return first + " | " + ev1
	}
	Log = Log[:0]
	second := step(func() string { return showAll(traverse(l)) })
	return first + " | " + ev1 + " || " + second + " | " + strings.Join(Log, ",") + " || den=" + first
}

// ------------------------------------------------------------------------------------ dispatch

func callsOf(s *Sx) []string {
	out := []string{}
	for _, c := range s.List[1:] {
		out = append(out, c.Atom)
	}
	return out
}

func dispatch(op *Sx, def bool) (res string) {
	defer func() {
		if p := recover(); p != nil {
			res = fmt.Sprintf("harness-panic(%v)", p)
		}
	}()
	a := op.List
	switch op.Head() {
	case "seq":
		return runSeq(func() fp.Seq[any] { return evalSeq(a[1], def) })
	case "it":
		return runIt(func() It { return evalIt(a[1], def) }, callsOf(a[2]))
	case "lst":
		return runLst(func() Li { return evalLst(a[1], def) })
	case "seq2":
		return runSeq2(func() (fp.Seq[any], fp.Seq[any]) { return evalSeqTwice(a[1], def) })
	case "it2":
		return runIt2(func() (It, It) { return evalItTwice(a[1], def) })
	case "lst2":
		return runLst2(func() (Li, Li) { return evalLstTwice(a[1], def) })
	}
	return "bad-op"
}

func count(op *Sx) {
	hist["carrier:"+op.Head()]++
	hist["top:"+op.Head()+"."+op.List[1].Head()]++
	var walk func(s *Sx, d int) int
	walk = func(s *Sx, d int) int {
		m := d
		if s.IsL {
			for _, x := range s.List {
				if x.IsL {
					if k := walk(x, d+1); k > m {
						m = k
					}
				}
			}
			switch s.Head() {
			case "of", "src":
				n := len(s.List) - 1
				if s.Head() == "src" {
					n--
				}
				switch {
				case n == 0:
					hist["source:empty"]++
				case n == 1:
					hist["source:singleton"]++
				default:
					hist["source:several"]++
				}
			case "fpanic", "fpanicif", "kpanic", "kpanicif", "g2panic", "h3panic", "opanic":
				hist["callback:panicking"]++
			}
		}
		return m
	}
	hist[fmt.Sprintf("depth:%d", walk(op.List[1], 0))]++
}

func main() {
	seed := flag.Uint64("seed", 1, "PRNG seed")
	n := flag.Int("n", 3000, "number of generated cases")
	out := flag.String("out", ".", "output directory")
	replay := flag.String("replay", "", "run one op line and print the implementation's answer")
	opsFile := flag.String("ops", "", "run the op lines of this file instead of generating")
	flag.Parse()
	if *replay != "" {
		if strings.HasPrefix(*replay, "(law") {
			op, err := Parse(*replay)
			if err != nil {
				fmt.Println("bad-op")
				os.Exit(2)
			}
			for _, f := range lawCheck(op) {
				fmt.Println("DIRECT-FAILURE " + f)
			}
			return
		}
		op, err := Parse(*replay)
		if err != nil {
			fmt.Println("bad-op")
			os.Exit(2)
		}
		fmt.Println(dispatch(op, false))
		if d := dispatch(op, true); d != dispatch(op, false) {
			fmt.Println("DIRECT-FAILURE definitional expansion: " + d)
		}
		return
	}
	r := NewRng(*seed)
	sink := NewSink(*out)
	if *opsFile != "" {
		for _, line := range ReadLines(*opsFile) {
			op, err := Parse(line)
			if err != nil {
				continue
			}
			sink.Case(line, func() string { return dispatch(op, false) })
		}
		sink.Close()
		fmt.Printf("{\"cases\": %d}\n", sink.N)
		return
	}
	nd := 0
	runOne := func(op *Sx) {
		count(op)
		var impl string
		sink.Case(op.String(), func() string { impl = dispatch(op, false); return impl })
		// direct: the real function against its definitional expansion through FlatMap / Map / Of,
		// executed with the real FlatMap / Map / Of on fresh equal inputs (values, events, pulls)
		nd++
		if strings.HasPrefix(op.Head(), "seq") {
			// direct: nothing the library does may write into the shared table the callbacks' views point into
			nd++
			if !tblIntact() {
				sink.DirectFail("C01.seq.table-overwritten", op.String(), "shared backing table after the call: "+showAll(tbl))
			}
		}
		if d := dispatch(op, true); d != impl {
			sink.DirectFail("C01.def."+op.Head()+"."+op.List[1].Head(), op.String(), "real: "+impl+"  definition: "+d)
		}
	}
	for _, line := range fixedOps {
		op, err := Parse(line)
		if err != nil {
			panic("bad fixed op " + line)
		}
		runOne(op)
	}
	for i := 0; i < *n; i++ {
		ResetIDs()
		runOne(genCase(r, i))
	}
	// direct: the monad laws on sampled triples
	for i := 0; i < *n/4+20; i++ {
		ResetIDs()
		law := genLaw(r, i)
		hist["law:"+law.List[1].Atom+"."+law.List[2].Atom]++
		nd++
		for _, f := range lawCheck(law) {
			sink.DirectFail("C01.law."+law.List[1].Atom+"."+law.List[2].Atom, law.String(), f)
		}
	}
	sink.Close()
	keys := []string{}
	for k := range hist {
		keys = append(keys, k)
	}
	sort.Strings(keys)
	fmt.Printf("{\"cases\": %d, \"direct_checks\": %d, \"direct_failures\": %d, \"histogram\": {", sink.N, nd, sink.DirectFailures)
	for i, k := range keys {
		if i > 0 {
			fmt.Print(", ")
		}
		fmt.Printf("%q: %d", k, hist[k])
	}
	fmt.Println("}}")
}
