package main

// The FUNCTION a combinator returns (Lift(f), LiftM(k), Compose(k1,k2), ComposePure(f), Flap(t), Flap2(t),
// FlapMap(g,a), Method1, Method2) applied TWICE: the function value is built once and called twice over the
// same captured collections. Other expressions are evaluated twice. Lean: SX.evalTwice / LX.evalTwice /
// runIt2 (Model/CollExpr.lean, Oracle/Coll.lean).

import (
	"strings"

	"github.com/csgura/fp"
	"github.com/csgura/fp/as"
	"github.com/csgura/fp/iterator"
	"github.com/csgura/fp/list"
	"github.com/csgura/fp/seq"
	. "verifharness/common"
)

func isU1(f *Sx) bool {
	switch f.Head() {
	case "c2", "c3", "frep":
		return false
	}
	return true
}

func evalSeqTwice(s *Sx, def bool) (fp.Seq[any], fp.Seq[any]) {
	a := s.List
	switch s.Head() {
	case "lift":
		if !isU1(a[1]) {
			break
		}
		f := fnU(a[1], "seq")
		g := seq.Lift(f)
		if def {
			g = func(l fp.Seq[any]) fp.Seq[any] { return seq.Map(l, f) }
		} else {
			hit("seq.Lift(twice)", def)
		}
		l := evalSeq(a[2], def)
		return g(l), g(l)
	case "liftm":
		k := kSeq(a[1])
		g := seq.LiftM(k)
		if def {
			g = func(l fp.Seq[any]) fp.Seq[any] { return seq.FlatMap(l, k) }
		} else {
			hit("seq.LiftM(twice)", def)
		}
		l := evalSeq(a[2], def)
		return g(l), g(l)
	case "compose":
		k1, k2, x := kSeq(a[1]), kSeq(a[2]), elOf(a[3], "seq")
		g := seq.Compose(k1, k2)
		if def {
			g = func(v any) fp.Seq[any] { return seq.FlatMap(k1(v), k2) }
		} else {
			hit("seq.Compose(twice)", def)
		}
		return g(x), g(x)
	case "composepure":
		f, x := fnU(a[1], "seq"), elOf(a[2], "seq")
		g := seq.ComposePure(f)
		if def {
			g = func(v any) fp.Seq[any] { return seq.Of(f(v)) }
		} else {
			hit("seq.ComposePure(twice)", def)
		}
		return g(x), g(x)
	}
	r1 := evalSeq(s, def)
	return r1, evalSeq(s, def)
}

func runSeq2(build func() (fp.Seq[any], fp.Seq[any])) string {
	ticks = 0
	resetTbl()
	r := Outcome(func() string {
		x, y := build()
		return showAll(x) + " ;; " + showAll(y)
	})
	return r + " T=" + showAll(tbl)
}

func evalItTwice(s *Sx, def bool) (It, It) {
	a := s.List
	switch s.Head() {
	case "compose":
		k1, k2, x := kIt(a[1]), kIt(a[2]), elOf(a[3], "it")
		g := iterator.Compose(k1, k2)
		if def {
			g = func(v any) It { return iterator.FlatMap(k1(v), k2) }
		} else {
			hit("iterator.Compose(twice)", def)
		}
		i1 := g(x)
		return i1, g(x)
	case "composepure":
		f, x := fnU(a[1], "it"), elOf(a[2], "it")
		g := iterator.ComposePure(f)
		if def {
			g = func(v any) It { return iterator.Of(f(v)) }
		} else {
			hit("iterator.ComposePure(twice)", def)
		}
		i1 := g(x)
		return i1, g(x)
	}
	i1 := evalIt(s, def)
	return i1, evalIt(s, def)
}

func runIt2(build func() (It, It)) string {
	ticks = 0
	resetTbl()
	Log = Log[:0]
	srcRegs = srcRegs[:0]
	var i1, i2 It
	if r := step(func() string { i1, i2 = build(); return "" }); r != "" {
		return "build-" + r + " | " + strings.Join(Log, ",")
	}
	d1 := step(func() string { return showAll(i1.ToSeq()) })
	d2 := step(func() string { return showAll(i2.ToSeq()) })
	ps := []string{}
	for _, r := range srcRegs {
		ps = append(ps, Show(r.id)+"="+Show(r.pulls))
	}
	return "D=" + d1 + " D=" + d2 + " | " + strings.Join(Log, ",") + " # " + strings.Join(ps, ",")
}

func evalLstTwice(s *Sx, def bool) (Li, Li) {
	a := s.List
	switch s.Head() {
	case "lift":
		if !isU1(a[1]) {
			break
		}
		f := fnU(a[1], "lst")
		g := list.Lift(f)
		if def {
			g = func(l Li) Li { return list.Map(l, f) }
		} else {
			hit("list.Lift(twice)", def)
		}
		l := evalLst(a[2], def)
		r1 := g(l)
		return r1, g(l)
	case "compose":
		k1, k2, x := kList(a[1]), kList(a[2]), elOf(a[3], "lst")
		g := list.Compose(k1, k2)
		if def {
			g = func(v any) Li { return list.FlatMap(k1(v), k2) }
		} else {
			hit("list.Compose(twice)", def)
		}
		r1 := g(x)
		return r1, g(x)
	case "composepure":
		f, x := fnU(a[1], "lst"), elOf(a[2], "lst")
		g := list.ComposePure(f)
		if def {
			g = func(v any) Li { return list.Of(f(v)) }
		} else {
			hit("list.ComposePure(twice)", def)
		}
		r1 := g(x)
		return r1, g(x)
	case "flap":
		if typeOf(a[1]) == "FF" {
			break
		}
		tf := convList[F1](evalLst(a[1], def))
		x := elOf(a[2], "lst")
		g := list.Flap(tf)
		if def {
			g = func(v any) Li { return lstApDef(tf, list.Of(v)) }
		} else {
			hit("list.Flap(twice)", def)
		}
		r1 := g(x)
		return r1, g(x)
	case "flap2":
		tf := convList[F2c](evalLst(a[1], def))
		x, y := elOf(a[2], "lst"), elOf(a[3], "lst")
		var g func(any, any) Li
		if def {
			g = func(v, w any) Li { return lstFlap2Def(tf, v, w) }
		} else {
			hit("list.Flap2(twice)", def)
			fl := list.Flap2(tf)
			g = func(v, w any) Li { return fl(v)(w) }
		}
		r1 := g(x, y)
		return r1, g(x, y)
	case "flapmap", "method1":
		var gs, es *Sx
		if s.Head() == "flapmap" {
			gs, es = a[1], a[2]
		} else {
			gs, es = a[2], a[1]
		}
		gf := f2(gs)
		e := evalLst(es, def)
		y := elOf(a[3], "lst")
		var g func(any) Li
		switch {
		case def:
			m := list.Map(e, as.Curried2(gf))
			g = func(v any) Li { return lstApDef(m, list.Of(v)) }
		case s.Head() == "flapmap":
			hit("list.FlapMap(twice)", def)
			g = list.FlapMap(gf, e)
		default:
			hit("list.Method1(twice)", def)
			g = list.Method1(e, gf)
		}
		r1 := g(y)
		return r1, g(y)
	case "method2":
		e := evalLst(a[1], def)
		h := f3(a[2])
		y, z := elOf(a[3], "lst"), elOf(a[4], "lst")
		var g func(any, any) Li
		if def {
			m := list.Map(e, as.Curried3(h))
			g = func(v, w any) Li { return lstFlap2Def(m, v, w) }
		} else {
			hit("list.Method2(twice)", def)
			g = list.Method2(e, h)
		}
		r1 := g(y, z)
		return r1, g(y, z)
	}
	r1 := evalLst(s, def)
	return r1, evalLst(s, def)
}

func runLst2(build func() (Li, Li)) string {
	ticks = 0
	resetTbl()
	Log = Log[:0]
	var l1, l2 Li
	if r := step(func() string { l1, l2 = build(); return "" }); r != "" {
		return "build-" + r + " | " + strings.Join(Log, ",")
	}
	first := step(func() string { return showAll(traverse(l1)) })
	if strings.HasPrefix(first, "panic(") {
		return first + " | " + strings.Join(Log, ",")
	}
	second := step(func() string { return showAll(traverse(l2)) })
	return first + " ;; " + second + " | " + strings.Join(Log, ",")
}
