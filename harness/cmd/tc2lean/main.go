// tc2lean: a Go -> Lean 4 translator for the HAND-WRITTEN type-class combinators (work package TCTIE; Tie A of DESIGN.md
// for hand-written code, next to cmd/go2lean which does the generated TupleN families)
//
//	typeclass.go (EqFunc, CompareFunc, LessFunc, CloneFunc, EqGiven, LessGiven)   monoid.go
//	eq/eq_op.go   hash/hash_op.go   ord/ord_op.go   monoid/monoid_op.go   semigroup/semigroup.go   clone/clone.go
//	+ the callees fp.Min / fp.Zero / fp.Compose / fp.Id (fp.go), Option.OrElse (option.go), seq.Fold (seq/seq_op.go)
//
// On every run the declarations found in the working tree are translated, one Lean definition per Go function / method /
// package variable, into FpVerif/Gen/TCGen.lean (never under version control) over the dictionaries of
// FpVerif/Model/TypeClasses.lean and the Go constructs of FpVerif/Model/GoSem.lean.  The committed theorems of
// FpVerif/Spec/C09Gen, C09GenHash, C10Gen, C11Gen, C18Gen state that each translated definition IS the model definition (`rfl` where
// the kernel can unfold both sides, a proved extensional equality otherwise), that the exported declarations of those
// files are exactly translated ∪ listed exceptions, and transport laws to the translated code.
//
// THE FRAGMENT (everything else is rejected with a reason; the declaration is then `untranslated`):
//   - statements: `x := e`, `var x T`, `var x [T] = e`, `if c { …; return e }` (no else, no init), `return e`;
//     loops L1 `for i := range a` / `for _, v := range a` / `for i, v := range a` over a slice,
//     L2 `for i := 0; i < n; i++` (n loop-invariant, i not assigned; `for i, x := 0, x; …` accepted),
//     with a body that is EITHER a sequence of `if c { return e }` (-> GoSem.forRange) OR a sequence of assignments
//     `acc = e` / `acc *= e` / `acc += e` / `acc ^= e` to ONE accumulator declared by the statement just before the loop
//     (schema L3 -> GoSem.forAcc).  No nested loops, no `for cond {}`, no range over maps, no break / continue.
//   - expressions: parameters, locals, literals 0/1/…, `&& || !`, comparisons, `+ * ^` (at a type parameter: GoNum),
//     unary minus, `x == nil` / `x != nil` and `*x` on pointers, `&x` only in monoid / semigroup (pointers up to their
//     target), `a[i]`, `len(a)`, function literals, calls of parameters, calls of / references to declarations of the
//     translated files, method calls on instances (Eqv Hash Less Compare … Empty Combine Clone), Option IsDefined /
//     IsEmpty / Get, Seq Size / Concat, Tuple1 I1 / Head, hlist Head / Tail / Concat / IsNil / Empty, lazy Done / Call /
//     Get / Map2, option Some / Map / Map2, try Success / Map2, seq Map, conversions to the named function types of
//     package fp and uint32 / uint64, struct literals of hasher / monoid / fp.Dual / hlist.Nil / fp.Unit.
//   - an instance used at a weaker interface becomes `.toEq` / `.toSemigroup`; a value of a named function type used as
//     an interface becomes the dictionary of its (translated) methods.
//
// usage: tc2lean <repo> <out.lean>      last stdout line: JSON summary
package main

import (
	"encoding/json"
	"fmt"
	"go/ast"
	"go/parser"
	"go/token"
	"os"
	"path/filepath"
	"sort"
	"strings"
)

type decl struct {
	key, pkg, name, lean, file string
	fn                         *ast.FuncDecl
	value                      ast.Expr
	varTy                      ast.Expr
	counted                    bool // an exported declaration of one of the covered files
	line                       int
	out                        string
	errs                       []string
	refs                       map[string]bool
	order                      int
}

type structInfo struct {
	names []string
	types []ast.Expr
}

type global struct {
	fset    *token.FileSet
	decls   map[string]*decl
	list    []*decl
	structs map[string]*structInfo
	consts  map[string]string
	imports map[string]bool
	opaque  map[string]string
}

type source struct {
	pkg, file string
	counted   bool
	keep      func(recv, name string) bool
}

func all(recv, name string) bool { return true }

func only(names ...string) func(recv, name string) bool {
	return func(recv, name string) bool {
		k := name
		if recv != "" {
			k = recv + "." + name
		}
		for _, n := range names {
			if n == k {
				return true
			}
		}
		return false
	}
}

var sources = []source{
	{"fp", "typeclass.go", true, func(recv, name string) bool {
		switch recv {
		case "EqFunc", "CompareFunc", "LessFunc", "CloneFunc":
			return true
		case "":
			return name == "EqGiven" || name == "LessGiven"
		}
		return false
	}},
	{"fp", "monoid.go", true, all},
	{"fp", "fp.go", false, only("Min", "Zero", "Compose", "Id")},
	{"fp", "option.go", false, only("Option.OrElse")},
	{"seq", "seq/seq_op.go", false, only("Fold")},
	{"eq", "eq/eq_op.go", true, all},
	{"hash", "hash/hash_op.go", true, all},
	{"ord", "ord/ord_op.go", true, all},
	{"semigroup", "semigroup/semigroup.go", true, all},
	{"monoid", "monoid/monoid_op.go", true, all},
	{"clone", "clone/clone.go", true, all},
}

// declarations the translator does not attempt, with the reason (they must be on the exception list of the Spec files)
var outOfScope = map[string]string{}

func init() {
	outOfScope["fp.SemigroupFunc.Curried"] = "currying adapter: modelled and tied in Model/Misc.lean / Spec/C14Misc.lean (misc harness)"
	outOfScope["fp.monoid.Curried"] = "currying adapter: Spec/C14Misc.lean"
	outOfScope["monoid.monoid.Curried"] = "currying adapter: Spec/C14Misc.lean"
	outOfScope["fp.monoid.ToMonoid"] = "adapter: Spec/C14Misc.lean"
	outOfScope["monoid.monoid.ToMonoid"] = "adapter: Spec/C14Misc.lean"
	outOfScope["fp.EmptyFunc.Empty"] = "adapter: Spec/C14Misc.lean"
}

var leanKeywords = map[string]bool{"instance": true, "from": true, "at": true, "then": true, "else": true, "do": true, "end": true, "open": true,
	"in": true, "fun": true, "let": true, "have": true, "show": true, "where": true, "with": true, "match": true, "if": true, "by": true,
	"class": true, "structure": true, "def": true, "theorem": true, "namespace": true, "section": true, "variable": true, "universe": true,
	"import": true, "export": true, "mutual": true, "deriving": true, "extends": true, "using": true, "macro": true, "syntax": true,
	"notation": true, "local": true, "private": true, "protected": true, "partial": true, "unsafe": true, "noncomputable": true,
	"example": true, "abbrev": true, "axiom": true, "inductive": true, "opaque": true, "calc": true, "suffices": true, "Type": true, "Prop": true, "Sort": true}

func recvName(fd *ast.FuncDecl) (tyName string, tparams []string) {
	if fd.Recv == nil || len(fd.Recv.List) != 1 {
		return "", nil
	}
	ty := fd.Recv.List[0].Type
	if st, ok := ty.(*ast.StarExpr); ok {
		ty = st.X
	}
	for _, a := range tyArgs(ty) {
		if id, ok := a.(*ast.Ident); ok {
			tparams = append(tparams, id.Name)
		}
	}
	return tyHead(ty), tparams
}

func (g *global) load(repo string) map[string]string {
	parseErrs := map[string]string{}
	for _, src := range sources {
		f, err := parser.ParseFile(g.fset, filepath.Join(repo, src.file), nil, 0)
		if err != nil {
			parseErrs[src.file] = err.Error()
			continue
		}
		ast.Inspect(f, func(n ast.Node) bool {
			if id, ok := n.(*ast.Ident); ok && leanKeywords[id.Name] {
				id.Name += "_"
			}
			return true
		})
		for _, im := range f.Imports {
			p := strings.Trim(im.Path.Value, `"`)
			nm := p[strings.LastIndex(p, "/")+1:]
			if im.Name != nil {
				nm = im.Name.Name
			}
			g.imports[nm] = true
		}
		for _, d := range f.Decls {
			switch x := d.(type) {
			case *ast.FuncDecl:
				if x.Body == nil {
					continue
				}
				rn, _ := recvName(x)
				if !src.keep(rn, x.Name.Name) {
					continue
				}
				name := x.Name.Name
				exported := ast.IsExported(name)
				if rn != "" {
					name = rn + "." + name
					exported = exported && ast.IsExported(rn)
				}
				dd := &decl{key: src.pkg + "." + name, pkg: src.pkg, name: name, file: src.file, fn: x,
					counted: src.counted && exported, line: g.fset.Position(x.Pos()).Line}
				dd.lean = src.pkg + "_" + strings.ReplaceAll(name, ".", "_")
				g.add(dd)
			case *ast.GenDecl:
				for _, sp := range x.Specs {
					switch s := sp.(type) {
					case *ast.ValueSpec:
						if x.Tok == token.CONST {
							for i, nm := range s.Names {
								if i < len(s.Values) {
									if lit, ok := s.Values[i].(*ast.BasicLit); ok && lit.Kind == token.INT {
										g.consts[src.pkg+"."+nm.Name] = lit.Value
									}
								}
							}
							continue
						}
						if len(s.Names) != 1 || len(s.Values) != 1 || s.Names[0].Name == "_" || !src.keep("", s.Names[0].Name) {
							continue
						}
						nm := s.Names[0].Name
						dd := &decl{key: src.pkg + "." + nm, pkg: src.pkg, name: nm, file: src.file, value: s.Values[0], varTy: s.Type,
							counted: src.counted && ast.IsExported(nm), line: g.fset.Position(s.Pos()).Line}
						dd.lean = src.pkg + "_" + nm
						g.add(dd)
					case *ast.TypeSpec:
						if st, ok := s.Type.(*ast.StructType); ok && src.counted {
							si := &structInfo{}
							for _, fl := range st.Fields.List {
								if len(fl.Names) == 0 {
									h := tyHead(fl.Type) // embedded
									si.names = append(si.names, h[strings.LastIndex(h, ".")+1:])
									si.types = append(si.types, fl.Type)
								}
								for _, nm := range fl.Names {
									si.names = append(si.names, nm.Name)
									si.types = append(si.types, fl.Type)
								}
							}
							g.structs[src.pkg+"."+s.Name.Name] = si
						}
					}
				}
			}
		}
	}
	return parseErrs
}

func (g *global) add(d *decl) {
	d.order = len(g.list)
	g.decls[d.key] = d
	g.list = append(g.list, d)
}

func (g *global) constraintBinders(d *decl, name, c string) string {
	switch c {
	case "any", "":
		return "[GoZero " + name + "]"
	case "comparable":
		return "[DecidableEq " + name + "] [GoZero " + name + "]"
	case "hlist.HList":
		return "[HListT " + name + "] [GoZero " + name + "]"
	case "fp.ImplicitOrd", "ImplicitOrd":
		if d.file == "typeclass.go" || d.file == "fp.go" || d.pkg == "ord" {
			return "[LT " + name + "] [DecidableRel (α := " + name + ") (· < ·)] [GoZero " + name + "]"
		}
		return "[GoNum " + name + "]"
	case "fp.ImplicitNum", "ImplicitNum":
		if d.pkg == "hash" {
			return "[DecidableEq " + name + "] [GoInt " + name + "] [GoZero " + name + "]"
		}
		return "[GoNum " + name + "]"
	}
	return "«constraint " + c + "»"
}

func (g *global) translate(d *decl) {
	t := &tr{g: g, pkg: d.pkg, tparams: map[string]string{}, env: map[string]ast.Expr{}, fields: map[string]bool{}, refs: map[string]bool{}}
	defer func() {
		if r := recover(); r != nil {
			t.errs = append(t.errs, fmt.Sprint("translator panic: ", r))
		}
		d.errs, d.refs = t.errs, t.refs
	}()
	if lean, ok := g.opaque[d.key]; ok {
		d.lean = lean
		d.out = "-- `" + d.key + "` is not translated (a `for cond {}` loop): calls go to the model definition `" + lean + "`\n"
		return
	}
	if why, ok := outOfScope[d.key]; ok {
		t.errs = append(t.errs, why)
		return
	}
	doc := fmt.Sprintf("/-- translation of `%s` (%s:%d) -/\n", d.key, d.file, d.line)
	if d.fn == nil {
		ty := ""
		if d.varTy != nil {
			ty = " : " + t.leanTy(d.varTy)
		}
		v := t.expr(d.value, d.varTy)
		d.out = doc + "def " + d.lean + ty + " :=\n  " + v + "\n"
		return
	}
	var tps, cbs, params []string
	addTP := func(name, c string) {
		t.tparams[name] = c
		tps = append(tps, name)
		if b := g.constraintBinders(d, name, c); b != "" {
			cbs = append(cbs, b)
		}
	}
	if rn, rtp := recvName(d.fn); rn != "" {
		for _, p := range rtp {
			addTP(p, "any")
		}
		rf := d.fn.Recv.List[0]
		if len(rf.Names) == 1 {
			t.recv = rf.Names[0].Name
		}
		if st := g.structs[d.pkg+"."+rn]; st != nil {
			for i, nm := range st.names {
				t.fields[nm] = true
				t.env[nm] = st.types[i]
				params = append(params, "("+nm+" : "+t.leanTy(st.types[i])+")")
			}
		} else {
			t.recvTy = rf.Type
			if t.recv == "" {
				t.recv = "r__"
			}
			t.env[t.recv] = rf.Type
			params = append(params, "("+t.recv+" : "+t.leanTy(rf.Type)+")")
		}
	}
	if d.fn.Type.TypeParams != nil {
		for _, f := range d.fn.Type.TypeParams.List {
			for _, nm := range f.Names {
				addTP(nm.Name, tyHead(f.Type))
			}
		}
	}
	if d.fn.Type.Params != nil {
		for _, f := range d.fn.Type.Params.List {
			lt := t.leanTy(f.Type)
			if len(f.Names) == 0 {
				params = append(params, "(_ : "+lt+")")
			}
			for _, nm := range f.Names {
				t.env[nm.Name] = f.Type
				params = append(params, "("+nm.Name+" : "+lt+")")
			}
		}
	}
	if d.fn.Type.Results == nil || len(d.fn.Type.Results.List) != 1 {
		t.fail(d.fn, "function without a single result")
		return
	}
	rt := d.fn.Type.Results.List[0].Type
	body := t.block(d.fn.Body.List, rt, false)
	sig := d.lean
	if len(tps) > 0 {
		sig += " {" + strings.Join(tps, " ") + " : Type} " + strings.Join(cbs, " ")
	}
	if len(params) > 0 {
		sig += " " + strings.Join(params, " ")
	}
	d.out = doc + "def " + sig + " : " + t.leanTy(rt) + " :=\n  " + body + "\n"
}

type result struct {
	Found        int               `json:"found"`
	Translated   int               `json:"translated"`
	Helpers      int               `json:"helpers"`
	Untranslated map[string]string `json:"untranslated"`
	ParseErrors  map[string]string `json:"parse_errors,omitempty"`
}

func leanStr(s string) string {
	return `"` + strings.ReplaceAll(strings.ReplaceAll(s, `\`, `\\`), `"`, `\"`) + `"`
}

func main() {
	repo, out := os.Args[1], os.Args[2]
	g := &global{fset: token.NewFileSet(), decls: map[string]*decl{}, structs: map[string]*structInfo{}, consts: map[string]string{},
		imports: map[string]bool{}, opaque: map[string]string{"hash.hashUint64": "HashD.hashUint64"}}
	res := result{Untranslated: map[string]string{}}
	res.ParseErrors = g.load(repo)
	for _, d := range g.list {
		g.translate(d)
	}
	// a declaration that refers to an untranslated one is untranslated
	for changed := true; changed; {
		changed = false
		for _, d := range g.list {
			if len(d.errs) > 0 {
				continue
			}
			var keys []string
			for k := range d.refs {
				keys = append(keys, k)
			}
			sort.Strings(keys)
			for _, k := range keys {
				if o := g.decls[k]; o == nil || len(o.errs) > 0 {
					d.errs = append(d.errs, "refers to the untranslated "+k)
					changed = true
					break
				}
			}
		}
	}
	// emit in dependency order
	var b strings.Builder
	b.WriteString("-- GENERATED by harness/cmd/tc2lean from the repository's source (typeclass.go, monoid.go, eq/eq_op.go, hash/hash_op.go, ord/ord_op.go,\n")
	b.WriteString("-- monoid/monoid_op.go, semigroup/semigroup.go, clone/clone.go and a few callees); do not edit.\n")
	b.WriteString("import FpVerif.Model.GoSem\nset_option linter.unusedVariables false\nset_option autoImplicit false\nnamespace FpVerif.Gen.TC\nopen FpVerif.TC FpVerif.GoSem\n\n")
	emitted := map[string]bool{}
	var emit func(d *decl)
	emit = func(d *decl) {
		if emitted[d.key] || len(d.errs) > 0 {
			return
		}
		emitted[d.key] = true
		var keys []string
		for k := range d.refs {
			keys = append(keys, k)
		}
		sort.Slice(keys, func(i, j int) bool { return g.decls[keys[i]].order < g.decls[keys[j]].order })
		for _, k := range keys {
			emit(g.decls[k])
		}
		b.WriteString(d.out + "\n")
	}
	for _, d := range g.list {
		emit(d)
	}
	var found, translated, helpers []string
	var untr [][2]string
	// the lists are sorted by name: moving a declaration inside its file changes nothing
	byKey := append([]*decl(nil), g.list...)
	sort.Slice(byKey, func(i, j int) bool { return byKey[i].key < byKey[j].key })
	for _, d := range byKey {
		ok := len(d.errs) == 0
		if d.counted {
			found = append(found, d.key)
			if ok {
				translated = append(translated, d.key)
			} else {
				untr = append(untr, [2]string{d.key, d.errs[0]})
				res.Untranslated[d.key] = strings.Join(d.errs, "; ")
			}
		} else if ok {
			helpers = append(helpers, d.key)
		} else {
			b.WriteString("-- helper " + d.key + " not translated: " + strings.Join(d.errs, "; ") + "\n")
		}
	}
	list := func(name, doc string, xs []string) {
		b.WriteString("/-- " + doc + " -/\ndef " + name + " : List String := [")
		for i, x := range xs {
			if i > 0 {
				b.WriteString(", ")
			}
			if i%6 == 0 {
				b.WriteString("\n  ")
			}
			b.WriteString(leanStr(x))
		}
		b.WriteString("]\n\n")
	}
	b.WriteString("\n")
	list("found", "the exported functions, methods and package variables found in the covered files", found)
	list("translated", "those of `found` that were translated", translated)
	list("helpers", "unexported declarations and callees from other files that were translated", helpers)
	b.WriteString("/-- `found`, each with the flag `translated?` -/\ndef foundFlags : List (String × Bool) := [")
	for i, d := range byKey {
		if !d.counted {
			continue
		}
		if i > 0 && b.String()[b.Len()-1] != '[' {
			b.WriteString(", ")
		}
		if len(d.errs) == 0 {
			b.WriteString("\n  (" + leanStr(d.key) + ", true)")
		} else {
			b.WriteString("\n  (" + leanStr(d.key) + ", false)")
		}
	}
	b.WriteString("]\n\n")
	b.WriteString("/-- those of `found` outside the fragment, with the translator's reason -/\ndef untranslated : List (String × String) := [")
	for i, u := range untr {
		if i > 0 {
			b.WriteString(",")
		}
		b.WriteString("\n  (" + leanStr(u[0]) + ", " + leanStr(u[1]) + ")")
	}
	b.WriteString("]\n\nend FpVerif.Gen.TC\n")
	if err := os.MkdirAll(filepath.Dir(out), 0o755); err != nil {
		panic(err)
	}
	if err := os.WriteFile(out, []byte(b.String()), 0o644); err != nil {
		panic(err)
	}
	res.Found, res.Translated, res.Helpers = len(found), len(translated), len(helpers)
	js, _ := json.Marshal(res)
	fmt.Println(string(js))
}
