package main

import (
	"go/ast"
	"strings"
)

// ---------------------------------------------------------------------------------------------------------------------
// Go type expressions (syntactic; the translated files spell every parameter type out)

// head of a type expression: "fp.Eq", "fp.Option", "*", "[]", "func", "map", "T" (identifier) …
func tyHead(e ast.Expr) string {
	switch x := e.(type) {
	case nil:
		return ""
	case *ast.ParenExpr:
		return tyHead(x.X)
	case *ast.Ident:
		return x.Name
	case *ast.SelectorExpr:
		if id, ok := x.X.(*ast.Ident); ok {
			return id.Name + "." + x.Sel.Name
		}
	case *ast.IndexExpr:
		return tyHead(x.X)
	case *ast.IndexListExpr:
		return tyHead(x.X)
	case *ast.StarExpr:
		return "*"
	case *ast.ArrayType:
		if x.Len == nil {
			return "[]"
		}
	case *ast.FuncType:
		return "func"
	case *ast.MapType:
		return "map"
	case *ast.InterfaceType:
		return "interface"
	}
	return "?"
}

func tyArgs(e ast.Expr) []ast.Expr {
	switch x := e.(type) {
	case *ast.ParenExpr:
		return tyArgs(x.X)
	case *ast.IndexExpr:
		return []ast.Expr{x.Index}
	case *ast.IndexListExpr:
		return x.Indices
	case *ast.StarExpr:
		return []ast.Expr{x.X}
	case *ast.ArrayType:
		return []ast.Expr{x.Elt}
	}
	return nil
}

func tyArg(e ast.Expr, i int) ast.Expr {
	as := tyArgs(e)
	if i < len(as) {
		return as[i]
	}
	return nil
}

// the kind of a type, as far as the translation cares. `pkg` is the package the expression occurs in (unqualified names)
func (t *tr) kind(e ast.Expr) string {
	h := tyHead(e)
	if !strings.Contains(h, ".") && t.pkg == "fp" {
		switch h {
		case "Eq", "Hashable", "Ord", "Monoid", "Semigroup", "Clone", "Option", "Seq", "EqFunc", "CompareFunc", "LessFunc",
			"SemigroupFunc", "EmptyFunc", "CloneFunc", "Endo", "Dual", "Try", "Unit", "Tuple1", "Predicate":
			h = "fp." + h
		}
	}
	switch h {
	case "fp.Eq":
		return "eq"
	case "fp.Hashable":
		return "hash"
	case "fp.Ord":
		return "ord"
	case "fp.Monoid":
		return "monoid"
	case "fp.Semigroup":
		return "semigroup"
	case "fp.Clone":
		return "clone"
	case "fp.Option":
		return "opt"
	case "fp.Seq", "[]":
		return "seq"
	case "*":
		return "ptr"
	case "lazy.Eval":
		return "lazy"
	case "hlist.Cons":
		return "cons"
	case "hlist.Nil":
		return "hnil"
	case "fp.Tuple1":
		return "tuple1"
	case "fp.Tuple2":
		return "tuple2"
	case "fp.EqFunc":
		return "eqfunc"
	case "fp.CompareFunc":
		return "comparefunc"
	case "fp.LessFunc":
		return "lessfunc"
	case "fp.SemigroupFunc":
		return "sgfunc"
	case "fp.EmptyFunc":
		return "emptyfunc"
	case "fp.CloneFunc":
		return "clonefunc"
	case "fp.Predicate":
		return "predicate"
	case "fp.Endo":
		return "endo"
	case "fp.Dual":
		return "dual"
	case "fp.Try":
		return "try"
	case "fp.Unit":
		return "unit"
	case "fp.Generic":
		return "generic"
	case "func":
		return "func"
	case "map", "fp.Map", "fp.Set":
		return "map"
	case "bool":
		return "bool"
	case "int":
		return "int"
	case "uint32":
		return "uint32"
	case "uint64":
		return "uint64"
	case "string":
		return "string"
	case "hasher":
		return "hasher"
	case "monoid":
		return "monoidstruct"
	case "":
		return ""
	}
	if t.tparams[h] != "" {
		return "tparam"
	}
	return "other:" + h
}

func isIface(k string) bool {
	switch k {
	case "eq", "hash", "ord", "monoid", "semigroup", "clone":
		return true
	}
	return false
}

func isFuncKind(k string) bool {
	switch k {
	case "func", "eqfunc", "comparefunc", "lessfunc", "sgfunc", "emptyfunc", "clonefunc", "predicate", "endo":
		return true
	}
	return false
}

// Lean type of a Go type expression
func (t *tr) leanTy(e ast.Expr) string {
	k := t.kind(e)
	a := func(i int) string { return t.leanTyP(tyArg(e, i)) }
	switch k {
	case "eq":
		return "EqD " + a(0)
	case "hash":
		return "HashD " + a(0)
	case "ord":
		return "OrdD " + a(0)
	case "monoid":
		return "MonoidD " + a(0)
	case "semigroup":
		return "SemigroupD " + a(0)
	case "clone":
		return "CloneD " + a(0)
	case "opt":
		return "Option " + a(0)
	case "seq":
		return "List " + a(0)
	case "ptr":
		if t.ptrAsOption() {
			return "Option " + a(0)
		}
		return "Ptr " + a(0)
	case "lazy":
		return "Unit → " + t.leanTy(tyArg(e, 0))
	case "cons":
		return a(0) + " × " + a(1)
	case "hnil", "unit":
		return "Unit"
	case "tuple1":
		return "T1 " + a(0)
	case "tuple2":
		return a(0) + " × T1 " + a(1)
	case "eqfunc", "lessfunc":
		return a(0) + " → " + a(0) + " → Bool"
	case "comparefunc":
		return a(0) + " → " + a(0) + " → Int"
	case "sgfunc":
		return a(0) + " → " + a(0) + " → " + a(0)
	case "emptyfunc":
		return "Unit → " + a(0)
	case "clonefunc", "endo":
		return a(0) + " → " + a(0)
	case "predicate":
		return a(0) + " → Bool"
	case "dual":
		return "Dual " + a(0)
	case "try":
		return "TryV " + a(0)
	case "bool":
		return "Bool"
	case "int":
		return "Int"
	case "uint32":
		return "UInt32"
	case "uint64":
		return "UInt64"
	case "string":
		return "String"
	case "tparam":
		return tyHead(e)
	case "func":
		ft := e.(*ast.FuncType)
		var ps []string
		if ft.Params != nil {
			for _, f := range ft.Params.List {
				n := len(f.Names)
				if n == 0 {
					n = 1
				}
				for i := 0; i < n; i++ {
					ps = append(ps, t.leanTyP(f.Type))
				}
			}
		}
		if len(ps) == 0 {
			ps = []string{"Unit"}
		}
		if ft.Results == nil || len(ft.Results.List) != 1 {
			t.fail(e, "function type without a single result")
			return "«?»"
		}
		return strings.Join(ps, " → ") + " → " + t.leanTy(ft.Results.List[0].Type)
	}
	t.fail(e, "type "+tyHead(e)+" outside the fragment")
	return "«?»"
}

// parenthesised when not atomic
func (t *tr) leanTyP(e ast.Expr) string {
	s := t.leanTy(e)
	if strings.ContainsAny(s, " ") {
		return "(" + s + ")"
	}
	return s
}

// packages monoid / semigroup model a pointer up to its target (`*T` is `Option T`, `&x` is `some x`);
// eq / hash / ord keep an address id (`Ptr T`) which the combinators never look at.
func (t *tr) ptrAsOption() bool {
	return t.pkg == "monoid" || t.pkg == "semigroup"
}
