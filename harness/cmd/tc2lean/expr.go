package main

import (
	"fmt"
	"go/ast"
	"go/token"
	"strings"
)

// one function / method / variable being translated
type tr struct {
	g       *global
	pkg     string
	tparams map[string]string   // type parameter -> constraint head ("any", "comparable", "fp.ImplicitOrd", …)
	env     map[string]ast.Expr // local variable -> Go type (nil = unknown)
	fields  map[string]bool     // receiver struct fields in scope as plain variables (r.f -> f)
	recv    string              // receiver variable name
	recvTy  ast.Expr
	errs    []string
	refs    map[string]bool // keys of other declarations this one refers to
}

func (t *tr) fail(n ast.Node, why string) string {
	pos := ""
	if n != nil && n.Pos().IsValid() {
		pos = fmt.Sprintf(" (line %d)", t.g.fset.Position(n.Pos()).Line)
	}
	t.errs = append(t.errs, why+pos)
	return "«untranslatable»"
}

func ident(name string) *ast.Ident { return &ast.Ident{Name: name} }

var boolTy, intTy, uint32Ty, uint64Ty, byteTy, stringTy = ident("bool"), ident("int"), ident("uint32"), ident("uint64"), ident("byte"), ident("string")

// fp.Option[elem] (elem may be unknown)
func optOf(elem ast.Expr) ast.Expr {
	if elem == nil {
		elem = ident("_")
	}
	return &ast.IndexExpr{X: &ast.SelectorExpr{X: ident("fp"), Sel: ident("Option")}, Index: elem}
}

// substitute type parameters in a type expression
func subst(e ast.Expr, m map[string]ast.Expr) ast.Expr {
	if len(m) == 0 || e == nil {
		return e
	}
	switch x := e.(type) {
	case *ast.Ident:
		if r, ok := m[x.Name]; ok {
			return r
		}
		return x
	case *ast.IndexExpr:
		return &ast.IndexExpr{X: x.X, Index: subst(x.Index, m)}
	case *ast.IndexListExpr:
		var is []ast.Expr
		for _, i := range x.Indices {
			is = append(is, subst(i, m))
		}
		return &ast.IndexListExpr{X: x.X, Indices: is}
	case *ast.StarExpr:
		return &ast.StarExpr{X: subst(x.X, m)}
	case *ast.ArrayType:
		return &ast.ArrayType{Elt: subst(x.Elt, m)}
	}
	return e
}

// ---------------------------------------------------------------------------------------------------------------------
// static types (syntactic, best effort; nil = unknown)

func (t *tr) isPkg(name string) bool {
	if _, local := t.env[name]; local {
		return false
	}
	return t.g.imports[name]
}

// the declaration a call target / value reference denotes, with the explicit type arguments
func (t *tr) target(fun ast.Expr) (*decl, []ast.Expr) {
	switch x := fun.(type) {
	case *ast.ParenExpr:
		return t.target(x.X)
	case *ast.IndexExpr:
		d, _ := t.target(x.X)
		return d, []ast.Expr{x.Index}
	case *ast.IndexListExpr:
		d, _ := t.target(x.X)
		return d, x.Indices
	case *ast.Ident:
		if _, local := t.env[x.Name]; local {
			return nil, nil
		}
		return t.g.decls[t.pkg+"."+x.Name], nil
	case *ast.SelectorExpr:
		if id, ok := x.X.(*ast.Ident); ok && t.isPkg(id.Name) {
			return t.g.decls[id.Name+"."+x.Sel.Name], nil
		}
	}
	return nil, nil
}

func (d *decl) resultTy(targs []ast.Expr) ast.Expr {
	if d.fn != nil {
		if d.fn.Type.Results == nil || len(d.fn.Type.Results.List) != 1 {
			return nil
		}
		m := map[string]ast.Expr{}
		i := 0
		if d.fn.Type.TypeParams != nil {
			for _, f := range d.fn.Type.TypeParams.List {
				for _, n := range f.Names {
					if i < len(targs) {
						m[n.Name] = targs[i]
					}
					i++
				}
			}
		}
		return subst(d.fn.Type.Results.List[0].Type, m)
	}
	return d.varTy
}

func (t *tr) typeOf(e ast.Expr) ast.Expr {
	switch x := e.(type) {
	case *ast.ParenExpr:
		return t.typeOf(x.X)
	case *ast.Ident:
		if ty, ok := t.env[x.Name]; ok {
			return ty
		}
		if x.Name == "true" || x.Name == "false" {
			return boolTy
		}
		if d := t.g.decls[t.pkg+"."+x.Name]; d != nil && d.fn == nil {
			return d.varTy
		}
		return nil
	case *ast.FuncLit:
		return x.Type
	case *ast.CompositeLit:
		return x.Type
	case *ast.StarExpr:
		return tyArg(t.typeOf(x.X), 0)
	case *ast.UnaryExpr:
		switch x.Op {
		case token.AND:
			if in := t.typeOf(x.X); in != nil {
				return &ast.StarExpr{X: in}
			}
			return nil
		case token.NOT:
			return boolTy
		}
		return t.typeOf(x.X)
	case *ast.BinaryExpr:
		switch x.Op {
		case token.EQL, token.NEQ, token.LSS, token.LEQ, token.GTR, token.GEQ, token.LAND, token.LOR:
			return boolTy
		}
		if l := t.typeOf(x.X); l != nil {
			return l
		}
		return t.typeOf(x.Y)
	case *ast.IndexExpr:
		// a[i] on a slice / string; otherwise a generic instantiation used as a value
		if xt := t.typeOf(x.X); xt != nil {
			switch t.kind(xt) {
			case "seq":
				return tyArg(xt, 0)
			case "string":
				return byteTy
			}
		}
		return nil
	case *ast.SelectorExpr:
		if id, ok := x.X.(*ast.Ident); ok {
			if t.isPkg(id.Name) {
				if d := t.g.decls[id.Name+"."+x.Sel.Name]; d != nil && d.fn == nil {
					return d.varTy
				}
				return nil
			}
			if id.Name == t.recv && t.fields[x.Sel.Name] {
				return t.env[x.Sel.Name]
			}
		}
		xt := t.typeOf(x.X)
		switch t.kind(xt) {
		case "tuple1":
			if x.Sel.Name == "I1" {
				return tyArg(xt, 0)
			}
		case "tuple2":
			if x.Sel.Name == "I1" {
				return tyArg(xt, 0)
			}
			if x.Sel.Name == "I2" {
				return tyArg(xt, 1)
			}
		case "dual":
			if x.Sel.Name == "GetDual" {
				return tyArg(xt, 0)
			}
		}
		return nil
	case *ast.CallExpr:
		// conversions
		if ty := t.asType(x.Fun); ty != nil {
			return ty
		}
		if d, targs := t.target(x.Fun); d != nil {
			return d.resultTy(targs)
		}
		if sel, ok := x.Fun.(*ast.SelectorExpr); ok {
			if id, ok := sel.X.(*ast.Ident); ok && t.isPkg(id.Name) {
				switch id.Name + "." + sel.Sel.Name {
				case "hlist.Head":
					return tyArg(t.typeOf(x.Args[0]), 0)
				case "hlist.Tail":
					return tyArg(t.typeOf(x.Args[0]), 1)
				case "option.Map2", "option.Map":
					return optOf(nil)
				case "option.Some", "fp.Some":
					return optOf(t.typeOf(x.Args[0]))
				}
				return nil
			}
			xt := t.typeOf(sel.X)
			switch t.kind(xt) {
			case "opt":
				switch sel.Sel.Name {
				case "Get", "OrElse":
					return tyArg(xt, 0)
				case "IsDefined", "IsEmpty":
					return boolTy
				}
			case "lazy":
				if sel.Sel.Name == "Get" {
					return tyArg(xt, 0)
				}
			case "cons", "tuple1", "tuple2":
				if sel.Sel.Name == "Head" {
					return tyArg(xt, 0)
				}
			case "seq":
				if sel.Sel.Name == "Size" {
					return intTy
				}
				if sel.Sel.Name == "Concat" {
					return xt
				}
			case "eq", "hash", "ord", "monoid", "semigroup", "clone":
				switch sel.Sel.Name {
				case "Eqv", "Less", "LessEq":
					return boolTy
				case "Compare":
					return intTy
				case "Hash":
					return uint32Ty
				case "Empty", "Combine", "Clone", "Min", "Max":
					return tyArg(xt, 0)
				case "ThenComparing", "Reversed":
					return xt
				}
			case "comparefunc", "lessfunc", "eqfunc", "sgfunc", "emptyfunc", "clonefunc", "endo":
				if d := t.g.decls["fp."+strings.TrimPrefix(tyHead(xt), "fp.")+"."+sel.Sel.Name]; d != nil {
					return d.resultTy(nil)
				}
			}
			return nil
		}
		if id, ok := x.Fun.(*ast.Ident); ok {
			switch id.Name {
			case "len":
				return intTy
			}
			if ft, ok := t.env[id.Name].(*ast.FuncType); ok && ft.Results != nil && len(ft.Results.List) == 1 {
				return ft.Results.List[0].Type
			}
			switch t.kind(t.env[id.Name]) {
			case "eqfunc", "lessfunc":
				return boolTy
			case "comparefunc":
				return intTy
			case "sgfunc", "emptyfunc", "clonefunc", "endo":
				return tyArg(t.env[id.Name], 0)
			case "predicate":
				return boolTy
			}
		}
		return nil
	}
	return nil
}

// `e` read as a type (the Fun of a conversion): fp.EqFunc[T], uint64, …
func (t *tr) asType(e ast.Expr) ast.Expr {
	switch t.kind(e) {
	case "eqfunc", "comparefunc", "lessfunc", "sgfunc", "emptyfunc", "clonefunc", "endo", "predicate":
		if len(tyArgs(e)) == 1 {
			return e
		}
	case "uint32", "uint64", "int":
		if id, ok := e.(*ast.Ident); ok {
			if _, local := t.env[id.Name]; !local {
				return e
			}
		}
	}
	return nil
}

// ---------------------------------------------------------------------------------------------------------------------
// coercions between the static type an expression has and the type its context wants

func (t *tr) coerce(s string, have, want ast.Expr, at ast.Node) string {
	if have == nil || want == nil {
		return s
	}
	hk, wk := t.kind(have), t.kind(want)
	if hk == wk {
		return s
	}
	switch {
	case (hk == "ord" || hk == "hash") && wk == "eq":
		return s + ".toEq"
	case hk == "monoid" && wk == "semigroup":
		return s + ".toSemigroup"
	case hk == "eqfunc" && wk == "eq":
		t.refs["fp.EqFunc.Eqv"] = true
		return "(EqD.mk (fp_EqFunc_Eqv " + s + "))"
	case hk == "comparefunc" && wk == "ord":
		return "(OrdD.compareFunc " + s + ")"
	case hk == "lessfunc" && wk == "ord":
		return "(OrdD.lessFunc " + s + ")"
	case hk == "sgfunc" && wk == "semigroup":
		t.refs["fp.SemigroupFunc.Combine"] = true
		return "(SemigroupD.mk (fp_SemigroupFunc_Combine " + s + "))"
	case hk == "sgfunc" && wk == "monoid":
		t.refs["fp.SemigroupFunc.Combine"] = true
		t.refs["fp.SemigroupFunc.Empty"] = true
		return "(MonoidD.mk (fp_SemigroupFunc_Empty " + s + ") (fp_SemigroupFunc_Combine " + s + "))"
	case hk == "clonefunc" && wk == "clone":
		t.refs["fp.CloneFunc.Clone"] = true
		return "(fp_CloneFunc_Clone " + s + ")"
	case isIface(wk) && isFuncKind(hk):
		return t.fail(at, "no dictionary for "+hk+" used as "+wk)
	case isIface(wk) && isIface(hk):
		return t.fail(at, "interface conversion "+hk+" to "+wk)
	}
	return s
}

// ---------------------------------------------------------------------------------------------------------------------
// expressions

func (t *tr) exprs(args []ast.Expr, wants []ast.Expr) []string {
	var out []string
	for i, a := range args {
		var w ast.Expr
		if i < len(wants) {
			w = wants[i]
		}
		out = append(out, t.expr(a, w))
	}
	return out
}

func paramTypes(ft *ast.FuncType) []ast.Expr {
	var out []ast.Expr
	if ft.Params == nil {
		return nil
	}
	for _, f := range ft.Params.List {
		n := len(f.Names)
		if n == 0 {
			n = 1
		}
		for i := 0; i < n; i++ {
			out = append(out, f.Type)
		}
	}
	return out
}

// `e` in a context that wants Go type `want` (nil = no expectation)
func (t *tr) expr(e ast.Expr, want ast.Expr) string {
	s := t.expr0(e, want)
	return t.coerce(s, t.typeOf(e), want, e)
}

func (t *tr) isNil(e ast.Expr) bool {
	id, ok := e.(*ast.Ident)
	if !ok || id.Name != "nil" {
		return false
	}
	_, local := t.env["nil"]
	return !local
}

func (t *tr) binary(x *ast.BinaryExpr, want ast.Expr, asProp bool) string {
	// comparisons with nil
	if x.Op == token.EQL || x.Op == token.NEQ {
		var other ast.Expr
		if t.isNil(x.Y) {
			other = x.X
		} else if t.isNil(x.X) {
			other = x.Y
		}
		if other != nil {
			if t.kind(t.typeOf(other)) != "ptr" {
				return t.fail(x, "comparison with nil of a non-pointer")
			}
			if x.Op == token.EQL {
				return t.expr(other, nil) + ".isNone"
			}
			return t.expr(other, nil) + ".isSome"
		}
	}
	lt := t.typeOf(x.X)
	if lt == nil {
		lt = t.typeOf(x.Y)
	}
	lk := t.kind(lt)
	switch x.Op {
	case token.LAND:
		return "(" + t.expr(x.X, boolTy) + " && " + t.expr(x.Y, boolTy) + ")"
	case token.LOR:
		return "(" + t.expr(x.X, boolTy) + " || " + t.expr(x.Y, boolTy) + ")"
	}
	l, r := t.expr(x.X, lt), t.expr(x.Y, lt)
	prop := func(p string) string {
		if asProp {
			return "(" + p + ")"
		}
		return "(decide (" + p + "))"
	}
	switch x.Op {
	case token.LSS:
		return prop(l + " < " + r)
	case token.GTR:
		return prop(l + " > " + r)
	case token.LEQ:
		return prop(l + " ≤ " + r)
	case token.GEQ:
		return prop(l + " ≥ " + r)
	case token.EQL:
		if lk == "tparam" || lk == "string" {
			return prop(l + " = " + r)
		}
		return "(" + l + " == " + r + ")"
	case token.NEQ:
		if lk == "tparam" || lk == "string" {
			return prop(l + " ≠ " + r)
		}
		return "(" + l + " != " + r + ")"
	case token.ADD:
		switch lk {
		case "tparam":
			return "(GoNum.add " + l + " " + r + ")"
		case "string":
			return "(" + l + " ++ " + r + ")"
		}
		return "(" + l + " + " + r + ")"
	case token.MUL:
		if lk == "tparam" {
			return "(GoNum.mul " + l + " " + r + ")"
		}
		return "(" + l + " * " + r + ")"
	case token.XOR:
		return "(" + l + " ^^^ " + r + ")"
	}
	return t.fail(x, "operator "+x.Op.String())
}

// a condition after `if`: a Prop for comparisons, a Bool otherwise
func (t *tr) cond(e ast.Expr) string {
	if p, ok := e.(*ast.ParenExpr); ok {
		return t.cond(p.X)
	}
	if b, ok := e.(*ast.BinaryExpr); ok {
		return t.binary(b, boolTy, true)
	}
	return t.expr(e, boolTy)
}

func (t *tr) expr0(e ast.Expr, want ast.Expr) string {
	switch x := e.(type) {
	case *ast.ParenExpr:
		return t.expr0(x.X, want)
	case *ast.Ident:
		if _, local := t.env[x.Name]; local {
			return x.Name
		}
		switch x.Name {
		case "true", "false":
			return x.Name
		case "nil":
			if t.kind(want) == "ptr" {
				return "none"
			}
			return t.fail(x, "nil outside a pointer context")
		}
		if c, ok := t.g.consts[t.pkg+"."+x.Name]; ok {
			return "(" + c + ")"
		}
		if d := t.g.decls[t.pkg+"."+x.Name]; d != nil {
			return t.valueRef(d, nil, x)
		}
		return t.fail(x, "identifier "+x.Name)
	case *ast.BasicLit:
		if x.Kind == token.INT {
			if t.kind(want) == "tparam" {
				switch x.Value {
				case "0":
					return "GoNum.zero"
				case "1":
					return "GoNum.one"
				}
				return t.fail(x, "numeric literal "+x.Value+" at a type parameter")
			}
			return x.Value
		}
		if x.Kind == token.STRING && x.Value == `""` {
			return `""`
		}
		return t.fail(x, "literal "+x.Value)
	case *ast.BinaryExpr:
		return t.binary(x, want, false)
	case *ast.UnaryExpr:
		switch x.Op {
		case token.NOT:
			return "(!" + t.expr(x.X, boolTy) + ")"
		case token.SUB:
			return "(-" + t.expr(x.X, want) + ")"
		case token.AND:
			if !t.ptrAsOption() {
				return t.fail(x, "address-of (a fresh pointer has an identity)")
			}
			return "(some " + t.expr(x.X, nil) + ")"
		}
		return t.fail(x, "unary "+x.Op.String())
	case *ast.StarExpr:
		if t.kind(t.typeOf(x.X)) != "ptr" {
			return t.fail(x, "dereference of a non-pointer")
		}
		if t.ptrAsOption() {
			return "(derefV " + t.expr(x.X, nil) + ")"
		}
		return "(deref " + t.expr(x.X, nil) + ")"
	case *ast.FuncLit:
		return t.funcLit(x)
	case *ast.CompositeLit:
		return t.composite(x, want)
	case *ast.IndexExpr:
		if xt := t.typeOf(x.X); xt != nil {
			switch t.kind(xt) {
			case "seq":
				return "(idx " + t.expr(x.X, nil) + " " + t.expr(x.Index, intTy) + ")"
			case "string":
				return "(idx (strBytes " + t.expr(x.X, nil) + ") " + t.expr(x.Index, intTy) + ")"
			}
		}
		if d, targs := t.target(x); d != nil {
			return t.valueRef(d, targs, x)
		}
		if t.tyHeadIs(x, "as.Seq") {
			return "id"
		}
		return t.fail(x, "index expression")
	case *ast.SelectorExpr:
		return t.selector(x, want)
	case *ast.CallExpr:
		return t.call(x, want)
	}
	return t.fail(e, fmt.Sprintf("expression %T", e))
}

func (t *tr) tyHeadIs(e ast.Expr, h string) bool { return tyHead(e) == h }

// a top-level declaration used as a value (not called)
func (t *tr) valueRef(d *decl, targs []ast.Expr, at ast.Node) string {
	t.refs[d.key] = true
	nm := t.instantiate(d, targs)
	if d.fn == nil {
		return nm
	}
	if len(paramTypes(d.fn.Type)) == 0 {
		return "(fun (_ : Unit) => " + nm + ")"
	}
	return nm
}

func (t *tr) instantiate(d *decl, targs []ast.Expr) string {
	if len(targs) == 0 {
		return d.lean
	}
	var names []string
	if d.fn != nil && d.fn.Type.TypeParams != nil {
		for _, f := range d.fn.Type.TypeParams.List {
			for _, n := range f.Names {
				names = append(names, n.Name)
			}
		}
	}
	s := "(" + d.lean
	for i, a := range targs {
		if i >= len(names) {
			t.fail(a, "too many type arguments for "+d.key)
			break
		}
		s += " (" + names[i] + " := " + t.leanTy(a) + ")"
	}
	return s + ")"
}

var ifaceMethods = map[string]map[string]string{
	"eq":        {"Eqv": "eqv"},
	"hash":      {"Eqv": "eqv", "Hash": "hash"},
	"ord":       {"Eqv": "eqv", "Less": "less", "Compare": "compare", "LessEq": "lessEq", "Max": "max", "Min": "min", "ThenComparing": "thenComparing", "Reversed": "reversed"},
	"monoid":    {"Empty": "empty", "Combine": "combine"},
	"semigroup": {"Combine": "combine"},
}

func (t *tr) selector(x *ast.SelectorExpr, want ast.Expr) string {
	if id, ok := x.X.(*ast.Ident); ok {
		if t.isPkg(id.Name) {
			key := id.Name + "." + x.Sel.Name
			if d := t.g.decls[key]; d != nil {
				return t.valueRef(d, nil, x)
			}
			switch key {
			case "fp.Id":
				return "id"
			}
			return t.fail(x, "reference to "+key+" (outside the translated files)")
		}
		if id.Name == t.recv && t.fields[x.Sel.Name] {
			return x.Sel.Name
		}
	}
	xt := t.typeOf(x.X)
	k := t.kind(xt)
	switch k {
	case "tuple1":
		if x.Sel.Name == "I1" {
			return t.expr(x.X, nil) + ".i1"
		}
	case "tuple2":
		if x.Sel.Name == "I1" {
			return t.expr(x.X, nil) + ".1"
		}
		if x.Sel.Name == "I2" {
			return t.expr(x.X, nil) + ".2.i1"
		}
	case "dual":
		if x.Sel.Name == "GetDual" {
			return t.expr(x.X, nil) + ".getDual"
		}
	case "clone":
		if x.Sel.Name == "Clone" {
			return t.expr(x.X, nil)
		}
	}
	// method values of instances: m.Less, m.Combine
	if ms, ok := ifaceMethods[k]; ok {
		if lm, ok := ms[x.Sel.Name]; ok && x.Sel.Name != "Empty" {
			return t.expr(x.X, nil) + "." + lm
		}
	}
	return t.fail(x, "selector ."+x.Sel.Name+" on "+k)
}

func (t *tr) composite(x *ast.CompositeLit, want ast.Expr) string {
	k := t.kind(x.Type)
	switch k {
	case "hnil", "unit":
		if len(x.Elts) == 0 {
			return "()"
		}
	case "dual":
		if len(x.Elts) == 1 {
			return "(Dual.mk " + t.expr(x.Elts[0], tyArg(x.Type, 0)) + ")"
		}
	case "hasher", "monoidstruct":
		st := t.g.structs[t.pkg+"."+tyHead(x.Type)]
		if st == nil {
			break
		}
		vals := make([]string, len(st.names))
		if len(x.Elts) != len(st.names) {
			return t.fail(x, "struct literal with missing fields")
		}
		for i, el := range x.Elts {
			j := i
			if kv, ok := el.(*ast.KeyValueExpr); ok {
				j = -1
				for n, nm := range st.names {
					if id, ok := kv.Key.(*ast.Ident); ok && id.Name == nm {
						j = n
					}
				}
				if j < 0 {
					return t.fail(el, "unknown field")
				}
				el = kv.Value
			}
			vals[j] = t.expr(el, st.types[j])
		}
		all := strings.Join(vals, " ")
		p := t.pkg + "_" + tyHead(x.Type) + "_"
		if k == "hasher" {
			t.refs[t.pkg+".hasher.Hash"] = true
			return "(HashD.mk " + vals[0] + " (" + p + "Hash " + all + "))"
		}
		t.refs[t.pkg+".monoid.Empty"] = true
		t.refs[t.pkg+".monoid.Combine"] = true
		return "(MonoidD.mk (" + p + "Empty " + all + ") (" + p + "Combine " + all + "))"
	case "map":
		return t.fail(x, "Go map literal")
	}
	return t.fail(x, "composite literal of "+tyHead(x.Type))
}

func (t *tr) funcLit(f *ast.FuncLit) string {
	saved := map[string]ast.Expr{}
	for k, v := range t.env {
		saved[k] = v
	}
	defer func() { t.env = saved }()
	env := map[string]ast.Expr{}
	for k, v := range t.env {
		env[k] = v
	}
	t.env = env
	var binders []string
	if f.Type.Params != nil {
		for _, fld := range f.Type.Params.List {
			lt := t.leanTy(fld.Type)
			if len(fld.Names) == 0 {
				binders = append(binders, "(_ : "+lt+")")
			}
			for _, nm := range fld.Names {
				binders = append(binders, "("+nm.Name+" : "+lt+")")
				t.env[nm.Name] = fld.Type
			}
		}
	}
	if len(binders) == 0 {
		binders = []string{"(_ : Unit)"}
	}
	if f.Type.Results == nil || len(f.Type.Results.List) != 1 {
		return t.fail(f, "function literal without a single result")
	}
	rt := f.Type.Results.List[0].Type
	body := t.block(f.Body.List, rt, false)
	return "(fun " + strings.Join(binders, " ") + " => (" + body + " : " + t.leanTy(rt) + "))"
}

func (t *tr) call(c *ast.CallExpr, want ast.Expr) string {
	// conversions T(x)
	if ty := t.asType(c.Fun); ty != nil && len(c.Args) == 1 {
		switch t.kind(ty) {
		case "uint32":
			return "(" + t.expr(c.Args[0], nil) + ").toUInt32"
		case "uint64":
			if t.kind(t.typeOf(c.Args[0])) == "tparam" {
				return "(GoInt.toUInt64 " + t.expr(c.Args[0], nil) + ")"
			}
			return "(" + t.expr(c.Args[0], nil) + ").toUInt64"
		case "int":
			return t.fail(c, "conversion to int")
		}
		return t.expr(c.Args[0], ty) // named function types: the same function
	}
	// top-level functions of the translated files
	if d, targs := t.target(c.Fun); d != nil {
		if d.fn == nil {
			// calling a function-typed variable
			return t.fail(c, "call of the variable "+d.key)
		}
		t.refs[d.key] = true
		as := t.exprs(c.Args, paramTypes(d.fn.Type))
		s := t.instantiate(d, targs)
		if len(as) == 0 {
			return s
		}
		return "(" + s + " " + strings.Join(as, " ") + ")"
	}
	switch fx := c.Fun.(type) {
	case *ast.Ident:
		if fx.Name == "len" && len(c.Args) == 1 {
			switch t.kind(t.typeOf(c.Args[0])) {
			case "seq":
				return t.expr(c.Args[0], nil) + ".length"
			case "string":
				return "(strBytes " + t.expr(c.Args[0], nil) + ").length"
			}
			return t.fail(c, "len of a non-slice")
		}
		if ty, local := t.env[fx.Name]; local {
			return t.callValue(fx.Name, ty, c)
		}
		if lean, ok := t.g.opaque[t.pkg+"."+fx.Name]; ok {
			return "(" + lean + " " + strings.Join(t.exprs(c.Args, nil), " ") + ")"
		}
		return t.fail(c, "call of "+fx.Name)
	case *ast.IndexExpr, *ast.IndexListExpr:
		return t.libCall(tyHead(c.Fun), c)
	case *ast.SelectorExpr:
		if id, ok := fx.X.(*ast.Ident); ok {
			if t.isPkg(id.Name) {
				return t.libCall(id.Name+"."+fx.Sel.Name, c)
			}
			if id.Name == t.recv && t.fields[fx.Sel.Name] {
				return t.callValue(fx.Sel.Name, t.env[fx.Sel.Name], c)
			}
		}
		return t.method(fx, c)
	}
	return t.fail(c, "call")
}

// calling a function-typed local value
func (t *tr) callValue(name string, ty ast.Expr, c *ast.CallExpr) string {
	var wants []ast.Expr
	switch k := t.kind(ty); k {
	case "func":
		wants = paramTypes(ty.(*ast.FuncType))
	case "eqfunc", "comparefunc", "lessfunc", "sgfunc":
		wants = []ast.Expr{tyArg(ty, 0), tyArg(ty, 0)}
	case "clonefunc", "endo", "predicate":
		wants = []ast.Expr{tyArg(ty, 0)}
	case "emptyfunc":
	default:
		return t.fail(c, "call of a value of kind "+k)
	}
	if len(c.Args) != len(wants) {
		return t.fail(c, "argument count")
	}
	if len(c.Args) == 0 {
		return "(" + name + " ())"
	}
	return "(" + name + " " + strings.Join(t.exprs(c.Args, wants), " ") + ")"
}

// library functions outside the translated files, by their meaning (the callee table of Model/GoSem.lean)
func (t *tr) libCall(name string, c *ast.CallExpr) string {
	arg := func(i int) string { return t.expr(c.Args[i], nil) }
	n := len(c.Args)
	switch {
	case name == "hlist.Head" && n == 1:
		return arg(0) + ".1"
	case name == "hlist.Tail" && n == 1:
		return arg(0) + ".2"
	case name == "hlist.Concat" && n == 2:
		return "(" + arg(0) + ", " + arg(1) + ")"
	case name == "hlist.Empty" && n == 0:
		return "()"
	case name == "hlist.IsNil" && n == 1:
		ty := t.typeOf(c.Args[0])
		if t.kind(ty) != "tparam" {
			return t.fail(c, "hlist.IsNil of a value whose type is not a type parameter")
		}
		return "(HListT.isNil " + tyHead(ty) + ")"
	case name == "lazy.Done" && n == 1:
		return "(fun (_ : Unit) => " + arg(0) + ")"
	case name == "lazy.Call" && n == 1:
		if fl, ok := c.Args[0].(*ast.FuncLit); ok && (fl.Type.Params == nil || len(fl.Type.Params.List) == 0) {
			return t.funcLit(fl)
		}
		return t.fail(c, "lazy.Call of a non-literal")
	case name == "lazy.Map2" && n == 3:
		return "(Eval.map2 " + arg(0) + " " + arg(1) + " " + arg(2) + ")"
	case (name == "option.Some" || name == "fp.Some") && n == 1:
		return "(some " + arg(0) + ")"
	case name == "option.Map2" && n == 3:
		return "(optionMap2 " + arg(0) + " " + arg(1) + " " + arg(2) + ")"
	case name == "option.Map" && n == 2:
		return "(Option.map " + arg(1) + " " + arg(0) + ")"
	case name == "seq.Map" && n == 2:
		return "(List.map " + arg(1) + " " + arg(0) + ")"
	case name == "try.Success" && n == 1:
		return "(TryV.success " + arg(0) + ")"
	case name == "try.Map2" && n == 3:
		return "(MonoidD.tryMap2 " + arg(0) + " " + arg(1) + " " + arg(2) + ")"
	case name == "as.Tuple2" && n == 2:
		return "(" + arg(0) + ", (⟨" + arg(1) + "⟩ : T1 _))"
	}
	return t.fail(c, "call of "+name+" (outside the translated files and the callee table)")
}

// x.M(args) on a value
func (t *tr) method(fx *ast.SelectorExpr, c *ast.CallExpr) string {
	xt := t.typeOf(fx.X)
	k := t.kind(xt)
	m := fx.Sel.Name
	n := len(c.Args)
	recv := func() string { return t.expr(fx.X, nil) }
	elem := tyArg(xt, 0)
	switch k {
	case "opt":
		switch {
		case m == "IsDefined" && n == 0:
			return recv() + ".isSome"
		case m == "IsEmpty" && n == 0:
			return recv() + ".isNone"
		case m == "Get" && n == 0:
			return "(optGet " + recv() + ")"
		}
		if d := t.g.decls["fp.Option."+m]; d != nil {
			t.refs[d.key] = true
			return "(" + d.lean + " " + recv() + " " + strings.Join(t.exprs(c.Args, paramTypes(d.fn.Type)), " ") + ")"
		}
	case "lazy":
		if m == "Get" && n == 0 {
			return "(" + recv() + " ())"
		}
	case "cons":
		if m == "Head" && n == 0 {
			return recv() + ".1"
		}
	case "tuple1":
		if m == "Head" && n == 0 {
			return recv() + ".i1"
		}
	case "tuple2":
		if m == "Head" && n == 0 {
			return recv() + ".1"
		}
	case "seq":
		switch {
		case m == "Size" && n == 0:
			return recv() + ".length"
		case m == "Concat" && n == 1:
			return "(" + recv() + " ++ " + t.expr(c.Args[0], xt) + ")"
		}
	case "endo":
		if m == "AsFunc" && n == 0 {
			return recv()
		}
	case "clone":
		if m == "Clone" && n == 1 {
			return "(" + recv() + " " + t.expr(c.Args[0], elem) + ")"
		}
	case "generic":
		return t.fail(c, "fp.Generic (a struct of two functions outside the translated files)")
	}
	if ms, ok := ifaceMethods[k]; ok {
		if lm, ok := ms[m]; ok {
			var wants []ast.Expr
			for range c.Args {
				wants = append(wants, elem)
			}
			if m == "ThenComparing" {
				wants = []ast.Expr{xt}
			}
			as := t.exprs(c.Args, wants)
			if len(as) == 0 {
				return recv() + "." + lm
			}
			return "(" + recv() + "." + lm + " " + strings.Join(as, " ") + ")"
		}
	}
	// methods of the named function types of package fp (typeclass.go, monoid.go)
	switch k {
	case "comparefunc", "lessfunc", "eqfunc", "sgfunc", "emptyfunc", "clonefunc":
		tn := strings.TrimPrefix(tyHead(xt), "fp.")
		if d := t.g.decls["fp."+tn+"."+m]; d != nil {
			t.refs[d.key] = true
			as := t.exprs(c.Args, paramTypes(d.fn.Type))
			return "(" + strings.Join(append([]string{d.lean, recv()}, as...), " ") + ")"
		}
	}
	return t.fail(c, "method ."+m+" on "+k)
}

// ---------------------------------------------------------------------------------------------------------------------
// statements

func endsInReturn(stmts []ast.Stmt) bool {
	if len(stmts) == 0 {
		return false
	}
	_, ok := stmts[len(stmts)-1].(*ast.ReturnStmt)
	return ok
}

// a statement list producing a value of Go type rt. inLoop: the list is a loop body (schemas L1/L2): `return e` is
// `some e`, falling off the end is `none`.
func (t *tr) block(stmts []ast.Stmt, rt ast.Expr, inLoop bool) string {
	if len(stmts) == 0 {
		if inLoop {
			return "none"
		}
		return t.fail(nil, "statement list that does not end in return")
	}
	rest := stmts[1:]
	switch s := stmts[0].(type) {
	case *ast.ReturnStmt:
		if len(s.Results) != 1 || len(rest) != 0 {
			return t.fail(s, "return shape")
		}
		if inLoop {
			return "some " + t.expr(s.Results[0], rt)
		}
		return t.expr(s.Results[0], rt)
	case *ast.IfStmt:
		if s.Init != nil || s.Else != nil {
			return t.fail(s, "if with init or else")
		}
		if !endsInReturn(s.Body.List) {
			return t.fail(s, "if body that does not end in return")
		}
		c := t.cond(s.Cond)
		saved := t.env
		t.env = copyEnv(saved)
		th := t.block(s.Body.List, rt, inLoop)
		t.env = saved
		return "if " + c + " then " + th + " else\n    " + t.block(rest, rt, inLoop)
	case *ast.AssignStmt:
		if s.Tok == token.DEFINE && len(s.Lhs) == 1 && len(s.Rhs) == 1 {
			id, ok := s.Lhs[0].(*ast.Ident)
			if !ok {
				break
			}
			ty := t.typeOf(s.Rhs[0])
			v := t.expr(s.Rhs[0], nil)
			t.env[id.Name] = ty
			if nx, ok := nextLoop(rest); ok && t.isAccLoop(nx, id.Name) {
				return t.accLoop(id.Name, v, nx, rest[1:], rt, inLoop)
			}
			return "let " + id.Name + " := " + v + ";\n    " + t.block(rest, rt, inLoop)
		}
	case *ast.DeclStmt:
		gd, ok := s.Decl.(*ast.GenDecl)
		if !ok || gd.Tok != token.VAR || len(gd.Specs) != 1 {
			break
		}
		vs := gd.Specs[0].(*ast.ValueSpec)
		if len(vs.Names) != 1 || len(vs.Values) > 1 {
			break
		}
		name := vs.Names[0].Name
		var v string
		ty := vs.Type
		if len(vs.Values) == 0 {
			if ty == nil {
				break
			}
			v = "(GoZero.zero : " + t.leanTy(ty) + ")"
		} else {
			if ty == nil {
				ty = t.typeOf(vs.Values[0])
				v = t.expr(vs.Values[0], nil)
			} else {
				v = "(" + t.expr(vs.Values[0], ty) + " : " + t.leanTy(ty) + ")"
			}
		}
		t.env[name] = ty
		if nx, ok := nextLoop(rest); ok && t.isAccLoop(nx, name) {
			return t.accLoop(name, v, nx, rest[1:], rt, inLoop)
		}
		return "let " + name + " := " + v + ";\n    " + t.block(rest, rt, inLoop)
	case *ast.ForStmt, *ast.RangeStmt:
		if inLoop {
			return t.fail(s, "nested loop")
		}
		return t.retLoop(s, rest, rt)
	}
	return t.fail(stmts[0], fmt.Sprintf("statement %T", stmts[0]))
}

func copyEnv(m map[string]ast.Expr) map[string]ast.Expr {
	r := map[string]ast.Expr{}
	for k, v := range m {
		r[k] = v
	}
	return r
}

func nextLoop(rest []ast.Stmt) (ast.Stmt, bool) {
	if len(rest) == 0 {
		return nil, false
	}
	switch rest[0].(type) {
	case *ast.ForStmt, *ast.RangeStmt:
		return rest[0], true
	}
	return nil, false
}

// the header of a loop of schema L1 / L2: index variable, element bindings, bound, body
type loopHdr struct {
	idx   string
	binds []string // `let v := idx s i`
	bound string
	body  []ast.Stmt
}

func assigns(stmts []ast.Stmt, name string) bool {
	found := false
	for _, s := range stmts {
		ast.Inspect(s, func(n ast.Node) bool {
			switch x := n.(type) {
			case *ast.AssignStmt:
				for _, l := range x.Lhs {
					if id, ok := l.(*ast.Ident); ok && id.Name == name {
						found = true
					}
				}
			case *ast.IncDecStmt:
				if id, ok := x.X.(*ast.Ident); ok && id.Name == name {
					found = true
				}
			case *ast.UnaryExpr:
				if id, ok := x.X.(*ast.Ident); ok && x.Op == token.AND && id.Name == name {
					found = true
				}
			}
			return true
		})
	}
	return found
}

// loop-invariant bound: an identifier, len(x) or x.Size() of identifiers the body does not assign
func (t *tr) invariant(e ast.Expr, body []ast.Stmt) bool {
	switch x := e.(type) {
	case *ast.Ident:
		return !assigns(body, x.Name)
	case *ast.CallExpr:
		if id, ok := x.Fun.(*ast.Ident); ok && id.Name == "len" && len(x.Args) == 1 {
			return t.invariant(x.Args[0], body)
		}
		if sel, ok := x.Fun.(*ast.SelectorExpr); ok && sel.Sel.Name == "Size" && len(x.Args) == 0 {
			return t.invariant(sel.X, body)
		}
	}
	return false
}

func (t *tr) loopHeader(s ast.Stmt) (*loopHdr, bool) {
	switch l := s.(type) {
	case *ast.RangeStmt:
		// L1: for i := range a / for _, v := range a / for i, v := range a   over a slice
		if l.Tok != token.DEFINE {
			t.fail(l, "range loop assigning to existing variables")
			return nil, false
		}
		xt := t.typeOf(l.X)
		if t.kind(xt) == "map" {
			t.fail(l, "range over a Go map (iteration order is not a function of the value)")
			return nil, false
		}
		if t.kind(xt) != "seq" {
			t.fail(l, "range over a non-slice")
			return nil, false
		}
		if !t.invariant(l.X, l.Body.List) {
			t.fail(l, "range over a slice the body assigns")
			return nil, false
		}
		h := &loopHdr{idx: "i__", body: l.Body.List}
		xs := t.expr(l.X, nil)
		h.bound = xs + ".length"
		if id, ok := l.Key.(*ast.Ident); ok && id.Name != "_" {
			h.idx = id.Name
		}
		t.env[h.idx] = intTy
		if l.Value != nil {
			if id, ok := l.Value.(*ast.Ident); ok && id.Name != "_" {
				h.binds = append(h.binds, "let "+id.Name+" := idx "+xs+" "+h.idx+";")
				t.env[id.Name] = tyArg(xt, 0)
			}
		}
		if assigns(h.body, h.idx) {
			t.fail(l, "loop body assigns the index")
			return nil, false
		}
		return h, true
	case *ast.ForStmt:
		// L2: for i := 0; i < n; i++    (also `for i, x := 0, x; …` which re-declares x as itself)
		init, ok := l.Init.(*ast.AssignStmt)
		if !ok || init.Tok != token.DEFINE || len(init.Lhs) < 1 || len(init.Lhs) != len(init.Rhs) {
			t.fail(l, "for loop outside schema L2 (init)")
			return nil, false
		}
		iv, ok := init.Lhs[0].(*ast.Ident)
		if lit, ok2 := init.Rhs[0].(*ast.BasicLit); !ok || !ok2 || lit.Value != "0" {
			t.fail(l, "for loop outside schema L2 (index does not start at 0)")
			return nil, false
		}
		for j := 1; j < len(init.Lhs); j++ {
			a, ok1 := init.Lhs[j].(*ast.Ident)
			b, ok2 := init.Rhs[j].(*ast.Ident)
			if !ok1 || !ok2 || a.Name != b.Name {
				t.fail(l, "for loop outside schema L2 (init)")
				return nil, false
			}
		}
		cnd, ok := l.Cond.(*ast.BinaryExpr)
		if !ok || cnd.Op != token.LSS {
			t.fail(l, "for loop outside schema L2 (condition is not i < n)")
			return nil, false
		}
		if id, ok := cnd.X.(*ast.Ident); !ok || id.Name != iv.Name {
			t.fail(l, "for loop outside schema L2 (condition is not i < n)")
			return nil, false
		}
		post, ok := l.Post.(*ast.IncDecStmt)
		if !ok || post.Tok != token.INC {
			t.fail(l, "for loop outside schema L2 (post is not i++)")
			return nil, false
		}
		if id, ok := post.X.(*ast.Ident); !ok || id.Name != iv.Name {
			t.fail(l, "for loop outside schema L2 (post is not i++)")
			return nil, false
		}
		if !t.invariant(cnd.Y, l.Body.List) || assigns(l.Body.List, iv.Name) {
			t.fail(l, "for loop outside schema L2 (bound or index assigned in the body)")
			return nil, false
		}
		h := &loopHdr{idx: iv.Name, body: l.Body.List}
		h.bound = t.expr(cnd.Y, intTy)
		t.env[iv.Name] = intTy
		return h, true
	}
	return nil, false
}

// schemas L1 / L2 with a body of `if c { return e }` statements
func (t *tr) retLoop(s ast.Stmt, rest []ast.Stmt, rt ast.Expr) string {
	saved := t.env
	t.env = copyEnv(saved)
	h, ok := t.loopHeader(s)
	if !ok {
		t.env = saved
		return "«untranslatable»"
	}
	for _, b := range h.body {
		if _, ok := b.(*ast.IfStmt); !ok {
			t.env = saved
			return t.fail(b, "loop body statement other than `if c { return e }`")
		}
	}
	body := t.block(h.body, rt, true)
	t.env = saved
	pre := ""
	for _, b := range h.binds {
		pre += b + "\n      "
	}
	return "forRange " + h.bound + " (fun " + h.idx + " =>\n      " + pre + body + ")\n    (" + t.block(rest, rt, false) + ")"
}

// schema L3: the body only assigns the accumulator `acc`
func (t *tr) isAccLoop(s ast.Stmt, acc string) bool {
	var body []ast.Stmt
	switch l := s.(type) {
	case *ast.ForStmt:
		body = l.Body.List
	case *ast.RangeStmt:
		body = l.Body.List
	}
	if len(body) == 0 {
		return false
	}
	for _, b := range body {
		as, ok := b.(*ast.AssignStmt)
		if !ok || len(as.Lhs) != 1 || len(as.Rhs) != 1 || as.Tok == token.DEFINE {
			return false
		}
		if id, ok := as.Lhs[0].(*ast.Ident); !ok || id.Name != acc {
			return false
		}
	}
	return true
}

func (t *tr) accLoop(acc, init string, s ast.Stmt, rest []ast.Stmt, rt ast.Expr, inLoop bool) string {
	saved := t.env
	t.env = copyEnv(saved)
	h, ok := t.loopHeader(s)
	if !ok {
		t.env = saved
		return "«untranslatable»"
	}
	accTy := t.env[acc]
	var steps []string
	steps = append(steps, h.binds...)
	for _, b := range h.body {
		as := b.(*ast.AssignStmt)
		var v string
		rhs := t.expr(as.Rhs[0], accTy)
		switch as.Tok {
		case token.ASSIGN:
			v = rhs
		case token.MUL_ASSIGN:
			v = "(" + acc + " * " + rhs + ")"
		case token.ADD_ASSIGN:
			v = "(" + acc + " + " + rhs + ")"
		case token.XOR_ASSIGN:
			v = "(" + acc + " ^^^ " + rhs + ")"
		default:
			t.env = saved
			return t.fail(as, "assignment operator "+as.Tok.String())
		}
		steps = append(steps, "let "+acc+" := "+v+";")
	}
	t.env = saved
	at := ""
	if accTy != nil {
		at = " : " + t.leanTy(accTy)
	}
	return "let " + acc + " := forAcc " + h.bound + " " + init + " (fun (" + acc + at + ") " + h.idx + " =>\n      " +
		strings.Join(steps, "\n      ") + "\n      " + acc + ");\n    " + t.block(rest, rt, inLoop)
}
