// Correspondence + direct property harness for the conversion / access functions of fp.Seq, the lazy
// fp.List, package xtr and the thin iterator wrappers (C12, work package LISTX):
//
//	list: Head/Tail/Unapply/Foreach/ToSeq of Nil, Cons, Seq, ListAdaptor; Recurrence1/2, ReverseSlice,
//	      FromPtr, FromMap/FromMapKey/FromMapValue, ToMap, ToGoMap, ToSet, ToGoSet, FoldFuture
//	seq : Size, Head, Init, Tail, Last, Get, NonEmpty, Foreach, SliceCasting, FilterNil, FromMap*,
//	      FoldRight, FoldFuture;  xtr.Head/Init/Last/Tail;  fp.Map.Foreach, fp.Set.Foreach
//	iterator: Lift, Compose, ComposePure, Flatten, Map2, FlapMap, Method1, Method2 (direct checks)
package main

import (
	"flag"
	"fmt"
	"os"
	"sort"
	"strings"
	"time"

	"github.com/csgura/fp"
	"github.com/csgura/fp/future"
	"github.com/csgura/fp/iterator"
	"github.com/csgura/fp/lazy"
	"github.com/csgura/fp/list"
	"github.com/csgura/fp/seq"
	"github.com/csgura/fp/xtr"
	. "verifharness/common"
)

type Lst = fp.List[any]
type KVt = fp.Tuple2[any, any]
type PL = fp.List[KVt]

// ------------------------------------------------------------------------------------ watchdog

type errBudget struct{}

var ticks, budget = 0, 200000

func tick() {
	ticks++
	if ticks > budget {
		panic(errBudget{})
	}
}

var wallTimeouts int

func guarded(f func() string) string {
	ticks = 0
	done := make(chan string, 1)
	go func() {
		defer func() {
			if p := recover(); p != nil {
				if _, ok := p.(errBudget); ok {
					done <- "timeout"
					return
				}
				done <- "harness-panic(" + fmt.Sprint(p) + ")"
			}
		}()
		done <- f()
	}()
	select {
	case s := <-done:
		ticks = 0
		return s
	case <-time.After(20 * time.Second):
		wallTimeouts++
		ticks = 0
		return "timeout"
	}
}

func showPanic(p any) string {
	s := ShowPanic(p)
	if strings.HasPrefix(s, "runtime:") && strings.Contains(s, "nil pointer") {
		return "nil-deref"
	}
	return s
}

func call(f func() string) (res string, events string) {
	Log = Log[:0]
	res = func() (s string) {
		defer func() {
			if p := recover(); p != nil {
				if _, ok := p.(errBudget); ok {
					panic(p)
				}
				s = "panic(" + showPanic(p) + ")"
			}
		}()
		return f()
	}()
	return res, strings.Join(Log, ",")
}

func tok(name string, f func() string) string {
	res, ev := call(f)
	return fmt.Sprintf("%s=%s{%s}", name, res, ev)
}

func outcome(f func() string) string {
	res, ev := call(f)
	return res + " | " + ev
}

// ------------------------------------------------------------------------------------ callbacks

func f1(s *Sx) func(any) any      { f := F1Of(s); return func(x any) any { tick(); return f(x) } }
func p1(s *Sx) func(any) bool     { f := P1Of(s); return func(x any) bool { tick(); return f(x) } }
func f2(s *Sx) func(any, any) any { f := F2Of(s); return func(x, y any) any { tick(); return f(x, y) } }
func ints(xs []*Sx) []any {
	out := make([]any, len(xs))
	for i, x := range xs {
		out[i] = x.Int()
	}
	return out
}

func showBool(b bool) string {
	if b {
		return "true"
	}
	return "false"
}

func instrSrc(id int, xs []any) fp.Iterator[any] {
	idx := 0
	return fp.MakeIterator(func() bool { tick(); return idx < len(xs) }, func() any {
		tick()
		if idx < len(xs) {
			v := xs[idx]
			idx++
			Emit("s%d:%s", id, Show(v))
			return v
		}
		panic("next on empty iterator")
	})
}

// hasher with a deliberately weak hash (collisions in the HAMT): hash = value mod m
type hasherOf[T any] struct{ m int }

func (h hasherOf[T]) Eqv(a, b T) bool { return Show(a) == Show(b) }
func (h hasherOf[T]) Hash(a T) uint32 {
	var v any = a
	if i, ok := v.(int); ok {
		return uint32(Emod(i, h.m))
	}
	return uint32(len(Show(a)) % h.m)
}

func sortedJoin(open string, parts []string, close string) string {
	sort.Strings(parts)
	return open + strings.Join(parts, ",") + close
}

// ------------------------------------------------------------------------------------ lists

func buildList(s *Sx, arg any) Lst {
	a := s.List
	switch s.Head() {
	case "lempty":
		return list.Empty[any]()
	case "lof":
		xs := ints(a[1:])
		switch len(xs) % 3 {
		case 0:
			return list.Of(xs...)
		case 1:
			return list.FromSeq(fp.Seq[any](xs))
		}
		return list.FromSlice(xs)
	case "larg":
		n := a[1].Int()
		xs := make([]any, n)
		for i := range xs {
			xs[i] = AsInt(arg) + i
		}
		return list.Of(xs...)
	case "lapply":
		if a[1].Int()%2 == 0 {
			return list.Apply[any](a[1].Int(), buildList(a[2], arg))
		}
		return list.Concat[any](a[1].Int(), buildList(a[2], arg))
	case "lgen":
		id, n := a[1].Int(), a[2].Int()
		return list.Generate(func(i int) fp.Option[any] {
			tick()
			Emit("gen%d:%d", id, i)
			if i < n {
				return fp.Some[any](i)
			}
			return fp.None[any]()
		})
	case "lrange":
		return list.Map(list.Range(a[1].Int(), a[2].Int()), func(i int) any { return i })
	case "lrangec":
		return list.Map(list.RangeClosed(a[1].Int(), a[2].Int()), func(i int) any { return i })
	case "lrev":
		return list.ReverseSeq(fp.Seq[any](ints(a[1:])))
	case "lrevs":
		return list.ReverseSlice(ints(a[1:]))
	case "lcollect":
		return list.Collect(instrSrc(a[1].Int(), ints(a[2:])))
	case "lopt":
		if len(a) == 1 {
			return list.FromOption(fp.None[any]())
		}
		return list.FromOption(fp.Some[any](a[1].Int()))
	case "lptr":
		if len(a) == 1 {
			return list.FromPtr[any](nil)
		}
		var v any = a[1].Int()
		return list.FromPtr(&v)
	case "lmap":
		return list.Map(buildList(a[1], arg), f1(a[2]))
	case "lflatmap":
		id, k := a[2].Int(), a[3]
		return list.FlatMap(buildList(a[1], arg), func(x any) Lst { tick(); Emit("k%d:%s", id, Show(x)); return buildList(k, x) })
	case "lfiltermap":
		id, m := a[2].List[1].Int(), a[2].List[2].Int()
		return list.FilterMap(buildList(a[1], arg), func(x any) fp.Option[any] {
			tick()
			Emit("o%d:%s", id, Show(x))
			if Emod(AsInt(x), m) == 0 {
				return fp.None[any]()
			}
			return fp.Some[any](AsInt(x) + 1)
		})
	case "lcombine":
		l := buildList(a[1], arg)
		return list.Combine(l, buildList(a[2], arg))
	case "lzip":
		l := buildList(a[1], arg)
		return list.Map(list.Zip(l, buildList(a[2], arg)), func(t KVt) any { return t })
	case "lzipidx":
		return list.Map(list.ZipWithIndex(buildList(a[1], arg)), func(t fp.Tuple2[int, any]) any { return t })
	case "lscan":
		return list.Scan(buildList(a[1], arg), any(a[2].Int()), f2(a[3]))
	}
	panic("bad lexpr " + s.String())
}

func pairsOf(xs []*Sx) []KVt {
	out := []KVt{}
	for i := 0; i+1 < len(xs); i += 2 {
		out = append(out, KVt{I1: xs[i].Int(), I2: xs[i+1].Int()})
	}
	return out
}

// buildPairs: fp.List[fp.Tuple2[any,any]] built natively (no conversion layer)
func buildPairs(s *Sx) PL {
	a := s.List
	switch s.Head() {
	case "pzip":
		l := buildList(a[1], 0)
		return list.Zip(l, buildList(a[2], 0))
	case "pkey":
		f := f1(a[2])
		return list.Map(buildList(a[1], 0), func(x any) KVt { return KVt{I1: f(x), I2: x} })
	case "pof":
		ps := pairsOf(a[1:])
		if len(ps)%2 == 0 {
			return list.Of(ps...)
		}
		return list.FromSlice(ps)
	case "papply":
		return list.Apply(KVt{I1: a[1].Int(), I2: a[2].Int()}, buildPairs(a[3]))
	case "pcombine":
		l := buildPairs(a[1])
		return list.Combine(l, buildPairs(a[2]))
	}
	panic("bad pexpr " + s.String())
}

func showEntries(m map[string]string) string {
	parts := []string{}
	for k, v := range m {
		parts = append(parts, k+"=>"+v)
	}
	return sortedJoin("{", parts, "}")
}

// stepCommon: operations available on every fp.List[T]
func stepCommon[T any](l fp.List[T], op *Sx) (string, bool) {
	a := op.List
	switch op.Head() {
	case "isempty":
		return showBool(l.IsEmpty()), true
	case "nonempty":
		return showBool(l.NonEmpty()), true
	case "head":
		return Show(list.Head(l)), true
	case "headm":
		return Show(l.Head()), true
	case "tailhead":
		cur := l
		for i := 0; i < a[1].Int(); i++ {
			cur = cur.Tail()
		}
		return Show(list.Head(cur)), true
	case "unapply":
		h, t := l.Unapply()
		return "(" + Show(h) + "," + Show(list.Head(t)) + ")", true
	case "foreach":
		f := f1(a[1])
		l.Foreach(func(v T) { f(v) })
		return "unit", true
	case "toseq":
		return Show(l.ToSeq()), true
	case "toset":
		s := list.ToSet(l, fp.Hashable[T](hasherOf[T]{a[1].Int()}))
		parts := []string{}
		s.Foreach(func(v T) { parts = append(parts, Show(v)) }) // fp.Set.Foreach
		if len(parts) != s.Size() {
			return fmt.Sprintf("Set.Foreach visited %d of %d", len(parts), s.Size()), true
		}
		return sortedJoin("{", parts, "}"), true
	}
	return "", false
}

// queue executor: tasks run on the calling goroutine, after the fold has returned
type queueExec struct {
	q    []fp.Runnable
	lifo bool
}

func (e *queueExec) ExecuteUnsafe(r fp.Runnable) { e.q = append(e.q, r) }
func (e *queueExec) drain() {
	for len(e.q) > 0 {
		var r fp.Runnable
		if e.lifo {
			r, e.q = e.q[len(e.q)-1], e.q[:len(e.q)-1]
		} else {
			r, e.q = e.q[0], e.q[1:]
		}
		tick()
		r.Run()
	}
}

// futFn: the step function of FoldFuture. mode 0: completed futures, FIFO queue; 1: the future is completed
// later by a task on the same queue; 2: LIFO queue; 3: the library's default executor (goroutines)
func futFn(g func(any, any) any, m, e, mode int, ex *queueExec) func(any, any) fp.Future[any] {
	return func(b, x any) fp.Future[any] {
		r := g(b, x)
		var t fp.Try[any]
		if Emod(AsInt(r), m) == 0 {
			t = fp.Failure[any](E(e))
		} else {
			t = fp.Success(r)
		}
		if mode == 1 {
			p := fp.NewPromise[any]()
			ex.ExecuteUnsafe(fp.RunnableFunc(func() { p.Complete(t) }))
			return p.Future()
		}
		if t.IsSuccess() {
			return future.Successful(t.Get())
		}
		return future.Failed[any](t.Failed().Get())
	}
}

func awaitFut(f fp.Future[any], mode int, ex *queueExec) string {
	if mode == 3 {
		return Show(future.Await(f, 10*time.Second))
	}
	ex.drain()
	if !f.IsCompleted() {
		return "not-completed"
	}
	return Show(f.Value())
}

func execsOf(mode int) (*queueExec, []fp.Executor) {
	if mode == 3 {
		return nil, nil
	}
	ex := &queueExec{lifo: mode == 2}
	return ex, []fp.Executor{ex}
}

func stepL(l Lst, op *Sx) string {
	a := op.List
	name := op.Head()
	return tok(name, func() string {
		if s, ok := stepCommon(l, op); ok {
			return s
		}
		switch name {
		case "togoset":
			s := list.ToGoSet(l)
			parts := []string{}
			for k := range s {
				parts = append(parts, Show(k))
			}
			return sortedJoin("{", uniqStrings(parts), "}")
		case "foldfut":
			mode := a[5].Int()
			ex, ctx := execsOf(mode)
			fn := futFn(f2(a[2]), a[3].Int(), a[4].Int(), mode, ex)
			return awaitFut(list.FoldFuture(l, any(a[1].Int()), fn, ctx...), mode, ex)
		}
		panic("bad list op " + op.String())
	})
}

func stepP(l PL, op *Sx) string {
	a := op.List
	name := op.Head()
	return tok(name, func() string {
		if s, ok := stepCommon(l, op); ok {
			return s
		}
		switch name {
		case "togomap":
			m := list.ToGoMap(l)
			out := map[string]string{}
			for k, v := range m {
				out[Show(k)] = Show(v)
			}
			return showEntries(out)
		case "tomap":
			m := list.ToMap(l, fp.Hashable[any](hasherOf[any]{a[1].Int()}))
			out := map[string]string{}
			n := 0
			m.Foreach(func(t KVt) { n++; out[Show(t.I1)] = Show(t.I2) }) // fp.Map.Foreach
			if n != m.Size() || n != len(out) {
				return fmt.Sprintf("Map.Foreach visited %d entries (%d keys) of %d", n, len(out), m.Size())
			}
			return showEntries(out)
		}
		panic("bad pair-list op " + op.String())
	})
}

func runLx(op *Sx) string {
	return guarded(func() string {
		a := op.List
		var l Lst
		b, ev := call(func() string { l = buildList(a[1], 0); return "ok" })
		if b != "ok" {
			return fmt.Sprintf("B=%s{%s}", b, ev)
		}
		toks := []string{fmt.Sprintf("B=ok{%s}", ev)}
		for _, o := range a[2].List {
			toks = append(toks, stepL(l, o))
		}
		return strings.Join(toks, " ")
	})
}

func runPx(op *Sx) string {
	return guarded(func() string {
		a := op.List
		var l PL
		b, ev := call(func() string { l = buildPairs(a[1]); return "ok" })
		if b != "ok" {
			return fmt.Sprintf("B=%s{%s}", b, ev)
		}
		toks := []string{fmt.Sprintf("B=ok{%s}", ev)}
		for _, o := range a[2].List {
			toks = append(toks, stepP(l, o))
		}
		return strings.Join(toks, " ")
	})
}

// ------------------------------------------------------------------------------------ recurrences

func buildRec(a []*Sx) Lst {
	if a[1].Int() == 1 {
		return list.Recurrence1(any(a[2].Int()), f1(a[4]))
	}
	return list.Recurrence2(any(a[2].Int()), any(a[3].Int()), f2(a[4]))
}

func stepR(l Lst, op *Sx) string {
	a := op.List
	name := op.Head()
	return tok(name, func() string {
		switch name {
		case "isempty":
			return showBool(l.IsEmpty())
		case "take":
			out := []any{}
			cur := l
			for i := 0; i < a[1].Int(); i++ {
				out = append(out, cur.Head())
				cur = cur.Tail()
			}
			return Show(out)
		case "nth":
			cur := l
			for i := 0; i < a[1].Int(); i++ {
				cur = cur.Tail()
			}
			return Show(cur.Head())
		}
		panic("bad rec op " + op.String())
	})
}

func runRec(op *Sx) string {
	return guarded(func() string {
		a := op.List
		var l Lst
		b, ev := call(func() string { l = buildRec(a); return "ok" })
		if b != "ok" {
			return fmt.Sprintf("B=%s{%s}", b, ev)
		}
		toks := []string{fmt.Sprintf("B=ok{%s}", ev)}
		for _, o := range a[5].List {
			toks = append(toks, stepR(l, o))
		}
		return strings.Join(toks, " ")
	})
}

// ------------------------------------------------------------------------------------ seq

type lazyAny = lazy.Eval[any]

func rsOf(s *Sx) func(any, lazyAny) lazyAny {
	a := s.List
	switch s.Head() {
	case "rforce":
		g := f2(a[1])
		return func(x any, b lazyAny) lazyAny { return b.Map(func(v any) any { return g(x, v) }) }
	case "rstop":
		p := p1(a[1])
		return func(x any, b lazyAny) lazyAny {
			if p(x) {
				return lazy.Done(x)
			}
			return b
		}
	case "rconst":
		f := f1(a[1])
		return func(x any, b lazyAny) lazyAny { return lazy.Done(f(x)) }
	case "rlog":
		id, g := a[1].Int(), f2(a[2])
		return func(x any, b lazyAny) lazyAny {
			tick()
			Emit("r%d:%s", id, Show(x))
			return b.Map(func(v any) any { return g(x, v) })
		}
	}
	panic("bad rs " + s.String())
}

func runSq(op *Sx) string {
	xs := fp.Seq[any](ints(op.List[1].List))
	if len(xs) == 0 && len(op.String())%2 == 0 {
		xs = nil
	}
	o := op.List[2]
	a := o.List
	return guarded(func() string {
		return outcome(func() string {
			switch o.Head() {
			case "size":
				return Show(seq.Size(xs))
			case "isempty":
				return showBool(xs.IsEmpty())
			case "nonempty":
				return showBool(xs.NonEmpty())
			case "get":
				return Show(xs.Get(a[1].Int()))
			case "head":
				return Show(seq.Head(xs))
			case "init":
				return Show([]any(seq.Init(xs)))
			case "last":
				return Show(seq.Last(xs))
			case "tail":
				return Show([]any(seq.Tail(xs)))
			case "xhead":
				return Show(xtr.Head[fp.Seq[any], fp.Option[any]](xs))
			case "xinit":
				return Show([]any(xtr.Init[fp.Seq[any], fp.Seq[any]](xs)))
			case "xlast":
				return Show(xtr.Last[fp.Seq[any], fp.Option[any]](xs))
			case "xtail":
				return Show([]any(xtr.Tail[fp.Seq[any], fp.Seq[any]](xs)))
			case "cast":
				return Show(fp.SliceCasting[[]any](xs))
			case "foreach":
				f := f1(a[1])
				xs.Foreach(func(v any) { f(v) })
				return "unit"
			case "foldr":
				return Show(seq.FoldRight(xs, any(a[1].Int()), rsOf(a[2])).Get())
			case "foldfut":
				mode := a[5].Int()
				ex, ctx := execsOf(mode)
				fn := futFn(f2(a[2]), a[3].Int(), a[4].Int(), mode, ex)
				return awaitFut(seq.FoldFuture(xs, any(a[1].Int()), fn, ctx...), mode, ex)
			}
			panic("bad seq op " + o.String())
		})
	})
}

func ptrsOf(xs []*Sx) fp.Seq[*any] {
	out := fp.Seq[*any]{}
	for _, x := range xs {
		if x.Atom == "nil" {
			out = append(out, nil)
		} else {
			var v any = x.Int()
			out = append(out, &v)
		}
	}
	return out
}

func runSqNil(op *Sx) string {
	return guarded(func() string {
		return outcome(func() string { return Show([]any(seq.FilterNil(ptrsOf(op.List[1].List)))) })
	})
}

func goMapOf(xs []*Sx) map[any]any {
	m := map[any]any{}
	for _, p := range pairsOf(xs) {
		m[p.I1] = p.I2
	}
	return m
}

func showSortedAny[T any](xs []T) string {
	parts := []string{}
	for _, x := range xs {
		parts = append(parts, Show(x))
	}
	return sortedJoin("[", parts, "]")
}

func twice[T any](l fp.List[T]) string {
	a := l.ToSeq()
	b := l.ToSeq()
	if showSortedAny(a) != showSortedAny(b) || Show(a) != Show(b) {
		panic("second-traversal-differs")
	}
	return showSortedAny(a)
}

func runGm(op *Sx) string {
	m := goMapOf(op.List[1].List)
	return guarded(func() string {
		return outcome(func() string {
			switch op.List[2].Atom {
			case "seqfrommap":
				return showSortedAny(seq.FromMap(m))
			case "seqkeys":
				return showSortedAny(seq.FromMapKeys(m))
			case "seqvalues":
				return showSortedAny(seq.FromMapValues(m))
			case "listfrommap":
				return twice(list.FromMap(m))
			case "listkeys":
				return twice(list.FromMapKey(m))
			case "listvalues":
				return twice(list.FromMapValue(m))
			}
			panic("bad gm op " + op.String())
		})
	})
}

func dispatch(op *Sx) string {
	switch op.Head() {
	case "lx":
		return runLx(op)
	case "px":
		return runPx(op)
	case "rec":
		return runRec(op)
	case "sq":
		return runSq(op)
	case "sqnil":
		return runSqNil(op)
	case "gm":
		return runGm(op)
	}
	return "bad-op"
}

// ------------------------------------------------------------------------------------ generator

var hist = map[string]int{}

func genVals(r *Rng, lo, hi int) []*Sx {
	n := r.Range(lo, hi)
	out := make([]*Sx, n)
	for i := range out {
		out[i] = I(r.Range(-3, 9))
	}
	return out
}

func genLSource(r *Rng, inFlat bool) *Sx {
	k := r.Intn(17)
	switch {
	case inFlat && k < 8:
		return L(A("larg"), I(r.Range(0, 3)))
	case k < 3:
		return L(append([]*Sx{A("lof")}, genVals(r, 0, 7)...)...)
	case k < 6:
		return L(A("lgen"), I(NewID()), I(r.Range(-1, 7)))
	case k < 8:
		return L(append([]*Sx{A("lcollect"), I(NewID())}, genVals(r, 0, 6)...)...)
	case k == 8:
		return L(A(Pick(r, "lrange", "lrangec")), I(r.Range(-2, 3)), I(r.Range(-3, 6)))
	case k == 9:
		return L(append([]*Sx{A("lrev")}, genVals(r, 0, 5)...)...)
	case k == 10:
		if r.Bool() {
			return L(A("lopt"))
		}
		return L(A("lopt"), I(r.Range(-2, 9)))
	case k == 11:
		return L(A("lempty"))
	case k == 12 || k == 13:
		return L(append([]*Sx{A("lrevs")}, genVals(r, 0, 6)...)...)
	case k == 14:
		if r.Intn(3) == 0 {
			return L(A("lptr"))
		}
		return L(A("lptr"), I(r.Range(-2, 9)))
	}
	return L(A("lapply"), I(r.Range(-3, 9)), genLSource(r, inFlat))
}

func genLExpr(r *Rng, d int, inFlat bool) *Sx {
	if d <= 0 {
		return genLSource(r, inFlat)
	}
	sub := func() *Sx { return genLExpr(r, d-1, inFlat) }
	small := func() *Sx { return genLExpr(r, r.Intn(2), inFlat) }
	switch r.Intn(12) {
	case 0, 1, 2:
		return L(A("lmap"), sub(), GenF1(r, false))
	case 3, 4:
		var inner *Sx
		switch r.Intn(4) {
		case 0:
			inner = L(A("larg"), I(r.Range(0, 3)))
		case 1:
			inner = L(A("lmap"), L(A("larg"), I(r.Range(0, 3))), GenF1(r, false))
		default:
			inner = genLExpr(r, 1, true)
		}
		return L(A("lflatmap"), sub(), I(NewID()), inner)
	case 5:
		return L(A("lapply"), I(r.Range(-3, 9)), sub())
	case 6:
		return L(A("lfiltermap"), sub(), L(A("omod"), I(NewID()), I(r.Range(2, 3))))
	case 7, 8:
		return L(A("lcombine"), sub(), small())
	case 9:
		return L(A("lzip"), sub(), small())
	case 10:
		return L(A("lzipidx"), sub())
	}
	return L(A("lscan"), sub(), I(r.Range(-2, 3)), GenF2(r, false))
}

func genFutArgs(r *Rng, modes ...int) []*Sx {
	return []*Sx{I(r.Range(-2, 3)), GenF2(r, false), I(r.Range(2, 4)), I(r.Range(1, 9)), I(Pick(r, modes...))}
}

func genLxOp(r *Rng) *Sx {
	switch r.Intn(16) {
	case 0:
		return L(A("isempty"))
	case 1:
		return L(A("nonempty"))
	case 2:
		return L(A("head"))
	case 3, 4:
		return L(A("headm"))
	case 5, 6:
		return L(A("tailhead"), I(r.Range(0, 5)))
	case 7, 8:
		return L(A("unapply"))
	case 9, 10:
		return L(A("foreach"), GenF1(r, true))
	case 11:
		return L(A("toseq"))
	case 12:
		return L(A("toset"), I(r.Range(1, 5)))
	case 13:
		return L(A("togoset"))
	}
	return L(append([]*Sx{A("foldfut")}, genFutArgs(r, 0, 1, 2)...)...)
}

func genPairs(r *Rng, lo, hi int) []*Sx {
	n := r.Range(lo, hi)
	out := []*Sx{}
	for i := 0; i < n; i++ {
		out = append(out, I(r.Range(-2, 4)), I(r.Range(-3, 9))) // few distinct keys: duplicates are common
	}
	return out
}

func genPExpr(r *Rng, d int) *Sx {
	switch r.Intn(8) {
	case 0, 1:
		return L(A("pzip"), genLExpr(r, r.Intn(3), false), genLExpr(r, r.Intn(2), false))
	case 2, 3:
		f := L(A("lin"), I(NewID()), I(Pick(r, 0, 1, 1, 2)), I(r.Range(-1, 1)))
		if r.Intn(4) == 0 {
			f = GenF1(r, false)
		}
		return L(A("pkey"), genLExpr(r, r.Intn(3), false), f)
	case 4:
		if d > 0 {
			return L(A("papply"), I(r.Range(-2, 4)), I(r.Range(-3, 9)), genPExpr(r, d-1))
		}
	case 5:
		if d > 0 {
			return L(A("pcombine"), genPExpr(r, d-1), genPExpr(r, d-1))
		}
	}
	return L(append([]*Sx{A("pof")}, genPairs(r, 0, 7)...)...)
}

func genPxOp(r *Rng) *Sx {
	switch r.Intn(12) {
	case 0, 1, 2, 3:
		return L(A("togomap"))
	case 4, 5, 6, 7:
		return L(A("tomap"), I(r.Range(1, 5)))
	case 8:
		return L(A("unapply"))
	case 9:
		return L(A("toseq"))
	case 10:
		return L(A("toset"), I(r.Range(1, 4)))
	}
	return L(A("head"))
}

func genRS(r *Rng) *Sx {
	switch r.Intn(8) {
	case 0, 1, 2:
		return L(A("rforce"), GenF2(r, r.Intn(6) == 0))
	case 3, 4:
		return L(A("rstop"), GenP1(r, r.Intn(6) == 0))
	case 5:
		return L(A("rconst"), GenF1(r, r.Intn(6) == 0))
	}
	return L(A("rlog"), I(NewID()), GenF2(r, false))
}

func genSqOp(r *Rng, n int) *Sx {
	switch r.Intn(22) {
	case 0:
		return L(A("size"))
	case 1:
		return L(A(Pick(r, "isempty", "nonempty")))
	case 2, 3:
		return L(A("get"), I(r.Range(-2, n+1)))
	case 4:
		return L(A("head"))
	case 5, 6:
		return L(A("init"))
	case 7, 8:
		return L(A("last"))
	case 9:
		return L(A("tail"))
	case 10:
		return L(A(Pick(r, "xhead", "xtail")))
	case 11:
		return L(A("xinit"))
	case 12:
		return L(A("xlast"))
	case 13:
		return L(A("cast"))
	case 14:
		return L(A("foreach"), GenF1(r, true))
	case 15, 16, 17, 18:
		return L(A("foldr"), I(r.Range(-9, 3)), genRS(r))
	}
	return L(append([]*Sx{A("foldfut")}, genFutArgs(r, 0, 1, 2, 3)...)...)
}

func genCase(r *Rng) *Sx {
	switch k := r.Intn(20); {
	case k < 6:
		n := r.Range(1, 4)
		ops := []*Sx{}
		for i := 0; i < n; i++ {
			ops = append(ops, genLxOp(r))
		}
		return L(A("lx"), genLExpr(r, r.Range(0, 3), false), L(ops...))
	case k < 10:
		n := r.Range(1, 3)
		ops := []*Sx{}
		for i := 0; i < n; i++ {
			ops = append(ops, genPxOp(r))
		}
		return L(A("px"), genPExpr(r, 2), L(ops...))
	case k < 12:
		n := r.Range(1, 4)
		ops := []*Sx{}
		for i := 0; i < n; i++ {
			switch r.Intn(5) {
			case 0:
				ops = append(ops, L(A("isempty")))
			case 1:
				ops = append(ops, L(A("nth"), I(r.Range(0, 6))))
			default:
				ops = append(ops, L(A("take"), I(r.Range(0, 8))))
			}
		}
		if r.Intn(4) == 0 {
			return L(A("rec"), I(1), I(r.Range(-2, 3)), I(0), GenF1(r, r.Intn(5) == 0), L(ops...))
		}
		return L(A("rec"), I(2), I(r.Range(-2, 3)), I(r.Range(-2, 3)), GenF2(r, r.Intn(5) == 0), L(ops...))
	case k < 17:
		xs := genVals(r, 0, 7)
		if r.Intn(6) == 0 {
			xs = genVals(r, 0, 1) // empty / singleton
		}
		return L(A("sq"), L(xs...), genSqOp(r, len(xs)))
	case k < 18:
		n := r.Range(0, 6)
		xs := []*Sx{}
		for i := 0; i < n; i++ {
			if r.Intn(3) == 0 {
				xs = append(xs, A("nil"))
			} else {
				xs = append(xs, I(r.Range(-3, 9)))
			}
		}
		return L(A("sqnil"), L(xs...))
	}
	return L(A("gm"), L(genPairs(r, 0, 6)...), A(Pick(r, "seqfrommap", "seqkeys", "seqvalues", "listfrommap", "listkeys", "listvalues")))
}

func count(s *Sx, top bool) {
	if s.IsL {
		if h := s.Head(); h != "" && (h[0] < '0' || h[0] > '9') && h[0] != '-' {
			hist[h]++
		}
		for _, x := range s.List {
			count(x, false)
		}
	} else if s.Atom == "nil" || strings.HasPrefix(s.Atom, "seq") || strings.HasPrefix(s.Atom, "list") {
		hist[s.Atom]++
	}
}

// ------------------------------------------------------------------------------------ main

type dfail struct{ key, input, what string }

var dfails []dfail

func recordFail(key, input, what string) { dfails = append(dfails, dfail{key, input, what}) }

func flushFails(sink *Sink) {
	for _, d := range dfails {
		sink.DirectFail(d.key, d.input, d.what)
	}
	dfails = dfails[:0]
}

func main() {
	seed := flag.Uint64("seed", 1, "PRNG seed")
	n := flag.Int("n", 3000, "number of generated cases")
	out := flag.String("out", ".", "output directory")
	replay := flag.String("replay", "", "run one op line and print the implementation's answer")
	opsFile := flag.String("ops", "", "run the op lines of this file instead of generating")
	flag.Parse()
	if *replay != "" {
		if strings.HasPrefix(*replay, "(fixed") {
			directFixed(NewRng(*seed), 1)
		} else {
			op, err := Parse(*replay)
			if err != nil {
				fmt.Println("bad-op")
				os.Exit(2)
			}
			fmt.Println(dispatch(op))
			directForCase(op)
		}
		for _, d := range dfails {
			fmt.Println("DIRECT-FAILURE " + d.key + ": " + d.what)
		}
		return
	}
	r := NewRng(*seed)
	sink := NewSink(*out)
	if *opsFile != "" {
		for _, line := range ReadLines(*opsFile) {
			op, err := Parse(line)
			if err != nil {
				continue
			}
			sink.Case(line, func() string { return dispatch(op) })
		}
		sink.Close()
		fmt.Printf("{\"cases\": %d}\n", sink.N)
		return
	}
	nd := 0
	for i := 0; i < *n && wallTimeouts < 3; i++ {
		ResetIDs()
		op := genCase(r)
		count(op, true)
		hist["case:"+op.Head()]++
		sink.Case(op.String(), func() string { return dispatch(op) })
		nd += directForCase(op)
		flushFails(sink)
	}
	nd += directFixed(r, *n/50+3)
	flushFails(sink)
	sink.Close()
	keys := []string{}
	for k := range hist {
		keys = append(keys, k)
	}
	sort.Strings(keys)
	fmt.Printf("{\"cases\": %d, \"direct_checks\": %d, \"direct_failures\": %d, \"wall_timeouts\": %d, \"histogram\": {", sink.N, nd, sink.DirectFailures, wallTimeouts)
	for i, k := range keys {
		if i > 0 {
			fmt.Print(", ")
		}
		fmt.Printf("%q: %d", k, hist[k])
	}
	fmt.Println("}}")
}

var _ = iterator.Of[int]
