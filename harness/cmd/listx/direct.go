package main

// Direct (model-free) evaluation of the property statement on the implementation: every function is
// compared with the eager slice computation written out here with plain loops; failures carry the
// concrete input.

import (
	"fmt"
	"sort"
	"strings"
	"time"

	"github.com/csgura/fp"
	"github.com/csgura/fp/future"
	"github.com/csgura/fp/iterator"
	"github.com/csgura/fp/lazy"
	"github.com/csgura/fp/list"
	"github.com/csgura/fp/ord"
	"github.com/csgura/fp/seq"
	"github.com/csgura/fp/xtr"
	. "verifharness/common"
)

// evalEagerL: the eager slice computation of a list expression (plain loops only).
func evalEagerL(s *Sx, arg any) []any {
	a := s.List
	sub := func(i int) []any { return evalEagerL(a[i], arg) }
	switch s.Head() {
	case "lempty":
		return []any{}
	case "lof", "lrev", "lrevs":
		xs := ints(a[1:])
		if s.Head() != "lof" {
			for i, j := 0, len(xs)-1; i < j; i, j = i+1, j-1 {
				xs[i], xs[j] = xs[j], xs[i]
			}
		}
		return xs
	case "larg":
		out := []any{}
		for i := 0; i < a[1].Int(); i++ {
			out = append(out, AsInt(arg)+i)
		}
		return out
	case "lapply":
		return append([]any{a[1].Int()}, sub(2)...)
	case "lgen":
		out := []any{}
		for i := 0; i < a[2].Int(); i++ {
			out = append(out, i)
		}
		return out
	case "lrange", "lrangec":
		out := []any{}
		hi := a[2].Int()
		if s.Head() == "lrangec" {
			hi++
		}
		for i := a[1].Int(); i < hi; i++ {
			out = append(out, i)
		}
		return out
	case "lcollect":
		return ints(a[2:])
	case "lopt", "lptr":
		if len(a) == 1 {
			return []any{}
		}
		return []any{a[1].Int()}
	case "lmap":
		f := F1Of(a[2])
		out := []any{}
		for _, x := range sub(1) {
			out = append(out, f(x))
		}
		return out
	case "lflatmap":
		out := []any{}
		for _, x := range sub(1) {
			out = append(out, evalEagerL(a[3], x)...)
		}
		return out
	case "lfiltermap":
		m := a[2].List[2].Int()
		out := []any{}
		for _, x := range sub(1) {
			if Emod(AsInt(x), m) != 0 {
				out = append(out, AsInt(x)+1)
			}
		}
		return out
	case "lcombine":
		return append(append([]any{}, sub(1)...), sub(2)...)
	case "lzip":
		x, y := sub(1), sub(2)
		out := []any{}
		for i := 0; i < len(x) && i < len(y); i++ {
			out = append(out, KVt{I1: x[i], I2: y[i]})
		}
		return out
	case "lzipidx":
		out := []any{}
		for i, x := range sub(1) {
			out = append(out, fp.Tuple2[int, any]{I1: i, I2: x})
		}
		return out
	case "lscan":
		g := F2Of(a[3])
		var acc any = a[2].Int()
		out := []any{acc}
		for _, x := range sub(1) {
			acc = g(acc, x)
			out = append(out, acc)
		}
		return out
	}
	panic("evalEagerL " + s.String())
}

func evalEagerP(s *Sx) []KVt {
	a := s.List
	switch s.Head() {
	case "pzip":
		x, y := evalEagerL(a[1], 0), evalEagerL(a[2], 0)
		out := []KVt{}
		for i := 0; i < len(x) && i < len(y); i++ {
			out = append(out, KVt{I1: x[i], I2: y[i]})
		}
		return out
	case "pkey":
		f := F1Of(a[2])
		out := []KVt{}
		for _, x := range evalEagerL(a[1], 0) {
			out = append(out, KVt{I1: f(x), I2: x})
		}
		return out
	case "pof":
		return pairsOf(a[1:])
	case "papply":
		return append([]KVt{{I1: a[1].Int(), I2: a[2].Int()}}, evalEagerP(a[3])...)
	case "pcombine":
		return append(evalEagerP(a[1]), evalEagerP(a[2])...)
	}
	panic("evalEagerP " + s.String())
}

// quiet runs f and reports (result, panicked, number of callback events)
func quiet(f func() string) (res string, panicked bool, events []string) {
	Log = Log[:0]
	func() {
		defer func() {
			if p := recover(); p != nil {
				if _, ok := p.(errBudget); ok {
					panic(p)
				}
				panicked = true
				res = "panic(" + showPanic(p) + ")"
			}
		}()
		res = f()
	}()
	events = append([]string{}, Log...)
	Log = Log[:0]
	return
}

// refFut: the sequential fold over completed futures, written out
func refFut(xs []any, z any, g func(any, any) any, m, e int) string {
	var acc any = z
	for _, x := range xs {
		r := g(acc, x)
		if Emod(AsInt(r), m) == 0 {
			return "Failure(e" + fmt.Sprint(e) + ")"
		}
		acc = r
	}
	return "Success(" + Show(acc) + ")"
}

func dedupShow[T any](xs []T) string {
	seen := map[string]bool{}
	for _, x := range xs {
		seen[Show(x)] = true
	}
	parts := []string{}
	for k := range seen {
		parts = append(parts, k)
	}
	return sortedJoin("{", parts, "}")
}

func lastWins(ps []KVt) string {
	m := map[string]string{}
	for _, p := range ps {
		m[Show(p.I1)] = Show(p.I2)
	}
	return showEntries(m)
}

// checkCommon: the operations of stepCommon against the reference slice `ref`
func checkCommon[T any](mk func() fp.List[T], ref []T, o *Sx, input string) int {
	a := o.List
	bad := func(fn, what string) { recordFail("list."+fn, input, what) }
	ck := 1
	switch o.Head() {
	case "isempty", "nonempty":
		got, _, _ := quiet(func() string { return showBool(mk().IsEmpty()) + showBool(mk().NonEmpty()) })
		if want := showBool(len(ref) == 0) + showBool(len(ref) != 0); got != want {
			bad("IsEmpty", "IsEmpty/NonEmpty="+got+" on a list of "+fmt.Sprint(len(ref))+" elements")
		}
	case "head":
		got, _, _ := quiet(func() string { return Show(list.Head(mk())) })
		want := "None"
		if len(ref) > 0 {
			want = "Some(" + Show(ref[0]) + ")"
		}
		if got != want {
			bad("Head", "list.Head="+got+" eager="+want)
		}
	case "headm":
		got, p, _ := quiet(func() string { return Show(mk().Head()) })
		if len(ref) == 0 {
			if !p {
				bad("Head", "Head() of an empty list returned "+got+" (must panic)")
			}
		} else if got != Show(ref[0]) {
			bad("Head", "Head()="+got+" eager="+Show(ref[0]))
		}
	case "tailhead":
		n := a[1].Int()
		got, _, _ := quiet(func() string {
			cur := mk()
			for i := 0; i < n; i++ {
				cur = cur.Tail()
			}
			return Show(cur.ToSeq())
		})
		want := []T{}
		if n < len(ref) {
			want = ref[n:]
		}
		if got != Show(want) {
			bad("Tail", fmt.Sprintf("Tail()^%d = %s, eager drop = %s", n, got, Show(want)))
		}
	case "unapply":
		got, p, _ := quiet(func() string { h, t := mk().Unapply(); return Show(h) + ":" + Show(t.ToSeq()) })
		if len(ref) == 0 {
			if !p {
				bad("Unapply", "Unapply() of an empty list returned "+got+" (must panic)")
			}
		} else if want := Show(ref[0]) + ":" + Show(ref[1:]); got != want {
			bad("Unapply", "Unapply()="+got+" eager="+want)
		}
	case "foreach":
		seen := []T{}
		quiet(func() string { mk().Foreach(func(v T) { tick(); seen = append(seen, v) }); return "" })
		if Show(seen) != Show(ref) {
			bad("Foreach", "Foreach visited "+Show(seen)+" eager="+Show(ref))
		}
	case "toseq":
		l := mk()
		got, _, _ := quiet(func() string { return Show(l.ToSeq()) })
		if got != Show(ref) {
			bad("ToSeq", "ToSeq="+got+" eager="+Show(ref))
		}
		again, _, ev := quiet(func() string { return Show(l.ToSeq()) })
		if again != got || len(ev) != 0 {
			bad("ToSeq", "second traversal: "+again+" events "+strings.Join(ev, ",")+" (memoised cells evaluated again)")
		}
	case "toset":
		got, _, _ := quiet(func() string {
			s := list.ToSet(mk(), fp.Hashable[T](hasherOf[T]{a[1].Int()}))
			parts := []string{}
			itr := s.Iterator()
			for itr.HasNext() {
				parts = append(parts, Show(itr.Next()))
			}
			for _, x := range ref {
				if !s.Contains(x) {
					return "missing " + Show(x)
				}
			}
			return sortedJoin("{", parts, "}")
		})
		if want := dedupShow(ref); got != want {
			bad("ToSet", "ToSet="+got+" eager="+want)
		}
	default:
		ck = 0
	}
	return ck
}

func directLx(op *Sx) int {
	e := op.List[1]
	input := op.String()
	var ref []any
	quiet(func() string { ref = evalEagerL(e, 0); return "" })
	checks := 0
	for _, o := range op.List[2].List {
		a := o.List
		one := L(A(op.Head()), e, L(o)).String()
		if n := checkCommon(func() Lst { return buildList(e, 0) }, ref, o, one); n > 0 {
			checks += n
			continue
		}
		checks++
		switch o.Head() {
		case "togoset":
			got, _, _ := quiet(func() string {
				parts := []string{}
				for k := range list.ToGoSet(buildList(e, 0)) {
					parts = append(parts, Show(k))
				}
				// keys of different DYNAMIC types with the same rendering (Tuple2[any,any]{0,0} from Zip, Tuple2[int,any]{0,0} from
				// ZipWithIndex) are different Go map keys but the same value of the model's universal value type
				return sortedJoin("{", uniqStrings(parts), "}")
			})
			if want := dedupShow(ref); got != want {
				recordFail("list.ToGoSet", one, "ToGoSet="+got+" eager="+want)
			}
		case "foldfut":
			mode := a[5].Int()
			var want string
			quiet(func() string { want = refFut(ref, a[1].Int(), F2Of(a[2]), a[3].Int(), a[4].Int()); return "" })
			got, _, _ := quiet(func() string {
				ex, ctx := execsOf(mode)
				return awaitFut(list.FoldFuture(buildList(e, 0), any(a[1].Int()), futFn(f2(a[2]), a[3].Int(), a[4].Int(), mode, ex), ctx...), mode, ex)
			})
			if got != want {
				recordFail("list.FoldFuture", one, "FoldFuture="+got+" sequential fold="+want)
			}
		}
	}
	_ = input
	return checks
}

func directPx(op *Sx) int {
	e := op.List[1]
	var ref []KVt
	quiet(func() string { ref = evalEagerP(e); return "" })
	checks := 0
	for _, o := range op.List[2].List {
		a := o.List
		one := L(A("px"), e, L(o)).String()
		if n := checkCommon(func() PL { return buildPairs(e) }, ref, o, one); n > 0 {
			checks += n
			continue
		}
		checks++
		switch o.Head() {
		case "togomap":
			got, _, _ := quiet(func() string {
				out := map[string]string{}
				for k, v := range list.ToGoMap(buildPairs(e)) {
					out[Show(k)] = Show(v)
				}
				return showEntries(out)
			})
			if want := lastWins(ref); got != want {
				recordFail("list.ToGoMap", one, "ToGoMap="+got+" eager (last write wins)="+want)
			}
		case "tomap":
			got, _, _ := quiet(func() string {
				m := list.ToMap(buildPairs(e), fp.Hashable[any](hasherOf[any]{a[1].Int()}))
				out := map[string]string{}
				itr := m.Iterator()
				for itr.HasNext() {
					t := itr.Next()
					out[Show(t.I1)] = Show(t.I2)
				}
				for _, p := range ref {
					if !m.Contains(p.I1) {
						return "missing key " + Show(p.I1)
					}
				}
				if m.Size() != len(out) {
					return fmt.Sprintf("Size()=%d but %d distinct keys", m.Size(), len(out))
				}
				return showEntries(out)
			})
			if want := lastWins(ref); got != want {
				recordFail("list.ToMap", one, "ToMap="+got+" eager (last write wins)="+want)
			}
		}
	}
	return checks
}

func directRec(op *Sx) int {
	a := op.List
	kind := a[1].Int()
	checks := 0
	for _, o := range a[5].List {
		if o.Head() != "take" && o.Head() != "nth" {
			continue
		}
		n := o.List[1].Int()
		if o.Head() == "nth" {
			n++
		}
		checks++
		// the unfolded recurrence, by a plain loop
		var want []any
		_, refPanics, _ := quiet(func() string {
			x, y := any(a[2].Int()), any(a[3].Int())
			for i := 0; i < n; i++ {
				want = append(want, x)
				if kind == 1 {
					x = F1Of(a[4])(x)
				} else {
					x, y = y, F2Of(a[4])(x, y)
				}
			}
			return ""
		})
		if refPanics {
			continue // the relation panics: nothing to compare with
		}
		calls := 0
		var l Lst
		take := func() string {
			out := []any{}
			cur := l
			for i := 0; i < n; i++ {
				out = append(out, cur.Head())
				cur = cur.Tail()
			}
			return Show(out)
		}
		got, _, ev := quiet(func() string { l = buildRec(a); return take() })
		calls = len(ev)
		one := L(A("rec"), a[1], a[2], a[3], a[4], L(o)).String()
		name := fmt.Sprintf("list.Recurrence%d", kind)
		if got != Show(want) {
			recordFail(name, one, "first "+fmt.Sprint(n)+" elements "+got+" unfolded recurrence "+Show(want))
		}
		if calls > n {
			recordFail(name, one, fmt.Sprintf("relation called %d times for %d elements", calls, n))
		}
		again, _, ev2 := quiet(take)
		if again != got || len(ev2) != 0 {
			recordFail(name, one, "second traversal "+again+" re-ran the relation: "+strings.Join(ev2, ","))
		}
	}
	return checks
}

func directSq(op *Sx) int {
	xs := fp.Seq[any](ints(op.List[1].List))
	o := op.List[2]
	a := o.List
	input := op.String()
	n := len(xs)
	bad := func(fn, what string) { recordFail(fn, input, what) }
	opt := func(ok bool, v func() any) string {
		if ok {
			return "Some(" + Show(v()) + ")"
		}
		return "None"
	}
	switch o.Head() {
	case "size", "isempty", "nonempty":
		if seq.Size(xs) != n || xs.IsEmpty() != (n == 0) || xs.NonEmpty() != (n > 0) {
			bad("seq.Size", "Size/IsEmpty/NonEmpty inconsistent with len")
		}
	case "get":
		i := a[1].Int()
		if i < 0 {
			return 0 // r[idx] with a negative index panics in Go; no reference value
		}
		got, _, _ := quiet(func() string { return Show(xs.Get(i)) })
		if want := opt(i < n, func() any { return xs[i] }); got != want {
			bad("Seq.Get", "Get("+fmt.Sprint(i)+")="+got+" eager="+want)
		}
	case "head", "xhead":
		want := opt(n > 0, func() any { return xs[0] })
		if got := Show(seq.Head(xs)); got != want {
			bad("seq.Head", "Head="+got+" eager="+want)
		}
		if got := Show(xtr.Head[fp.Seq[any], fp.Option[any]](xs)); got != want {
			bad("xtr.Head", "Head="+got+" eager="+want)
		}
	case "last", "xlast":
		want := opt(n > 0, func() any { return xs[n-1] })
		if got := Show(seq.Last(xs)); got != want {
			bad("seq.Last", "Last="+got+" eager="+want)
		}
		if got := Show(xtr.Last[fp.Seq[any], fp.Option[any]](xs)); got != want {
			bad("xtr.Last", "Last="+got+" eager="+want)
		}
	case "init", "xinit":
		want := []any{}
		for i := 0; i+1 < n; i++ {
			want = append(want, xs[i])
		}
		if got := Show([]any(seq.Init(xs))); got != Show(want) {
			bad("seq.Init", "Init="+got+" eager="+Show(want))
		}
		if got := Show([]any(xtr.Init[fp.Seq[any], fp.Seq[any]](xs))); got != Show(want) {
			bad("xtr.Init", "Init="+got+" eager="+Show(want))
		}
	case "tail", "xtail":
		want := []any{}
		for i := 1; i < n; i++ {
			want = append(want, xs[i])
		}
		if got := Show([]any(seq.Tail(xs))); got != Show(want) {
			bad("seq.Tail", "Tail="+got+" eager="+Show(want))
		}
		if got := Show([]any(xtr.Tail[fp.Seq[any], fp.Seq[any]](xs))); got != Show(want) {
			bad("xtr.Tail", "Tail="+got+" eager="+Show(want))
		}
	case "cast":
		if got := Show(fp.SliceCasting[[]any](xs)); got != Show([]any(xs)) {
			bad("fp.SliceCasting", "got "+got)
		}
	case "foreach":
		seen := []any{}
		xs.Foreach(func(v any) { seen = append(seen, v) })
		if Show(seen) != Show([]any(xs)) {
			bad("Seq.Foreach", "visited "+Show(seen))
		}
	case "foldr":
		rs := a[2]
		z := any(a[1].Int())
		// reference by a plain loop from the right (forcing step), or from the left (stopping step)
		var want string
		var wantCalls = -1
		_, p, _ := quiet(func() string {
			switch rs.Head() {
			case "rforce", "rlog":
				g := F2Of(rs.List[len(rs.List)-1])
				acc := z
				for i := n - 1; i >= 0; i-- {
					acc = g(xs[i], acc)
				}
				want = Show(acc)
			case "rstop":
				p := P1Of(rs.List[1])
				want = Show(z)
				wantCalls = n
				for i := 0; i < n; i++ {
					if p(xs[i]) {
						want = Show(xs[i])
						wantCalls = i + 1
						break
					}
				}
			case "rconst":
				want = Show(z)
				wantCalls = 0
				if n > 0 {
					want = Show(F1Of(rs.List[1])(xs[0]))
					wantCalls = 1
				}
			}
			return ""
		})
		if p {
			return 0
		}
		got, _, ev := quiet(func() string { return Show(seq.FoldRight(xs, z, rsOf(rs)).Get()) })
		if got != want {
			bad("seq.FoldRight", "FoldRight="+got+" eager right fold="+want)
		}
		if wantCalls >= 0 && len(ev) != wantCalls {
			bad("seq.FoldRight", fmt.Sprintf("laziness: the step ran %d times, demand requires %d", len(ev), wantCalls))
		}
	case "foldfut":
		mode := a[5].Int()
		var want string
		quiet(func() string { want = refFut(xs, a[1].Int(), F2Of(a[2]), a[3].Int(), a[4].Int()); return "" })
		got, _, _ := quiet(func() string {
			ex, ctx := execsOf(mode)
			return awaitFut(seq.FoldFuture(xs, any(a[1].Int()), futFn(f2(a[2]), a[3].Int(), a[4].Int(), mode, ex), ctx...), mode, ex)
		})
		if got != want {
			bad("seq.FoldFuture", "FoldFuture="+got+" sequential fold="+want)
		}
	default:
		return 0
	}
	return 1
}

func directSqNil(op *Sx) int {
	ps := ptrsOf(op.List[1].List)
	want := []any{}
	for _, p := range ps {
		if p != nil {
			want = append(want, *p)
		}
	}
	if got := Show([]any(seq.FilterNil(ps))); got != Show(want) {
		recordFail("seq.FilterNil", op.String(), "FilterNil="+got+" eager="+Show(want))
	}
	return 1
}

func directGm(op *Sx) int {
	m := goMapOf(op.List[1].List)
	ents, keys, vals := []string{}, []string{}, []string{}
	for k, v := range m {
		ents = append(ents, "("+Show(k)+","+Show(v)+")")
		keys = append(keys, Show(k))
		vals = append(vals, Show(v))
	}
	var got, want, fn string
	switch op.List[2].Atom {
	case "seqfrommap":
		fn, got, want = "seq.FromMap", showSortedAny(seq.FromMap(m)), sortedJoin("[", ents, "]")
	case "seqkeys":
		fn, got, want = "seq.FromMapKeys", showSortedAny(seq.FromMapKeys(m)), sortedJoin("[", keys, "]")
	case "seqvalues":
		fn, got, want = "seq.FromMapValues", showSortedAny(seq.FromMapValues(m)), sortedJoin("[", vals, "]")
	case "listfrommap":
		fn, got, want = "list.FromMap", showSortedAny(list.FromMap(m).ToSeq()), sortedJoin("[", ents, "]")
	case "listkeys":
		fn, got, want = "list.FromMapKey", showSortedAny(list.FromMapKey(m).ToSeq()), sortedJoin("[", keys, "]")
	case "listvalues":
		fn, got, want = "list.FromMapValue", showSortedAny(list.FromMapValue(m).ToSeq()), sortedJoin("[", vals, "]")
	}
	if got != want {
		recordFail(fn, op.String(), "as a multiset "+got+", the map has "+want)
	}
	return 1
}

func directForCase(op *Sx) int {
	n := 0
	res := guarded(func() string {
		switch op.Head() {
		case "lx":
			n = directLx(op)
		case "px":
			n = directPx(op)
		case "rec":
			n = directRec(op)
		case "sq":
			n = directSq(op)
		case "sqnil":
			n = directSqNil(op)
		case "gm":
			n = directGm(op)
		}
		return ""
	})
	if res == "timeout" {
		recordFail("C12.terminates", op.String(), "does not terminate on a finite input")
	} else if res != "" {
		recordFail("C12.harness", op.String(), res)
	}
	return n
}

// ------------------------------------------------------------------------------------ fixed laws

var seedNow uint64

// directFixed: the zero-value ListAdaptor, and the thin iterator wrappers against eager slices.
func directFixed(r *Rng, rounds int) int {
	checks := 0
	eq := func(key, in, got, want string) {
		checks++
		if got != want {
			recordFail(key, "(fixed "+key+" "+in+")", "got "+got+", eager "+want)
		}
	}
	run := func(f func() string) string {
		return guarded(func() string { s, _, _ := quiet(f); return s })
	}
	// zero value fp.ListAdaptor{}: an empty list
	var z fp.ListAdaptor[int]
	eq("ListAdaptor{}.IsEmpty", "zero", run(func() string { return showBool(z.IsEmpty()) + showBool(z.NonEmpty()) }), "truefalse")
	eq("ListAdaptor{}.Head", "zero", run(func() string { return Show(z.Head()) }), "panic(List.empty)")
	eq("ListAdaptor{}.Unapply", "zero", run(func() string { h, _ := z.Unapply(); return Show(h) }), "panic(List.empty)")
	eq("ListAdaptor{}.Tail", "zero", run(func() string {
		t := z.Tail()
		return showBool(t.IsEmpty()) + showBool(t.Tail().IsEmpty()) + Show(t.ToSeq()) + Show(list.Head(t))
	}), "truetrue[]None")
	eq("ListAdaptor{}.ToSeq", "zero", run(func() string { return Show(z.ToSeq()) }), "[]")
	eq("Nil.Unapply", "nil", run(func() string { h, _ := list.Nil[int]{}.Unapply(); return Show(h) }), "panic(List.empty)")
	eq("Nil.Tail", "nil", run(func() string { return showBool(list.Nil[int]{}.Tail().IsEmpty()) + Show(list.Nil[int]{}.ToSeq()) }), "true[]")
	eq("list.FromPtr", "nil", run(func() string { return Show(list.FromPtr[int](nil).ToSeq()) }), "[]")

	for k := 0; k < rounds; k++ {
		n := r.Range(0, 5)
		xs := make([]int, n)
		for i := range xs {
			xs[i] = r.Range(-3, 9)
		}
		ys := []int{r.Range(1, 4), r.Range(5, 8)}
		if r.Intn(4) == 0 {
			ys = ys[:r.Intn(2)]
		}
		in := fmt.Sprintf("xs=%s ys=%s", Show(xs), Show(ys))
		// a List is a value: a pipeline that uses the SAME list twice - once through a function returning an eager result
		// (Sort, ToSeq, Reverse…) and once more afterwards - sees the same elements in the same order both times
		// (seed C12-10: Seq.ToSeq handing out the list's own slice, which list.Sort then sorts in place)
		for _, mk := range []struct {
			name string
			l    func(v []int) fp.List[int]
		}{
			{"list.Of", func(v []int) fp.List[int] { return list.Of(v...) }},
			{"list.FromSeq", func(v []int) fp.List[int] { return list.FromSeq(fp.Seq[int](v)) }},
			{"list.Collect", func(v []int) fp.List[int] { return list.Collect(iterator.Of(v...)) }},
		} {
			own := append([]int{}, xs...)
			l := mk.l(own)
			before := Show(l.ToSeq())
			sorted := run(func() string { return Show(list.Sort(l, ord.Given[int]())) })
			wantSorted := append([]int{}, xs...)
			sort.Ints(wantSorted)
			eq("list.Sort/value", mk.name+" "+in, sorted, Show(wantSorted))
			eq("list.reused-after-Sort/ToSeq", mk.name+" "+in, run(func() string { return Show(l.ToSeq()) }), before)
			eq("list.reused-after-Sort/Zip", mk.name+" "+in, run(func() string {
				return Show(list.Zip(l, list.Map(l, func(v int) int { return v })).ToSeq())
			}), Show(seq.Zip(fp.Seq[int](xs), fp.Seq[int](xs))))
			eq("list.reused-after-Sort/source-slice", mk.name+" "+in, Show(own), Show(xs))
		}
		it := func() fp.Iterator[int] { return iterator.Of(xs...) }
		f := func(v int) int { return 3*v + 1 }
		g := func(a, b int) int { return 10*a + b }
		dup := func(v int) []int { return []int{v, v + 1} }
		// eager references by plain loops
		mapped, flat, prod := []int{}, []int{}, []int{}
		for _, x := range xs {
			mapped = append(mapped, f(x))
			flat = append(flat, dup(x)...)
			for _, y := range ys {
				prod = append(prod, g(x, y))
			}
		}
		eq("iterator.Lift", in, run(func() string { return Show(iterator.Lift(f)(it()).ToSeq()) }), Show(mapped))
		eq("iterator.ComposePure", in, run(func() string {
			out := []int{}
			for _, x := range xs {
				out = append(out, iterator.ComposePure(f)(x).ToSeq()...)
			}
			return Show(out)
		}), Show(mapped))
		eq("iterator.Compose", in, run(func() string {
			c := iterator.Compose(func(a []int) fp.Iterator[int] { return iterator.Of(a...) }, func(v int) fp.Iterator[int] { return iterator.Of(dup(v)...) })
			return Show(c(xs).ToSeq())
		}), Show(flat))
		eq("iterator.Flatten", in, run(func() string {
			return Show(iterator.Flatten(iterator.Map(it(), func(v int) fp.Iterator[int] { return iterator.Of(dup(v)...) })).ToSeq())
		}), Show(flat))
		// Map2 / FlapMap / Method1 / Method2 share ONE second iterator between the inner iterators: what
		// they yield is a prefix of the eager product (they stop once the shared iterator is exhausted).
		prefix := func(key string, got []int, want []int, min int) {
			checks++
			ok := len(got) <= len(want) && len(got) >= min
			for i := 0; ok && i < len(got); i++ {
				ok = got[i] == want[i]
			}
			if !ok {
				recordFail(key, "(fixed "+key+" "+in+")", "got "+Show(got)+", not a prefix (of at least "+fmt.Sprint(min)+" elements) of the eager "+Show(want))
			}
		}
		var got []int
		minProd := 0
		if n > 0 {
			minProd = len(ys)
		}
		run(func() string { got = iterator.Map2(it(), iterator.Of(ys...), g).ToSeq(); return "" })
		prefix("iterator.Map2", got, prod, minProd)
		b := r.Range(1, 5)
		m1 := []int{}
		for _, x := range xs {
			m1 = append(m1, g(x, b))
		}
		min1 := 0
		if n > 0 {
			min1 = 1
		}
		run(func() string { got = iterator.Method1(it(), g)(b).ToSeq(); return "" })
		prefix("iterator.Method1", got, m1, min1)
		run(func() string { got = iterator.FlapMap(g, it())(b).ToSeq(); return "" })
		prefix("iterator.FlapMap", got, m1, min1)
		m2 := []int{}
		for _, x := range xs {
			m2 = append(m2, 100*x+10*b+7)
		}
		run(func() string {
			got = iterator.Method2(it(), func(a, b, c int) int { return 100*a + 10*b + c })(b, 7).ToSeq()
			return ""
		})
		prefix("iterator.Method2", got, m2, min1)
		// list.FoldFuture / seq.FoldFuture on the library's own executor
		axs := make([]any, n)
		for i, x := range xs {
			axs[i] = x
		}
		mm := r.Range(2, 5)
		fn := func(acc, v any) fp.Future[any] {
			s := AsInt(acc) + AsInt(v)
			if Emod(s, mm) == 0 {
				return future.Failed[any](E(s))
			}
			return future.Apply(func() any { return s })
		}
		want := func() string {
			acc := 1
			for _, x := range xs {
				acc += x
				if Emod(acc, mm) == 0 {
					return "Failure(e" + fmt.Sprint(acc) + ")"
				}
			}
			return "Success(" + fmt.Sprint(acc) + ")"
		}()
		eq("seq.FoldFuture(go)", in, Show(future.Await(seq.FoldFuture(fp.Seq[any](axs), any(1), fn), 10*time.Second)), want)
		eq("list.FoldFuture(go)", in, Show(future.Await(list.FoldFuture(list.Of(axs...), any(1), fn), 10*time.Second)), want)
		// seq.FoldRight never evaluates an accumulator the step does not force
		forced := 0
		res := seq.FoldRight(fp.Seq[any](axs), any(-1), func(x any, b lazy.Eval[any]) lazy.Eval[any] {
			forced++
			return lazy.Done(x)
		}).Get()
		wantR, wantForced := any(-1), 0
		if n > 0 {
			wantR, wantForced = axs[0], 1
		}
		eq("seq.FoldRight(lazy)", in, Show(res)+"#"+fmt.Sprint(forced), Show(wantR)+"#"+fmt.Sprint(wantForced))
	}
	_ = sort.Strings
	return checks
}

// uniqStrings removes duplicates (order preserved)
func uniqStrings(xs []string) []string {
	seen := map[string]bool{}
	out := []string{}
	for _, x := range xs {
		if !seen[x] {
			seen[x] = true
			out = append(out, x)
		}
	}
	return out
}
