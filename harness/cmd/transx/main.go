// Correspondence + direct harness for the transformer functions of package try (try_seqt.go, try_optiont.go)
// that cmd/tryopt does not reach, and for the remaining hand-written functions of try / option / either /
// statet and methods of fp.Option / fp.Try (C01, C02, C10, C17).  Lean side: Oracle/TransX.lean over
// Model/TryOptExt.lean + Model/StateTExt.lean.
package main

import (
	"flag"
	"fmt"
	"os"
	"sort"
	"strings"

	"github.com/csgura/fp"
	"github.com/csgura/fp/either"
	"github.com/csgura/fp/lazy"
	"github.com/csgura/fp/option"
	"github.com/csgura/fp/ord"
	"github.com/csgura/fp/statet"
	"github.com/csgura/fp/try"
	. "verifharness/common"
)

// ---------------------------------------------------------------------------------- operands

func elemOf(s *Sx) any {
	if !s.IsL && s.Atom == "nil" {
		return nil
	}
	return s.Int()
}

func tOf(s *Sx) fp.Try[any] {
	switch s.Head() {
	case "succ":
		return fp.Success[any](elemOf(s.List[1]))
	case "fail":
		return fp.Failure[any](E(s.List[1].Int()))
	case "zero":
		return fp.Try[any]{}
	}
	panic("bad T " + s.String())
}

func tOfInt(s *Sx) fp.Try[int] {
	switch s.Head() {
	case "succ":
		return fp.Success(s.List[1].Int())
	case "fail":
		return fp.Failure[int](E(s.List[1].Int()))
	case "zero":
		return fp.Try[int]{}
	}
	panic("bad T " + s.String())
}

func oOf(s *Sx) fp.Option[any] {
	switch s.Head() {
	case "some":
		return fp.Some[any](elemOf(s.List[1]))
	case "none":
		return fp.None[any]()
	}
	panic("bad O " + s.String())
}

func oOfInt(s *Sx) fp.Option[int] {
	switch s.Head() {
	case "some":
		return fp.Some(s.List[1].Int())
	case "none":
		return fp.None[int]()
	}
	panic("bad O " + s.String())
}

func eOf(s *Sx) fp.Either[any, any] {
	switch s.Head() {
	case "right":
		return fp.Right[any, any](elemOf(s.List[1]))
	case "left":
		return fp.Left[any, any](elemOf(s.List[1]))
	}
	panic("bad E " + s.String())
}

func pOf(s *Sx) *any {
	switch s.Head() {
	case "ptr":
		v := elemOf(s.List[1])
		return &v
	case "nilp":
		return nil
	}
	panic("bad P " + s.String())
}

func toOf(s *Sx) fp.Try[fp.Option[any]] {
	switch s.Head() {
	case "tsome":
		return fp.Success(fp.Some[any](elemOf(s.List[1])))
	case "tnone":
		return fp.Success(fp.None[any]())
	case "tfail":
		return fp.Failure[fp.Option[any]](E(s.List[1].Int()))
	case "tzero":
		return fp.Try[fp.Option[any]]{}
	}
	panic("bad TO " + s.String())
}

func toOfInt(s *Sx) fp.Try[fp.Option[int]] {
	switch s.Head() {
	case "tsome":
		return fp.Success(fp.Some(s.List[1].Int()))
	case "tnone":
		return fp.Success(fp.None[int]())
	case "tfail":
		return fp.Failure[fp.Option[int]](E(s.List[1].Int()))
	case "tzero":
		return fp.Try[fp.Option[int]]{}
	}
	panic("bad TO " + s.String())
}

// the Seq of a (tseq ...) is built with exact capacity, as a literal would be
func seqOf(xs []*Sx) fp.Seq[any] {
	r := make(fp.Seq[any], 0, len(xs))
	for _, x := range xs {
		r = append(r, elemOf(x))
	}
	return r
}

func tsOf(s *Sx) fp.Try[fp.Seq[any]] {
	switch s.Head() {
	case "tseq":
		return fp.Success(seqOf(s.List[1:]))
	case "tfail":
		return fp.Failure[fp.Seq[any]](E(s.List[1].Int()))
	case "tzero":
		return fp.Try[fp.Seq[any]]{}
	}
	panic("bad TS " + s.String())
}

func sepOf(s *Sx) string {
	switch s.Atom {
	case "comma":
		return ","
	case "empty":
		return ""
	case "dash":
		return "--"
	}
	panic("bad sep " + s.String())
}

func ordOf(s *Sx) fp.Ord[any] {
	switch s.Atom {
	case "given":
		return ord.ContraMap(ord.Given[int](), AsInt)
	case "rev":
		return ord.ContraMap(ord.Given[int](), AsInt).Reversed()
	case "div4":
		return ord.ContraMap(ord.Given[int](), func(x any) int { return AsInt(x) - Emod(AsInt(x), 4) })
	}
	panic("bad ord " + s.String())
}

// C10 fixes Min/Max up to the order's equivalence ("a least element"): WHICH of several Eqv elements comes back is
// implementation-level.  Both sides therefore render the result by its equivalence class under the order used
// (given/rev: AsInt(v), so nil ~ 0; div4: AsInt(v) - AsInt(v) mod 4).  Membership is a direct check.
func canonOpt(ordName string) func(fp.Option[any]) fp.Option[any] {
	return func(o fp.Option[any]) fp.Option[any] {
		if o.IsEmpty() {
			return o
		}
		k := AsInt(o.Get())
		if ordName == "div4" {
			k -= Emod(k, 4)
		}
		return fp.Some[any](k)
	}
}

func sup(s *Sx) func() any {
	id, b := s.List[1].Int(), s.List[2]
	return func() any {
		Emit("s%d", id)
		if b.Head() == "panic" {
			panic(b.List[1].Int())
		}
		return b.List[1].Int()
	}
}

// callbacks of FoldRight
func frOf(s *Sx) func(any, lazy.Eval[any]) lazy.Eval[any] {
	id := s.List[1].Int()
	switch s.Head() {
	case "frmap":
		a, b := s.List[2].Int(), s.List[3].Int()
		return func(x any, acc lazy.Eval[any]) lazy.Eval[any] {
			Emit("fr%d:%s", id, Show(x))
			return acc.Map(func(v any) any {
				Emit("frm%d:%s", id, Show(v))
				return a*AsInt(x) + b*AsInt(v)
			})
		}
	case "frconst":
		c := s.List[2].Int()
		return func(x any, acc lazy.Eval[any]) lazy.Eval[any] {
			Emit("fr%d:%s", id, Show(x))
			return lazy.Done[any](c)
		}
	case "frforce":
		return func(x any, acc lazy.Eval[any]) lazy.Eval[any] {
			Emit("fr%d:%s", id, Show(x))
			v := acc.Get()
			return lazy.Done[any](fp.Tuple2[any, any]{I1: x, I2: v})
		}
	case "frpanic":
		p := s.List[2].Int()
		return func(x any, acc lazy.Eval[any]) lazy.Eval[any] {
			Emit("fr%d:%s", id, Show(x))
			panic(p)
		}
	}
	panic("bad FR " + s.String())
}

func forceEval(e lazy.Eval[any]) string {
	Emit("ret")
	return Show(e.Get())
}

// option.Of arguments: the Go value and how a Some of it is rendered
func ofArgOf(s *Sx) (any, string) {
	if !s.IsL && s.Atom == "nil" {
		return nil, "nil"
	}
	switch s.Head() {
	case "int":
		return s.List[1].Int(), fmt.Sprint(s.List[1].Int())
	case "str":
		v := strOf(s.List[1])
		return v, "\"" + v + "\""
	case "ptr":
		v := s.List[1].Int()
		return &v, "&" + fmt.Sprint(v)
	case "slice":
		xs := []int{}
		for _, x := range s.List[1:] {
			xs = append(xs, x.Int())
		}
		return xs, Show(xs)
	case "map":
		return map[int]int{}, "map"
	case "func":
		return func() {}, "func"
	case "chan":
		return make(chan int), "chan"
	case "nilptr":
		return (*int)(nil), "nilptr"
	case "nilslice":
		return []int(nil), "nilslice"
	case "nilmap":
		return map[int]int(nil), "nilmap"
	case "nilfunc":
		return (func())(nil), "nilfunc"
	case "nilchan":
		return (chan int)(nil), "nilchan"
	}
	panic("bad OfArg " + s.String())
}

func strOf(s *Sx) string {
	if s.Atom == "empty" {
		return ""
	}
	return s.Atom
}

func sliceOf(s *Sx) []int {
	if s.Head() == "nilslice" {
		return nil
	}
	xs := []int{}
	for _, x := range s.List[1:] {
		xs = append(xs, x.Int())
	}
	return xs
}

func opOf(s *Sx) fp.Option[*any] {
	if s.Head() == "none" {
		return fp.None[*any]()
	}
	return fp.Some(pOf(s.List[1]))
}

// a type with a Deref method (fp.Deref[any]); a nil receiver faults inside the method
type cell struct{ v any }

func (c *cell) Deref() any {
	v := c.v
	Emit("deref:%s", Show(v))
	return v
}

func odOf(s *Sx) fp.Option[*cell] {
	if s.Head() == "none" {
		return fp.None[*cell]()
	}
	c := s.List[1]
	if c.Head() == "nilcell" {
		return fp.Some[*cell](nil)
	}
	return fp.Some(&cell{elemOf(c.List[1])})
}

// statet operands: StateT[int, Func1[any, any]]
type StF = fp.StateT[int, fp.Func1[any, any]]

func sI(f func(any) any) func(int) int { return func(s int) int { return AsInt(f(s)) } }

func stfOf(s *Sx) StF {
	a := s.List
	switch s.Head() {
	case "fpure":
		return statet.Pure[int, fp.Func1[any, any]](F1Of(a[1]))
	case "fmods":
		f := fp.Func1[any, any](F1Of(a[2]))
		return statet.ModifyS(sI(F1Of(a[1])), func(int) fp.Func1[any, any] { return f })
	case "ffail":
		e := a[2].Int()
		return statet.FlatMap(statet.Modify(sI(F1Of(a[1]))), func(fp.Unit) StF {
			return statet.FromTry[int](fp.Failure[fp.Func1[any, any]](E(e)))
		})
	case "fzero":
		return statet.FlatMap(statet.Modify(sI(F1Of(a[1]))), func(fp.Unit) StF {
			return statet.FromTry[int](fp.Try[fp.Func1[any, any]]{})
		})
	}
	panic("bad STF " + s.String())
}

func showRes(t fp.Try[any], s int) string { return fmt.Sprintf("%s @%d", Show(t), s) }

func showOpt(defined bool, shown string) string {
	if defined {
		return "Some(" + shown + ")"
	}
	return "None"
}

// ---------------------------------------------------------------------------------- operations

func runOp(op *Sx) string {
	a := op.List
	switch op.Head() {
	// try_seqt.go
	case "seqT.append":
		return Show(try.AppendSeqT(tsOf(a[1]), elemOf(a[2])))
	case "seqT.concat":
		return Show(try.ConcatSeqT(tsOf(a[1]), seqOf(a[2].List)))
	case "seqT.get":
		return Show(try.GetSeqT(tsOf(a[1]), a[2].Int()))
	case "seqT.isEmpty":
		return Show(try.IsEmptySeqT(tsOf(a[1])))
	case "seqT.nonEmpty":
		return Show(try.NonEmptySeqT(tsOf(a[1])))
	case "seqT.makeString":
		return Show(try.MakeStringSeqT(tsOf(a[1]), sepOf(a[2])))
	case "seqT.scan":
		return Show(try.ScanSeqT(tsOf(a[1]), elemOf(a[2]), F2Of(a[3])))
	case "seqT.sort":
		return Show(try.SortSeqT(tsOf(a[1]), ordOf(a[2])))
	case "seqT.min":
		return Show(try.Map(try.MinSeqT(tsOf(a[1]), ordOf(a[2])), canonOpt(a[2].Atom)))
	case "seqT.max":
		return Show(try.Map(try.MaxSeqT(tsOf(a[1]), ordOf(a[2])), canonOpt(a[2].Atom)))
	// try_optiont.go
	case "optT.orZero":
		if a[1].Atom == "int" {
			return Show(try.OrZeroOptionT(toOfInt(a[2])))
		}
		return Show(try.OrZeroOptionT(toOf(a[2])))
	case "optT.orPtr":
		return Show(try.OrPtrOptionT(toOf(a[1]), pOf(a[2])))
	// try_op.go
	case "try.traverseOption":
		return Show(try.TraverseOption(oOf(a[1]), KTOf(a[2])))
	case "try.foldRight":
		return forceEval(try.FoldRight(tOf(a[1]), elemOf(a[2]), frOf(a[3])))
	// option_op.go
	case "option.constNone":
		return Show(option.ConstNone[any, any](elemOf(a[1])))
	case "option.of":
		v, shown := ofArgOf(a[1])
		return showOpt(option.Of(v).IsDefined(), shown)
	case "option.ptr":
		return Show(option.Ptr(pOf(a[1])))
	case "option.string":
		return Show(option.String(strOf(a[1])))
	case "option.nonZero.int":
		return Show(option.NonZero(a[1].Int()))
	case "option.nonZero.str":
		return Show(option.NonZero(strOf(a[1])))
	case "option.nonZero.any":
		return Show(option.NonZero(elemOf(a[1])))
	case "option.nonEmptySlice":
		r := option.NonEmptySlice(sliceOf(a[1]))
		if r.IsDefined() && r.Get() == nil {
			return "Some(nilslice)"
		}
		return Show(r)
	case "option.composePure":
		return Show(option.ComposePure(F1Of(a[1]))(elemOf(a[2])))
	case "option.flatPtr":
		return Show(option.FlatPtr(opOf(a[1])))
	case "option.foldRight":
		return forceEval(option.FoldRight(oOf(a[1]), elemOf(a[2]), frOf(a[3])))
	case "option.deref":
		return Show(option.Deref[any](odOf(a[1])))
	case "option.pure0":
		return Show(option.Pure0(sup(a[1]))(fp.Unit{}))
	case "option.pure1":
		return Show(option.Pure1(F1Of(a[1]))(elemOf(a[2])))
	// option.go
	case "o.all":
		b := a[2].Atom == "true"
		oOf(a[1]).All()(func(v any) bool { Emit("y:%s", Show(v)); return b })
		return "unit"
	case "o.foreach":
		oOf(a[1]).Foreach(func(v any) { Emit("fe:%s", Show(v)) })
		return "unit"
	case "o.unapply":
		if a[1].Atom == "int" {
			v, ok := oOfInt(a[2]).Unapply()
			return fmt.Sprintf("(%s,%s)", Show(v), Show(ok))
		}
		v, ok := oOf(a[2]).Unapply()
		return fmt.Sprintf("(%s,%s)", Show(v), Show(ok))
	case "o.orZero":
		if a[1].Atom == "int" {
			return Show(oOfInt(a[2]).OrZero())
		}
		return Show(oOf(a[2]).OrZero())
	case "o.orPtr":
		return Show(oOf(a[1]).OrPtr(pOf(a[2])))
	case "o.ptr":
		return Show(oOf(a[1]).Ptr())
	// try.go
	case "t.all":
		b := a[2].Atom == "true"
		tOf(a[1]).All()(func(v any) bool { Emit("y:%s", Show(v)); return b })
		return "unit"
	case "t.orZero":
		if a[1].Atom == "int" {
			return Show(tOfInt(a[2]).OrZero())
		}
		return Show(tOf(a[2]).OrZero())
	// either_op.go
	case "either.notRight":
		return Show(either.NotRight[any](elemOf(a[1])))
	case "either.foreach":
		either.Foreach(eOf(a[1]), func(v any) { Emit("fe:%s", Show(v)) })
		return "unit"
	// statet_op.go
	case "st.run":
		fa, fs := F1Of(a[2]), F1Of(a[3])
		return showRes(statet.Run(func(s int) (any, int) {
			v := fa(s)
			ns := AsInt(fs(s))
			return v, ns
		}).Run(a[1].Int()))
	case "st.merge":
		fsa := F1Of(a[3])
		return showRes(statet.Merge(sI(F1Of(a[2])), func(s int) any { return fsa(s) }).Run(a[1].Int()))
	case "st.apTry":
		return showRes(statet.ApTry(stfOf(a[2]), tOf(a[3])).Run(a[1].Int()))
	case "st.apOption":
		return showRes(statet.ApOption(stfOf(a[2]), oOf(a[3])).Run(a[1].Int()))
	}
	return "bad-op"
}

func runCase(op *Sx) string { return Outcome(func() string { return runOp(op) }) }

// ---------------------------------------------------------------------------------- generators

func genElem(r *Rng, allowNil bool) *Sx {
	if allowNil && r.Intn(9) == 0 {
		return A("nil")
	}
	if r.Intn(8) == 0 {
		return I(0)
	}
	return I(r.Range(-4, 12))
}

func genT(r *Rng, allowNil bool) *Sx {
	switch r.Intn(8) {
	case 0, 1:
		return L(A("fail"), I(r.Range(1, 5)))
	case 2:
		if r.Intn(2) == 0 {
			return L(A("zero"))
		}
	}
	return L(A("succ"), genElem(r, allowNil))
}

func genO(r *Rng, allowNil bool) *Sx {
	if r.Intn(3) == 0 {
		return L(A("none"))
	}
	return L(A("some"), genElem(r, allowNil))
}

func genE(r *Rng) *Sx {
	if r.Intn(3) == 0 {
		return L(A("left"), genElem(r, true))
	}
	return L(A("right"), genElem(r, true))
}

func genP(r *Rng, allowNil bool) *Sx {
	if r.Intn(3) == 0 {
		return L(A("nilp"))
	}
	return L(A("ptr"), genElem(r, allowNil))
}

func genTO(r *Rng, allowNil bool) *Sx {
	switch r.Intn(9) {
	case 0, 1, 2:
		return L(A("tnone"))
	case 3:
		return L(A("tfail"), I(r.Range(1, 5)))
	case 4:
		if r.Intn(2) == 0 {
			return L(A("tzero"))
		}
	}
	return L(A("tsome"), genElem(r, allowNil))
}

var seqLenHist = map[string]int{}

func genElems(r *Rng, allowNil bool) []*Sx {
	n := 0
	switch r.Intn(8) {
	case 0:
		n = 0
	case 1:
		n = 1
	case 2:
		n = r.Range(7, 14)
	default:
		n = r.Range(2, 6)
	}
	xs := []*Sx{}
	for i := 0; i < n; i++ {
		xs = append(xs, genElem(r, allowNil))
	}
	return xs
}

func genTS(r *Rng, allowNil bool) *Sx {
	switch r.Intn(12) {
	case 0:
		seqLenHist["failure"]++
		return L(A("tfail"), I(r.Range(1, 5)))
	case 1:
		if r.Intn(2) == 0 {
			seqLenHist["zero-try"]++
			return L(A("tzero"))
		}
	}
	xs := genElems(r, allowNil)
	switch {
	case len(xs) == 0:
		seqLenHist["len0"]++
	case len(xs) == 1:
		seqLenHist["len1"]++
	case len(xs) <= 6:
		seqLenHist["len2-6"]++
	default:
		seqLenHist["len7+"]++
	}
	return L(append([]*Sx{A("tseq")}, xs...)...)
}

func genSup(r *Rng) *Sx {
	id := NewID()
	if r.Intn(5) == 0 {
		return L(A("sup"), I(id), L(A("panic"), I(r.Range(1, 9))))
	}
	return L(A("sup"), I(id), L(A("ret"), I(r.Range(0, 9))))
}

func genFR(r *Rng) *Sx {
	id := NewID()
	switch r.Intn(10) {
	case 0:
		return L(A("frpanic"), I(id), I(r.Range(1, 9)))
	case 1, 2:
		return L(A("frconst"), I(id), I(r.Range(0, 9)))
	case 3, 4:
		return L(A("frforce"), I(id))
	}
	return L(A("frmap"), I(id), I(r.Range(-2, 3)), I(r.Range(-2, 3)))
}

func genOfArg(r *Rng) *Sx {
	switch r.Intn(14) {
	case 0:
		return A("nil")
	case 1:
		return L(A("int"), I(Pick(r, 0, 0, r.Range(-3, 9))))
	case 2:
		return L(A("str"), A(Pick(r, "empty", "a", "nil")))
	case 3:
		return L(A("ptr"), I(r.Range(0, 5)))
	case 4:
		xs := []*Sx{A("slice")}
		for i, n := 0, r.Intn(3); i < n; i++ {
			xs = append(xs, I(r.Range(0, 5)))
		}
		return L(xs...)
	case 5:
		return L(A("map"))
	case 6:
		return L(A("func"))
	case 7:
		return L(A("chan"))
	case 8:
		return L(A("nilptr"))
	case 9:
		return L(A("nilslice"))
	case 10:
		return L(A("nilmap"))
	case 11:
		return L(A("nilfunc"))
	case 12:
		return L(A("nilchan"))
	}
	return A("nil")
}

func genSlice(r *Rng) *Sx {
	if r.Intn(3) == 0 {
		return L(A("nilslice"))
	}
	xs := []*Sx{A("slice")}
	for i, n := 0, Pick(r, 0, 0, 1, 3); i < n; i++ {
		xs = append(xs, I(r.Range(0, 5)))
	}
	return L(xs...)
}

func genSTF(r *Rng) *Sx {
	switch r.Intn(8) {
	case 0:
		return L(A("fpure"), GenF1(r, true))
	case 1, 2:
		return L(A("ffail"), GenF1(r, false), I(r.Range(1, 5)))
	case 3:
		if r.Intn(2) == 0 {
			return L(A("fzero"), GenF1(r, false))
		}
	}
	return L(A("fmods"), GenF1(r, r.Intn(4) == 0), GenF1(r, true))
}

func genStr(r *Rng) *Sx { return A(Pick(r, "empty", "empty", "a", "bc", "0")) }

func genTy(r *Rng) (string, bool) {
	if r.Intn(3) == 0 {
		return "int", false
	}
	return "any", true
}

var ops = []string{"seqT.append", "seqT.concat", "seqT.get", "seqT.isEmpty", "seqT.nonEmpty", "seqT.makeString", "seqT.scan", "seqT.sort",
	"seqT.min", "seqT.max", "optT.orZero", "optT.orPtr", "try.traverseOption", "try.foldRight", "option.constNone", "option.of", "option.ptr",
	"option.string", "option.nonZero.int", "option.nonZero.str", "option.nonZero.any", "option.nonEmptySlice", "option.composePure",
	"option.flatPtr", "option.foldRight", "option.deref", "option.pure0", "option.pure1", "o.all", "o.foreach", "o.unapply", "o.orZero", "o.orPtr",
	"o.ptr", "t.all", "t.orZero", "either.notRight", "either.foreach", "st.run", "st.merge", "st.apTry", "st.apOption"}

// the functions with the richest input space get more of the budget
var weights = map[string]int{"seqT.get": 3, "seqT.scan": 3, "seqT.sort": 2, "seqT.min": 3, "seqT.max": 3, "seqT.concat": 2, "seqT.append": 2,
	"seqT.makeString": 2, "optT.orPtr": 2, "optT.orZero": 2, "try.traverseOption": 3, "try.foldRight": 2, "option.foldRight": 2, "option.of": 2,
	"st.apTry": 4, "st.apOption": 3, "st.run": 2, "st.merge": 2, "o.orPtr": 2}

var weighted []string

func init() {
	for _, o := range ops {
		w := weights[o]
		if w == 0 {
			w = 1
		}
		for i := 0; i < w; i++ {
			weighted = append(weighted, o)
		}
	}
}

func genOp(r *Rng) *Sx {
	ResetIDs()
	n := Pick(r, weighted...)
	switch n {
	case "seqT.append":
		return L(A(n), genTS(r, true), genElem(r, true))
	case "seqT.concat":
		return L(A(n), genTS(r, true), L(genElems(r, true)...))
	case "seqT.get":
		ts := genTS(r, true)
		ln := len(ts.List) - 1
		if ts.Head() != "tseq" {
			ln = 2
		}
		// every position, both boundaries, one beyond, and the negative index
		idx := r.Range(-1, ln+1)
		if r.Intn(4) == 0 {
			idx = Pick(r, 0, ln-1, ln)
		}
		return L(A(n), ts, I(idx))
	case "seqT.isEmpty", "seqT.nonEmpty":
		return L(A(n), genTS(r, true))
	case "seqT.makeString":
		return L(A(n), genTS(r, true), A(Pick(r, "comma", "empty", "dash")))
	case "seqT.scan":
		return L(A(n), genTS(r, true), genElem(r, true), GenF2(r, true))
	case "seqT.sort":
		return L(A(n), genTS(r, false), A(Pick(r, "given", "rev")))
	case "seqT.min", "seqT.max":
		return L(A(n), genTS(r, true), A(Pick(r, "given", "rev", "div4", "div4")))
	case "optT.orZero":
		ty, nilOK := genTy(r)
		return L(A(n), A(ty), genTO(r, nilOK))
	case "optT.orPtr":
		return L(A(n), genTO(r, true), genP(r, true))
	case "try.traverseOption":
		return L(A(n), genO(r, true), GenKT(r, true))
	case "try.foldRight":
		return L(A(n), genT(r, true), genElem(r, true), genFR(r))
	case "option.constNone", "either.notRight":
		return L(A(n), genElem(r, true))
	case "option.of":
		return L(A(n), genOfArg(r))
	case "option.ptr":
		return L(A(n), genP(r, true))
	case "option.string", "option.nonZero.str":
		return L(A(n), genStr(r))
	case "option.nonZero.int":
		return L(A(n), I(Pick(r, 0, 0, r.Range(-3, 9))))
	case "option.nonZero.any":
		return L(A(n), genElem(r, true))
	case "option.nonEmptySlice":
		return L(A(n), genSlice(r))
	case "option.composePure", "option.pure1":
		return L(A(n), GenF1(r, true), genElem(r, true))
	case "option.flatPtr":
		if r.Intn(3) == 0 {
			return L(A(n), L(A("none")))
		}
		return L(A(n), L(A("some"), genP(r, true)))
	case "option.foldRight":
		return L(A(n), genO(r, true), genElem(r, true), genFR(r))
	case "option.deref":
		switch r.Intn(4) {
		case 0:
			return L(A(n), L(A("none")))
		case 1:
			return L(A(n), L(A("some"), L(A("nilcell"))))
		}
		return L(A(n), L(A("some"), L(A("cell"), genElem(r, true))))
	case "option.pure0":
		return L(A(n), genSup(r))
	case "o.all":
		return L(A(n), genO(r, true), A(Pick(r, "true", "false")))
	case "t.all":
		return L(A(n), genT(r, true), A(Pick(r, "true", "false")))
	case "o.foreach", "o.ptr":
		return L(A(n), genO(r, true))
	case "o.unapply", "o.orZero":
		ty, nilOK := genTy(r)
		return L(A(n), A(ty), genO(r, nilOK))
	case "t.orZero":
		ty, nilOK := genTy(r)
		return L(A(n), A(ty), genT(r, nilOK))
	case "o.orPtr":
		return L(A(n), genO(r, true), genP(r, true))
	case "either.foreach":
		return L(A(n), genE(r))
	case "st.run", "st.merge":
		return L(A(n), I(r.Range(-3, 9)), GenF1(r, true), GenF1(r, true))
	case "st.apTry":
		return L(A(n), I(r.Range(-3, 9)), genSTF(r), genT(r, true))
	case "st.apOption":
		return L(A(n), I(r.Range(-3, 9)), genSTF(r), genO(r, true))
	}
	panic("no generator for " + n)
}

var hist = map[string]int{}

// classify an outcome for the histogram
func classify(out string) string {
	switch {
	case strings.HasPrefix(out, "panic(runtime:"):
		return "outcome:runtime-panic"
	case strings.HasPrefix(out, "panic(ErrNotInit"):
		return "outcome:zero-try-panic"
	case strings.HasPrefix(out, "panic("):
		return "outcome:callback-panic"
	case strings.HasPrefix(out, "Failure("), strings.Contains(out, "Failure(") && strings.Contains(out, " @"):
		return "outcome:failure"
	}
	return "outcome:value"
}

func main() {
	seed := flag.Uint64("seed", 1, "PRNG seed")
	n := flag.Int("n", 4000, "number of generated cases")
	out := flag.String("out", ".", "output directory")
	replay := flag.String("replay", "", "run one op line")
	opsFile := flag.String("ops", "", "run the op lines of this file")
	flag.StringVar(&prop, "prop", "all", "which property's direct checks to run (C01 | C02 | C10 | C17 | all)")
	only := flag.String("only", "", "comma separated prefixes of the operations to generate (default: all), e.g. 'st.' or 'seqT.sort,seqT.min,seqT.max'")
	flag.Parse()
	if *only != "" {
		keep := []string{}
		for _, o := range weighted {
			for _, p := range strings.Split(*only, ",") {
				if strings.HasPrefix(o, p) {
					keep = append(keep, o)
					break
				}
			}
		}
		if len(keep) == 0 {
			fmt.Fprintln(os.Stderr, "-only selects no operation")
			os.Exit(2)
		}
		weighted = keep
	}
	if *replay != "" {
		if strings.HasPrefix(*replay, "(law ") {
			os.Exit(replayLaw(*replay))
		}
		op, err := Parse(*replay)
		if err != nil {
			fmt.Println("bad-op")
			os.Exit(2)
		}
		fmt.Println(runCase(op))
		return
	}
	r := NewRng(*seed)
	sink := NewSink(*out)
	if *opsFile != "" {
		for _, line := range ReadLines(*opsFile) {
			if op, err := Parse(line); err == nil {
				sink.Case(line, func() string { return runCase(op) })
			}
		}
		sink.Close()
		fmt.Printf("{\"cases\": %d}\n", sink.N)
		return
	}
	for i := 0; i < *n; i++ {
		op := genOp(r)
		hist[op.Head()]++
		sink.Case(op.String(), func() string {
			o := runCase(op)
			hist[classify(o)]++
			return o
		})
	}
	nd := direct(r, sink, *n/8+20)
	sink.Close()
	for k, v := range seqLenHist {
		hist["seq:"+k] = v
	}
	keys := []string{}
	for k := range hist {
		keys = append(keys, k)
	}
	sort.Strings(keys)
	parts := []string{}
	for _, k := range keys {
		parts = append(parts, fmt.Sprintf("%q: %d", k, hist[k]))
	}
	fmt.Printf("{\"cases\": %d, \"direct_checks\": %d, \"direct_failures\": %d, \"histogram\": {%s}}\n", sink.N, nd, sink.DirectFailures, strings.Join(parts, ", "))
}
