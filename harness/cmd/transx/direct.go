// Direct (model-free) evaluation of the property statements on the implementation.
//
//	C01  transformer law        XSeqT(t, args) == try.Map(t, s => s.X(args))   (value, callback log, panic)
//	C01  definition             every hand-written function == its reference meaning computed with plain Go
//	C02  short circuit          on a Failure / None / Left no callback runs and the very error value comes back;
//	                            on a Success the callback runs exactly once; Or*/OrZero/OrPtr leave successes untouched
//	C10  Sort/Min/Max           SortSeqT: ordered permutation; MinSeqT/MaxSeqT: least/greatest member, None iff empty
//	C17  state threading        ApTry/ApOption == FlatMap(st, f => FromTry(try.Map(a, f))); Merge == ModifyS; Run
//
// A failure is recorded as key <function>/<law>, input = the op line (replay with -replay '<op line>').
package main

import (
	"fmt"
	"strings"

	"github.com/csgura/fp"
	"github.com/csgura/fp/lazy"
	"github.com/csgura/fp/option"
	"github.com/csgura/fp/statet"
	"github.com/csgura/fp/try"
	. "verifharness/common"
)

var prop = "all"

func want(p string) bool { return prop == "all" || prop == p }

type dfail struct{ law, what string }

// count the callback invocations logged with one of the prefixes (f<id>:, g<id>:, k<id>:, fr<id>:, ...)
func logged(log []string, prefixes ...string) int {
	n := 0
	for _, e := range log {
		for _, p := range prefixes {
			if strings.HasPrefix(e, p) && len(e) > len(p) && e[len(p)] >= '0' && e[len(p)] <= '9' {
				n++
				break
			}
		}
	}
	return n
}

func snapshot() []string { return append([]string(nil), Log...) }

// the right-hand side of the transformer law, written with try.Map and the inner function
func viaMap(op *Sx) (string, bool) {
	a := op.List
	switch op.Head() {
	case "seqT.append":
		x := elemOf(a[2])
		return Show(try.Map(tsOf(a[1]), func(s fp.Seq[any]) fp.Seq[any] { return s.Append(x) })), true
	case "seqT.concat":
		tl := seqOf(a[2].List)
		return Show(try.Map(tsOf(a[1]), func(s fp.Seq[any]) fp.Seq[any] { return s.Concat(tl) })), true
	case "seqT.get":
		i := a[2].Int()
		return Show(try.Map(tsOf(a[1]), func(s fp.Seq[any]) fp.Option[any] { return s.Get(i) })), true
	case "seqT.isEmpty":
		return Show(try.Map(tsOf(a[1]), fp.Seq[any].IsEmpty)), true
	case "seqT.nonEmpty":
		return Show(try.Map(tsOf(a[1]), fp.Seq[any].NonEmpty)), true
	case "seqT.makeString":
		sep := sepOf(a[2])
		return Show(try.Map(tsOf(a[1]), func(s fp.Seq[any]) string { return s.MakeString(sep) })), true
	case "optT.orZero":
		if a[1].Atom == "int" {
			return Show(try.Map(toOfInt(a[2]), fp.Option[int].OrZero)), true
		}
		return Show(try.Map(toOf(a[2]), fp.Option[any].OrZero)), true
	case "optT.orPtr":
		p := pOf(a[2])
		return Show(try.Map(toOf(a[1]), func(o fp.Option[any]) fp.Option[any] { return o.OrPtr(p) })), true
	}
	return "", false
}

// plain-Go reference meaning of an operation (nothing of the library under test is called, except the
// constructors/observers of fp.Try / fp.Option used to read operands).  ok=false: no reference (the property
// does not fix the outcome, e.g. a negative index or the zero-value Try).
func reference(op *Sx) (res string, ok bool) {
	a := op.List
	h := op.Head()
	if strings.HasPrefix(h, "seqT.") {
		t := tsOf(a[1])
		if !t.IsSuccess() {
			if a[1].Head() == "tzero" {
				return "", false
			}
			return "Failure(" + ShowErr(t.Failed().Get()) + ")", true
		}
		s := []any(t.Get())
		switch h {
		case "seqT.append":
			return "Success(" + Show(append(append([]any{}, s...), elemOf(a[2]))) + ")", true
		case "seqT.concat":
			return "Success(" + Show(append(append([]any{}, s...), seqOf(a[2].List)...)) + ")", true
		case "seqT.get":
			i := a[2].Int()
			switch {
			case i < 0:
				return "", false
			case i < len(s):
				return "Success(Some(" + Show(s[i]) + "))", true
			}
			return "Success(None)", true
		case "seqT.isEmpty":
			return "Success(" + Show(len(s) == 0) + ")", true
		case "seqT.nonEmpty":
			return "Success(" + Show(len(s) != 0) + ")", true
		case "seqT.makeString":
			parts := []string{}
			for _, v := range s {
				parts = append(parts, fmt.Sprint(v))
			}
			return "Success(" + Show(strings.Join(parts, sepOf(a[2]))) + ")", true
		case "seqT.scan":
			f := F2Of(a[3])
			acc := elemOf(a[2])
			out := []any{acc}
			for _, v := range s {
				acc = f(acc, v)
				out = append(out, acc)
			}
			return "Success(" + Show(out) + ")", true
		}
		return "", false
	}
	switch h {
	case "optT.orZero":
		var zero any
		t := toOf(a[2])
		if a[1].Atom == "int" {
			zero = 0
		}
		if !t.IsSuccess() {
			if a[2].Head() == "tzero" {
				return "", false
			}
			return "Failure(" + ShowErr(t.Failed().Get()) + ")", true
		}
		if t.Get().IsDefined() {
			return "Success(" + Show(t.Get().Get()) + ")", true
		}
		return "Success(" + Show(zero) + ")", true
	case "optT.orPtr":
		t := toOf(a[1])
		if !t.IsSuccess() {
			if a[1].Head() == "tzero" {
				return "", false
			}
			return "Failure(" + ShowErr(t.Failed().Get()) + ")", true
		}
		if t.Get().IsDefined() {
			return "Success(Some(" + Show(t.Get().Get()) + "))", true
		}
		if p := pOf(a[2]); p != nil {
			return "Success(Some(" + Show(*p) + "))", true
		}
		return "Success(None)", true
	case "try.traverseOption":
		if a[1].Head() == "none" {
			return "Success(None)", true
		}
		r := KTOf(a[2])(elemOf(a[1].List[1]))
		if r.IsSuccess() {
			return "Success(Some(" + Show(r.Get()) + "))", true
		}
		return "Failure(" + ShowErr(r.Failed().Get()) + ")", true
	case "option.constNone":
		return "None", true
	case "option.of":
		_, shown := ofArgOf(a[1])
		return showOpt(!strings.HasPrefix(shown, "nil"), shown), true
	case "option.ptr":
		if p := pOf(a[1]); p != nil {
			return "Some(" + Show(*p) + ")", true
		}
		return "None", true
	case "option.string", "option.nonZero.str":
		if s := strOf(a[1]); s != "" {
			return "Some(" + Show(s) + ")", true
		}
		return "None", true
	case "option.nonZero.int":
		if a[1].Int() != 0 {
			return "Some(" + Show(a[1].Int()) + ")", true
		}
		return "None", true
	case "option.nonZero.any":
		if v := elemOf(a[1]); v != nil {
			return "Some(" + Show(v) + ")", true
		}
		return "None", true
	case "option.nonEmptySlice":
		s := sliceOf(a[1])
		switch {
		case s == nil:
			return "None", true
		case len(s) > 0:
			return "Some(" + Show(s) + ")", true
		}
		return "", false // empty but not nil: the code says Some, the name says None; no property fixes it
	case "option.composePure", "option.pure1":
		return "Some(" + Show(F1Of(a[1])(elemOf(a[2]))) + ")", true
	case "option.pure0":
		return "Some(" + Show(sup(a[1])()) + ")", true
	case "option.flatPtr":
		if a[1].Head() == "some" {
			if p := pOf(a[1].List[1]); p != nil {
				return "Some(" + Show(*p) + ")", true
			}
		}
		return "None", true
	case "option.deref":
		if a[1].Head() == "none" {
			return "None", true
		}
		if c := a[1].List[1]; c.Head() == "cell" {
			return "Some(" + Show(elemOf(c.List[1])) + ")", true
		}
		return "", false
	case "o.unapply":
		o := a[2]
		if o.Head() == "some" {
			return "(" + Show(elemOf(o.List[1])) + ",true)", true
		}
		if a[1].Atom == "int" {
			return "(0,false)", true
		}
		return "(nil,false)", true
	case "o.orZero":
		o := a[2]
		if o.Head() == "some" {
			return Show(elemOf(o.List[1])), true
		}
		if a[1].Atom == "int" {
			return "0", true
		}
		return "nil", true
	case "t.orZero":
		t := a[2]
		if t.Head() == "succ" {
			return Show(elemOf(t.List[1])), true
		}
		if a[1].Atom == "int" {
			return "0", true
		}
		return "nil", true
	case "o.orPtr":
		if a[1].Head() == "some" {
			return "Some(" + Show(elemOf(a[1].List[1])) + ")", true
		}
		if p := pOf(a[2]); p != nil {
			return "Some(" + Show(*p) + ")", true
		}
		return "None", true
	case "o.ptr":
		if a[1].Head() == "some" {
			return "&" + Show(elemOf(a[1].List[1])), true
		}
		return "nil", true
	case "either.notRight":
		return "Left(" + Show(elemOf(a[1])) + ")", true
	case "st.run":
		s0 := a[1].Int()
		v := F1Of(a[2])(s0)
		ns := AsInt(F1Of(a[3])(s0))
		return fmt.Sprintf("Success(%s) @%d", Show(v), ns), true
	case "st.merge":
		s0 := a[1].Int()
		v := F1Of(a[3])(s0)
		ns := AsInt(F1Of(a[2])(s0))
		return fmt.Sprintf("Success(%s) @%d", Show(v), ns), true
	}
	return "", false
}

// how often the user callback must have run, when the property fixes it (-1: not fixed)
func expectedCalls(op *Sx) (prefixes []string, n int) {
	a := op.List
	switch op.Head() {
	case "seqT.scan":
		t := tsOf(a[1])
		if a[1].Head() == "tzero" {
			return []string{"g"}, 0
		}
		if !t.IsSuccess() {
			return []string{"g"}, 0
		}
		return nil, -1
	case "try.traverseOption":
		if a[1].Head() == "none" {
			return []string{"k"}, 0
		}
		return []string{"k"}, 1
	case "try.foldRight":
		if a[1].Head() != "succ" {
			return []string{"fr"}, 0
		}
		return []string{"fr"}, 1
	case "option.foldRight":
		if a[1].Head() != "some" {
			return []string{"fr"}, 0
		}
		return []string{"fr"}, 1
	case "option.composePure", "option.pure1":
		return []string{"f"}, 1
	case "option.pure0":
		return []string{"s"}, 1
	case "st.apTry", "st.apOption":
		// the carried function is the LAST F1 of the STF operand; it may run only when both sides succeeded
		stf := a[2]
		fid := stf.List[len(stf.List)-1]
		if stf.Head() == "ffail" || stf.Head() == "fzero" {
			return nil, -1
		}
		if stf.Head() == "fmods" && strings.HasPrefix(stf.List[1].Head(), "fpanic") {
			return nil, -1 // the state function of the function side may panic before anything is applied
		}
		argOK := a[3].Head() == "succ" || a[3].Head() == "some"
		p := fmt.Sprintf("f%d:", fid.List[1].Int())
		if argOK {
			return []string{"=" + p}, 1
		}
		return []string{"=" + p}, 0
	}
	return nil, -1
}

func countExact(log []string, prefix string) int {
	n := 0
	for _, e := range log {
		if strings.HasPrefix(e, prefix) {
			n++
		}
	}
	return n
}

func splitOutcome(o string) (val, log string) {
	i := strings.LastIndex(o, " | ")
	if i < 0 {
		return o, ""
	}
	return o[:i], o[i+3:]
}

// directOp evaluates every law that applies to one generated operation.
func directOp(op *Sx) (checks int, fails []dfail) {
	h := op.Head()
	a := op.List
	impl := runCase(op)
	implLog := snapshot()
	implVal, _ := splitOutcome(impl)
	fail := func(law, what string) { fails = append(fails, dfail{law, what}) }

	// C01: transformer law
	if want("C01") && (strings.HasPrefix(h, "seqT.") || strings.HasPrefix(h, "optT.")) && h != "seqT.sort" && h != "seqT.min" && h != "seqT.max" {
		rhs := Outcome(func() string {
			if h == "seqT.scan" {
				z, f := elemOf(a[2]), F2Of(a[3])
				return Show(try.Map(tsOf(a[1]), func(s fp.Seq[any]) fp.Seq[any] { return seqScanRef(s, z, f) }))
			}
			r, _ := viaMap(op)
			return r
		})
		checks++
		if rhs != impl {
			fail("transformer-law", fmt.Sprintf("XT(t,args) gave %q but try.Map(t, s => s.X(args)) gave %q", impl, rhs))
		}
	}

	// C01: reference meaning (value); C02: error identity on failure is part of the rendered value
	if want("C01") || want("C02") || want("C17") {
		ref := ""
		has := false
		refOut := Outcome(func() string {
			r, ok := reference(op)
			ref, has = r, ok
			return r
		})
		_ = ref
		if has {
			checks++
			refVal, _ := splitOutcome(refOut)
			if strings.HasPrefix(refVal, "panic(") {
				// the callback itself panicked in the reference run: the implementation must propagate that very panic
				if implVal != refVal {
					fail("definition", fmt.Sprintf("got %q, the callback's own panic %q was expected to propagate", implVal, refVal))
				}
			} else if implVal != refVal {
				fail("definition", fmt.Sprintf("got %q, expected %q", implVal, refVal))
			}
		}
	}

	// C02: callback counts
	if want("C02") || want("C17") {
		if pre, n := expectedCalls(op); n >= 0 {
			checks++
			got := 0
			if len(pre) == 1 && strings.HasPrefix(pre[0], "=") {
				got = countExact(implLog, pre[0][1:])
			} else {
				got = logged(implLog, pre...)
			}
			if got != n {
				fail("callback-count", fmt.Sprintf("user callback ran %d time(s), expected %d; outcome %q", got, n, impl))
			}
		}
	}

	switch h {
	case "seqT.sort", "seqT.min", "seqT.max":
		if want("C10") {
			c, f := directOrd(op, implVal)
			checks += c
			fails = append(fails, f...)
		}
	case "try.foldRight", "option.foldRight":
		if want("C01") || want("C02") {
			c, f := directFoldRight(op)
			checks += c
			fails = append(fails, f...)
		}
	case "st.apTry", "st.apOption", "st.merge":
		if want("C17") {
			c, f := directState(op, impl)
			checks += c
			fails = append(fails, f...)
		}
	case "o.all", "t.all", "o.foreach", "either.foreach":
		if want("C01") {
			// iterator over 0/1 elements: the callback sees exactly the elements of ToSeq, in order
			checks++
			wantLog := ""
			tag := "y:"
			if strings.HasSuffix(h, "foreach") {
				tag = "fe:"
			}
			switch {
			case a[1].Head() == "some" || a[1].Head() == "succ" || a[1].Head() == "right":
				wantLog = tag + Show(elemOf(a[1].List[1]))
			}
			if got := strings.Join(implLog, ","); got != wantLog || implVal != "unit" {
				fail("elements", fmt.Sprintf("callback log %q, expected %q (outcome %q)", got, wantLog, impl))
			}
		}
	}
	return
}

func seqScanRef(s fp.Seq[any], z any, f func(any, any) any) fp.Seq[any] {
	out := fp.Seq[any]{z}
	acc := z
	for _, v := range s {
		acc = f(acc, v)
		out = append(out, acc)
	}
	return out
}

// C10 on the transformer: SortSeqT is an ordered permutation, MinSeqT/MaxSeqT a least/greatest member
func directOrd(op *Sx, implVal string) (checks int, fails []dfail) {
	a := op.List
	t := tsOf(a[1])
	if a[1].Head() == "tzero" {
		return
	}
	o := ordOf(a[2])
	fail := func(law, what string) { fails = append(fails, dfail{law, what}) }
	if !t.IsSuccess() {
		checks++
		if implVal != "Failure("+ShowErr(t.Failed().Get())+")" {
			fail("failure-untouched", "got "+implVal)
		}
		return
	}
	in := t.Get()
	before := Show(in)
	switch op.Head() {
	case "seqT.sort":
		r := try.SortSeqT(t, o)
		checks += 3
		if !r.IsSuccess() {
			fail("sort", "not a success: "+Show(r))
			return
		}
		out := r.Get()
		for i := 1; i < len(out); i++ {
			if o.Less(out[i], out[i-1]) {
				fail("sort-ordered", fmt.Sprintf("result %s: element %d is Less than its predecessor", Show(out), i))
				break
			}
		}
		cnt := map[string]int{}
		for _, v := range in {
			cnt[Show(v)]++
		}
		for _, v := range out {
			cnt[Show(v)]--
		}
		for k, c := range cnt {
			if c != 0 {
				fail("sort-permutation", fmt.Sprintf("result %s is not a permutation of %s (element %s)", Show(out), before, k))
				break
			}
		}
		if Show(in) != before {
			fail("sort-input-untouched", fmt.Sprintf("the input Seq changed from %s to %s", before, Show(in)))
		}
	case "seqT.min", "seqT.max":
		isMin := op.Head() == "seqT.min"
		var r fp.Try[fp.Option[any]]
		if isMin {
			r = try.MinSeqT(t, o)
		} else {
			r = try.MaxSeqT(t, o)
		}
		checks += 2
		if !r.IsSuccess() {
			fail("minmax", "not a success: "+Show(r))
			return
		}
		m := r.Get()
		if len(in) == 0 {
			if m.IsDefined() {
				fail("minmax-empty", "empty input gave "+Show(m))
			}
			return
		}
		if m.IsEmpty() {
			fail("minmax-nonempty", fmt.Sprintf("None for the non-empty input %s", before))
			return
		}
		member := false
		for _, v := range in {
			if Show(v) == Show(m.Get()) {
				member = true
			}
		}
		for _, v := range in {
			if isMin && o.Less(v, m.Get()) {
				fail("min-least", fmt.Sprintf("input %s: %s is Less than the returned %s", before, Show(v), Show(m.Get())))
				break
			}
			if !isMin && o.Less(m.Get(), v) {
				fail("max-greatest", fmt.Sprintf("input %s: the returned %s is Less than %s", before, Show(m.Get()), Show(v)))
				break
			}
		}
		if !member {
			fail("minmax-member", fmt.Sprintf("%s is not an element of %s", Show(m.Get()), before))
		}
	}
	return
}

// FoldRight over a 0/1-element structure: empty -> Done(zero) and f never runs; otherwise f is called (eagerly,
// once) with the element and an accumulator that evaluates to zero, and FoldRight returns what f returned.
func directFoldRight(op *Sx) (checks int, fails []dfail) {
	a := op.List
	zero := elemOf(a[2])
	fail := func(law, what string) { fails = append(fails, dfail{law, what}) }
	calls := 0
	var seenX, seenAcc any
	marker := fp.Tuple2[any, any]{I1: "marker", I2: 7}
	f := func(x any, acc lazy.Eval[any]) lazy.Eval[any] {
		calls++
		seenX = x
		seenAcc = acc.Get()
		return lazy.Done[any](marker)
	}
	var res lazy.Eval[any]
	defined := false
	var elem any
	if op.Head() == "try.foldRight" {
		t := tOf(a[1])
		if a[1].Head() == "succ" {
			defined, elem = true, elemOf(a[1].List[1])
		}
		res = try.FoldRight(t, zero, f)
	} else {
		o := oOf(a[1])
		if a[1].Head() == "some" {
			defined, elem = true, elemOf(a[1].List[1])
		}
		res = option.FoldRight(o, zero, f)
	}
	checks++
	eager := calls
	got := res.Get()
	if defined {
		if eager != 1 || calls != 1 || Show(seenX) != Show(elem) || Show(seenAcc) != Show(zero) || Show(got) != Show(marker) {
			fail("fold-right", fmt.Sprintf("f ran %d time(s) before Get (%d in all) with (%s, acc=%s); result %s; expected one call with (%s, acc=%s) and f's own result",
				eager, calls, Show(seenX), Show(seenAcc), Show(got), Show(elem), Show(zero)))
		}
	} else if calls != 0 || Show(got) != Show(zero) {
		fail("fold-right-empty", fmt.Sprintf("f ran %d time(s), result %s; expected no call and the zero %s", calls, Show(got), Show(zero)))
	}
	return
}

// C17: ApTry / ApOption through FlatMap + FromTry + try.Map; Merge through ModifyS; the state is the function side's
func directState(op *Sx, impl string) (checks int, fails []dfail) {
	a := op.List
	s0 := a[1].Int()
	fail := func(law, what string) { fails = append(fails, dfail{law, what}) }
	switch op.Head() {
	case "st.merge":
		checks++
		fsa := F1Of(a[3])
		rhs := Outcome(func() string {
			return showRes(statet.ModifyS(sI(F1Of(a[2])), func(s int) any { return fsa(s) }).Run(s0))
		})
		if rhs != impl {
			fail("merge-is-modifyS", fmt.Sprintf("Merge gave %q, ModifyS gave %q", impl, rhs))
		}
	case "st.apTry", "st.apOption":
		var arg fp.Try[any]
		if op.Head() == "st.apTry" {
			arg = tOf(a[3])
		} else {
			arg = try.FromOption(oOf(a[3]))
		}
		checks++
		rhs := Outcome(func() string {
			return showRes(statet.FlatMap(stfOf(a[2]), func(f fp.Func1[any, any]) fp.StateT[int, any] {
				return statet.FromTry[int](try.Map(arg, f))
			}).Run(s0))
		})
		if rhs != impl {
			fail("ap-definition", fmt.Sprintf("got %q, FlatMap(st, f => FromTry(try.Map(a, f))) gave %q", impl, rhs))
		}
		// the reported state is the state the function side leaves, whatever the argument is
		var ns int
		var ft fp.Try[fp.Func1[any, any]]
		stOut := Outcome(func() string {
			ft, ns = stfOf(a[2]).Run(s0)
			return ""
		})
		implVal, _ := splitOutcome(impl)
		if !strings.HasPrefix(stOut, "panic(") && !strings.HasPrefix(implVal, "panic(") {
			checks++
			if !strings.HasSuffix(implVal, fmt.Sprintf(" @%d", ns)) {
				fail("state-of-function-side", fmt.Sprintf("got %q, the function side leaves state %d", implVal, ns))
			}
			if !ft.IsSuccess() && a[2].Head() == "ffail" {
				checks++
				if exp := fmt.Sprintf("Failure(%s) @%d", ShowErr(ft.Failed().Get()), ns); implVal != exp {
					fail("function-side-failure-first", fmt.Sprintf("got %q, expected %q", implVal, exp))
				}
			} else if ft.IsSuccess() && !arg.IsSuccess() && a[3].Head() != "zero" {
				checks++
				if exp := fmt.Sprintf("Failure(%s) @%d", ShowErr(arg.Failed().Get()), ns); implVal != exp {
					fail("argument-failure", fmt.Sprintf("got %q, expected %q", implVal, exp))
				}
			}
		}
	}
	return
}

func direct(r *Rng, sink *Sink, n int) int {
	checks := 0
	for i := 0; i < n; i++ {
		op := genOp(r)
		func() {
			// a law evaluation that panics outside any callback is itself a finding, not a crash of the harness
			defer func() {
				if p := recover(); p != nil {
					sink.DirectFail(op.Head()+"/law-evaluation-panicked", op.String(), "panic("+ShowPanic(p)+")")
				}
			}()
			c, fails := directOp(op)
			checks += c
			for _, f := range fails {
				sink.DirectFail(op.Head()+"/"+f.law, op.String(), f.what)
			}
		}()
	}
	return checks
}

// -replay '(law <op line>)' re-evaluates the direct laws on one op
func replayLaw(src string) int {
	sx, err := Parse(src)
	if err != nil || len(sx.List) != 2 {
		fmt.Println("bad-op")
		return 2
	}
	_, fails := directOp(sx.List[1])
	for _, f := range fails {
		fmt.Printf("%s\t%s\n", f.law, f.what)
	}
	if len(fails) > 0 {
		return 1
	}
	fmt.Println("ok")
	return 0
}
