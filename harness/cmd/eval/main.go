// Correspondence + direct harness for lazy.Eval (C16; monad laws of Eval for C01).
package main

import (
	"flag"
	"fmt"
	"os"
	"runtime"
	"runtime/debug"
	"strings"
	"sync"
	"sync/atomic"
	"time"

	"github.com/csgura/fp"
	"github.com/csgura/fp/iterator"
	"github.com/csgura/fp/lazy"
	"github.com/csgura/fp/list"
	"github.com/csgura/fp/seq"
	. "verifharness/common"
)

type Ev = lazy.Eval[int]

func f1(s *Sx) func(int) int {
	id, a, b := s.List[1].Int(), s.List[2].Int(), s.List[3].Int()
	return func(x int) int { Emit("f%d:%d", id, x); return a*x + b }
}
func f2(s *Sx) func(int, int) int {
	id, a, b := s.List[1].Int(), s.List[2].Int(), s.List[3].Int()
	return func(x, y int) int { Emit("g%d:%d,%d", id, x, y); return a*x + b*y }
}

func keOf(s *Sx) func(int) Ev {
	id := s.List[1].Int()
	switch s.Head() {
	case "kdone":
		a, b := s.List[2].Int(), s.List[3].Int()
		return func(v int) Ev { Emit("ke%d:%d", id, v); return lazy.Done(a*v + b) }
	case "kcall":
		return func(v int) Ev {
			Emit("ke%d:%d", id, v)
			return lazy.Call(func() int { Emit("kc%d", id); return v + 1 })
		}
	case "ktail":
		a := s.List[2].Int()
		return func(v int) Ev {
			Emit("ke%d:%d", id, v)
			return lazy.TailCall(func() Ev { Emit("kt%d", id); return lazy.Done(v + a) })
		}
	case "kconst":
		e := s.List[2]
		return func(v int) Ev { Emit("ke%d:%d", id, v); return evOf(e) }
	}
	panic("bad KE")
}

func tailLoop(n, acc int) Ev {
	if n == 0 {
		return lazy.Done(acc)
	}
	return lazy.TailCall(func() Ev { return tailLoop(n-1, acc+1) })
}

func evOf(s *Sx) Ev {
	a := s.List
	switch s.Head() {
	case "done":
		return lazy.Done(a[1].Int())
	case "zero":
		return Ev{}
	case "call":
		id, n := a[1].Int(), a[2].Int()
		return lazy.Call(func() int { Emit("c%d", id); return n })
	case "tailCall":
		id, e := a[1].Int(), a[2]
		return lazy.TailCall(func() Ev { Emit("t%d", id); return evOf(e) })
	case "tailCallN":
		id := a[1].Int()
		xs := []int{}
		for _, x := range a[2:] {
			xs = append(xs, x.Int())
		}
		body := func(args ...int) Ev {
			parts := make([]string, len(args))
			t := 0
			for i, x := range args {
				parts[i] = fmt.Sprint(x)
				t += (i + 1) * x
			}
			Emit("t%d:%s", id, strings.Join(parts, ","))
			return lazy.Done(t)
		}
		switch len(xs) {
		case 1:
			return lazy.TailCall1(func(a1 int) Ev { return body(a1) }, xs[0])
		case 2:
			return lazy.TailCall2(func(a1, a2 int) Ev { return body(a1, a2) }, xs[0], xs[1])
		case 3:
			return lazy.TailCall3(func(a1, a2, a3 int) Ev { return body(a1, a2, a3) }, xs[0], xs[1], xs[2])
		case 4:
			return lazy.TailCall4(func(a1, a2, a3, a4 int) Ev { return body(a1, a2, a3, a4) }, xs[0], xs[1], xs[2], xs[3])
		case 5:
			return lazy.TailCall5(func(a1, a2, a3, a4, a5 int) Ev { return body(a1, a2, a3, a4, a5) }, xs[0], xs[1], xs[2], xs[3], xs[4])
		case 6:
			return lazy.TailCall6(func(a1, a2, a3, a4, a5, a6 int) Ev { return body(a1, a2, a3, a4, a5, a6) }, xs[0], xs[1], xs[2], xs[3], xs[4], xs[5])
		case 7:
			return lazy.TailCall7(func(a1, a2, a3, a4, a5, a6, a7 int) Ev { return body(a1, a2, a3, a4, a5, a6, a7) }, xs[0], xs[1], xs[2], xs[3], xs[4], xs[5], xs[6])
		case 8:
			return lazy.TailCall8(func(a1, a2, a3, a4, a5, a6, a7, a8 int) Ev { return body(a1, a2, a3, a4, a5, a6, a7, a8) }, xs[0], xs[1], xs[2], xs[3], xs[4], xs[5], xs[6], xs[7])
		case 9:
			return lazy.TailCall9(func(a1, a2, a3, a4, a5, a6, a7, a8, a9 int) Ev { return body(a1, a2, a3, a4, a5, a6, a7, a8, a9) }, xs[0], xs[1], xs[2], xs[3], xs[4], xs[5], xs[6], xs[7], xs[8])
		}
		panic("bad arity")
	case "tailCall2":
		id := a[1].Int()
		return lazy.TailCall2(func(x, y int) Ev { Emit("t%d:%d,%d", id, x, y); return lazy.Done(x - y) }, a[2].Int(), a[3].Int())
	case "tailCall3":
		id := a[1].Int()
		return lazy.TailCall3(func(x, y, z int) Ev { Emit("t%d:%d,%d,%d", id, x, y, z); return lazy.Done(x - y + 2*z) }, a[2].Int(), a[3].Int(), a[4].Int())
	case "map":
		return evOf(a[1]).Map(f1(a[2]))
	case "pmap":
		return lazy.Map(evOf(a[1]), f1(a[2]))
	case "flatMap":
		return evOf(a[1]).FlatMap(keOf(a[2]))
	case "pflatMap":
		return lazy.FlatMap(evOf(a[1]), keOf(a[2]))
	case "map2":
		return lazy.Map2(evOf(a[1]), evOf(a[2]), f2(a[3]))
	case "tailLoop":
		return tailLoop(a[1].Int(), a[2].Int())
	}
	panic("bad E " + s.String())
}

// strict evaluation of the same program: no Eval involved (direct check of faithfulness)
func strict(s *Sx) int {
	a := s.List
	switch s.Head() {
	case "done":
		return a[1].Int()
	case "zero":
		return 0
	case "call":
		Emit("c%d", a[1].Int())
		return a[2].Int()
	case "tailCall":
		Emit("t%d", a[1].Int())
		return strict(a[2])
	case "tailCallN":
		parts := []string{}
		t := 0
		for i, x := range a[2:] {
			parts = append(parts, fmt.Sprint(x.Int()))
			t += (i + 1) * x.Int()
		}
		Emit("t%d:%s", a[1].Int(), strings.Join(parts, ","))
		return t
	case "tailCall2":
		Emit("t%d:%d,%d", a[1].Int(), a[2].Int(), a[3].Int())
		return a[2].Int() - a[3].Int()
	case "tailCall3":
		Emit("t%d:%d,%d,%d", a[1].Int(), a[2].Int(), a[3].Int(), a[4].Int())
		return a[2].Int() - a[3].Int() + 2*a[4].Int()
	case "map", "pmap":
		return f1(a[2])(strict(a[1]))
	case "flatMap", "pflatMap":
		v := strict(a[1])
		k := a[2]
		id := k.List[1].Int()
		Emit("ke%d:%d", id, v)
		switch k.Head() {
		case "kdone":
			return k.List[2].Int()*v + k.List[3].Int()
		case "kcall":
			Emit("kc%d", id)
			return v + 1
		case "ktail":
			Emit("kt%d", id)
			return v + k.List[2].Int()
		default:
			return strict(k.List[2])
		}
	case "map2":
		x := strict(a[1])
		y := strict(a[2])
		return f2(a[3])(x, y)
	case "tailLoop":
		return a[1].Int() + a[2].Int()
	}
	panic("bad E")
}

func genKE(r *Rng, d int) *Sx {
	id := NewID()
	switch r.Intn(5) {
	case 0:
		return L(A("kcall"), I(id))
	case 1:
		return L(A("ktail"), I(id), I(r.Range(-3, 5)))
	case 2:
		return L(A("kconst"), I(id), genE(r, d-1))
	}
	return L(A("kdone"), I(id), I(r.Range(-2, 3)), I(r.Range(-3, 5)))
}

func genE(r *Rng, d int) *Sx {
	if d <= 0 || r.Intn(4) == 0 {
		switch r.Intn(8) {
		case 0:
			return L(A("zero"))
		case 1, 2:
			return L(A("call"), I(NewID()), I(r.Range(-5, 9)))
		case 3:
			return L(A("tailCall2"), I(NewID()), I(r.Range(-5, 9)), I(r.Range(-5, 9)))
		case 4:
			return L(A("tailCall3"), I(NewID()), I(r.Range(-5, 9)), I(r.Range(-5, 9)), I(r.Range(-5, 9)))
		case 5:
			if r.Bool() {
				xs := []*Sx{A("tailCallN"), I(NewID())}
				for i, n := 0, r.Range(1, 9); i < n; i++ {
					xs = append(xs, I(r.Range(-5, 9)))
				}
				return L(xs...)
			}
			return L(A("tailLoop"), I(r.Range(0, 40)), I(r.Range(-5, 9)))
		}
		return L(A("done"), I(r.Range(-5, 9)))
	}
	lin := func() *Sx { return L(A("lin"), I(NewID()), I(r.Range(-2, 3)), I(r.Range(-3, 5))) }
	switch r.Intn(9) {
	case 0, 1:
		return L(A(Pick(r, "map", "pmap")), genE(r, d-1), lin())
	case 2, 3, 4:
		return L(A(Pick(r, "flatMap", "pflatMap")), genE(r, d-1), genKE(r, d))
	case 5, 6:
		return L(A("map2"), genE(r, d-1), genE(r, d-1), lin())
	}
	return L(A("tailCall"), I(NewID()), genE(r, d-1))
}

func runCase(op *Sx) string {
	return Outcome(func() string {
		switch op.Head() {
		case "run":
			return Show(lazy.Run(evOf(op.List[1])))
		case "get":
			return Show(evOf(op.List[1]).Get())
		}
		return "bad-op"
	})
}

var depthProbe []int
var outDir string

func callDepth() int {
	pcs := make([]uintptr, 4096)
	return runtime.Callers(0, pcs)
}

// deepLoopN: the canonical tail-recursive loop written with TailCall<arity> (0 = plain TailCall)
func deepLoopN(arity, n, acc int) Ev {
	if n%1000 == 7 {
		depthProbe = append(depthProbe, callDepth())
	}
	if n == 0 {
		return lazy.Done(acc)
	}
	next := func(a int) Ev { return deepLoopN(arity, n-1, a) }
	switch arity {
	case 1:
		return lazy.TailCall1(func(a int) Ev { return next(a) }, acc+1)
	case 2:
		return lazy.TailCall2(func(a, _ int) Ev { return next(a) }, acc+1, 0)
	case 3:
		return lazy.TailCall3(func(a, _, _ int) Ev { return next(a) }, acc+1, 0, 0)
	case 4:
		return lazy.TailCall4(func(a, _, _, _ int) Ev { return next(a) }, acc+1, 0, 0, 0)
	case 5:
		return lazy.TailCall5(func(a, _, _, _, _ int) Ev { return next(a) }, acc+1, 0, 0, 0, 0)
	case 6:
		return lazy.TailCall6(func(a, _, _, _, _, _ int) Ev { return next(a) }, acc+1, 0, 0, 0, 0, 0)
	case 7:
		return lazy.TailCall7(func(a, _, _, _, _, _, _ int) Ev { return next(a) }, acc+1, 0, 0, 0, 0, 0, 0)
	case 8:
		return lazy.TailCall8(func(a, _, _, _, _, _, _, _ int) Ev { return next(a) }, acc+1, 0, 0, 0, 0, 0, 0, 0)
	case 9:
		return lazy.TailCall9(func(a, _, _, _, _, _, _, _, _ int) Ev { return next(a) }, acc+1, 0, 0, 0, 0, 0, 0, 0, 0)
	}
	return lazy.TailCall(func() Ev { return next(acc + 1) })
}

func direct(r *Rng, sink *Sink, n int, deep int) int {
	checks := 0
	// faithfulness against strict evaluation (value + order of effects)
	for i := 0; i < n; i++ {
		ResetIDs()
		e := genE(r, 1+r.Intn(4))
		got := Outcome(func() string { return Show(lazy.Run(evOf(e))) })
		want := Outcome(func() string { return Show(strict(e)) })
		checks++
		if got != want {
			sink.DirectFail("lazy.Run", "(law faithful "+e.String()+")", "trampolined: "+got+" strict: "+want)
		}
	}
	// run-once: repeated and concurrent requests
	for i := 0; i < n/20+3; i++ {
		v := r.Range(1, 99)
		var cnt [16]atomic.Int64
		slow := func(k int) int { cnt[k].Add(1); time.Sleep(300 * time.Microsecond); return v }
		thunks := []func() int{
			lazy.Call(func() int { return slow(0) }).Get,
			lazy.Memoize(func() int { return slow(1) }),
			fp.Memoize(func() int { return slow(2) }).Apply,
		}
		tc := lazy.TailCall(func() Ev { slow(3); return lazy.Done(v) })
		thunks = append(thunks, tc.Get)
		c2 := lazy.Call(func() int { return slow(4) })
		thunks = append(thunks, lazy.Map2(c2, c2, func(a, b int) int { return (a + b) / 2 }).Get)
		// memoised list cells: the head and tail thunks of fp.MakeList
		cell := fp.MakeList(func() fp.Option[int] { return fp.Some(slow(5)) },
			func() fp.List[int] { slow(6); return fp.MakeList(func() fp.Option[int] { return fp.None[int]() }, nil) })
		thunks = append(thunks, func() int { return cell.Head() }, func() int { cell.Tail(); return v })
		// every arity of the generated TailCallN family must memoise its step too
		arityBase := len(thunks)
		for ar := 1; ar <= 9; ar++ {
			k := arityBase + ar - 1
			step := func() Ev { slow(k); return lazy.Done(v) }
			var e Ev
			switch ar {
			case 1:
				e = lazy.TailCall1(func(int) Ev { return step() }, 0)
			case 2:
				e = lazy.TailCall2(func(_, _ int) Ev { return step() }, 0, 0)
			case 3:
				e = lazy.TailCall3(func(_, _, _ int) Ev { return step() }, 0, 0, 0)
			case 4:
				e = lazy.TailCall4(func(_, _, _, _ int) Ev { return step() }, 0, 0, 0, 0)
			case 5:
				e = lazy.TailCall5(func(_, _, _, _, _ int) Ev { return step() }, 0, 0, 0, 0, 0)
			case 6:
				e = lazy.TailCall6(func(_, _, _, _, _, _ int) Ev { return step() }, 0, 0, 0, 0, 0, 0)
			case 7:
				e = lazy.TailCall7(func(_, _, _, _, _, _, _ int) Ev { return step() }, 0, 0, 0, 0, 0, 0, 0)
			case 8:
				e = lazy.TailCall8(func(_, _, _, _, _, _, _, _ int) Ev { return step() }, 0, 0, 0, 0, 0, 0, 0, 0)
			case 9:
				e = lazy.TailCall9(func(_, _, _, _, _, _, _, _, _ int) Ev { return step() }, 0, 0, 0, 0, 0, 0, 0, 0, 0)
			}
			if i%3 == 1 {
				// a shared sub-term: requested twice inside one evaluation
				thunks = append(thunks, lazy.Map2(e, e.Map(func(x int) int { return x }), func(a, b int) int { return (a + b) / 2 }).Get)
			} else {
				thunks = append(thunks, e.Get)
			}
		}
		for ti, th := range thunks {
			var wg sync.WaitGroup
			bad := atomic.Int64{}
			start := make(chan struct{})
			for g := 0; g < 8; g++ {
				wg.Add(1)
				go func() {
					defer wg.Done()
					<-start
					for k := 0; k < 3; k++ {
						if th() != v {
							bad.Add(1)
						}
					}
				}()
			}
			close(start)
			wg.Wait()
			checks++
			if cnt[ti].Load() != 1 || bad.Load() != 0 {
				sink.DirectFail("lazy.Memoize/run-once", fmt.Sprintf("(law run-once kind=%d v=%d goroutines=8 gets=3)", ti, v),
					fmt.Sprintf("deferred computation executed %d times, %d wrong results", cnt[ti].Load(), bad.Load()))
			}
		}
	}
	// stack safety: call depth observed inside the recursive function must not grow with n
	for arity := 0; arity <= 9; arity++ {
		d := deep / 10
		if arity == 1 {
			d = deep
		}
		// shallow run first: a stack that grows with n shows in the call-depth probes long before it overflows
		depthProbe = depthProbe[:0]
		gotS := lazy.Run(deepLoopN(arity, 3000, 0))
		checks++
		minS, maxS := 1<<30, 0
		for _, x := range depthProbe {
			minS, maxS = min(minS, x), max(maxS, x)
		}
		if gotS != 3000 || maxS-minS > 2 || maxS > 64 {
			sink.DirectFail(fmt.Sprintf("lazy.TailCall%d/stack", arity), fmt.Sprintf("(law stack-safe arity=%d depth=3000)", arity),
				fmt.Sprintf("result %d, call depth between %d and %d over %d probes", gotS, minS, maxS, len(depthProbe)))
			continue // the deep run would only kill the process
		}
		sink.Probe(outDir, fmt.Sprintf("lazy.TailCall%d/stack", arity), fmt.Sprintf("(law stack-safe arity=%d depth=%d)", arity, d))
		depthProbe = depthProbe[:0]
		got := lazy.Run(deepLoopN(arity, d, 0))
		sink.ProbeDone(outDir)
		checks++
		minD, maxD := 1<<30, 0
		for _, x := range depthProbe {
			if x < minD {
				minD = x
			}
			if x > maxD {
				maxD = x
			}
		}
		if got != d || maxD-minD > 2 || maxD > 64 {
			sink.DirectFail(fmt.Sprintf("lazy.TailCall%d/stack", arity), fmt.Sprintf("(law stack-safe arity=%d depth=%d)", arity, d),
				fmt.Sprintf("result %d, call depth between %d and %d over %d probes", got, minD, maxD, len(depthProbe)))
		}
	}
	// the library's own tail-recursive programs: FoldRight of seq / iterator / list hands its step function the DEFERRED rest of
	// the fold (a TailCall); a step that returns it in tail position (a search that short-circuits, or here: ignores the element)
	// runs in a call depth independent of the length (seed C16-9: the rest built as Call(func(){ FoldRight(tail).Get() }), one
	// nested Run loop per element)
	for _, fr := range []struct {
		name string
		run  func(n int, step func(int, Ev) Ev) int
	}{
		{"seq.FoldRight", func(n int, step func(int, Ev) Ev) int { return seq.FoldRight(iterator.Range(0, n).ToSeq(), -1, step).Get() }},
		{"iterator.FoldRight", func(n int, step func(int, Ev) Ev) int { return iterator.FoldRight(iterator.Range(0, n), -1, step).Get() }},
		{"list.FoldRight", func(n int, step func(int, Ev) Ev) int { return list.FoldRight(list.FromSeq(iterator.Range(0, n).ToSeq()), -1, step).Get() }},
	} {
		for _, n := range []int{3000, deep / 10} {
			depthProbe = depthProbe[:0]
			step := func(a int, rest Ev) Ev {
				if a%1000 == 7 {
					depthProbe = append(depthProbe, callDepth())
				}
				return rest
			}
			in := fmt.Sprintf("(law stack-safe %s length=%d)", fr.name, n)
			if n > 3000 {
				sink.Probe(outDir, fr.name+"/stack", in)
			}
			got := fr.run(n, step)
			if n > 3000 {
				sink.ProbeDone(outDir)
			}
			checks++
			minD, maxD := 1<<30, 0
			for _, x := range depthProbe {
				minD, maxD = min(minD, x), max(maxD, x)
			}
			if got != -1 || maxD-minD > 2 || maxD > 64 {
				sink.DirectFail(fr.name+"/stack", in, fmt.Sprintf("result %d, call depth between %d and %d over %d probes", got, minD, maxD, len(depthProbe)))
				break // the deep run would only kill the process
			}
		}
	}
	return checks
}

var hist = map[string]int{}

func count(s *Sx) {
	if s.IsL {
		if h := s.Head(); h != "" {
			hist[h]++
		}
		for _, x := range s.List {
			count(x)
		}
	}
}

func main() {
	seed := flag.Uint64("seed", 1, "PRNG seed")
	n := flag.Int("n", 2000, "cases")
	out := flag.String("out", ".", "output directory")
	replay := flag.String("replay", "", "run one op line")
	opsFile := flag.String("ops", "", "run op lines of this file")
	deep := flag.Int("deep", 2000000, "recursion depth of the stack-safety run")
	flag.Parse()
	if *replay != "" {
		op, err := Parse(*replay)
		if err != nil {
			fmt.Println("bad-op")
			os.Exit(2)
		}
		if op.Head() == "law" {
			fmt.Println("direct law: re-run bin/check")
			return
		}
		fmt.Println(runCase(op))
		return
	}
	r := NewRng(*seed)
	outDir = *out
	sink := NewSink(*out)
	debug.SetMaxStack(32 << 20) // a tail loop whose stack grew with n would die here
	if *opsFile != "" {
		for _, line := range ReadLines(*opsFile) {
			if op, err := Parse(line); err == nil {
				sink.Case(line, func() string { return runCase(op) })
			}
		}
		sink.Close()
		fmt.Printf("{\"cases\": %d}\n", sink.N)
		return
	}
	for i := 0; i < *n; i++ {
		ResetIDs()
		op := L(A(Pick(r, "run", "run", "get")), genE(r, 1+r.Intn(5)))
		count(op)
		sink.Case(op.String(), func() string { return runCase(op) })
	}
	nd := direct(r, sink, *n/4+10, *deep)
	sink.Close()
	parts := []string{}
	for k, v := range hist {
		parts = append(parts, fmt.Sprintf("%q: %d", k, v))
	}
	fmt.Printf("{\"cases\": %d, \"direct_checks\": %d, \"direct_failures\": %d, \"histogram\": {%s}}\n", sink.N, nd, sink.DirectFailures, strings.Join(parts, ", "))
}
