package main

// Hand-written evaluation of what the property says an instance must compute, on the wire
// representation of values (no library code, no model): "components pairwise equal",
// "lexicographic", "Sum adds", "right-biased union", ...

import (
	"strconv"

	. "verifharness/common"
	. "verifharness/tcbox"
)

func sxInt(v *Sx) int {
	n, err := strconv.ParseInt(v.Atom, 10, 64)
	if err != nil {
		panic("sxInt " + v.String())
	}
	return int(n)
}

func sxStr(v *Sx) string {
	if len(v.List) > 1 {
		return v.List[1].Atom
	}
	return ""
}

func mkStr(s string) *Sx {
	if s == "" {
		return L(A("s"))
	}
	return L(A("s"), A(s))
}

func elems(v *Sx) []*Sx {
	if !v.IsL {
		return nil
	}
	return v.List[1:]
}

// applyContra applies a ContraMap table function to a wire value.
func applyContra(f string, v *Sx) *Sx {
	switch f {
	case "neg":
		return I(-sxInt(v))
	case "mod3":
		return I(Emod(sxInt(v), 3))
	case "len":
		return I(len(sxStr(v)))
	case "some":
		return L(A("some"), v)
	case "single":
		return L(A("seq"), v)
	case "fst":
		return v.List[1]
	case "id":
		return v
	}
	panic("applyContra " + f)
}

func lookupSx(entries []*Sx, k *Sx) *Sx {
	for _, kv := range entries {
		if kv.List[0].String() == k.String() {
			return kv.List[1]
		}
	}
	return nil
}

// refEqv: the components of a and b are pairwise equal (instance expression of package eq or hash).
func refEqv(inst *Sx, a, b *Sx) bool {
	x := inst.List
	switch instHead(inst) {
	case "int", "string", "bool":
		return a.String() == b.String()
	case "bytes":
		ea, eb := elems(a), elems(b)
		if len(ea) != len(eb) {
			return false
		}
		for i := range ea {
			if ea[i].Atom != eb[i].Atom {
				return false
			}
		}
		return true
	case "time":
		return a.List[1].Atom == b.List[1].Atom
	case "hnil":
		return true
	case "ptrgiven":
		if !a.IsL || !b.IsL {
			return !a.IsL && !b.IsL
		}
		return a.List[2].Atom == b.List[2].Atom
	case "option":
		if !a.IsL || !b.IsL {
			return !a.IsL && !b.IsL
		}
		return refEqv(x[1], a.List[1], b.List[1])
	case "seq", "slice":
		ea, eb := elems(a), elems(b)
		if len(ea) != len(eb) {
			return false
		}
		for i := range ea {
			if !refEqv(x[1], ea[i], eb[i]) {
				return false
			}
		}
		return true
	case "ptr":
		if !a.IsL || !b.IsL {
			return !a.IsL && !b.IsL
		}
		return refEqv(x[1], a.List[2], b.List[2])
	case "tuple":
		for i := 1; i < len(x); i++ {
			if !refEqv(x[i], a.List[i], b.List[i]) {
				return false
			}
		}
		return true
	case "hcons":
		if !refEqv(x[1], a.List[1], b.List[1]) {
			return false
		}
		return refEqv(x[2], L(append([]*Sx{A("hl")}, a.List[2:]...)...), L(append([]*Sx{A("hl")}, b.List[2:]...)...))
	case "contramap":
		return refEqv(x[2], applyContra(x[1].Atom, a), applyContra(x[1].Atom, b))
	case "gomap", "fpmap":
		ea, eb := elems(a), elems(b)
		if len(ea) != len(eb) {
			return false
		}
		for _, kv := range ea {
			bv := lookupSx(eb, kv.List[0])
			if bv == nil || !refEqv(x[2], kv.List[1], bv) {
				return false
			}
		}
		return true
	}
	panic("refEqv " + inst.String())
}

func instHead(s *Sx) string {
	if s.IsL {
		return s.Head()
	}
	return s.Atom
}

func refLessFn(l *Sx, a, b int) bool {
	switch instHead(l) {
	case "lt":
		return a < b
	case "gt":
		return a > b
	case "ltmod":
		m := l.List[1].Int()
		return Emod(a, m) < Emod(b, m)
	}
	panic("refLessFn")
}

func refCmpFn(c *Sx, a, b int) int {
	k := 1
	switch instHead(c) {
	case "cmpscaled":
		k = c.List[1].Int()
	case "cmpmod":
		m := c.List[1].Int()
		return Emod(a, m) - Emod(b, m)
	}
	if a < b {
		return -k
	}
	if a > b {
		return k
	}
	return 0
}

func hlTail(v *Sx) *Sx { return L(append([]*Sx{A("hl")}, v.List[2:]...)...) }

// refLess: a comes strictly before b in the order the instance expression denotes
// (lexicographic for sequences and tuples, None/nil first, ThenComparing breaks ties, Reversed flips).
func refLess(inst *Sx, a, b *Sx) bool {
	x := inst.List
	switch instHead(inst) {
	case "int":
		return sxInt(a) < sxInt(b)
	case "string":
		return sxStr(a) < sxStr(b)
	case "time":
		return sxInt(a.List[1]) < sxInt(b.List[1])
	case "hnil":
		return false
	case "option":
		if !a.IsL || !b.IsL {
			return !a.IsL && b.IsL
		}
		return refLess(x[1], a.List[1], b.List[1])
	case "seq", "slice":
		ea, eb := elems(a), elems(b)
		for i := 0; i < len(ea) && i < len(eb); i++ {
			if refLess(x[1], ea[i], eb[i]) {
				return true
			}
			if refLess(x[1], eb[i], ea[i]) {
				return false
			}
		}
		return len(ea) < len(eb)
	case "ptr":
		if !a.IsL || !b.IsL {
			return !a.IsL && b.IsL
		}
		return refLess(x[1], a.List[2], b.List[2])
	case "tuple":
		for i := 1; i < len(x); i++ {
			if refLess(x[i], a.List[i], b.List[i]) {
				return true
			}
			if refLess(x[i], b.List[i], a.List[i]) {
				return false
			}
		}
		return false
	case "hcons":
		if refLess(x[1], a.List[1], b.List[1]) {
			return true
		}
		if refLess(x[1], b.List[1], a.List[1]) {
			return false
		}
		return refLess(x[2], hlTail(a), hlTail(b))
	case "contramap":
		return refLess(x[2], applyContra(x[1].Atom, a), applyContra(x[1].Atom, b))
	case "givenfield":
		return sxInt(applyContra(x[1].Atom, a)) < sxInt(applyContra(x[1].Atom, b))
	case "asord":
		return refLessFn(x[1], sxInt(a), sxInt(b))
	case "new":
		return refLessFn(x[2], sxInt(a), sxInt(b))
	case "fromcompare":
		return refCmpFn(x[1], sxInt(a), sxInt(b)) < 0
	case "then":
		if refLess(x[1], a, b) {
			return true
		}
		if refLess(x[1], b, a) {
			return false
		}
		return refLess(x[2], a, b)
	case "rev":
		return refLess(x[1], b, a)
	}
	panic("refLess " + inst.String())
}

// ------------------------------------------------------------------------------------ monoids

func unionSx(a, b *Sx) *Sx { // right-biased union of (map (k v)...)
	out := []*Sx{A("map")}
	for _, kv := range elems(a) {
		if bv := lookupSx(elems(b), kv.List[0]); bv != nil {
			out = append(out, L(kv.List[0], bv))
		} else {
			out = append(out, kv)
		}
	}
	for _, kv := range elems(b) {
		if lookupSx(elems(a), kv.List[0]) == nil {
			out = append(out, kv)
		}
	}
	return L(out...)
}

func unionSet(a, b *Sx) *Sx {
	out := append([]*Sx{A("set")}, elems(a)...)
	for _, k := range elems(b) {
		found := false
		for _, x := range elems(a) {
			if x.String() == k.String() {
				found = true
			}
		}
		if !found {
			out = append(out, k)
		}
	}
	return L(out...)
}

func refIso(iso *Sx) (func(int) int, func(int) int) {
	if instHead(iso) == "neg" {
		return func(x int) int { return -x }, func(x int) int { return -x }
	}
	k := iso.List[1].Int()
	return func(x int) int { return x + k }, func(x int) int { return x - k }
}

func refEmpty(m *Sx) *Sx {
	x := m.List
	switch instHead(m) {
	case "string", "sumstr":
		return L(A("s"))
	case "sum", "fpsum":
		return I(0)
	case "product", "fpproduct":
		return I(1)
	case "any":
		return A("false")
	case "all":
		return A("true")
	case "unit":
		return A("unit")
	case "hnil":
		return L(A("hl"))
	case "mergeseq", "mergeslice":
		return L(A("seq"))
	case "endo":
		return L(A("fn"))
	case "mergegomap", "mergemap":
		return L(A("map"))
	case "mergeset":
		return L(A("set"))
	case "option":
		return L(A("some"), refEmpty(x[1]))
	case "try":
		return L(A("succ"), refEmpty(x[1]))
	case "dual":
		return L(A("dual"), refEmpty(x[1]))
	case "eval":
		return L(A("eval"), refEmpty(x[1]))
	case "ptr":
		return A("nil")
	case "hcons":
		return L(append([]*Sx{A("hl"), refEmpty(x[1])}, elems(refEmpty(x[2]))...)...)
	case "tuple":
		out := []*Sx{A("tup")}
		for _, c := range x[1:] {
			out = append(out, refEmpty(c))
		}
		return L(out...)
	case "imap":
		if x[1].Atom == "box" {
			return L(A("tup"), refEmpty(x[2]))
		}
		fab, _ := refIso(x[1])
		return I(fab(sxInt(refEmpty(x[2]))))
	}
	panic("refEmpty " + m.String())
}

// refCombine: what the name of the instance says Combine(a,b) is. sg selects package semigroup
// (where Option has None as neutral element).
func refCombine(m *Sx, a, b *Sx, sg bool) *Sx {
	x := m.List
	switch instHead(m) {
	case "string", "sumstr":
		return mkStr(sxStr(a) + sxStr(b))
	case "sum", "fpsum":
		return I(sxInt(a) + sxInt(b))
	case "product", "fpproduct":
		return I(sxInt(a) * sxInt(b))
	case "any":
		return A(strconv.FormatBool(a.Atom == "true" || b.Atom == "true"))
	case "all":
		return A(strconv.FormatBool(a.Atom == "true" && b.Atom == "true"))
	case "unit":
		return A("unit")
	case "hnil":
		return L(A("hl"))
	case "mergeseq", "mergeslice":
		return L(append(append([]*Sx{A("seq")}, elems(a)...), elems(b)...)...)
	case "endo":
		return L(append(append([]*Sx{A("fn")}, elems(a)...), elems(b)...)...)
	case "mergegomap", "mergemap":
		return unionSx(a, b)
	case "mergeset":
		return unionSet(a, b)
	case "m":
		return refCombine(x[1], a, b, false)
	case "option":
		if sg {
			if a.IsL && b.IsL {
				return L(A("some"), refCombine(x[1], a.List[1], b.List[1], sg))
			}
			if !a.IsL {
				return b
			}
			return a
		}
		if a.IsL && b.IsL {
			return L(A("some"), refCombine(x[1], a.List[1], b.List[1], sg))
		}
		return A("none")
	case "try":
		if a.Head() == "fail" {
			return a
		}
		if b.Head() == "fail" {
			return b
		}
		return L(A("succ"), refCombine(x[1], a.List[1], b.List[1], sg))
	case "dual":
		return L(A("dual"), refCombine(x[1], b.List[1], a.List[1], sg))
	case "eval":
		return L(A("eval"), refCombine(x[1], a.List[1], b.List[1], sg))
	case "ptr":
		if a.IsL && b.IsL {
			return L(A("ptr"), newAddr(), refCombine(x[1], a.List[2], b.List[2], sg))
		}
		if !a.IsL {
			return b
		}
		return a
	case "hcons":
		rest := refCombine(x[2], hlTail(a), hlTail(b), sg)
		return L(append([]*Sx{A("hl"), refCombine(x[1], a.List[1], b.List[1], sg)}, elems(rest)...)...)
	case "tuple":
		out := []*Sx{A("tup")}
		for i := 1; i < len(x); i++ {
			out = append(out, refCombine(x[i], a.List[i], b.List[i], sg))
		}
		return L(out...)
	case "imap":
		if x[1].Atom == "box" {
			return L(A("tup"), refCombine(x[2], a.List[1], b.List[1], sg))
		}
		fab, fba := refIso(x[1])
		return I(fab(sxInt(refCombine(x[2], I(fba(sxInt(a))), I(fba(sxInt(b))), sg))))
	}
	panic("refCombine " + m.String())
}

// showSx renders a wire value of type t canonically (through the boxed value).
func showSx(t *Ty, v *Sx) string { return ShowV(t, Build(t, v, NewEnv())) }
