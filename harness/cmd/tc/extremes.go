package main

import (
	"fmt"
	"math"

	"github.com/csgura/fp"
	"github.com/csgura/fp/ord"
)

// compareExtremes (C10; session-6 audit, finding 8): `ord.FromCompare(cmp)` is a strict total order for EVERY lawful compare
// function - negative / zero / positive of any magnitude, also math.MinInt (what `a - b` yields for a = MinInt, b = 0) - and
// `Reversed()` inverts it.  The op lines draw compare functions with results in -1 / 0 / 1 and small differences; a `Reversed`
// computed by negating the result overflows at math.MinInt (-MinInt == MinInt) and does not reverse.  Model-free.
func compareExtremes(e *emitter) {
	if len(only) > 0 && !only["ord"] {
		return
	}
	fail := func(key, in, what string) { e.sink.DirectFail(key, in, what) }
	for _, mag := range []struct {
		name     string
		neg, pos int
	}{{"unit", -1, 1}, {"difference", -7, 3}, {"min-max", math.MinInt, math.MaxInt}, {"min-one", math.MinInt, 1}} {
		cmp := func(a, b int) int {
			switch {
			case a < b:
				return mag.neg
			case a > b:
				return mag.pos
			}
			return 0
		}
		o := ord.FromCompare(cmp)
		for _, inst := range []struct {
			name string
			o    fp.Ord[int]
			flip bool
		}{{"FromCompare", o, false}, {"FromCompare.Reversed", o.Reversed(), true}, {"FromCompare.Reversed.Reversed", o.Reversed().Reversed(), false},
			{"FromCompare.ThenComparing(same)", o.ThenComparing(o), false}} {
			for _, p := range [][2]int{{1, 2}, {2, 1}, {3, 3}, {math.MinInt, 0}, {0, math.MinInt}} {
				a, b := p[0], p[1]
				if inst.flip {
					a, b = b, a
				}
				in := fmt.Sprintf("(law compare-extremes %s %s %d %d)", inst.name, mag.name, p[0], p[1])
				e.checks += 3
				wantLess, wantEqv := a < b, a == b
				if got := inst.o.Less(p[0], p[1]); got != wantLess {
					fail("ord.compare-extremes", in, fmt.Sprintf("Less = %v, want %v (compare results are %d / 0 / %d)", got, wantLess, mag.neg, mag.pos))
				}
				if got := inst.o.Eqv(p[0], p[1]); got != wantEqv {
					fail("ord.compare-extremes", in, fmt.Sprintf("Eqv = %v, want %v", got, wantEqv))
				}
				n := 0
				for _, t := range []bool{inst.o.Less(p[0], p[1]), inst.o.Less(p[1], p[0]), inst.o.Eqv(p[0], p[1])} {
					if t {
						n++
					}
				}
				if n != 1 {
					fail("ord.compare-extremes", in, fmt.Sprintf("%d of Less(a,b), Less(b,a), Eqv(a,b) hold, want exactly one", n))
				}
			}
		}
	}
}
