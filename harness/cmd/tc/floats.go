package main

import (
	"fmt"
	"math"

	"github.com/csgura/fp"
	"github.com/csgura/fp/eq"
	"github.com/csgura/fp/hash"
	"github.com/csgura/fp/product"
)

// floatProbes: the typed instantiations the boxed interpreter cannot reach. Floats are excluded from
// associativity (C11) and NaN from everything, but hash.Number[float64] / eq.Given[float64] are instances
// the property names: the Hashable contract (Eqv a b => Hash a = Hash b; reflexive, symmetric) must hold
// for every pair of non-NaN floats, in particular +0.0 / -0.0, also below Option / Slice / Tuple2.
func floatProbes(e *emitter) {
	if len(only) > 0 && !only["hash"] && !only["eq"] {
		return
	}
	vals := []float64{0.0, math.Copysign(0, -1), 1.0, -1.0, 1.5, 2.5, 1e300, -1e300, math.Inf(1), math.Inf(-1), math.SmallestNonzeroFloat64, 3.0, 3.0000000000000004}
	vals32 := []float32{0.0, float32(math.Copysign(0, -1)), 1.0, -1.5, 3.25}
	fail := func(key, in, what string) { e.sink.DirectFail(key, in, what) }
	h := hash.Number[float64]()
	ho := hash.Option(h)
	hs := hash.Slice(h)
	ht := hash.Tuple2(h, h)
	g := eq.Given[float64]()
	for _, a := range vals {
		for _, b := range vals {
			in := fmt.Sprintf("(law float64 %v %v)", a, b)
			e.checks += 5
			if g.Eqv(a, b) != (a == b) {
				fail("eq.Given[float64]/eqv", in, fmt.Sprintf("Eqv=%v but == is %v", g.Eqv(a, b), a == b))
			}
			if h.Eqv(a, b) != (a == b) {
				fail("hash.Number[float64]/eqv", in, fmt.Sprintf("Eqv=%v but == is %v", h.Eqv(a, b), a == b))
			}
			if h.Eqv(a, b) && h.Hash(a) != h.Hash(b) {
				fail("hash.Number[float64]/eqv-implies-hash", in, fmt.Sprintf("Eqv but Hash %d != %d", h.Hash(a), h.Hash(b)))
			}
			if ho.Eqv(fp.Some(a), fp.Some(b)) && ho.Hash(fp.Some(a)) != ho.Hash(fp.Some(b)) {
				fail("hash.Option[float64]/eqv-implies-hash", in, "Eqv but different Hash")
			}
			if hs.Eqv([]float64{a, 1}, []float64{b, 1}) && hs.Hash([]float64{a, 1}) != hs.Hash([]float64{b, 1}) {
				fail("hash.Slice[float64]/eqv-implies-hash", in, "Eqv but different Hash")
			}
			ta, tb := product.Tuple2(a, 2.0), product.Tuple2(b, 2.0)
			if ht.Eqv(ta, tb) && ht.Hash(ta) != ht.Hash(tb) {
				fail("hash.Tuple2[float64]/eqv-implies-hash", in, "Eqv but different Hash")
			}
		}
	}
	h32 := hash.Number[float32]()
	for _, a := range vals32 {
		for _, b := range vals32 {
			e.checks++
			if h32.Eqv(a, b) != (a == b) || (h32.Eqv(a, b) && h32.Hash(a) != h32.Hash(b)) {
				fail("hash.Number[float32]/eqv-implies-hash", fmt.Sprintf("(law float32 %v %v)", a, b), "Hashable contract broken")
			}
		}
	}
}
