package main

import (
	"fmt"
	"reflect"

	"github.com/csgura/fp"
	"github.com/csgura/fp/eq"
	"github.com/csgura/fp/hash"
	"github.com/csgura/fp/immutable"
	"github.com/csgura/fp/iterator"
	"github.com/csgura/fp/list"
	"github.com/csgura/fp/monoid"
	"github.com/csgura/fp/product"
	"github.com/csgura/fp/seq"
	. "verifharness/common"
)

// identityFreshness (C11; seed C11-13 of round 5): "Empty is a two-sided identity" - for EVERY use of the instance, also after a
// caller has taken an identity (from Empty() or from Reduce of an empty Seq) and MUTATED it.  monoid.MergeGoMap hands out a
// mutable Go map; an instance that caches its identity (IMap with a memoised Empty) is polluted by the first caller that adds an
// entry to "its" empty map: afterwards Combine(Empty, x) != x and every Reduce / FoldMap starts from the stale entries.  Model-free;
// the value model has no mutable identity.
func identityFreshness(e *emitter) {
	if len(only) > 0 && !only["mon"] {
		return
	}
	type M = map[string]int
	fail := func(key, in, what string) { e.sink.DirectFail(key, in, what) }
	base := monoid.MergeGoMap[string, int]()
	id := func(m M) M { return m }
	insts := []struct {
		name string
		m    fp.Monoid[M]
	}{
		{"MergeGoMap", base},
		{"IMap(MergeGoMap)", monoid.IMap(base, id, id)},
		{"IMap(IMap(MergeGoMap))", monoid.IMap(monoid.IMap(base, id, id), id, id)},
	}
	x := M{"a": 1}
	for _, it := range insts {
		m := it.m
		for _, how := range []string{"Empty", "seq.Reduce", "iterator.Reduce", "list.Reduce"} {
			in := fmt.Sprintf("(law identity-fresh %s via=%s)", it.name, how)
			var got M
			switch how {
			case "Empty":
				got = m.Empty()
			case "seq.Reduce":
				got = seq.Reduce(fp.Seq[M]{}, m)
			case "iterator.Reduce":
				got = iterator.Reduce(iterator.Of[M](), m)
			default:
				got = list.Reduce(list.Of[M](), m)
			}
			e.checks++
			if len(got) != 0 {
				fail("monoid.identity-fresh", in, fmt.Sprintf("the identity obtained is %v, not empty", got))
				continue
			}
			if got != nil {
				got["zz-stale"] = 99 // the caller owns what it was handed
			}
			e.checks += 4
			if e2 := m.Empty(); len(e2) != 0 {
				fail("monoid.identity-fresh", in, fmt.Sprintf("after the caller added an entry to the identity it was handed, Empty() = %v", e2))
			}
			if l := m.Combine(m.Empty(), x); !reflect.DeepEqual(l, x) {
				fail("monoid.identity-fresh", in, fmt.Sprintf("Combine(Empty, %v) = %v afterwards", x, l))
			}
			if r := m.Combine(x, m.Empty()); !reflect.DeepEqual(r, x) {
				fail("monoid.identity-fresh", in, fmt.Sprintf("Combine(%v, Empty) = %v afterwards", x, r))
			}
			if r := seq.Reduce(fp.Seq[M]{x}, m); !reflect.DeepEqual(r, x) {
				fail("monoid.identity-fresh", in, fmt.Sprintf("seq.Reduce([%v]) = %v afterwards", x, r))
			}
		}
	}
}

// mergeIdentityCoarseHasher (C11; session-6 audit, finding 2): monoid.MergeMap / MergeSet take the zero fp.Map / fp.Set as their
// identity.  The zero value has no hasher (its fallback is keyed by Go ==), so Combine(Empty, b) must not rebuild b on top of it:
// for a map b whose Hashable has an Eqv COARSER than == (keys equal mod 97) the result would lose b's key equivalence -
// Combine(Empty, b).Get(98) = None although b.Get(98) = Some(10).  "Empty is a two-sided identity": Combine(Empty, b) and
// Combine(b, Empty) answer every lookup as b does.
func mergeIdentityCoarseHasher(e *emitter) {
	if len(only) > 0 && !only["mon"] {
		return
	}
	fail := func(key, in, what string) { e.sink.DirectFail(key, in, what) }
	h := hash.New(eq.New(func(a, b int) bool { return Emod(a, 97) == Emod(b, 97) }), func(k int) uint32 { return uint32(Emod(k, 97)) * 40503 })
	probes := []int{1, 98, 195, 2, 99, 3}
	{
		m := monoid.MergeMap[int, int]()
		b := immutable.Map(h, product.Tuple2(1, 10), product.Tuple2(2, 20))
		for _, c := range []struct {
			name string
			got  fp.Map[int, int]
		}{{"Combine(Empty,b)", m.Combine(m.Empty(), b)}, {"Combine(b,Empty)", m.Combine(b, m.Empty())},
			{"seq.Reduce([b])", seq.Reduce(fp.Seq[fp.Map[int, int]]{b}, m)}, {"Combine(Combine(Empty,b),Empty)", m.Combine(m.Combine(m.Empty(), b), m.Empty())}} {
			in := fmt.Sprintf("(law merge-identity MergeMap %s hasher=mod97)", c.name)
			e.checks++
			if c.got.Size() != b.Size() {
				fail("monoid.merge-identity", in, fmt.Sprintf("Size %d, b has %d", c.got.Size(), b.Size()))
			}
			for _, k := range probes {
				e.checks++
				if g, w := c.got.Get(k), b.Get(k); g != w {
					fail("monoid.merge-identity", in, fmt.Sprintf("Get(%d) = %v, b.Get(%d) = %v", k, g, k, w))
				}
			}
		}
	}
	{
		m := monoid.MergeSet[int]()
		b := immutable.Set(h, 1, 2)
		for _, c := range []struct {
			name string
			got  fp.Set[int]
		}{{"Combine(Empty,b)", m.Combine(m.Empty(), b)}, {"Combine(b,Empty)", m.Combine(b, m.Empty())}, {"seq.Reduce([b])", seq.Reduce(fp.Seq[fp.Set[int]]{b}, m)}} {
			in := fmt.Sprintf("(law merge-identity MergeSet %s hasher=mod97)", c.name)
			e.checks++
			if c.got.Size() != b.Size() {
				fail("monoid.merge-identity", in, fmt.Sprintf("Size %d, b has %d", c.got.Size(), b.Size()))
			}
			for _, k := range probes {
				e.checks++
				if g, w := c.got.Contains(k), b.Contains(k); g != w {
					fail("monoid.merge-identity", in, fmt.Sprintf("Contains(%d) = %v, b.Contains(%d) = %v", k, g, k, w))
				}
			}
		}
	}
}
