package main

import (
	"fmt"
	"reflect"

	"github.com/csgura/fp"
	"github.com/csgura/fp/iterator"
	"github.com/csgura/fp/list"
	"github.com/csgura/fp/monoid"
	"github.com/csgura/fp/seq"
)

// identityFreshness (C11; seed C11-13 of round 5): "Empty is a two-sided identity" - for EVERY use of the instance, also after a
// caller has taken an identity (from Empty() or from Reduce of an empty Seq) and MUTATED it.  monoid.MergeGoMap hands out a
// mutable Go map; an instance that caches its identity (IMap with a memoised Empty) is polluted by the first caller that adds an
// entry to "its" empty map: afterwards Combine(Empty, x) != x and every Reduce / FoldMap starts from the stale entries.  Model-free;
// the value model has no mutable identity.
func identityFreshness(e *emitter) {
	if len(only) > 0 && !only["mon"] {
		return
	}
	type M = map[string]int
	fail := func(key, in, what string) { e.sink.DirectFail(key, in, what) }
	base := monoid.MergeGoMap[string, int]()
	id := func(m M) M { return m }
	insts := []struct {
		name string
		m    fp.Monoid[M]
	}{
		{"MergeGoMap", base},
		{"IMap(MergeGoMap)", monoid.IMap(base, id, id)},
		{"IMap(IMap(MergeGoMap))", monoid.IMap(monoid.IMap(base, id, id), id, id)},
	}
	x := M{"a": 1}
	for _, it := range insts {
		m := it.m
		for _, how := range []string{"Empty", "seq.Reduce", "iterator.Reduce", "list.Reduce"} {
			in := fmt.Sprintf("(law identity-fresh %s via=%s)", it.name, how)
			var got M
			switch how {
			case "Empty":
				got = m.Empty()
			case "seq.Reduce":
				got = seq.Reduce(fp.Seq[M]{}, m)
			case "iterator.Reduce":
				got = iterator.Reduce(iterator.Of[M](), m)
			default:
				got = list.Reduce(list.Of[M](), m)
			}
			e.checks++
			if len(got) != 0 {
				fail("monoid.identity-fresh", in, fmt.Sprintf("the identity obtained is %v, not empty", got))
				continue
			}
			if got != nil {
				got["zz-stale"] = 99 // the caller owns what it was handed
			}
			e.checks += 4
			if e2 := m.Empty(); len(e2) != 0 {
				fail("monoid.identity-fresh", in, fmt.Sprintf("after the caller added an entry to the identity it was handed, Empty() = %v", e2))
			}
			if l := m.Combine(m.Empty(), x); !reflect.DeepEqual(l, x) {
				fail("monoid.identity-fresh", in, fmt.Sprintf("Combine(Empty, %v) = %v afterwards", x, l))
			}
			if r := m.Combine(x, m.Empty()); !reflect.DeepEqual(r, x) {
				fail("monoid.identity-fresh", in, fmt.Sprintf("Combine(%v, Empty) = %v afterwards", x, r))
			}
			if r := seq.Reduce(fp.Seq[M]{x}, m); !reflect.DeepEqual(r, x) {
				fail("monoid.identity-fresh", in, fmt.Sprintf("seq.Reduce([%v]) = %v afterwards", x, r))
			}
		}
	}
}
