package main

import (
	"strconv"

	. "verifharness/common"
	. "verifharness/tcbox"
)

// ------------------------------------------------------------------------------------ instance expressions

func tupleArity(r *Rng) int {
	switch r.Intn(10) {
	case 0:
		return 1
	case 1, 2, 3, 4:
		return 2
	case 5, 6:
		return 3
	case 7:
		return r.Range(4, 8)
	}
	return r.Range(9, MaxTuple)
}

func contra(r *Rng, leafInt func() *Sx, sub func() *Sx) *Sx {
	switch r.Intn(6) {
	case 0:
		return L(A("contramap"), A("neg"), leafInt())
	case 1:
		return L(A("contramap"), A("mod3"), leafInt())
	case 2:
		return L(A("contramap"), A("len"), leafInt())
	case 3:
		return L(A("contramap"), A("some"), L(A("option"), sub()))
	case 4:
		return L(A("contramap"), A("single"), L(A(Pick(r, "seq", "slice")), sub()))
	}
	return L(A("contramap"), A("fst"), sub())
}

func hconsOf(r *Rng, sub func() *Sx) *Sx {
	n := r.Range(0, 3)
	out := A("hnil")
	for i := 0; i < n; i++ {
		out = L(A("hcons"), sub(), out)
	}
	return out
}

func tupleOf(r *Rng, from int, sub func() *Sx) *Sx { return tupleOfMax(r, from, MaxTuple, sub) }

// ord.TupleN compares in time exponential in N when the tuples agree on a long prefix (every level
// evaluates pt.Less twice, each of which starts with pt.Eqv): random Ord tuples stay below arity 10.
const maxOrdArity = 9

func tupleOfMax(r *Rng, from, max int, sub func() *Sx) *Sx {
	n := tupleArity(r)
	if n < from {
		n = from
	}
	if n > max {
		n = from + r.Intn(max-from+1)
	}
	xs := []*Sx{A("tuple")}
	for i := 0; i < n; i++ {
		xs = append(xs, sub())
	}
	return L(xs...)
}

func genEq(r *Rng, d int) *Sx {
	if d <= 0 {
		return A(Pick(r, "int", "int", "string", "bool", "bytes", "time", "ptrgiven", "hnil"))
	}
	sub := func() *Sx { return genEq(r, d-1-r.Intn(2)) }
	switch r.Intn(12) {
	case 0:
		return genEq(r, 0)
	case 1:
		return L(A("option"), sub())
	case 2, 3:
		return L(A("seq"), sub())
	case 4:
		return L(A("slice"), sub())
	case 5:
		return L(A("ptr"), sub())
	case 6, 7:
		return tupleOf(r, 1, func() *Sx { return genEq(r, r.Intn(d)) })
	case 8:
		return hconsOf(r, sub)
	case 9:
		return contra(r, func() *Sx { return A("int") }, sub)
	case 10:
		return L(A("gomap"), A(Pick(r, "int", "string")), sub())
	}
	return L(A("fpmap"), A(Pick(r, "int", "string")), sub())
}

func genHash(r *Rng, d int) *Sx {
	if d <= 0 {
		return A(Pick(r, "int", "int", "string", "bytes", "hnil"))
	}
	sub := func() *Sx { return genHash(r, d-1-r.Intn(2)) }
	switch r.Intn(10) {
	case 0:
		return genHash(r, 0)
	case 1:
		return L(A("option"), sub())
	case 2, 3:
		return L(A("seq"), sub())
	case 4:
		return L(A("slice"), sub())
	case 5:
		return L(A("ptr"), sub())
	case 6, 7:
		return tupleOf(r, 1, func() *Sx { return genHash(r, r.Intn(d)) })
	case 8:
		return hconsOf(r, sub)
	}
	return contra(r, func() *Sx { return A("int") }, sub)
}

func genLessFn(r *Rng) *Sx {
	switch r.Intn(3) {
	case 0:
		return A("lt")
	case 1:
		return A("gt")
	}
	return L(A("ltmod"), I(r.Range(2, 4)))
}

func genCmpFn(r *Rng) *Sx {
	switch r.Intn(3) {
	case 0:
		return A("cmp")
	case 1:
		return L(A("cmpscaled"), I(Pick(r, 1, 2, 7, -1, -3)))
	}
	return L(A("cmpmod"), I(r.Range(2, 4)))
}

// an Ord on ints
func genOrdInt(r *Rng) *Sx {
	switch r.Intn(8) {
	case 0:
		return L(A("asord"), genLessFn(r))
	case 1:
		return L(A("fromcompare"), genCmpFn(r))
	case 2:
		// ord.New(eqv, less): the Eq must be the equivalence of the less function
		return Pick(r,
			L(A("new"), A("int"), A("lt")),
			L(A("new"), A("int"), A("gt")),
			L(A("new"), L(A("contramap"), A("mod3"), A("int")), L(A("ltmod"), I(3))))
	case 3:
		return L(A("givenfield"), A(Pick(r, "neg", "mod3", "id")))
	case 4:
		return L(A("contramap"), A(Pick(r, "neg", "mod3")), A("int"))
	}
	return A("int")
}

func genOrd(r *Rng, d int) *Sx {
	if d <= 0 {
		switch r.Intn(8) {
		case 0:
			return A("string")
		case 1:
			return A("time")
		case 2:
			return A("hnil")
		case 3:
			return L(A("givenfield"), A("len"))
		}
		return genOrdInt(r)
	}
	sub := func() *Sx { return genOrd(r, d-1-r.Intn(2)) }
	switch r.Intn(13) {
	case 0:
		return genOrd(r, 0)
	case 1:
		return L(A("option"), sub())
	case 2, 3:
		return L(A("seq"), sub())
	case 4:
		return L(A("slice"), sub())
	case 5:
		return L(A("ptr"), sub())
	case 6, 7:
		return tupleOfMax(r, 1, maxOrdArity, func() *Sx { return genOrd(r, r.Intn(d)) })
	case 8:
		return hconsOf(r, sub)
	case 9:
		return contra(r, func() *Sx { return genOrdInt(r) }, sub)
	case 10:
		return L(A("rev"), sub())
	}
	// ThenComparing: two orders on the same type
	switch r.Intn(3) {
	case 0:
		return L(A("then"), genOrdInt(r), genOrdInt(r))
	case 1:
		return L(A("then"), L(A("givenfield"), A("len")), A("string"))
	}
	a := genOrdInt(r)
	b := genOrdInt(r)
	return L(A("then"), L(A("seq"), a), L(A("seq"), b))
}

func genMon(r *Rng, d int) *Sx {
	if d <= 0 {
		switch r.Intn(18) {
		case 0:
			return A("string")
		case 1, 2:
			return A("sum")
		case 3:
			return A("fpsum")
		case 4:
			return A("sumstr")
		case 5:
			return A("product")
		case 6:
			return A("fpproduct")
		case 7:
			return A("any")
		case 8, 9:
			return A("all")
		case 10:
			return A("unit")
		case 11:
			return A("mergeseq")
		case 12:
			return A("mergeslice")
		case 13:
			return A("endo")
		case 14:
			return L(A("mergegomap"), A(Pick(r, "int", "string")))
		case 15:
			return L(A("mergemap"), A(Pick(r, "int", "string")))
		case 16:
			return L(A("mergeset"), A(Pick(r, "int", "string")))
		}
		return A("hnil")
	}
	sub := func() *Sx { return genMon(r, d-1-r.Intn(2)) }
	switch r.Intn(12) {
	case 0, 1:
		return genMon(r, 0)
	case 2:
		return L(A("option"), sub())
	case 3:
		return L(A("try"), sub())
	case 4:
		return L(A("dual"), sub())
	case 5:
		return L(A("eval"), sub())
	case 6:
		return L(A("ptr"), sub())
	case 7:
		return hconsOf(r, sub)
	case 8, 9:
		return tupleOf(r, 2, func() *Sx { return genMon(r, r.Intn(d)) })
	case 10:
		return L(A("imap"), A("box"), sub())
	}
	iso := Pick(r, A("neg"), L(A("addk"), I(r.Range(-3, 5))))
	return L(A("imap"), iso, Pick(r, A("sum"), A("product"), A("fpsum"), L(A("imap"), A("neg"), A("sum"))))
}

func genSg(r *Rng, d int) *Sx {
	if d <= 0 {
		switch r.Intn(7) {
		case 0:
			return A("sum")
		case 1:
			return A("product")
		case 2:
			return A("endo")
		case 3:
			return A("any")
		case 4, 5:
			return A("all")
		}
		return L(A("m"), genMon(r, 0))
	}
	sub := func() *Sx { return genSg(r, d-1-r.Intn(2)) }
	switch r.Intn(8) {
	case 0:
		return genSg(r, 0)
	case 1:
		return L(A("m"), genMon(r, d))
	case 2:
		return L(A("dual"), sub())
	case 3:
		return L(A("eval"), sub())
	case 4:
		return L(A("ptr"), sub())
	case 5, 6:
		return L(A("option"), sub())
	}
	if r.Bool() {
		return L(A("imap"), A("box"), sub())
	}
	return L(A("imap"), Pick(r, A("neg"), L(A("addk"), I(r.Range(-3, 5)))), Pick(r, A("sum"), A("product")))
}

// ------------------------------------------------------------------------------------ values

var nextAddr int

func newAddr() *Sx { nextAddr++; return I(nextAddr) }

var bigInts = []string{"9223372036854775807", "-9223372036854775808", "4294967296", "4294967295", "-4294967296",
	"2147483648", "-2147483649", "3037000500", "1000000007"}

func genInt(r *Rng) *Sx {
	if r.Intn(12) == 0 {
		return A(Pick(r, bigInts...))
	}
	return I(r.Range(-2, 4))
}

func genStr(r *Rng) *Sx {
	n := r.Intn(4)
	if n == 0 {
		return L(A("s"))
	}
	s := ""
	for i := 0; i < n; i++ {
		s += Pick(r, "a", "a", "b", "c")
	}
	return L(A("s"), A(s))
}

func genKey(r *Rng, key string) *Sx {
	if key == "string" {
		return Pick(r, L(A("s")), L(A("s"), A("a")), L(A("s"), A("b")), L(A("s"), A("ab")))
	}
	return I(r.Range(-1, 3))
}

func genEntries(r *Rng, t *Ty, depth int, withVals bool) []*Sx {
	n := r.Intn(4)
	seen := map[string]bool{}
	out := []*Sx{}
	for i := 0; i < n; i++ {
		k := genKey(r, t.Key)
		if seen[k.String()] {
			continue
		}
		seen[k.String()] = true
		if withVals {
			out = append(out, L(k, genVal(r, t.E[0], depth-1)))
		} else {
			out = append(out, k)
		}
	}
	return out
}

func genVal(r *Rng, t *Ty, depth int) *Sx {
	hist["val:"+t.K]++
	switch t.K {
	case "int":
		return genInt(r)
	case "string":
		return genStr(r)
	case "bool":
		return A(Pick(r, "true", "false"))
	case "unit":
		return A("unit")
	case "bytes":
		if r.Intn(4) == 0 {
			return A("nilbytes")
		}
		xs := []*Sx{A("bytes")}
		for i, n := 0, r.Intn(4); i < n; i++ {
			xs = append(xs, I(Pick(r, 0, 1, 65, 97, 255)))
		}
		return L(xs...)
	case "time":
		return L(A("time"), I(Pick(r, 0, 1, 1000, -5, 3600000000000)), I(Pick(r, 0, 0, 1, -2)))
	case "option":
		if r.Intn(3) == 0 {
			return A("none")
		}
		return L(A("some"), genVal(r, t.E[0], depth-1))
	case "seq", "slice":
		if r.Intn(6) == 0 {
			return A("nilseq")
		}
		xs := []*Sx{A("seq")}
		for i, n := 0, r.Intn(4); i < n; i++ {
			xs = append(xs, genVal(r, t.E[0], depth-1))
		}
		return L(xs...)
	case "ptr":
		if r.Intn(4) == 0 {
			return A("nil")
		}
		return L(A("ptr"), newAddr(), genVal(r, t.E[0], depth-1))
	case "tuple", "hlist":
		xs := []*Sx{A(map[string]string{"tuple": "tup", "hlist": "hl"}[t.K])}
		for _, e := range t.E {
			xs = append(xs, genVal(r, e, depth-1))
		}
		return L(xs...)
	case "gomap":
		if r.Intn(6) == 0 {
			return A("nilmap")
		}
		return L(append([]*Sx{A("map")}, genEntries(r, t, depth, true)...)...)
	case "fpmap":
		return L(append([]*Sx{A("map")}, genEntries(r, t, depth, true)...)...)
	case "set":
		return L(append([]*Sx{A("set")}, genEntries(r, t, depth, false)...)...)
	case "try":
		if r.Intn(3) == 0 {
			return L(A("fail"), I(r.Range(1, 3)))
		}
		return L(A("succ"), genVal(r, t.E[0], depth-1))
	case "dual":
		return L(A("dual"), genVal(r, t.E[0], depth-1))
	case "eval":
		return L(A("eval"), genVal(r, t.E[0], depth-1))
	case "endo":
		xs := []*Sx{A("fn")}
		for i, n := 0, r.Intn(3); i < n; i++ {
			xs = append(xs, L(I(r.Range(-2, 3)), I(r.Range(-3, 3))))
		}
		return L(xs...)
	}
	panic("genVal " + t.String())
}

// readdr: the same content behind fresh pointers.
func readdr(t *Ty, v *Sx) *Sx {
	if !v.IsL {
		return v
	}
	switch t.K {
	case "ptr":
		return L(A("ptr"), newAddr(), readdr(t.E[0], v.List[2]))
	case "option", "try", "dual", "eval":
		if v.Head() == "fail" {
			return v
		}
		return L(v.List[0], readdr(t.E[0], v.List[1]))
	case "seq", "slice":
		xs := []*Sx{v.List[0]}
		for _, x := range v.List[1:] {
			xs = append(xs, readdr(t.E[0], x))
		}
		return L(xs...)
	case "tuple", "hlist":
		xs := []*Sx{v.List[0]}
		for i, x := range v.List[1:] {
			xs = append(xs, readdr(t.E[i], x))
		}
		return L(xs...)
	case "gomap", "fpmap":
		xs := []*Sx{v.List[0]}
		for _, kv := range v.List[1:] {
			xs = append(xs, L(kv.List[0], readdr(t.E[0], kv.List[1])))
		}
		return L(xs...)
	}
	return v
}

func isEmptySeq(v *Sx) bool { return !v.IsL || len(v.List) == 1 }

// tweak: a value that differs from v in one place (or is another representation of the same value).
func tweak(r *Rng, t *Ty, v *Sx, depth int) *Sx {
	switch t.K {
	case "int":
		n, err := strconv.ParseInt(v.Atom, 10, 64)
		if err != nil || r.Intn(4) == 0 {
			return genInt(r)
		}
		return I(int(n) + Pick(r, 1, -1, 3, -3))
	case "string":
		s := ""
		if len(v.List) > 1 {
			s = v.List[1].Atom
		}
		switch {
		case s != "" && r.Intn(3) == 0:
			s = s[:len(s)-1]
		case r.Bool():
			s += Pick(r, "a", "b")
		default:
			return genStr(r)
		}
		if s == "" {
			return L(A("s"))
		}
		return L(A("s"), A(s))
	case "bool":
		if v.Atom == "true" {
			return A("false")
		}
		return A("true")
	case "time":
		if r.Bool() { // the same instant seen from another location
			return L(A("time"), v.List[1], I(v.List[2].Int()+1))
		}
		return L(A("time"), I(v.List[1].Int()+Pick(r, 1, -1)), v.List[2])
	case "option":
		if !v.IsL {
			return L(A("some"), genVal(r, t.E[0], depth-1))
		}
		if r.Intn(4) == 0 {
			return A("none")
		}
		return L(A("some"), tweak(r, t.E[0], v.List[1], depth-1))
	case "seq", "slice", "bytes":
		nilName, head := "nilseq", "seq"
		gen := func() *Sx { return I(Pick(r, 0, 1, 65, 97, 255)) }
		var et *Ty
		if t.K == "bytes" {
			nilName, head = "nilbytes", "bytes"
		} else {
			et = t.E[0]
			gen = func() *Sx { return genVal(r, et, depth-1) }
		}
		if isEmptySeq(v) {
			switch r.Intn(3) {
			case 0: // nil <-> empty
				if v.IsL {
					return A(nilName)
				}
				return L(A(head))
			default:
				return L(A(head), gen())
			}
		}
		xs := append([]*Sx{}, v.List...)
		n := len(xs) - 1
		switch r.Intn(6) {
		case 0:
			return L(xs[:n]...) // drop last: a proper prefix
		case 1:
			return L(append(xs, gen())...) // extend
		case 2:
			if n >= 2 { // swap two elements
				i := 1 + r.Intn(n-1)
				xs[i], xs[i+1] = xs[i+1], xs[i]
				return L(xs...)
			}
			fallthrough
		default:
			i := 1 + r.Intn(n)
			if et == nil {
				xs[i] = gen()
			} else {
				xs[i] = tweak(r, et, xs[i], depth-1)
			}
			return L(xs...)
		}
	case "ptr":
		if !v.IsL {
			return L(A("ptr"), newAddr(), genVal(r, t.E[0], depth-1))
		}
		if r.Intn(5) == 0 {
			return A("nil")
		}
		return L(A("ptr"), newAddr(), tweak(r, t.E[0], v.List[2], depth-1))
	case "tuple", "hlist":
		if len(t.E) == 0 {
			return v
		}
		xs := append([]*Sx{}, v.List...)
		i := r.Intn(len(t.E))
		xs[i+1] = tweak(r, t.E[i], xs[i+1], depth-1)
		return L(xs...)
	case "gomap", "fpmap":
		if !v.IsL || len(v.List) == 1 {
			if v.IsL && t.K == "gomap" && r.Bool() {
				return A("nilmap")
			}
			if !v.IsL && r.Bool() {
				return L(A("map"))
			}
			return L(A("map"), L(genKey(r, t.Key), genVal(r, t.E[0], depth-1)))
		}
		xs := append([]*Sx{}, v.List...)
		n := len(xs) - 1
		switch r.Intn(5) {
		case 0:
			i := 1 + r.Intn(n)
			return L(append(xs[:i:i], xs[i+1:]...)...)
		case 1:
			k := genKey(r, t.Key)
			for _, kv := range xs[1:] {
				if kv.List[0].String() == k.String() {
					return L(xs...)
				}
			}
			return L(append(xs, L(k, genVal(r, t.E[0], depth-1)))...)
		case 2: // another iteration/insertion order of the same map
			for i := n; i > 1; i-- {
				j := 1 + r.Intn(i)
				xs[i], xs[j] = xs[j], xs[i]
			}
			return L(xs...)
		default:
			i := 1 + r.Intn(n)
			xs[i] = L(xs[i].List[0], tweak(r, t.E[0], xs[i].List[1], depth-1))
			return L(xs...)
		}
	case "set":
		xs := append([]*Sx{}, v.List...)
		if len(xs) > 1 && r.Bool() {
			i := 1 + r.Intn(len(xs)-1)
			return L(append(xs[:i:i], xs[i+1:]...)...)
		}
		k := genKey(r, t.Key)
		for _, x := range xs[1:] {
			if x.String() == k.String() {
				return L(xs...)
			}
		}
		return L(append(xs, k)...)
	case "try":
		if v.Head() == "fail" {
			if r.Bool() {
				return L(A("fail"), I(v.List[1].Int()%3+1))
			}
			return L(A("succ"), genVal(r, t.E[0], depth-1))
		}
		if r.Intn(4) == 0 {
			return L(A("fail"), I(r.Range(1, 3)))
		}
		return L(A("succ"), tweak(r, t.E[0], v.List[1], depth-1))
	case "dual", "eval":
		return L(v.List[0], tweak(r, t.E[0], v.List[1], depth-1))
	}
	return genVal(r, t, depth)
}

// near: a value that is likely to be equal or almost equal to v.
func near(r *Rng, t *Ty, v *Sx, depth int) *Sx {
	switch r.Intn(10) {
	case 0, 1, 2:
		hist["near:readdr"]++
		return readdr(t, v)
	case 3:
		hist["near:same"]++
		return v
	case 4:
		hist["near:fresh"]++
		return genVal(r, t, depth)
	}
	hist["near:tweak"]++
	return tweak(r, t, v, depth)
}
