// Correspondence + direct property harness for the type-class instances:
// C09 (eq, hash), C10 (ord, Sort/Min/Max), C11 (monoid, semigroup, Reduce/FoldMap).
//
// An operation line names an instance EXPRESSION, wire values and an operation; the expression is
// interpreted by calling the real generic combinators (package tcbox). Law lines `(law …)` are the
// direct, model-free evaluation of the property statement on the implementation.
package main

import (
	"flag"
	"fmt"
	"os"
	"sort"
	"strconv"
	"strings"

	"github.com/csgura/fp"
	"github.com/csgura/fp/iterator"
	"github.com/csgura/fp/list"
	"github.com/csgura/fp/seq"
	. "verifharness/common"
	. "verifharness/tcbox"
)

var hist = map[string]int{}

var only = map[string]bool{} // classes to generate (empty = all)

var strictC04 = false // report seq.Sort mutating its input (property C04) as a failure of this check

func showB(b bool) string { return strconv.FormatBool(b) }

func guard(f func() string) (out string) {
	defer func() {
		if p := recover(); p != nil {
			out = "panic(" + ShowPanic(p) + ")"
		}
	}()
	return f()
}

func buildAll(t *Ty, vs []*Sx, env *Env) []any {
	out := make([]any, len(vs))
	for i, v := range vs {
		out[i] = Build(t, v, env)
	}
	return out
}

// canonRuns: elements the order cannot tell apart may come out of an unstable sort in any order;
// the renderings inside each maximal run of Eqv elements are sorted (the oracle does the same).
func canonRuns(o fp.Ord[any], t *Ty, xs []any) string {
	out := []string{}
	for i := 0; i < len(xs); {
		j := i + 1
		for j < len(xs) && o.Eqv(xs[i], xs[j]) {
			j++
		}
		run := []string{}
		for _, x := range xs[i:j] {
			run = append(run, ShowV(t, x))
		}
		sort.Strings(run)
		out = append(out, run...)
		i = j
	}
	return "[" + strings.Join(out, ",") + "]"
}

func sortBy(kind string, xs []any, o fp.Ord[any]) fp.Seq[any] {
	switch kind {
	case "seq":
		return seq.Sort(fp.Seq[any](xs), o)
	case "iter":
		return iterator.Sort(iterator.FromSeq(xs), o)
	}
	return list.Sort(list.Of(xs...), o)
}

func minBy(kind string, xs []any, o fp.Ord[any], max bool) fp.Option[any] {
	switch kind {
	case "seq":
		if max {
			return seq.Max(fp.Seq[any](xs), o)
		}
		return seq.Min(fp.Seq[any](xs), o)
	case "iter":
		if max {
			return iterator.Max(iterator.FromSeq(xs), o)
		}
		return iterator.Min(iterator.FromSeq(xs), o)
	}
	if max {
		return list.Max(list.Of(xs...), o)
	}
	return list.Min(list.Of(xs...), o)
}

func reduceBy(kind string, xs []any, m fp.Monoid[any]) any {
	switch kind {
	case "seq":
		return seq.Reduce(fp.Seq[any](xs), m)
	case "iter":
		return iterator.Reduce(iterator.FromSeq(xs), m)
	}
	return list.Reduce(list.Of(xs...), m)
}

func foldMapBy(kind string, xs []int, m fp.Monoid[any], f func(int) any) any {
	if kind == "seq" {
		return seq.FoldMap(fp.Seq[int](xs), m, f)
	}
	return list.FoldMap(list.Of(xs...), m, f)
}

func showOpt(t *Ty, o fp.Option[any]) string {
	if o.IsEmpty() {
		return "None"
	}
	return "Some(" + ShowV(t, o.Get()) + ")"
}

func ints(v *Sx) []int {
	out := []int{}
	for _, x := range elems(v) {
		out = append(out, sxInt(x))
	}
	return out
}

// runCase: the implementation's canonical answer to one operation line.
func runCase(op *Sx) string {
	a := op.List
	return guard(func() string {
		env := NewEnv()
		switch op.Head() {
		case "eqv":
			inst := a[2]
			t := TypeOf(inst)
			x, y := Build(t, a[3], env), Build(t, a[4], env)
			switch a[1].Atom {
			case "eq":
				return showB(EqOf(inst).Eqv(x, y))
			case "hash":
				return showB(HashOf(inst).Eqv(x, y))
			}
			return showB(OrdOf(inst).Eqv(x, y))
		case "hash":
			t := TypeOf(a[1])
			return strconv.FormatUint(uint64(HashOf(a[1]).Hash(Build(t, a[2], env))), 10)
		case "less", "compare", "lesseq", "min", "max":
			t := TypeOf(a[1])
			o := OrdOf(a[1])
			x, y := Build(t, a[2], env), Build(t, a[3], env)
			switch op.Head() {
			case "less":
				return showB(o.Less(x, y))
			case "compare":
				return strconv.Itoa(o.Compare(x, y))
			case "lesseq":
				return showB(o.LessEq(x, y))
			case "min":
				return ShowV(t, o.Min(x, y))
			}
			return ShowV(t, o.Max(x, y))
		case "sort":
			t := TypeOf(a[2])
			o := OrdOf(a[2])
			return canonRuns(o, t, sortBy(a[1].Atom, buildAll(t, elems(a[3]), env), o))
		case "minof", "maxof":
			t := TypeOf(a[2])
			return showOpt(t, minBy(a[1].Atom, buildAll(t, elems(a[3]), env), OrdOf(a[2]), op.Head() == "maxof"))
		case "empty":
			return ShowV(TypeOf(a[1]), MonoidOf(a[1]).Empty())
		case "combine":
			t := TypeOf(a[1])
			return ShowV(t, MonoidOf(a[1]).Combine(Build(t, a[2], env), Build(t, a[3], env)))
		case "sgcombine":
			t := TypeOf(a[1])
			return ShowV(t, SemigroupOf(a[1]).Combine(Build(t, a[2], env), Build(t, a[3], env)))
		case "reduce":
			t := TypeOf(a[2])
			return ShowV(t, reduceBy(a[1].Atom, buildAll(t, elems(a[3]), env), MonoidOf(a[2])))
		case "foldmap":
			t := TypeOf(a[2])
			tbl := buildAll(t, elems(a[3]), env)
			f := func(x int) any { return tbl[Emod(x, len(tbl))] }
			return ShowV(t, foldMapBy(a[1].Atom, ints(a[4]), MonoidOf(a[2]), f))
		}
		return "bad-op"
	})
}

// ------------------------------------------------------------------------------------ direct laws
// (law eq I a b c) (law hash I a b c) (law ord I a b c) (law mon M a b c) (law sg S a b c)
// (law sort kind I xs) (law reduce M xs) (law foldmap M (tbl…) xs)

type reporter func(key, what string)

func perms3(a, b, c any) [][3]any {
	return [][3]any{{a, b, c}, {a, c, b}, {b, a, c}, {b, c, a}, {c, a, b}, {c, b, a}}
}

func sign(n int) int {
	if n < 0 {
		return -1
	}
	if n > 0 {
		return 1
	}
	return 0
}

func checkLaw(law *Sx, fail reporter) (checks int) {
	defer func() {
		if p := recover(); p != nil {
			fail("panic", "panic("+ShowPanic(p)+")")
		}
	}()
	a := law.List
	ck := func(ok bool, key, what string) {
		checks++
		if !ok {
			fail(key, what)
		}
	}
	switch a[1].Atom {
	case "eq", "hash":
		inst := a[2]
		key := a[1].Atom + "." + instHead(inst)
		t := TypeOf(inst)
		env := NewEnv()
		vs := buildAll(t, a[3:6], env)
		var e fp.Eq[any]
		var h fp.Hashable[any]
		if a[1].Atom == "eq" {
			e = EqOf(inst)
		} else {
			h = HashOf(inst)
			e = h
		}
		for i, x := range vs {
			ck(e.Eqv(x, x), key+"/reflexive", fmt.Sprintf("Eqv(x,x)=false for x=%s", a[3+i]))
			for j, y := range vs {
				exy := e.Eqv(x, y)
				ck(exy == e.Eqv(y, x), key+"/symmetric", fmt.Sprintf("Eqv(x,y)=%v but Eqv(y,x)=%v for x=%s y=%s", exy, !exy, a[3+i], a[3+j]))
				want := refEqv(inst, a[3+i], a[3+j])
				ck(exy == want, key+"/pairwise", fmt.Sprintf("Eqv(x,y)=%v but components pairwise equal=%v for x=%s y=%s", exy, want, a[3+i], a[3+j]))
				if h != nil && exy {
					ck(h.Hash(x) == h.Hash(y), key+"/hash-agrees", fmt.Sprintf("Eqv(x,y) but Hash(x)=%d Hash(y)=%d for x=%s y=%s", h.Hash(x), h.Hash(y), a[3+i], a[3+j]))
				}
			}
		}
		for _, p := range perms3(vs[0], vs[1], vs[2]) {
			if e.Eqv(p[0], p[1]) && e.Eqv(p[1], p[2]) {
				ck(e.Eqv(p[0], p[2]), key+"/transitive", fmt.Sprintf("Eqv(x,y) and Eqv(y,z) but not Eqv(x,z): %s %s %s", ShowV(t, p[0]), ShowV(t, p[1]), ShowV(t, p[2])))
			}
		}
		if h != nil {
			// deterministic: the same value hashed again, and an independently built copy
			copyV := Build(t, a[3], NewEnv())
			h2 := HashOf(inst)
			ck(h.Hash(vs[0]) == h.Hash(vs[0]) && h.Hash(vs[0]) == h2.Hash(copyV), key+"/hash-deterministic",
				fmt.Sprintf("Hash differs between two evaluations for x=%s", a[3]))
		}
	case "ord":
		inst := a[2]
		key := "ord." + instHead(inst)
		t := TypeOf(inst)
		env := NewEnv()
		vs := buildAll(t, a[3:6], env)
		o := OrdOf(inst)
		for i, x := range vs {
			for j, y := range vs {
				in := fmt.Sprintf("x=%s y=%s", a[3+i], a[3+j])
				lxy, lyx, exy := o.Less(x, y), o.Less(y, x), o.Eqv(x, y)
				n := 0
				for _, b := range []bool{lxy, lyx, exy} {
					if b {
						n++
					}
				}
				ck(n == 1, key+"/trichotomy", fmt.Sprintf("Less(x,y)=%v Less(y,x)=%v Eqv(x,y)=%v for %s", lxy, lyx, exy, in))
				want := refLess(inst, a[3+i], a[3+j])
				ck(lxy == want, key+"/order", fmt.Sprintf("Less(x,y)=%v but the lexicographic/named order says %v for %s", lxy, want, in))
				c := o.Compare(x, y)
				ck((c < 0) == lxy && (c > 0) == lyx && (c == 0) == exy, key+"/compare", fmt.Sprintf("Compare(x,y)=%d Less(x,y)=%v Less(y,x)=%v Eqv=%v for %s", c, lxy, lyx, exy, in))
				ck(sign(c) == -sign(o.Compare(y, x)), key+"/compare-antisym", fmt.Sprintf("Compare(x,y)=%d Compare(y,x)=%d for %s", c, o.Compare(y, x), in))
				ck(o.LessEq(x, y) == (lxy || exy), key+"/lesseq", fmt.Sprintf("LessEq(x,y)=%v Less=%v Eqv=%v for %s", o.LessEq(x, y), lxy, exy, in))
				mn, mx := o.Min(x, y), o.Max(x, y)
				smn, smx, sx, sy := ShowV(t, mn), ShowV(t, mx), ShowV(t, x), ShowV(t, y)
				ck((smn == sx || smn == sy) && !o.Less(x, mn) && !o.Less(y, mn), key+"/min", fmt.Sprintf("Min(x,y)=%s for %s", smn, in))
				ck((smx == sx || smx == sy) && !o.Less(mx, x) && !o.Less(mx, y), key+"/max", fmt.Sprintf("Max(x,y)=%s for %s", smx, in))
				// Reversed flips, ThenComparing(self) changes nothing
				rv := o.Reversed()
				ck(rv.Less(x, y) == lyx && rv.Eqv(x, y) == exy, key+"/reversed", fmt.Sprintf("Reversed().Less(x,y)=%v Less(y,x)=%v for %s", rv.Less(x, y), lyx, in))
				tc := o.ThenComparing(rv)
				ck(tc.Less(x, y) == lxy && tc.Eqv(x, y) == exy, key+"/thenComparing-ties-only", fmt.Sprintf("ThenComparing(Reversed()).Less(x,y)=%v Less(x,y)=%v for %s", tc.Less(x, y), lxy, in))
			}
		}
		for _, p := range perms3(vs[0], vs[1], vs[2]) {
			if o.Less(p[0], p[1]) && o.Less(p[1], p[2]) {
				ck(o.Less(p[0], p[2]), key+"/transitive", fmt.Sprintf("Less(x,y) and Less(y,z) but not Less(x,z): %s %s %s", ShowV(t, p[0]), ShowV(t, p[1]), ShowV(t, p[2])))
			}
			if o.Eqv(p[0], p[1]) && o.Eqv(p[1], p[2]) {
				ck(o.Eqv(p[0], p[2]), key+"/eqv-transitive", fmt.Sprintf("Eqv(x,y) and Eqv(y,z) but not Eqv(x,z): %s %s %s", ShowV(t, p[0]), ShowV(t, p[1]), ShowV(t, p[2])))
			}
		}
	case "mon", "sg":
		inst := a[2]
		sg := a[1].Atom == "sg"
		key := map[bool]string{false: "monoid.", true: "semigroup."}[sg] + instHead(inst)
		t := TypeOf(inst)
		env := NewEnv()
		vs := buildAll(t, a[3:6], env)
		var s fp.Semigroup[any]
		var m fp.Monoid[any]
		if sg {
			s = SemigroupOf(inst)
		} else {
			m = MonoidOf(inst)
			s = m
		}
		sh := func(v any) string { return ShowV(t, v) }
		x, y, z := vs[0], vs[1], vs[2]
		l, r := sh(s.Combine(s.Combine(x, y), z)), sh(s.Combine(x, s.Combine(y, z)))
		ck(l == r, key+"/associative", fmt.Sprintf("(x+y)+z=%s x+(y+z)=%s", l, r))
		for i, u := range vs {
			for j, v := range vs {
				got, want := sh(s.Combine(u, v)), showSx(t, refCombine(inst, a[3+i], a[3+j], sg))
				ck(got == want, key+"/computes", fmt.Sprintf("Combine(x,y)=%s but the name says %s for x=%s y=%s", got, want, a[3+i], a[3+j]))
			}
			if m != nil {
				ck(sh(m.Combine(m.Empty(), u)) == sh(u), key+"/left-identity", fmt.Sprintf("Combine(Empty,x)=%s for x=%s", sh(m.Combine(m.Empty(), u)), a[3+i]))
				ck(sh(m.Combine(u, m.Empty())) == sh(u), key+"/right-identity", fmt.Sprintf("Combine(x,Empty)=%s for x=%s", sh(m.Combine(u, m.Empty())), a[3+i]))
			}
		}
		if m != nil {
			ck(sh(m.Empty()) == showSx(t, refEmpty(inst)), key+"/empty", fmt.Sprintf("Empty=%s but the name says %s", sh(m.Empty()), showSx(t, refEmpty(inst))))
		}
	case "sort":
		kind, inst := a[2].Atom, a[3]
		t := TypeOf(inst)
		o := OrdOf(inst)
		env := NewEnv()
		xs := buildAll(t, elems(a[4]), env)
		before := showAll(t, xs)
		out := sortBy(kind, xs, o)
		after := showAll(t, xs)
		key := kind + ".Sort"
		ok := true
		for i := range out {
			for j := i + 1; j < len(out); j++ {
				if o.Less(out[j], out[i]) {
					ok = false
				}
			}
		}
		ck(ok, key+"/ordered", fmt.Sprintf("output %s is not ordered", strings.Join(showAll(t, out), ",")))
		s1, s2 := append([]string{}, before...), showAll(t, out)
		sort.Strings(s1)
		sort.Strings(s2)
		ck(strings.Join(s1, ",") == strings.Join(s2, ","), key+"/permutation", fmt.Sprintf("output %v is not a permutation of input %v", showAll(t, out), before))
		if strings.Join(before, ",") != strings.Join(after, ",") {
			hist["note:"+kind+".Sort-mutated-its-input(C04)"]++
			if strictC04 {
				ck(false, key+"/input-unmodified(C04)", fmt.Sprintf("input was %v, is now %v", before, after))
			}
		}
		for _, max := range []bool{false, true} {
			name := map[bool]string{false: "Min", true: "Max"}[max]
			got := minBy(kind, buildAll(t, elems(a[4]), NewEnv()), o, max)
			if len(xs) == 0 {
				ck(got.IsEmpty(), kind+"."+name+"/empty", "defined for an empty input")
				continue
			}
			if got.IsEmpty() {
				ck(false, kind+"."+name+"/defined", "None for a non-empty input")
				continue
			}
			g := got.Get()
			member, extreme := false, true
			for _, x := range xs {
				if ShowV(t, x) == ShowV(t, g) {
					member = true
				}
				if (!max && o.Less(x, g)) || (max && o.Less(g, x)) {
					extreme = false
				}
			}
			ck(member, kind+"."+name+"/member", fmt.Sprintf("%s is not an element of the input", ShowV(t, g)))
			ck(extreme, kind+"."+name+"/extreme", fmt.Sprintf("%s is not a least/greatest element of %v", ShowV(t, g), before))
		}
	case "reduce":
		inst := a[2]
		t := TypeOf(inst)
		m := MonoidOf(inst)
		env := NewEnv()
		xs := buildAll(t, elems(a[3]), env)
		acc := m.Empty()
		for _, x := range xs {
			acc = m.Combine(acc, x)
		}
		want := ShowV(t, acc)
		for _, kind := range []string{"seq", "iter", "list"} {
			got := ShowV(t, reduceBy(kind, buildAll(t, elems(a[3]), NewEnv()), m))
			ck(got == want, kind+".Reduce/fold", fmt.Sprintf("Reduce=%s but the left-to-right fold of Combine from Empty is %s", got, want))
		}
	case "foldmap":
		inst := a[2]
		t := TypeOf(inst)
		m := MonoidOf(inst)
		env := NewEnv()
		tbl := buildAll(t, elems(a[3]), env)
		f := func(x int) any { return tbl[Emod(x, len(tbl))] }
		xs := ints(a[4])
		acc := m.Empty()
		for _, x := range xs {
			acc = m.Combine(acc, f(x))
		}
		want := ShowV(t, acc)
		for _, kind := range []string{"seq", "list"} {
			got := ShowV(t, foldMapBy(kind, xs, m, f))
			ck(got == want, kind+".FoldMap/fold", fmt.Sprintf("FoldMap=%s but the left-to-right fold is %s", got, want))
		}
	}
	return checks
}

func showAll(t *Ty, xs []any) []string {
	out := make([]string, len(xs))
	for i, x := range xs {
		out[i] = ShowV(t, x)
	}
	return out
}

// ------------------------------------------------------------------------------------ generation

func count(s *Sx, prefix string) {
	if s.IsL {
		if h := s.Head(); h != "" {
			hist[prefix+h]++
			if h == "tuple" {
				hist[fmt.Sprintf("%sarity:%02d", prefix, len(s.List)-1)]++
			}
		}
		for _, x := range s.List[1:] {
			count(x, prefix)
		}
	} else {
		hist[prefix+s.Atom]++
	}
}

type emitter struct {
	sink   *Sink
	checks int
}

func (e *emitter) op(parts ...*Sx) {
	op := L(parts...)
	hist["op:"+op.Head()]++
	e.sink.Case(op.String(), func() string {
		out := runCase(op)
		switch out {
		case "true", "false":
			hist["result:"+op.Head()+"="+out]++
		}
		return out
	})
}

func (e *emitter) law(parts ...*Sx) {
	law := L(append([]*Sx{A("law")}, parts...)...)
	in := law.String()
	e.checks += checkLaw(law, func(key, what string) { e.sink.DirectFail(key, in, what) })
}

func triple(r *Rng, t *Ty, depth int) (a, b, c *Sx) {
	a = genVal(r, t, depth)
	b = near(r, t, a, depth)
	if r.Bool() {
		c = near(r, t, b, depth)
	} else {
		c = near(r, t, a, depth)
	}
	return
}

func valueList(r *Rng, t *Ty, depth int) *Sx {
	xs := []*Sx{A("seq")}
	n := Pick(r, 0, 1, 2, 3, 4, 5, 6, 8, 13)
	for i := 0; i < n; i++ {
		if i > 0 && r.Intn(3) > 0 {
			xs = append(xs, near(r, t, xs[1+r.Intn(i)], depth))
		} else {
			xs = append(xs, genVal(r, t, depth))
		}
	}
	return L(xs...)
}

func genCase(r *Rng, e *emitter) {
	nextAddr = 0
	depth := r.Intn(4)
	classes := []string{"eq", "eq", "hash", "hash", "ord", "ord", "ord", "mon", "mon", "sg"}
	cls := Pick(r, classes...)
	for len(only) > 0 && !only[cls] {
		cls = Pick(r, classes...)
	}
	switch cls {
	case "eq":
		inst := genEq(r, depth)
		count(inst, "eq:")
		t := TypeOf(inst)
		a, b, c := triple(r, t, depth)
		e.op(A("eqv"), A("eq"), inst, a, b)
		e.op(A("eqv"), A("eq"), inst, b, c)
		e.law(A("eq"), inst, a, b, c)
	case "hash":
		inst := genHash(r, depth)
		count(inst, "hash:")
		t := TypeOf(inst)
		a, b, c := triple(r, t, depth)
		e.op(A("eqv"), A("hash"), inst, a, b)
		e.op(A("hash"), inst, a)
		e.op(A("hash"), inst, b)
		e.law(A("hash"), inst, a, b, c)
	case "ord":
		inst := genOrd(r, depth)
		count(inst, "ord:")
		t := TypeOf(inst)
		a, b, c := triple(r, t, depth)
		e.op(A("less"), inst, a, b)
		e.op(A("less"), inst, b, a)
		e.op(A("compare"), inst, a, b)
		e.op(A("eqv"), A("ord"), inst, b, c)
		e.op(A(Pick(r, "lesseq", "min", "max")), inst, a, c)
		e.law(A("ord"), inst, a, b, c)
		if r.Intn(2) == 0 {
			kind := Pick(r, "seq", "iter", "list")
			xs := valueList(r, t, depth)
			hist[fmt.Sprintf("sortlen:%02d", len(xs.List)-1)]++
			e.op(A("sort"), A(kind), inst, xs)
			e.op(A(Pick(r, "minof", "maxof")), A(kind), inst, xs)
			e.law(A("sort"), A(kind), inst, xs)
		}
	case "mon":
		inst := genMon(r, depth)
		count(inst, "mon:")
		t := TypeOf(inst)
		a, b, c := triple(r, t, depth)
		e.op(A("empty"), inst)
		e.op(A("combine"), inst, a, b)
		e.op(A("combine"), inst, b, c)
		e.law(A("mon"), inst, a, b, c)
		xs := valueList(r, t, depth)
		hist[fmt.Sprintf("reducelen:%02d", len(xs.List)-1)]++
		e.op(A("reduce"), A(Pick(r, "seq", "iter", "list")), inst, xs)
		e.law(A("reduce"), inst, xs)
		if r.Intn(2) == 0 {
			tbl := L(A("tbl"), a, b, c)
			is := []*Sx{A("seq")}
			for i, n := 0, Pick(r, 0, 1, 2, 3, 5, 9); i < n; i++ {
				is = append(is, I(r.Range(-3, 8)))
			}
			e.op(A("foldmap"), A(Pick(r, "seq", "list")), inst, tbl, L(is...))
			e.law(A("foldmap"), inst, tbl, L(is...))
		}
	case "sg":
		inst := genSg(r, depth)
		count(inst, "sg:")
		t := TypeOf(inst)
		a, b, c := triple(r, t, depth)
		e.op(A("sgcombine"), inst, a, b)
		e.op(A("sgcombine"), inst, b, c)
		e.law(A("sg"), inst, a, b, c)
	}
}

// probes: small fixed inputs that are run on every seed — the edge cases (empty, singleton, nil,
// zero values, every arity) and the minimal inputs on which a one-line mistake in a combinator shows.
func probes(e *emitter) {
	for _, line := range probeLines {
		s, err := Parse(line)
		if err != nil {
			panic("bad probe " + line)
		}
		if s.Head() == "law" {
			if len(only) > 0 && !only[probeClass(s)] {
				continue
			}
			hist["probe:law"]++
			in := s.String()
			e.checks += checkLaw(s, func(key, what string) { e.sink.DirectFail(key, in, what) })
		} else {
			if len(only) > 0 && !only[probeClass(s)] {
				continue
			}
			hist["probe:op"]++
			e.op(s.List...)
		}
	}
	// every tuple arity for every class, a difference at every position
	on := func(c string) bool { return len(only) == 0 || only[c] }
	for n := 1; n <= MaxTuple; n++ {
		mk := func(leaf string, val func(i int) *Sx) (*Sx, *Sx) {
			is, vs := []*Sx{A("tuple")}, []*Sx{A("tup")}
			for i := 0; i < n; i++ {
				is = append(is, A(leaf))
				vs = append(vs, val(i))
			}
			return L(is...), L(vs...)
		}
		inst, a := mk("int", func(i int) *Sx { return I(i) })
		bump := func(j int) *Sx { // a with position j increased
			_, v := mk("int", func(i int) *Sx {
				if i == j {
					return I(i + 1)
				}
				return I(i)
			})
			return v
		}
		for j := 0; j < n; j++ {
			b, c := bump(j), bump((j+1)%n)
			if on("eq") {
				e.op(A("eqv"), A("eq"), inst, a, b)
				e.law(A("eq"), inst, a, b, c)
			}
			if on("hash") {
				e.op(A("hash"), inst, b)
				e.law(A("hash"), inst, a, b, c)
			}
			if on("ord") {
				e.op(A("compare"), inst, a, b) // a < b: cheap; the other direction is exponential in j
				e.op(A("less"), inst, a, b)
				if n <= maxOrdArity+3 {
					e.law(A("ord"), inst, a, b, c)
				}
			}
		}
		if n >= 2 && on("ord") {
			// "greater at position j, smaller right after it": both directions are decided at position j, so with
			// j = 0 the comparison is cheap at EVERY arity (the exponential cost only comes from long equal
			// prefixes); for small arities every j is probed. Catches a dead or mistyped "head is greater" guard
			// of one TupleN (all larger arities recurse through it).
			maxJ := 0
			if n <= maxOrdArity+3 {
				maxJ = n - 2
			}
			for j := 0; j <= maxJ; j++ {
				_, hi := mk("int", func(i int) *Sx {
					switch i {
					case j:
						return I(2)
					case j + 1:
						return I(1)
					}
					return I(0)
				})
				_, lo := mk("int", func(i int) *Sx {
					switch i {
					case j:
						return I(1)
					case j + 1:
						return I(2)
					}
					return I(0)
				})
				for _, o := range []string{"less", "compare", "lesseq", "min", "max"} {
					e.op(A(o), inst, hi, lo)
					e.op(A(o), inst, lo, hi)
				}
			}
		}
		if n >= 2 && on("mon") {
			minst, x := mk("string", func(i int) *Sx { return mkStr("a") })
			_, y := mk("string", func(i int) *Sx { return mkStr("b") })
			_, z := mk("string", func(i int) *Sx { return mkStr(strings.Repeat("c", i%3)) })
			e.op(A("combine"), minst, x, y)
			e.op(A("empty"), minst)
			e.law(A("mon"), minst, x, y, z)
		}
	}
}

func probeClass(s *Sx) string {
	h := s.Head()
	if h == "law" {
		h = s.List[1].Atom
	}
	switch h {
	case "eq", "hash", "ord", "mon", "sg":
		return h
	case "eqv":
		return s.List[1].Atom
	case "less", "compare", "lesseq", "min", "max", "sort", "minof", "maxof":
		return "ord"
	case "sgcombine":
		return "sg"
	}
	return "mon"
}

var probeLines = []string{
	// C09
	"(law eq (seq int) nilseq (seq) (seq 0))",
	"(law eq (slice string) nilseq (seq) (seq (s)))",
	"(law eq (ptr int) nil (ptr 1 5) (ptr 2 5))",
	"(law eq ptrgiven (ptr 1 0) nil (ptr 2 0))",
	"(law eq (option (ptr int)) none (some nil) (some (ptr 1 0)))",
	"(law eq (gomap int int) nilmap (map) (map (0 0)))",
	"(law eq (gomap int int) (map (1 1) (2 2)) (map (2 2) (1 1)) (map (1 1) (3 2)))",
	"(law eq (fpmap string int) (map ((s a) 1)) (map ((s a) 1) ((s b) 2)) (map ((s b) 2) ((s a) 1)))",
	"(law eq (hcons int (hcons string hnil)) (hl 1 (s a)) (hl 1 (s b)) (hl 2 (s a)))",
	"(law eq time (time 0 0) (time 0 1) (time 1 0))",
	"(law eq bytes nilbytes (bytes) (bytes 0))",
	"(law eq (contramap mod3 int) 1 4 2)",
	"(law hash (seq int) nilseq (seq) (seq 0))",
	"(law hash (seq (seq int)) (seq nilseq) (seq (seq)) (seq))",
	"(law hash (ptr int) nil (ptr 1 0) (ptr 2 0))",
	"(law hash (ptr (seq int)) (ptr 1 (seq 1 2)) (ptr 2 (seq 1 2)) (ptr 3 (seq 2 1)))",
	"(law hash (option int) none (some 0) (some 1))",
	"(law hash (hcons int (hcons int hnil)) (hl 1 2) (hl 2 1) (hl 1 2))",
	"(law hash (hcons int hnil) (hl 1) (hl 2) (hl 1))",
	"(law hash int 9223372036854775807 -9223372036854775808 4294967296)",
	"(law hash int 4294967295 -1 0)",
	"(law hash string (s) (s a) (s ab))",
	"(law hash bytes nilbytes (bytes) (bytes 97))",
	"(hash int 9223372036854775807)", "(hash int -9223372036854775808)", "(hash int 4294967296)", "(hash int 4294967295)", "(hash int -1)",
	"(hash string (s))", "(hash string (s abc))", "(hash bytes (bytes 97 98 99))", "(hash (seq int) nilseq)", "(hash hnil (hl))",
	// C10
	"(law ord (seq int) (seq 2 1) (seq 1 2) (seq 1))",
	"(law ord (slice int) (seq 2 1) (seq 1 2) (seq))",
	"(law ord (seq int) nilseq (seq) (seq 0))",
	"(law ord (seq (option int)) (seq (some 1) none) (seq none (some 1)) (seq none))",
	"(law ord (option int) none (some 0) (some 1))",
	"(law ord (ptr int) nil (ptr 1 0) (ptr 2 1))",
	"(law ord (tuple int int) (tup 1 2) (tup 2 1) (tup 1 3))",
	"(law ord (hcons int (hcons int hnil)) (hl 1 2) (hl 2 1) (hl 1 3))",
	"(law ord (rev int) 1 2 3)",
	"(law ord (then (contramap mod3 int) int) 1 4 2)",
	"(law ord (then (givenfield len) string) (s b) (s ab) (s a))",
	"(law ord (fromcompare (cmpscaled 7)) 1 2 3)",
	"(law ord (fromcompare (cmpmod 3)) 1 4 2)",
	"(law ord (asord (ltmod 3)) 1 4 2)",
	"(law ord (new int lt) 1 2 3)",
	"(law ord time (time 0 0) (time 0 1) (time 1 0))",
	"(law ord string (s) (s a) (s ab))",
	"(law sort seq int (seq))", "(law sort iter int (seq))", "(law sort list int (seq))",
	"(law sort seq int (seq 1))", "(law sort seq int (seq 2 1))", "(law sort iter int (seq 3 1 2))", "(law sort list int (seq 3 1 2 1))",
	"(law sort seq (seq int) (seq (seq 2 1) (seq 1 2) (seq 1) (seq)))",
	"(sort seq int (seq 3 1 2))", "(sort iter int (seq))", "(sort list (rev int) (seq 1 2 3))", "(minof seq int (seq))", "(maxof list int (seq 1))",
	// C11
	"(law mon all true false true)", "(law mon all false false true)",
	"(law mon any true false false)",
	"(law sg all true false true)", "(law sg any false true false)",
	"(law mon sum 9223372036854775807 1 -9223372036854775808)",
	"(law mon product 3037000500 3037000500 -1)",
	"(law mon (option sum) none (some 1) (some 2))",
	"(law sg (option sum) none (some 1) (some 2))",
	"(law mon (try string) (fail 1) (fail 2) (succ (s a)))",
	"(law mon (ptr sum) nil (ptr 1 1) (ptr 2 2))",
	"(law mon (dual string) (dual (s a)) (dual (s b)) (dual (s c)))",
	"(law mon endo (fn) (fn (2 1)) (fn (1 3)))",
	"(law mon (mergegomap int) nilmap (map (1 (s a))) (map (1 (s b)) (2 (s c))))",
	"(law mon (mergemap int) (map) (map (1 (s a))) (map (1 (s b)) (2 (s c))))",
	"(law mon (mergeset string) (set) (set (s a)) (set (s a) (s b)))",
	"(law mon mergeseq nilseq (seq) (seq 1))",
	"(law mon (imap (addk 5) sum) 1 2 3)",
	"(law mon (hcons string (hcons sum hnil)) (hl (s a) 1) (hl (s b) 2) (hl (s) 0))",
	"(law reduce sum (seq))", "(law reduce sum (seq 1))", "(law reduce sum (seq 1 2 3))",
	"(law reduce string (seq (s a) (s b) (s c)))",
	"(law reduce (dual string) (seq (dual (s a)) (dual (s b)) (dual (s c))))",
	"(law foldmap string (tbl (s a) (s b)) (seq 0 1 1))",
	"(law foldmap string (tbl (s a) (s b)) (seq))",
	"(reduce seq sum (seq))", "(reduce iter sum (seq 1))", "(reduce iter sum (seq 1 2 3))", "(reduce list string (seq (s a) (s b) (s c)))",
	"(foldmap seq string (tbl (s a) (s b)) (seq 0 1 1))", "(foldmap list string (tbl (s a) (s b)) (seq 0 1 1))",
	"(combine all true false)", "(combine all false false)", "(sgcombine all true false)", "(empty all)", "(empty (option sum))",
}

// scramble: common.NewRng(s+1) is NewRng(s) advanced by one draw; spread consecutive seeds apart.
func scramble(seed uint64) uint64 {
	z := seed + 0x9E3779B97F4A7C15
	z = (z ^ (z >> 30)) * 0xBF58476D1CE4E5B9
	z = (z ^ (z >> 27)) * 0x94D049BB133111EB
	return z ^ (z >> 31)
}

func main() {
	seed := flag.Uint64("seed", 1, "PRNG seed")
	n := flag.Int("n", 2000, "number of generated cases")
	out := flag.String("out", ".", "output directory")
	replay := flag.String("replay", "", "run one op line (or law line) and print the implementation's answer")
	opsFile := flag.String("ops", "", "run the op lines of this file instead of generating")
	onlyF := flag.String("only", "", "comma separated classes to generate: eq,hash,ord,mon,sg (default all)")
	flag.BoolVar(&strictC04, "c04", false, "also fail when seq.Sort modifies its input (property C04)")
	flag.Parse()
	for _, c := range strings.Split(*onlyF, ",") {
		if c != "" {
			only[c] = true
		}
	}
	if *replay != "" {
		op, err := Parse(*replay)
		if err != nil {
			fmt.Println("bad-op")
			os.Exit(2)
		}
		if op.Head() == "law" {
			nf := 0
			nc := checkLaw(op, func(key, what string) { nf++; fmt.Printf("FAIL %s\t%s\n", key, what) })
			fmt.Printf("%d checks, %d failures\n", nc, nf)
			return
		}
		fmt.Println(runCase(op))
		return
	}
	r := NewRng(scramble(*seed))
	sink := NewSink(*out)
	if *opsFile != "" {
		for _, line := range ReadLines(*opsFile) {
			op, err := Parse(line)
			if err != nil {
				continue
			}
			sink.Case(line, func() string { return runCase(op) })
		}
		sink.Close()
		fmt.Printf("{\"cases\": %d}\n", sink.N)
		return
	}
	e := &emitter{sink: sink}
	probes(e)
	floatProbes(e)
	identityFreshness(e)
	compareExtremes(e)
	mergeIdentityCoarseHasher(e)
	for i := 0; i < *n; i++ {
		genCase(r, e)
	}
	sink.Close()
	keys := make([]string, 0, len(hist))
	for k := range hist {
		keys = append(keys, k)
	}
	sort.Strings(keys)
	fmt.Printf("{\"cases\": %d, \"direct_checks\": %d, \"direct_failures\": %d, \"histogram\": {", sink.N, e.checks, sink.DirectFailures)
	for i, k := range keys {
		if i > 0 {
			fmt.Print(", ")
		}
		fmt.Printf("%q: %d", k, hist[k])
	}
	fmt.Println("}}")
}
